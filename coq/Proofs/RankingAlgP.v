(* C03 / C12 / C17 / C01 (positive part) lemmas for the ranking family. *)
From Coq Require Import ZArith List Bool QArith Qcanon String Lia Sorted Permutation.
From TE Require Import Base.Val Base.Nd Base.Xq Algebra.Metric Algebra.MergeTree Algebra.Pool
  Algebra.Additive Algebra.Cache Models.Ranking Proofs.RankingP Proofs.GenericP Proofs.RegAlgP.
Import ListNotations.
Open Scope list_scope.
Open Scope nat_scope.

(* ==========================================================================================
   1. ordered caches: class on any batching = functional model on the concatenation
   ========================================================================================== *)
Lemma forallb_concat {X} (p : X -> bool) : forall l, forallb p (List.concat l) = forallb (forallb p) l.
Proof. induction l as [|a l IH]; [reflexivity|]. cbn [List.concat forallb]. rewrite forallb_app, IH. reflexivity. Qed.
Lemma flat_map_map_concat {X Y} (g : X -> Y) : forall l : list (list X), flat_map (map g) l = map g (List.concat l).
Proof. induction l as [|a l IH]; [reflexivity|]. cbn [flat_map List.concat]. rewrite map_app, IH. reflexivity. Qed.

Lemma hit_valid_concat k b bs : Forall (fun b => hit_valid k b = true) (b :: bs) -> hit_valid k (List.concat (b :: bs)) = true.
Proof.
  intros H. unfold hit_valid. rewrite forallb_concat. apply andb_true_intro. split.
  - inversion H as [|? ? Hb _]; subst. unfold hit_valid in Hb. apply andb_prop in Hb. tauto.
  - apply forallb_forall. intros x Hx. rewrite Forall_forall in H. specialize (H x Hx).
    unfold hit_valid in H. apply andb_prop in H. tauto.
Qed.
Lemma rr_valid_concat k bs : Forall (fun b => rr_valid k b = true) bs -> rr_valid k (List.concat bs) = true.
Proof.
  intros H. unfold rr_valid. rewrite forallb_concat. apply forallb_forall. intros x Hx.
  rewrite Forall_forall in H. exact (H x Hx).
Qed.
Lemma hit_class_fn k bs : Forall (fun b => hit_valid k b = true) bs ->
  cmp hitrate_metric k (fold_left (upd hitrate_metric k) bs (init hitrate_metric k)) = hit_fn k (List.concat bs).
Proof.
  intros Hv. change (fold_left (upd hitrate_metric k) bs (init hitrate_metric k)) with (run hitrate_metric k (Shard hitrate_metric bs)).
  etransitivity; [exact (sc_merge_tree (option Z) hr_batch hit_valid hit_fn k (Shard hitrate_metric bs) Hv)|].
  cbn [stream]. apply flat_map_map_concat.
Qed.
Lemma rr_class_fn k bs : Forall (fun b => rr_valid k b = true) bs ->
  cmp rrank_metric k (fold_left (upd rrank_metric k) bs (init rrank_metric k)) = rr_fn k (List.concat bs).
Proof.
  intros Hv. change (fold_left (upd rrank_metric k) bs (init rrank_metric k)) with (run rrank_metric k (Shard rrank_metric bs)).
  etransitivity; [exact (sc_merge_tree (option Z) hr_batch rr_valid rr_fn k (Shard rrank_metric bs) Hv)|].
  cbn [stream]. apply flat_map_map_concat.
Qed.
Lemma run_hitrate_fn_is kv bv k b : dec_oZ kv = Some k -> dec_hr_batch bv = Some b -> hit_valid k b = true ->
  run_hitrate_fn (VL [kv; bv]) = vlistQ (hit_fn k b).
Proof. intros Hk Hb Hv. unfold run_hitrate_fn. rewrite Hk, Hb, Hv. reflexivity. Qed.
Lemma run_rrank_fn_is kv bv k b : dec_oZ kv = Some k -> dec_hr_batch bv = Some b -> rr_valid k b = true ->
  run_rrank_fn (VL [kv; bv]) = vlistQ (rr_fn k b).
Proof. intros Hk Hb Hv. unfold run_rrank_fn. rewrite Hk, Hb, Hv. reflexivity. Qed.
Lemma hit_rebatch k bs bs' : Forall (fun b => hit_valid k b = true) bs -> Forall (fun b => hit_valid k b = true) bs' ->
  List.concat bs = List.concat bs' ->
  cmp hitrate_metric k (fold_left (upd hitrate_metric k) bs (init hitrate_metric k)) =
  cmp hitrate_metric k (fold_left (upd hitrate_metric k) bs' (init hitrate_metric k)).
Proof. intros H1 H2 He. rewrite !hit_class_fn by assumption. rewrite He. reflexivity. Qed.
Lemma rr_rebatch k bs bs' : Forall (fun b => rr_valid k b = true) bs -> Forall (fun b => rr_valid k b = true) bs' ->
  List.concat bs = List.concat bs' ->
  cmp rrank_metric k (fold_left (upd rrank_metric k) bs (init rrank_metric k)) =
  cmp rrank_metric k (fold_left (upd rrank_metric k) bs' (init rrank_metric k)).
Proof. intros H1 H2 He. rewrite !rr_class_fn by assumption. rewrite He. reflexivity. Qed.

(* ==========================================================================================
   2. ClickThroughRate / WeightedCalibration: concatenation of batches along the sample dimension
      (weights materialised per sample), additivity of beta, validity of the concatenation
   ========================================================================================== *)
Definition dotp (ws xs : list Qc) : Qc := rk_sumQ (map2 Qcmult ws xs).
Definition wmat (w : rk_w) (rows : list (list Qc)) : list (list Qc) := mapi (fun i xs => weights_of w i xs) rows.
Definition rl_ok (W rows : list (list Qc)) : bool :=
  forallb (fun p => Nat.eqb (List.length (fst p)) (List.length (snd p))) (combine W rows).
Definition uniform (n : nat) (rows : list (list Qc)) : bool := forallb (fun r => Nat.eqb (List.length r) n) rows.
Definition rowlen (rows : list (list Qc)) : nat := match rows with [] => 0 | r :: _ => List.length r end.

Lemma mapi_from_ext {X Y} (f f' : nat -> X -> Y) : (forall j x, f j x = f' j x) -> forall l i, mapi_from i f l = mapi_from i f' l.
Proof. intros H. induction l as [|x l IH]; intros i; cbn [mapi_from]; [reflexivity|]. rewrite H, IH. reflexivity. Qed.
Lemma mapi_from_map2 {X Y Z} (h : nat -> X -> Y) (g : Y -> X -> Z) : forall l i,
  mapi_from i (fun j x => g (h j x) x) l = map2 g (mapi_from i h l) l.
Proof. induction l as [|x l IH]; intros i; cbn [mapi_from map2]; [reflexivity|]. rewrite IH. reflexivity. Qed.
Lemma mapi_from_map {X Y Z} (h : nat -> X -> Y) (g : Y -> Z) : forall l i,
  mapi_from i (fun j x => g (h j x)) l = map g (mapi_from i h l).
Proof. induction l as [|x l IH]; intros i; cbn [mapi_from map]; [reflexivity|]. rewrite IH. reflexivity. Qed.
Lemma map2_length {X Y Z} (f : X -> Y -> Z) : forall a b, List.length (map2 f a b) = Nat.min (List.length a) (List.length b).
Proof. induction a as [|x a IH]; intros [|y b]; cbn [map2 List.length Nat.min]; try reflexivity. rewrite IH. reflexivity. Qed.

Lemma wdot_mat w rows : mapi (wdot w) rows = map2 dotp (wmat w rows) rows.
Proof.
  unfold mapi, wmat, mapi. rewrite <- (mapi_from_map2 (fun i xs => weights_of w i xs) dotp).
  apply mapi_from_ext. intros j x. apply wdot_spec.
Qed.
Lemma wtotal_mat w rows : mapi (wtotal w) rows = map rk_sumQ (wmat w rows).
Proof.
  unfold mapi, wmat, mapi. rewrite <- (mapi_from_map (fun i xs => weights_of w i xs) rk_sumQ).
  apply mapi_from_ext. intros j x. apply wtotal_spec.
Qed.
Lemma wmat_ten_gen : forall W rows pre, List.length W = List.length rows ->
  mapi_from (List.length pre) (fun j (_ : list Qc) => nth j (pre ++ W) (@nil Qc)) rows = W.
Proof.
  induction W as [|x W IH]; intros [|r rows] pre Hl; cbn in Hl; try discriminate; cbn [mapi_from]; [reflexivity|].
  rewrite app_nth2 by lia. rewrite Nat.sub_diag. cbn [nth]. f_equal.
  replace (S (List.length pre)) with (List.length (pre ++ [x])) by (rewrite app_length; cbn; lia).
  replace (pre ++ x :: W) with ((pre ++ [x]) ++ W) by (rewrite <- app_assoc; reflexivity).
  apply IH. lia.
Qed.
Lemma wmat_ten W rows : List.length W = List.length rows -> wmat (WTen W) rows = W.
Proof. intros H. unfold wmat, mapi. cbn [weights_of]. exact (wmat_ten_gen W rows [] H). Qed.
Lemma wmat_length w rows : List.length (wmat w rows) = List.length rows.
Proof. apply mapi_from_length. Qed.
Lemma shape_eq_parts a b : shape_eq a b = true -> List.length a = List.length b /\ rl_ok a b = true.
Proof. unfold shape_eq. intros H. apply andb_prop in H as [H1 H2]. split; [apply Nat.eqb_eq, H1|exact H2]. Qed.
Lemma wmat_rl w rows : w_ok rows w = true -> rl_ok (wmat w rows) rows = true.
Proof.
  destruct w as [w|W]; cbn [w_ok]; intros H.
  - unfold wmat, mapi, rl_ok. cbn [weights_of]. generalize 0. induction rows as [|r rows IH]; intros i; [reflexivity|].
    cbn [mapi_from combine forallb fst snd]. rewrite repeat_length, Nat.eqb_refl. apply IH.
  - apply shape_eq_parts in H as [Hl Hr]. rewrite (wmat_ten W rows Hl). exact Hr.
Qed.

Lemma rk_sumQ_app a b : rk_sumQ (a ++ b) = (rk_sumQ a + rk_sumQ b)%Qc.
Proof. unfold rk_sumQ. induction a as [|x a IH]; cbn [app fold_right]; [ring|]. rewrite IH. ring. Qed.
Lemma rk_map2_app {X Y Z} (g : X -> Y -> Z) : forall a b a' b', List.length a = List.length b ->
  map2 g (a ++ a') (b ++ b') = map2 g a b ++ map2 g a' b'.
Proof.
  induction a as [|x a IH]; intros [|y b] a' b' H; cbn in H; try discriminate; cbn [app map2]; [reflexivity|].
  rewrite IH by lia. reflexivity.
Qed.
Lemma dotp_app wa wb xa xb : List.length wa = List.length xa -> dotp (wa ++ wb) (xa ++ xb) = (dotp wa xa + dotp wb xb)%Qc.
Proof. intros H. unfold dotp. rewrite rk_map2_app by exact H. apply rk_sumQ_app. Qed.
Lemma dot_cat : forall Wa r Wb r', rl_ok Wa r = true ->
  map2 dotp (map2 (@app Qc) Wa Wb) (map2 (@app Qc) r r') = map2 Qcplus (map2 dotp Wa r) (map2 dotp Wb r').
Proof.
  induction Wa as [|wa Wa IH]; intros [|x r] [|wb Wb] [|x' r'] H; cbn [map2]; try reflexivity.
  unfold rl_ok in H. cbn [combine forallb fst snd] in H. apply andb_prop in H as [H1 H2]. apply Nat.eqb_eq in H1.
  rewrite (dotp_app wa wb x x' H1). f_equal. apply IH. exact H2.
Qed.
Lemma sum_cat : forall Wa Wb, map rk_sumQ (map2 (@app Qc) Wa Wb) = map2 Qcplus (map rk_sumQ Wa) (map rk_sumQ Wb).
Proof. induction Wa as [|wa Wa IH]; intros [|wb Wb]; cbn [map2 map]; try reflexivity. rewrite rk_sumQ_app, IH. reflexivity. Qed.
Lemma rl_cat : forall Wa r Wb r', rl_ok Wa r = true -> rl_ok Wb r' = true ->
  rl_ok (map2 (@app Qc) Wa Wb) (map2 (@app Qc) r r') = true.
Proof.
  unfold rl_ok. induction Wa as [|wa Wa IH]; intros [|x r] [|wb Wb] [|x' r'] H H'; cbn [map2 combine forallb]; try reflexivity.
  cbn [combine forallb fst snd] in H, H'. apply andb_prop in H as [H1 H2]. apply andb_prop in H' as [H1' H2'].
  apply Nat.eqb_eq in H1. apply Nat.eqb_eq in H1'. cbn [fst snd]. rewrite !app_length, H1, H1', Nat.eqb_refl. apply IH; assumption.
Qed.

Lemma nadd_nvec a b : nadd (nvec a) (nvec b) = nvec (map2 Qcplus a b).
Proof.
  unfold nvec. rewrite nadd_arr. f_equal. revert b. induction a as [|x a IH]; intros [|y b]; cbn [map map2]; try reflexivity.
  rewrite IH. reflexivity.
Qed.
Lemma nadd_pairvec a b a' b' :
  nadd (Arr [nvec a; nvec b]) (Arr [nvec a'; nvec b']) = Arr [nvec (map2 Qcplus a a'); nvec (map2 Qcplus b b')].
Proof. rewrite nadd_arr. cbn [map2]. rewrite !nadd_nvec. reflexivity. Qed.

(* uniform row lengths *)
Lemma rows_ok_uniform nt rows : rows_ok nt rows = true -> List.length rows = nt /\ uniform (rowlen rows) rows = true.
Proof.
  unfold rows_ok. intros H. apply andb_prop in H as [H1 H2]. split; [apply Nat.eqb_eq, H1|].
  destruct rows as [|r rows]; [reflexivity|exact H2].
Qed.
Lemma uniform_rows_ok n rows : uniform n rows = true -> rows_ok (List.length rows) rows = true.
Proof.
  unfold rows_ok. intros H. rewrite Nat.eqb_refl. cbn [andb]. destruct rows as [|r rows]; [reflexivity|].
  unfold uniform in H. pose proof H as H0. cbn [forallb] in H0. apply andb_prop in H0 as [Hr _]. apply Nat.eqb_eq in Hr.
  rewrite Hr. exact H.
Qed.
Lemma uniform_cat n m : forall r r', uniform n r = true -> uniform m r' = true -> uniform (n + m) (map2 (@app Qc) r r') = true.
Proof.
  unfold uniform. induction r as [|x r IH]; intros [|x' r'] H H'; cbn [map2 forallb]; try reflexivity.
  cbn [forallb] in H, H'. apply andb_prop in H as [H1 H2]. apply andb_prop in H' as [H1' H2'].
  apply Nat.eqb_eq in H1. apply Nat.eqb_eq in H1'. rewrite app_length, H1, H1', Nat.eqb_refl. apply IH; assumption.
Qed.
Lemma rows_ok_cat nt r r' : rows_ok nt r = true -> rows_ok nt r' = true -> rows_ok nt (map2 (@app Qc) r r') = true.
Proof.
  intros H H'. apply rows_ok_uniform in H as [Hl Hu]. apply rows_ok_uniform in H' as [Hl' Hu'].
  pose proof (uniform_rows_ok _ _ (uniform_cat _ _ r r' Hu Hu')) as Hk.
  rewrite map2_length, Hl, Hl', Nat.min_id in Hk. exact Hk.
Qed.

(* ---- CTR ---- *)
Definition ctr_cat (a b : ctr_batch) : ctr_batch :=
  (map2 (@app Qc) (fst a) (fst b), WTen (map2 (@app Qc) (wmat (snd a) (fst a)) (wmat (snd b) (fst b)))).
Lemma ctr_valid_parts nt b : ctr_valid nt b = true -> rows_ok nt (fst b) = true /\ w_ok (fst b) (snd b) = true.
Proof. unfold ctr_valid. intros H. apply andb_prop in H. exact H. Qed.
Lemma ctr_cat_wlen a b : List.length (fst a) = List.length (fst b) ->
  List.length (map2 (@app Qc) (wmat (snd a) (fst a)) (wmat (snd b) (fst b))) = List.length (map2 (@app Qc) (fst a) (fst b)).
Proof. intros H. rewrite !map2_length, !wmat_length. reflexivity. Qed.
Lemma ctr_valid_cat nt a b : ctr_valid nt a = true -> ctr_valid nt b = true -> ctr_valid nt (ctr_cat a b) = true.
Proof.
  intros Ha Hb. destruct (ctr_valid_parts nt a Ha) as [Ra Wa]. destruct (ctr_valid_parts nt b Hb) as [Rb Wb].
  unfold ctr_valid, ctr_cat. cbn [fst snd]. rewrite (rows_ok_cat nt _ _ Ra Rb). cbn [andb w_ok]. unfold shape_eq.
  apply rows_ok_uniform in Ra as [La _]. apply rows_ok_uniform in Rb as [Lb _].
  rewrite ctr_cat_wlen by congruence. rewrite Nat.eqb_refl. cbn [andb].
  apply rl_cat; apply wmat_rl; assumption.
Qed.
Lemma ctr_beta_cat nt a b : ctr_valid nt a = true -> ctr_valid nt b = true ->
  ctr_beta nt (ctr_cat a b) = nadd (ctr_beta nt a) (ctr_beta nt b).
Proof.
  intros Ha Hb. destruct (ctr_valid_parts nt a Ha) as [Ra Wa]. destruct (ctr_valid_parts nt b Hb) as [Rb Wb].
  apply rows_ok_uniform in Ra as [La _]. apply rows_ok_uniform in Rb as [Lb _].
  unfold ctr_beta. rewrite nadd_pairvec, !wdot_mat, !wtotal_mat. unfold ctr_cat. cbn [fst snd].
  rewrite wmat_ten by (apply ctr_cat_wlen; congruence).
  rewrite dot_cat by (apply wmat_rl; exact Wa). rewrite sum_cat. reflexivity.
Qed.
Definition ctr_alg := add_alg ctr_spec.
Lemma ctr_class_fn nt b bs : Forall (fun b => ctr_valid nt b = true) (b :: bs) ->
  cmp ctr_metric nt (fold_left (upd ctr_metric nt) (b :: bs) (init ctr_metric nt)) =
  ctr_gamma nt (ctr_beta nt (bconcat1 ctr_metric ctr_cat b bs)).
Proof. exact (class_eq_functional_nonempty ctr_metric ctr_alg nt ctr_cat (ctr_beta_cat nt) (ctr_valid_cat nt) b bs). Qed.
Lemma ctr_concat_valid nt b bs : Forall (fun b => ctr_valid nt b = true) (b :: bs) ->
  ctr_valid nt (bconcat1 ctr_metric ctr_cat b bs) = true.
Proof. intros H. exact (proj1 (bconcat1_spec ctr_metric ctr_alg nt ctr_cat (ctr_beta_cat nt) (ctr_valid_cat nt) bs b H)). Qed.

(* the functional model with the epsilon made explicit: ctr_fn is the float32 instance, the class
   (float64 accumulators) the float64 instance *)
Definition ctr_fn_eps (eps : Qc) (b : ctr_batch) : list Qc :=
  map2 (ctr_ratio eps) (mapi (wdot (snd b)) (fst b)) (mapi (wtotal (snd b)) (fst b)).
Lemma ctr_fn_is_eps32 nt b : ctr_fn nt b = ctr_fn_eps tiny32 b.
Proof. reflexivity. Qed.
Lemma ctr_gamma_beta nt b : ctr_gamma nt (ctr_beta nt b) = ctr_fn_eps tiny64 b.
Proof. unfold ctr_gamma, ctr_beta, ctr_fn_eps, nget. cbn [narr nth]. rewrite !nlist_nvec. reflexivity. Qed.
Lemma ctr_class_fn_eps nt b bs : Forall (fun b => ctr_valid nt b = true) (b :: bs) ->
  cmp ctr_metric nt (fold_left (upd ctr_metric nt) (b :: bs) (init ctr_metric nt)) =
  ctr_fn_eps tiny64 (bconcat1 ctr_metric ctr_cat b bs).
Proof. intros H. rewrite (ctr_class_fn nt b bs H). apply ctr_gamma_beta. Qed.
Lemma run_ctr_fn_is cv bv nt b : as_nat cv = Some nt -> dec_ctr_batch nt bv = Some b -> ctr_valid nt b = true ->
  run_ctr_fn (VL [cv; bv]) = squeeze1 nt (map vq (ctr_fn_eps tiny32 b)).
Proof. intros Hc Hb Hv. unfold run_ctr_fn. rewrite Hc, Hb, Hv. reflexivity. Qed.

(* ---- WeightedCalibration ---- *)
Definition wc_cat (a b : wc_batch) : wc_batch :=
  (map2 (@app Qc) (wc_in a) (wc_in b), map2 (@app Qc) (wc_tg a) (wc_tg b),
   WTen (map2 (@app Qc) (wmat (snd a) (wc_in a)) (wmat (snd b) (wc_in b)))).
Lemma rl_trans : forall A B C, List.length A = List.length B -> List.length C = List.length B ->
  rl_ok A B = true -> rl_ok C B = true -> rl_ok A C = true.
Proof.
  unfold rl_ok. induction A as [|a A IH]; intros [|b B] [|c C] H1 H2 HA HC; cbn in H1, H2; try discriminate; [reflexivity|].
  cbn [combine forallb fst snd] in *. apply andb_prop in HA as [A1 A2]. apply andb_prop in HC as [C1 C2].
  apply Nat.eqb_eq in A1. apply Nat.eqb_eq in C1. rewrite A1, C1, Nat.eqb_refl. apply (IH B C); try assumption; lia.
Qed.
Lemma wmat_same w : forall t i, List.length t = List.length i -> rl_ok t i = true -> w_ok i w = true -> wmat w t = wmat w i.
Proof.
  destruct w as [w|W]; intros t i Hl Hr Hw.
  - unfold wmat, mapi. cbn [weights_of]. generalize 0. revert i Hl Hr Hw.
    induction t as [|x t IH]; intros [|y i] Hl Hr Hw n; cbn in Hl; try discriminate; [reflexivity|].
    unfold rl_ok in Hr. cbn [combine forallb fst snd] in Hr. apply andb_prop in Hr as [H1 H2]. apply Nat.eqb_eq in H1.
    cbn [mapi_from]. rewrite H1. f_equal. apply IH; [lia|exact H2|reflexivity].
  - cbn [w_ok] in Hw. apply shape_eq_parts in Hw as [HW _]. rewrite !wmat_ten by congruence. reflexivity.
Qed.
Lemma wc_valid_parts nt b : wc_valid nt b = true ->
  rows_ok nt (wc_in b) = true /\ shape_eq (wc_tg b) (wc_in b) = true /\ w_ok (wc_in b) (snd b) = true.
Proof. unfold wc_valid. intros H. apply andb_prop in H as [H H3]. apply andb_prop in H as [H1 H2]. tauto. Qed.
Lemma wc_valid_cat nt a b : wc_valid nt a = true -> wc_valid nt b = true -> wc_valid nt (wc_cat a b) = true.
Proof.
  intros Ha Hb. destruct (wc_valid_parts nt a Ha) as [Ra [Sa Wa]]. destruct (wc_valid_parts nt b Hb) as [Rb [Sb Wb]].
  apply shape_eq_parts in Sa as [SLa SRa]. apply shape_eq_parts in Sb as [SLb SRb].
  unfold wc_valid, wc_cat, wc_in, wc_tg. cbn [fst snd]. fold (wc_in a) (wc_in b) (wc_tg a) (wc_tg b).
  rewrite (rows_ok_cat nt _ _ Ra Rb). cbn [andb].
  apply rows_ok_uniform in Ra as [La _]. apply rows_ok_uniform in Rb as [Lb _].
  apply andb_true_intro. split.
  - unfold shape_eq. rewrite !map2_length, SLa, SLb, Nat.eqb_refl. cbn [andb]. apply (rl_cat _ _ _ _ SRa SRb).
  - cbn [w_ok]. unfold shape_eq. rewrite !map2_length, !wmat_length, Nat.eqb_refl. cbn [andb].
    apply rl_cat; apply wmat_rl; assumption.
Qed.
Lemma wc_beta_cat nt a b : wc_valid nt a = true -> wc_valid nt b = true ->
  wc_beta nt (wc_cat a b) = nadd (wc_beta nt a) (wc_beta nt b).
Proof.
  intros Ha Hb. destruct (wc_valid_parts nt a Ha) as [Ra [Sa Wa]]. destruct (wc_valid_parts nt b Hb) as [Rb [Sb Wb]].
  apply shape_eq_parts in Sa as [SLa SRa]. apply shape_eq_parts in Sb as [SLb SRb].
  apply rows_ok_uniform in Ra as [La _]. apply rows_ok_uniform in Rb as [Lb _].
  assert (Ei : wc_in (wc_cat a b) = map2 (@app Qc) (wc_in a) (wc_in b)) by reflexivity.
  assert (Et : wc_tg (wc_cat a b) = map2 (@app Qc) (wc_tg a) (wc_tg b)) by reflexivity.
  assert (Ew : snd (wc_cat a b) = WTen (map2 (@app Qc) (wmat (snd a) (wc_in a)) (wmat (snd b) (wc_in b)))) by reflexivity.
  unfold wc_beta. rewrite Ei, Et, Ew. rewrite nadd_pairvec, !wdot_mat.
  rewrite (wmat_same (snd a) (wc_tg a) (wc_in a) SLa SRa Wa), (wmat_same (snd b) (wc_tg b) (wc_in b) SLb SRb Wb).
  assert (HWi : List.length (map2 (@app Qc) (wmat (snd a) (wc_in a)) (wmat (snd b) (wc_in b))) = List.length (map2 (@app Qc) (wc_in a) (wc_in b)))
    by (rewrite !map2_length, !wmat_length; reflexivity).
  assert (HWt : List.length (map2 (@app Qc) (wmat (snd a) (wc_in a)) (wmat (snd b) (wc_in b))) = List.length (map2 (@app Qc) (wc_tg a) (wc_tg b)))
    by (rewrite !map2_length, !wmat_length, SLa, SLb; reflexivity).
  rewrite (wmat_ten _ _ HWi), (wmat_ten _ _ HWt).
  rewrite dot_cat by (apply wmat_rl; exact Wa).
  rewrite dot_cat; [reflexivity|].
  apply (rl_trans _ (wc_in a) _); [apply wmat_length|exact SLa|apply wmat_rl; exact Wa|exact SRa].
Qed.
Definition wc_alg := add_alg wc_spec.
Lemma wc_class_fn nt b bs : Forall (fun b => wc_valid nt b = true) (b :: bs) ->
  cmp wc_metric nt (fold_left (upd wc_metric nt) (b :: bs) (init wc_metric nt)) =
  wc_gamma nt (wc_beta nt (bconcat1 wc_metric wc_cat b bs)).
Proof. exact (class_eq_functional_nonempty wc_metric wc_alg nt wc_cat (wc_beta_cat nt) (wc_valid_cat nt) b bs). Qed.
Lemma wc_concat_valid nt b bs : Forall (fun b => wc_valid nt b = true) (b :: bs) ->
  wc_valid nt (bconcat1 wc_metric wc_cat b bs) = true.
Proof. intros H. exact (proj1 (bconcat1_spec wc_metric wc_alg nt wc_cat (wc_beta_cat nt) (wc_valid_cat nt) bs b H)). Qed.
(* class = the functional model on the concatenation, unless nothing at all was accumulated (then the
   class returns the empty tensor by its documented convention) *)
Lemma wc_gamma_beta nt b : wc_nothing (wc_beta nt b) = false -> wc_gamma nt (wc_beta nt b) = wc_fn nt b.
Proof.
  intros H. rewrite (wc_gamma_value nt _ H). unfold wc_beta, wc_fn, nget. cbn [narr nth]. rewrite !nlist_nvec. reflexivity.
Qed.
Lemma wc_class_fn_model nt b bs : Forall (fun b => wc_valid nt b = true) (b :: bs) ->
  let B := bconcat1 wc_metric wc_cat b bs in
  wc_nothing (wc_beta nt B) = false ->
  cmp wc_metric nt (fold_left (upd wc_metric nt) (b :: bs) (init wc_metric nt)) = wc_fn nt B.
Proof. intros H B Hn. rewrite (wc_class_fn nt b bs H). apply wc_gamma_beta. exact Hn. Qed.
Lemma run_wcal_fn_is cv bv nt b : as_nat cv = Some nt -> dec_wc_batch nt bv = Some b -> wc_valid nt b = true ->
  run_wcal_fn (VL [cv; bv]) = squeeze1 nt (map xq_val (wc_fn nt b)).
Proof. intros Hc Hb Hv. unfold run_wcal_fn. rewrite Hc, Hb, Hv. reflexivity. Qed.

(* C12: order of updates is irrelevant (commutative monoid); re-batching with the same concatenation too *)
Lemma ctr_order nt bs bs' : Forall (fun b => ctr_valid nt b = true) bs -> Permutation bs bs' ->
  cmp ctr_metric nt (fold_left (upd ctr_metric nt) bs (init ctr_metric nt)) =
  cmp ctr_metric nt (fold_left (upd ctr_metric nt) bs' (init ctr_metric nt)).
Proof. exact (order_invariant_gen ctr_metric ctr_alg nt (add_alg_comm ctr_spec) bs bs'). Qed.
Lemma wc_order nt bs bs' : Forall (fun b => wc_valid nt b = true) bs -> Permutation bs bs' ->
  cmp wc_metric nt (fold_left (upd wc_metric nt) bs (init wc_metric nt)) =
  cmp wc_metric nt (fold_left (upd wc_metric nt) bs' (init wc_metric nt)).
Proof. exact (order_invariant_gen wc_metric wc_alg nt (add_alg_comm wc_spec) bs bs'). Qed.
Lemma ctr_rebatch nt b bs b' bs' :
  Forall (fun b => ctr_valid nt b = true) (b :: bs) -> Forall (fun b => ctr_valid nt b = true) (b' :: bs') ->
  ctr_beta nt (bconcat1 ctr_metric ctr_cat b bs) = ctr_beta nt (bconcat1 ctr_metric ctr_cat b' bs') ->
  cmp ctr_metric nt (fold_left (upd ctr_metric nt) (b :: bs) (init ctr_metric nt)) =
  cmp ctr_metric nt (fold_left (upd ctr_metric nt) (b' :: bs') (init ctr_metric nt)).
Proof. intros H H' He. rewrite (ctr_class_fn nt b bs H), (ctr_class_fn nt b' bs' H'), He. reflexivity. Qed.
Lemma wc_rebatch nt b bs b' bs' :
  Forall (fun b => wc_valid nt b = true) (b :: bs) -> Forall (fun b => wc_valid nt b = true) (b' :: bs') ->
  wc_beta nt (bconcat1 wc_metric wc_cat b bs) = wc_beta nt (bconcat1 wc_metric wc_cat b' bs') ->
  cmp wc_metric nt (fold_left (upd wc_metric nt) (b :: bs) (init wc_metric nt)) =
  cmp wc_metric nt (fold_left (upd wc_metric nt) (b' :: bs') (init wc_metric nt)).
Proof. intros H H' He. rewrite (wc_class_fn nt b bs H), (wc_class_fn nt b' bs' H'), He. reflexivity. Qed.

(* ==========================================================================================
   3. retrieval classes, C01 positive part: state after ANY merge tree
   ========================================================================================== *)
Lemma topk_app_cong K A A' B B' : topk K A = topk K A' -> topk K B = topk K B' -> topk K (A ++ B) = topk K (A' ++ B').
Proof.
  intros HA HB. rewrite <- (topk_retention K A B), <- (topk_retention_r K (topk K A) B), HA, HB.
  rewrite topk_retention_r, topk_retention. reflexivity.
Qed.
Lemma rupd1_topk_gen c i b si : topk (r_k c) (rupd1 c i b si) = topk (r_k c) (si ++ rsel_items c i b).
Proof.
  unfold rupd1, rsel_items. destruct (rsel (r_nq c) i b) as [its|]; [apply topk_idem|rewrite app_nil_r; reflexivity].
Qed.
Lemma rupd1_incl c i b si : incl (rupd1 c i b si) (si ++ rsel_items c i b).
Proof.
  unfold rupd1, rsel_items. destruct (rsel (r_nq c) i b) as [its|].
  - intros x Hx. eapply in_topk. exact Hx.
  - rewrite app_nil_r. apply incl_refl.
Qed.
Lemma rupd_fold_topk c i : forall bs s D, i < List.length s -> topk (r_k c) (nth i s []) = topk (r_k c) D ->
  topk (r_k c) (nth i (fold_left (rupd c) bs s) []) = topk (r_k c) (D ++ rdata c i bs).
Proof.
  induction bs as [|b bs IH]; intros s D Hi Hs; cbn [fold_left].
  - cbn. rewrite app_nil_r. exact Hs.
  - rewrite rdata_cons, app_assoc. apply IH; [rewrite rupd_length; exact Hi|].
    rewrite rupd_nth by exact Hi. rewrite rupd1_topk_gen. apply topk_app_cong; [exact Hs|reflexivity].
Qed.
Lemma rupd_fold_incl c i : forall bs s D, i < List.length s -> incl (nth i s []) D ->
  incl (nth i (fold_left (rupd c) bs s) []) (D ++ rdata c i bs).
Proof.
  induction bs as [|b bs IH]; intros s D Hi Hs; cbn [fold_left].
  - cbn. rewrite app_nil_r. exact Hs.
  - rewrite rdata_cons, app_assoc. apply IH; [rewrite rupd_length; exact Hi|].
    rewrite rupd_nth by exact Hi. eapply incl_tran; [apply rupd1_incl|]. apply incl_app; [apply incl_appl, Hs|apply incl_appr, incl_refl].
Qed.
Lemma rdata_app c i a b : rdata c i (a ++ b) = rdata c i a ++ rdata c i b.
Proof. unfold rdata. apply flat_map_app. Qed.

Section RetrTree.
Variable recall : bool.
Variable c : rcfg.
Notation M := (retr_metric recall).
Definition tree_inv (t : mtree M) : Prop :=
  List.length (run M c t) = r_nq c /\
  forall i, i < r_nq c ->
    topk (r_k c) (nth i (run M c t) []) = topk (r_k c) (rdata c i (stream M t)) /\
    incl (nth i (run M c t) []) (rdata c i (stream M t)).

Lemma sources_inv i : forall os : list (mtree M), Forall tree_inv os -> i < r_nq c ->
  topk (r_k c) (flat_map (fun m : rstate => nth i m []) (map (run M c) os)) = topk (r_k c) (rdata c i (flat_map (stream M) os)) /\
  incl (flat_map (fun m : rstate => nth i m []) (map (run M c) os)) (rdata c i (flat_map (stream M) os)).
Proof.
  induction 1 as [|o os Ho _ IH]; intros Hi; [split; [reflexivity|apply incl_refl]|].
  cbn [map flat_map]. rewrite rdata_app. destruct (IH Hi) as [IH1 IH2]. destruct Ho as [_ Ho]. destruct (Ho i Hi) as [Ho1 Ho2].
  split; [apply topk_app_cong; assumption|]. apply incl_app; [apply incl_appl, Ho2|apply incl_appr, IH2].
Qed.

Theorem retr_tree_state : forall t : mtree M, tree_inv t.
Proof.
  induction t as [bs|t os post IHt IHos] using mtree_ind'.
  - split.
    + change (List.length (fold_left (rupd c) bs (repeat [] (r_nq c))) = r_nq c). rewrite rupd_fold_length. apply repeat_length.
    + intros i Hi. pose proof (retr_class_state recall c bs i Hi) as H. cbn [run stream]. rewrite H. split; [apply topk_idem|].
      intros x Hx. eapply in_topk. exact Hx.
  - destruct IHt as [Lt St]. unfold tree_inv.
    change (run M c (Merge M t os post)) with (fold_left (rupd c) post (rmrg c (run M c t) (map (run M c) os))).
    cbn [stream]. split.
    + rewrite rupd_fold_length, rmrg_length. exact Lt.
    + intros i Hi. destruct (St i Hi) as [St1 St2]. destruct (sources_inv i os IHos Hi) as [So1 So2].
      rewrite !rdata_app, app_assoc.
      assert (Hl : i < List.length (rmrg c (run M c t) (map (run M c) os))) by (rewrite rmrg_length, Lt; exact Hi).
      split.
      * apply rupd_fold_topk; [exact Hl|]. rewrite rmrg_nth by (rewrite Lt; exact Hi). apply topk_app_cong; assumption.
      * apply rupd_fold_incl; [exact Hl|]. rewrite rmrg_nth by (rewrite Lt; exact Hi).
        apply incl_app; [apply incl_appl, St2|apply incl_appr, So2].
Qed.
End RetrTree.

(* ---- RetrievalPrecision with empty_target_action = "neg": compute() factors through the top-k ---- *)
Definition labels01 (l : list item) : Prop := Forall (fun p => snd p = 0%Z \/ snd p = 1%Z) l.
Lemma labels01_no1_sum l : labels01 l -> has1 l = false -> sumlab l = 0%Z.
Proof.
  induction 1 as [|p l Hp _ IH]; intros H; [reflexivity|]. unfold has1 in H. cbn [existsb] in H.
  apply orb_false_iff in H as [H1 H2]. rewrite sumlab_cons, (IH H2). destruct Hp as [->|Hp]; [reflexivity|].
  rewrite Hp in H1. discriminate H1.
Qed.
Lemma labels01_incl l l' : incl l l' -> labels01 l' -> labels01 l.
Proof. unfold labels01. rewrite !Forall_forall. intros Hi H x Hx. apply H, Hi, Hx. Qed.
Lemma zq_nonzero n : n <> 0 -> qeq (zq (Z.of_nat n)) 0 = false.
Proof.
  intros Hn. unfold qeq. destruct (Qc_eq_dec (zq (Z.of_nat n)) 0) as [E|]; [|reflexivity].
  exfalso. apply (f_equal this) in E. unfold zq, mkq in E. cbn [this Q2Qc] in E.
  assert (H : Qeq (Z.of_nat n # 1) 0).
  { rewrite <- (Qred_correct (Z.of_nat n # 1)). rewrite E. reflexivity. }
  unfold Qeq in H. cbn in H. lia.
Qed.
Lemma rquery_prec_neg_topk c s : r_act c = ANeg -> r_k c <> Some 0 -> labels01 s ->
  rquery false c s = rquery false c (topk (r_k c) s).
Proof.
  intros Ha Hk Hl. unfold rquery. rewrite (topk_is_nil _ s Hk). destruct (is_nil s) eqn:En; [reflexivity|].
  rewrite Ha. cbn [act_val].
  destruct (has1 (topk (r_k c) s)) eqn:Ht.
  - rewrite (has1_topk _ _ Ht). cbn [negb]. f_equal. unfold prec_fn. rewrite topk_idem, nb_retrieved_topk. reflexivity.
  - cbn [negb]. destruct (has1 s) eqn:Hs; cbn [negb]; [|reflexivity]. f_equal. unfold prec_fn.
    assert (Hsum : sumlab (topk (r_k c) s) = 0%Z).
    { apply labels01_no1_sum; [|exact Ht]. apply (labels01_incl _ s); [|exact Hl]. intros x Hx. eapply in_topk. exact Hx. }
    rewrite Hsum. unfold qdivx. rewrite zq_nonzero.
    + f_equal. change (zq 0) with 0%Qc. unfold Qcdiv. ring.
    + destruct s as [|x s]; [discriminate En|]. destruct (r_k c) as [[|k]|]; [congruence| |]; cbn [nb_retrieved List.length];
        [destruct (r_lim c)|]; lia.
Qed.

(* RetrievalPrecision, "neg", any k / limit_k_to_size / num_queries / avg: after ANY merge tree compute()
   is the closed form on the top-k of all data routed to each query *)
Theorem rprec_neg_tree c (t : mtree (retr_metric false)) : r_act c = ANeg -> r_k c <> Some 0 ->
  (forall i, i < r_nq c -> labels01 (rdata c i (stream (retr_metric false) t))) ->
  cmp (retr_metric false) c (run (retr_metric false) c t) =
  rfinish c (map (fun i => rquery false c (topk (r_k c) (rdata c i (stream (retr_metric false) t)))) (seq 0 (r_nq c))).
Proof.
  intros Ha Hk Hl. destruct (retr_tree_state false c t) as [Len St].
  change (cmp (retr_metric false) c (run (retr_metric false) c t)) with (rcmp false c (run (retr_metric false) c t)).
  unfold rcmp. f_equal. rewrite (list_as_nth [] (run (retr_metric false) c t)) at 1. rewrite map_map, Len.
  apply map_ext_in. intros i Hi. apply in_seq in Hi. assert (Hi' : i < r_nq c) by lia. destruct (St i Hi') as [S1 S2].
  rewrite (rquery_prec_neg_topk c _ Ha Hk (labels01_incl _ _ S2 (Hl i Hi'))). rewrite S1. reflexivity.
Qed.
Lemma rdata_perm c i bs bs' : Permutation bs bs' -> Permutation (rdata c i bs) (rdata c i bs').
Proof. intros H. unfold rdata. apply Permutation_flat_map, H. Qed.
Theorem rprec_neg_sharding c (t t' : mtree (retr_metric false)) : r_act c = ANeg -> r_k c <> Some 0 ->
  (forall i, i < r_nq c -> labels01 (rdata c i (stream (retr_metric false) t))) ->
  Permutation (stream (retr_metric false) t) (stream (retr_metric false) t') ->
  cmp (retr_metric false) c (run (retr_metric false) c t) = cmp (retr_metric false) c (run (retr_metric false) c t').
Proof.
  intros Ha Hk Hl Hp. rewrite (rprec_neg_tree c t Ha Hk Hl), (rprec_neg_tree c t' Ha Hk).
  - f_equal. apply map_ext. intros i. rewrite (topk_perm_inv _ _ _ (rdata_perm c i _ _ Hp)). reflexivity.
  - intros i Hi. unfold labels01. eapply Permutation_Forall; [apply rdata_perm, Hp|apply Hl, Hi].
Qed.

(* witnesses for the remaining (class, option) combinations, k = 1 *)
Lemma precision_merge_refuted_all a : a <> ANeg ->
  let t := wit_tree false [b1 900 0] [b1 100 1] in
  enc_rout (wit_cfg a) (cmp (retr_metric false) (wit_cfg a) (run (retr_metric false) (wit_cfg a) t)) <>
  enc_rout (wit_cfg a) (cmp (retr_metric false) (wit_cfg a) (run (retr_metric false) (wit_cfg a) (Shard (retr_metric false) (stream (retr_metric false) t)))).
Proof. intros Ha. destruct a; [congruence| | |]; vm_compute; discriminate. Qed.
Lemma recall_merge_refuted_all a :
  let t := wit_tree true [b1 900 1] [b1 100 1] in
  enc_rout (wit_cfg a) (cmp (retr_metric true) (wit_cfg a) (run (retr_metric true) (wit_cfg a) t)) <>
  enc_rout (wit_cfg a) (cmp (retr_metric true) (wit_cfg a) (run (retr_metric true) (wit_cfg a) (Shard (retr_metric true) (stream (retr_metric true) t)))).
Proof. destruct a; vm_compute; discriminate. Qed.

(* ==========================================================================================
   4. C17: metamorphic invariances
   ========================================================================================== *)
From TE Require Proofs.MetamorphicP.
Definition iremap (f : Z -> Z) (x : item) : item := (f (fst x), snd x).
Lemma ge2_remap f : MetamorphicP.strictly_increasing f -> forall a b, ge2 (iremap f a) (iremap f b) = ge2 a b.
Proof.
  intros Hf a b. unfold ge2, iremap. cbn [fst snd].
  rewrite <- (Hf (fst b) (fst a)), <- (MetamorphicP.si_eqb f Hf (fst a) (fst b)). reflexivity.
Qed.
Lemma ins_remap f : MetamorphicP.strictly_increasing f -> forall x l, ins (iremap f x) (map (iremap f) l) = map (iremap f) (ins x l).
Proof.
  intros Hf x. induction l as [|y r IH]; [reflexivity|]. cbn [map]. rewrite !ins_cons, (ge2_remap f Hf).
  destruct (ge2 x y); [reflexivity|]. cbn [map]. rewrite IH. reflexivity.
Qed.
Lemma sortd_remap f : MetamorphicP.strictly_increasing f -> forall l, sortd (map (iremap f) l) = map (iremap f) (sortd l).
Proof.
  intros Hf. induction l as [|x l IH]; [reflexivity|]. cbn [map]. rewrite !sortd_cons, IH. apply ins_remap, Hf.
Qed.
Lemma topk_remap f : MetamorphicP.strictly_increasing f -> forall k l, topk k (map (iremap f) l) = map (iremap f) (topk k l).
Proof.
  intros Hf k l. destruct k as [k|]; cbn [topk]; rewrite (sortd_remap f Hf); [|reflexivity]. apply firstn_map.
Qed.
Lemma sumlab_remap f l : sumlab (map (iremap f) l) = sumlab l.
Proof. unfold sumlab. rewrite map_map. reflexivity. Qed.
Lemma prec_fn_monotone f : MetamorphicP.strictly_increasing f -> forall k lim l,
  prec_fn k lim (map (iremap f) l) = prec_fn k lim l.
Proof. intros Hf k lim l. unfold prec_fn. rewrite (topk_remap f Hf), !sumlab_remap, map_length. reflexivity. Qed.
Lemma rec_fn_monotone f : MetamorphicP.strictly_increasing f -> forall k l,
  rec_fn k (map (iremap f) l) = rec_fn k l.
Proof. intros Hf k l. unfold rec_fn. rewrite (topk_remap f Hf), !sumlab_remap. reflexivity. Qed.
(* a strictly increasing map keeps scores tie-free *)
Lemma tie_free_remap f : MetamorphicP.strictly_increasing f -> forall l, tie_free l -> tie_free (map (iremap f) l).
Proof.
  intros Hf l H. unfold tie_free in *. rewrite map_map.
  replace (map (fun x => fst (iremap f x)) l) with (map f (map fst l)) by (rewrite map_map; reflexivity).
  apply FinFun.Injective_map_NoDup; [|exact H].
  intros a b Hab. pose proof (MetamorphicP.si_eqb f Hf a b) as E. rewrite Hab, Z.eqb_refl in E. apply Z.eqb_eq, E.
Qed.

(* ---- weights scaled by k ---- *)
Local Open Scope Qc_scope.
Definition scale_w (k : Qc) (w : rk_w) : rk_w :=
  match w with WSc w => WSc (k * w) | WTen ws => WTen (map (map (Qcmult k)) ws) end.
Lemma rk_sumQ_scale k l : rk_sumQ (map (Qcmult k) l) = k * rk_sumQ l.
Proof. unfold rk_sumQ. induction l as [|x l IH]; cbn [map fold_right]; [ring|]. rewrite IH. ring. Qed.
Lemma map2_scale k : forall ws xs, map2 Qcmult (map (Qcmult k) ws) xs = map (Qcmult k) (map2 Qcmult ws xs).
Proof. induction ws as [|w ws IH]; intros [|x xs]; cbn [map map2]; try reflexivity. rewrite IH. f_equal. ring. Qed.
Lemma nth_map_nil {X Y} (g : X -> Y) (l : list (list X)) i : nth i (map (map g) l) [] = map g (nth i l []).
Proof. change (@nil Y) with (map g []). apply map_nth. Qed.
Lemma wdot_scale k w i xs : wdot (scale_w k w) i xs = k * wdot w i xs.
Proof.
  destruct w as [w|ws]; cbn [scale_w wdot]; [ring|]. rewrite nth_map_nil, map2_scale, rk_sumQ_scale. reflexivity.
Qed.
Lemma wtotal_scale k w i xs : wtotal (scale_w k w) i xs = k * wtotal w i xs.
Proof.
  destruct w as [w|ws]; cbn [scale_w wtotal]; [ring|]. rewrite nth_map_nil, rk_sumQ_scale. reflexivity.
Qed.
Lemma mapi_scale (h h' : nat -> list Qc -> Qc) k rows : (forall i xs, h' i xs = k * h i xs) ->
  mapi h' rows = map (Qcmult k) (mapi h rows).
Proof.
  intros H. unfold mapi. rewrite <- (mapi_from_map h (Qcmult k)). apply mapi_from_ext. exact H.
Qed.
Lemma map2_map_both {X Y Z} (g : Y -> Y -> Z) (h : X -> Y) : forall a b, map2 g (map h a) (map h b) = map2 (fun x y => g (h x) (h y)) a b.
Proof. induction a as [|x a IH]; intros [|y b]; cbn [map map2]; try reflexivity. rewrite IH. reflexivity. Qed.
Lemma map2_ext {X Y Z} (g g' : X -> Y -> Z) : (forall x y, g x y = g' x y) -> forall a b, map2 g a b = map2 g' a b.
Proof. intros H. induction a as [|x a IH]; intros [|y b]; cbn [map2]; try reflexivity. rewrite H, IH. reflexivity. Qed.

(* CTR: c / (w + eps) is homogeneous of degree 0 in (c, w, eps): scaling the weights by k is the same
   as scaling eps by 1/k; for the eps-free ratio (eps = 0) it is an exact invariance *)
Lemma ratio_scale k eps c w : k <> 0 -> ctr_ratio eps (k * c) (k * w) = ctr_ratio (eps / k) c w.
Proof.
  intros Hk. unfold ctr_ratio. replace (k * w + eps) with (k * (w + eps / k)) by (field; exact Hk).
  set (x := w + eps / k). destruct (Qc_eq_dec x 0) as [E|E].
  - rewrite E. replace (k * 0) with 0 by ring. unfold Qcdiv. change (/ 0) with 0. ring.
  - field. split; assumption.
Qed.
Lemma ctr_weight_scale k eps b : k <> 0 ->
  ctr_fn_eps eps (fst b, scale_w k (snd b)) = ctr_fn_eps (eps / k) b.
Proof.
  intros Hk. unfold ctr_fn_eps. cbn [fst snd].
  rewrite (mapi_scale (wdot (snd b)) _ k (fst b) (wdot_scale k (snd b))).
  rewrite (mapi_scale (wtotal (snd b)) _ k (fst b) (wtotal_scale k (snd b))).
  rewrite map2_map_both. apply map2_ext. intros c w. apply ratio_scale, Hk.
Qed.
Lemma eps0_div k : 0 / k = 0.
Proof. unfold Qcdiv. ring. Qed.
Lemma ctr_weight_scale_exact k b : k <> 0 -> ctr_fn_eps 0 (fst b, scale_w k (snd b)) = ctr_fn_eps 0 b.
Proof. intros Hk. rewrite (ctr_weight_scale k 0 b Hk), eps0_div. reflexivity. Qed.

(* WeightedCalibration: IEEE quotient, exact invariance for k > 0 *)
Lemma qeq_true_iff a b : qeq a b = true <-> a = b.
Proof. unfold qeq. destruct (Qc_eq_dec a b); split; congruence. Qed.
Lemma qeq_scale k a : k <> 0 -> qeq (k * a) 0 = qeq a 0.
Proof.
  intros Hk. destruct (qeq a 0) eqn:E.
  - apply qeq_true_iff in E. subst. apply qeq_true_iff. ring.
  - destruct (qeq (k * a) 0) eqn:E'; [|reflexivity]. apply qeq_true_iff in E'. apply Qcmult_integral in E'.
    destruct E' as [E'|E']; [contradiction|]. subst. rewrite (proj2 (qeq_true_iff 0 0) eq_refl) in E. discriminate.
Qed.
Lemma qlt_scale k a : 0 < k -> qlt 0 (k * a) = qlt 0 a.
Proof.
  intros Hk. destruct (qlt 0 a) eqn:E.
  - apply qlt_iff in E. apply qlt_iff. replace 0 with (0 * k) by ring. rewrite (Qcmult_comm k a).
    apply Qcmult_lt_compat_r; assumption.
  - destruct (qlt 0 (k * a)) eqn:E'; [|reflexivity]. apply qlt_iff in E'. exfalso.
    assert (Ha : ~ 0 < a) by (intros H; apply qlt_iff in H; congruence).
    apply Qcnot_lt_le in Ha.
    assert (H2 : a * k <= 0 * k) by (apply Qcmult_le_compat_r; [exact Ha|apply Qclt_le_weak, Hk]).
    replace (0 * k) with 0 in H2 by ring. rewrite (Qcmult_comm a k) in H2. apply (Qcle_not_lt _ _ H2 E').
Qed.
Lemma qdivx_scale k a b : 0 < k -> qdivx (k * a) (k * b) = qdivx a b.
Proof.
  intros Hk. assert (Hk0 : k <> 0) by (intros ->; apply (Qclt_not_eq _ _ Hk); reflexivity).
  unfold qdivx. rewrite (qeq_scale k b Hk0), (qeq_scale k a Hk0), (qlt_scale k a Hk).
  destruct (qeq b 0) eqn:E; [reflexivity|]. f_equal. field. split; [|exact Hk0].
  intros ->. rewrite (proj2 (qeq_true_iff 0 0) eq_refl) in E. discriminate.
Qed.
Lemma wc_weight_scale k nt b : 0 < k -> wc_fn nt (wc_in b, wc_tg b, scale_w k (snd b)) = wc_fn nt b.
Proof.
  intros Hk. unfold wc_fn, wc_in, wc_tg. cbn [fst snd].
  rewrite (mapi_scale (wdot (snd b)) _ k (fst (fst b)) (wdot_scale k (snd b))).
  rewrite (mapi_scale (wdot (snd b)) _ k (snd (fst b)) (wdot_scale k (snd b))).
  rewrite map2_map_both. apply map2_ext. intros x y. apply qdivx_scale, Hk.
Qed.

(* ---- the whole data set duplicated (concatenated with itself) ---- *)
Lemma map2_diag {X Y} (g : X -> X -> Y) : forall a, map2 g a a = map (fun x => g x x) a.
Proof. induction a as [|x a IH]; cbn [map2 map]; [reflexivity|]. rewrite IH. reflexivity. Qed.
Lemma two_pos : 0 < 1 + 1.
Proof. apply qlt_iff. vm_compute. reflexivity. Qed.
Lemma two_ne0 : (1 + 1 : Qc) <> 0.
Proof. intros H. pose proof two_pos as P. rewrite H in P. apply (Qclt_not_eq _ _ P). reflexivity. Qed.
Lemma ctr_fn_eps_beta eps nt b : ctr_fn_eps eps b = map2 (ctr_ratio eps) (nlist (nget 0 (ctr_beta nt b))) (nlist (nget 1 (ctr_beta nt b))).
Proof. unfold ctr_beta, ctr_fn_eps, nget. cbn [narr nth]. rewrite !nlist_nvec. reflexivity. Qed.
Lemma ctr_duplicate eps nt b : ctr_valid nt b = true ->
  ctr_fn_eps eps (ctr_cat b b) = ctr_fn_eps (eps / (1 + 1)) b.
Proof.
  intros Hv. rewrite (ctr_fn_eps_beta eps nt (ctr_cat b b)), (ctr_beta_cat nt b b Hv Hv).
  unfold ctr_beta at 1 2 3 4. rewrite nadd_pairvec. unfold nget. cbn [narr nth]. rewrite !nlist_nvec, !map2_diag.
  rewrite map2_map_both. unfold ctr_fn_eps. apply map2_ext. intros c w.
  replace (c + c) with ((1 + 1) * c) by ring. replace (w + w) with ((1 + 1) * w) by ring. apply ratio_scale, two_ne0.
Qed.
Lemma ctr_duplicate_exact nt b : ctr_valid nt b = true -> ctr_fn_eps 0 (ctr_cat b b) = ctr_fn_eps 0 b.
Proof. intros Hv. rewrite (ctr_duplicate 0 nt b Hv), eps0_div. reflexivity. Qed.
Lemma wc_fn_beta nt b : wc_fn nt b = map2 qdivx (nlist (nget 0 (wc_beta nt b))) (nlist (nget 1 (wc_beta nt b))).
Proof. unfold wc_beta, wc_fn, nget. cbn [narr nth]. rewrite !nlist_nvec. reflexivity. Qed.
Lemma wc_duplicate nt b : wc_valid nt b = true -> wc_fn nt (wc_cat b b) = wc_fn nt b.
Proof.
  intros Hv. rewrite (wc_fn_beta nt (wc_cat b b)), (wc_beta_cat nt b b Hv Hv).
  unfold wc_beta at 1 2 3 4. rewrite nadd_pairvec. unfold nget. cbn [narr nth]. rewrite !nlist_nvec, !map2_diag.
  rewrite map2_map_both. unfold wc_fn. apply map2_ext. intros x y.
  replace (x + x) with ((1 + 1) * x) by ring. replace (y + y) with ((1 + 1) * y) by ring. apply qdivx_scale, two_pos.
Qed.
