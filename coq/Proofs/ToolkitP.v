(* Lemmas about Models/Toolkit.v: with a world of one the toolkit is the identity; otherwise, when
   the sync of every state is ideal (SynclibP.ideal_family: the conclusions of the losslessness
   theorems of C15), all ranks terminate together and each returns its own metric merged with the
   pseudo-metrics rebuilt from what the other ranks hold. *)
From Coq Require Import ZArith List Bool String Arith Lia.
From TE Require Import Base.Val Models.Proto Models.Synclib Models.Toolkit Proofs.ProtoP Proofs.SynclibP.
Import ListNotations.
Open Scope string_scope.
Open Scope list_scope.

(* all ranks traverse the same (metric, state) keys and the sync of every key is ideal *)
Definition schema_agree (fx : fixes) (g : list nat) (Wg : nat) (mds : nat -> mdict) (order : list key)
           (iv : key -> nat -> gs) (tl : key -> gs) : Prop :=
  (forall i, i < List.length g -> traversal (mds i) = order) /\
  (forall k, In k order -> exists ss, (forall i, i < List.length g -> lookup2 (mds i) k = Some (ss i)) /\
                                      ideal_family fx g None Wg ss (iv k) (tl k)).

(* what every rank gathers: slot j < n holds rank j's ideal values, addressed by key *)
Definition gathered_ok (n Wg : nat) (order : list key) (iv : key -> nat -> gs) (tl : key -> gs)
           (gath : list gdict) : Prop :=
  List.length gath = Wg /\
  (forall j k, j < n -> In k order -> get_key k (nth j gath []) = Some (iv k j)) /\
  (forall j k, n <= j < Wg -> In k order -> get_key k (nth j gath []) = Some (tl k)).

(* the pseudo-metric rebuilt from rank j's ideal values *)
Definition ideal_pseudo (order : list key) (iv : key -> nat -> gs) (j : nat) : pseudo_t :=
  map (fun k => (snd k, iv k j)) order.

Lemma pseudo_map name (v : key -> gs) order : (forall k, In k order -> fst k = name) ->
  pseudo name (map (fun k => (k, v k)) order) = map (fun k => (snd k, v k)) order.
Proof.
  unfold pseudo. induction order as [|k r IH]; intros H; [reflexivity|]. cbn [map flat_map fst snd].
  rewrite (H k (or_introl eq_refl)), String.eqb_refl. cbn [app]. f_equal. apply IH. intros k' Hk'. apply H. right; exact Hk'.
Qed.

Lemma traversal_single name (s : sdict) k : In k (traversal [(name, s)]) -> fst k = name.
Proof.
  unfold traversal, sort_keys. cbn [fold_right ins_key flat_map fst snd]. rewrite app_nil_r.
  intros H. apply in_map_iff in H as (x & <- & _). reflexivity.
Qed.

Lemma others_ideal i n Wg order iv tl : n <= Wg -> (forall k, In k order -> fst k = TMP) ->
  others i n (map (pseudo TMP) (ideal_gath n Wg order iv tl)) []
  = map (ideal_pseudo order iv) (filter (fun r => negb (Nat.eqb r i)) (seq 0 n)).
Proof.
  intros HW Hk. unfold others. apply map_ext_in. intros r Hr. apply filter_In in Hr as [Hr _]. apply in_seq in Hr.
  unfold ideal_gath. rewrite map_map. rewrite nth_map_seq by lia.
  destruct (Nat.ltb_spec r n) as [_|Hge]; [|lia]. apply pseudo_map, Hk.
Qed.

(* structural sufficient condition for a single metric: all ranks hold the same (sorted) state
   names and, under every name, states of the same kind satisfying the hypotheses of C15 *)
Definition state_iv (sds : nat -> sdict) (k : key) (j : nat) : gs :=
  match assoc (snd k) (sds j) with Some s => ideal_of_state s | None => GEmpty end.
Definition state_tl (sds : nat -> sdict) (k : key) : gs :=
  match assoc (snd k) (sds 0) with Some s => filler s | None => GEmpty end.

Lemma traversal_tmp (s : sdict) : traversal [(TMP, s)] = map (fun x => (TMP, x)) (map fst (sort_keys s)).
Proof.
  unfold traversal. change (sort_keys [(TMP, s)]) with [(TMP, s)]. cbn [flat_map fst snd].
  rewrite app_nil_r, map_map. reflexivity.
Qed.

Lemma NoDup_tmp names : NoDup names -> NoDup (map (fun x : string => (TMP, x)) names).
Proof.
  induction 1 as [|x l Hnin Hnd IH]; cbn [map]; constructor; [|exact IH].
  intros Hin. apply in_map_iff in Hin as (y & E & Hy). inversion E; subst. contradiction.
Qed.

Lemma schema_agree_structural fx g Wg (sds : nat -> sdict) (names : list string) : let n := List.length g in
  n > 0 -> n <= Wg ->
  (forall i, i < n -> map fst (sort_keys (sds i)) = names) ->
  (forall s, In s names -> exists ss, (forall i, i < n -> assoc s (sds i) = Some (ss i)) /\ kind_ok fx g ss) ->
  schema_agree fx g Wg (fun i => [(TMP, sds i)]) (map (fun x => (TMP, x)) names) (state_iv sds) (state_tl sds).
Proof.
  intros n Hn HW Hnames H. split.
  - intros i Hi. rewrite traversal_tmp, (Hnames i Hi). reflexivity.
  - intros k Hk. apply in_map_iff in Hk as (s & <- & Hs). destruct (H s Hs) as (ss & Hl & Hkind).
    exists ss. split.
    + intros i Hi. unfold lookup2. cbn [assoc fst snd]. rewrite String.eqb_refl. apply Hl, Hi.
    + unfold state_tl. cbn [snd]. rewrite (Hl 0 Hn).
      apply (ideal_family_ext fx g None Wg ss ss _ (fun j => ideal_of_state (ss j))).
      * reflexivity.
      * intros j Hj. unfold state_iv. cbn [snd]. rewrite (Hl j Hj). reflexivity.
      * apply (ideal_of_kind fx g None Wg ss Hn HW I Hkind).
Qed.

Section ToolkitP.
Variables (M Out : Type).
Variable sd : M -> sdict.
Variable mrg : M -> list pseudo_t -> M.
Variable cmp : M -> Out.

Lemma world1_metric fx g i Wg m : get_synced_metric M sd mrg fx g 1 i Wg m = Ret (Ok m).
Proof. reflexivity. Qed.
Lemma world1_collection fx g i Wg mc : get_synced_metric_collection M sd mrg fx g 1 i Wg mc = Ret (Ok mc).
Proof. reflexivity. Qed.
Lemma world1_run fx r Wg m : run_all (respond [r]) [get_synced_metric M sd mrg fx [r] 1 0 Wg m] = Some [Ok m].
Proof. reflexivity. Qed.
Lemma world1_run_collection fx r Wg mc :
  run_all (respond [r]) [get_synced_metric_collection M sd mrg fx [r] 1 0 Wg mc] = Some [Ok mc].
Proof. reflexivity. Qed.

Lemma synced_states_agree fx g Wg mds order iv tl : let n := List.length g in
  n <= Wg -> schema_agree fx g Wg mds order iv tl ->
  exists gath, gathered_ok n Wg order iv tl gath /\
    run_all (respond g) (map (fun i => sync_states fx g None i Wg (mds i) (traversal (mds i))) (seq 0 n))
    = Some (map (fun _ => Ok (Some gath)) (seq 0 n)).
Proof.
  intros n HW [Htr Hid].
  destruct (mixed_collection_addressing fx g None Wg mds order iv tl HW Hid) as (gath & Hrun & Hok).
  exists gath. split; [exact Hok|].
  refine (extK g (fun i => sync_states fx g None i Wg (mds i) order) _ _ _ _ _).
  - intros i Hi. apply in_seq in Hi. rewrite Htr by lia. reflexivity.
  - exact Hrun.
Qed.

Theorem sync_equals_local_merge fx g Wg (ms : nat -> M) order iv tl : let n := List.length g in
  n <> 1 -> n <= Wg -> schema_agree fx g Wg (fun i => [(TMP, sd (ms i))]) order iv tl ->
  exists gath, gathered_ok n Wg order iv tl gath /\
    run_all (respond g) (map (fun i => get_synced_metric M sd mrg fx g n i Wg (ms i)) (seq 0 n))
    = Some (map (fun i => Ok (mrg (ms i) (others i n (map (pseudo TMP) gath) []))) (seq 0 n)).
Proof.
  intros n Hn1 HW Hs.
  destruct (synced_states_agree fx g Wg _ order iv tl HW Hs) as (gath & Hok & Hrun).
  exists gath. split; [exact Hok|]. unfold get_synced_metric.
  apply Nat.eqb_neq in Hn1. fold n. rewrite Hn1. cbv zeta.
  bindr_with (fun i => sync_states fx g None i Wg [(TMP, sd (ms i))] (traversal [(TMP, sd (ms i))]))
             (fun _ : nat => Some gath).
  { exact Hrun. }
  apply run_all_ret_ext. intros i _. reflexivity.
Qed.

Theorem sync_collection_equals_local_merge fx g Wg (mcs : nat -> list (string * M)) order iv tl :
  let n := List.length g in
  n <> 1 -> n <= Wg ->
  schema_agree fx g Wg (fun i => map (fun km => (fst km, sd (snd km))) (mcs i)) order iv tl ->
  exists gath, gathered_ok n Wg order iv tl gath /\
    run_all (respond g) (map (fun i => get_synced_metric_collection M sd mrg fx g n i Wg (mcs i)) (seq 0 n))
    = Some (map (fun i => Ok (map (fun km => (fst km, mrg (snd km) (others i n (map (pseudo (fst km)) gath) [])))
                                  (mcs i))) (seq 0 n)).
Proof.
  intros n Hn1 HW Hs.
  destruct (synced_states_agree fx g Wg _ order iv tl HW Hs) as (gath & Hok & Hrun).
  exists gath. split; [exact Hok|]. unfold get_synced_metric_collection.
  apply Nat.eqb_neq in Hn1. fold n. rewrite Hn1. cbv zeta.
  bindr_with (fun i => sync_states fx g None i Wg (map (fun km => (fst km, sd (snd km))) (mcs i))
                                   (traversal (map (fun km => (fst km, sd (snd km))) (mcs i))))
             (fun _ : nat => Some gath).
  { exact Hrun. }
  apply run_all_ret_ext. intros i _. reflexivity.
Qed.

Lemma synced_states_exact fx g Wg mds order iv tl : let n := List.length g in
  n <= Wg -> NoDup order -> schema_agree fx g Wg mds order iv tl ->
  run_all (respond g) (map (fun i => sync_states fx g None i Wg (mds i) (traversal (mds i))) (seq 0 n))
  = Some (map (fun _ => Ok (Some (ideal_gath n Wg order iv tl))) (seq 0 n)).
Proof.
  intros n HW Hnd [Htr Hid].
  refine (extK g (fun i => sync_states fx g None i Wg (mds i) order) _ _ _ _ _).
  - intros i Hi. apply in_seq in Hi. rewrite Htr by lia. reflexivity.
  - exact (mixed_collection_exact fx g None Wg mds order iv tl HW Hnd Hid).
Qed.

(* explicit form: the merged-in pseudo-metrics are exactly the ideal values of the OTHER ranks, in
   rank order, each in traversal order *)
Theorem sync_equals_local_merge_exact fx g Wg (ms : nat -> M) order iv tl : let n := List.length g in
  n <> 1 -> n <= Wg -> NoDup order -> schema_agree fx g Wg (fun i => [(TMP, sd (ms i))]) order iv tl ->
  run_all (respond g) (map (fun i => get_synced_metric M sd mrg fx g n i Wg (ms i)) (seq 0 n))
  = Some (map (fun i => Ok (mrg (ms i) (map (ideal_pseudo order iv)
                                            (filter (fun r => negb (Nat.eqb r i)) (seq 0 n))))) (seq 0 n)).
Proof.
  intros n Hn1 HW Hnd Hs.
  assert (Hcase : g = [] \/ n > 0) by (unfold n; destruct g; [left; reflexivity|right; cbn; lia]).
  destruct Hcase as [Eg|Hn]; [unfold n; rewrite Eg; reflexivity|].
  assert (Hk : forall k, In k order -> fst k = TMP).
  { intros k Hin. destruct Hs as [Htr _]. rewrite <- (Htr 0) in Hin by exact Hn.
    apply traversal_single in Hin. exact Hin. }
  pose proof (synced_states_exact fx g Wg _ order iv tl HW Hnd Hs) as Hrun.
  unfold get_synced_metric. apply Nat.eqb_neq in Hn1. fold n. rewrite Hn1. cbv zeta.
  bindr_with (fun i => sync_states fx g None i Wg [(TMP, sd (ms i))] (traversal [(TMP, sd (ms i))]))
             (fun _ : nat => Some (ideal_gath n Wg order iv tl)).
  { exact Hrun. }
  apply run_all_ret_ext. intros i _. do 3 f_equal. apply others_ideal; assumption.
Qed.

Theorem sync_collection_equals_local_merge_exact fx g Wg (mcs : nat -> list (string * M)) order iv tl :
  let n := List.length g in
  n <> 1 -> n <= Wg -> NoDup order ->
  schema_agree fx g Wg (fun i => map (fun km => (fst km, sd (snd km))) (mcs i)) order iv tl ->
  run_all (respond g) (map (fun i => get_synced_metric_collection M sd mrg fx g n i Wg (mcs i)) (seq 0 n))
  = Some (map (fun i => Ok (map (fun km => (fst km, mrg (snd km)
                 (others i n (map (pseudo (fst km)) (ideal_gath n Wg order iv tl)) []))) (mcs i))) (seq 0 n)).
Proof.
  intros n Hn1 HW Hnd Hs.
  pose proof (synced_states_exact fx g Wg _ order iv tl HW Hnd Hs) as Hrun.
  unfold get_synced_metric_collection. apply Nat.eqb_neq in Hn1. fold n. rewrite Hn1. cbv zeta.
  bindr_with (fun i => sync_states fx g None i Wg (map (fun km => (fst km, sd (snd km))) (mcs i))
                                   (traversal (map (fun km => (fst km, sd (snd km))) (mcs i))))
             (fun _ : nat => Some (ideal_gath n Wg order iv tl)).
  { exact Hrun. }
  apply run_all_ret_ext. intros i _. reflexivity.
Qed.

Theorem sync_equals_local_merge_structural fx g Wg (ms : nat -> M) (names : list string) :
  let n := List.length g in
  n > 1 -> n <= Wg -> NoDup names ->
  (forall i, i < n -> map fst (sort_keys (sd (ms i))) = names) ->
  (forall s, In s names -> exists ss, (forall i, i < n -> assoc s (sd (ms i)) = Some (ss i)) /\ kind_ok fx g ss) ->
  run_all (respond g) (map (fun i => get_synced_metric M sd mrg fx g n i Wg (ms i)) (seq 0 n))
  = Some (map (fun i => Ok (mrg (ms i)
             (map (fun j => map (fun s => (s, state_iv (fun i => sd (ms i)) (TMP, s) j)) names)
                  (filter (fun r => negb (Nat.eqb r i)) (seq 0 n))))) (seq 0 n)).
Proof.
  intros n Hn HW Hnd Hnames H.
  etransitivity.
  { apply (sync_equals_local_merge_exact fx g Wg ms (map (fun x => (TMP, x)) names)
             (state_iv (fun i => sd (ms i))) (state_tl (fun i => sd (ms i))));
      [fold n; lia|exact HW|apply NoDup_tmp, Hnd|].
    apply (schema_agree_structural fx g Wg (fun i => sd (ms i)) names); [fold n; lia|exact HW|exact Hnames|exact H]. }
  fold n. f_equal. apply map_ext. intros i. do 2 f_equal. apply map_ext. intros j.
  unfold ideal_pseudo. rewrite map_map. reflexivity.
Qed.

(* fx_d10: tensor states of ANY per-rank ndims (a 0-dim default next to k-dim data): nobody hangs and
   every rank merges the others' tensors, delivered with their own shapes *)
Theorem sync_equals_local_merge_fixed_ndim fx g Wg (ms : nat -> M) (names : list string)
        (ts : string -> nat -> tensor) : let n := List.length g in
  fx_d10 fx = true -> n > 1 -> n <= Wg -> NoDup names ->
  (forall i, i < n -> map fst (sort_keys (sd (ms i))) = names) ->
  (forall s, In s names -> exists z, forall i, i < n ->
     assoc s (sd (ms i)) = Some (STensor (ts s i)) /\ wf (shp (ts s i)) (dat (ts s i)) /\ dt (ts s i) = z) ->
  run_all (respond g) (map (fun i => get_synced_metric M sd mrg fx g n i Wg (ms i)) (seq 0 n))
  = Some (map (fun i => Ok (mrg (ms i)
             (map (fun j => map (fun s => (s, GT (ts s j))) names)
                  (filter (fun r => negb (Nat.eqb r i)) (seq 0 n))))) (seq 0 n)).
Proof.
  intros n E10 Hn HW Hnd Hnames H.
  etransitivity.
  { apply (sync_equals_local_merge_structural fx g Wg ms names Hn HW Hnd Hnames).
    intros s Hs. destruct (H s Hs) as (z & Hz). exists (fun i => STensor (ts s i)). split.
    - intros i Hi. apply (Hz i Hi).
    - left. exists (ts s), 0, z. intros i Hi. split; [reflexivity|]. destruct (Hz i Hi) as (_ & Hw & Hd).
      split; [exact Hw|]. split; [left; exact Hd|left; exact E10]. }
  fold n. f_equal. apply map_ext. intros i. do 2 f_equal. apply map_ext_in. intros j Hj.
  apply filter_In in Hj as [Hj _]. apply in_seq in Hj. apply map_ext_in. intros s Hs.
  destruct (H s Hs) as (z & Hz). unfold state_iv. cbn [snd]. rewrite (proj1 (Hz j ltac:(lia))). reflexivity.
Qed.

Corollary sync_no_mismatch_fixed_ndim fx g Wg (ms : nat -> M) (names : list string)
          (ts : string -> nat -> tensor) : let n := List.length g in
  fx_d10 fx = true -> n > 1 -> n <= Wg -> NoDup names ->
  (forall i, i < n -> map fst (sort_keys (sd (ms i))) = names) ->
  (forall s, In s names -> exists z, forall i, i < n ->
     assoc s (sd (ms i)) = Some (STensor (ts s i)) /\ wf (shp (ts s i)) (dat (ts s i)) /\ dt (ts s i) = z) ->
  run_all (respond g) (map (fun i => get_synced_metric M sd mrg fx g n i Wg (ms i)) (seq 0 n)) <> None.
Proof.
  intros n E10 Hn HW Hnd Hnames H.
  pose proof (sync_equals_local_merge_fixed_ndim fx g Wg ms names ts E10 Hn HW Hnd Hnames H) as E.
  fold n in E. rewrite E. discriminate.
Qed.

(* fx_d10 + fx_dt (ndim and dtype negotiation, fixes/sync-dtype.patch): tensor states of ANY per-rank ndims AND
   dtypes (a float32 default next to float64 data): nobody hangs and every rank merges the others' tensors,
   delivered with their own shapes and in their own dtypes *)
Theorem sync_equals_local_merge_any_dtype fx g Wg (ms : nat -> M) (names : list string)
        (ts : string -> nat -> tensor) : let n := List.length g in
  fx_d10 fx = true -> fx_dt fx = true -> n > 1 -> n <= Wg -> NoDup names ->
  (forall i, i < n -> map fst (sort_keys (sd (ms i))) = names) ->
  (forall s, In s names -> forall i, i < n ->
     assoc s (sd (ms i)) = Some (STensor (ts s i)) /\ wf (shp (ts s i)) (dat (ts s i))) ->
  run_all (respond g) (map (fun i => get_synced_metric M sd mrg fx g n i Wg (ms i)) (seq 0 n))
  = Some (map (fun i => Ok (mrg (ms i)
             (map (fun j => map (fun s => (s, GT (ts s j))) names)
                  (filter (fun r => negb (Nat.eqb r i)) (seq 0 n))))) (seq 0 n)).
Proof.
  intros n E10 Edt Hn HW Hnd Hnames H.
  etransitivity.
  { apply (sync_equals_local_merge_structural fx g Wg ms names Hn HW Hnd Hnames).
    intros s Hs. exists (fun i => STensor (ts s i)). split.
    - intros i Hi. apply (H s Hs i Hi).
    - left. exists (ts s), 0, 0%Z. intros i Hi. split; [reflexivity|]. destruct (H s Hs i Hi) as (_ & Hw).
      split; [exact Hw|]. split; [right; rewrite E10, Edt; reflexivity|left; exact E10]. }
  fold n. f_equal. apply map_ext. intros i. do 2 f_equal. apply map_ext_in. intros j Hj.
  apply filter_In in Hj as [Hj _]. apply in_seq in Hj. apply map_ext_in. intros s Hs.
  unfold state_iv. cbn [snd]. rewrite (proj1 (H s Hs j ltac:(lia))). reflexivity.
Qed.

Corollary sync_no_mismatch_any_dtype fx g Wg (ms : nat -> M) (names : list string)
          (ts : string -> nat -> tensor) : let n := List.length g in
  fx_d10 fx = true -> fx_dt fx = true -> n > 1 -> n <= Wg -> NoDup names ->
  (forall i, i < n -> map fst (sort_keys (sd (ms i))) = names) ->
  (forall s, In s names -> forall i, i < n ->
     assoc s (sd (ms i)) = Some (STensor (ts s i)) /\ wf (shp (ts s i)) (dat (ts s i))) ->
  run_all (respond g) (map (fun i => get_synced_metric M sd mrg fx g n i Wg (ms i)) (seq 0 n)) <> None.
Proof.
  intros n E10 Edt Hn HW Hnd Hnames H.
  pose proof (sync_equals_local_merge_any_dtype fx g Wg ms names ts E10 Edt Hn HW Hnd Hnames H) as E.
  fold n in E. rewrite E. discriminate.
Qed.

Corollary sync_no_mismatch fx g Wg (ms : nat -> M) order iv tl : let n := List.length g in
  n <> 1 -> n <= Wg -> schema_agree fx g Wg (fun i => [(TMP, sd (ms i))]) order iv tl ->
  run_all (respond g) (map (fun i => get_synced_metric M sd mrg fx g n i Wg (ms i)) (seq 0 n)) <> None.
Proof.
  intros n H1 HW Hs. destruct (sync_equals_local_merge fx g Wg ms order iv tl H1 HW Hs) as (gath & _ & E).
  fold n in E. rewrite E. discriminate.
Qed.

(* the entry points built on get_synced_metric *)
Corollary sync_and_compute_spec fx g Wg (ms : nat -> M) order iv tl : let n := List.length g in
  n <> 1 -> n <= Wg -> schema_agree fx g Wg (fun i => [(TMP, sd (ms i))]) order iv tl ->
  exists gath, gathered_ok n Wg order iv tl gath /\
    run_all (respond g) (map (fun i => sync_and_compute M Out sd mrg cmp fx g n i Wg (ms i)) (seq 0 n))
    = Some (map (fun i => Ok (cmp (mrg (ms i) (others i n (map (pseudo TMP) gath) [])))) (seq 0 n)) /\
    run_all (respond g) (map (fun i => get_synced_state_dict M sd mrg fx g n i Wg (ms i)) (seq 0 n))
    = Some (map (fun i => Ok (sd (mrg (ms i) (others i n (map (pseudo TMP) gath) [])))) (seq 0 n)).
Proof.
  intros n H1 HW Hs. destruct (sync_equals_local_merge fx g Wg ms order iv tl H1 HW Hs) as (gath & Hok & E).
  fold n in E. exists gath. split; [exact Hok|]. split.
  - unfold sync_and_compute, pmap.
    bindr_with (fun i => get_synced_metric M sd mrg fx g n i Wg (ms i))
               (fun i => mrg (ms i) (others i n (map (pseudo TMP) gath) [])).
    { exact E. }
    apply run_all_ret_ext. intros i _. reflexivity.
  - unfold get_synced_state_dict, pmap.
    bindr_with (fun i => get_synced_metric M sd mrg fx g n i Wg (ms i))
               (fun i => mrg (ms i) (others i n (map (pseudo TMP) gath) [])).
    { exact E. }
    apply run_all_ret_ext. intros i _. reflexivity.
Qed.
End ToolkitP.
