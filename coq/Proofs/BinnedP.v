(* C06 proofs: the searchsorted / packed code / histc / reshape / suffix-sum pipeline equals
   per-threshold counting (ported from design-probes/BinnedCounts.v, generalised to the 'memory'
   mode's three-component code with design-probes/BinnedEncode.v); the 'vectorized' broadcast
   comparison equals the same counts; hence the two optimisation modes agree. *)
From Coq Require Import ZArith List Bool Lia Sorted QArith Qcanon.
From TE Require Import Base.Val Base.Nd Base.Xq Algebra.Additive Models.Binned.
Import ListNotations.
Open Scope Z_scope.

Definition asc (T : list Z) := StronglySorted Z.le T.

(* ---------------------------------------------------------------------------------------- *)
(* small list facts                                                                           *)
(* ---------------------------------------------------------------------------------------- *)
Lemma nth_map_seq {A} (f : nat -> A) d : forall n s k, (k < n)%nat -> nth k (map f (seq s n)) d = f (s + k)%nat.
Proof.
  induction n as [|n IH]; intros s k Hk; [lia|]. destruct k as [|k]; cbn [seq map nth].
  - f_equal; lia.
  - rewrite IH by lia. f_equal; lia.
Qed.
Lemma map_nth_seq {A B} (f : A -> B) (d : A) : forall l, map f l = map (fun i => f (nth i l d)) (seq 0 (length l)).
Proof.
  induction l as [|a l IH]; [reflexivity|]. cbn [length seq map nth]. f_equal.
  rewrite IH at 1. rewrite <- seq_shift, map_map. reflexivity.
Qed.
Lemma map2_map_same {A B C D} (f : B -> C -> D) (g : A -> B) (h : A -> C) : forall l,
  map2 f (map g l) (map h l) = map (fun x => f (g x) (h x)) l.
Proof. induction l as [|a l IH]; [reflexivity|]. cbn [map map2]. rewrite IH. reflexivity. Qed.
Lemma map2_const_map {A B C D} (f : B -> C -> D) (g : A -> B) (h : A -> C) : forall l,
  map2 f (map g l) (map h l) = map (fun x => f (g x) (h x)) l.
Proof. exact (map2_map_same f g h). Qed.
Lemma skipn_map_seq {A} (f : nat -> A) n i : (i <= n)%nat -> skipn i (map f (seq 0 n)) = map f (seq i (n - i)).
Proof.
  intros Hi. replace n with (i + (n - i))%nat at 1 by lia.
  rewrite seq_app, map_app, skipn_app, map_length, seq_length, Nat.sub_diag.
  cbn [skipn]. rewrite skipn_all2 by (rewrite map_length, seq_length; lia). reflexivity.
Qed.
Lemma nth_map2_andb : forall a b c, nth c (map2 andb a b) false = nth c a false && nth c b false.
Proof.
  induction a as [|x a IH]; intros b c.
  - cbn [map2]. destruct c; reflexivity.
  - destruct b as [|y b].
    + cbn [map2]. destruct c; cbn [nth]; rewrite andb_false_r; reflexivity.
    + destruct c; cbn [map2 nth]; [reflexivity|apply IH].
Qed.
Lemma nth_map_lt {A B} (f : A -> B) l i d d' : (i < length l)%nat -> nth i (map f l) d' = f (nth i l d).
Proof. intros Hi. rewrite (nth_indep (map f l) d' (f d)) by (rewrite map_length; exact Hi). apply map_nth. Qed.
Lemma nth_map_b2z l c : nth c (map b2z l) 0 = b2z (nth c l false).
Proof. change 0 with (b2z false). apply map_nth. Qed.

(* ---------------------------------------------------------------------------------------- *)
(* counting                                                                                   *)
(* ---------------------------------------------------------------------------------------- *)
Section Cnt.
Context {X : Type}.
Lemma cnt_nil (P : X -> bool) : cnt P [] = 0.
Proof. reflexivity. Qed.
Lemma cnt_cons (P : X -> bool) x xs : cnt P (x :: xs) = b2z (P x) + cnt P xs.
Proof. unfold cnt. cbn [filter]. destruct (P x); cbn [length b2z]; lia. Qed.
Lemma cnt_app (P : X -> bool) xs ys : cnt P (xs ++ ys) = cnt P xs + cnt P ys.
Proof. induction xs as [|x xs IH]; [reflexivity|]. cbn [app]. rewrite !cnt_cons, IH. lia. Qed.
Lemma cnt_ext_in (P Q : X -> bool) xs : (forall x, In x xs -> P x = Q x) -> cnt P xs = cnt Q xs.
Proof.
  induction xs as [|x xs IH]; intros H; [reflexivity|]. rewrite !cnt_cons, IH, (H x) by (intros; try apply H; cbn; auto).
  reflexivity.
Qed.
Lemma cnt_ext (P Q : X -> bool) xs : (forall x, P x = Q x) -> cnt P xs = cnt Q xs.
Proof. intros H. apply cnt_ext_in. intros; apply H. Qed.
Lemma cnt_false (P : X -> bool) xs : (forall x, P x = false) -> cnt P xs = 0.
Proof. intros H. induction xs as [|x xs IH]; [reflexivity|]. rewrite cnt_cons, H, IH. reflexivity. Qed.
Lemma cnt_split (P Q : X -> bool) xs : (forall x, P x && Q x = false) ->
  cnt (fun x => P x || Q x) xs = cnt P xs + cnt Q xs.
Proof.
  intros Hd. induction xs as [|x xs IH]; [reflexivity|]. rewrite !cnt_cons, IH.
  specialize (Hd x). destruct (P x), (Q x); cbn [orb andb b2z] in *; try discriminate; lia.
Qed.
Lemma cnt_nonneg (P : X -> bool) xs : 0 <= cnt P xs.
Proof. unfold cnt. lia. Qed.
Lemma sum_b2z (P : X -> bool) xs : sumZ (map (fun x => b2z (P x)) xs) = cnt P xs.
Proof. induction xs as [|x xs IH]; [reflexivity|]. cbn [map sumZ fold_right]. fold (sumZ (map (fun x => b2z (P x)) xs)). rewrite IH, cnt_cons. reflexivity. Qed.
(* tp + fp = all predicted; pos - tp = false negatives *)
Lemma cnt_and_neg (P H : X -> bool) xs : cnt P xs - cnt (fun x => P x && H x) xs = cnt (fun x => P x && negb (H x)) xs.
Proof.
  induction xs as [|x xs IH]; [reflexivity|]. rewrite !cnt_cons. destruct (P x), (H x); cbn [andb negb b2z]; lia.
Qed.
End Cnt.
Lemma cnt_map {X Y} (g : X -> Y) (P : Y -> bool) xs : cnt P (map g xs) = cnt (fun x => P (g x)) xs.
Proof. induction xs as [|x xs IH]; [reflexivity|]. cbn [map]. rewrite !cnt_cons, IH. reflexivity. Qed.
Lemma cnt_flat_map_one {X Y} (f : X -> list Y) (P : Y -> bool) (Q : X -> bool) xs :
  (forall x, cnt P (f x) = b2z (Q x)) -> cnt P (flat_map f xs) = cnt Q xs.
Proof.
  intros H. induction xs as [|x xs IH]; [reflexivity|]. cbn [flat_map]. rewrite cnt_app, cnt_cons, IH, H. reflexivity.
Qed.
Lemma cnt_seq_one (F : nat -> bool) c : forall n s,
  cnt (fun k => F k && Nat.eqb k c) (seq s n) = if Nat.leb s c && Nat.ltb c (s + n) then b2z (F c) else 0.
Proof.
  induction n as [|n IH]; intros s; cbn [seq].
  - rewrite cnt_nil. destruct (Nat.leb_spec s c); destruct (Nat.ltb_spec c (s + 0)); cbn [andb]; try reflexivity; lia.
  - rewrite cnt_cons, IH. destruct (Nat.eqb_spec s c) as [->|Hne].
    + rewrite andb_true_r. destruct (Nat.leb_spec (S c) c); [lia|]. destruct (Nat.leb_spec c c); [|lia].
      destruct (Nat.ltb_spec c (c + S n)); [|lia]. cbn [andb]. lia.
    + rewrite andb_false_r. cbn [b2z].
      destruct (Nat.leb_spec (S s) c); destruct (Nat.leb_spec s c); destruct (Nat.ltb_spec c (S s + n));
        destruct (Nat.ltb_spec c (s + S n)); cbn [andb]; try reflexivity; lia.
Qed.

(* ---------------------------------------------------------------------------------------- *)
(* searchsorted(right) on sorted thresholds: bucket index >= i  <->  T_i <= s                   *)
(* ---------------------------------------------------------------------------------------- *)
Lemma ss_right_ge : forall T s i, asc T -> (i < length T)%nat ->
  (i < ss_right T s)%nat <-> nth i T 0 <= s.
Proof.
  unfold ss_right. induction T as [|t T IH]; intros s i Hs Hi; [cbn in Hi; lia|].
  inversion Hs as [|? ? Hs' Hall]; subst. cbn [filter nth].
  destruct (Z.leb_spec t s) as [Hle|Hgt].
  - cbn [length]. destruct i as [|i]; [split; intros; lia|].
    cbn in Hi. rewrite <- (IH s i Hs') by lia. lia.
  - assert (Hnone : filter (fun t0 => t0 <=? s) T = []).
    { clear -Hall Hgt. induction T as [|u T IHT]; [reflexivity|]. inversion Hall; subst. cbn.
      destruct (Z.leb_spec u s); [lia|]. auto. }
    rewrite Hnone. cbn [length]. split; [lia|]. intros Hn.
    destruct i as [|i]; [lia|]. cbn in Hi.
    assert (In (nth i T 0) T) by (apply nth_In; lia).
    rewrite Forall_forall in Hall. specialize (Hall _ H). lia.
Qed.
Lemma ss_right_le_len T s : (ss_right T s <= length T)%nat.
Proof. unfold ss_right. induction T; cbn; [lia|]. destruct (_ <=? _); cbn; lia. Qed.

Lemma sortedb_asc T : sortedb T = true -> asc T.
Proof.
  intros H. apply Sorted_StronglySorted; [intros x y z; apply Z.le_trans|].
  induction T as [|a T IH]; [constructor|]. destruct T as [|b T]; [repeat constructor|].
  cbn [sortedb] in H. apply andb_prop in H as [Hab Hr]. constructor; [apply IH, Hr|constructor; lia].
Qed.

(* ---------------------------------------------------------------------------------------- *)
(* the flattened index 2*(C*idx + class) + hit is decoded by reshape(T, C, 2)                   *)
(* ---------------------------------------------------------------------------------------- *)
Definition enc (C i c b : Z) : Z := 2 * (C * i + c) + b.
Lemma decode C i c b : 0 < C -> 0 <= c < C -> 0 <= b < 2 ->
  enc C i c b / (2 * C) = i /\ (enc C i c b / 2) mod C = c /\ enc C i c b mod 2 = b.
Proof.
  unfold enc. intros HC Hc Hb.
  assert (E1 : (2 * (C * i + c) + b) / (2 * C) = i).
  { symmetry. apply (Z.div_unique _ _ i (2 * c + b)); [left; lia|ring]. }
  assert (E2 : (2 * (C * i + c) + b) / 2 = C * i + c).
  { symmetry. apply (Z.div_unique _ _ (C * i + c) b); [left; lia|ring]. }
  repeat split; [exact E1| |].
  - rewrite E2. symmetry. apply (Z.mod_unique _ _ i c); [left; lia|ring].
  - symmetry. apply (Z.mod_unique _ _ (C * i + c) b); [left; lia|ring].
Qed.
Lemma enc_inj C i c b i' c' b' : 0 < C -> 0 <= c < C -> 0 <= c' < C -> 0 <= b < 2 -> 0 <= b' < 2 ->
  enc C i c b = enc C i' c' b' -> i = i' /\ c = c' /\ b = b'.
Proof.
  intros HC Hc Hc' Hb Hb' E.
  destruct (decode C i c b HC Hc Hb) as (D1 & D2 & D3).
  destruct (decode C i' c' b' HC Hc' Hb') as (D1' & D2' & D3').
  rewrite E in D1, D2, D3. repeat split; congruence.
Qed.
Lemma enc_range C T i c b : 0 < C -> 0 <= i < T -> 0 <= c < C -> 0 <= b < 2 -> 0 <= enc C i c b < 2 * T * C.
Proof. unfold enc. intros. nia. Qed.
(* a sample below the first threshold (idx = -1) falls out of the histogram range *)
Lemma enc_below C c b : 0 < C -> 0 <= c < C -> 0 <= b < 2 -> enc C (-1) c b < 0.
Proof. unfold enc. intros. nia. Qed.

(* ---------------------------------------------------------------------------------------- *)
(* suffix sums                                                                                *)
(* ---------------------------------------------------------------------------------------- *)
Lemma suffix_sum_hd : forall l, match suffix_sum l with [] => 0 | a :: _ => a end = fold_right Z.add 0 l.
Proof. induction l as [|x l IH]; cbn; [reflexivity|]. rewrite IH. reflexivity. Qed.
Lemma nth_suffix_sum : forall l i, nth i (suffix_sum l) 0 = fold_right Z.add 0 (skipn i l).
Proof.
  induction l as [|x l IH]; intros i; [destruct i; reflexivity|].
  destruct i as [|i]; cbn [suffix_sum nth skipn]; [rewrite suffix_sum_hd; reflexivity|apply IH].
Qed.
Lemma suffix_sum_length : forall l, length (suffix_sum l) = length l.
Proof. induction l as [|x l IH]; cbn [suffix_sum length]; [reflexivity|]. rewrite IH. reflexivity. Qed.
Lemma nth_histc nb codes k : (k < nb)%nat -> nth k (histc nb codes) 0 = countZ (Z.of_nat k) codes.
Proof. intros Hk. unfold histc. rewrite nth_map_seq by lia. reflexivity. Qed.

(* ---------------------------------------------------------------------------------------- *)
(* GENERIC pipeline: items with a score, a column < C and a hit bit                             *)
(* ---------------------------------------------------------------------------------------- *)
Section Gen.
Context {X : Type}.
Variables (sc : X -> Z) (cl : X -> nat) (hit : X -> bool) (C : nat) (T : list Z).
Definition gcode (x : X) : Z :=
  2 * (Z.of_nat C * (Z.of_nat (ss_right T (sc x)) - 1) + Z.of_nat (cl x)) + b2z (hit x).

Lemma gcode_eq x i c (b : bool) : (c < C)%nat -> (cl x < C)%nat ->
  Z.eqb (Z.of_nat (2 * (C * i + c) + (if b then 1 else 0))) (gcode x)
  = Nat.eqb (ss_right T (sc x)) (S i) && Nat.eqb (cl x) c && Bool.eqb (hit x) b.
Proof.
  intros Hc Hk. unfold gcode. set (n := ss_right T (sc x)).
  assert (Hb2z : forall b', 0 <= b2z b' < 2) by (intros []; cbn; lia).
  destruct (Nat.eqb_spec n (S i)) as [En|En]; destruct (Nat.eqb_spec (cl x) c) as [Ec|Ec];
    destruct (Bool.eqb_spec (hit x) b) as [Eb|Eb]; cbn [andb];
    try (apply Z.eqb_eq; rewrite En, Ec, Eb; destruct b; cbn [b2z]; lia).
  all: apply Z.eqb_neq; intros E; destruct n as [|m];
    [ pose proof (Hb2z (hit x)); destruct b; lia | ].
  all: assert (E' : enc (Z.of_nat C) (Z.of_nat i) (Z.of_nat c) (b2z b)
                  = enc (Z.of_nat C) (Z.of_nat m) (Z.of_nat (cl x)) (b2z (hit x)))
         by (unfold enc; destruct b; cbn [b2z]; lia).
  all: apply enc_inj in E' as (E1 & E2 & E3); try (apply Hb2z); try lia.
  all: try (apply Nat2Z.inj in E1); try (apply Nat2Z.inj in E2).
  all: try (apply En; congruence); try (apply Ec; congruence).
  all: apply Eb; destruct (hit x), b; cbn [b2z] in E3; try reflexivity; lia.
Qed.

Lemma count_gcode xs i c (b : bool) : (c < C)%nat -> Forall (fun x => (cl x < C)%nat) xs ->
  countZ (Z.of_nat (2 * (C * i + c) + (if b then 1 else 0))) (map gcode xs)
  = cnt (fun x => Nat.eqb (ss_right T (sc x)) (S i) && (Nat.eqb (cl x) c && Bool.eqb (hit x) b)) xs.
Proof.
  intros Hc Hall. unfold countZ, cnt. f_equal. induction Hall as [|x xs Hx _ IH]; [reflexivity|]. cbn [map filter].
  rewrite (gcode_eq x i c b Hc Hx), <- andb_assoc. destruct (_ && _); cbn [length]; rewrite IH; reflexivity.
Qed.

Lemma sum_buckets (Q : X -> bool) xs : forall n i, (i + n <= length T)%nat ->
  fold_right Z.add 0 (map (fun j => cnt (fun x => Nat.eqb (ss_right T (sc x)) (S j) && Q x) xs) (seq i n))
  = cnt (fun x => Nat.ltb i (ss_right T (sc x)) && Nat.leb (ss_right T (sc x)) (i + n) && Q x) xs.
Proof.
  induction n as [|n IH]; intros i Hn; cbn [seq map fold_right].
  - symmetry. apply cnt_false. intros x.
    destruct (Nat.ltb_spec i (ss_right T (sc x))); destruct (Nat.leb_spec (ss_right T (sc x)) (i + 0)); cbn [andb]; try reflexivity; lia.
  - rewrite (IH (S i)) by lia. rewrite <- cnt_split.
    + apply cnt_ext. intros x.
      destruct (Nat.eqb_spec (ss_right T (sc x)) (S i)); destruct (Nat.ltb_spec (S i) (ss_right T (sc x)));
        destruct (Nat.ltb_spec i (ss_right T (sc x))); destruct (Nat.leb_spec (ss_right T (sc x)) (S i + n));
        destruct (Nat.leb_spec (ss_right T (sc x)) (i + S n)); destruct (Q x); cbn; try reflexivity; lia.
    + intros x. destruct (Nat.eqb_spec (ss_right T (sc x)) (S i)); destruct (Nat.ltb_spec (S i) (ss_right T (sc x))); cbn; try reflexivity; try lia;
      destruct (Q x); cbn; try reflexivity; lia.
Qed.

Definition gplane (b c : nat) (h : list Z) : list Z :=
  map (fun i => nth (2 * (C * i + c) + b) h 0) (seq 0 (length T)).

Theorem gen_counts xs i c (b : bool) : asc T -> (i < length T)%nat -> (c < C)%nat ->
  Forall (fun x => (cl x < C)%nat) xs ->
  nth i (suffix_sum (gplane (if b then 1 else 0) c (histc (2 * length T * C) (map gcode xs)))) 0
  = cnt (fun x => (nth i T 0 <=? sc x) && (Nat.eqb (cl x) c && Bool.eqb (hit x) b)) xs.
Proof.
  intros Hs Hi Hc Hall. rewrite nth_suffix_sum. unfold gplane. rewrite skipn_map_seq by lia.
  erewrite map_ext_in.
  2:{ intros j Hj. apply in_seq in Hj. rewrite nth_histc by (destruct b; nia). apply count_gcode; assumption. }
  rewrite (sum_buckets (fun x => Nat.eqb (cl x) c && Bool.eqb (hit x) b)) by lia. apply cnt_ext. intros x.
  pose proof (ss_right_le_len T (sc x)). pose proof (ss_right_ge T (sc x) i Hs Hi) as Hge.
  destruct (Nat.ltb_spec i (ss_right T (sc x))); destruct (Nat.leb_spec (ss_right T (sc x)) (i + (length T - i)));
    destruct (Z.leb_spec (nth i T 0) (sc x)); cbn; try reflexivity; lia.
Qed.
End Gen.

(* ---------------------------------------------------------------------------------------- *)
(* C06 item 1: the binary _update                                                             *)
(* ---------------------------------------------------------------------------------------- *)
Lemma bin_as_gen T xs (b : bool) :
  suffix_sum (row (if b then 1 else 0) (length T) (bin_hist T xs))
  = suffix_sum (gplane 1 T (if b then 1 else 0) 0
      (histc (2 * length T * 1) (map (gcode (fun x : sample => fst x) (fun _ => 0%nat) (fun x => snd x) 1 T) xs))).
Proof.
  f_equal. unfold row, gplane, bin_hist. rewrite Nat.mul_1_r.
  replace (map (code T) xs) with (map (gcode (fun x : sample => fst x) (fun _ => 0%nat) (fun x => snd x) 1 T) xs).
  2:{ apply map_ext. intros x. unfold gcode, code. lia. }
  apply map_ext. intros i. f_equal. lia.
Qed.

Theorem bin_counts_spec T xs i (b : bool) : asc T -> (i < length T)%nat ->
  nth i (suffix_sum (row (if b then 1 else 0) (length T) (bin_hist T xs))) 0
  = cnt (fun x : sample => (nth i T 0 <=? fst x) && Bool.eqb (snd x) b) xs.
Proof.
  intros Hs Hi. rewrite bin_as_gen, gen_counts; try assumption; try lia.
  - apply cnt_ext. intros x. reflexivity.
  - apply Forall_forall. intros; lia.
Qed.
Lemma target_sum_pos xs : target_sum xs = pos_spec xs.
Proof. unfold target_sum, pos_spec. apply sum_b2z. Qed.

Theorem binned_counts_spec_thm T xs i : asc T -> (i < length T)%nat ->
  nth i (bin_tp T xs) 0 = tp_spec (nth i T 0) xs /\
  nth i (bin_fp T xs) 0 = fp_spec (nth i T 0) xs /\
  nth i (bin_fn T xs) 0 = fn_spec (nth i T 0) xs.
Proof.
  intros Hs Hi.
  assert (Htp : nth i (bin_tp T xs) 0 = tp_spec (nth i T 0) xs).
  { unfold bin_tp, tp_spec. rewrite (bin_counts_spec T xs i true Hs Hi). apply cnt_ext. intros x. destruct (snd x); reflexivity. }
  split; [exact Htp|]. split.
  - unfold bin_fp, fp_spec. rewrite (bin_counts_spec T xs i false Hs Hi). apply cnt_ext. intros x. destruct (snd x); reflexivity.
  - unfold bin_fn, fn_spec.
    assert (Hlen : (i < length (bin_tp T xs))%nat).
    { unfold bin_tp, row. rewrite suffix_sum_length, map_length, seq_length. exact Hi. }
    rewrite (nth_map_lt (fun tp => target_sum xs - tp) _ i 0 0 Hlen), Htp, target_sum_pos. reflexivity.
Qed.

(* whole vectors *)
Lemma bin_len T xs : length (bin_tp T xs) = length T /\ length (bin_fp T xs) = length T /\ length (bin_fn T xs) = length T.
Proof. unfold bin_fn, bin_tp, bin_fp, row. rewrite map_length, !suffix_sum_length, !map_length, !seq_length. auto. Qed.
Lemma list_eq_nth (a b : list Z) : length a = length b -> (forall i, (i < length a)%nat -> nth i a 0 = nth i b 0) -> a = b.
Proof.
  revert b. induction a as [|x a IH]; intros [|y b] Hl H; try discriminate; [reflexivity|].
  f_equal; [apply (H 0%nat); cbn; lia|]. apply IH; [cbn in Hl; lia|]. intros i Hi. apply (H (S i)). cbn; lia.
Qed.
Theorem bin_vectors_spec T xs : asc T ->
  bin_tp T xs = map (fun t => tp_spec t xs) T /\ bin_fp T xs = map (fun t => fp_spec t xs) T /\
  bin_fn T xs = map (fun t => fn_spec t xs) T.
Proof.
  intros Hs. destruct (bin_len T xs) as (L1 & L2 & L3).
  repeat split; apply list_eq_nth; rewrite ?map_length; try assumption; intros i Hi;
    rewrite ?L1, ?L2, ?L3 in Hi; destruct (binned_counts_spec_thm T xs i Hs Hi) as (H1 & H2 & H3).
  - rewrite H1. rewrite (nth_map_lt (fun t => tp_spec t xs) T i 0 0 Hi). reflexivity.
  - rewrite H2. rewrite (nth_map_lt (fun t => fp_spec t xs) T i 0 0 Hi). reflexivity.
  - rewrite H3. rewrite (nth_map_lt (fun t => fn_spec t xs) T i 0 0 Hi). reflexivity.
Qed.

(* ---------------------------------------------------------------------------------------- *)
(* C06 item 2: 'memory' and 'vectorized' both equal per-cell counting                          *)
(* ---------------------------------------------------------------------------------------- *)
Section Modes.
Context {X : Type}.
Variables (scs : X -> list Z) (hitf : X -> nat -> bool) (C : nat) (T : list Z).
Notation cells := (cells scs hitf C).

Lemma cells_cl xs : Forall (fun cl : cell => (fst (fst cl) < C)%nat) (flat_map cells xs).
Proof.
  apply Forall_forall. intros cl Hin. apply in_flat_map in Hin as (x & _ & Hin). unfold Binned.cells in Hin.
  apply in_map_iff in Hin as (k & <- & Hk). apply in_seq in Hk. cbn. lia.
Qed.

Lemma cells_one (R : Z -> bool) x c (b : bool) : (c < C)%nat ->
  cnt (fun cl : cell => R (snd (fst cl)) && (Nat.eqb (fst (fst cl)) c && Bool.eqb (snd cl) b)) (cells x)
  = b2z (R (nth c (scs x) 0) && Bool.eqb (hitf x c) b).
Proof.
  intros Hc. unfold Binned.cells. rewrite cnt_map. cbn [fst snd].
  rewrite (cnt_ext _ (fun k => (R (nth k (scs x) 0) && Bool.eqb (hitf x k) b) && Nat.eqb k c)).
  2:{ intros k. destruct (R _), (Nat.eqb k c), (Bool.eqb _ _); reflexivity. }
  rewrite cnt_seq_one. destruct (Nat.leb_spec 0 c); [|lia]. destruct (Nat.ltb_spec c (0 + C)); [|lia]. reflexivity.
Qed.

Lemma mem_cell xs i c (b : bool) : asc T -> (i < length T)%nat -> (c < C)%nat ->
  nth i (suffix_sum (plane C T (if b then 1 else 0) c (mem_hist scs hitf C T xs))) 0
  = cnt (fun x => (nth i T 0 <=? nth c (scs x) 0) && Bool.eqb (hitf x c) b) xs.
Proof.
  intros Hs Hi Hc.
  change (plane C T (if b then 1 else 0) c (mem_hist scs hitf C T xs))
    with (gplane C T (if b then 1 else 0) c
            (histc (2 * length T * C)
               (map (gcode (fun cl : cell => snd (fst cl)) (fun cl => fst (fst cl)) (fun cl => snd cl) C T) (flat_map cells xs)))).
  rewrite gen_counts by (try assumption; apply cells_cl).
  apply cnt_flat_map_one. intros x. apply (cells_one (fun s => nth i T 0 <=? s)). exact Hc.
Qed.

Lemma mem_counts_table (b : bool) xs : asc T ->
  mem_counts scs hitf C T (if b then 1 else 0)%nat xs
  = spec_table C T (fun i c => cnt (fun x => (nth i T 0 <=? nth c (scs x) 0) && Bool.eqb (hitf x c) b)) xs.
Proof.
  intros Hs. unfold mem_counts, transpose, spec_table. apply map_ext_in. intros i Hi. apply in_seq in Hi.
  rewrite map_map. apply map_ext_in. intros c Hc. apply in_seq in Hc. apply mem_cell; try assumption; lia.
Qed.

Theorem mem_tp_spec xs : asc T -> mem_tp scs hitf C T xs = spec_table C T (mtp_spec scs hitf T) xs.
Proof.
  intros Hs. unfold mem_tp. rewrite (mem_counts_table true xs Hs). unfold spec_table, mtp_spec.
  apply map_ext. intros i. apply map_ext. intros c. apply cnt_ext. intros x. destruct (hitf x c); reflexivity.
Qed.
Theorem mem_fp_spec xs : asc T -> mem_fp scs hitf C T xs = spec_table C T (mfp_spec scs hitf T) xs.
Proof.
  intros Hs. unfold mem_fp. rewrite (mem_counts_table false xs Hs). unfold spec_table, mfp_spec.
  apply map_ext. intros i. apply map_ext. intros c. apply cnt_ext. intros x. destruct (hitf x c); reflexivity.
Qed.
Theorem mem_fn_spec cc xs : asc T -> cc = map (fun c => mpos_spec hitf c xs) (seq 0 C) ->
  mem_fn scs hitf C T cc xs = spec_table C T (mfn_spec scs hitf T) xs.
Proof.
  intros Hs ->. unfold mem_fn. rewrite (mem_tp_spec xs Hs). unfold spec_table. rewrite map_map.
  apply map_ext. intros i. rewrite map2_map_same. reflexivity.
Qed.

(* ---- vectorized ---- *)
Definition rows_ok xs := Forall (fun x => length (scs x) = C) xs.

Lemma pred_cell t x c : length (scs x) = C -> (c < C)%nat ->
  nth c (pred_row scs t x) false = (t <=? nth c (scs x) 0).
Proof.
  intros Hl Hc. unfold pred_row. rewrite (nth_indep _ false ((fun s => t <=? s) 0)) by (rewrite map_length; lia).
  apply (map_nth (fun s => t <=? s)).
Qed.
Lemma tgt_cell x c : (c < C)%nat -> nth c (tgt_row hitf C x) false = hitf x c.
Proof. intros Hc. unfold tgt_row. rewrite nth_map_seq by exact Hc. reflexivity. Qed.

Lemma colsum_cnt (g : X -> list Z) (P : nat -> X -> bool) xs :
  (forall x c, In x xs -> (c < C)%nat -> nth c (g x) 0 = b2z (P c x)) ->
  colsum C (map g xs) = map (fun c => cnt (P c) xs) (seq 0 C).
Proof.
  intros H. unfold colsum. apply map_ext_in. intros c Hc. apply in_seq in Hc. rewrite map_map.
  rewrite <- sum_b2z. f_equal. apply map_ext_in. intros x Hx. apply H; [exact Hx|lia].
Qed.

Theorem vec_tp_spec xs : rows_ok xs -> vec_tp scs hitf C T xs = spec_table C T (mtp_spec scs hitf T) xs.
Proof.
  intros Hok. unfold vec_tp, spec_table. rewrite (map_nth_seq _ 0 T). apply map_ext. intros i.
  apply colsum_cnt. intros x c Hx Hc. rewrite nth_map_b2z, nth_map2_andb, tgt_cell by exact Hc.
  rewrite pred_cell; [reflexivity| |exact Hc]. unfold rows_ok in Hok. rewrite Forall_forall in Hok. apply Hok, Hx.
Qed.
Lemma vec_lab_spec xs : rows_ok xs ->
  vec_lab scs C T xs = spec_table C T (fun i c => cnt (fun x => nth i T 0 <=? nth c (scs x) 0)) xs.
Proof.
  intros Hok. unfold vec_lab, spec_table. rewrite (map_nth_seq _ 0 T). apply map_ext. intros i.
  apply colsum_cnt. intros x c Hx Hc. rewrite nth_map_b2z.
  rewrite pred_cell; [reflexivity| |exact Hc]. unfold rows_ok in Hok. rewrite Forall_forall in Hok. apply Hok, Hx.
Qed.
Theorem vec_fp_spec xs : rows_ok xs -> vec_fp scs hitf C T xs = spec_table C T (mfp_spec scs hitf T) xs.
Proof.
  intros Hok. unfold vec_fp. rewrite (vec_lab_spec xs Hok), (vec_tp_spec xs Hok). unfold spec_table.
  rewrite map2_map_same. apply map_ext. intros i. rewrite map2_map_same. apply map_ext. intros c.
  unfold mtp_spec, mfp_spec. apply (cnt_and_neg (fun x => nth i T 0 <=? nth c (scs x) 0) (fun x => hitf x c)).
Qed.
Lemma tgt_sum_spec xs : tgt_sum hitf C xs = map (fun c => mpos_spec hitf c xs) (seq 0 C).
Proof.
  unfold tgt_sum. apply colsum_cnt. intros x c _ Hc. rewrite nth_map_b2z, tgt_cell by exact Hc. reflexivity.
Qed.
Theorem vec_fn_spec xs : rows_ok xs -> vec_fn scs hitf C T xs = spec_table C T (mfn_spec scs hitf T) xs.
Proof.
  intros Hok. unfold vec_fn. rewrite (vec_tp_spec xs Hok), tgt_sum_spec. unfold spec_table. rewrite map_map.
  apply map_ext. intros i. rewrite map2_map_same. reflexivity.
Qed.
End Modes.

(* instances: multiclass (one-hot target, class counts by histc) and multilabel *)
Lemma mc_class_counts_spec C xs : mc_class_counts C xs = map (fun c => mpos_spec mc_hit c xs) (seq 0 C).
Proof.
  unfold mc_class_counts, histc. apply map_ext. intros c. unfold countZ, mpos_spec, cnt. f_equal.
  induction xs as [|x xs IH]; [reflexivity|]. cbn [map filter]. unfold mc_hit at 1.
  replace (Z.of_nat c =? Z.of_nat (snd x)) with (Nat.eqb (snd x) c).
  2:{ destruct (Nat.eqb_spec (snd x) c); symmetry; [apply Z.eqb_eq; lia|apply Z.eqb_neq; lia]. }
  destruct (Nat.eqb (snd x) c); cbn [length]; rewrite IH; reflexivity.
Qed.
Lemma mc_ok_rows C xs : mc_ok C xs = true -> rows_ok mc_scs C xs.
Proof.
  unfold mc_ok, rows_ok. rewrite forallb_forall, Forall_forall. intros H x Hx. specialize (H x Hx).
  apply andb_prop in H as [H _]. apply Nat.eqb_eq in H. exact H.
Qed.
Lemma ml_ok_rows C xs : ml_ok C xs = true -> rows_ok ml_scs C xs.
Proof.
  unfold ml_ok, rows_ok. rewrite forallb_forall, Forall_forall. intros H x Hx. specialize (H x Hx).
  apply andb_prop in H as [H _]. apply Nat.eqb_eq in H. exact H.
Qed.

Definition counts_spec {X} (scs : X -> list Z) (hitf : X -> nat -> bool) C T xs :=
  (spec_table C T (mfn_spec scs hitf T) xs, spec_table C T (mfp_spec scs hitf T) xs, spec_table C T (mtp_spec scs hitf T) xs).

Theorem mc_counts_spec c xs : asc (thresholds c) -> mc_ok (bC c) xs = true ->
  mc_counts c xs = counts_spec mc_scs mc_hit (bC c) (thresholds c) xs.
Proof.
  intros Hs Hok. unfold mc_counts, counts_spec. destruct (bmem c).
  - rewrite mem_fn_spec, mem_fp_spec, mem_tp_spec by (try assumption; apply mc_class_counts_spec). reflexivity.
  - apply mc_ok_rows in Hok. rewrite vec_fn_spec, vec_fp_spec, vec_tp_spec by assumption. reflexivity.
Qed.
Theorem ml_counts_spec c xs : asc (thresholds c) -> ml_ok (bC c) xs = true ->
  ml_counts c xs = counts_spec ml_scs ml_hit (bC c) (thresholds c) xs.
Proof.
  intros Hs Hok. unfold ml_counts, counts_spec. destruct (bmem c).
  - rewrite mem_fn_spec, mem_fp_spec, mem_tp_spec by (try assumption; apply tgt_sum_spec). reflexivity.
  - apply ml_ok_rows in Hok. rewrite vec_fn_spec, vec_fp_spec, vec_tp_spec by assumption. reflexivity.
Qed.

Definition with_mode (c : bcfg) (m : bool) : bcfg :=
  {| bD := bD c; bthr := bthr c; bmem := m; bC := bC c; bmacro := bmacro c |}.
Theorem mc_modes_agree c xs : asc (thresholds c) -> mc_ok (bC c) xs = true ->
  mc_counts (with_mode c true) xs = mc_counts (with_mode c false) xs.
Proof. intros Hs Hok. rewrite !mc_counts_spec by assumption. reflexivity. Qed.
Theorem ml_modes_agree c xs : asc (thresholds c) -> ml_ok (bC c) xs = true ->
  ml_counts (with_mode c true) xs = ml_counts (with_mode c false) xs.
Proof. intros Hs Hok. rewrite !ml_counts_spec by assumption. reflexivity. Qed.
(* hence identical state contributions and identical compute() results in both modes *)
Corollary mc_beta_modes c xs : asc (thresholds c) -> mc_ok (bC c) xs = true ->
  mc_beta (with_mode c true) xs = mc_beta (with_mode c false) xs.
Proof. intros. unfold mc_beta. rewrite mc_modes_agree by assumption. reflexivity. Qed.
Corollary ml_beta_modes c xs : asc (thresholds c) -> ml_ok (bC c) xs = true ->
  ml_beta (with_mode c true) xs = ml_beta (with_mode c false) xs.
Proof. intros. unfold ml_beta. rewrite ml_modes_agree by assumption. reflexivity. Qed.

(* cell-level reading of the tables *)
Lemma spec_table_cell {X} C T (f : nat -> nat -> list X -> Z) xs i c : (i < length T)%nat -> (c < C)%nat ->
  nth c (nth i (spec_table C T f xs) []) 0 = f i c xs.
Proof. intros Hi Hc. unfold spec_table. rewrite nth_map_seq by exact Hi. rewrite nth_map_seq by exact Hc. reflexivity. Qed.

(* the parameter check implies the sortedness hypothesis of the theorems *)
Lemma prc_param_asc D T : prc_param_ok D T = true -> asc T.
Proof. unfold prc_param_ok. intros H. apply andb_prop in H as [H _]. apply sortedb_asc, H. Qed.

(* ======================================================================================== *)
(* C06 item 3: binned AUROC = exact AUROC of the scores rounded down to the nearest threshold  *)
(* ======================================================================================== *)
(* ---- the binned AUROC counts are per-threshold counts ---- *)
Lemma broc_tp_spec T xs : broc_tp T xs = map (fun t => tp_spec t xs) T.
Proof.
  unfold broc_tp, tp_spec. apply map_ext. intros t. rewrite <- sum_b2z. f_equal. apply map_ext. intros x.
  destruct (t <=? fst x), (snd x); reflexivity.
Qed.
Lemma broc_fp_spec T xs : broc_fp T xs = map (fun t => fp_spec t xs) T.
Proof.
  unfold broc_fp, fp_spec. apply map_ext. intros t.
  pose proof (cnt_and_neg (fun x : sample => t <=? fst x) (fun x => snd x) xs) as H.
  transitivity (cnt (fun x : sample => t <=? fst x) xs - cnt (fun x : sample => (t <=? fst x) && snd x) xs); [|exact H].
  f_equal.
  - apply (sum_b2z (fun x : sample => t <=? fst x)).
  - rewrite <- sum_b2z. f_equal. apply map_ext. intros x. destruct (t <=? fst x), (snd x); reflexivity.
Qed.

(* ---- twice the trapezoid area, over the ascending threshold list ---- *)
Fixpoint trap2 (tp fp : list Z) : Z :=
  match tp, fp with
  | a :: tp', b :: fp' => (b - hd 0 fp') * (a + hd 0 tp') + trap2 tp' fp'
  | _, _ => 0
  end.
Definition trapF (f g : Z -> Z) (T : list Z) : Z := trap2 (map f T) (map g T).
Lemma trapF_cons f g t T : trapF f g (t :: T) = (g t - hd 0 (map g T)) * (f t + hd 0 (map f T)) + trapF f g T.
Proof. reflexivity. Qed.
Lemma trapF_ext_in f f' g g' T : (forall t, In t T -> f t = f' t) -> (forall t, In t T -> g t = g' t) -> trapF f g T = trapF f' g' T.
Proof. intros Hf Hg. unfold trapF. rewrite (map_ext_in f f' T Hf), (map_ext_in g g' T Hg). reflexivity. Qed.
Lemma trapF_ext f f' g g' T : (forall t, f t = f' t) -> (forall t, g t = g' t) -> trapF f g T = trapF f' g' T.
Proof. intros Hf Hg. apply trapF_ext_in; intros; auto. Qed.
Lemma hd_map_add (f f' : Z -> Z) (T : list Z) : hd 0 (map (fun t => f t + f' t) T) = hd 0 (map f T) + hd 0 (map f' T).
Proof. destruct T; reflexivity. Qed.
Lemma hd_map_0 (T : list Z) : hd 0 (map (fun _ : Z => 0) T) = 0.
Proof. destruct T; reflexivity. Qed.
Lemma trapF_add_l f f' g T : trapF (fun t => f t + f' t) g T = trapF f g T + trapF f' g T.
Proof. induction T as [|t T IH]; [reflexivity|]. rewrite !trapF_cons, IH, hd_map_add. ring. Qed.
Lemma trapF_add_r f g g' T : trapF f (fun t => g t + g' t) T = trapF f g T + trapF f g' T.
Proof. induction T as [|t T IH]; [reflexivity|]. rewrite !trapF_cons, IH, hd_map_add. ring. Qed.
Lemma trapF_0_l g T : trapF (fun _ => 0) g T = 0.
Proof. induction T as [|t T IH]; [reflexivity|]. rewrite trapF_cons, IH, hd_map_0. ring. Qed.
Lemma trapF_0_r f T : trapF f (fun _ => 0) T = 0.
Proof. induction T as [|t T IH]; [reflexivity|]. rewrite trapF_cons, IH, hd_map_0. ring. Qed.
Lemma trapF_sum_l {X} (h : X -> Z -> Z) g T (xs : list X) :
  trapF (fun t => sumZ (map (fun x => h x t) xs)) g T = sumZ (map (fun x => trapF (h x) g T) xs).
Proof.
  induction xs as [|x xs IH]; [apply trapF_0_l|]. cbn [map sumZ fold_right].
  fold (sumZ (map (fun x => trapF (h x) g T) xs)). rewrite <- IH. apply (trapF_add_l (h x)).
Qed.
Lemma trapF_sum_r {X} f (h : X -> Z -> Z) T (xs : list X) :
  trapF f (fun t => sumZ (map (fun x => h x t) xs)) T = sumZ (map (fun x => trapF f (h x) T) xs).
Proof.
  induction xs as [|x xs IH]; [apply trapF_0_r|]. cbn [map sumZ fold_right].
  fold (sumZ (map (fun x => trapF f (h x) T) xs)). rewrite <- IH. apply (trapF_add_r f (h x)).
Qed.

(* ---- floors ---- *)
Lemma filter_above (T : list Z) s : Forall (fun u => s < u) T -> filter (fun t => t <=? s) T = [].
Proof. induction 1 as [|u T Hu _ IH]; [reflexivity|]. cbn [filter]. destruct (Z.leb_spec u s); [lia|exact IH]. Qed.
Lemma last_ge (c : Z) : forall l, l <> [] -> Forall (Z.le c) l -> c <= last l 0.
Proof.
  induction l as [|x l IH]; intros Hne Hall; [congruence|]. inversion Hall; subst.
  destruct l as [|y l]; [exact H1|]. change (last (x :: y :: l) 0) with (last (y :: l) 0). apply IH; [discriminate|assumption].
Qed.
(* T = t :: t1 :: T'' sorted *)
Lemma floor_skip t t1 T s : t <= s -> t1 <= s -> floorT (t :: t1 :: T) s = floorT (t1 :: T) s.
Proof.
  intros H H1. unfold floorT. cbn [filter]. destruct (Z.leb_spec t s); [|lia]. destruct (Z.leb_spec t1 s); [|lia]. reflexivity.
Qed.
Lemma floor_first t T s : t <= s -> Forall (fun u => s < u) T -> floorT (t :: T) s = t.
Proof.
  intros H Hall. unfold floorT. cbn [filter]. destruct (Z.leb_spec t s); [|lia]. rewrite (filter_above T s Hall). reflexivity.
Qed.
Lemma floor_ge_hd t1 T s : asc (t1 :: T) -> t1 <= s -> t1 <= floorT (t1 :: T) s.
Proof.
  intros Hs H. unfold floorT. cbn [filter]. destruct (Z.leb_spec t1 s); [|lia].
  apply last_ge; [discriminate|]. constructor; [lia|]. inversion Hs as [|? ? _ Hall]; subst.
  apply Forall_forall. intros u Hu. apply filter_In in Hu as [Hu _]. rewrite Forall_forall in Hall. apply Hall, Hu.
Qed.
Lemma asc_above t1 T s : asc (t1 :: T) -> s < t1 -> Forall (fun u => s < u) (t1 :: T).
Proof.
  intros Hs H. inversion Hs as [|? ? _ Hall]; subst. constructor; [exact H|].
  apply Forall_forall. intros u Hu. rewrite Forall_forall in Hall. specialize (Hall u Hu). lia.
Qed.

Definition ind (s t : Z) : Z := b2z (t <=? s).
Lemma ind_zero_above s T : Forall (fun u => s < u) T -> forall t, In t T -> ind s t = 0.
Proof. intros Hall t Ht. rewrite Forall_forall in Hall. specialize (Hall t Ht). unfold ind. destruct (Z.leb_spec t s); [lia|reflexivity]. Qed.

(* one (negative a, positive b) pair: its trapezoid contribution is 2 / 1 / 0 according to the FLOORED scores *)
Lemma seg_pair : forall T a b, asc T -> T <> [] -> hd 0 T <= a -> hd 0 T <= b ->
  trapF (ind b) (ind a) T = 2 * b2z (floorT T a <? floorT T b) + b2z (floorT T a =? floorT T b).
Proof.
  induction T as [|t T IH]; intros a b Hs Hne Ha Hb; [congruence|]. cbn [hd] in Ha, Hb.
  assert (Ea : ind a t = 1) by (unfold ind; destruct (Z.leb_spec t a); [reflexivity|lia]).
  assert (Eb : ind b t = 1) by (unfold ind; destruct (Z.leb_spec t b); [reflexivity|lia]).
  rewrite trapF_cons, Ea, Eb. destruct T as [|t1 T].
  - cbn [map hd]. change (trapF (ind b) (ind a) []) with 0.
    rewrite !floor_first by (try assumption; constructor).
    rewrite Z.ltb_irrefl, Z.eqb_refl. reflexivity.
  - inversion Hs as [|? ? Hs' Hall]; subst. assert (Htt1 : t <= t1) by (inversion Hall; assumption).
    cbn [map hd]. unfold ind at 1 2. destruct (Z.leb_spec t1 a) as [Ha1|Ha1]; destruct (Z.leb_spec t1 b) as [Hb1|Hb1]; cbn [b2z].
    + rewrite (IH a b Hs') by (try discriminate; cbn [hd]; assumption). rewrite !floor_skip by assumption. ring.
    + (* a >= t1 > b : floor a >= t1 > floor b = t *)
      rewrite (trapF_ext_in (ind b) (fun _ => 0) (ind a) (ind a)) by (intros t' Ht'; first [reflexivity | apply (ind_zero_above b (t1 :: T)); [apply asc_above; assumption | assumption]]).
      rewrite trapF_0_l. rewrite (floor_skip t t1 T a) by assumption.
      rewrite (floor_first t (t1 :: T) b) by (try assumption; apply asc_above; assumption).
      pose proof (floor_ge_hd t1 T a Hs' Ha1).
      destruct (Z.ltb_spec (floorT (t1 :: T) a) t); [lia|]. destruct (Z.eqb_spec (floorT (t1 :: T) a) t); [lia|]. reflexivity.
    + (* a < t1 <= b *)
      rewrite (trapF_ext_in (ind b) (ind b) (ind a) (fun _ => 0)) by (intros t' Ht'; first [reflexivity | apply (ind_zero_above a (t1 :: T)); [apply asc_above; assumption | assumption]]).
      rewrite trapF_0_r. rewrite (floor_skip t t1 T b) by assumption.
      rewrite (floor_first t (t1 :: T) a) by (try assumption; apply asc_above; assumption).
      pose proof (floor_ge_hd t1 T b Hs' Hb1).
      destruct (Z.ltb_spec t (floorT (t1 :: T) b)); [|lia]. destruct (Z.eqb_spec t (floorT (t1 :: T) b)); [lia|]. reflexivity.
    + rewrite (trapF_ext_in (ind b) (ind b) (ind a) (fun _ => 0)) by (intros t' Ht'; first [reflexivity | apply (ind_zero_above a (t1 :: T)); [apply asc_above; assumption | assumption]]).
      rewrite trapF_0_r.
      rewrite !(floor_first t (t1 :: T)) by (try assumption; apply asc_above; assumption).
      rewrite Z.ltb_irrefl, Z.eqb_refl. reflexivity.
Qed.

Theorem trap2_pair2 T xs : asc T -> T <> [] -> (forall x, In x xs -> hd 0 T <= fst x) ->
  trap2 (map (fun t => tp_spec t xs) T) (map (fun t => fp_spec t xs) T) = pair2 (floored T xs).
Proof.
  intros Hs Hne Hge. change (trap2 _ _) with (trapF (fun t => tp_spec t xs) (fun t => fp_spec t xs) T).
  rewrite (trapF_ext _ (fun t => sumZ (map (fun p : sample => b2z ((t <=? fst p) && snd p)) xs))
                     _ (fun t => sumZ (map (fun q : sample => b2z ((t <=? fst q) && negb (snd q))) xs)))
    by (intros t; unfold tp_spec, fp_spec; symmetry; apply sum_b2z).
  rewrite (trapF_sum_r _ (fun (q : sample) t => b2z ((t <=? fst q) && negb (snd q)))).
  unfold pair2, floored. rewrite map_map. f_equal. apply map_ext_in. intros q Hq. cbn [fst snd].
  destruct (snd q) eqn:Eq.
  - rewrite (trapF_ext _ (fun t => sumZ (map (fun p : sample => b2z ((t <=? fst p) && snd p)) xs)) _ (fun _ => 0))
      by (intros t; try reflexivity; rewrite andb_false_r; reflexivity).
    apply trapF_0_r.
  - rewrite (trapF_sum_l (fun (p : sample) t => b2z ((t <=? fst p) && snd p))). rewrite map_map. f_equal.
    apply map_ext_in. intros p Hp. cbn [fst snd]. destruct (snd p) eqn:Ep.
    + rewrite (trapF_ext _ (ind (fst p)) _ (ind (fst q))) by (intros t; unfold ind; rewrite ?andb_true_r; reflexivity).
      apply seg_pair; try assumption; apply Hge; assumption.
    + rewrite (trapF_ext _ (fun _ => 0) _ (ind (fst q))) by (intros t; unfold ind; rewrite ?andb_true_r, ?andb_false_r; reflexivity).
      apply trapF_0_l.
Qed.

(* ---- rational glue: torch.trapz over the padded, reversed count vectors ---- *)
Section QcGlue.
Local Open Scope Qc_scope.
Lemma zq_add a b : zq (a + b) = zq a + zq b.
Proof. unfold zq, mkq. apply Qc_is_canon. unfold Qcplus, Q2Qc, this. rewrite !Qred_correct. unfold Qeq, Qplus. simpl. lia. Qed.
Lemma zq_mul a b : zq (a * b) = zq a * zq b.
Proof. unfold zq, mkq. apply Qc_is_canon. unfold Qcmult, Q2Qc, this. rewrite !Qred_correct. unfold Qeq, Qmult. simpl. lia. Qed.
Lemma zq_sub a b : zq (a - b) = zq a - zq b.
Proof. unfold zq, mkq, Qcminus, Qcopp. apply Qc_is_canon. unfold Qcplus, Q2Qc, this. rewrite !Qred_correct. unfold Qeq, Qplus, Qopp. simpl. lia. Qed.
Lemma zq_0 : zq 0 = 0.
Proof. apply Qc_is_canon. reflexivity. Qed.

Lemma sumQ_snoc l z : sumQ (l ++ [z]) = sumQ l + z.
Proof. induction l as [|a l IH]; cbn [app sumQ fold_right]; [ring|]. fold (sumQ (l ++ [z])). fold (sumQ l). rewrite IH. ring. Qed.
Lemma map2_snoc_shift {A B} (g : A -> A -> B) (d a : A) : forall xs x0,
  map2 g (xs ++ [a]) (x0 :: (xs ++ [a])) = map2 g xs (x0 :: xs) ++ [g a (last (x0 :: xs) d)].
Proof.
  induction xs as [|x1 xs IH]; intros x0; [reflexivity|]. cbn [app map2]. rewrite IH. reflexivity.
Qed.
Lemma map2_length_shift {A B} (g : A -> A -> B) : forall xs x0, length (map2 g xs (x0 :: xs)) = length xs.
Proof. induction xs as [|x1 xs IH]; intros x0; [reflexivity|]. cbn [map2 length]. rewrite IH. reflexivity. Qed.
Lemma map2_snoc {A B C} (h : A -> B -> C) : forall la lb p q, length la = length lb ->
  map2 h (la ++ [p]) (lb ++ [q]) = map2 h la lb ++ [h p q].
Proof.
  induction la as [|a la IH]; intros [|b lb] p q Hl; try discriminate; [reflexivity|].
  cbn [app map2]. rewrite IH by (cbn in Hl; lia). reflexivity.
Qed.
Lemma trapz_snoc y0 ys x0 xs y x : length ys = length xs ->
  trapz ((y0 :: ys) ++ [y]) ((x0 :: xs) ++ [x])
  = trapz (y0 :: ys) (x0 :: xs) + (x - last (x0 :: xs) 0) * (y + last (y0 :: ys) 0) / (1 + 1).
Proof.
  intros Hl. unfold trapz. cbn [app tl].
  rewrite (map2_snoc_shift Qcminus 0 x xs x0), (map2_snoc_shift Qcplus 0 y ys y0).
  rewrite map2_snoc by (rewrite !map2_length_shift; lia). rewrite sumQ_snoc. reflexivity.
Qed.
Lemma last_rev_hd l : last (0 :: rev (map zq l)) 0 = zq (hd 0%Z l).
Proof.
  destruct l as [|a l]; [cbn; symmetry; apply zq_0|]. cbn [map rev hd].
  change (0 :: rev (map zq l) ++ [zq a]) with ((0 :: rev (map zq l)) ++ [zq a]). apply last_last.
Qed.
Lemma trapz_rev : forall tp fp, length tp = length fp ->
  trapz (0 :: rev (map zq tp)) (0 :: rev (map zq fp)) = zq (trap2 tp fp) / (1 + 1).
Proof.
  induction tp as [|a tp IH]; intros [|b fp] Hl; try discriminate.
  - cbn. rewrite zq_0. unfold Qcdiv. ring.
  - cbn [map rev].
    change (0 :: rev (map zq tp) ++ [zq a]) with ((0 :: rev (map zq tp)) ++ [zq a]).
    change (0 :: rev (map zq fp) ++ [zq b]) with ((0 :: rev (map zq fp)) ++ [zq b]).
    rewrite trapz_snoc by (rewrite !rev_length, !map_length; cbn in Hl; lia).
    rewrite IH by (cbn in Hl; lia). rewrite !last_rev_hd. cbn [trap2].
    rewrite zq_add, zq_mul, zq_sub, zq_add. unfold Qcdiv. ring.
Qed.
End QcGlue.

Lemma hd_map_nonempty (f : Z -> Z) T : T <> [] -> hd 0 (map f T) = f (hd 0 T).
Proof. destruct T; [congruence|reflexivity]. Qed.
Lemma all_above_tp t xs : (forall x : sample, In x xs -> t <= fst x) -> tp_spec t xs = pos_spec xs /\ fp_spec t xs = neg_spec xs.
Proof.
  intros H. unfold tp_spec, fp_spec, pos_spec, neg_spec. split; apply cnt_ext_in; intros x Hx; specialize (H x Hx);
    destruct (Z.leb_spec t (fst x)); try lia; reflexivity.
Qed.
Lemma floored_labels T xs : pos_spec (floored T xs) = pos_spec xs /\ neg_spec (floored T xs) = neg_spec xs.
Proof. unfold pos_spec, neg_spec, floored. rewrite !cnt_map. split; reflexivity. Qed.

(* binned AUROC (threshold list starting at or below every score) = exact AUROC, ties 1/2, of the scores
   rounded down to the nearest threshold; 1/2 when a class is empty on both sides *)
Theorem binned_auroc_floor_thm T xs : asc T -> T <> [] -> (forall x, In x xs -> hd 0 T <= fst x) ->
  binary_binned_auroc T xs = auroc_exact (floored T xs).
Proof.
  intros Hs Hne Hge. unfold binary_binned_auroc, auroc_of_counts, auroc_exact. cbv zeta.
  rewrite broc_tp_spec, broc_fp_spec, trapz_rev by (rewrite !map_length; reflexivity).
  rewrite !last_rev_hd, !hd_map_nonempty by exact Hne.
  destruct (all_above_tp (hd 0 T) xs Hge) as [-> ->]. destruct (floored_labels T xs) as [-> ->].
  rewrite trap2_pair2 by assumption. reflexivity.
Qed.

(* per task: BinaryBinnedAUROC.compute() *)
Theorem broc_fun_floor c cols : cols <> [] -> asc (thresholds c) -> thresholds c <> [] ->
  (forall t x, In x (task_row t cols) -> hd 0 (thresholds c) <= fst x) ->
  broc_fun c cols = Some (map (fun t => auroc_exact (floored (thresholds c) (task_row t cols))) (seq 0 (bC c)), thr_q c).
Proof.
  intros Hne Hs HT Hge. unfold broc_fun. destruct cols as [|col cols]; [congruence|]. f_equal. f_equal.
  apply map_ext. intros t. apply binned_auroc_floor_thm; try assumption. apply Hge.
Qed.

(* multiclass binned AUROC as implemented is NOT the per-class one-vs-rest binned AUROC: it has one entry per
   sample.  Witnesses: (1) one sample, two classes: lengths 1 vs 2; (2) two samples, two classes (same
   length): different values. *)
Lemma mc_binned_auroc_refuted :
  (exists C T xs, mc_ok C xs = true /\ asc T /\ length (mc_binned_auroc_algo C T xs) <> length (mc_binned_auroc_spec C T xs)) /\
  (exists C T xs, mc_ok C xs = true /\ asc T /\ length (mc_binned_auroc_algo C T xs) = length (mc_binned_auroc_spec C T xs)
                  /\ mc_binned_auroc_algo C T xs <> mc_binned_auroc_spec C T xs).
Proof.
  split.
  - exists 2%nat, [0; 8], [([8; 0], 0%nat)]. split; [reflexivity|]. split; [repeat constructor; lia|]. vm_compute. discriminate.
  - exists 2%nat, [0; 2; 4; 6; 8], [([6; 2], 0%nat); ([2; 6], 0%nat)]. split; [reflexivity|]. split; [repeat constructor; lia|].
    split; [reflexivity|]. vm_compute. discriminate.
Qed.

(* ======================================================================================== *)
(* binned counts (hence binned PR curves and binned AUPRC) depend on the scores only through    *)
(* their floors                                                                               *)
(* ======================================================================================== *)
Lemma last_In_ne (l : list Z) : l <> [] -> In (last l 0) l.
Proof.
  induction l as [|x l IH]; intros Hne; [congruence|]. destruct l as [|y l]; [left; reflexivity|].
  right. change (last (x :: y :: l) 0) with (last (y :: l) 0). apply IH. discriminate.
Qed.
Lemma asc_filter (P : Z -> bool) l : asc l -> asc (filter P l).
Proof.
  induction 1 as [|a l Hl IH Hall]; [constructor|]. cbn [filter]. destruct (P a); [|exact IH].
  constructor; [exact IH|]. apply Forall_forall. intros u Hu. apply filter_In in Hu as [Hu _].
  rewrite Forall_forall in Hall. apply Hall, Hu.
Qed.
Lemma asc_last_max l t : asc l -> In t l -> t <= last l 0.
Proof.
  induction 1 as [|x l Hl IH Hall]; intros Hin; [destruct Hin|]. destruct l as [|y l].
  - destruct Hin as [->|[]]. cbn. lia.
  - change (last (x :: y :: l) 0) with (last (y :: l) 0). destruct Hin as [->|Hin]; [|apply IH, Hin].
    rewrite Forall_forall in Hall. apply Hall, last_In_ne. discriminate.
Qed.
Lemma floor_iff T s t : asc T -> T <> [] -> hd 0 T <= s -> In t T -> (t <=? floorT T s) = (t <=? s).
Proof.
  intros Hs Hne Hhd Hin. unfold floorT.
  assert (Hf : filter (fun u => u <=? s) T <> []).
  { destruct T as [|u T]; [congruence|]. cbn [hd] in Hhd. cbn [filter]. destruct (Z.leb_spec u s); [discriminate|lia]. }
  pose proof (last_In_ne _ Hf) as Hl. apply filter_In in Hl as [_ Hl]. apply Z.leb_le in Hl.
  destruct (Z.leb_spec t s) as [Hts|Hts].
  - apply Z.leb_le. apply asc_last_max; [apply asc_filter, Hs|]. apply filter_In. split; [exact Hin|apply Z.leb_le, Hts].
  - apply Z.leb_gt. lia.
Qed.
Lemma spec_floor_invariant T xs t : asc T -> T <> [] -> (forall x, In x xs -> hd 0 T <= fst x) -> In t T ->
  tp_spec t (floored T xs) = tp_spec t xs /\ fp_spec t (floored T xs) = fp_spec t xs /\ fn_spec t (floored T xs) = fn_spec t xs.
Proof.
  intros Hs Hne Hge Hin.
  assert (Htp : tp_spec t (floored T xs) = tp_spec t xs).
  { unfold tp_spec, floored. rewrite cnt_map. apply cnt_ext_in. intros x Hx. cbn [fst snd]. rewrite floor_iff; auto. }
  split; [exact Htp|]. split.
  - unfold fp_spec, floored. rewrite cnt_map. apply cnt_ext_in. intros x Hx. cbn [fst snd]. rewrite floor_iff; auto.
  - unfold fn_spec. rewrite Htp. destruct (floored_labels T xs) as [-> _]. reflexivity.
Qed.
Theorem binned_counts_floor_invariant T xs : asc T -> T <> [] -> (forall x, In x xs -> hd 0 T <= fst x) ->
  bin_tp T (floored T xs) = bin_tp T xs /\ bin_fp T (floored T xs) = bin_fp T xs /\ bin_fn T (floored T xs) = bin_fn T xs.
Proof.
  intros Hs Hne Hge. destruct (bin_vectors_spec T xs Hs) as (-> & -> & ->).
  destruct (bin_vectors_spec T (floored T xs) Hs) as (-> & -> & ->).
  repeat split; apply map_ext_in; intros t Ht; apply (spec_floor_invariant T xs t Hs Hne Hge Ht).
Qed.
(* binned AUPRC of the scores = binned AUPRC of the floored scores (which all sit ON thresholds); the full
   statement (= auprc_exact of the floored scores) is binned_auprc_floor_thm in Proofs/BinnedFloorP.v *)
Theorem binned_auprc_floor_invariant T xs : asc T -> T <> [] -> (forall x, In x xs -> hd 0 T <= fst x) ->
  auprc_curve (map zq (bin_tp T xs)) (map zq (bin_fp T xs)) (map zq (bin_fn T xs))
  = auprc_curve (map zq (bin_tp T (floored T xs))) (map zq (bin_fp T (floored T xs))) (map zq (bin_fn T (floored T xs))).
Proof. intros Hs Hne Hge. destruct (binned_counts_floor_invariant T xs Hs Hne Hge) as (-> & -> & ->). reflexivity. Qed.

(* ======================================================================================== *)
(* shapes: the count tensors always have the registered state's shape, so [avalid] of the       *)
(* AddSpec instances is exactly the input check                                               *)
(* ======================================================================================== *)
Lemma same_nzeros_zvec n l : length l = n -> same (nzeros n) (zvec l) = true.
Proof.
  unfold nzeros, zvec, nvec. rewrite same_arr. revert l. induction n as [|n IH]; intros [|z l] Hl; try discriminate; [reflexivity|].
  cbn [repeat map all2]. rewrite IH by (cbn in Hl; lia). reflexivity.
Qed.
Lemma same_nzeros2_zmat r k m : length m = r -> Forall (fun row => length row = k) m -> same (nzeros2 r k) (zmat m) = true.
Proof.
  unfold nzeros2, zmat, nmat. rewrite same_arr. revert m. induction r as [|r IH]; intros [|row m] Hl Hall; try discriminate; [reflexivity|].
  inversion Hall; subst. cbn [repeat map all2].
  change (nvec (map zq row)) with (zvec row). rewrite same_nzeros_zvec by reflexivity. rewrite IH by (try assumption; cbn in Hl; lia). reflexivity.
Qed.
Lemma same3 a b c a' b' c' : same a a' = true -> same b b' = true -> same c c' = true -> same (Arr [a; b; c]) (Arr [a'; b'; c']) = true.
Proof. intros H1 H2 H3. rewrite same_arr. cbn [all2]. rewrite H1, H2, H3. reflexivity. Qed.
Lemma map2_length {A B C} (f : A -> B -> C) : forall a b, length a = length b -> length (map2 f a b) = length a.
Proof. induction a as [|x a IH]; intros [|y b] Hl; try discriminate; [reflexivity|]. cbn [map2 length]. rewrite IH by (cbn in Hl; lia). reflexivity. Qed.

Theorem bprc_valid_all c xs : avalid bprc_spec c xs = true.
Proof.
  cbn [avalid bprc_spec]. unfold bprc_zero, bprc_beta. destruct (bin_len (thresholds c) xs) as (L1 & L2 & L3).
  apply same3; apply same_nzeros_zvec; assumption.
Qed.

Definition table_shape (r k : nat) (m : list (list Z)) := length m = r /\ Forall (fun row => length row = k) m.
Lemma table_shape_map_seq r k (f : nat -> list Z) : (forall i, length (f i) = k) -> table_shape r k (map f (seq 0 r)).
Proof. intros H. split; [rewrite map_length, seq_length; reflexivity|]. apply Forall_forall. intros row Hr. apply in_map_iff in Hr as (i & <- & _). apply H. Qed.
Lemma spec_table_shape {X} C T (f : nat -> nat -> list X -> Z) xs : table_shape (length T) C (spec_table C T f xs).
Proof. apply table_shape_map_seq. intros i. rewrite map_length, seq_length. reflexivity. Qed.
Lemma counts_spec_same {X} (scs : X -> list Z) hitf c xs :
  same (m_zero c) (pack3 (counts_spec scs hitf (bC c) (thresholds c) xs)) = true.
Proof.
  unfold m_zero, pack3, counts_spec. cbn [fst snd].
  apply same3; apply same_nzeros2_zmat; apply spec_table_shape.
Qed.
(* for sorted thresholds: valid = input check (both modes) *)
Theorem mc_valid_is_input_check c xs : asc (thresholds c) -> mc_ok (bC c) xs = true -> avalid mcprc_spec c xs = true /\ avalid mcauprc_spec c xs = true.
Proof.
  intros Hs Hok. cbn [avalid mcprc_spec mcauprc_spec mk_spec]. unfold mc_beta. rewrite Hok, (mc_counts_spec c xs Hs Hok), counts_spec_same. auto.
Qed.
Theorem ml_valid_is_input_check c xs : asc (thresholds c) -> ml_ok (bC c) xs = true -> avalid mlprc_spec c xs = true /\ avalid mlauprc_spec c xs = true.
Proof.
  intros Hs Hok. cbn [avalid mlprc_spec mlauprc_spec mk_spec]. unfold ml_beta. rewrite Hok, (ml_counts_spec c xs Hs Hok), counts_spec_same. auto.
Qed.
Theorem bauprc_valid_is_input_check c rows : length rows = bC c -> rect rows = true -> avalid bauprc_spec c rows = true.
Proof.
  intros Hl Hr. cbn [avalid bauprc_spec]. rewrite Hl, Nat.eqb_refl, Hr. cbn [andb]. unfold bauprc_zero, bauprc_beta.
  apply same3; apply same_nzeros2_zmat; try (rewrite map_length; exact Hl);
    apply Forall_forall; intros r Hin; apply in_map_iff in Hin as (xs & <- & _); apply bin_len.
Qed.
