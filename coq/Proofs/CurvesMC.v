(* The vectorised multiclass PR-curve pipeline (flip / pad / flattened select / split) equals the
   row-wise map of the binary pipeline. *)
From Coq Require Import ZArith List Bool QArith Qcanon Lia Sorted Permutation.
From TE Require Import Base.Val Base.Nd Base.Xq Models.Curves Proofs.CurvesP Proofs.CurvesPR.
Import ListNotations.
Open Scope Qc_scope.
Open Scope list_scope.

Lemma split_select2 {A} : forall (M : list (list bool)) (X : list (list A)),
  Forall2 (fun m x => List.length m = List.length x) M X ->
  split_sizes (map count_true M) (select2 M X) = map2 select M X.
Proof.
  induction 1 as [|m x M X Hl _ IH]; [reflexivity|].
  cbn [map select2 split_sizes map2].
  rewrite <- (select_length m x Hl).
  rewrite firstn_app, Nat.sub_diag, firstn_all. cbn [firstn]. rewrite app_nil_r.
  rewrite skipn_app, Nat.sub_diag, skipn_all. cbn [skipn app]. rewrite IH. reflexivity.
Qed.
Lemma select_snoc {A} : forall m (x : list A) b a, List.length m = List.length x ->
  select (m ++ [b]) (x ++ [a]) = select m x ++ (if b then [a] else []).
Proof. intros m x b a H. rewrite select_app by exact H. cbn [select]. destruct b; reflexivity. Qed.
Lemma select_rev {A} : forall m (x : list A), List.length m = List.length x -> select (rev m) (rev x) = rev (select m x).
Proof.
  induction m as [|b m IH]; intros [|a x] H; cbn in H; try lia; [reflexivity|].
  cbn [rev]. rewrite select_snoc by (rewrite !rev_length; lia). rewrite IH by lia.
  cbn [select]. destruct b; cbn [rev]; [reflexivity|]. rewrite app_nil_r. reflexivity.
Qed.
Lemma map2_snoc {A B C} (f : A -> B -> C) : forall a b x y, List.length a = List.length b ->
  map2 f (a ++ [x]) (b ++ [y]) = map2 f a b ++ [f x y].
Proof. induction a as [|u a IH]; intros [|v b] x y H; cbn in H; try lia; [reflexivity|]. cbn [app map2]. rewrite IH by lia. reflexivity. Qed.
Lemma map2_rev {A B C} (f : A -> B -> C) : forall a b, List.length a = List.length b -> map2 f (rev a) (rev b) = rev (map2 f a b).
Proof.
  induction a as [|u a IH]; intros [|v b] H; cbn in H; try lia; [reflexivity|].
  cbn [rev map2]. rewrite map2_snoc by (rewrite !rev_length; lia). rewrite IH by lia. reflexivity.
Qed.
Lemma select_map2 {A B C} (f : A -> B -> C) : forall m a b, List.length a = List.length b ->
  select m (map2 f a b) = map2 f (select m a) (select m b).
Proof.
  induction m as [|c m IH]; intros [|u a] [|v b] H; cbn in H; try lia; cbn [map2 select]; try reflexivity.
  destruct c; cbn [map2]; rewrite IH by lia; reflexivity.
Qed.
Lemma map2_length {A B C} (f : A -> B -> C) : forall a b, List.length a = List.length b -> List.length (map2 f a b) = List.length a.
Proof. induction a as [|u a IH]; intros [|v b] H; cbn in *; try lia. rewrite IH; lia. Qed.
Lemma last_map {A B} (f : A -> B) : forall l d, last (map f l) (f d) = f (last l d).
Proof. induction l as [|x l IH]; intros d; [reflexivity|]. cbn [map]. rewrite !last_cons_default. apply IH. Qed.
Lemma hd_rev {A} (l : list A) : forall d, hd d (rev l) = last l d.
Proof.
  induction l as [|x l IH]; intros d; [reflexivity|]. cbn [rev]. rewrite last_cons_default, <- IH.
  destruct (rev l) as [|y r]; reflexivity.
Qed.
Lemma last_cumsum (f : sample -> Qc) : forall l a, last (cumsum a (map f l)) a = a + sumf f l.
Proof.
  induction l as [|x l IH]; intros a; [rewrite sumf_nil; cbn [map cumsum last]; ring|].
  cbn [map]. rewrite cumsum_cons, last_cons_default, IH, sumf_cons. ring.
Qed.

(* one row of the vectorised pipeline *)
Definition mc_row (r : list sample) : curve :=
  let m := rev (mask (map sc r)) in
  let tp := rev (cumsum 0 (map pw r)) in
  let fp := rev (cumsum 0 (map nw r)) in
  (select (m ++ [true]) (map2 (fun t f => qdivx t (t + f)) tp fp ++ [Fin 1]),
   select (m ++ [true]) (map (fun t => nan_to_one (qdivx t (hd 0 tp))) tp ++ [Fin 0]),
   select m (rev (map sc r))).

Lemma Forall2_map_same {A B C} (f : A -> B) (g : A -> C) (P : B -> C -> Prop) (l : list A) :
  (forall x, P (f x) (g x)) -> Forall2 P (map f l) (map g l).
Proof. intros H. induction l; cbn; constructor; auto. Qed.

Theorem mc_prc_rows : forall R, mc_prc_sorted R = curves3 (map mc_row R).
Proof.
  intros R. unfold mc_prc_sorted, curves3.
  rewrite !split_select2.
  - induction R as [|r R IH]; [reflexivity|]. cbn [map map2] in *. injection IH as H1 H2 H3.
    rewrite H1, H2, H3. reflexivity.
  - rewrite ?map_map. apply Forall2_map_same. intros r. rewrite !rev_length, mask_length, !map_length. reflexivity.
  - rewrite ?map_map. apply Forall2_map_same. intros r.
    rewrite !app_length, !map_length, !rev_length, mask_length, cumsum_length, !map_length. reflexivity.
  - rewrite ?map_map, map2_map_map. apply Forall2_map_same. intros r.
    rewrite !app_length. cbn [List.length]. f_equal. rewrite rev_length, mask_length, map_length.
    assert (Hm : forall (a b : list Qc), List.length a = List.length b -> List.length (map2 (fun t f => qdivx t (t + f)) a b) = List.length a).
    { induction a as [|u a IH]; intros [|v b] H; cbn in *; try lia. rewrite IH; lia. }
    rewrite Hm by (rewrite !rev_length, !cumsum_length, !map_length; reflexivity).
    rewrite rev_length, cumsum_length, map_length. reflexivity.
Qed.

Lemma nan_to_one_fin_map (l : list xq) : (forall x, In x l -> is_nan x = false) -> map nan_to_one l = l.
Proof.
  induction l as [|x l IH]; intros H; [reflexivity|]. cbn [map]. rewrite IH by (intros y Hy; apply H; right; exact Hy).
  specialize (H x (or_introl eq_refl)). destruct x; try reflexivity. discriminate.
Qed.

Theorem mc_row_binary : forall r, mc_row r = prc_sorted r.
Proof.
  intros r. unfold mc_row, prc_sorted.
  set (m := mask (map sc r)). set (tpc := cumsum 0 (map pw r)). set (fpc := cumsum 0 (map nw r)).
  assert (Hm : List.length m = List.length r) by (unfold m; rewrite mask_length, map_length; reflexivity).
  assert (Ht : List.length tpc = List.length r) by (unfold tpc; rewrite cumsum_length, map_length; reflexivity).
  assert (Hf : List.length fpc = List.length r) by (unfold fpc; rewrite cumsum_length, map_length; reflexivity).
  assert (Htot : hd 0 (rev tpc) = last (select m tpc) 0).
  { rewrite hd_rev. unfold tpc, m. rewrite last_select_total, last_cumsum. ring. }
  apply f_equal2; [apply f_equal2|].
  - rewrite select_snoc by (rewrite map2_length, !rev_length by (rewrite !rev_length; lia); lia).
    rewrite map2_rev by lia. rewrite select_rev by (rewrite map2_length by lia; lia). rewrite select_map2 by lia. reflexivity.
  - rewrite select_snoc by (rewrite rev_length, map_length, rev_length; lia).
    rewrite Htot, (map_rev _ tpc), select_rev by (rewrite map_length; lia). rewrite select_map.
    set (tot := last (select m tpc) 0). set (sel := select m tpc).
    destruct (Qc_eq_dec tot 0) as [E|E].
    + (* TP = 0 *)
      destruct (rev (map (fun t => qdivx t tot) sel)) as [|h rest] eqn:Er.
      * assert (Hs : sel = []).
        { apply (f_equal (@List.length _)) in Er. rewrite rev_length, map_length in Er. destruct sel; [reflexivity|discriminate]. }
        rewrite Hs. reflexivity.
      * assert (Hh : h = NaN).
        { change h with (hd (qdivx 0 tot) (h :: rest)). rewrite <- Er, hd_rev. rewrite (last_map (fun t => qdivx t tot) sel 0).
          change (last sel (Q2Qc 0)) with tot. rewrite E. reflexivity. }
        subst h. change (is_nan (hd (Fin 0) ((NaN :: rest) ++ [Fin 0]))) with true. cbv iota.
        rewrite <- Er, map_app, map_rev, map_map. reflexivity.
    + assert (Hfin : forall x, In x (rev (map (fun t => qdivx t tot) sel) ++ [Fin 0]) -> is_nan x = false).
      { intros x Hx. apply in_app_or in Hx as [Hx|[<-|[]]]; [|reflexivity].
        apply in_rev, in_map_iff in Hx as (t & <- & _). rewrite qdivx_fin by exact E. reflexivity. }
      assert (Hhd : is_nan (hd (Fin 0) (rev (map (fun t => qdivx t tot) sel) ++ [Fin 0])) = false).
      { destruct (rev (map (fun t => qdivx t tot) sel) ++ [Fin 0]) as [|h rest] eqn:Er; [reflexivity|]. apply Hfin. left. reflexivity. }
      rewrite Hhd. rewrite <- (nan_to_one_fin_map _ Hfin). rewrite map_app, map_rev, map_map. reflexivity.
  - rewrite select_rev by (rewrite map_length; lia). reflexivity.
Qed.

Theorem mc_prc_sorted_rowwise : forall R, mc_prc_sorted R = curves3 (map prc_sorted R).
Proof. intros R. rewrite mc_prc_rows. f_equal. apply map_ext, mc_row_binary. Qed.
Theorem mc_prc_rowwise : forall R, mc_prc R = curves3 (map prc_row R).
Proof. intros R. unfold mc_prc. rewrite mc_prc_sorted_rowwise, map_map. reflexivity. Qed.

Lemma zip3_curves3 : forall cs : list curve, zip3 (curves3 cs) = cs.
Proof.
  unfold zip3, curves3. cbn [fst snd]. induction cs as [|[[p r] t] cs IH]; [reflexivity|].
  cbn [map combine map2 fst snd]. rewrite IH. reflexivity.
Qed.

Theorem mcprc_algo_spec C l : mcprc_algo C l = mcprc_spec C l.
Proof.
  destruct l as [|s l]; [reflexivity|]. unfold mcprc_algo, mcprc_spec. rewrite mc_prc_rowwise.
  rewrite (map_ext_Forall prc_row (fun r => fin_curve (prc_spec r)) wpos _ (wpos_ovr C _) prc_row_spec). reflexivity.
Qed.
Theorem mcauprc_algo_spec C macro l : mcauprc_algo C macro l = mcauprc_spec C macro l.
Proof.
  destruct l as [|s l]; [reflexivity|]. unfold mcauprc_algo, mcauprc_spec. rewrite mc_prc_rowwise, zip3_curves3, map_map.
  change (fun x => auprc_of (prc_row x)) with auprc_row.
  rewrite (map_ext_Forall auprc_row (fun r => Fin (auprc_spec r)) wpos _ (wpos_ovr C _) auprc_row_spec). reflexivity.
Qed.
