(* C11, sync clause: PrepLaws (Proofs/SyncNonInterfP.v) for the models of the development.
   - additive classes: SyncNonInterfP.add_PrepLaws (one theorem for the functor);
   - cache classes: cache_PrepLaws + cat_single for each CacheSpec (ccat = concat, csamples = id);
   - hand-written models with a non-identity prep: the score caches of Models/Ranking.v (HitRate,
     ReciprocalRank) and AUC (Models/Aggregation2.v);
   - hand-written models whose prep is the inherited no-op: PrepLaws_of_id. *)
From Coq Require Import ZArith List Bool QArith Qcanon String Arith Lia.
From TE Require Import Base.Val Base.Nd Base.Xq Algebra.Metric Algebra.Pool Algebra.Behave Algebra.Additive Algebra.Cache
     Models.Aggregation Models.Aggregation2 Models.Binned Models.Curves Models.Ranking Models.RankingFixed
     Models.Regression Models.Stat Models.Fad Models.Window Models.WindowAUROC
     Proofs.SyncNonInterfP.
Import ListNotations.
Open Scope list_scope.

(* ---- cache specs: torch.cat([x]) = x ---- *)
Lemma cat_single_id_samples (S : CacheSpec) (c : ccfg S) :
  (forall x y, csamples S c x = csamples S c y -> x = y) -> cat_single S c.
Proof. apply cat_single_of_injective. Qed.

Ltac cache_laws := intros; apply cache_PrepLaws; apply cat_single_of_injective; intros x y H; exact H.

Theorem cat_PrepLaws c : PrepLaws cat_metric c.                      Proof. cache_laws. Qed.
Theorem broc_PrepLaws c : PrepLaws Binned.broc_metric c.             Proof. cache_laws. Qed.
Theorem mroc_PrepLaws c : PrepLaws Binned.mroc_metric c.             Proof. cache_laws. Qed.
Theorem bauroc_PrepLaws c : PrepLaws Curves.bauroc_metric c.         Proof. cache_laws. Qed.
Theorem bauprc_PrepLaws c : PrepLaws Curves.bauprc_metric c.         Proof. cache_laws. Qed.
Theorem bprc_PrepLaws c : PrepLaws Curves.bprc_metric c.             Proof. cache_laws. Qed.
Theorem brap_PrepLaws c : PrepLaws Curves.brap_metric c.             Proof. cache_laws. Qed.
Theorem mcauroc_PrepLaws c : PrepLaws Curves.mcauroc_metric c.       Proof. cache_laws. Qed.
Theorem mcauprc_PrepLaws c : PrepLaws Curves.mcauprc_metric c.       Proof. cache_laws. Qed.
Theorem mlauprc_PrepLaws c : PrepLaws Curves.mlauprc_metric c.       Proof. cache_laws. Qed.
Theorem mcprc_PrepLaws c : PrepLaws Curves.mcprc_metric c.           Proof. cache_laws. Qed.
Theorem mlprc_PrepLaws c : PrepLaws Curves.mlprc_metric c.           Proof. cache_laws. Qed.
Theorem mlrap_PrepLaws c : PrepLaws Curves.mlrap_metric c.           Proof. cache_laws. Qed.
(* every spec built with Curves.list_cache *)
Theorem list_cache_PrepLaws C S O vld f c : PrepLaws (cache_metric (list_cache C S O vld f)) c.
Proof. cache_laws. Qed.

(* ---- score caches (HitRate, ReciprocalRank): state = list of per-update score vectors ---- *)
Section ScoreCacheInst.
Variables (C B : Type) (fvalid : C -> B -> bool) (f : C -> B -> list Qc).
Variable c : C.
Let Ms := sc_metric C B fvalid f.
Definition sc_R (s t : list (list Qc)) : Prop := List.concat s = List.concat t.

Lemma sc_merge_concat : forall ms s,
  List.concat (sc_merge s ms) = List.concat s ++ List.concat (map (@List.concat Qc) ms).
Proof.
  unfold sc_merge. induction ms as [|m ms IH]; intros s; cbn [fold_left map List.concat].
  - rewrite app_nil_r. reflexivity.
  - rewrite IH. destruct m as [|x m]; cbn [is_nil].
    + reflexivity.
    + rewrite concat_app. cbn [List.concat]. rewrite app_nil_r, <- !app_assoc. reflexivity.
Qed.

Lemma sc_R_sources : forall ms ns, Forall2 sc_R ms ns -> map (@List.concat Qc) ms = map (@List.concat Qc) ns.
Proof. intros ms ns H. induction H as [|m n ms ns Hmn _ IH]; [reflexivity|]. cbn [map]. rewrite Hmn, IH. reflexivity. Qed.

Lemma sc_prep_concat : forall s, List.concat (prep Ms c s) = List.concat s.
Proof. intros s. cbn. destruct s as [|x s]; cbn [is_nil]; [reflexivity|]. cbn [List.concat]. apply app_nil_r. Qed.

Lemma sc_cong : ObsCong Ms c sc_R.
Proof.
  constructor.
  - intros s. reflexivity.
  - intros s t b H. unfold sc_R in *. cbn. rewrite !concat_app, H. reflexivity.
  - intros s t ms ns H Hs. unfold sc_R in *. cbn [Ms sc_metric plain mrg].
    rewrite !sc_merge_concat, H, (sc_R_sources ms ns Hs). reflexivity.
  - intros s t H. unfold sc_R in *. rewrite !sc_prep_concat. exact H.
  - intros s t H. exact H.
  - intros s. apply sc_prep_concat.
Qed.

Theorem sc_PrepLaws : PrepLaws Ms c.
Proof.
  apply (PrepLaws_of_cong Ms c sc_R sc_cong). intros s. cbn.
  destruct s as [|x s]; cbn [is_nil]; [reflexivity|]. cbn [List.concat]. rewrite app_nil_r. reflexivity.
Qed.
End ScoreCacheInst.

Theorem hitrate_PrepLaws c : PrepLaws hitrate_metric c.   Proof. apply sc_PrepLaws. Qed.
Theorem rrank_PrepLaws c : PrepLaws rrank_metric c.       Proof. apply sc_PrepLaws. Qed.

(* ---- AUC: two parallel lists of (n_tasks x n) chunks; prep collapses both when both are non-empty;
   merge_state prepares the target first ---- *)
Section AucInst.
Variable c : auc_cfg.
Definition auc_R (s t : auc_st) : Prop :=
  is_nil (fst s) = is_nil (fst t) /\ is_nil (snd s) = is_nil (snd t) /\
  catrows (fst s) = catrows (fst t) /\ catrows (snd s) = catrows (snd t).

Lemma catrows_snoc : forall (l : list mat) b,
  catrows (l ++ [b]) = if is_nil l then b else map2 (@app Qc) (catrows l) b.
Proof.
  intros [|m r] b; [reflexivity|]. cbn [app catrows is_nil]. rewrite fold_left_app. reflexivity.
Qed.
Lemma is_nil_snoc {X} (l : list X) b : is_nil (l ++ [b]) = false.
Proof. destruct l; reflexivity. Qed.
Lemma catrows_single (m : mat) : catrows [m] = m.
Proof. reflexivity. Qed.

Lemma auc_R_refl s : auc_R s s.
Proof. repeat split. Qed.

Lemma auc_prep_R s : auc_R (auc_prep s) s.
Proof.
  unfold auc_prep, nonnil. destruct s as [[|x xs] [|y ys]]; cbn [fst snd is_nil negb andb]; repeat split.
Qed.

Lemma auc_prep_cong s t : auc_R s t -> auc_R (auc_prep s) (auc_prep t).
Proof.
  intros (H1 & H2 & H3 & H4). unfold auc_prep, nonnil. rewrite <- H1, <- H2.
  destruct (negb (is_nil (fst s)) && negb (is_nil (snd s))).
  - unfold auc_R. cbn [fst snd is_nil]. rewrite !catrows_single. repeat split; assumption.
  - repeat split; assumption.
Qed.

Lemma auc_mrg1_cong s t m n : auc_R s t -> auc_R m n -> auc_R (auc_mrg1 s m) (auc_mrg1 t n).
Proof.
  intros (H1 & H2 & H3 & H4) (G1 & G2 & G3 & G4). unfold auc_mrg1, nonnil. rewrite <- G1.
  destruct (negb (is_nil (fst m))).
  - cbn [fst snd]. unfold auc_R. cbn [fst snd]. rewrite !is_nil_snoc, !catrows_snoc.
    rewrite <- H1, <- H2, <- H3, <- H4, <- G3, <- G4. repeat split.
  - repeat split; assumption.
Qed.

Lemma auc_fold_cong : forall ms ns, Forall2 auc_R ms ns -> forall s t, auc_R s t ->
  auc_R (fold_left auc_mrg1 ms s) (fold_left auc_mrg1 ns t).
Proof.
  intros ms ns H. induction H as [|m n ms ns Hmn _ IH]; intros s t Hst; [exact Hst|].
  cbn [fold_left]. apply IH. apply auc_mrg1_cong; assumption.
Qed.

Lemma auc_cong : ObsCong auc_metric c auc_R.
Proof.
  constructor.
  - exact auc_R_refl.
  - intros s t b (H1 & H2 & H3 & H4). unfold auc_R. cbn. rewrite !is_nil_snoc, !catrows_snoc.
    rewrite <- H1, <- H2, <- H3, <- H4. repeat split.
  - intros s t ms ns H Hs. cbn [auc_metric plain mrg]. apply auc_fold_cong; [exact Hs|]. apply auc_prep_cong. exact H.
  - intros s t H. apply auc_prep_cong. exact H.
  - intros s t (H1 & H2 & H3 & H4). cbn [auc_metric plain cmp]. unfold auc_cmp. rewrite H1, H2, H3, H4. reflexivity.
  - exact auc_prep_R.
Qed.

Theorem auc_PrepLaws : PrepLaws auc_metric c.
Proof.
  apply (PrepLaws_of_cong auc_metric c auc_R auc_cong). intros s. cbn [auc_metric plain prep].
  unfold auc_prep, nonnil. destruct s as [[|x xs] [|y ys]]; cbn [fst snd is_nil negb andb]; reflexivity.
Qed.
End AucInst.

(* ---- hand-written models whose _prepare_for_merge_state is the inherited no-op ---- *)
Ltac id_laws := intros; apply PrepLaws_of_id; reflexivity.
Theorem max_PrepLaws c : PrepLaws max_metric c.                       Proof. id_laws. Qed.
Theorem min_PrepLaws c : PrepLaws min_metric c.                       Proof. id_laws. Qed.
Theorem throughput_PrepLaws c : PrepLaws tp_metric c.                 Proof. id_laws. Qed.
Theorem fad_PrepLaws c : PrepLaws fad_metric c.                       Proof. id_laws. Qed.
Theorem retrieval_PrepLaws r c : PrepLaws (retr_metric r) c.          Proof. id_laws. Qed.
Theorem rprec_fx_PrepLaws c : PrepLaws rprec_fx_metric c.             Proof. id_laws. Qed.
Theorem rrec_fx_PrepLaws c : PrepLaws rrec_fx_metric c.               Proof. id_laws. Qed.
Theorem mse_PrepLaws c : PrepLaws mse_metric c.                       Proof. id_laws. Qed.
Theorem r2_PrepLaws c : PrepLaws r2_metric c.                         Proof. id_laws. Qed.
Theorem cov_PrepLaws c : PrepLaws cov_metric c.                       Proof. id_laws. Qed.
Theorem wasserstein_PrepLaws c : PrepLaws w_metric c.                 Proof. id_laws. Qed.
Theorem psnr_PrepLaws c : PrepLaws p_metric c.                        Proof. id_laws. Qed.
Theorem ne_PrepLaws c : PrepLaws ne_metric c.                         Proof. id_laws. Qed.
Theorem perplexity_PrepLaws c : PrepLaws px_metric c.                 Proof. id_laws. Qed.
Theorem window_PrepLaws W v c : PrepLaws (win_metric W v) c.          Proof. id_laws. Qed.
Theorem wauroc_PrepLaws v c : PrepLaws (wauroc v) c.                  Proof. id_laws. Qed.
Theorem wauroc_cfix_PrepLaws v c : PrepLaws (wauroc_cfix v) c.        Proof. id_laws. Qed.
