(* C17: metamorphic invariances as corollaries of the specifications that C05 / C08 / C03 tie to
   the code: the rank-based specs depend on the scores only through comparisons; the weighted
   ratio specs are homogeneous of degree 0 in the weights. *)
From Coq Require Import ZArith List Bool QArith Qcanon Lia.
From TE Require Import Base.Val Base.Nd Base.Xq Models.Curves Models.Ranking Models.Aggregation.
Import ListNotations.
Open Scope Qc_scope.

(* a strictly increasing map on scores, stated through the comparison the code uses *)
Definition strictly_increasing (f : Z -> Z) : Prop := forall a b, (a <? b)%Z = (f a <? f b)%Z.

Lemma si_eqb f : strictly_increasing f -> forall a b, (a =? b)%Z = (f a =? f b)%Z.
Proof.
  intros Hf a b. pose proof (Hf a b) as H1. pose proof (Hf b a) as H2.
  destruct (Z.eqb_spec a b) as [->|Hne].
  - symmetry. apply Z.eqb_refl.
  - destruct (Z.eqb_spec (f a) (f b)) as [He|]; [|reflexivity].
    rewrite He in H1, H2. rewrite Z.ltb_irrefl in H1, H2.
    apply Z.ltb_ge in H1. apply Z.ltb_ge in H2. lia.
Qed.
Lemma si_leb f : strictly_increasing f -> forall a b, (a <=? b)%Z = (f a <=? f b)%Z.
Proof.
  intros Hf a b. rewrite !Z.leb_antisym, <- (Hf b a). reflexivity.
Qed.
Lemma si_gtb f : strictly_increasing f -> forall a b, Z.gtb a b = Z.gtb (f a) (f b).
Proof. intros Hf a b. rewrite !Z.gtb_ltb. apply Hf. Qed.

Definition remap (f : Z -> Z) (x : sample) : sample := (f (sc x), snd x).

Lemma pw_remap f x : pw (remap f x) = pw x. Proof. reflexivity. Qed.
Lemma nw_remap f x : nw (remap f x) = nw x. Proof. reflexivity. Qed.

Lemma pair_kern_remap f : strictly_increasing f -> forall a b,
  pair_kern (remap f a) (remap f b) = pair_kern a b.
Proof.
  intros Hf a b. unfold pair_kern. rewrite pw_remap, nw_remap.
  change (sc (remap f a)) with (f (sc a)). change (sc (remap f b)) with (f (sc b)).
  rewrite <- (Hf (sc b) (sc a)), <- (si_eqb f Hf (sc b) (sc a)). reflexivity.
Qed.

(* ---- AUROC: any strictly increasing transformation of the scores ---- *)
Lemma auroc_spec_monotone f : strictly_increasing f -> forall l,
  auroc_spec (map (remap f) l) = auroc_spec l.
Proof.
  intros Hf l. unfold auroc_spec, pair_sum. rewrite !map_map.
  replace (map (fun x => pw (remap f x)) l) with (map pw l) by (apply map_ext; intros; reflexivity).
  replace (map (fun x => nw (remap f x)) l) with (map nw l) by (apply map_ext; intros; reflexivity).
  replace (map (fun x => sumq (map (pair_kern (remap f x)) (map (remap f) l))) l)
    with (map (fun a => sumq (map (pair_kern a) l)) l); [reflexivity|].
  apply map_ext. intros a. rewrite map_map. f_equal. apply map_ext. intros b.
  symmetry. apply pair_kern_remap, Hf.
Qed.

(* ---- PR curve: the counts at a mapped threshold are the counts at the threshold; the set of
        thresholds is mapped ---- *)
Lemma Pge_remap f : strictly_increasing f -> forall d l, Pge (f d) (map (remap f) l) = Pge d l.
Proof.
  intros Hf d l. unfold Pge. rewrite map_map. f_equal. apply map_ext. intros b.
  change (sc (remap f b)) with (f (sc b)). rewrite <- (si_leb f Hf d (sc b)), pw_remap. reflexivity.
Qed.
Lemma Nge_remap f : strictly_increasing f -> forall d l, Nge (f d) (map (remap f) l) = Nge d l.
Proof.
  intros Hf d l. unfold Nge. rewrite map_map. f_equal. apply map_ext. intros b.
  change (sc (remap f b)) with (f (sc b)). rewrite <- (si_leb f Hf d (sc b)), nw_remap. reflexivity.
Qed.
Lemma ins_map f : strictly_increasing f -> forall z l, Curves.ins (f z) (map f l) = map f (Curves.ins z l).
Proof.
  intros Hf z l. induction l as [|y r IH]; [reflexivity|]. cbn [Curves.ins map].
  rewrite <- (Hf z y), <- (si_eqb f Hf z y).
  destruct (z <? y)%Z; [reflexivity|]. destruct (z =? y)%Z; [reflexivity|]. cbn [map]. rewrite IH. reflexivity.
Qed.
Lemma dset_map f : strictly_increasing f -> forall l, Curves.dset (map f l) = map f (Curves.dset l).
Proof.
  intros Hf l. unfold Curves.dset. induction l as [|z r IH]; [reflexivity|]. cbn [map fold_right].
  rewrite IH. apply ins_map, Hf.
Qed.
Lemma prc_spec_monotone f : strictly_increasing f -> forall l,
  prc_spec (map (remap f) l) =
  (fst (fst (prc_spec l)), snd (fst (prc_spec l)), map f (snd (prc_spec l))).
Proof.
  intros Hf l. unfold prc_spec. rewrite map_map.
  replace (map (fun x => sc (remap f x)) l) with (map f (map sc l)) by (rewrite map_map; reflexivity).
  rewrite (dset_map f Hf). cbn [fst snd]. rewrite !map_map.
  assert (HP : map (fun x => prec_at (map (remap f) l) (f x)) (Curves.dset (map sc l)) = map (prec_at l) (Curves.dset (map sc l))).
  { apply map_ext. intros d. unfold prec_at. rewrite (Pge_remap f Hf), (Nge_remap f Hf). reflexivity. }
  assert (HR : map (fun x => rec_at (map (remap f) l) (f x)) (Curves.dset (map sc l)) = map (rec_at l) (Curves.dset (map sc l))).
  { apply map_ext. intros d. unfold rec_at. rewrite (Pge_remap f Hf), map_map.
    replace (map (fun x => pw (remap f x)) l) with (map pw l) by (apply map_ext; intros; reflexivity).
    reflexivity. }
  rewrite HP, HR. reflexivity.
Qed.

(* ---- hit rate / reciprocal rank: the rank (number of strictly greater scores) ---- *)
Lemma rk_rank_monotone f : strictly_increasing f -> forall row t,
  in_range (row, t) = true -> rk_rank (map f row) t = rk_rank row t.
Proof.
  intros Hf row t Hr. unfold rk_rank. f_equal.
  assert (Hn : nth (Z.to_nat t) (map f row) 0%Z = f (nth (Z.to_nat t) row 0%Z)).
  { unfold in_range in Hr. cbn [fst snd] in Hr. apply andb_prop in Hr as [H0 H1].
    apply Z.leb_le in H0. apply Z.ltb_lt in H1.
    rewrite (nth_indep _ 0%Z (f 0%Z)) by (rewrite map_length; lia). apply map_nth. }
  rewrite Hn. generalize (nth (Z.to_nat t) row 0%Z) as y. intros y. clear Hr Hn.
  induction row as [|x r IH]; [reflexivity|]. cbn [map filter].
  rewrite <- (si_gtb f Hf x y). destruct (Z.gtb x y); cbn [List.length]; rewrite IH; reflexivity.
Qed.
Lemma hit_one_monotone f : strictly_increasing f -> forall k smp, in_range smp = true ->
  hit_one k (map f (fst smp), snd smp) = hit_one k smp.
Proof.
  intros Hf k [row t] Hr. unfold hit_one, hit_short. cbn [fst snd]. rewrite map_length.
  rewrite (rk_rank_monotone f Hf row t Hr). reflexivity.
Qed.
Lemma rr_one_monotone f : strictly_increasing f -> forall k smp, in_range smp = true ->
  rr_one k (map f (fst smp), snd smp) = rr_one k smp.
Proof.
  intros Hf k [row t] Hr. unfold rr_one. cbn [fst snd]. rewrite (rk_rank_monotone f Hf row t Hr). reflexivity.
Qed.

(* ---- weighted mean: all weights multiplied by a non-zero constant; whole data set duplicated ---- *)
Lemma sumQ_scale c l : sumQ (map (Qcmult c) l) = c * sumQ l.
Proof.
  unfold sumQ. induction l as [|x r IH]; cbn [map fold_right]; [ring|]. rewrite IH. ring.
Qed.
Lemma map2_scale_l c ws xs : Nd.map2 Qcmult (map (Qcmult c) ws) xs = map (Qcmult c) (Nd.map2 Qcmult ws xs).
Proof.
  revert xs. induction ws as [|w r IH]; intros [|x xs]; cbn [map Nd.map2]; try reflexivity.
  rewrite IH. f_equal. ring.
Qed.
Lemma mean_weight_scale c xs ws : c <> 0 ->
  mean_fn (xs, WEach (map (Qcmult c) ws)) = mean_fn (xs, WEach ws).
Proof.
  intros Hc. unfold mean_fn, wtot, wsum. cbn [fst snd]. rewrite map2_scale_l, !sumQ_scale.
  destruct (Qc_eq_dec (sumQ ws) 0) as [E|E].
  - rewrite E. destruct (Qc_eq_dec (c * 0) 0) as [_|N]; [reflexivity|exfalso; apply N; ring].
  - destruct (Qc_eq_dec (c * sumQ ws) 0) as [Z|_].
    + exfalso. apply Qcmult_integral in Z. tauto.
    + f_equal. field. split; assumption.
Qed.
Lemma sumQ_app a b : sumQ (a ++ b) = sumQ a + sumQ b.
Proof. unfold sumQ. induction a as [|x r IH]; cbn [app fold_right]; [ring|]. rewrite IH. ring. Qed.
Lemma map2_app {X Y Z} (g : X -> Y -> Z) a a' b b' : List.length a = List.length b ->
  Nd.map2 g (a ++ a') (b ++ b') = Nd.map2 g a b ++ Nd.map2 g a' b'.
Proof.
  revert b. induction a as [|x r IH]; intros [|y s] H; cbn in H; try discriminate; cbn [app Nd.map2]; [reflexivity|].
  rewrite IH by congruence. reflexivity.
Qed.
Lemma two_neq0 : (1 + 1 : Qc) <> 0.
Proof. intro H. apply (f_equal (fun q => Qnum (this q))) in H. vm_compute in H. discriminate H. Qed.
Lemma mean_duplicate xs ws : List.length ws = List.length xs ->
  mean_fn (xs ++ xs, WEach (ws ++ ws)) = mean_fn (xs, WEach ws).
Proof.
  intros Hl. unfold mean_fn, wtot, wsum. cbn [fst snd]. rewrite map2_app by exact Hl. rewrite !sumQ_app.
  destruct (Qc_eq_dec (sumQ ws) 0) as [E|E].
  - rewrite E. destruct (Qc_eq_dec (0 + 0) 0) as [_|N]; [reflexivity|exfalso; apply N; ring].
  - destruct (Qc_eq_dec (sumQ ws + sumQ ws) 0) as [Z|NZ].
    + exfalso. apply E. assert (H2 : (1 + 1) * sumQ ws = 0) by (rewrite <- Z; ring).
      apply Qcmult_integral in H2. destruct H2 as [H2|H2]; [exfalso; exact (two_neq0 H2)|exact H2].
    + f_equal. field. repeat split; try assumption; try exact two_neq0.
Qed.
