(* Wasserstein1D: the CDF built from cumulative weights at the searchsorted-right index of the value-sorted
   sample is the weighted empirical CDF of the (unsorted) sample. *)
From Coq Require Import ZArith List Bool QArith Qcanon Lia Permutation Sorted String.
From TE Require Import Base.Val Base.Nd Base.Xq Algebra.Metric Models.Aggregation Models.Aggregation2
  Models.Regression Models.Stat Proofs.RegressionP.
Import ListNotations.
Open Scope list_scope.
Open Scope Qc_scope.

Definition le_v (v : Qc) (p : Qc * Qc) : bool := qle (fst p) v.
(* total weight of the samples <= v, and total weight *)
Definition wsum_le (l : list (Qc * Qc)) (v : Qc) : Qc := sumQ (map snd (filter (le_v v) l)).
Definition wsum (l : list (Qc * Qc)) : Qc := sumQ (map snd l).

Lemma filter_above v p : forall r, qle (fst p) v = false -> Forall (le1 p) r -> filter (le_v v) r = [].
Proof.
  induction r as [|q r IH]; intros Hp Hr; [reflexivity|]. inversion Hr as [|? ? Hq Hr']; subst. cbn [filter].
  assert (E : le_v v q = false).
  { unfold le_v. destruct (qle (fst q) v) eqn:E; [|reflexivity]. apply qle_iff in E.
    assert (H : qle (fst p) v = true) by (apply qle_iff; eapply Qcle_trans; [exact Hq|exact E]). congruence. }
  rewrite E. apply IH; assumption.
Qed.
Lemma cum_at_index v : forall sp acc, StronglySorted le1 sp ->
  nth (ss_right (map fst sp) v) (cum0 acc (map snd sp)) 0 = acc + wsum_le sp v.
Proof.
  unfold wsum_le. induction sp as [|p r IH]; intros acc Hs; cbn [map ss_right cum0 filter].
  - cbn [nth]. rewrite sumQ_nil. ring.
  - inversion Hs as [|? ? Hs' Hp]; subst. unfold le_v at 1. destruct (qle (fst p) v) eqn:E.
    + cbn [nth map]. rewrite IH by exact Hs'. rewrite sumQ_cons. ring.
    + cbn [nth]. rewrite (filter_above v p r E Hp). cbn [map]. rewrite sumQ_nil. ring.
Qed.
Lemma cum_last : forall ws acc, last (cum0 acc ws) 0 = acc + sumQ ws.
Proof.
  induction ws as [|w ws IH]; intros acc; cbn [cum0]; [cbn [last]; rewrite sumQ_nil; ring|].
  assert (H : forall a l, last (a :: cum0 (acc + w) l) 0 = last (cum0 (acc + w) l) 0) by (intros a [|x l]; reflexivity).
  rewrite H, IH, sumQ_cons. ring.
Qed.
Lemma cdf_sorted sp v : StronglySorted le1 sp -> cdf_at sp v = (0 + wsum_le sp v) / (0 + wsum sp).
Proof. intros Hs. unfold cdf_at. rewrite (cum_at_index v sp 0 Hs), cum_last. reflexivity. Qed.

Lemma sumQ_perm : forall a b : list Qc, Permutation a b -> sumQ a = sumQ b.
Proof.
  induction 1 as [|x a b _ IH|x y a|a b c _ IH1 _ IH2]; [reflexivity| | |congruence].
  - rewrite !sumQ_cons, IH. reflexivity.
  - rewrite !sumQ_cons. ring.
Qed.
Lemma filter_perm {X} (f : X -> bool) : forall a b, Permutation a b -> Permutation (filter f a) (filter f b).
Proof.
  induction 1 as [|x a b _ IH|x y a|a b c _ IH1 _ IH2]; cbn [filter].
  - constructor.
  - destruct (f x); [constructor|]; exact IH.
  - destruct (f x), (f y); try apply Permutation_refl. apply perm_swap.
  - eapply perm_trans; eassumption.
Qed.
(* the model's CDF of a sample = weighted empirical CDF of the sample as given (any order, ties included) *)
Theorem cdf_spec l v : cdf_at (sort_pairs l) v = (0 + wsum_le l v) / (0 + wsum l).
Proof.
  rewrite (cdf_sorted _ v (sort_pairs_sorted l)). unfold wsum_le, wsum.
  pose proof (sort_pairs_perm l) as P.
  rewrite <- (sumQ_perm _ _ (Permutation_map snd (filter_perm (le_v v) _ _ P))), <- (sumQ_perm _ _ (Permutation_map snd P)).
  reflexivity.
Qed.
(* sort_q is a sorted permutation of the merged support *)
Lemma ins_q_perm p : forall l, Permutation (p :: l) (ins_q p l).
Proof.
  induction l as [|q l IH]; cbn [ins_q]; [apply Permutation_refl|]. destruct (qlt q p); [|apply Permutation_refl].
  eapply perm_trans; [apply perm_swap|]. apply perm_skip. exact IH.
Qed.
Lemma sort_q_perm : forall l, Permutation l (sort_q l).
Proof.
  induction l as [|p l IH]; [apply Permutation_refl|]. unfold sort_q. cbn [fold_right]. fold (sort_q l).
  eapply perm_trans; [apply perm_skip; exact IH|]. apply ins_q_perm.
Qed.
Lemma ins_q_sorted p : forall l, StronglySorted Qcle l -> StronglySorted Qcle (ins_q p l).
Proof.
  induction l as [|q l IH]; intros Hs; cbn [ins_q]; [constructor; constructor|].
  inversion Hs as [|? ? Hs' Hq]; subst. destruct (qlt q p) eqn:E.
  - constructor; [apply IH; exact Hs'|]. eapply Permutation_Forall; [apply ins_q_perm|]. constructor; [|exact Hq].
    apply qlt_iff in E. apply Qclt_le_weak. exact E.
  - apply qlt_false in E. constructor; [exact Hs|]. constructor; [exact E|].
    eapply Forall_impl; [|exact Hq]. intros r Hr. eapply Qcle_trans; eassumption.
Qed.
Lemma sort_q_sorted : forall l, StronglySorted Qcle (sort_q l).
Proof. induction l as [|p l IH]; [constructor|]. unfold sort_q. cbn [fold_right]. fold (sort_q l). apply ins_q_sorted. exact IH. Qed.
