(* Precision-recall curve lemmas (port of design-probes/PrCurve.v to Qc + the rest of the
   pipeline: thresholds, distinct-score set, NaN rule, Riemann sum, recall at precision). *)
From Coq Require Import ZArith List Bool QArith Qcanon Lia Sorted Permutation.
From TE Require Import Base.Val Base.Nd Base.Xq Models.Curves Proofs.CurvesP.
Import ListNotations.
Open Scope Qc_scope.
Open Scope list_scope.

Lemma Pge_sumf t l : Pge t l = sumf (fun b => if (t <=? sc b)%Z then pw b else 0) l.
Proof. reflexivity. Qed.
Lemma Nge_sumf t l : Nge t l = sumf (fun b => if (t <=? sc b)%Z then nw b else 0) l.
Proof. reflexivity. Qed.
Lemma ge_cons t x r : Pge t (x :: r) = (if (t <=? sc x)%Z then pw x else 0) + Pge t r
                   /\ Nge t (x :: r) = (if (t <=? sc x)%Z then nw x else 0) + Nge t r.
Proof. split; reflexivity. Qed.
Lemma ge_lt_zero t r : Forall (fun b => (sc b < t)%Z) r -> Pge t r = 0 /\ Nge t r = 0.
Proof.
  rewrite Pge_sumf, Nge_sumf. induction r as [|b r IH]; intros H; [split; reflexivity|].
  inversion H as [|? ? Hb Hr]; subst. rewrite !sumf_cons. destruct (IH Hr) as [-> ->].
  destruct (Z.leb_spec t (sc b)); [lia|]. split; ring.
Qed.
Lemma groups_scores_in : forall r g, In g (groups r) -> exists y, In y r /\ fst g = sc y.
Proof.
  induction r as [|x r IH]; intros g Hg; [destruct Hg|].
  rewrite groups_cons in Hg. destruct (groups r) as [|[s [P N]] gs] eqn:E.
  - destruct Hg as [<-|[]]. exists x. split; [left; reflexivity|reflexivity].
  - destruct (Z.eqb_spec (sc x) s) as [Es|Es].
    + destruct Hg as [<-|Hg].
      * exists x. split; [left; reflexivity|cbn; lia].
      * destruct (IH g (or_intror Hg)) as (y & Hy & Hf). exists y. split; [right; exact Hy|exact Hf].
    + destruct Hg as [<-|Hg].
      * exists x. split; [left; reflexivity|reflexivity].
      * destruct (IH g Hg) as (y & Hy & Hf). exists y. split; [right; exact Hy|exact Hf].
Qed.

Theorem scan_is_count_ge : forall l aP aN, desc l ->
  scan aP aN (groups l) = map (fun g => (aP + Pge (fst g) l, aN + Nge (fst g) l)) (groups l).
Proof.
  induction l as [|x r IH]; intros aP aN Hd; [reflexivity|].
  pose proof (desc_head_max _ _ Hd) as Hmax.
  pose proof (desc_tail _ _ Hd) as Hd'.
  assert (Hle : forall g, In g (groups r) -> (fst g <= sc x)%Z).
  { intros g Hg. destruct (groups_scores_in r g Hg) as (y & Hy & ->). rewrite Forall_forall in Hmax. apply Hmax, Hy. }
  assert (Htail : forall gs, (forall g, In g gs -> In g (groups r)) ->
            map (fun g => (aP + pw x + Pge (fst g) r, aN + nw x + Nge (fst g) r)) gs
            = map (fun g => (aP + Pge (fst g) (x :: r), aN + Nge (fst g) (x :: r))) gs).
  { intros gs Hsub. apply map_ext_in. intros g Hg. destruct (ge_cons (fst g) x r) as [-> ->].
    specialize (Hle g (Hsub g Hg)). destruct (Z.leb_spec (fst g) (sc x)); [|lia]. f_equal; ring. }
  rewrite groups_cons. specialize (IH (aP + pw x) (aN + nw x) Hd').
  pose proof (eq_head_group r Hd') as Hh.
  destruct (groups r) as [|[s [P N]] gs] eqn:Hg.
  - apply groups_nil_inv in Hg; subst r. cbn [scan map fst]. destruct (ge_cons (sc x) x []) as [-> ->].
    rewrite Z.leb_refl. unfold Pge, Nge. cbn [map sumq fold_right]. f_equal. f_equal; ring.
  - destruct Hh as [HP HN].
    destruct (groups_head_inv _ _ _ _ _ Hg) as (y & r' & Hr & Hs).
    destruct (Z.eqb_spec (sc x) s) as [E|E].
    + rewrite scan_cons in IH |- *. cbn [map fst] in IH |- *. inversion IH as [[H1 H2 H3]].
      replace (aP + (P + pw x)) with (aP + pw x + P) by ring.
      replace (aN + (N + nw x)) with (aN + nw x + N) by ring.
      rewrite H3. rewrite (Htail gs) by (intros g Hgi; right; exact Hgi).
      f_equal. destruct (ge_cons s x r) as [-> ->]. destruct (Z.leb_spec s (sc x)); [|lia].
      assert (Hge : Pge s r = P /\ Nge s r = N).
      { rewrite <- HP, <- HN. rewrite Pge_sumf, Nge_sumf. unfold Peq, Neq. split; apply sumf_ext_in; intros b Hb;
          rewrite Forall_forall in Hmax; specialize (Hmax b Hb);
          destruct (Z.leb_spec s (sc b)); destruct (Z.eqb_spec (sc b) s); try reflexivity; lia. }
      destruct Hge as [-> ->]. f_equal; ring.
    + rewrite (scan_cons aP aN (sc x)).
      rewrite IH. cbn [map fst].
      assert (Hlt : Forall (fun b => (sc b < sc x)%Z) r).
      { subst r. apply desc_strict_tail; [exact Hd|]. congruence. }
      destruct (ge_lt_zero _ _ Hlt) as [Z1 Z2].
      destruct (ge_cons (sc x) x r) as [-> ->]. rewrite Z.leb_refl, Z1, Z2.
      f_equal; [f_equal; ring|].
      change ((aP + pw x + Pge s r, aN + nw x + Nge s r) :: map (fun g => (aP + pw x + Pge (fst g) r, aN + nw x + Nge (fst g) r)) gs)
        with (map (fun g => (aP + pw x + Pge (fst g) r, aN + nw x + Nge (fst g) r)) ((s, (P, N)) :: gs)).
      rewrite (Htail ((s, (P, N)) :: gs)) by (intros g Hgi; exact Hgi). reflexivity.
Qed.

(* the selected cumulative sums: one point per group, with the counting semantics *)
Corollary collapse_counts : forall l, desc l ->
  collapse 0 0 l = map (fun d => (Pge d l, Nge d l)) (map fst (groups l)).
Proof.
  intros l Hd. rewrite collapse_scan, scan_is_count_ge, map_map by exact Hd.
  apply map_ext. intros g. f_equal; ring.
Qed.

(* thresholds: threshold[mask] are the group scores *)
Lemma select_mask_scores : forall l, select (mask (map sc l)) (map sc l) = map fst (groups l).
Proof.
  induction l as [|x r IH]; [reflexivity|]. destruct r as [|y r'].
  - reflexivity.
  - cbn [map] in *. rewrite mask_cons2, select_cons, IH, (groups_cons x (y :: r')).
    destruct (groups_head_score y r') as (P & N & gs & Hg). rewrite Hg.
    destruct (Z.eqb_spec (sc x) (sc y)); reflexivity.
Qed.

(* group scores of a descending list: strictly descending, exactly the scores present *)
Lemma groups_scores_desc : forall l, desc l -> StronglySorted (fun a b => (b < a)%Z) (map fst (groups l)).
Proof.
  induction l as [|x r IH]; intros Hd; [constructor|].
  pose proof (desc_tail _ _ Hd) as Hd'. specialize (IH Hd'). rewrite groups_cons.
  destruct (groups r) as [|[s [P N]] gs] eqn:Hg; [cbn; repeat constructor|].
  destruct (Z.eqb_spec (sc x) s) as [E|E]; [exact IH|].
  cbn [map fst]. constructor; [exact IH|].
  destruct (groups_head_inv _ _ _ _ _ Hg) as (y & r' & Hr & Hs). subst r.
  assert (Hlt : Forall (fun b => (sc b < sc x)%Z) (y :: r')) by (apply desc_strict_tail; [exact Hd|congruence]).
  rewrite Forall_forall in *. intros d Hdin. change (s :: map fst gs) with (map fst ((s, (P, N)) :: gs)) in Hdin.
  apply in_map_iff in Hdin as (g & <- & Hgin). rewrite <- Hg in Hgin.
  destruct (groups_scores_in _ g Hgin) as (b & Hb & ->). apply Hlt, Hb.
Qed.
Lemma groups_scores_all : forall l x, In x l -> In (sc x) (map fst (groups l)).
Proof.
  induction l as [|a r IH]; intros x Hx; [destruct Hx|]. rewrite groups_cons.
  destruct Hx as [->|Hx].
  - destruct (groups r) as [|[s [P N]] gs]; [left; reflexivity|].
    destruct (Z.eqb_spec (sc x) s) as [E|E]; left; cbn; congruence.
  - specialize (IH x Hx). destruct (groups r) as [|[s [P N]] gs]; [destruct IH|].
    destruct (Z.eqb_spec (sc a) s); [exact IH|right; exact IH].
Qed.
Lemma groups_scores_iff l d : In d (map fst (groups l)) <-> In d (map sc l).
Proof.
  split; intros H.
  - apply in_map_iff in H as (g & <- & Hg). destruct (groups_scores_in l g Hg) as (y & Hy & ->). apply in_map, Hy.
  - apply in_map_iff in H as (x & <- & Hx). apply groups_scores_all, Hx.
Qed.

(* the distinct-score set of the spec *)
Lemma ins_in z l d : In d (ins z l) <-> d = z \/ In d l.
Proof.
  induction l as [|y r IH]; cbn [ins]; [cbn; intuition|].
  destruct (Z.ltb_spec z y); [cbn; intuition|]. destruct (Z.eqb_spec z y); [subst; cbn; intuition|].
  cbn [In]. rewrite IH. intuition.
Qed.
Lemma ins_sorted z l : StronglySorted Z.lt l -> StronglySorted Z.lt (ins z l).
Proof.
  induction 1 as [|y r Hr IH Hy]; cbn [ins]; [repeat constructor|].
  destruct (Z.ltb_spec z y) as [H|H].
  - constructor; [constructor; assumption|]. constructor; [exact H|]. eapply Forall_impl; [|exact Hy]. cbn beta. intros; lia.
  - destruct (Z.eqb_spec z y) as [E|E]; [constructor; assumption|].
    constructor; [exact IH|]. rewrite Forall_forall in *. intros d Hd. apply ins_in in Hd as [->|Hd]; [lia|apply Hy, Hd].
Qed.
Lemma dset_sorted l : StronglySorted Z.lt (dset l).
Proof. induction l as [|z l IH]; [constructor|]. apply ins_sorted, IH. Qed.
Lemma dset_in l d : In d (dset l) <-> In d l.
Proof. induction l as [|z l IH]; [reflexivity|]. cbn [dset fold_right In]. fold (dset l). rewrite ins_in, IH. intuition. Qed.

Lemma sorted_lt_unique : forall l1 l2, StronglySorted Z.lt l1 -> StronglySorted Z.lt l2 ->
  (forall x, In x l1 <-> In x l2) -> l1 = l2.
Proof.
  induction l1 as [|a l1 IH]; intros [|b l2] H1 H2 Hin.
  - reflexivity.
  - destruct (proj2 (Hin b) (or_introl eq_refl)).
  - destruct (proj1 (Hin a) (or_introl eq_refl)).
  - inversion H1 as [|? ? S1 F1]; subst. inversion H2 as [|? ? S2 F2]; subst.
    rewrite Forall_forall in F1, F2.
    assert (a = b).
    { destruct (proj1 (Hin a) (or_introl eq_refl)) as [E|Ha]; [congruence|].
      destruct (proj2 (Hin b) (or_introl eq_refl)) as [E|Hb]; [congruence|].
      specialize (F2 a Ha). specialize (F1 b Hb). lia. }
    subst b. f_equal. apply IH; try assumption. intros x. split; intros Hx.
    + destruct (proj1 (Hin x) (or_intror Hx)) as [E|H]; [|exact H]. specialize (F1 x Hx). lia.
    + destruct (proj2 (Hin x) (or_intror Hx)) as [E|H]; [|exact H]. specialize (F2 x Hx). lia.
Qed.
Lemma ss_snoc {A} (R : A -> A -> Prop) : forall l a, StronglySorted R l -> Forall (fun x => R x a) l -> StronglySorted R (l ++ [a]).
Proof.
  induction l as [|x l IH]; intros a Hs Hf; cbn [app]; [repeat constructor|].
  inversion Hs as [|? ? Hs' Hx]; subst. inversion Hf as [|? ? Hxa Hf']; subst.
  constructor; [apply IH; assumption|]. apply Forall_app. split; [exact Hx|repeat constructor; exact Hxa].
Qed.
Lemma ss_rev {A} (R : A -> A -> Prop) : forall l, StronglySorted R l -> StronglySorted (fun a b => R b a) (rev l).
Proof.
  induction 1 as [|a l Hl IH Ha]; [constructor|]. cbn [rev]. apply ss_snoc; [exact IH|].
  rewrite Forall_forall in *. intros x Hx. apply Ha. apply in_rev. exact Hx.
Qed.

(* thresholds of any descending-sorted permutation = the ascending distinct scores of the input *)
Theorem thresholds_spec : forall l l', Permutation l l' -> desc l' -> rev (map fst (groups l')) = dset (map sc l).
Proof.
  intros l l' Hp Hd. apply sorted_lt_unique.
  - apply (ss_rev (fun a b => (b < a)%Z)), groups_scores_desc, Hd.
  - apply dset_sorted.
  - intros d. rewrite <- in_rev, groups_scores_iff, dset_in.
    split; apply Permutation_in; [symmetry|]; apply Permutation_map, Hp.
Qed.

Lemma Pge_perm t l l' : Permutation l l' -> Pge t l = Pge t l'.
Proof. intros H. rewrite !Pge_sumf. apply sumf_perm, H. Qed.
Lemma Nge_perm t l l' : Permutation l l' -> Nge t l = Nge t l'.
Proof. intros H. rewrite !Nge_sumf. apply sumf_perm, H. Qed.

(* C05 item 2, counting form: the (tp, fp) selected by the code, in the code's (descending)
   order, are the counts at or above each distinct score *)
Lemma combine_split_map {X} (F G : X -> Qc) : forall (L : list X) (a b : list Qc),
  List.length a = List.length b -> combine a b = map (fun d => (F d, G d)) L -> a = map F L /\ b = map G L.
Proof.
  induction L as [|d L IH]; intros [|x a] [|y b] Hl H; cbn in *; try discriminate; try lia; [split; reflexivity|].
  inversion H; subst. destruct (IH a b ltac:(lia) H3) as [-> ->]. split; reflexivity.
Qed.
Theorem prc_counts : forall l l', Permutation l l' -> desc l' ->
  let m := mask (map sc l') in
  select m (cumsum 0 (map pw l')) = map (fun d => Pge d l) (rev (dset (map sc l))) /\
  select m (cumsum 0 (map nw l')) = map (fun d => Nge d l) (rev (dset (map sc l))) /\
  select m (map sc l') = rev (dset (map sc l)).
Proof.
  intros l l' Hp Hd m.
  assert (Hthr : map fst (groups l') = rev (dset (map sc l))).
  { rewrite <- (thresholds_spec l l' Hp Hd), rev_involutive. reflexivity. }
  pose proof (select_collapse l' 0 0) as Hc. fold m in Hc. rewrite (collapse_counts l' Hd), Hthr in Hc.
  apply combine_split_map in Hc.
  2:{ unfold m. apply select_length2. rewrite !cumsum_length, !map_length. reflexivity. }
  destruct Hc as [H1 H2]. split; [|split].
  - rewrite H1. apply map_ext. intros d. symmetry. apply Pge_perm, Hp.
  - rewrite H2. apply map_ext. intros d. symmetry. apply Nge_perm, Hp.
  - unfold m. rewrite select_mask_scores. exact Hthr.
Qed.

(* ------------------------------------------------------------------------------------------ *)
(* positivity: all weights > 0 (they are 1 in the PR-curve metrics)                           *)
(* ------------------------------------------------------------------------------------------ *)
Definition wpos (l : list sample) : Prop := Forall (fun x => 0 < wt x) l.
Lemma wpos_perm l l' : Permutation l l' -> wpos l -> wpos l'.
Proof. intros Hp H. eapply Permutation_Forall; eassumption. Qed.
Lemma Qc_pos_plus a b : 0 < a -> 0 <= b -> 0 < a + b.
Proof.
  intros Ha Hb. apply (Qclt_le_trans 0 a (a + b) Ha).
  pose proof (Qcplus_le_compat a a 0 b (Qcle_refl a) Hb) as H. rewrite Qcplus_0_r in H. exact H.
Qed.
Lemma Qc_nonneg_plus a b : 0 <= a -> 0 <= b -> 0 <= a + b.
Proof. intros Ha Hb. pose proof (Qcplus_le_compat 0 a 0 b Ha Hb) as H. rewrite Qcplus_0_r in H. exact H. Qed.
Lemma sumf_nonneg {A} (g : A -> Qc) l : (forall x, In x l -> 0 <= g x) -> 0 <= sumf g l.
Proof.
  induction l as [|x l IH]; intros H; [apply Qcle_refl|]. rewrite sumf_cons.
  apply Qc_nonneg_plus; [apply H; left; reflexivity|apply IH; intros y Hy; apply H; right; exact Hy].
Qed.
Lemma sumf_pos {A} (g : A -> Qc) l x0 : (forall x, In x l -> 0 <= g x) -> In x0 l -> 0 < g x0 -> 0 < sumf g l.
Proof.
  induction l as [|x l IH]; intros H Hin Hp; [destruct Hin|]. rewrite sumf_cons.
  assert (Hl : forall y, In y l -> 0 <= g y) by (intros y Hy; apply H; right; exact Hy).
  destruct Hin as [->|Hin].
  - apply Qc_pos_plus; [exact Hp|apply sumf_nonneg, Hl].
  - rewrite Qcplus_comm. apply Qc_pos_plus; [apply IH; assumption|apply H; left; reflexivity].
Qed.
Lemma tot_ge_nonzero l d : wpos l -> In d (map sc l) -> Pge d l + Nge d l <> 0.
Proof.
  intros Hw Hd. rewrite Pge_sumf, Nge_sumf, <- sumf_add.
  apply in_map_iff in Hd as (x0 & <- & Hx0). unfold wpos in Hw. rewrite Forall_forall in Hw.
  apply not_eq_sym, Qclt_not_eq.
  apply (sumf_pos _ l x0); [|exact Hx0|].
  - intros x Hx. specialize (Hw x Hx). destruct (sc x0 <=? sc x)%Z; [|rewrite Qcplus_0_r; apply Qcle_refl].
    unfold pw, nw. destruct (lab x); [rewrite Qcplus_0_r|rewrite Qcplus_0_l]; apply Qclt_le_weak, Hw.
  - rewrite Z.leb_refl. specialize (Hw x0 Hx0). unfold pw, nw. destruct (lab x0); [rewrite Qcplus_0_r|rewrite Qcplus_0_l]; exact Hw.
Qed.
Lemma tp_zero_all l : wpos l -> sumf pw l = 0 -> forall x, In x l -> pw x = 0.
Proof.
  intros Hw H0 x Hx. unfold wpos in Hw. rewrite Forall_forall in Hw.
  destruct (lab x) eqn:El; [|unfold pw; rewrite El; reflexivity].
  exfalso. assert (Hp : 0 < sumf pw l).
  { apply (sumf_pos pw l x); [|exact Hx|unfold pw; rewrite El; apply Hw, Hx].
    intros y Hy. unfold pw. destruct (lab y); [apply Qclt_le_weak, Hw, Hy|apply Qcle_refl]. }
  rewrite H0 in Hp. exact (Qclt_not_eq _ _ Hp eq_refl).
Qed.

Lemma qdivx_fin a b : b <> 0 -> qdivx a b = Fin (a / b).
Proof. intros H. unfold qdivx, qeq. destruct (Qc_eq_dec b 0); [contradiction|reflexivity]. Qed.
Lemma qdivx_00 : qdivx 0 0 = NaN.
Proof. reflexivity. Qed.
Lemma last_select_total (f : sample -> Qc) l :
  last (select (mask (map sc l)) (cumsum 0 (map f l))) 0 = sumf f l.
Proof. destruct l as [|x r]; [reflexivity|]. rewrite last_select_cumsum by discriminate. ring. Qed.

(* C05 item 2: for EVERY descending-sorted permutation the code's curve is the spec curve *)
Theorem prc_sorted_spec : forall l l', Permutation l l' -> desc l' -> wpos l ->
  prc_sorted l' = fin_curve (prc_spec l).
Proof.
  intros l l' Hp Hd Hw. unfold prc_sorted.
  destruct (prc_counts l l' Hp Hd) as (Htp & Hfp & Hthr). cbv zeta in Htp, Hfp, Hthr.
  rewrite last_select_total, <- (sumf_perm pw _ _ Hp), Htp, Hfp, Hthr.
  set (ds := dset (map sc l)). unfold prc_spec, fin_curve. fold ds. cbn [fst snd].
  rewrite map2_map_map, <- !map_rev, !map_map, rev_involutive, !map_app, !map_map. cbn [map].
  assert (Hprec : map (fun d => qdivx (Pge d l) (Pge d l + Nge d l)) ds = map (fun d => Fin (prec_at l d)) ds).
  { apply map_ext_in. intros d Hdin. apply qdivx_fin, tot_ge_nonzero; [exact Hw|]. apply dset_in, Hdin. }
  rewrite Hprec. apply f_equal2; [apply f_equal2; [reflexivity|]|reflexivity].
  unfold rec_at. change (sumq (map pw l)) with (sumf pw l).
  destruct (Qc_eq_dec (sumf pw l) 0) as [E|E].
  - rewrite E.
    assert (Hz : forall d, Pge d l = 0).
    { intros d. rewrite Pge_sumf. apply sumf_zero. intros x Hx. destruct (d <=? sc x)%Z; [|reflexivity]. apply (tp_zero_all l Hw E x Hx). }
    destruct ds as [|d0 ds']; [reflexivity|].
    cbn [map app hd]. rewrite Hz, qdivx_00. cbn [is_nan nan_to_one]. f_equal. f_equal.
    apply map_ext. intros d. rewrite Hz, qdivx_00. reflexivity.
  - rewrite (map_ext (fun d => qdivx (Pge d l) (sumf pw l)) (fun d => Fin (Pge d l / sumf pw l))) by (intros d; apply qdivx_fin, E).
    destruct ds as [|d0 ds']; reflexivity.
Qed.
Corollary prc_row_spec l : wpos l -> prc_row l = fin_curve (prc_spec l).
Proof. intros Hw. apply prc_sorted_spec; [apply sort_desc_perm|apply sort_desc_desc|exact Hw]. Qed.

(* ------------------------------------------------------------------------------------------ *)
(* AUPRC: the Riemann sum over a finite curve                                                 *)
(* ------------------------------------------------------------------------------------------ *)
Definition qsubm (u v : Qc) : Qc := u + - (1) * v.
Lemma map2_fin2 (f : xq -> xq -> xq) (g : Qc -> Qc -> Qc) : (forall a b, f (Fin a) (Fin b) = Fin (g a b)) ->
  forall a b, map2 f (map Fin a) (map Fin b) = map Fin (map2 g a b).
Proof.
  intros H. induction a as [|x a IH]; intros [|y b]; cbn [map map2]; try reflexivity. rewrite H, IH. reflexivity.
Qed.
Lemma xsum_fin_acc : forall l a, fold_left xadd (map Fin l) (Fin a) = Fin (a + sumq l).
Proof.
  induction l as [|x l IH]; intros a; cbn [map fold_left sumq fold_right].
  - apply f_equal. ring.
  - change (xadd (Fin a) (Fin x)) with (Fin (a + x)). rewrite IH. apply f_equal. change (fold_right Qcplus 0 l) with (sumq l). ring.
Qed.
Lemma riemann_terms : forall x y, - (1) * sumq (map2 Qcmult (map2 qsubm (tl x) x) y) = riemann_q x y.
Proof.
  induction x as [|r0 x' IH]; intros y; [cbn; ring|].
  destruct x' as [|r1 x'']; [cbn; ring|].
  destruct y as [|p0 y'].
  - rewrite map2_nil_r. cbn. ring.
  - specialize (IH y'). cbn [tl] in IH.
    change (riemann_q (r0 :: r1 :: x'') (p0 :: y')) with ((r0 - r1) * p0 + riemann_q (r1 :: x'') y').
    rewrite <- IH. cbn [tl map2]. change (sumq (?a :: ?l)) with (a + sumq l). unfold qsubm. ring.
Qed.
Theorem riemann_fin x y : riemann_x (map Fin x) (map Fin y) = Fin (riemann_q x y).
Proof.
  unfold riemann_x.
  assert (Ht : tl (map Fin x) = map Fin (tl x)) by (destruct x; reflexivity).
  rewrite Ht, (map2_fin2 xsub qsubm) by reflexivity.
  rewrite (map2_fin2 xmul Qcmult) by reflexivity.
  unfold xsum. rewrite xsum_fin_acc. change (xneg (Fin ?a)) with (Fin (- (1) * a)).
  rewrite <- riemann_terms. unfold xneg. cbn [xmul]. f_equal. ring.
Qed.
Theorem auprc_sorted_spec : forall l l', Permutation l l' -> desc l' -> wpos l ->
  auprc_of (prc_sorted l') = Fin (auprc_spec l).
Proof.
  intros l l' Hp Hd Hw. rewrite (prc_sorted_spec l l' Hp Hd Hw). unfold auprc_of, fin_curve, auprc_spec. cbn [fst snd].
  apply riemann_fin.
Qed.
Corollary auprc_row_spec l : wpos l -> auprc_row l = Fin (auprc_spec l).
Proof. intros Hw. apply auprc_sorted_spec; [apply sort_desc_perm|apply sort_desc_desc|exact Hw]. Qed.

(* ------------------------------------------------------------------------------------------ *)
(* recall at fixed precision                                                                  *)
(* ------------------------------------------------------------------------------------------ *)
Lemma select_filter {A B} (f : A -> bool) : forall (P : list A) (R : list B),
  select (map f P) R = map snd (filter (fun pr => f (fst pr)) (combine P R)).
Proof.
  induction P as [|p P IH]; intros [|r R]; cbn [map select combine filter]; try reflexivity.
  cbn [fst]. destruct (f p); cbn [map snd]; rewrite IH; reflexivity.
Qed.
Lemma select_map {A B} (g : A -> B) : forall m (R : list A), select m (map g R) = map g (select m R).
Proof. induction m as [|b m IH]; intros [|r R]; cbn [map select]; try reflexivity. destruct b; cbn [map]; rewrite IH; reflexivity. Qed.
Lemma select_app {A} : forall ma mb (ra rb : list A), List.length ma = List.length ra ->
  select (ma ++ mb) (ra ++ rb) = select ma ra ++ select mb rb.
Proof.
  induction ma as [|b ma IH]; intros mb [|r ra] rb H; cbn in H; try lia; [reflexivity|].
  cbn [app select]. destruct b; cbn [app]; rewrite IH by lia; reflexivity.
Qed.
Lemma xmax_fin a b : xmax (Fin a) (Fin b) = Fin (qmax a b).
Proof.
  unfold xmax, xle, qmax, qle, qlt. destruct (a ?= b) eqn:E; try reflexivity.
  apply Qceq_alt in E. subst. reflexivity.
Qed.
Lemma xmax_fold_fin : forall r x, fold_left xmax (map Fin r) (Fin x) = Fin (fold_left qmax r x).
Proof. induction r as [|a r IH]; intros x; [reflexivity|]. cbn [map fold_left]. rewrite xmax_fin, IH. reflexivity. Qed.
Lemma xmax_list_fin L : L <> [] -> xmax_list (map Fin L) = Fin (qmax_list L).
Proof. destruct L as [|x r]; [congruence|]. intros _. cbn [map xmax_list qmax_list]. apply xmax_fold_fin. Qed.
Lemma qle_true a b : a <= b -> qle a b = true.
Proof. intros H. apply Qcle_alt in H. unfold qle. destruct (a ?= b) eqn:E; try reflexivity. exfalso. apply H. exact E. Qed.

Theorem rap_kernel_fin den minp (P R : list Qc) (T : list Z) :
  select (map (qle minp) P) R <> [] ->
  rap_kernel den minp (map Fin P, map Fin R, T) =
  (Fin (qmax_list (map snd (filter (fun pr => qle minp (fst pr)) (combine P R)))),
   Z.abs (zmax_list (map snd (filter (fun rt => qeq (fst rt) (qmax_list (map snd (filter (fun pr => qle minp (fst pr)) (combine P R)))))
                                      (combine R (T ++ [(- Zpos den)%Z])))))).
Proof.
  intros Hne. unfold rap_kernel.
  rewrite map_map. change (map (fun x => xle (Fin minp) (Fin x)) P) with (map (qle minp) P).
  rewrite select_map, xmax_list_fin by exact Hne. rewrite select_filter.
  rewrite map_map. set (m := qmax_list _).
  change (map (fun x => xeqb (Fin x) (Fin m)) R) with (map (fun r => qeq r m) R).
  rewrite (select_filter (fun r => qeq r m)). reflexivity.
Qed.

Theorem rap_sorted_spec : forall den minp l l', Permutation l l' -> desc l' -> wpos l -> minp <= 1 ->
  rap_kernel den minp (prc_sorted l') = (Fin (rap_spec minp l), rap_thr_spec den minp l).
Proof.
  intros den minp l l' Hp Hd Hw Hm. rewrite (prc_sorted_spec l l' Hp Hd Hw).
  unfold fin_curve, rap_spec, rap_thr_spec, prc_spec. cbn [fst snd].
  apply rap_kernel_fin.
  rewrite map_app, select_app by (rewrite !map_length; reflexivity).
  cbn [map select]. rewrite (qle_true _ _ Hm). apply not_eq_sym, app_cons_not_nil.
Qed.
Corollary rap_row_spec den minp l : wpos l -> minp <= 1 -> rap_row den minp l = (Fin (rap_spec minp l), rap_thr_spec den minp l).
Proof. intros Hw Hm. apply rap_sorted_spec; [apply sort_desc_perm|apply sort_desc_desc|exact Hw|exact Hm]. Qed.

(* the spec value is a maximum in the textbook sense *)
Lemma qmax_ge_l a b : a <= qmax a b.
Proof. unfold qmax, qlt. destruct (a ?= b) eqn:E; try apply Qcle_refl. apply Qclt_le_weak, Qclt_alt, E. Qed.
Lemma qmax_ge_r a b : b <= qmax a b.
Proof.
  unfold qmax, qlt. destruct (a ?= b) eqn:E; try apply Qcle_refl.
  - apply Qceq_alt in E. subst. apply Qcle_refl.
  - apply Qclt_le_weak, Qcgt_alt, E.
Qed.
Lemma qmax_cases a b : qmax a b = a \/ qmax a b = b.
Proof. unfold qmax. destruct (qlt a b); auto. Qed.
Lemma qmax_fold_spec : forall r x, In (fold_left qmax r x) (x :: r) /\ forall y, In y (x :: r) -> y <= fold_left qmax r x.
Proof.
  induction r as [|a r IH]; intros x; cbn [fold_left].
  - split; [left; reflexivity|]. intros y [<-|[]]. apply Qcle_refl.
  - destruct (IH (qmax x a)) as [Hin Hge]. split.
    + destruct Hin as [E|Hin]; [|right; right; exact Hin].
      destruct (qmax_cases x a) as [E'|E']; rewrite <- E, E'; [left|right; left]; reflexivity.
    + intros y [<-|[<-|Hy]].
      * eapply Qcle_trans; [apply qmax_ge_l|apply Hge; left; reflexivity].
      * eapply Qcle_trans; [apply qmax_ge_r|apply Hge; left; reflexivity].
      * apply Hge. right. exact Hy.
Qed.
Theorem rap_spec_is_max minp l : minp <= 1 ->
  let c := prc_spec l in
  let pts := combine (fst (fst c)) (snd (fst c)) in
  (exists p, In (p, rap_spec minp l) pts /\ minp <= p) /\
  (forall p r, In (p, r) pts -> minp <= p -> r <= rap_spec minp l).
Proof.
  intros Hm c pts. unfold rap_spec. fold c. fold pts.
  set (F := filter (fun pr => qle minp (fst pr)) pts).
  assert (Hne : F <> []).
  { unfold F, pts, c, prc_spec. cbn [fst snd]. rewrite combine_app by (rewrite !map_length; reflexivity).
    rewrite filter_app. cbn [combine filter fst]. rewrite (qle_true _ _ Hm). apply not_eq_sym, app_cons_not_nil. }
  destruct F as [|[p0 r0] F'] eqn:EF; [congruence|]. cbn [map snd qmax_list].
  destruct (qmax_fold_spec (map snd F') r0) as [Hin Hge]. split.
  - assert (Hin' : In (fold_left qmax (map snd F') r0) (map snd ((p0, r0) :: F'))) by exact Hin.
    apply in_map_iff in Hin' as ([p r] & Hr & Hpr). cbn [snd] in Hr. subst r. exists p.
    rewrite <- EF in Hpr. unfold F in Hpr. apply filter_In in Hpr as [H1 H2]. split; [exact H1|].
    cbn [fst] in H2. unfold qle in H2. apply Qcle_alt. destruct (minp ?= p); congruence.
  - intros p r Hpr Hp. apply Hge. change (In r (map snd ((p0, r0) :: F'))). rewrite <- EF.
    apply in_map_iff. exists (p, r). split; [reflexivity|]. unfold F. apply filter_In. split; [exact Hpr|].
    cbn [fst]. apply qle_true, Hp.
Qed.

(* ------------------------------------------------------------------------------------------ *)
(* class-level: algo = spec                                                                   *)
(* ------------------------------------------------------------------------------------------ *)
Lemma one_pos : 0 < 1.
Proof. reflexivity. Qed.
Lemma wpos_ovr C l : Forall wpos (ovr_rows C l).
Proof.
  unfold ovr_rows. apply Forall_forall. intros r Hr. apply in_map_iff in Hr as (c & <- & _).
  unfold wpos. apply Forall_forall. intros x Hx. apply in_map_iff in Hx as (s & <- & _). exact one_pos.
Qed.
Lemma wpos_labels L l : Forall wpos (label_rows L l).
Proof.
  unfold label_rows. apply Forall_forall. intros r Hr. apply in_map_iff in Hr as (c & <- & _).
  unfold wpos. apply Forall_forall. intros x Hx. apply in_map_iff in Hx as (s & <- & _). exact one_pos.
Qed.
Lemma map_ext_Forall {A B} (f g : A -> B) (P : A -> Prop) l : Forall P l -> (forall x, P x -> f x = g x) -> map f l = map g l.
Proof. intros HF H. induction HF as [|x l Hx _ IH]; [reflexivity|]. cbn [map]. rewrite IH, (H x Hx). reflexivity. Qed.

Theorem bprc_algo_spec l : wpos l -> bprc_algo l = bprc_spec l.
Proof. intros Hw. destruct l as [|x l]; [reflexivity|]. unfold bprc_algo, bprc_spec. rewrite prc_row_spec by exact Hw. reflexivity. Qed.
Theorem brap_algo_spec den minp l : wpos l -> minp <= 1 -> brap_algo den minp l = brap_spec den minp l.
Proof. intros Hw Hm. destruct l as [|x l]; [reflexivity|]. unfold brap_algo, brap_spec. rewrite rap_row_spec by assumption. reflexivity. Qed.
Theorem bauprc_algo_spec nt cols : Forall wpos (task_rows nt cols) -> bauprc_algo nt cols = bauprc_spec nt cols.
Proof.
  intros Hw. destruct cols as [|c cols]; [reflexivity|]. unfold bauprc_algo, bauprc_spec.
  rewrite (map_ext_Forall auprc_row (fun r => Fin (auprc_spec r)) wpos _ Hw auprc_row_spec). reflexivity.
Qed.
Theorem mlauprc_algo_spec L macro l : mlauprc_algo L macro l = mlauprc_spec L macro l.
Proof.
  destruct l as [|s l]; [reflexivity|]. unfold mlauprc_algo, mlauprc_spec.
  rewrite (map_ext_Forall auprc_row (fun r => Fin (auprc_spec r)) wpos _ (wpos_labels L _) auprc_row_spec). reflexivity.
Qed.
Theorem mlprc_algo_spec L l : mlprc_algo L l = mlprc_spec L l.
Proof.
  destruct l as [|s l]; [reflexivity|]. unfold mlprc_algo, mlprc_spec.
  rewrite (map_ext_Forall prc_row (fun r => fin_curve (prc_spec r)) wpos _ (wpos_labels L _) prc_row_spec). reflexivity.
Qed.
Theorem mlrap_algo_spec den minp L l : minp <= 1 -> mlrap_algo den minp L l = mlrap_spec den minp L l.
Proof.
  intros Hm. destruct l as [|s l]; [reflexivity|]. unfold mlrap_algo, mlrap_spec.
  rewrite (map_ext_Forall (rap_row den minp) (fun r => (Fin (rap_spec minp r), rap_thr_spec den minp r)) wpos _ (wpos_labels L _)
             (fun r Hr => rap_row_spec den minp r Hr Hm)). reflexivity.
Qed.

(* ------------------------------------------------------------------------------------------ *)
(* order-insensitivity of the PR spec (hence of compute, through algo = spec)                 *)
(* ------------------------------------------------------------------------------------------ *)
Lemma dset_perm l l' : Permutation l l' -> dset l = dset l'.
Proof.
  intros H. apply sorted_lt_unique; try apply dset_sorted. intros d. rewrite !dset_in.
  split; apply Permutation_in; [|symmetry]; exact H.
Qed.
Theorem prc_spec_perm l l' : Permutation l l' -> prc_spec l = prc_spec l'.
Proof.
  intros H. unfold prc_spec. rewrite (dset_perm _ _ (Permutation_map sc H)).
  assert (Hp : forall d, prec_at l d = prec_at l' d).
  { intros d. unfold prec_at. rewrite (Pge_perm d _ _ H), (Nge_perm d _ _ H). reflexivity. }
  assert (Hr : forall d, rec_at l d = rec_at l' d).
  { intros d. unfold rec_at. change (sumq (map pw l)) with (sumf pw l). change (sumq (map pw l')) with (sumf pw l').
    rewrite (sumf_perm pw _ _ H), (Pge_perm d _ _ H). reflexivity. }
  rewrite (map_ext _ _ Hp), (map_ext _ _ Hr). reflexivity.
Qed.
Theorem bprc_algo_perm l l' : wpos l -> Permutation l l' -> bprc_algo l = bprc_algo l'.
Proof.
  intros Hw H. rewrite (bprc_algo_spec l Hw), (bprc_algo_spec l' (wpos_perm _ _ H Hw)).
  destruct l as [|x l]; [apply Permutation_nil in H; subst; reflexivity|].
  destruct l' as [|x' l']; [apply Permutation_sym, Permutation_nil in H; discriminate|].
  unfold bprc_spec. rewrite (prc_spec_perm _ _ H). reflexivity.
Qed.
