(* The repaired WindowedBinaryAUROC.compute() (Models/WindowAUROC.acmp_fix): evaluating the whole
   buffer is correct because unfilled slots carry weight 0 and a zero-weight sample contributes
   nothing to the pairwise AUROC definition. *)
From Coq Require Import ZArith List Bool QArith Qcanon String Arith Lia Permutation.
From TE Require Import Base.Val Base.Xq Algebra.Metric Algebra.Pool Models.Curves Models.Window Models.WindowAUROC
  Proofs.CurvesP Proofs.WindowP.
Import ListNotations.
Open Scope list_scope.
Open Scope Qc_scope.

Lemma sumq_app a b : sumq (a ++ b) = sumq a + sumq b.
Proof. unfold sumq. induction a as [|x a IH]; cbn [app fold_right]; [ring|]. rewrite IH. ring. Qed.
Lemma sumq_zero {A} (f : A -> Qc) l : (forall x, In x l -> f x = 0) -> sumq (map f l) = 0.
Proof.
  unfold sumq. induction l as [|x l IH]; intros H; cbn [map fold_right]; [reflexivity|].
  rewrite (H x (or_introl eq_refl)), IH by (intros y Hy; apply H; right; exact Hy). ring.
Qed.
Lemma pw_zw x : wt x = 0 -> pw x = 0.
Proof. intros H. unfold pw. destruct (lab x); [exact H|reflexivity]. Qed.
Lemma nw_zw x : wt x = 0 -> nw x = 0.
Proof. intros H. unfold nw. destruct (lab x); [reflexivity|exact H]. Qed.
Lemma pair_kern_zl a b : pw a = 0 -> pair_kern a b = 0.
Proof. intros H. unfold pair_kern. rewrite H. ring. Qed.
Lemma pair_kern_zr a b : nw b = 0 -> pair_kern a b = 0.
Proof. intros H. unfold pair_kern. rewrite H. ring. Qed.

(* samples of weight 0 do not change the AUROC (whatever their scores and labels) *)
Theorem auroc_spec_zero_weights (l Z : list sample) :
  Forall (fun x => wt x = 0) Z -> auroc_spec (l ++ Z) = auroc_spec l.
Proof.
  intros HZ. rewrite Forall_forall in HZ.
  assert (Hp : sumq (map pw (l ++ Z)) = sumq (map pw l)).
  { rewrite map_app, sumq_app, (sumq_zero pw Z) by (intros x Hx; apply pw_zw, HZ, Hx). ring. }
  assert (Hn : sumq (map nw (l ++ Z)) = sumq (map nw l)).
  { rewrite map_app, sumq_app, (sumq_zero nw Z) by (intros x Hx; apply nw_zw, HZ, Hx). ring. }
  assert (Hs : pair_sum (l ++ Z) = pair_sum l).
  { unfold pair_sum. rewrite map_app, sumq_app.
    rewrite (sumq_zero (fun a => sumq (map (pair_kern a) (l ++ Z))) Z).
    2:{ intros a Ha. apply sumq_zero. intros b _. apply pair_kern_zl, pw_zw, HZ, Ha. }
    rewrite Qcplus_0_r. f_equal. apply map_ext. intros a.
    rewrite map_app, sumq_app, (sumq_zero (pair_kern a) Z) by (intros b Hb; apply pair_kern_zr, nw_zw, HZ, Hb). ring. }
  unfold auroc_spec. rewrite Hp, Hn, Hs. reflexivity.
Qed.

Close Scope Qc_scope.
Open Scope nat_scope.
Section Fix.
Variable c : acfg.
Notation N := (aN c).

(* per task, the whole buffer has the AUROC of the last N samples *)
Lemma rows_fix_spec h s : 0 < N -> AInv c h s ->
  map auroc_spec (rows_of c (a_buf s)) = map auroc_spec (rows_of c (lastn N h)).
Proof.
  intros HN Hi. pose proof (ainv_contents c h s HN Hi) as Hcont.
  destruct Hi as [Hmax (older & prev & cur & Hh & Hc & HcN & Ht & Hb)].
  unfold acontents in Hcont. rewrite Ht, Hmax in Hcont.
  destruct Hb as [[Hp Hbw]|(-> & -> & Hbw)].
  - assert (Hge : N <= List.length h) by (rewrite Hh, !app_length; lia).
    apply Nat.leb_le in Hge. rewrite Hge in Hcont. rewrite <- Hcont.
    apply rows_spec_perm. rewrite <- (firstn_skipn (a_cur s) (a_buf s)) at 1. apply Permutation_app_comm.
  - cbn [app] in Hh. subst h.
    assert (Hlt : Nat.leb N (List.length cur) = false) by (apply Nat.leb_gt; lia). rewrite Hlt in Hcont.
    rewrite <- Hcont. rewrite <- (firstn_skipn (a_cur s) (a_buf s)) at 1.
    set (A := firstn (a_cur s) (a_buf s)). set (Z := skipn (a_cur s) (a_buf s)).
    assert (HZ : forall x, In x Z -> x = azcol c).
    { intros x Hx. unfold Z in Hx. rewrite Hbw, <- Hc, skipn_app, (skipn_all2 cur), Nat.sub_diag in Hx by lia.
      cbn [app skipn] in Hx. apply in_skipn in Hx. apply repeat_spec in Hx. exact Hx. }
    unfold rows_of. rewrite !map_map. apply map_ext. intros t. rewrite map_app.
    apply auroc_spec_zero_weights. apply Forall_forall. intros x Hx.
    apply in_map_iff in Hx as (cl & <- & Hcl). rewrite (HZ cl Hcl). unfold azcol. rewrite nth_repeat. reflexivity.
Qed.

(* C13 for the repaired compute(): all window sizes >= 1, all scores (zero included), all batch
   sizes, as soon as one sample has been seen -- no proviso *)
Theorem auroc_fix_refines_lastN (bs : list (list col)) : 0 < N -> List.concat bs <> [] ->
  acmp_fix c (fold_left (aupd c) bs (ainit c)) = auroc_ref c (lastn N (List.concat bs)).
Proof.
  intros HN Hne. set (s := fold_left (aupd c) bs (ainit c)). set (h := List.concat bs) in *.
  pose proof (ainv_fold c bs [] (ainit c) HN (ainv_init c HN)) as Hi. cbn [app] in Hi. fold s h in Hi.
  pose proof (rows_fix_spec h s HN Hi) as Hrows.
  destruct Hi as [_ (o & p & cu & _ & _ & _ & Ht & _)].
  assert (Hlen : List.length h <> 0) by (destruct h; [congruence|cbn; lia]).
  unfold acmp_fix. rewrite Ht. apply Nat.eqb_neq in Hlen. rewrite Hlen. apply Nat.eqb_neq in Hlen.
  rewrite auroc_kernel_spec, Hrows. unfold auroc_ref.
  destruct (lastn N h) as [|x L] eqn:E.
  - exfalso. assert (Hl : List.length (lastn N h) = 0) by (rewrite E; reflexivity).
    unfold lastn in Hl. rewrite skipn_length in Hl. lia.
  - destruct (aT c) as [|[|T']] eqn:HT; try reflexivity.
    unfold rows_of. rewrite HT. reflexivity.
Qed.
End Fix.
