(* Soundness of the L-eff checkers (ported from design-probes/AliasSound.v and CommitOrder.v). *)
From Coq Require Import List String Bool Arith Lia.
From TE Require Import Models.Effects.
Import ListNotations.
Open Scope string_scope.

(* ========================================================================================== *)
(* 1. Aliasing                                                                                  *)
(* ========================================================================================== *)
Lemma rhs_eq_dec (a b : rhs) : {a = b} + {a <> b}.
Proof. decide equality; apply string_dec. Qed.
Lemma atom_eq_dec (a b : atom) : {a = b} + {a <> b}.
Proof. decide equality; try apply string_dec; apply rhs_eq_dec. Qed.

Lemma setf_same o f v : setf o f v f = v.
Proof. unfold setf. rewrite String.eqb_refl. reflexivity. Qed.
Lemma setf_other o f v g : g <> f -> setf o f v g = o g.
Proof. intros H. unfold setf. apply String.eqb_neq in H. rewrite H. reflexivity. Qed.
Lemma seto_same p t o : seto p t o t = o.
Proof. unfold seto. rewrite Nat.eqb_refl. reflexivity. Qed.
Lemma seto_other p t o i : i <> t -> seto p t o i = p i.
Proof. intros H. unfold seto. apply Nat.eqb_neq in H. rewrite H. reflexivity. Qed.

Section Class.
Variable Prog : list atom.              (* every statement of every method of the class *)
Definition IP (f : fld) : Prop := In (AInPlace f) Prog.
Definition binds (f : fld) (r : rhs) : Prop := In (ABind f r) Prog \/ In (AAppend f r) Prog.
Definition C1 := forall f r, binds f r -> IP f -> r = Fresh \/ r = Imm \/ exists g, r = SelfAlias g /\ IP g.
Definition C1' := forall f g, binds f (SelfAlias g) -> IP g -> IP f.
Definition C2 := forall f g, binds f (SrcAlias g) -> ~ IP g.
Definition C3 := forall r, ~ In (AClobber r) Prog.

Definition writable (o : obj) (l : loc) : Prop := exists f, IP f /\ In l (o f).
Definition reach (o : obj) (l : loc) : Prop := exists f, In l (o f).

(* the in-place-writable locations of object i are unreachable from every other object and from
   every caller-owned tensor, and disjoint from i's own non-IP fields *)
Definition Inv (s : state) : Prop :=
  (forall i j l, i <> j -> writable (objs s i) l -> ~ reach (objs s j) l) /\
  (forall i l, writable (objs s i) l -> ~ In l (ext s)) /\
  (forall i f l, ~ IP f -> In l (objs s i f) -> ~ writable (objs s i) l) /\
  (forall i l, reach (objs s i) l -> l < next s) /\ (forall l, In l (ext s) -> l < next s).

Lemma classic_IP f : IP f \/ ~ IP f.
Proof. unfold IP. destruct (in_dec atom_eq_dec (AInPlace f) Prog); auto. Qed.

Lemma ipb_IP f : ipb Prog f = true <-> IP f.
Proof.
  unfold ipb, IP. rewrite existsb_exists. split.
  - intros (a & Ha & E). destruct a; try discriminate. apply String.eqb_eq in E. subst. exact Ha.
  - intros H. exists (AInPlace f). split; [exact H|apply String.eqb_refl].
Qed.
(* the decidable check implies the four conditions *)
Lemma alias_ok_conditions : alias_ok Prog = true -> C1 /\ C1' /\ C2 /\ C3.
Proof.
  unfold alias_ok. rewrite forallb_forall. intros H.
  assert (Hb : forall f r, binds f r -> bind_ok Prog f r = true).
  { intros f r [Hi|Hi]; apply (H _ Hi). }
  split; [|split; [|split]].
  - intros f r Hbd Hf. specialize (Hb f r Hbd). apply ipb_IP in Hf.
    destruct r as [| |g|g|]; cbn in Hb; try rewrite Hf in Hb; cbn in Hb.
    + left; reflexivity.
    + right; left; reflexivity.
    + right; right. exists g. split; [reflexivity|]. apply ipb_IP. destruct (ipb Prog g); [reflexivity|discriminate].
    + discriminate.
    + discriminate.
  - intros f g Hbd Hg. specialize (Hb _ _ Hbd). cbn in Hb. apply ipb_IP in Hg. rewrite Hg in Hb.
    apply ipb_IP. destruct (ipb Prog f); [reflexivity|discriminate].
  - intros f g Hbd Hg. specialize (Hb _ _ Hbd). cbn in Hb. apply ipb_IP in Hg. rewrite Hg in Hb.
    rewrite andb_false_r in Hb. discriminate.
  - intros r Hi. specialize (H _ Hi). discriminate.
Qed.

Hypothesis (H1 : C1) (H1' : C1') (H2 : C2) (H3 : C3).

(* the key safety fact: in-place writes hit only locations private to the writer *)
Theorem inplace_is_private s t sidx a f : Inv s -> In (AInPlace f) Prog ->
  forall l, In l (snd (step s t sidx a (AInPlace f))) ->
    (forall j, j <> t -> ~ reach (objs s j) l) /\ ~ In l (ext s).
Proof.
  intros (Hsep & Hext & _) Hin l Hl. cbn in Hl.
  assert (Hw : writable (objs s t) l) by (exists f; split; assumption).
  split; [intros j Hj; apply (Hsep t j l); auto|apply (Hext t l Hw)].
Qed.

(* generic update of a field of object t with locations [v] *)
Lemma inv_update s t f v ext' next' :
  Inv s -> next s <= next' -> (forall l, In l ext' -> In l (ext s) \/ (l < next' /\ ~ (exists i, writable (objs s i) l) /\ (IP f -> ~ In l v))) ->
  (forall l, In l (ext s) -> In l ext') ->
  (forall l, In l v -> l < next') ->
  (IP f -> forall l, In l v -> (forall j, j <> t -> ~ reach (objs s j) l) /\ ~ In l (ext s) /\
                               (forall g, ~ IP g -> g <> f -> ~ In l (objs s t g))) ->
  (~ IP f -> forall l, In l v -> forall i, ~ writable (objs s i) l) ->
  Inv {| objs := seto (objs s) t (setf (objs s t) f v); ext := ext'; next := next' |}.
Proof.
  intros (Hsep & Hext & HJ & Hlt & Hxlt) Hnext Hext' Hmono Hv HIPv HnIPv.
  set (o' := setf (objs s t) f v).
  assert (Hw' : forall l, writable o' l -> writable (objs s t) l \/ (IP f /\ In l v)).
  { intros l (g & Hg & Hl). destruct (string_dec g f) as [->|Hne].
    - unfold o' in Hl. rewrite setf_same in Hl. right; auto.
    - unfold o' in Hl. rewrite setf_other in Hl by assumption. left. exists g; auto. }
  assert (Hr' : forall l, reach o' l -> reach (objs s t) l \/ In l v).
  { intros l (g & Hl). destruct (string_dec g f) as [->|Hne].
    - unfold o' in Hl. rewrite setf_same in Hl. right; auto.
    - unfold o' in Hl. rewrite setf_other in Hl by assumption. left. exists g; auto. }
  unfold Inv; cbn [objs ext next]. repeat split.
  - intros i j l Hij Hwi Hrj.
    destruct (Nat.eq_dec i t) as [->|Hit].
    + rewrite seto_same in Hwi. rewrite seto_other in Hrj by auto.
      destruct (Hw' l Hwi) as [Hw|[Hf Hlv]]; [apply (Hsep t j l); auto|].
      destruct (HIPv Hf l Hlv) as (Hn & _). apply (Hn j); auto.
    + rewrite seto_other in Hwi by auto.
      destruct (Nat.eq_dec j t) as [->|Hjt].
      * rewrite seto_same in Hrj. destruct (Hr' l Hrj) as [Hr|Hlv]; [apply (Hsep i t l); auto|].
        destruct (classic_IP f) as [Hf|Hf].
        -- destruct (HIPv Hf l Hlv) as (Hn & _). apply (Hn i Hit). destruct Hwi as (g & _ & Hg). exists g; exact Hg.
        -- apply (HnIPv Hf l Hlv i Hwi).
      * rewrite seto_other in Hrj by auto. apply (Hsep i j l); auto.
  - intros i l Hwi Hle.
    destruct (Hext' l Hle) as [Hold|(Hlt' & Hnw & Hnv)].
    + destruct (Nat.eq_dec i t) as [->|Hit].
      * rewrite seto_same in Hwi. destruct (Hw' l Hwi) as [Hw|[Hf Hlv]]; [apply (Hext t l); auto|].
        destruct (HIPv Hf l Hlv) as (_ & Hn & _). auto.
      * rewrite seto_other in Hwi by auto. apply (Hext i l); auto.
    + destruct (Nat.eq_dec i t) as [->|Hit].
      * rewrite seto_same in Hwi. destruct (Hw' l Hwi) as [Hw|[Hf Hlv]]; [apply Hnw; exists t; auto|].
        apply (Hnv Hf Hlv).
      * rewrite seto_other in Hwi by auto. apply Hnw; exists i; auto.
  - intros i g l Hg Hl Hw.
    destruct (Nat.eq_dec i t) as [->|Hit].
    + rewrite seto_same in Hl, Hw.
      destruct (string_dec g f) as [->|Hgf].
      * unfold o' in Hl. rewrite setf_same in Hl.
        destruct (Hw' l Hw) as [Hw0|[Hf _]]; [|contradiction]. apply (HnIPv Hg l Hl t Hw0).
      * unfold o' in Hl. rewrite setf_other in Hl by assumption.
        destruct (Hw' l Hw) as [Hw0|[Hf Hlv]]; [apply (HJ t g l); auto|].
        destruct (HIPv Hf l Hlv) as (_ & _ & Hn). apply (Hn g); auto.
    + rewrite seto_other in Hl, Hw by auto. apply (HJ i g l); auto.
  - intros i l Hr. destruct (Nat.eq_dec i t) as [->|Hit].
    + rewrite seto_same in Hr. destruct (Hr' l Hr) as [H|H]; [specialize (Hlt t l H); lia|auto].
    + rewrite seto_other in Hr by auto. specialize (Hlt i l Hr). lia.
  - intros l Hl. destruct (Hext' l Hl) as [H|(H & _)]; [specialize (Hxlt l H); lia|exact H].
Qed.

(* every statement of a checked class preserves the invariant *)
Theorem step_preserves_inv s t sidx a st :
  Inv s -> In st Prog -> sidx <> t -> a < next s -> (forall i, ~ writable (objs s i) a) ->
  Inv (fst (step s t sidx a st)).
Proof.
  intros HI Hin Hst Ha Hanw. pose proof HI as (Hsep & Hext & HJ & Hlt & Hxlt).
  assert (Hgen : forall f r (app : bool), binds f r ->
     Inv {| objs := seto (objs s) t (setf (objs s t) f ((if app then objs s t f else []) ++ rlocs s t sidx a r));
            ext := match r with ArgAlias => a :: ext s | _ => ext s end;
            next := match r with Fresh => S (next s) | _ => next s end |}).
  { intros f r app Hb.
    apply inv_update; try assumption.
    - destruct r; lia.
    - intros l Hl. destruct r; try (left; exact Hl).
      destruct Hl as [<-|Hl]; [|left; exact Hl]. right. split; [lia|]. split; [intros (i & Hw); apply (Hanw i Hw)|].
      intros Hf. destruct (H1 f ArgAlias Hb Hf) as [E|[E|(g & E & _)]]; discriminate.
    - intros l Hl. destruct r; try exact Hl. right; exact Hl.
    - intros l Hl. apply in_app_or in Hl as [Hl|Hl].
      + destruct app; [|contradiction]. assert (l < next s) by (apply (Hlt t l); exists f; exact Hl). destruct r; lia.
      + destruct r; cbn in Hl.
        * destruct Hl as [<-|[]]. lia.
        * contradiction.
        * apply (Hlt t l). exists g; exact Hl.
        * assert (l < next s) by (apply (Hlt sidx l); exists g; exact Hl). lia.
        * destruct Hl as [<-|[]]. lia.
    - intros Hf l Hl. apply in_app_or in Hl as [Hl|Hl].
      + destruct app; [|contradiction].
        assert (Hw : writable (objs s t) l) by (exists f; auto).
        split; [intros j Hj; apply (Hsep t j l); auto|]. split; [apply (Hext t l Hw)|].
        intros g Hg _ Hlg. apply (HJ t g l Hg Hlg Hw).
      + destruct (H1 f r Hb Hf) as [->|[->|(g & -> & Hg)]]; cbn in Hl.
        * destruct Hl as [<-|[]]. split; [intros j _ (g & Hr); assert (next s < next s) by (apply (Hlt j); exists g; exact Hr); lia|].
          split; [intros Hx; specialize (Hxlt _ Hx); lia|].
          intros g _ _ Hr. assert (next s < next s) by (apply (Hlt t); exists g; exact Hr). lia.
        * contradiction.
        * assert (Hw : writable (objs s t) l) by (exists g; auto).
          split; [intros j Hj; apply (Hsep t j l); auto|]. split; [apply (Hext t l Hw)|].
          intros g' Hg' _ Hlg. apply (HJ t g' l Hg' Hlg Hw).
    - intros Hf l Hl i Hw. apply in_app_or in Hl as [Hl|Hl].
      + destruct app; [|contradiction].
        destruct (Nat.eq_dec i t) as [->|Hit]; [apply (HJ t f l Hf Hl Hw)|].
        apply (Hsep i t l Hit Hw). exists f; exact Hl.
      + destruct r; cbn in Hl.
        * destruct Hl as [<-|[]]. destruct Hw as (g & _ & Hg).
          assert (next s < next s) by (apply (Hlt i); exists g; exact Hg). lia.
        * contradiction.
        * assert (Hg : ~ IP g) by (intros Hg; apply Hf, (H1' f g Hb Hg)).
          destruct (Nat.eq_dec i t) as [->|Hit]; [apply (HJ t g l Hg Hl Hw)|].
          apply (Hsep i t l Hit Hw). exists g; exact Hl.
        * pose proof (H2 f g Hb) as Hg.
          destruct (Nat.eq_dec i sidx) as [->|His]; [apply (HJ sidx g l Hg Hl Hw)|].
          apply (Hsep i sidx l His Hw). exists g; exact Hl.
        * destruct Hl as [<-|[]]. apply (Hanw i Hw). }
  destruct st as [f r|f r|f|r]; cbn [step fst].
  - apply (Hgen f r false). left; exact Hin.
  - apply (Hgen f r true). right; exact Hin.
  - exact HI.
  - exact HI.
Qed.

(* every heap write of every statement of a checked class lands in a location that no other
   object and no caller-owned tensor can reach *)
Theorem writes_are_private s t sidx a st :
  Inv s -> In st Prog -> forall l, In l (snd (step s t sidx a st)) ->
    (forall j, j <> t -> ~ reach (objs s j) l) /\ ~ In l (ext s).
Proof.
  intros HI Hin l Hl. destruct st as [f r|f r|f|r].
  - cbn in Hl. contradiction.
  - cbn in Hl. contradiction.
  - exact (inplace_is_private s t sidx a f HI Hin l Hl).
  - exfalso. exact (H3 r Hin).
Qed.

(* storage produced by a Fresh right-hand side is reachable from nobody *)
Lemma fresh_is_unreachable s : Inv s -> (forall j, ~ reach (objs s j) (next s)) /\ ~ In (next s) (ext s).
Proof.
  intros (_ & _ & _ & Hlt & Hxlt). split.
  - intros j Hr. specialize (Hlt j _ Hr). lia.
  - intros Hx. specialize (Hxlt _ Hx). lia.
Qed.
End Class.

(* the form used by Props: the decidable check implies, for every step of every object *)
Theorem alias_check_sound_lemma (P : list atom) : alias_ok P = true ->
  forall s t sidx a st, Inv P s -> In st P -> sidx <> t -> a < next s -> (forall i, ~ writable P (objs s i) a) ->
    Inv P (fst (step s t sidx a st)) /\
    (forall l, In l (snd (step s t sidx a st)) -> (forall j, j <> t -> ~ reach (objs s j) l) /\ ~ In l (ext s)).
Proof.
  intros Hok. destruct (alias_ok_conditions P Hok) as (H1 & H1' & H2 & H3).
  intros s t sidx a st HI Hin Hne Ha Hanw. split.
  - exact (step_preserves_inv P H1 H1' H2 s t sidx a st HI Hin Hne Ha Hanw).
  - exact (writes_are_private P H3 s t sidx a st HI Hin).
Qed.

(* whole executions: any interleaving of checked statements by any objects *)
Inductive run (P : list atom) : state -> state -> Prop :=
| run_nil s : run P s s
| run_step s t sidx a st s' : In st P -> sidx <> t -> a < next s -> (forall i, ~ writable P (objs s i) a) ->
    run P (fst (step s t sidx a st)) s' -> run P s s'.

Theorem run_preserves_inv (P : list atom) : alias_ok P = true -> forall s s', run P s s' -> Inv P s -> Inv P s'.
Proof.
  intros Hok s s' Hr. induction Hr as [s|s t sidx a st s' Hin Hne Ha Hanw _ IH]; intros HI.
  - exact HI.
  - apply IH. exact (proj1 (alias_check_sound_lemma P Hok s t sidx a st HI Hin Hne Ha Hanw)).
Qed.

(* the initial pool (no object holds any storage) satisfies the invariant *)
Lemma inv_init (P : list atom) : Inv P {| objs := fun _ _ => []; ext := []; next := 0 |}.
Proof.
  unfold Inv; cbn. repeat split.
  - intros i j l _ (f & _ & []).
  - intros i l (f & _ & []).
  - intros i f l _ [].
  - intros i l (f & []).
  - intros l [].
Qed.

(* no offence left = the check passes *)
Lemma alias_offences_nil P : alias_offences P = [] -> alias_ok P = true.
Proof.
  unfold alias_offences, alias_ok. intros H. apply forallb_forall. intros a Ha.
  destruct (atom_ok P a) eqn:E; [reflexivity|].
  assert (Hin : In a (filter (fun a => negb (atom_ok P a)) P)) by (apply filter_In; split; [exact Ha|rewrite E; reflexivity]).
  rewrite H in Hin. contradiction.
Qed.

(* ========================================================================================== *)
(* 2. compute purity                                                                            *)
(* ========================================================================================== *)
(* a pure compute step writes no heap location and leaves every registered field bound as before *)
Theorem compute_pure_sound_lemma (R : list fld) (c : sk) : compute_pure R c = true ->
  forall st, In st (atoms c) -> forall s t sidx a,
    snd (step s t sidx a st) = [] /\ (forall f, In f R -> objs (fst (step s t sidx a st)) t f = objs s t f)
    /\ (forall j, j <> t -> objs (fst (step s t sidx a st)) j = objs s j).
Proof.
  unfold compute_pure. rewrite forallb_forall. intros H st Hin s t sidx a.
  specialize (H st Hin). destruct st as [f r|f r|f|r]; cbn in H; try discriminate.
  - cbn. split; [reflexivity|]. split.
    + intros g Hg. rewrite seto_same. apply setf_other. intros ->.
      apply negb_true_iff in H. unfold mem in H.
      assert (existsb (String.eqb f) R = true) by (apply existsb_exists; exists f; split; [exact Hg|apply String.eqb_refl]).
      congruence.
    + intros j Hj. apply seto_other. exact Hj.
  - cbn. split; [reflexivity|]. split.
    + intros g Hg. rewrite seto_same. apply setf_other. intros ->.
      apply negb_true_iff in H. unfold mem in H.
      assert (existsb (String.eqb f) R = true) by (apply existsb_exists; exists f; split; [exact Hg|apply String.eqb_refl]).
      congruence.
    + intros j Hj. apply seto_other. exact Hj.
Qed.

(* ========================================================================================== *)
(* 3. commit order                                                                              *)
(* ========================================================================================== *)
Lemma ex_sticky s : ex s true = true.
Proof.
  induction s; cbn; try reflexivity.
  - rewrite IHs1. exact IHs2.
  - rewrite IHs1. reflexivity.
  - rewrite !IHs. reflexivity.
Qed.
Lemma ex_false_entry s d : ex s d = false -> d = false.
Proof. destruct d; [rewrite ex_sticky; discriminate|reflexivity]. Qed.
Lemma ex_idem s d : ex s (ex s (ex s d)) = ex s (ex s d).
Proof.
  destruct (ex s d) eqn:E1; [rewrite !ex_sticky; reflexivity|].
  pose proof (ex_false_entry _ _ E1); subst d. rewrite !E1. reflexivity.
Qed.

Theorem commit_order_sound : forall s r n, exec s r n -> forall d, ok s d = true ->
  (r = true -> d = false /\ n = 0) /\ (n <> 0 -> ex s d = true).
Proof.
  induction 1; intros d Hok; cbn [ok ex] in *.
  - split; [discriminate|reflexivity].
  - split; [discriminate|intros H; congruence].
  - split; [intros _; destruct d; [discriminate|auto]|intros H; congruence].
  - split; [discriminate|intros H; congruence].
  - apply andb_true_iff in Hok as [Ha Hb]. destruct (IHexec d Ha) as [H1 H2]. split; [exact H1|].
    intros Hn. rewrite (H2 Hn). apply ex_sticky.
  - apply andb_true_iff in Hok as [Ha Hb].
    destruct (IHexec1 d Ha) as [_ A2]. destruct (IHexec2 (ex a d) Hb) as [B1 B2]. split.
    + intros Hr. destruct (B1 Hr) as [Hda ->]. pose proof (ex_false_entry _ _ Hda); subst d.
      split; [reflexivity|]. destruct (Nat.eq_dec n 0) as [->|Hn]; [reflexivity|]. rewrite (A2 Hn) in Hda. discriminate.
    + intros Hnm. destruct (Nat.eq_dec m 0) as [->|Hm]; [|exact (B2 Hm)].
      rewrite A2 by lia. apply ex_sticky.
  - apply andb_true_iff in Hok as [Ha Hb]. destruct (IHexec d Ha) as [H1 H2]. split; [exact H1|].
    intros Hn. rewrite (H2 Hn). reflexivity.
  - apply andb_true_iff in Hok as [Ha Hb]. destruct (IHexec d Hb) as [H1 H2]. split; [exact H1|].
    intros Hn. rewrite (H2 Hn). apply orb_true_r.
  - split; [discriminate|intros H; congruence].
  - apply andb_true_iff in Hok as [Ha Hb]. destruct (IHexec d Ha) as [H1 H2]. split; [exact H1|].
    intros Hn. rewrite (H2 Hn). rewrite orb_true_r. reflexivity.
  - apply andb_true_iff in Hok as [Ha Hb].
    destruct (IHexec1 d Ha) as [_ A2].
    assert (Hok' : ok (CLoop body) (ex body d) = true).
    { cbn [ok]. rewrite Hb. cbn.
      destruct (ex body d) eqn:E1; [rewrite ex_sticky; exact Hb|].
      pose proof (ex_false_entry _ _ E1); subst d. rewrite E1. exact Hb. }
    destruct (IHexec2 (ex body d) Hok') as [B1 B2]. cbn [ex] in B2. split.
    + intros Hr. destruct (B1 Hr) as [Hd ->]. pose proof (ex_false_entry _ _ Hd); subst d.
      split; [reflexivity|]. destruct (Nat.eq_dec n 0) as [->|Hn]; [reflexivity|]. rewrite (A2 Hn) in Hd. discriminate.
    + intros Hnm. destruct (Nat.eq_dec n 0) as [->|Hn].
      * assert (Hm : m <> 0) by lia. specialize (B2 Hm). rewrite ex_idem in B2.
        destruct (ex body (ex body d)); destruct (ex body d); cbn in *; try reflexivity; discriminate.
      * rewrite (A2 Hn). rewrite orb_true_r. reflexivity.
Qed.

(* the form used per class: a raising update has performed no state write *)
Theorem failed_update_writes_nothing (D : list string) (s : sk) n :
  commit_ok D s = true -> exec (erase D s) true n -> n = 0.
Proof.
  unfold commit_ok. intros Hok He.
  destruct (commit_order_sound _ true n He false Hok) as [H _]. destruct (H eq_refl). assumption.
Qed.

(* ========================================================================================== *)
(* 4. registration                                                                              *)
(* ========================================================================================== *)
Lemma mem_In x l : mem x l = true <-> In x l.
Proof.
  unfold mem. rewrite existsb_exists. split.
  - intros (y & Hy & E). apply String.eqb_eq in E. subst. exact Hy.
  - intros H. exists x. split; [exact H|apply String.eqb_refl].
Qed.

Lemma awrites_outside (ws : list (fld * nat)) : forall o g, ~ In g (map fst ws) -> awrites o ws g = o g.
Proof.
  induction ws as [|[f v] t IH]; intros o g Hg; cbn in *.
  - reflexivity.
  - rewrite IH by tauto. unfold awrite. destruct (String.eqb g f) eqn:E; [|reflexivity].
    apply String.eqb_eq in E. subst. tauto.
Qed.

(* If every attribute the methods write is registered, reset() after ANY sequence of writes gives
   back the fresh object on every attribute, and loading a state_dict into a fresh object gives the
   saved object on every attribute. *)
Theorem registry_reset_restores (R W : list fld) : registry_ok R [] W = true ->
  forall (fresh : aobj) (ws : list (fld * nat)), (forall f, In f (map fst ws) -> In f W) ->
    forall g, areset R fresh (awrites fresh ws) g = fresh g.
Proof.
  unfold registry_ok. rewrite forallb_forall. intros H fresh ws Hw g. unfold areset.
  destruct (mem g R) eqn:E; [reflexivity|].
  apply awrites_outside. intros Hg. specialize (H g (Hw g Hg)). rewrite app_nil_r in H. congruence.
Qed.

Theorem registry_load_restores (R W : list fld) : registry_ok R [] W = true ->
  forall (fresh : aobj) (ws : list (fld * nat)), (forall f, In f (map fst ws) -> In f W) ->
    forall g, aload R (awrites fresh ws) fresh g = awrites fresh ws g.
Proof.
  unfold registry_ok. rewrite forallb_forall. intros H fresh ws Hw g. unfold aload.
  destruct (mem g R) eqn:E; [reflexivity|].
  symmetry. apply awrites_outside. intros Hg. specialize (H g (Hw g Hg)). rewrite app_nil_r in H. congruence.
Qed.

(* conversely an unregistered written attribute survives reset (the window-cursor defect) *)
Theorem unregistered_survives_reset (R : list fld) (f : fld) : mem f R = false ->
  forall (fresh : aobj) v, areset R fresh (awrite fresh f v) f = v.
Proof. intros H fresh v. unfold areset, awrite. rewrite H. rewrite String.eqb_refl. reflexivity. Qed.
