(* merge_state of the windowed classes (documented deviation of C01): immediately after the merge
   the windowed value is the non-windowed compute over the UNION of the shards' current windows,
   the lifetime value over everything all shards saw.  Also: what is NOT true after a merge. *)
From Coq Require Import ZArith List Bool QArith Qcanon String Arith Lia Permutation.
From TE Require Import Base.Val Base.Xq Algebra.Metric Algebra.Pool Models.Curves Models.Window Models.WindowAUROC
  Proofs.CurvesP Proofs.WindowP.
Import ListNotations.
Open Scope list_scope.
Open Scope nat_scope.

(* further laws of the statistic's addition needed to add up lifetime sums of several shards *)
Record WinLawsM (W : WinSpec) (L : WinLaws W) := {
  Req_sym : forall x y, Req L x y -> Req L y x;
  wadd_assoc : forall a b x, Req L (wadd W (wadd W a b) x) (wadd W a (wadd W b x));
  wadd_cong_l : forall a b x, Req L a b -> Req L (wadd W a x) (wadd W b x) }.

Section MergeProofs.
Variable W : WinSpec.
Variable L : WinLaws W.
Variable LM : WinLawsM W L.
Variable c : wcfg.
Notation N := (cN c).
Notation col := (list (wS W)).
Notation R := (Req L).
Notation shard := (fun us => fold_left (wupd W c) us (winit W c)).
Notation hist := (fun us => map (wstat W c) us).

Lemma shard_inv us : 0 < N -> Inv W c (hist us) (shard us) /\ LifeInv W c (hist us) (shard us).
Proof. intros HN. exact (inv_fold W c us [] (winit W c) HN (inv_init W c HN) (life_init W c)). Qed.

(* the slots a shard contributes to a merge are a permutation of its last N statistics *)
Lemma filled_perm h s : 0 < N -> Inv W c h s ->
  Permutation (wfilled W s) (lastn N h) /\ List.length (wfilled W s) <= w_tot s /\ w_max s = N.
Proof.
  intros HN [Hmax (older & prev & cur & Hh & Hc & HcN & Ht & Hb)]. unfold wfilled.
  split; [|split; [|exact Hmax]].
  2:{ rewrite firstn_length. lia. }
  rewrite Hmax, Ht. unfold lastn.
  destruct Hb as [[Hp Hb]|(-> & -> & Hb)].
  - assert (Hge : N <= List.length h) by (rewrite Hh, !app_length; lia).
    rewrite Nat.min_r by exact Hge.
    assert (Hlast : skipn (List.length h - N) h = skipn (List.length cur) prev ++ cur).
    { rewrite Hh, !app_length.
      replace (List.length older + (List.length prev + List.length cur) - N) with (List.length older + List.length cur) by lia.
      rewrite skipn_app. rewrite (skipn_all2 (n := List.length older + List.length cur) older) by lia. cbn [app].
      replace (List.length older + List.length cur - List.length older) with (List.length cur) by lia.
      rewrite skipn_app. replace (List.length cur - List.length prev) with 0 by lia. reflexivity. }
    rewrite Hlast, Hb. rewrite firstn_all2 by (rewrite app_length, skipn_length; lia).
    apply Permutation_app_comm.
  - cbn [app] in Hh. subst h. rewrite Nat.min_l by lia. rewrite Hb.
    rewrite firstn_app, firstn_all, Nat.sub_diag. cbn [firstn]. rewrite app_nil_r.
    replace (List.length cur - N) with 0 by lia. apply Permutation_refl.
Qed.

Lemma parts_perm (hs : list (list col)) (ms : list (wst (wS W))) : 0 < N -> Forall2 (Inv W c) hs ms ->
  Permutation (flat_map (wfilled W) ms) (flat_map (lastn N) hs).
Proof.
  intros HN H. induction H as [|h s hs ms Hi _ IH]; cbn [flat_map]; [apply Permutation_refl|].
  apply Permutation_app; [apply (filled_perm h s HN Hi)|exact IH].
Qed.
Lemma parts_len (hs : list (list col)) (ms : list (wst (wS W))) : 0 < N -> Forall2 (Inv W c) hs ms ->
  forall k a, k <= a -> k + List.length (flat_map (wfilled W) ms) <= fold_left (fun a m => a + w_tot m) ms a.
Proof.
  intros HN H. induction H as [|h s hs ms Hi _ IH]; intros k a Hk; cbn [flat_map fold_left]; [cbn; lia|].
  rewrite app_length, Nat.add_assoc. apply IH. destruct (filled_perm h s HN Hi) as (_ & Hl & _). lia.
Qed.

Lemma colsum_app t (A B : list col) : R (colsum W t (A ++ B)) (wadd W (colsum W t A) (colsum W t B)).
Proof.
  induction A as [|x A IH]; cbn [app].
  - apply (Req_sym W L LM), wadd_z.
  - rewrite !colsum_cons. eapply Req_trans; [apply wadd_cong, IH|]. apply (Req_sym W L LM), (wadd_assoc W L LM).
Qed.

(* the windowed part *)
Lemma merged_read h0 s0 hs ms t : 0 < N -> Inv W c h0 s0 -> Forall2 (Inv W c) hs ms ->
  R (colsum W t (wread W (wmrg W c s0 ms))) (colsum W t (flat_map (lastn N) (h0 :: hs))).
Proof.
  intros HN H0 Hs. cbn [flat_map].
  destruct (filled_perm h0 s0 HN H0) as (P0 & L0 & M0).
  set (parts := wfilled W s0 ++ flat_map (wfilled W) ms).
  assert (HP : Permutation parts (lastn N h0 ++ flat_map (lastn N) hs))
    by (apply Permutation_app; [exact P0|apply parts_perm; assumption]).
  assert (Hlen : List.length parts <= fold_left (fun a m => a + w_tot m) ms (w_tot s0)).
  { unfold parts. rewrite app_length. apply (parts_len hs ms HN Hs). exact L0. }
  assert (Hz : forall x n, In x (repeat (zcol W c) n) -> x = zcol W c) by (intros x n Hx; apply repeat_spec in Hx; exact Hx).
  assert (Hwhole : R (colsum W t (w_buf (wmrg W c s0 ms))) (colsum W t (lastn N h0 ++ flat_map (lastn N) hs))).
  { cbn [wmrg w_buf]. fold parts. eapply Req_trans; [apply (colsum_app_zeros W L c t parts); intros x Hx; eapply Hz; exact Hx|].
    apply colsum_perm, HP. }
  unfold wread. destruct (wwhole W); [exact Hwhole|].
  cbn [wmrg w_max w_tot]. rewrite M0.
  destruct (Nat.leb_spec N (fold_left (fun a m => a + w_tot m) ms (w_tot s0))) as [Hge|Hlt].
  - exact Hwhole.
  - unfold wmrg. cbn [w_cur w_buf]. fold parts. rewrite M0, Nat.mod_small by lia.
    rewrite firstn_app, firstn_all, Nat.sub_diag. cbn [firstn]. rewrite app_nil_r. apply colsum_perm, HP.
Qed.

(* the lifetime part *)
Lemma ladd_maps (g g' : nat -> wS W) :
  ladd W c (map g (tasks c)) (map g' (tasks c)) = map (fun t => wadd W (g' t) (g t)) (tasks c).
Proof.
  unfold ladd. apply map_ext_in. intros t Ht. apply in_seq in Ht. unfold tasks. rewrite !nth_map_seq by lia. reflexivity.
Qed.
Lemma merged_life hs ms : Forall2 (fun h s => LifeInv W c h s) hs ms -> cLife c = true ->
  forall (G : nat -> wS W) (H : list col), (forall t, R (G t) (colsum W t H)) ->
  exists G', fold_left (fun l m => ladd W c l (w_life m)) ms (map G (tasks c)) = map G' (tasks c) /\
             forall t, R (G' t) (colsum W t (H ++ List.concat hs)).
Proof.
  intros Hs Hc. induction Hs as [|h s hs ms Hl _ IH]; intros G H HG; cbn [fold_left List.concat].
  - exists G. split; [reflexivity|]. intros t. rewrite app_nil_r. apply HG.
  - rewrite (Hl Hc), ladd_maps.
    destruct (IH (fun t => wadd W (colsum W t (rev h)) (G t)) (H ++ h)) as (G' & E & HG').
    { intros t. eapply Req_trans; [apply wadd_cong, HG|].
      eapply Req_trans; [apply (Req_sym W L LM), colsum_app|].
      apply colsum_perm. eapply Permutation_trans; [apply Permutation_app_comm|].
      apply Permutation_app_head, Permutation_sym, Permutation_rev. }
    exists G'. split; [exact E|]. intros t. rewrite app_assoc. apply HG'.
Qed.

(* C01 item 5, update-granular classes: the merge of shards that were built by update() calls *)
Theorem ring_merge_pools (us0 : list wbatch) (uss : list (list wbatch)) : 0 < N ->
  let m := wmrg W c (shard us0) (map shard uss) in
  let hs := map hist (us0 :: uss) in
  exists lw ll,
    wcmp W c m = (if Nat.eqb (w_tot m) 0 then WEmpty
                  else WOut (if cLife c then Some (wgam W c ll) else None) (wgam W c lw)) /\
    Forall2 R lw (tsum W c (flat_map (lastn N) hs)) /\
    (cLife c = true -> Forall2 R ll (tsum W c (List.concat hs))).
Proof.
  intros HN.
  assert (Hs : Forall2 (Inv W c) (map hist uss) (map shard uss)).
  { clear - HN. induction uss as [|u r IH]; cbn [map]; [constructor|constructor; [apply (shard_inv u HN)|exact IH]]. }
  assert (Hls : Forall2 (fun h s => LifeInv W c h s) (map hist uss) (map shard uss)).
  { clear - HN. induction uss as [|u r IH]; cbn [map]; [constructor|constructor; [apply (shard_inv u HN)|exact IH]]. }
  destruct (shard_inv us0 HN) as [H0 Hl0]. intros m hs.
  exists (tsum W c (wread W m)), (w_life m). split; [|split].
  - unfold wcmp. destruct (Nat.eqb (w_tot m) 0); reflexivity.
  - apply tsum_R. intros t. apply (merged_read (hist us0) (shard us0) (map hist uss) (map shard uss) t HN H0 Hs).
  - intros Hc. unfold m. cbn [wmrg w_life]. rewrite Hc, (Hl0 Hc).
    destruct (merged_life (map hist uss) (map shard uss) Hls Hc (fun t => colsum W t (rev (hist us0))) (hist us0)) as (G' & E & HG').
    { intros t. apply colsum_perm, Permutation_sym, Permutation_rev. }
    rewrite E. unfold tsum. apply Forall2_map_same. intros t _. apply HG'.
Qed.

(* when the statistic's equivalence is plain equality: the clean statement *)
Hypothesis R_eq : forall x y, R x y -> x = y.
Theorem ring_merge_pools_eq (us0 : list wbatch) (uss : list (list wbatch)) : 0 < N ->
  let m := wmrg W c (shard us0) (map shard uss) in
  let hs := map hist (us0 :: uss) in
  wcmp W c m = (if Nat.eqb (w_tot m) 0 then WEmpty
                else WOut (if cLife c then Some (wgam W c (tsum W c (List.concat hs))) else None)
                          (wgam W c (tsum W c (flat_map (lastn N) hs)))).
Proof.
  intros HN m hs. destruct (ring_merge_pools us0 uss HN) as (lw & ll & Hc & Hw & Hl).
  fold m hs in Hc, Hw, Hl. rewrite Hc. destruct (Nat.eqb (w_tot m) 0); [reflexivity|].
  rewrite (Forall2_eq _ _ _ R_eq Hw). destruct (cLife c); [|reflexivity].
  rewrite (Forall2_eq _ _ _ R_eq (Hl eq_refl)). reflexivity.
Qed.
End MergeProofs.

(* ---- the extra laws for the four statistics ---- *)
Open Scope Qc_scope.
Lemma q2add_assoc a b x : q2add (q2add a b) x = q2add a (q2add b x).
Proof. unfold q2add. cbn [fst snd]. f_equal; ring. Qed.
Definition ctr_lawsM : WinLawsM ctr_spec ctr_laws.
Proof. refine (Build_WinLawsM ctr_spec ctr_laws _ _ _); cbn; [intros; congruence|exact q2add_assoc|intros; congruence]. Defined.
Definition wcal_lawsM : WinLawsM wcal_spec wcal_laws.
Proof. refine (Build_WinLawsM wcal_spec wcal_laws _ _ _); cbn; [intros; congruence|exact q2add_assoc|intros; congruence]. Defined.
Definition mse_lawsM : WinLawsM mse_spec mse_laws.
Proof. refine (Build_WinLawsM mse_spec mse_laws _ _ _); cbn; [intros; congruence|exact q2add_assoc|intros; congruence]. Defined.
Definition ne_lawsM : WinLawsM ne_spec ne_laws.
Proof.
  refine (Build_WinLawsM ne_spec ne_laws _ _ _); unfold ne_equiv; cbn.
  - intros x y (H1 & H2 & H3). unfold ne_equiv. repeat split; [apply Permutation_sym; exact H1|congruence|congruence].
  - intros a b x. unfold ne_equiv, ne3add; cbn [ne_ent ne_n ne_pos]. repeat split; [rewrite <- app_assoc; apply Permutation_refl|ring|ring].
  - intros a b x (H1 & H2 & H3). unfold ne_equiv, ne3add; cbn [ne_ent ne_n ne_pos]. repeat split; [apply Permutation_app_tail; exact H1|congruence|congruence].
Defined.
Close Scope Qc_scope.

(* ---- what does NOT hold after a merge (the four update-granular classes keep max_num_updates) ---- *)
Definition ctr1 (x : Z) : wbatch := {| b_x := [[mkq x 1]]; b_y := []; b_w := [[mkq 1 1]] |}.
Definition mcfg2 : wcfg := {| cT := 1; cN := 2; cLife := false; cOpt := false |}.
Definition sh2 (us : list wbatch) := fold_left (wupd ctr_spec mcfg2) us (winit ctr_spec mcfg2).
(* (a) a merged object used as a SOURCE of a further merge contributes only its first
   min(total, max_num_updates) slots: shards A = [1],[1] and B = [0],[0];
   fresh.merge([A.merge([B])]) reports 1, fresh.merge([A, B]) reports 1/2 *)
Definition shown (o : wout (list Qc)) : val := enc_wout vlistQ mcfg2 o.     (* plain numerators / denominators *)
Lemma merge_nested_witness :
  shown (wcmp ctr_spec mcfg2 (wmrg ctr_spec mcfg2 (sh2 []) [wmrg ctr_spec mcfg2 (sh2 [ctr1 1; ctr1 1]) [sh2 [ctr1 0; ctr1 0]]]))
    = VL [VQ 1 1] /\
  shown (wcmp ctr_spec mcfg2 (wmrg ctr_spec mcfg2 (sh2 []) [sh2 [ctr1 1; ctr1 1]; sh2 [ctr1 0; ctr1 0]]))
    = VL [VQ 1 2].
Proof. split; vm_compute; reflexivity. Qed.
(* (b) updates after a merge: the cursor wraps modulo the OLD max_num_updates while compute() sums the
   whole pooled buffer, so the slots taken over from the sources are never overwritten.
   A = [1],[1], B = [1],[1]; A.merge([B]); then FOUR updates [0] (the size of the pooled buffer):
   compute() = 1/2 although the last four updates are all 0 -- and it stays 1/2 after 40 more. *)
Definition merged_then (k : nat) :=
  fold_left (wupd ctr_spec mcfg2) (repeat (ctr1 0) k) (wmrg ctr_spec mcfg2 (sh2 [ctr1 1; ctr1 1]) [sh2 [ctr1 1; ctr1 1]]).
Lemma merge_then_update_witness :
  shown (wcmp ctr_spec mcfg2 (merged_then 4)) = VL [VQ 1 2] /\
  shown (wcmp ctr_spec mcfg2 (merged_then 44)) = VL [VQ 1 2] /\
  vlistQ (win_ref ctr_spec mcfg2 (repeat (ctr1 0) 4)) = VL [VQ 0 1].
Proof. repeat split; vm_compute; reflexivity. Qed.

(* ------------------------------------------------------------------------------------- *)
(* WindowedBinaryAUROC.merge_state (enlarges max_num_samples)                              *)
(* ------------------------------------------------------------------------------------- *)
Section AurocMerge.
Variable c : acfg.
Notation N := (aN c).
Notation ashard := (fun bs => fold_left (aupd c) bs (ainit c)).

Lemma ashard_inv bs : 0 < N -> AInv c (List.concat bs) (ashard bs).
Proof. intros HN. exact (ainv_fold c bs [] (ainit c) HN (ainv_init c HN)). Qed.

Lemma afilled_perm h s : 0 < N -> AInv c h s ->
  Permutation (afilled s) (lastn N h) /\ List.length (afilled s) <= a_max s /\ a_max s = N.
Proof.
  intros HN [Hmax (older & prev & cur & Hh & Hc & HcN & Ht & Hb)]. unfold afilled.
  split; [|split; [|exact Hmax]].
  2:{ rewrite firstn_length. lia. }
  rewrite Hmax, Ht. unfold lastn.
  destruct Hb as [[Hp Hb]|(-> & -> & Hb)].
  - assert (Hge : N <= List.length h) by (rewrite Hh, !app_length; lia).
    rewrite Nat.min_r by exact Hge.
    assert (Hlast : skipn (List.length h - N) h = skipn (List.length cur) prev ++ cur).
    { rewrite Hh, !app_length.
      replace (List.length older + (List.length prev + List.length cur) - N) with (List.length older + List.length cur) by lia.
      rewrite skipn_app. rewrite (skipn_all2 (n := List.length older + List.length cur) older) by lia. cbn [app].
      replace (List.length older + List.length cur - List.length older) with (List.length cur) by lia.
      rewrite skipn_app. replace (List.length cur - List.length prev) with 0 by lia. reflexivity. }
    rewrite Hlast, Hb. rewrite firstn_all2 by (rewrite app_length, skipn_length; lia).
    apply Permutation_app_comm.
  - cbn [app] in Hh. subst h. rewrite Nat.min_l by lia. rewrite Hb.
    rewrite firstn_app, firstn_all, Nat.sub_diag. cbn [firstn]. rewrite app_nil_r.
    replace (List.length cur - N) with 0 by lia. apply Permutation_refl.
Qed.
Lemma aparts_perm hs ms : 0 < N -> Forall2 (AInv c) hs ms ->
  Permutation (flat_map afilled ms) (flat_map (lastn N) hs).
Proof.
  intros HN H. induction H as [|h s hs ms Hi _ IH]; cbn [flat_map]; [apply Permutation_refl|].
  apply Permutation_app; [apply (afilled_perm h s HN Hi)|exact IH].
Qed.
Lemma aparts_len hs ms : 0 < N -> Forall2 (AInv c) hs ms ->
  forall k a, k <= a -> k + List.length (flat_map afilled ms) <= fold_left (fun a m => a + a_max m) ms a.
Proof.
  intros HN H. induction H as [|h s hs ms Hi _ IH]; intros k a Hk; cbn [flat_map fold_left]; [cbn; lia|].
  rewrite app_length, Nat.add_assoc. apply IH. destruct (afilled_perm h s HN Hi) as (_ & Hl & _). lia.
Qed.
Lemma fold_ge {X} (f : X -> nat) : forall l a, a <= fold_left (fun a m => a + f m) l a.
Proof. induction l as [|x l IH]; intros a; cbn [fold_left]; [lia|]. specialize (IH (a + f x)). lia. Qed.

Lemma zero_scores_repeat n : zero_scores (repeat (azcol c) n) = true.
Proof.
  unfold zero_scores. apply forallb_forall. intros x Hx. apply repeat_spec in Hx. subst x.
  unfold azcol. apply forallb_forall. intros sm Hsm. apply repeat_spec in Hsm. subst sm. reflexivity.
Qed.

(* buffer level: the merged buffers are the shards' windows, one after the other, then zeros;
   compute() level: with no zero score it reads exactly (a permutation of) that union *)
Theorem auroc_merge_reads_union h0 s0 hs ms : 0 < N -> AInv c h0 s0 -> Forall2 (AInv c) hs ms ->
  let m := amrg c s0 ms in
  let union := flat_map (lastn N) (h0 :: hs) in
  (exists parts, a_buf m = parts ++ repeat (azcol c) (a_max m - List.length parts) /\ Permutation parts union) /\ (Forall (fun cl => nonzero_col cl = true) union -> Permutation (aread m) union).
Proof.
  intros HN H0 Hs m union. unfold union. cbn [flat_map].
  destruct (afilled_perm h0 s0 HN H0) as (P0 & L0 & M0).
  set (parts := afilled s0 ++ flat_map afilled ms).
  set (newlen := fold_left (fun a m => a + a_max m) ms (a_max s0)).
  assert (HP : Permutation parts (lastn N h0 ++ flat_map (lastn N) hs))
    by (apply Permutation_app; [exact P0|apply aparts_perm; assumption]).
  assert (Hlen : List.length parts <= newlen).
  { unfold parts, newlen. rewrite app_length. apply (aparts_len hs ms HN Hs). exact L0. }
  assert (Hnl : 0 < newlen) by (pose proof (fold_ge a_max ms (a_max s0)); unfold newlen; lia).
  split; [exists parts; split; [reflexivity|exact HP]|].
  intros Hnz. unfold aread, m, amrg. cbn [a_cur a_buf]. fold parts newlen.
  destruct (Nat.eq_dec (List.length parts) newlen) as [Hfull|Hnot].
  - rewrite Hfull, Nat.mod_same, Nat.sub_diag by lia. cbn [repeat skipn firstn]. rewrite app_nil_r.
    assert (Hz : zero_scores parts = false).
    { destruct parts as [|x r] eqn:E; [cbn in Hfull; lia|].
      apply (zero_scores_false_in _ x); [left; reflexivity|].
      rewrite Forall_forall in Hnz. apply Hnz. eapply Permutation_in; [exact HP|left; reflexivity]. }
    rewrite Hz. exact HP.
  - rewrite Nat.mod_small by lia.
    rewrite skipn_app, skipn_all, Nat.sub_diag. cbn [app skipn]. rewrite zero_scores_repeat.
    rewrite firstn_app, firstn_all, Nat.sub_diag. cbn [firstn]. rewrite app_nil_r. exact HP.
Qed.

(* C01 item 5 for the AUROC window: shards built by update() calls; no zero score; >= 2 samples *)
Theorem auroc_merge_pools (bs0 : list (list col)) (bss : list (list (list col))) : 0 < N ->
  let union := flat_map (lastn N) (map (@List.concat col) (bs0 :: bss)) in
  Forall (fun cl => nonzero_col cl = true) union -> 2 <= List.length union ->
  acmp c (amrg c (ashard bs0) (map ashard bss)) = auroc_ref c union.
Proof.
  intros HN union Hnz Hlen.
  assert (Hs : Forall2 (AInv c) (map (@List.concat col) bss) (map ashard bss)).
  { clear - HN. induction bss as [|b r IH]; cbn [map]; [constructor|constructor; [apply (ashard_inv b HN)|exact IH]]. }
  apply acmp_of_perm; [|exact Hlen].
  exact (proj2 (auroc_merge_reads_union _ _ _ _ HN (ashard_inv bs0 HN) Hs) Hnz).
Qed.
End AurocMerge.
