(* C17 for the curve ALGORITHMS: the invariances of the specifications (MetamorphicP) transported
   through algo = spec; weight scaling and whole-data-set duplication. *)
From Coq Require Import ZArith List Bool QArith Qcanon Lia Sorted Permutation.
From TE Require Import Base.Val Base.Nd Base.Xq Models.Curves Proofs.CurvesP Proofs.CurvesPR Proofs.CurvesMC Proofs.MetamorphicP.
Import ListNotations.
Open Scope Qc_scope.
Open Scope list_scope.

(* ---- strictly increasing maps of the scores ---- *)
Lemma wpos_remap f l : wpos l -> wpos (map (remap f) l).
Proof. unfold wpos. intros H. apply Forall_forall. intros x Hx. apply in_map_iff in Hx as (y & <- & Hy). rewrite Forall_forall in H. exact (H y Hy). Qed.

Theorem auroc_row_monotone f : strictly_increasing f -> forall l, auroc_row (map (remap f) l) = auroc_row l.
Proof. intros Hf l. rewrite !auroc_row_spec. apply auroc_spec_monotone, Hf. Qed.
Theorem auroc_row_sorted_monotone f : strictly_increasing f -> forall l l1 l2,
  Permutation (map (remap f) l) l1 -> desc l1 -> Permutation l l2 -> desc l2 ->
  auroc_row_sorted l1 = auroc_row_sorted l2.
Proof.
  intros Hf l l1 l2 P1 D1 P2 D2. rewrite (auroc_row_pairwise _ _ P1 D1), (auroc_row_pairwise _ _ P2 D2).
  apply auroc_spec_monotone, Hf.
Qed.

Lemma nth_map_valid {A B} (g : A -> B) (l : list A) i d d' : (i < List.length l)%nat -> nth i (map g l) d' = g (nth i l d).
Proof. intros H. rewrite (nth_indep _ d' (g d)) by (rewrite map_length; exact H). apply map_nth. Qed.
Lemma task_rows_remap f nt cols : bvalid (1%positive, nt) cols = true ->
  task_rows nt (map (map (remap f)) cols) = map (map (remap f)) (task_rows nt cols).
Proof.
  intros Hv. unfold task_rows. rewrite map_map. apply map_ext_in. intros i Hi. apply in_seq in Hi.
  rewrite !map_map. apply map_ext_in. intros col Hc.
  unfold bvalid in Hv. rewrite forallb_forall in Hv. specialize (Hv col Hc). cbn [snd] in Hv. apply Nat.eqb_eq in Hv.
  apply nth_map_valid. lia.
Qed.
Theorem bauroc_algo_monotone f : strictly_increasing f -> forall nt cols, bvalid (1%positive, nt) cols = true ->
  bauroc_algo nt (map (map (remap f)) cols) = bauroc_algo nt cols.
Proof.
  intros Hf nt cols Hv. rewrite !bauroc_algo_spec. destruct cols as [|c0 cols]; [reflexivity|].
  unfold bauroc_spec. cbn [map]. change (map (remap f) c0 :: map (map (remap f)) cols) with (map (map (remap f)) (c0 :: cols)).
  rewrite (task_rows_remap f nt _ Hv), map_map.
  rewrite (map_ext (fun r => auroc_spec (map (remap f) r)) auroc_spec (auroc_spec_monotone f Hf)). reflexivity.
Qed.

Definition mc_remap (f : Z -> Z) (s : mcsample) : mcsample := (map f (fst s), snd s).
Lemma ovr_rows_remap f C l : forallb (fun s => Nat.eqb (List.length (fst s)) C) l = true ->
  ovr_rows C (map (mc_remap f) l) = map (map (remap f)) (ovr_rows C l).
Proof.
  intros Hv. unfold ovr_rows. rewrite map_map. apply map_ext_in. intros c Hc. apply in_seq in Hc.
  rewrite !map_map. apply map_ext_in. intros s Hs. rewrite forallb_forall in Hv. specialize (Hv s Hs). apply Nat.eqb_eq in Hv.
  unfold mc_remap, remap. cbn [fst snd sc]. f_equal. apply nth_map_valid. lia.
Qed.
Theorem mcauroc_algo_monotone f : strictly_increasing f -> forall C macro l,
  forallb (fun s => Nat.eqb (List.length (fst s)) C) l = true ->
  mcauroc_algo C macro (map (mc_remap f) l) = mcauroc_algo C macro l.
Proof.
  intros Hf C macro l Hv. rewrite !mcauroc_algo_spec. destruct l as [|s0 l]; [reflexivity|].
  unfold mcauroc_spec. cbn [map]. change (mc_remap f s0 :: map (mc_remap f) l) with (map (mc_remap f) (s0 :: l)).
  rewrite (ovr_rows_remap f C _ Hv), map_map.
  rewrite (map_ext (fun r => auroc_spec (map (remap f) r)) auroc_spec (auroc_spec_monotone f Hf)). reflexivity.
Qed.

Lemma auprc_spec_monotone f : strictly_increasing f -> forall l, auprc_spec (map (remap f) l) = auprc_spec l.
Proof. intros Hf l. unfold auprc_spec. rewrite (prc_spec_monotone f Hf). reflexivity. Qed.
Theorem auprc_row_monotone f : strictly_increasing f -> forall l, wpos l -> auprc_row (map (remap f) l) = auprc_row l.
Proof. intros Hf l Hw. rewrite (auprc_row_spec _ (wpos_remap f l Hw)), (auprc_row_spec l Hw), (auprc_spec_monotone f Hf). reflexivity. Qed.
Lemma rap_spec_monotone f : strictly_increasing f -> forall minp l, rap_spec minp (map (remap f) l) = rap_spec minp l.
Proof. intros Hf minp l. unfold rap_spec. rewrite (prc_spec_monotone f Hf). reflexivity. Qed.
Theorem rap_row_value_monotone f : strictly_increasing f -> forall den den' minp l, wpos l -> minp <= 1 ->
  fst (rap_row den minp (map (remap f) l)) = fst (rap_row den' minp l).
Proof.
  intros Hf den den' minp l Hw Hm. rewrite (rap_row_spec den minp _ (wpos_remap f l Hw) Hm), (rap_row_spec den' minp l Hw Hm).
  cbn [fst]. rewrite (rap_spec_monotone f Hf). reflexivity.
Qed.
(* the whole curve: precision and recall unchanged, thresholds mapped *)
Theorem prc_row_monotone f : strictly_increasing f -> forall l, wpos l ->
  prc_row (map (remap f) l) = (fst (fst (prc_row l)), snd (fst (prc_row l)), map f (snd (prc_row l))).
Proof.
  intros Hf l Hw. rewrite (prc_row_spec _ (wpos_remap f l Hw)), (prc_row_spec l Hw), (prc_spec_monotone f Hf). reflexivity.
Qed.

(* ---- all weights multiplied by c <> 0 (in particular c > 0) ---- *)
Definition scale_w (c : Qc) (x : sample) : sample := (sc x, (lab x, c * wt x)).
Lemma pw_scale c x : pw (scale_w c x) = c * pw x.
Proof. unfold pw, scale_w, lab, wt. cbn [fst snd]. destruct (fst (snd x)); ring. Qed.
Lemma nw_scale c x : nw (scale_w c x) = c * nw x.
Proof. unfold nw, scale_w, lab, wt. cbn [fst snd]. destruct (fst (snd x)); ring. Qed.
Lemma pair_kern_scale c a b : pair_kern (scale_w c a) (scale_w c b) = c * c * pair_kern a b.
Proof. unfold pair_kern. rewrite pw_scale, nw_scale. change (sc (scale_w c a)) with (sc a). change (sc (scale_w c b)) with (sc b). ring. Qed.
Lemma sumf_map {A B} (g : B -> Qc) (h : A -> B) l : sumf g (map h l) = sumf (fun x => g (h x)) l.
Proof. unfold sumf. rewrite map_map. reflexivity. Qed.
Theorem auroc_spec_weight_scale c : c <> 0 -> forall l, auroc_spec (map (scale_w c) l) = auroc_spec l.
Proof.
  intros Hc l. unfold auroc_spec.
  assert (HP : sumq (map pw (map (scale_w c) l)) = c * sumq (map pw l)).
  { change (sumf pw (map (scale_w c) l) = c * sumf pw l). rewrite sumf_map, <- sumf_scale. apply sumf_ext_in. intros; apply pw_scale. }
  assert (HN : sumq (map nw (map (scale_w c) l)) = c * sumq (map nw l)).
  { change (sumf nw (map (scale_w c) l) = c * sumf nw l). rewrite sumf_map, <- sumf_scale. apply sumf_ext_in. intros; apply nw_scale. }
  assert (HS : pair_sum (map (scale_w c) l) = c * c * pair_sum l).
  { unfold pair_sum. change (sumf (fun a => sumf (pair_kern a) (map (scale_w c) l)) (map (scale_w c) l) = c * c * sumf (fun a => sumf (pair_kern a) l) l).
    rewrite sumf_map, <- sumf_scale. apply sumf_ext_in. intros a _. rewrite sumf_map, <- sumf_scale. apply sumf_ext_in. intros b _. apply pair_kern_scale. }
  rewrite HP, HN, HS. set (P := sumq (map pw l)). set (N := sumq (map nw l)).
  destruct (Qc_eq_dec (P * N) 0) as [E|E].
  - destruct (Qc_eq_dec (c * P * (c * N)) 0) as [_|X]; [reflexivity|]. exfalso. apply X.
    replace (c * P * (c * N)) with (c * c * (P * N)) by ring. rewrite E. ring.
  - destruct (Qc_eq_dec (c * P * (c * N)) 0) as [X|_].
    + exfalso. replace (c * P * (c * N)) with (c * c * (P * N)) in X by ring.
      apply Qcmult_integral in X as [X|X]; [|contradiction]. apply Qcmult_integral in X as [X|X]; contradiction.
    + field. repeat split; try assumption; intros X; apply E; rewrite X; ring.
Qed.
Theorem auroc_row_weight_scale c : c <> 0 -> forall l, auroc_row (map (scale_w c) l) = auroc_row l.
Proof. intros Hc l. rewrite !auroc_row_spec. apply auroc_spec_weight_scale, Hc. Qed.

(* ---- the whole data set duplicated ---- *)
Lemma sumf_app {A} (g : A -> Qc) l1 l2 : sumf g (l1 ++ l2) = sumf g l1 + sumf g l2.
Proof. induction l1 as [|x l1 IH]; [rewrite sumf_nil; cbn [app]; ring|]. cbn [app]. rewrite !sumf_cons, IH. ring. Qed.
Theorem auroc_spec_duplicate l : auroc_spec (l ++ l) = auroc_spec l.
Proof.
  unfold auroc_spec.
  change (sumq (map pw (l ++ l))) with (sumf pw (l ++ l)). change (sumq (map nw (l ++ l))) with (sumf nw (l ++ l)).
  change (sumq (map pw l)) with (sumf pw l). change (sumq (map nw l)) with (sumf nw l).
  assert (HS : pair_sum (l ++ l) = two * two * pair_sum l).
  { unfold pair_sum. change (sumf (fun a => sumf (pair_kern a) (l ++ l)) (l ++ l) = two * two * sumf (fun a => sumf (pair_kern a) l) l).
    rewrite (sumf_ext_in _ (fun a => two * sumf (pair_kern a) l)) by (intros a _; rewrite sumf_app; unfold two; ring).
    rewrite sumf_scale, sumf_app. unfold two. ring. }
  rewrite !sumf_app, HS. set (P := sumf pw l). set (N := sumf nw l).
  assert (H4 : (P + P) * (N + N) = two * two * (P * N)) by (unfold two; ring).
  rewrite H4. destruct (Qc_eq_dec (P * N) 0) as [E|E].
  - rewrite E. destruct (Qc_eq_dec (two * two * 0) 0) as [_|X]; [reflexivity|exfalso; apply X; ring].
  - destruct (Qc_eq_dec (two * two * (P * N)) 0) as [X|_].
    + exfalso. apply Qcmult_integral in X as [X|X]; [|contradiction]. apply Qcmult_integral in X as [X|X]; exact (CurvesP.two_neq0 X).
    + field; repeat split; try (exact CurvesP.two_neq0); try (intros X; apply E; rewrite X; ring).
Qed.
Theorem auroc_row_duplicate l : auroc_row (l ++ l) = auroc_row l.
Proof. rewrite !auroc_row_spec. apply auroc_spec_duplicate. Qed.

Lemma Qcinv_0 : / 0 = 0.
Proof. apply Qc_is_canon. reflexivity. Qed.
Lemma div_two_two a b : (two * a) / (two * b) = a / b.
Proof.
  destruct (Qc_eq_dec b 0) as [E|E].
  - rewrite E, Qcmult_0_r. unfold Qcdiv. rewrite Qcinv_0. ring.
  - field. split; [exact E|exact CurvesP.two_neq0].
Qed.
Lemma dset_dup l : dset (l ++ l) = dset l.
Proof.
  apply sorted_lt_unique; try apply dset_sorted. intros d. rewrite !dset_in, in_app_iff. tauto.
Qed.
Theorem prc_spec_duplicate l : prc_spec (l ++ l) = prc_spec l.
Proof.
  unfold prc_spec. rewrite map_app, dset_dup.
  assert (HPd : forall d, Pge d (l ++ l) = two * Pge d l) by (intros d; rewrite !Pge_sumf, sumf_app; unfold two; ring).
  assert (HNd : forall d, Nge d (l ++ l) = two * Nge d l) by (intros d; rewrite !Nge_sumf, sumf_app; unfold two; ring).
  assert (Hp : forall d, prec_at (l ++ l) d = prec_at l d).
  { intros d. unfold prec_at. rewrite HPd, HNd. replace (two * Pge d l + two * Nge d l) with (two * (Pge d l + Nge d l)) by ring. apply div_two_two. }
  assert (Hr : forall d, rec_at (l ++ l) d = rec_at l d).
  { intros d. unfold rec_at. change (sumq (map pw (l ++ l))) with (sumf pw (l ++ l)). change (sumq (map pw l)) with (sumf pw l).
    rewrite sumf_app, HPd. replace (sumf pw l + sumf pw l) with (two * sumf pw l) by (unfold two; ring).
    destruct (Qc_eq_dec (sumf pw l) 0) as [E|E].
    - rewrite E. destruct (Qc_eq_dec (two * 0) 0) as [_|X]; [reflexivity|exfalso; apply X; ring].
    - destruct (Qc_eq_dec (two * sumf pw l) 0) as [X|_]; [|apply div_two_two].
      exfalso. apply Qcmult_integral in X as [X|X]; [exact (CurvesP.two_neq0 X)|contradiction]. }
  rewrite (map_ext _ _ Hp), (map_ext _ _ Hr). reflexivity.
Qed.
Theorem auprc_spec_duplicate l : auprc_spec (l ++ l) = auprc_spec l.
Proof. unfold auprc_spec. rewrite prc_spec_duplicate. reflexivity. Qed.
Lemma wpos_app l1 l2 : wpos l1 -> wpos l2 -> wpos (l1 ++ l2).
Proof. unfold wpos. intros. apply Forall_app. split; assumption. Qed.
Theorem auprc_row_duplicate l : wpos l -> auprc_row (l ++ l) = auprc_row l.
Proof. intros Hw. rewrite (auprc_row_spec _ (wpos_app _ _ Hw Hw)), (auprc_row_spec l Hw), auprc_spec_duplicate. reflexivity. Qed.
Theorem prc_row_duplicate l : wpos l -> prc_row (l ++ l) = prc_row l.
Proof. intros Hw. rewrite (prc_row_spec _ (wpos_app _ _ Hw Hw)), (prc_row_spec l Hw), prc_spec_duplicate. reflexivity. Qed.
