(* Alg instances (C01 / C03) for the regression family: Perplexity, BinaryNormalizedEntropy,
   PeakSignalNoiseRatio, Wasserstein1D, AUC; MSE / R2 are in Proofs/AdoptP.v. *)
From Coq Require Import ZArith List Bool QArith Qcanon Lia Permutation String.
From TE Require Import Base.Val Base.Nd Base.Xq Algebra.Metric Algebra.MergeTree Algebra.Pool Algebra.Cache
  Models.Aggregation Models.Aggregation2 Models.Regression Models.Stat Proofs.RegressionP.
Import ListNotations.
Open Scope list_scope.
Open Scope Qc_scope.

(* ---------------------------------------------------------------------------------------- *)
(* class = functional on the concatenation, for metrics whose update rejects the empty batch:
   concatenation of a NON-EMPTY list of batches (no neutral batch needed) *)
Section ClassFn1.
Variable M : Metric.
Variable L : Alg M.
Variable c : cfg M.
Variable bcat : batch M -> batch M -> batch M.
Hypothesis beta_cat : forall b1 b2, valid M c b1 = true -> valid M c b2 = true ->
  beta L c (bcat b1 b2) = op L (beta L c b1) (beta L c b2).
Hypothesis valid_cat : forall b1 b2, valid M c b1 = true -> valid M c b2 = true -> valid M c (bcat b1 b2) = true.
Fixpoint bconcat1 (b : batch M) (bs : list (batch M)) : batch M :=
  match bs with [] => b | b' :: r => bcat b (bconcat1 b' r) end.
Lemma bconcat1_spec : forall bs b, Forall (fun b => valid M c b = true) (b :: bs) ->
  valid M c (bconcat1 b bs) = true /\ beta L c (bconcat1 b bs) = prod M L c (map (beta L c) (b :: bs)).
Proof.
  induction bs as [|b' bs IH]; intros b Hv; inversion Hv as [|? ? Hb Hbs]; subst; cbn [bconcat1].
  - split; [exact Hb|]. cbn [map]. symmetry. apply prod_one. apply ok_beta. exact Hb.
  - destruct (IH b' Hbs) as [Hv' Hb']. split; [apply valid_cat; assumption|].
    rewrite beta_cat by assumption. rewrite Hb'. change (map (beta L c) (b :: b' :: bs)) with (beta L c b :: map (beta L c) (b' :: bs)).
    symmetry. apply prod_cons; [apply ok_beta; exact Hb|apply betas_ok; exact Hbs].
Qed.
Lemma class_eq_functional_nonempty : forall b bs, Forall (fun b => valid M c b = true) (b :: bs) ->
  cmp M c (fold_left (upd M c) (b :: bs) (init M c)) = gamma L c (beta L c (bconcat1 b bs)).
Proof.
  intros b bs Hv. change (fold_left (upd M c) (b :: bs) (init M c)) with (run M c (Shard M (b :: bs))).
  rewrite (merge_tree_compute M L c (Shard M (b :: bs))) by exact Hv. cbn [stream].
  destruct (bconcat1_spec bs b Hv) as [_ ->]. reflexivity.
Qed.
End ClassFn1.

(* ---------------------------------------------------------------------------------------- *)
(* log-linear forms under addition *)
Lemma fadd_assoc f g h : fadd f (fadd g h) = fadd (fadd f g) h.
Proof. unfold fadd. cbn [f_k f_logs]. f_equal; [ring|apply app_assoc]. Qed.
Lemma fadd_0_l f : fadd f0 f = f.
Proof. destruct f as [k l]. unfold fadd, f0. cbn [f_k f_logs app]. f_equal. ring. Qed.
Lemma fadd_0_r f : fadd f f0 = f.
Proof. destruct f as [k l]. unfold fadd, f0. cbn [f_k f_logs]. rewrite app_nil_r. f_equal. ring. Qed.

(* ---- Perplexity ---- *)
Lemma px_add_assoc x y z : px_add x (px_add y z) = px_add (px_add x y) z.
Proof. unfold px_add. cbn [fst snd]. f_equal; [apply fadd_assoc|ring]. Qed.
Lemma px_add_0_l x : px_add (f0, 0) x = x.
Proof. destruct x as [f n]. unfold px_add. cbn [fst snd]. rewrite fadd_0_l. f_equal. ring. Qed.
Lemma px_add_0_r x : px_add x (f0, 0) = x.
Proof. destruct x as [f n]. unfold px_add. cbn [fst snd]. rewrite fadd_0_r. f_equal. ring. Qed.
Definition px_alg : Alg px_metric.
Proof.
  refine (Build_Alg px_metric px_st (fun _ => (f0, 0)) px_add (fun _ _ => True) px_add_assoc _ _ _ _
            (fun _ s => s) (fun ig b => px_stat ig (px_rows b) (px_tgt b)) (fun _ => px_cmp) (fun _ _ => True)
            _ _ _ _ _ _ _); try (intros; exact I).
  - intros. apply px_add_0_l.
  - intros. apply px_add_0_r.
  - reflexivity.
  - intros. split; [reflexivity|exact I].
  - intros. cbn. rewrite map_id. split; [reflexivity|exact I].
  - reflexivity.
Defined.
(* concatenation of token batches *)
Definition px_cat (a b : px_batch) : px_batch := {| px_rows := px_rows a ++ px_rows b; px_tgt := px_tgt a ++ px_tgt b |}.
Lemma px_stat_app ig : forall r1 t1 r2 t2, List.length r1 = List.length t1 ->
  px_stat ig (r1 ++ r2) (t1 ++ t2) = px_add (px_stat ig r1 t1) (px_stat ig r2 t2).
Proof.
  induction r1 as [|r r1 IH]; intros [|t t1] r2 t2 Hl; try discriminate; cbn [app px_stat].
  - symmetry. apply px_add_0_l.
  - rewrite IH by (injection Hl; auto). destruct (ignored ig t); [reflexivity|].
    unfold px_add. cbn [fst snd]. rewrite fadd_assoc. f_equal. ring.
Qed.
Lemma px_valid_len ig b : px_valid ig b = true -> List.length (px_rows b) = List.length (px_tgt b).
Proof. unfold px_valid. intros H. repeat (apply andb_prop in H as [H ?]). apply Nat.eqb_eq. exact H. Qed.

(* ---- BinaryNormalizedEntropy ---- *)
Lemma map2_assoc {X} (f : X -> X -> X) (Hf : forall a b c, f a (f b c) = f (f a b) c) :
  forall a b c, map2 f a (map2 f b c) = map2 f (map2 f a b) c.
Proof. induction a as [|x a IH]; intros [|y b] [|z c]; cbn [map2]; try reflexivity. rewrite Hf, IH. reflexivity. Qed.
Lemma map2_len {X Y Z} (f : X -> Y -> Z) : forall a b, List.length a = List.length b -> List.length (map2 f a b) = List.length a.
Proof. induction a as [|x a IH]; intros [|y b] H; try discriminate; cbn [map2 List.length]; [reflexivity|]. rewrite IH by (injection H; auto). reflexivity. Qed.
Lemma ne_add_assoc a b c : ne_add a (ne_add b c) = ne_add (ne_add a b) c.
Proof. unfold ne_add. cbn [fst snd]. f_equal; [f_equal; [apply fadd_assoc|ring]|ring]. Qed.
Lemma ne_add_0_l a : ne_add (f0, 0, 0) a = a.
Proof. destruct a as [[f n] p]. unfold ne_add. cbn [fst snd]. rewrite fadd_0_l. f_equal; [f_equal|]; ring. Qed.
Lemma ne_add_0_r a : ne_add a (f0, 0, 0) = a.
Proof. destruct a as [[f n] p]. unfold ne_add. cbn [fst snd]. rewrite fadd_0_r. f_equal; [f_equal|]; ring. Qed.
Lemma ne_e_l : forall T x, List.length x = T -> map2 ne_add (repeat (f0, 0, 0) T) x = x.
Proof. induction T as [|T IH]; intros [|a x] H; try discriminate; cbn [repeat map2]; [reflexivity|]. rewrite ne_add_0_l, IH by (injection H; auto). reflexivity. Qed.
Lemma ne_e_r : forall T x, List.length x = T -> map2 ne_add x (repeat (f0, 0, 0) T) = x.
Proof. induction T as [|T IH]; intros [|a x] H; try discriminate; cbn [repeat map2]; [reflexivity|]. rewrite ne_add_0_r, IH by (injection H; auto). reflexivity. Qed.
Lemma map3_len {X Y Z W} (f : X -> Y -> Z -> W) : forall a b c, List.length a = List.length b -> List.length a = List.length c ->
  List.length (map3 f a b c) = List.length a.
Proof.
  induction a as [|x a IH]; intros [|y b] [|z c] H1 H2; try discriminate; cbn [map3 List.length]; [reflexivity|].
  rewrite IH by (injection H1; injection H2; auto). reflexivity.
Qed.
Lemma row_lens_len (a b : mat) : row_lens a = row_lens b -> List.length a = List.length b.
Proof. unfold row_lens. intros H. rewrite <- (map_length (@List.length Qc) a), H. apply map_length. Qed.
Lemma ne_stat_len c b : ne_valid c b = true -> List.length (ne_stat c b) = ne_tasks c.
Proof.
  unfold ne_valid. intros H. repeat (apply andb_prop in H as [H ?]).
  apply Nat.eqb_eq in H.
  destruct (list_eq_dec Nat.eq_dec (row_lens (nb_x b)) (row_lens (nb_t b))) as [E1|]; [|discriminate].
  destruct (list_eq_dec Nat.eq_dec (row_lens (nb_x b)) (row_lens (ne_wrows b))) as [E2|]; [|discriminate].
  unfold ne_stat. rewrite map3_len; [exact H|apply row_lens_len; exact E1|apply row_lens_len; exact E2].
Qed.
Definition ne_alg : Alg ne_metric.
Proof.
  refine (Build_Alg ne_metric (list ne_task) ne_init (map2 ne_add) (fun c x => List.length x = ne_tasks c)
            (map2_assoc ne_add ne_add_assoc) _ _ _ _
            (fun _ s => s) ne_stat (fun _ => ne_cmp) (fun c x => List.length x = ne_tasks c) _ _ _ _ _ _ _).
  - intros c. unfold ne_init. apply repeat_length.
  - intros c x y Hx Hy. rewrite map2_len; congruence.
  - intros c x Hx. apply ne_e_l. exact Hx.
  - intros c x Hx. apply ne_e_r. exact Hx.
  - exact ne_stat_len.
  - intros c s Hs. exact Hs.
  - intros c. unfold ne_init. apply repeat_length.
  - reflexivity.
  - intros c s b Hs Hb. split; [reflexivity|]. cbn. rewrite map2_len; [exact Hs|]. rewrite (ne_stat_len c b Hb). exact Hs.
  - intros c s ms Hs Hm. cbn. rewrite map_id. split; [reflexivity|].
    revert s Hs. induction Hm as [|m ms Hm _ IH]; intros s Hs; cbn [fold_left]; [exact Hs|].
    apply IH. rewrite map2_len; congruence.
  - reflexivity.
Defined.

(* ---------------------------------------------------------------------------------------- *)
(* PeakSignalNoiseRatio: (count, sum of squared errors) sums x (min, max) semilattice *)
Definition p_A := (Qc * Qc * xq * xq)%type.
Definition p_op (a b : p_A) : p_A :=
  let '(n, s, mn, mx) := a in let '(n', s', mn', mx') := b in (n + n', s + s', xmin mn mn', xmax mx mx').
Definition p_e : p_A := (0, 0, PInf, NInf).
Definition p_alpha (s : p_st) : p_A := (p_n s, p_sse s, p_mn s, p_mx s).
Definition p_beta (c : option Qc) (b : list Qc * list Qc) : p_A :=
  (qofnat (List.length (snd b)), p_sse_of b, if p_auto c then bmin (snd b) else PInf, if p_auto c then bmax (snd b) else NInf).
Definition p_gamma (c : option Qc) (a : p_A) : val :=
  let '(n, s, mn, mx) := a in
  ten_log10 (psnr_ratio (match c with None => xsub mx mn | Some r => Fin r end) s n).
Definition p_reach (c : option Qc) (s : p_st) : Prop :=
  match c with
  | None => p_dr s = xsub (p_mx s) (p_mn s) \/ s = p_init None
  | Some r => p_dr s = Fin r /\ p_mx s = NInf /\ p_mn s = PInf
  end.
Lemma p_op_assoc x y z : p_op x (p_op y z) = p_op (p_op x y) z.
Proof.
  destruct x as [[[n1 s1] a1] b1], y as [[[n2 s2] a2] b2], z as [[[n3 s3] a3] b3]. unfold p_op.
  rewrite xmin_assoc, xmax_assoc, !Qcplus_assoc. reflexivity.
Qed.
Lemma p_op_comm x y : p_op x y = p_op y x.
Proof.
  destruct x as [[[n1 s1] a1] b1], y as [[[n2 s2] a2] b2]. unfold p_op.
  rewrite (xmin_comm a1 a2), (xmax_comm b1 b2), (Qcplus_comm n1 n2), (Qcplus_comm s1 s2). reflexivity.
Qed.
Lemma p_op_e_l x : p_op p_e x = x.
Proof. destruct x as [[[n s] a] b]. unfold p_op, p_e. rewrite xmin_e_l, xmax_e_l, !Qcplus_0_l. reflexivity. Qed.
Lemma p_op_e_r x : p_op x p_e = x.
Proof. destruct x as [[[n s] a] b]. unfold p_op, p_e. rewrite xmin_e_r, xmax_e_r, !Qcplus_0_r. reflexivity. Qed.

Lemma p_upd_hom c s b : p_alpha (p_upd c s b) = p_op (p_alpha s) (p_beta c b).
Proof.
  unfold p_upd, p_alpha, p_beta, p_op. destruct (p_auto c); cbn [p_n p_sse p_mn p_mx].
  - rewrite (xmin_comm (bmin (snd b))), (xmax_comm (bmax (snd b))). reflexivity.
  - rewrite xmin_e_r, xmax_e_r. reflexivity.
Qed.
Lemma p_mrg1_hom c s m : p_reach c m -> p_alpha (p_mrg1 c s m) = p_op (p_alpha s) (p_alpha m).
Proof.
  intros Hm. unfold p_mrg1, p_alpha, p_op. cbn [p_n p_sse p_mn p_mx]. destruct c as [r|]; cbn [p_auto].
  - destruct Hm as [_ [-> ->]]. rewrite xmin_e_r, xmax_e_r. reflexivity.
  - reflexivity.
Qed.
Lemma p_mrg1_keeps c s m : p_dr (p_mrg1 c s m) = p_dr s
  /\ (p_auto c = false -> p_mx (p_mrg1 c s m) = p_mx s /\ p_mn (p_mrg1 c s m) = p_mn s).
Proof. unfold p_mrg1. cbn [p_dr p_mx p_mn]. split; [reflexivity|]. intros ->. split; reflexivity. Qed.
Lemma p_fold_hom c : forall ms s, Forall (p_reach c) ms ->
  p_alpha (fold_left (p_mrg1 c) ms s) = fold_left p_op (map p_alpha ms) (p_alpha s)
  /\ p_dr (fold_left (p_mrg1 c) ms s) = p_dr s
  /\ (p_auto c = false -> p_mx (fold_left (p_mrg1 c) ms s) = p_mx s /\ p_mn (fold_left (p_mrg1 c) ms s) = p_mn s).
Proof.
  induction ms as [|m ms IH]; intros s Hm; cbn [fold_left map].
  - repeat split; reflexivity.
  - inversion Hm as [|? ? H1 H2]; subst. destruct (IH (p_mrg1 c s m) H2) as [Ha [Hd Hk]].
    rewrite Ha, Hd, (p_mrg1_hom c s m H1). destruct (p_mrg1_keeps c s m) as [Hd' Hk']. split; [reflexivity|]. split; [exact Hd'|].
    intros Hf. destruct (Hk Hf) as [-> ->]. apply Hk'. exact Hf.
Qed.
Definition psnr_alg : Alg p_metric.
Proof.
  refine (Build_Alg p_metric p_A (fun _ => p_e) p_op (fun _ _ => True) p_op_assoc _ _ _ _
            (fun _ => p_alpha) p_beta p_gamma p_reach _ _ _ _ _ _ _); try (intros; exact I).
  - intros. apply p_op_e_l.
  - intros. apply p_op_e_r.
  - intros [r|]; cbn; [repeat split|right; reflexivity].
  - intros [r|]; reflexivity.
  - intros c s b Hs Hb. split; [apply p_upd_hom|].
    destruct c as [r|]; unfold p_reach in *; cbn [upd p_metric plain]; unfold p_upd; cbn [p_auto p_dr p_mx p_mn].
    + exact Hs.
    + left. reflexivity.
  - intros c s ms Hs Hm. cbn [mrg p_metric plain]. unfold p_mrg.
    destruct (p_fold_hom c ms s Hm) as [Ha [Hd Hk]]. destruct c as [r|]; cbn [p_auto].
    + split; [exact Ha|]. unfold p_reach in *. destruct Hs as [H1 [H2 H3]]. destruct (Hk eq_refl) as [E1 E2].
      rewrite Hd, E1, E2. repeat split; assumption.
    + split; [|left; reflexivity]. etransitivity; [|exact Ha]. reflexivity.
  - intros c s Hs. cbn [cmp p_metric plain]. unfold p_cmp, p_gamma, p_alpha. destruct c as [r|]; unfold p_reach in Hs.
    + destruct Hs as [-> _]. reflexivity.
    + destruct Hs as [->| ->]; reflexivity.
Defined.

(* ---------------------------------------------------------------------------------------- *)
(* Wasserstein1D: cache of four lists; abstraction = the four concatenations *)
Definition w_A := (list Qc * list Qc * list Qc * list Qc)%type.
Definition w_op (a b : w_A) : w_A :=
  let '(x, xw, y, yw) := a in let '(x', xw', y', yw') := b in (x ++ x', xw ++ xw', y ++ y', yw ++ yw').
Definition w_e : w_A := ([], [], [], []).
Definition w_alpha (s : w_st) : w_A := (List.concat (w_x s), List.concat (w_xw s), List.concat (w_y s), List.concat (w_yw s)).
Definition w_beta (b : w_batch) : w_A := (wb_x b, wts (wb_x b) (wb_xw b), wb_y b, wts (wb_y b) (wb_yw b)).
Definition w_gamma (a : w_A) : option Qc :=
  let '(x, xw, y, yw) := a in
  if is_nil x || is_nil y || is_nil xw || is_nil yw then None else Some (wass x xw y yw).
Definition chunks_ok (l : list (list Qc)) : Prop := Forall (fun c => c <> []) l.
Definition w_reach (s : w_st) : Prop :=
  List.length (w_xw s) = List.length (w_x s) /\ List.length (w_y s) = List.length (w_x s)
  /\ List.length (w_yw s) = List.length (w_x s)
  /\ chunks_ok (w_x s) /\ chunks_ok (w_xw s) /\ chunks_ok (w_y s) /\ chunks_ok (w_yw s).
Lemma w_op_assoc x y z : w_op x (w_op y z) = w_op (w_op x y) z.
Proof.
  destruct x as [[[a1 b1] c1] d1], y as [[[a2 b2] c2] d2], z as [[[a3 b3] c3] d3]. unfold w_op. rewrite !app_assoc. reflexivity.
Qed.
Lemma w_op_e_r x : w_op x w_e = x.
Proof. destruct x as [[[a b] c] d]. unfold w_op, w_e. rewrite !app_nil_r. reflexivity. Qed.
Lemma concat_snoc {X} (l : list (list X)) b : List.concat (l ++ [b]) = List.concat l ++ b.
Proof. rewrite concat_app. cbn [List.concat]. rewrite app_nil_r. reflexivity. Qed.
Lemma chunks_snoc l b : chunks_ok l -> b <> [] -> chunks_ok (l ++ [b]).
Proof. intros Hl Hb. apply Forall_app. split; [exact Hl|]. constructor; [exact Hb|constructor]. Qed.
Lemma is_nil_concat l : chunks_ok l -> is_nil (List.concat l) = is_nil l.
Proof. intros H. destruct H as [|c l Hc _]; [reflexivity|]. cbn [List.concat is_nil]. destruct c; [congruence|reflexivity]. Qed.
Lemma concat_ne l : chunks_ok l -> l <> [] -> List.concat l <> [].
Proof. intros H Hl E. pose proof (is_nil_concat l H) as Hn. rewrite E in Hn. destruct l; [congruence|discriminate]. Qed.
Lemma nonnil_ne {X} (l : list X) : nonnil l = true -> l <> [].
Proof. destruct l; [discriminate|intros _ E; discriminate]. Qed.
Lemma wts_ne x w : x <> [] -> w_ok x w = true -> wts x w <> [].
Proof.
  intros Hx Hw. destruct w as [w|]; cbn [wts w_ok] in *.
  - apply andb_prop in Hw as [Hw _]. apply andb_prop in Hw as [Hw _]. apply nonnil_ne. exact Hw.
  - destruct x; [congruence|]. discriminate.
Qed.
Lemma len0_nil {X} (l : list X) : List.length l = 0%nat -> l = []. Proof. destruct l; [reflexivity|discriminate]. Qed.

Lemma w_mrg1_hom s m : w_reach s -> w_reach m -> w_alpha (w_mrg1 s m) = w_op (w_alpha s) (w_alpha m) /\ w_reach (w_mrg1 s m).
Proof.
  intros Hs Hm. unfold w_mrg1. destruct (w_x m) as [|c xm] eqn:Ex; cbn [nonnil is_nil negb].
  - split; [|exact Hs]. destruct Hm as [H1 [H2 [H3 _]]]. rewrite Ex in *. cbn [List.length] in *.
    unfold w_alpha. rewrite Ex, (len0_nil _ H1), (len0_nil _ H2), (len0_nil _ H3). cbn [List.concat].
    symmetry. apply w_op_e_r.
  - rewrite <- Ex. split.
    + unfold w_alpha, w_op. cbn [w_x w_xw w_y w_yw]. rewrite !concat_snoc. reflexivity.
    + destruct Hs as [S1 [S2 [S3 [S4 [S5 [S6 S7]]]]]]. destruct Hm as [M1 [M2 [M3 [M4 [M5 [M6 M7]]]]]].
      assert (Nx : w_x m <> []) by (rewrite Ex; discriminate).
      assert (Nxw : w_xw m <> []) by (intro E; rewrite E, Ex in M1; discriminate).
      assert (Ny : w_y m <> []) by (intro E; rewrite E, Ex in M2; discriminate).
      assert (Nyw : w_yw m <> []) by (intro E; rewrite E, Ex in M3; discriminate).
      unfold w_reach. cbn [w_x w_xw w_y w_yw]. rewrite !app_length. cbn [List.length].
      repeat split; try lia; apply chunks_snoc; try assumption; apply concat_ne; assumption.
Qed.
Definition wasserstein_alg : Alg w_metric.
Proof.
  refine (Build_Alg w_metric w_A (fun _ => w_e) w_op (fun _ _ => True) w_op_assoc _ _ _ _
            (fun _ => w_alpha) (fun _ => w_beta) (fun _ => w_gamma) (fun _ => w_reach) _ _ _ _ _ _ _); try (intros; exact I).
  - intros c0 x0 H0. destruct x0 as [[[a0 b0] c1] d0]. reflexivity.
  - intros. apply w_op_e_r.
  - intros c0. unfold w_reach. cbn. repeat split; constructor.
  - reflexivity.
  - intros c s b Hs Hb. cbn [upd w_metric plain]. unfold w_upd. split.
    + unfold w_alpha, w_beta, w_op. cbn [w_x w_xw w_y w_yw]. rewrite !concat_snoc. reflexivity.
    + destruct Hs as [S1 [S2 [S3 [S4 [S5 [S6 S7]]]]]]. cbn [valid w_metric plain] in Hb. unfold w_valid in Hb.
      apply andb_prop in Hb as [Hb Hyw]. apply andb_prop in Hb as [Hb Hxw]. apply andb_prop in Hb as [Hx Hy].
      apply nonnil_ne in Hx. apply nonnil_ne in Hy.
      unfold w_reach. cbn [w_x w_xw w_y w_yw]. rewrite !app_length. cbn [List.length].
      repeat split; try lia; apply chunks_snoc; try assumption; apply wts_ne; assumption.
  - intros c s ms Hs Hm. cbn [mrg w_metric plain]. revert s Hs.
    induction Hm as [|m ms Hm1 _ IH]; intros s Hs; cbn [fold_left map]; [split; [reflexivity|exact Hs]|].
    destruct (w_mrg1_hom s m Hs Hm1) as [Ha Hr]. destruct (IH _ Hr) as [IHa IHr]. split; [|exact IHr].
    rewrite IHa, Ha. reflexivity.
  - intros c s Hs. cbn [cmp w_metric plain]. unfold w_cmp, w_gamma, w_alpha.
    destruct Hs as [_ [_ [_ [S4 [S5 [S6 S7]]]]]]. rewrite !is_nil_concat by assumption. reflexivity.
Defined.

(* ---------------------------------------------------------------------------------------- *)
(* AUC: abstraction = the two (n_tasks x n) matrices of everything seen, row-wise concatenation *)
Definition rop (a b : mat) : mat := if is_nil a then b else if is_nil b then a else map2 (@app Qc) a b.
Definition auc_A := (mat * mat)%type.
Definition auc_op (a b : auc_A) : auc_A := (rop (fst a) (fst b), rop (snd a) (snd b)).
Definition auc_alpha (s : auc_st) : auc_A := (catrows (fst s), catrows (snd s)).
Definition mats_ok (l : list mat) : Prop := Forall (fun m => m <> []) l.
Definition auc_reach (s : auc_st) : Prop := mats_ok (fst s) /\ mats_ok (snd s) /\ List.length (fst s) = List.length (snd s).

Lemma map2app_ne (a b : mat) : a <> [] -> b <> [] -> map2 (@app Qc) a b <> [].
Proof. destruct a, b; try congruence. intros _ _. discriminate. Qed.
Lemma rop_assoc a b c : rop a (rop b c) = rop (rop a b) c.
Proof.
  unfold rop. destruct a as [|ra a]; [reflexivity|]. destruct b as [|rb b]; [reflexivity|]. destruct c as [|rc c]; [reflexivity|].
  cbn [is_nil map2]. f_equal; [apply app_assoc|]. apply (map2_assoc (@app Qc) (@app_assoc Qc)).
Qed.
Lemma rop_nil_r a : rop a [] = a. Proof. destruct a; reflexivity. Qed.
Lemma fold_map2app_ne : forall (r : list mat) m, m <> [] -> mats_ok r -> fold_left (map2 (@app Qc)) r m <> [].
Proof.
  induction r as [|x r IH]; intros m Hm Hr; cbn [fold_left]; [exact Hm|].
  inversion Hr; subst. apply IH; [apply map2app_ne; assumption|assumption].
Qed.
Lemma catrows_ne l : mats_ok l -> l <> [] -> catrows l <> [].
Proof. intros H Hl. destruct l as [|m r]; [congruence|]. inversion H; subst. cbn [catrows]. apply fold_map2app_ne; assumption. Qed.
Lemma catrows_snoc l b : mats_ok l -> b <> [] -> catrows (l ++ [b]) = rop (catrows l) b.
Proof.
  intros Hl Hb. destruct l as [|m r]; [reflexivity|]. cbn [app catrows]. rewrite fold_left_app. cbn [fold_left].
  unfold rop. pose proof (catrows_ne (m :: r) Hl ltac:(discriminate)) as Hn. cbn [catrows] in Hn. unfold mat in *.
  destruct (fold_left (map2 (@app Qc)) r m) as [|x y] eqn:E; [congruence|]. destruct b; [congruence|]. try rewrite E. reflexivity.
Qed.
Lemma mats_snoc l b : mats_ok l -> b <> [] -> mats_ok (l ++ [b]).
Proof. intros Hl Hb. apply Forall_app. split; [exact Hl|]. constructor; [exact Hb|constructor]. Qed.
Lemma numel_ne (m : mat) : Nat.eqb (numel m) 0 = false -> m <> [].
Proof. intros H E. subst. discriminate. Qed.
Lemma auc_valid_ne c b : auc_valid c b = true -> fst b <> [] /\ snd b <> [].
Proof.
  unfold auc_valid. intros H. repeat (apply andb_prop in H as [H ?]).
  apply negb_true_iff in H. split; [apply numel_ne; exact H|]. apply numel_ne. apply negb_true_iff. assumption.
Qed.
Lemma auc_prep_hom s : auc_reach s -> auc_alpha (auc_prep s) = auc_alpha s /\ auc_reach (auc_prep s).
Proof.
  intros [H1 [H2 H3]]. unfold auc_prep. destruct (nonnil (fst s) && nonnil (snd s)) eqn:E; [|split; [reflexivity|repeat split; assumption]].
  apply andb_prop in E as [E1 E2]. apply nonnil_ne in E1. apply nonnil_ne in E2. split; [reflexivity|].
  unfold auc_reach. cbn [fst snd]. repeat split; try reflexivity; constructor; try constructor; apply catrows_ne; assumption.
Qed.
Lemma auc_mrg1_hom s m : auc_reach s -> auc_reach m ->
  auc_alpha (auc_mrg1 s m) = auc_op (auc_alpha s) (auc_alpha m) /\ auc_reach (auc_mrg1 s m).
Proof.
  intros [S1 [S2 S3]] [M1 [M2 M3]]. unfold auc_mrg1. destruct (fst m) as [|x xm] eqn:Ex; cbn [nonnil is_nil negb].
  - try rewrite Ex in M3. cbn [List.length] in M3. symmetry in M3. apply len0_nil in M3.
    split; [|repeat split; assumption]. unfold auc_alpha, auc_op. rewrite Ex, M3. cbn [fst snd catrows]. rewrite !rop_nil_r. reflexivity.
  - rewrite <- Ex in *. assert (Nx : fst m <> []) by (rewrite Ex; discriminate).
    assert (Ny : snd m <> []) by (intro E; rewrite E in M3; try rewrite Ex in M3; discriminate).
    pose proof (catrows_ne _ M1 Nx) as Cx. pose proof (catrows_ne _ M2 Ny) as Cy. split.
    + unfold auc_alpha, auc_op. cbn [fst snd]. rewrite !catrows_snoc by assumption. reflexivity.
    + unfold auc_reach. cbn [fst snd]. rewrite !app_length. cbn [List.length].
      repeat split; try (apply mats_snoc; assumption). lia.
Qed.
Definition auc_alg : Alg auc_metric.
Proof.
  refine (Build_Alg auc_metric auc_A (fun _ => ([], [])) auc_op (fun _ _ => True) _ _ _ _ _
            (fun _ => auc_alpha) (fun _ b => b) (fun c a => auc_compute (auc_reorder c) (fst a) (snd a))
            (fun _ => auc_reach) _ _ _ _ _ _ _); try (intros; exact I).
  - intros [x1 y1] [x2 y2] [x3 y3]. unfold auc_op. cbn [fst snd]. rewrite !rop_assoc. reflexivity.
  - intros c0 [x y] _. reflexivity.
  - intros c0 [x y] _. unfold auc_op. cbn [fst snd]. rewrite !rop_nil_r. reflexivity.
  - intros c0. repeat split; constructor.
  - reflexivity.
  - intros c s b [S1 [S2 S3]] Hb. destruct (auc_valid_ne c b Hb) as [Bx By]. cbn [upd auc_metric plain]. split.
    + unfold auc_alpha, auc_op. cbn [fst snd]. rewrite !catrows_snoc by assumption. destruct b; reflexivity.
    + unfold auc_reach. cbn [fst snd]. rewrite !app_length. cbn [List.length].
      repeat split; try (apply mats_snoc; assumption). lia.
  - intros c s ms Hs Hm. cbn [mrg auc_metric plain]. destruct (auc_prep_hom s Hs) as [Hp Hr].
    assert (G : forall s', auc_reach s' ->
              auc_alpha (fold_left auc_mrg1 ms s') = fold_left auc_op (map auc_alpha ms) (auc_alpha s')
              /\ auc_reach (fold_left auc_mrg1 ms s')).
    { clear s Hs Hp Hr. induction Hm as [|m ms Hm1 _ IH]; intros s' Hs'; cbn [fold_left map]; [split; [reflexivity|exact Hs']|].
      destruct (auc_mrg1_hom s' m Hs' Hm1) as [Ha Hr']. destruct (IH _ Hr') as [IHa IHr]. split; [|exact IHr].
      rewrite IHa, Ha. reflexivity. }
    destruct (G _ Hr) as [Ga Gr]. split; [|exact Gr]. etransitivity; [exact Ga|]. rewrite Hp. reflexivity.
  - intros c s Hs. cbn [cmp auc_metric plain]. unfold auc_cmp, auc_alpha. cbn [fst snd].
    destruct (fst s) as [|x xs]; [reflexivity|]. destruct (snd s) as [|y ys]; [|reflexivity].
    cbn [is_nil orb catrows]. unfold auc_compute. cbn [numel List.concat List.length]. rewrite orb_true_r. reflexivity.
Defined.
