(* C18: check functions whose generated term is NOT equivalent to the docstring contract on the as-is tree:
   witness environments, the completeness half (contract -> accepted), and the as-is-or-fixed dichotomy. *)
From Coq Require Import ZArith List Bool String Lia.
From TE Require Import Models.ShapeLang Generated.ShapeChecks Models.Contracts Proofs.ShapesTac.
Import ListNotations.
Open Scope string_scope.

Definition wit_auc_update_input_check_0 : env := env_of [("x", (ATensor [2%nat; 3%nat; 4%nat])); ("y", (ATensor [2%nat; 3%nat; 4%nat])); ("n_tasks", (AInt 2))] [] None.
(* completeness half: every documented input is accepted *)
Lemma impl_auc_update_input_check e : wf sig_auc_update_input_check e -> implb (contractb_auc_update_input_check e) (accepts chk_auc_update_input_check e) = true.
Proof. intros H. unfold chk_auc_update_input_check, contractb_auc_update_input_check. shape_solve H. Qed.
Lemma contract_implies_accepts_auc_update_input_check : forall e, wf sig_auc_update_input_check e -> contract_auc_update_input_check e -> accepts chk_auc_update_input_check e = true.
Proof. intros e H C. exact (implb_true_intro _ _ (impl_auc_update_input_check e H) C). Qed.
(* the equivalence itself: refuted on the as-is tree by the witness(es) above; if the check is repaired in /repo the
   left disjunct is proved instead by the generic tactic (same statement checks on both trees) *)
Lemma check_iff_contract_auc_update_input_check_refuted_or_fixed :
  (forall e, wf sig_auc_update_input_check e -> accepts chk_auc_update_input_check e = contractb_auc_update_input_check e)
  \/ (exists e, wf sig_auc_update_input_check e /\ accepts chk_auc_update_input_check e <> contractb_auc_update_input_check e).
Proof.
  first [ left; intros e H; unfold chk_auc_update_input_check, contractb_auc_update_input_check; solve [shape_solve H]
        | right; exists wit_auc_update_input_check_0; vm_compute; repeat split; congruence ].
Qed.
Definition refuted_now_auc_update_input_check : bool := negb (Bool.eqb (accepts chk_auc_update_input_check wit_auc_update_input_check_0) (contractb_auc_update_input_check wit_auc_update_input_check_0)).

Definition wit_binary_auprc_update_input_check_0 : env := env_of [("input", (ATensor [])); ("target", (ATensor [])); ("num_tasks", (AInt 1))] [] None.
Definition wit_binary_auprc_update_input_check_1 : env := env_of [("input", (ATensor [2%nat])); ("target", (ATensor [2%nat])); ("num_tasks", (AInt 2))] [] None.
(* completeness half: every documented input is accepted *)
Lemma impl_binary_auprc_update_input_check e : wf sig_binary_auprc_update_input_check e -> implb (contractb_binary_auprc_update_input_check e) (accepts chk_binary_auprc_update_input_check e) = true.
Proof. intros H. unfold chk_binary_auprc_update_input_check, contractb_binary_auprc_update_input_check. shape_solve H. Qed.
Lemma contract_implies_accepts_binary_auprc_update_input_check : forall e, wf sig_binary_auprc_update_input_check e -> contract_binary_auprc_update_input_check e -> accepts chk_binary_auprc_update_input_check e = true.
Proof. intros e H C. exact (implb_true_intro _ _ (impl_binary_auprc_update_input_check e H) C). Qed.
(* the equivalence itself: refuted on the as-is tree by the witness(es) above; if the check is repaired in /repo the
   left disjunct is proved instead by the generic tactic (same statement checks on both trees) *)
Lemma check_iff_contract_binary_auprc_update_input_check_refuted_or_fixed :
  (forall e, wf sig_binary_auprc_update_input_check e -> accepts chk_binary_auprc_update_input_check e = contractb_binary_auprc_update_input_check e)
  \/ (exists e, wf sig_binary_auprc_update_input_check e /\ accepts chk_binary_auprc_update_input_check e <> contractb_binary_auprc_update_input_check e).
Proof.
  first [ left; intros e H; unfold chk_binary_auprc_update_input_check, contractb_binary_auprc_update_input_check; solve [shape_solve H]
        | right; exists wit_binary_auprc_update_input_check_0; vm_compute; repeat split; congruence
        | right; exists wit_binary_auprc_update_input_check_1; vm_compute; repeat split; congruence ].
Qed.
Definition refuted_now_binary_auprc_update_input_check : bool := negb (Bool.eqb (accepts chk_binary_auprc_update_input_check wit_binary_auprc_update_input_check_0) (contractb_binary_auprc_update_input_check wit_binary_auprc_update_input_check_0)) || negb (Bool.eqb (accepts chk_binary_auprc_update_input_check wit_binary_auprc_update_input_check_1) (contractb_binary_auprc_update_input_check wit_binary_auprc_update_input_check_1)).

Definition wit_binary_auroc_update_input_check_0 : env := env_of [("input", (ATensor [])); ("target", (ATensor [])); ("num_tasks", (AInt 1)); ("weight", ANone)] [] None.
Definition wit_binary_auroc_update_input_check_1 : env := env_of [("input", (ATensor [2%nat; 3%nat; 4%nat])); ("target", (ATensor [2%nat; 3%nat; 4%nat])); ("num_tasks", (AInt 2)); ("weight", ANone)] [] None.
(* completeness half: every documented input is accepted *)
Lemma impl_binary_auroc_update_input_check e : wf sig_binary_auroc_update_input_check e -> implb (contractb_binary_auroc_update_input_check e) (accepts chk_binary_auroc_update_input_check e) = true.
Proof. intros H. unfold chk_binary_auroc_update_input_check, contractb_binary_auroc_update_input_check. shape_solve H. Qed.
Lemma contract_implies_accepts_binary_auroc_update_input_check : forall e, wf sig_binary_auroc_update_input_check e -> contract_binary_auroc_update_input_check e -> accepts chk_binary_auroc_update_input_check e = true.
Proof. intros e H C. exact (implb_true_intro _ _ (impl_binary_auroc_update_input_check e H) C). Qed.
(* the equivalence itself: refuted on the as-is tree by the witness(es) above; if the check is repaired in /repo the
   left disjunct is proved instead by the generic tactic (same statement checks on both trees) *)
Lemma check_iff_contract_binary_auroc_update_input_check_refuted_or_fixed :
  (forall e, wf sig_binary_auroc_update_input_check e -> accepts chk_binary_auroc_update_input_check e = contractb_binary_auroc_update_input_check e)
  \/ (exists e, wf sig_binary_auroc_update_input_check e /\ accepts chk_binary_auroc_update_input_check e <> contractb_binary_auroc_update_input_check e).
Proof.
  first [ left; intros e H; unfold chk_binary_auroc_update_input_check, contractb_binary_auroc_update_input_check; solve [shape_solve H]
        | right; exists wit_binary_auroc_update_input_check_0; vm_compute; repeat split; congruence
        | right; exists wit_binary_auroc_update_input_check_1; vm_compute; repeat split; congruence ].
Qed.
Definition refuted_now_binary_auroc_update_input_check : bool := negb (Bool.eqb (accepts chk_binary_auroc_update_input_check wit_binary_auroc_update_input_check_0) (contractb_binary_auroc_update_input_check wit_binary_auroc_update_input_check_0)) || negb (Bool.eqb (accepts chk_binary_auroc_update_input_check wit_binary_auroc_update_input_check_1) (contractb_binary_auroc_update_input_check wit_binary_auroc_update_input_check_1)).

Definition wit_binary_binned_auprc_update_input_check_0 : env := env_of [("input", (ATensor [2%nat; 3%nat])); ("target", (ATensor [2%nat; 3%nat])); ("num_tasks", (AInt 1)); ("threshold", (ATensor [5%nat]))] [] None.
(* completeness half: every documented input is accepted *)
Lemma impl_binary_binned_auprc_update_input_check e : wf sig_binary_binned_auprc_update_input_check e -> implb (contractb_binary_binned_auprc_update_input_check e) (accepts chk_binary_binned_auprc_update_input_check e) = true.
Proof. intros H. unfold chk_binary_binned_auprc_update_input_check, contractb_binary_binned_auprc_update_input_check. shape_solve H. Qed.
Lemma contract_implies_accepts_binary_binned_auprc_update_input_check : forall e, wf sig_binary_binned_auprc_update_input_check e -> contract_binary_binned_auprc_update_input_check e -> accepts chk_binary_binned_auprc_update_input_check e = true.
Proof. intros e H C. exact (implb_true_intro _ _ (impl_binary_binned_auprc_update_input_check e H) C). Qed.
(* the equivalence itself: refuted on the as-is tree by the witness(es) above; if the check is repaired in /repo the
   left disjunct is proved instead by the generic tactic (same statement checks on both trees) *)
Lemma check_iff_contract_binary_binned_auprc_update_input_check_refuted_or_fixed :
  (forall e, wf sig_binary_binned_auprc_update_input_check e -> accepts chk_binary_binned_auprc_update_input_check e = contractb_binary_binned_auprc_update_input_check e)
  \/ (exists e, wf sig_binary_binned_auprc_update_input_check e /\ accepts chk_binary_binned_auprc_update_input_check e <> contractb_binary_binned_auprc_update_input_check e).
Proof.
  first [ left; intros e H; unfold chk_binary_binned_auprc_update_input_check, contractb_binary_binned_auprc_update_input_check; solve [shape_solve H]
        | right; exists wit_binary_binned_auprc_update_input_check_0; vm_compute; repeat split; congruence ].
Qed.
Definition refuted_now_binary_binned_auprc_update_input_check : bool := negb (Bool.eqb (accepts chk_binary_binned_auprc_update_input_check wit_binary_binned_auprc_update_input_check_0) (contractb_binary_binned_auprc_update_input_check wit_binary_binned_auprc_update_input_check_0)).

Definition wit_binary_binned_auroc_param_check_0 : env := env_of [("num_tasks", (AInt 1)); ("threshold", (ATensor [2%nat; 2%nat]))] [] (Some false).
(* completeness half: every documented input is accepted *)
Lemma impl_binary_binned_auroc_param_check e : wf sig_binary_binned_auroc_param_check e -> implb (contractb_binary_binned_auroc_param_check e) (accepts chk_binary_binned_auroc_param_check e) = true.
Proof. intros H. unfold chk_binary_binned_auroc_param_check, contractb_binary_binned_auroc_param_check. shape_solve H. Qed.
Lemma contract_implies_accepts_binary_binned_auroc_param_check : forall e, wf sig_binary_binned_auroc_param_check e -> contract_binary_binned_auroc_param_check e -> accepts chk_binary_binned_auroc_param_check e = true.
Proof. intros e H C. exact (implb_true_intro _ _ (impl_binary_binned_auroc_param_check e H) C). Qed.
(* the equivalence itself: refuted on the as-is tree by the witness(es) above; if the check is repaired in /repo the
   left disjunct is proved instead by the generic tactic (same statement checks on both trees) *)
Lemma check_iff_contract_binary_binned_auroc_param_check_refuted_or_fixed :
  (forall e, wf sig_binary_binned_auroc_param_check e -> accepts chk_binary_binned_auroc_param_check e = contractb_binary_binned_auroc_param_check e)
  \/ (exists e, wf sig_binary_binned_auroc_param_check e /\ accepts chk_binary_binned_auroc_param_check e <> contractb_binary_binned_auroc_param_check e).
Proof.
  first [ left; intros e H; unfold chk_binary_binned_auroc_param_check, contractb_binary_binned_auroc_param_check; solve [shape_solve H]
        | right; exists wit_binary_binned_auroc_param_check_0; vm_compute; repeat split; congruence ].
Qed.
Definition refuted_now_binary_binned_auroc_param_check : bool := negb (Bool.eqb (accepts chk_binary_binned_auroc_param_check wit_binary_binned_auroc_param_check_0) (contractb_binary_binned_auroc_param_check wit_binary_binned_auroc_param_check_0)).

Definition wit_binary_binned_auroc_update_input_check_0 : env := env_of [("input", (ATensor [])); ("target", (ATensor [])); ("num_tasks", (AInt 1)); ("threshold", (ATensor [5%nat]))] [] None.
(* completeness half: every documented input is accepted *)
Lemma impl_binary_binned_auroc_update_input_check e : wf sig_binary_binned_auroc_update_input_check e -> implb (contractb_binary_binned_auroc_update_input_check e) (accepts chk_binary_binned_auroc_update_input_check e) = true.
Proof. intros H. unfold chk_binary_binned_auroc_update_input_check, contractb_binary_binned_auroc_update_input_check. shape_solve H. Qed.
Lemma contract_implies_accepts_binary_binned_auroc_update_input_check : forall e, wf sig_binary_binned_auroc_update_input_check e -> contract_binary_binned_auroc_update_input_check e -> accepts chk_binary_binned_auroc_update_input_check e = true.
Proof. intros e H C. exact (implb_true_intro _ _ (impl_binary_binned_auroc_update_input_check e H) C). Qed.
(* the equivalence itself: refuted on the as-is tree by the witness(es) above; if the check is repaired in /repo the
   left disjunct is proved instead by the generic tactic (same statement checks on both trees) *)
Lemma check_iff_contract_binary_binned_auroc_update_input_check_refuted_or_fixed :
  (forall e, wf sig_binary_binned_auroc_update_input_check e -> accepts chk_binary_binned_auroc_update_input_check e = contractb_binary_binned_auroc_update_input_check e)
  \/ (exists e, wf sig_binary_binned_auroc_update_input_check e /\ accepts chk_binary_binned_auroc_update_input_check e <> contractb_binary_binned_auroc_update_input_check e).
Proof.
  first [ left; intros e H; unfold chk_binary_binned_auroc_update_input_check, contractb_binary_binned_auroc_update_input_check; solve [shape_solve H]
        | right; exists wit_binary_binned_auroc_update_input_check_0; vm_compute; repeat split; congruence ].
Qed.
Definition refuted_now_binary_binned_auroc_update_input_check : bool := negb (Bool.eqb (accepts chk_binary_binned_auroc_update_input_check wit_binary_binned_auroc_update_input_check_0) (contractb_binary_binned_auroc_update_input_check wit_binary_binned_auroc_update_input_check_0)).

Definition wit_binned_precision_recall_curve_param_check_0 : env := env_of [("threshold", (ATensor [2%nat; 2%nat]))] [] (Some false).
(* completeness half: every documented input is accepted *)
Lemma impl_binned_precision_recall_curve_param_check e : wf sig_binned_precision_recall_curve_param_check e -> implb (contractb_binned_precision_recall_curve_param_check e) (accepts chk_binned_precision_recall_curve_param_check e) = true.
Proof. intros H. unfold chk_binned_precision_recall_curve_param_check, contractb_binned_precision_recall_curve_param_check. shape_solve H. Qed.
Lemma contract_implies_accepts_binned_precision_recall_curve_param_check : forall e, wf sig_binned_precision_recall_curve_param_check e -> contract_binned_precision_recall_curve_param_check e -> accepts chk_binned_precision_recall_curve_param_check e = true.
Proof. intros e H C. exact (implb_true_intro _ _ (impl_binned_precision_recall_curve_param_check e H) C). Qed.
(* the equivalence itself: refuted on the as-is tree by the witness(es) above; if the check is repaired in /repo the
   left disjunct is proved instead by the generic tactic (same statement checks on both trees) *)
Lemma check_iff_contract_binned_precision_recall_curve_param_check_refuted_or_fixed :
  (forall e, wf sig_binned_precision_recall_curve_param_check e -> accepts chk_binned_precision_recall_curve_param_check e = contractb_binned_precision_recall_curve_param_check e)
  \/ (exists e, wf sig_binned_precision_recall_curve_param_check e /\ accepts chk_binned_precision_recall_curve_param_check e <> contractb_binned_precision_recall_curve_param_check e).
Proof.
  first [ left; intros e H; unfold chk_binned_precision_recall_curve_param_check, contractb_binned_precision_recall_curve_param_check; solve [shape_solve H]
        | right; exists wit_binned_precision_recall_curve_param_check_0; vm_compute; repeat split; congruence ].
Qed.
Definition refuted_now_binned_precision_recall_curve_param_check : bool := negb (Bool.eqb (accepts chk_binned_precision_recall_curve_param_check wit_binned_precision_recall_curve_param_check_0) (contractb_binned_precision_recall_curve_param_check wit_binned_precision_recall_curve_param_check_0)).

Definition wit_confusion_matrix_update_input_check_0 : env := env_of [("input", (ATensor [3%nat])); ("target", (ATensor [3%nat])); ("num_classes", (AInt 3))] [("torch.min(input) < 0", true); ("torch.min(target) < 0", true)] (Some false).
(* completeness half: every documented input is accepted *)
Lemma impl_confusion_matrix_update_input_check e : wf sig_confusion_matrix_update_input_check e -> implb (contractb_confusion_matrix_update_input_check e) (accepts chk_confusion_matrix_update_input_check e) = true.
Proof. intros H. unfold chk_confusion_matrix_update_input_check, contractb_confusion_matrix_update_input_check. shape_solve H. Qed.
Lemma contract_implies_accepts_confusion_matrix_update_input_check : forall e, wf sig_confusion_matrix_update_input_check e -> contract_confusion_matrix_update_input_check e -> accepts chk_confusion_matrix_update_input_check e = true.
Proof. intros e H C. exact (implb_true_intro _ _ (impl_confusion_matrix_update_input_check e H) C). Qed.
(* the equivalence itself: refuted on the as-is tree by the witness(es) above; if the check is repaired in /repo the
   left disjunct is proved instead by the generic tactic (same statement checks on both trees) *)
Lemma check_iff_contract_confusion_matrix_update_input_check_refuted_or_fixed :
  (forall e, wf sig_confusion_matrix_update_input_check e -> accepts chk_confusion_matrix_update_input_check e = contractb_confusion_matrix_update_input_check e)
  \/ (exists e, wf sig_confusion_matrix_update_input_check e /\ accepts chk_confusion_matrix_update_input_check e <> contractb_confusion_matrix_update_input_check e).
Proof.
  first [ left; intros e H; unfold chk_confusion_matrix_update_input_check, contractb_confusion_matrix_update_input_check; solve [shape_solve H]
        | right; exists wit_confusion_matrix_update_input_check_0; vm_compute; repeat split; congruence ].
Qed.
Definition refuted_now_confusion_matrix_update_input_check : bool := negb (Bool.eqb (accepts chk_confusion_matrix_update_input_check wit_confusion_matrix_update_input_check_0) (contractb_confusion_matrix_update_input_check wit_confusion_matrix_update_input_check_0)).

Definition wit_mean_squared_error_update_input_check_0 : env := env_of [("input", (ATensor [3%nat])); ("target", (ATensor [3%nat])); ("sample_weight", (ATensor [3%nat; 1%nat]))] [] None.
Definition wit_mean_squared_error_update_input_check_1 : env := env_of [("input", (ATensor [])); ("target", (ATensor [])); ("sample_weight", ANone)] [] None.
(* completeness half: every documented input is accepted *)
Lemma impl_mean_squared_error_update_input_check e : wf sig_mean_squared_error_update_input_check e -> implb (contractb_mean_squared_error_update_input_check e) (accepts chk_mean_squared_error_update_input_check e) = true.
Proof. intros H. unfold chk_mean_squared_error_update_input_check, contractb_mean_squared_error_update_input_check. shape_solve H. Qed.
Lemma contract_implies_accepts_mean_squared_error_update_input_check : forall e, wf sig_mean_squared_error_update_input_check e -> contract_mean_squared_error_update_input_check e -> accepts chk_mean_squared_error_update_input_check e = true.
Proof. intros e H C. exact (implb_true_intro _ _ (impl_mean_squared_error_update_input_check e H) C). Qed.
(* the equivalence itself: refuted on the as-is tree by the witness(es) above; if the check is repaired in /repo the
   left disjunct is proved instead by the generic tactic (same statement checks on both trees) *)
Lemma check_iff_contract_mean_squared_error_update_input_check_refuted_or_fixed :
  (forall e, wf sig_mean_squared_error_update_input_check e -> accepts chk_mean_squared_error_update_input_check e = contractb_mean_squared_error_update_input_check e)
  \/ (exists e, wf sig_mean_squared_error_update_input_check e /\ accepts chk_mean_squared_error_update_input_check e <> contractb_mean_squared_error_update_input_check e).
Proof.
  first [ left; intros e H; unfold chk_mean_squared_error_update_input_check, contractb_mean_squared_error_update_input_check; solve [shape_solve H]
        | right; exists wit_mean_squared_error_update_input_check_0; vm_compute; repeat split; congruence
        | right; exists wit_mean_squared_error_update_input_check_1; vm_compute; repeat split; congruence ].
Qed.
Definition refuted_now_mean_squared_error_update_input_check : bool := negb (Bool.eqb (accepts chk_mean_squared_error_update_input_check wit_mean_squared_error_update_input_check_0) (contractb_mean_squared_error_update_input_check wit_mean_squared_error_update_input_check_0)) || negb (Bool.eqb (accepts chk_mean_squared_error_update_input_check wit_mean_squared_error_update_input_check_1) (contractb_mean_squared_error_update_input_check wit_mean_squared_error_update_input_check_1)).

Definition wit_multiclass_binned_auroc_param_check_0 : env := env_of [("num_classes", (AInt 3)); ("threshold", (ATensor [2%nat; 2%nat])); ("average", (AStr "macro"))] [] (Some false).
(* completeness half: every documented input is accepted *)
Lemma impl_multiclass_binned_auroc_param_check e : wf sig_multiclass_binned_auroc_param_check e -> implb (contractb_multiclass_binned_auroc_param_check e) (accepts chk_multiclass_binned_auroc_param_check e) = true.
Proof. intros H. unfold chk_multiclass_binned_auroc_param_check, contractb_multiclass_binned_auroc_param_check. shape_solve H. Qed.
Lemma contract_implies_accepts_multiclass_binned_auroc_param_check : forall e, wf sig_multiclass_binned_auroc_param_check e -> contract_multiclass_binned_auroc_param_check e -> accepts chk_multiclass_binned_auroc_param_check e = true.
Proof. intros e H C. exact (implb_true_intro _ _ (impl_multiclass_binned_auroc_param_check e H) C). Qed.
(* the equivalence itself: refuted on the as-is tree by the witness(es) above; if the check is repaired in /repo the
   left disjunct is proved instead by the generic tactic (same statement checks on both trees) *)
Lemma check_iff_contract_multiclass_binned_auroc_param_check_refuted_or_fixed :
  (forall e, wf sig_multiclass_binned_auroc_param_check e -> accepts chk_multiclass_binned_auroc_param_check e = contractb_multiclass_binned_auroc_param_check e)
  \/ (exists e, wf sig_multiclass_binned_auroc_param_check e /\ accepts chk_multiclass_binned_auroc_param_check e <> contractb_multiclass_binned_auroc_param_check e).
Proof.
  first [ left; intros e H; unfold chk_multiclass_binned_auroc_param_check, contractb_multiclass_binned_auroc_param_check; solve [shape_solve H]
        | right; exists wit_multiclass_binned_auroc_param_check_0; vm_compute; repeat split; congruence ].
Qed.
Definition refuted_now_multiclass_binned_auroc_param_check : bool := negb (Bool.eqb (accepts chk_multiclass_binned_auroc_param_check wit_multiclass_binned_auroc_param_check_0) (contractb_multiclass_binned_auroc_param_check wit_multiclass_binned_auroc_param_check_0)).

Definition wit_multilabel_accuracy_update_input_check_0 : env := env_of [("input", (ATensor [3%nat])); ("target", (ATensor [3%nat]))] [] None.
(* completeness half: every documented input is accepted *)
Lemma impl_multilabel_accuracy_update_input_check e : wf sig_multilabel_accuracy_update_input_check e -> implb (contractb_multilabel_accuracy_update_input_check e) (accepts chk_multilabel_accuracy_update_input_check e) = true.
Proof. intros H. unfold chk_multilabel_accuracy_update_input_check, contractb_multilabel_accuracy_update_input_check. shape_solve H. Qed.
Lemma contract_implies_accepts_multilabel_accuracy_update_input_check : forall e, wf sig_multilabel_accuracy_update_input_check e -> contract_multilabel_accuracy_update_input_check e -> accepts chk_multilabel_accuracy_update_input_check e = true.
Proof. intros e H C. exact (implb_true_intro _ _ (impl_multilabel_accuracy_update_input_check e H) C). Qed.
(* the equivalence itself: refuted on the as-is tree by the witness(es) above; if the check is repaired in /repo the
   left disjunct is proved instead by the generic tactic (same statement checks on both trees) *)
Lemma check_iff_contract_multilabel_accuracy_update_input_check_refuted_or_fixed :
  (forall e, wf sig_multilabel_accuracy_update_input_check e -> accepts chk_multilabel_accuracy_update_input_check e = contractb_multilabel_accuracy_update_input_check e)
  \/ (exists e, wf sig_multilabel_accuracy_update_input_check e /\ accepts chk_multilabel_accuracy_update_input_check e <> contractb_multilabel_accuracy_update_input_check e).
Proof.
  first [ left; intros e H; unfold chk_multilabel_accuracy_update_input_check, contractb_multilabel_accuracy_update_input_check; solve [shape_solve H]
        | right; exists wit_multilabel_accuracy_update_input_check_0; vm_compute; repeat split; congruence ].
Qed.
Definition refuted_now_multilabel_accuracy_update_input_check : bool := negb (Bool.eqb (accepts chk_multilabel_accuracy_update_input_check wit_multilabel_accuracy_update_input_check_0) (contractb_multilabel_accuracy_update_input_check wit_multilabel_accuracy_update_input_check_0)).

Definition wit_r2_score_update_input_check_0 : env := env_of [("input", (ATensor [])); ("target", (ATensor []))] [] None.
(* completeness half: every documented input is accepted *)
Lemma impl_r2_score_update_input_check e : wf sig_r2_score_update_input_check e -> implb (contractb_r2_score_update_input_check e) (accepts chk_r2_score_update_input_check e) = true.
Proof. intros H. unfold chk_r2_score_update_input_check, contractb_r2_score_update_input_check. shape_solve H. Qed.
Lemma contract_implies_accepts_r2_score_update_input_check : forall e, wf sig_r2_score_update_input_check e -> contract_r2_score_update_input_check e -> accepts chk_r2_score_update_input_check e = true.
Proof. intros e H C. exact (implb_true_intro _ _ (impl_r2_score_update_input_check e H) C). Qed.
(* the equivalence itself: refuted on the as-is tree by the witness(es) above; if the check is repaired in /repo the
   left disjunct is proved instead by the generic tactic (same statement checks on both trees) *)
Lemma check_iff_contract_r2_score_update_input_check_refuted_or_fixed :
  (forall e, wf sig_r2_score_update_input_check e -> accepts chk_r2_score_update_input_check e = contractb_r2_score_update_input_check e)
  \/ (exists e, wf sig_r2_score_update_input_check e /\ accepts chk_r2_score_update_input_check e <> contractb_r2_score_update_input_check e).
Proof.
  first [ left; intros e H; unfold chk_r2_score_update_input_check, contractb_r2_score_update_input_check; solve [shape_solve H]
        | right; exists wit_r2_score_update_input_check_0; vm_compute; repeat split; congruence ].
Qed.
Definition refuted_now_r2_score_update_input_check : bool := negb (Bool.eqb (accepts chk_r2_score_update_input_check wit_r2_score_update_input_check_0) (contractb_r2_score_update_input_check wit_r2_score_update_input_check_0)).

Definition wit_topk_multilabel_accuracy_param_check_0 : env := env_of [("criteria", (AStr "exact_match")); ("k", (AInt 1))] [] None.
(* the equivalence itself: refuted on the as-is tree by the witness(es) above; if the check is repaired in /repo the
   left disjunct is proved instead by the generic tactic (same statement checks on both trees) *)
Lemma check_iff_contract_topk_multilabel_accuracy_param_check_refuted_or_fixed :
  (forall e, wf sig_topk_multilabel_accuracy_param_check e -> accepts chk_topk_multilabel_accuracy_param_check e = contractb_topk_multilabel_accuracy_param_check e)
  \/ (exists e, wf sig_topk_multilabel_accuracy_param_check e /\ accepts chk_topk_multilabel_accuracy_param_check e <> contractb_topk_multilabel_accuracy_param_check e).
Proof.
  first [ left; intros e H; unfold chk_topk_multilabel_accuracy_param_check, contractb_topk_multilabel_accuracy_param_check; solve [shape_solve H]
        | right; exists wit_topk_multilabel_accuracy_param_check_0; vm_compute; repeat split; congruence ].
Qed.
Definition refuted_now_topk_multilabel_accuracy_param_check : bool := negb (Bool.eqb (accepts chk_topk_multilabel_accuracy_param_check wit_topk_multilabel_accuracy_param_check_0) (contractb_topk_multilabel_accuracy_param_check wit_topk_multilabel_accuracy_param_check_0)).

Definition wit_weighted_calibration_input_check_0 : env := env_of [("weight", AFloat); ("input", (ATensor [])); ("target", (ATensor [])); ("num_tasks", (AInt 1))] [] None.
Definition wit_weighted_calibration_input_check_1 : env := env_of [("weight", AFloat); ("input", (ATensor [2%nat; 3%nat; 4%nat])); ("target", (ATensor [2%nat; 3%nat; 4%nat])); ("num_tasks", (AInt 2))] [] None.
(* completeness half: every documented input is accepted *)
Lemma impl_weighted_calibration_input_check e : wf sig_weighted_calibration_input_check e -> implb (contractb_weighted_calibration_input_check e) (accepts chk_weighted_calibration_input_check e) = true.
Proof. intros H. unfold chk_weighted_calibration_input_check, contractb_weighted_calibration_input_check. shape_solve H. Qed.
Lemma contract_implies_accepts_weighted_calibration_input_check : forall e, wf sig_weighted_calibration_input_check e -> contract_weighted_calibration_input_check e -> accepts chk_weighted_calibration_input_check e = true.
Proof. intros e H C. exact (implb_true_intro _ _ (impl_weighted_calibration_input_check e H) C). Qed.
(* the equivalence itself: refuted on the as-is tree by the witness(es) above; if the check is repaired in /repo the
   left disjunct is proved instead by the generic tactic (same statement checks on both trees) *)
Lemma check_iff_contract_weighted_calibration_input_check_refuted_or_fixed :
  (forall e, wf sig_weighted_calibration_input_check e -> accepts chk_weighted_calibration_input_check e = contractb_weighted_calibration_input_check e)
  \/ (exists e, wf sig_weighted_calibration_input_check e /\ accepts chk_weighted_calibration_input_check e <> contractb_weighted_calibration_input_check e).
Proof.
  first [ left; intros e H; unfold chk_weighted_calibration_input_check, contractb_weighted_calibration_input_check; solve [shape_solve H]
        | right; exists wit_weighted_calibration_input_check_0; vm_compute; repeat split; congruence
        | right; exists wit_weighted_calibration_input_check_1; vm_compute; repeat split; congruence ].
Qed.
Definition refuted_now_weighted_calibration_input_check : bool := negb (Bool.eqb (accepts chk_weighted_calibration_input_check wit_weighted_calibration_input_check_0) (contractb_weighted_calibration_input_check wit_weighted_calibration_input_check_0)) || negb (Bool.eqb (accepts chk_weighted_calibration_input_check wit_weighted_calibration_input_check_1) (contractb_weighted_calibration_input_check wit_weighted_calibration_input_check_1)).

Definition wit_window_mean_squared_error_update_input_check_0 : env := env_of [("input", (ATensor [])); ("target", (ATensor [])); ("sample_weight", ANone); ("num_tasks", (AInt 1))] [] None.
(* completeness half: every documented input is accepted *)
Lemma impl_window_mean_squared_error_update_input_check e : wf sig_window_mean_squared_error_update_input_check e -> implb (contractb_window_mean_squared_error_update_input_check e) (accepts chk_window_mean_squared_error_update_input_check e) = true.
Proof. intros H. unfold chk_window_mean_squared_error_update_input_check, contractb_window_mean_squared_error_update_input_check. shape_solve H. Qed.
Lemma contract_implies_accepts_window_mean_squared_error_update_input_check : forall e, wf sig_window_mean_squared_error_update_input_check e -> contract_window_mean_squared_error_update_input_check e -> accepts chk_window_mean_squared_error_update_input_check e = true.
Proof. intros e H C. exact (implb_true_intro _ _ (impl_window_mean_squared_error_update_input_check e H) C). Qed.
(* the equivalence itself: refuted on the as-is tree by the witness(es) above; if the check is repaired in /repo the
   left disjunct is proved instead by the generic tactic (same statement checks on both trees) *)
Lemma check_iff_contract_window_mean_squared_error_update_input_check_refuted_or_fixed :
  (forall e, wf sig_window_mean_squared_error_update_input_check e -> accepts chk_window_mean_squared_error_update_input_check e = contractb_window_mean_squared_error_update_input_check e)
  \/ (exists e, wf sig_window_mean_squared_error_update_input_check e /\ accepts chk_window_mean_squared_error_update_input_check e <> contractb_window_mean_squared_error_update_input_check e).
Proof.
  first [ left; intros e H; unfold chk_window_mean_squared_error_update_input_check, contractb_window_mean_squared_error_update_input_check; solve [shape_solve H]
        | right; exists wit_window_mean_squared_error_update_input_check_0; vm_compute; repeat split; congruence ].
Qed.
Definition refuted_now_window_mean_squared_error_update_input_check : bool := negb (Bool.eqb (accepts chk_window_mean_squared_error_update_input_check wit_window_mean_squared_error_update_input_check_0) (contractb_window_mean_squared_error_update_input_check wit_window_mean_squared_error_update_input_check_0)).

