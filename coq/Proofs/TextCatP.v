(* C03 / C12 for the text metrics: class form on any batching = the functional form (what the
   `@model text_*_fn` entry points run) on the concatenated corpus; invariance under any permutation
   and re-batching of the sentence pairs.  BLEU: under the per-update validity proviso. *)
From Coq Require Import ZArith List Bool QArith Qcanon Arith Lia Permutation.
From TE Require Import Base.Val Base.Nd Base.Xq Algebra.Metric Algebra.MergeTree Algebra.Pool Algebra.Additive
  Models.Text Proofs.TextP.
From TE Require Models.Counting Proofs.CountingCatP.
Import ListNotations.
Open Scope nat_scope.

Notation class_run := CountingCatP.class_run.
Notation fn_of := Counting.fn_of.

(* generic: class form = gamma (beta (concatenation)) for an additive metric with list-like batches *)
Lemma class_run_concat (S : AddSpec) (c : acfg S) bcat bnil :
  (forall b1 b2, abeta S c (bcat b1 b2) = nadd (abeta S c b1) (abeta S c b2)) ->
  abeta S c bnil = azero S c ->
  forall bs, Forall (fun b => avalid S c b = true) bs ->
  class_run S c bs = fn_of S c (fold_right bcat bnil bs).
Proof.
  intros Hc Hn bs Hv.
  exact (add_tree_eq_concat S c bcat bnil Hc Hn (Shard (add_metric S) bs) Hv).
Qed.

Lemma all_true {X} (l : list X) : Forall (fun _ => true = true) l.
Proof. apply Forall_forall. intros; reflexivity. Qed.

(* ---- WER / WIP / WIL: every batch is accepted, the empty corpus included ---- *)
Lemma wer_class_eq_fn bs : class_run wer_spec_add tt bs = fn_of wer_spec_add tt (concat bs).
Proof. exact (class_run_concat wer_spec_add tt (@app _) [] wer_beta_app eq_refl bs (all_true bs)). Qed.
Lemma wip_class_eq_fn bs : class_run wip_spec_add tt bs = fn_of wip_spec_add tt (concat bs).
Proof. exact (class_run_concat wip_spec_add tt (@app _) [] wip_beta_app eq_refl bs (all_true bs)). Qed.
Lemma wil_class_eq_fn bs : class_run wil_spec_add tt bs = fn_of wil_spec_add tt (concat bs).
Proof. exact (class_run_concat wil_spec_add tt (@app _) [] wil_beta_app eq_refl bs (all_true bs)). Qed.

(* the @model text_*_fn entry points run exactly fn_of behind decoding *)
Lemma run_wer_fn_is_fn_of cv bv b : dec_pbatch bv = Some b ->
  run_text_wer_fn (VL [cv; bv]) = xq_val (fn_of wer_spec_add tt b).
Proof. intros H. unfold run_text_wer_fn. rewrite H. reflexivity. Qed.
Lemma run_wip_fn_is_fn_of cv bv b : dec_pbatch bv = Some b ->
  run_text_wip_fn (VL [cv; bv]) = xq_val (fn_of wip_spec_add tt b).
Proof. intros H. unfold run_text_wip_fn. rewrite H. reflexivity. Qed.
Lemma run_wil_fn_is_fn_of cv bv b : dec_pbatch bv = Some b ->
  run_text_wil_fn (VL [cv; bv]) = xq_val (fn_of wil_spec_add tt b).
Proof. intros H. unfold run_text_wil_fn. rewrite H. reflexivity. Qed.

(* permutation of the pairs *)
Lemma nsum_perm {X} (f : X -> nat) l l' : Permutation l l' -> nsum f l = nsum f l'.
Proof. unfold nsum. induction 1; cbn [fold_right]; lia. Qed.
Lemma wer_beta_perm b b' : Permutation b b' -> wer_beta tt b = wer_beta tt b'.
Proof.
  intros H. unfold wer_beta, errors_of, tlen_of.
  rewrite (nsum_perm _ b b' H), (nsum_perm (fun p => List.length (snd p)) b b' H). reflexivity.
Qed.
Lemma wip_beta_perm b b' : Permutation b b' -> wip_beta tt b = wip_beta tt b'.
Proof.
  intros H. unfold wip_beta, errors_of, tlen_of, ilen_of, maxlen_of.
  rewrite (nsum_perm (fun p => edit_distance (fst p) (snd p)) b b' H), (nsum_perm (fun p => List.length (snd p)) b b' H),
    (nsum_perm (fun p => List.length (fst p)) b b' H),
    (nsum_perm (fun p => Nat.max (List.length (snd p)) (List.length (fst p))) b b' H). reflexivity.
Qed.
Lemma wil_beta_perm b b' : Permutation b b' -> wil_beta tt b = wil_beta tt b'.
Proof.
  intros H. unfold wil_beta, errors_of, tlen_of, ilen_of, maxlen_of.
  rewrite (nsum_perm (fun p => edit_distance (fst p) (snd p)) b b' H), (nsum_perm (fun p => List.length (snd p)) b b' H),
    (nsum_perm (fun p => List.length (fst p)) b b' H),
    (nsum_perm (fun p => Nat.max (List.length (snd p)) (List.length (fst p))) b b' H). reflexivity.
Qed.

(* any two batchings of any two orderings of the same multiset of pairs *)
Lemma wer_multiset bs bs' : Permutation (concat bs) (concat bs') ->
  class_run wer_spec_add tt bs = class_run wer_spec_add tt bs'.
Proof. intros H. rewrite !wer_class_eq_fn. unfold fn_of. cbn [abeta wer_spec_add]. rewrite (wer_beta_perm _ _ H). reflexivity. Qed.
Lemma wip_multiset bs bs' : Permutation (concat bs) (concat bs') ->
  class_run wip_spec_add tt bs = class_run wip_spec_add tt bs'.
Proof. intros H. rewrite !wip_class_eq_fn. unfold fn_of. cbn [abeta wip_spec_add]. rewrite (wip_beta_perm _ _ H). reflexivity. Qed.
Lemma wil_multiset bs bs' : Permutation (concat bs) (concat bs') ->
  class_run wil_spec_add tt bs = class_run wil_spec_add tt bs'.
Proof. intros H. rewrite !wil_class_eq_fn. unfold fn_of. cbn [abeta wil_spec_add]. rewrite (wil_beta_perm _ _ H). reflexivity. Qed.

(* ---- BLEU ---- *)
Definition bleu_valid (c : bcfg) (b : bbatch) : Prop := bleu_ok (fst c) b = true.

Lemma bleu_class_eq_fn (c : bcfg) bs : Forall (bleu_valid c) bs ->
  class_run bleu_spec_add c bs = fn_of bleu_spec_add c (concat bs).
Proof.
  intros Hv.
  exact (class_run_concat bleu_spec_add c (@app _) []
           (fun b1 b2 => bleu_beta_with_app sent_matches c b1 b2 sent_matches_length)
           (bleu_beta_with_nil sent_matches c) bs Hv).
Qed.

(* the concatenation of accepted corpora is accepted (so the functional does not raise on it) *)
Lemma vadd_pos : forall a b, forallb (fun x => 0 <? x) a = true -> List.length a = List.length b ->
  forallb (fun x => 0 <? x) (vadd a b) = true.
Proof.
  unfold vadd. induction a as [|x a IH]; intros [|y b] Ha Hl; cbn [map2 forallb List.length] in *; try reflexivity; try discriminate.
  apply andb_true_iff in Ha as [Hx Ha]. rewrite IH by (try assumption; lia).
  apply Nat.ltb_lt in Hx. rewrite (proj2 (Nat.ltb_lt 0 (x + y))) by lia. reflexivity.
Qed.
Lemma bleu_ok_app_l n b1 b2 :
  forallb (fun p : sent * list sent => match snd p with [] => false | _ => true end) b2 = true ->
  bleu_ok n b1 = true -> bleu_ok n (b1 ++ b2) = true.
Proof.
  unfold bleu_ok. intros H2 H1. apply andb_true_iff in H1 as [Hr Hp].
  rewrite forallb_app, Hr, H2. cbn [andb]. unfold bleu_possible. rewrite map_app, vsum_app.
  - apply vadd_pos; [exact Hp|].
    fold (bleu_possible n b1). fold (bleu_possible n b2). rewrite !bleu_possible_length. reflexivity.
  - apply Forall_forall. intros r Hr'. apply in_map_iff in Hr' as [p [<- _]]. apply sent_possible_length.
Qed.
Lemma bleu_ok_refs n b : bleu_ok n b = true ->
  forallb (fun p : sent * list sent => match snd p with [] => false | _ => true end) b = true.
Proof. unfold bleu_ok. intros H. apply andb_true_iff in H as [H _]. exact H. Qed.
Lemma bleu_ok_concat (c : bcfg) : forall b bs, bleu_valid c b -> Forall (bleu_valid c) bs ->
  bleu_valid c (concat (b :: bs)).
Proof.
  unfold bleu_valid. intros b bs Hb Hbs. cbn [concat]. apply bleu_ok_app_l; [|exact Hb].
  induction Hbs as [|x bs Hx _ IH]; cbn [concat]; [reflexivity|].
  rewrite forallb_app, IH, (bleu_ok_refs _ _ Hx). reflexivity.
Qed.

(* what the @model text_bleu_fn entry point runs on an accepted corpus *)
Definition bleu_fn (c : bcfg) (b : bbatch) : val := xr_val (bleu_of_stats c (bleu_beta c b)).
Lemma run_bleu_fn_is_bleu_fn cv bv c b : dec_bcfg cv = Some c -> dec_bbatch bv = Some b -> bleu_valid c b ->
  run_text_bleu_fn (VL [cv; bv]) = bleu_fn c b.
Proof. intros H1 H2 H3. unfold run_text_bleu_fn. rewrite H1, H2, H3. reflexivity. Qed.
Definition bleu_no_match (c : bcfg) (b : bbatch) : bool :=
  qeq (sumQl (map qn (bleu_matches sent_matches (fst c) b))) 0%Qc.
Lemma bleu_gamma_guard c b :
  fn_of bleu_spec_add c b = if bleu_no_match c b then vq 0%Qc else bleu_fn c b.
Proof.
  unfold Counting.fn_of, bleu_no_match, bleu_fn. cbn [agamma abeta bleu_spec_add]. unfold bleu_gamma, bleu_beta, bleu_beta_with.
  cbn [nget narr nth]. rewrite nlist_nvec. reflexivity.
Qed.

(* vsum / beta under permutation of the corpus *)
Lemma vadd_comm : forall a b, vadd a b = vadd b a.
Proof. unfold vadd. induction a as [|x a IH]; intros [|y b]; cbn [map2]; try reflexivity. rewrite IH. f_equal. lia. Qed.
Lemma vsum_perm n r r' : Permutation r r' -> vsum n r = vsum n r'.
Proof.
  unfold vsum. induction 1 as [| x l l' _ IH | x y l | l1 l2 l3 _ IH1 _ IH2]; cbn [fold_right].
  - reflexivity.
  - rewrite IH. reflexivity.
  - rewrite !vadd_assoc, (vadd_comm y x). reflexivity.
  - rewrite IH1. exact IH2.
Qed.
Lemma bleu_beta_perm c b b' : Permutation b b' -> bleu_beta c b = bleu_beta c b'.
Proof.
  intros H. unfold bleu_beta, bleu_beta_with, bleu_ilen, bleu_tlen, bleu_matches, bleu_possible.
  rewrite (nsum_perm (fun p => List.length (fst p)) b b' H), (nsum_perm (fun p => sent_reflen (fst p) (snd p)) b b' H).
  rewrite (vsum_perm _ _ _ (Permutation_map (fun p => sent_matches (fst c) (fst p) (snd p)) H)).
  rewrite (vsum_perm _ _ _ (Permutation_map (fun p => sent_possible (fst c) (fst p)) H)). reflexivity.
Qed.
Lemma bleu_multiset c bs bs' : Forall (bleu_valid c) bs -> Forall (bleu_valid c) bs' ->
  Permutation (concat bs) (concat bs') ->
  class_run bleu_spec_add c bs = class_run bleu_spec_add c bs'.
Proof.
  intros H1 H2 HP. rewrite !bleu_class_eq_fn by assumption. unfold Counting.fn_of. cbn [abeta bleu_spec_add].
  rewrite (bleu_beta_perm c _ _ HP). reflexivity.
Qed.

(* the documented exception: splitting an accepted batch may produce a rejected one *)
Lemma bleu_split_witness :
  let b1 : bbatch := [([1; 2]%Z, [[1; 2]%Z])] in let b2 : bbatch := [([1; 2; 3]%Z, [[3]%Z])] in
  bleu_ok 3 (b1 ++ b2) = true /\ bleu_ok 3 b1 = false /\ bleu_ok 3 b2 = true.
Proof. vm_compute. repeat split; reflexivity. Qed.
(* class vs functional when nothing matched and a weight is zero: 0.0 vs nan *)
Lemma bleu_guard_witness :
  let c : bcfg := (2, Some [Q2Qc 1; Q2Qc 0]) in let b : bbatch := [([1; 2]%Z, [[3; 4]%Z])] in
  bleu_valid c b /\ class_run bleu_spec_add c [b] = vq 0%Qc /\ bleu_fn c b = xq_val NaN.
Proof. vm_compute. repeat split; reflexivity. Qed.

(* ---- with positive weights the class guard (0.0 when nothing matched) agrees with the functional ---- *)
Lemma qn_eq0 k : qn k = 0%Qc -> k = 0.
Proof.
  unfold qn, mkq. change 0%Qc with (Q2Qc 0). intros H. apply Q2Qc_eq_iff in H.
  unfold Qeq in H. cbn in H. lia.
Qed.
Lemma sumQl_qn M : sumQl (map qn M) = qn (list_sum M).
Proof.
  unfold sumQl, list_sum. induction M as [|m M IH]; cbn [map fold_right]; [reflexivity|].
  rewrite IH, qn_add. reflexivity.
Qed.
Lemma list_sum_zero M : list_sum M = 0 -> Forall (fun m => m = 0) M.
Proof.
  unfold list_sum. induction M as [|m M IH]; cbn [fold_right]; intros H; constructor; [lia|apply IH; lia].
Qed.
Lemma qeq_true a b : qeq a b = true -> a = b.
Proof. unfold qeq. destruct (Qc_eq_dec a b); [auto|discriminate]. Qed.

Lemma bleu_term_nomatch w p : qlt 0 w = true -> 0 < p -> bleu_term w (qn 0) (qn p) = SNInf.
Proof.
  intros Hw Hp. unfold bleu_term, qdivx.
  assert (Hp0 : qeq (qn p) 0 = false).
  { unfold qeq. destruct (Qc_eq_dec (qn p) 0) as [E|]; [apply qn_eq0 in E; lia|reflexivity]. }
  rewrite Hp0.
  assert (Hq : (qn 0 / qn p)%Qc = 0%Qc) by (rewrite qn_0; unfold Qcdiv; apply Qcmult_0_l).
  rewrite Hq.
  assert (H00 : qeq 0 0 = true) by (unfold qeq; destruct (Qc_eq_dec 0 0); [reflexivity|congruence]).
  rewrite H00. unfold w_times_inf.
  assert (Hw0 : qeq w 0 = false).
  { unfold qeq. destruct (Qc_eq_dec w 0) as [E|]; [|reflexivity]. subst w. discriminate Hw. }
  rewrite Hw0, Hw. reflexivity.
Qed.
Lemma map3_all_ninf : forall ws M P,
  Forall (fun w => qlt 0 w = true) ws -> Forall (fun m => m = 0) M -> Forall (fun p => 0 < p) P ->
  Forall (fun t => t = SNInf) (map3 bleu_term ws (map qn M) (map qn P)).
Proof.
  induction ws as [|w ws IH]; intros [|m M] [|p P] Hw HM HP; cbn [map map3]; try constructor.
  - inversion Hw; inversion HM; inversion HP; subst. apply bleu_term_nomatch; assumption.
  - inversion Hw; inversion HM; inversion HP; subst. apply IH; assumption.
Qed.
Lemma fold_sadd_ninf : forall l, Forall (fun t => t = SNInf) l -> fold_left sadd l SNInf = SNInf.
Proof. induction 1 as [|t l Ht _ IH]; cbn [fold_left]; [reflexivity|]. subst t. exact IH. Qed.

Lemma nth0_vadd a b k : List.length a = S k -> List.length b = S k -> nth 0 (vadd a b) 0 = nth 0 a 0 + nth 0 b 0.
Proof. destruct a, b; cbn [List.length]; intros; try discriminate. reflexivity. Qed.
Lemma possible0 n b : 1 <= n -> nth 0 (bleu_possible n b) 0 = bleu_ilen b.
Proof.
  intros Hn. destruct n as [|k]; [lia|].
  induction b as [|q b IH].
  - reflexivity.
  - change (bleu_possible (S k) (q :: b)) with (vadd (sent_possible (S k) (fst q)) (bleu_possible (S k) b)).
    rewrite (nth0_vadd _ _ k) by (try apply sent_possible_length; apply bleu_possible_length).
    rewrite IH, sent_possible_nth by lia. unfold bleu_ilen, nsum. cbn [fold_right]. rewrite Nat.sub_0_r. reflexivity.
Qed.

Lemma bleu_fn_zero_no_match (c : bcfg) b :
  1 <= fst c -> List.length (bleu_weights c) = fst c ->
  Forall (fun w => qlt 0 w = true) (bleu_weights c) ->
  bleu_valid c b -> bleu_no_match c b = true -> bleu_fn c b = vq 0%Qc.
Proof.
  intros Hn Hlen Hw Hv Hnm. unfold bleu_fn, bleu_of_stats, bleu_beta, bleu_beta_with.
  cbn [nget narr nth nsc]. rewrite !nlist_nvec. unfold bleu_compute.
  set (M := bleu_matches sent_matches (fst c) b). set (P := bleu_possible (fst c) b).
  assert (HM : Forall (fun m => m = 0) M).
  { apply list_sum_zero, qn_eq0. rewrite <- sumQl_qn. apply qeq_true. exact Hnm. }
  assert (HP : Forall (fun p => 0 < p) P).
  { unfold bleu_valid, bleu_ok in Hv. apply andb_true_iff in Hv as [_ Hp]. fold P in Hp.
    apply Forall_forall. intros p Hin. rewrite forallb_forall in Hp. apply Nat.ltb_lt, Hp, Hin. }
  pose proof (map3_all_ninf _ _ _ Hw HM HP) as Hall.
  assert (HlM : List.length M = fst c) by (apply bleu_matches_length; intros; apply sent_matches_length).
  assert (HlP : List.length P = fst c) by apply bleu_possible_length.
  (* the sum of weighted logs is -inf, exp gives 0 *)
  assert (Hgeo : fold_left sadd (map3 bleu_term (bleu_weights c) (map qn M) (map qn P)) (SFin (vq 0%Qc)) = SNInf).
  { destruct (bleu_weights c) as [|w ws]; [cbn in Hlen; lia|].
    destruct M as [|m M']; [cbn in HlM; lia|]. destruct P as [|p P']; [cbn in HlP; lia|].
    cbn [map map3 fold_left] in *. inversion Hall as [|? ? Ht Hrest]; subst. rewrite Ht. cbn [sadd].
    apply fold_sadd_ninf. exact Hrest. }
  rewrite Hgeo. cbn [sexp].
  (* the brevity penalty is finite: the corpus has at least one candidate token *)
  assert (Hil : qn (bleu_ilen b) <> 0%Qc).
  { intros E. apply qn_eq0 in E.
    destruct P as [|p0 P'] eqn:EP; [cbn in HlP; lia|]. inversion HP as [|? ? Hp0 _]; subst.
    assert (Hp : p0 = bleu_ilen b).
    { pose proof (possible0 (fst c) b Hn) as H0. unfold P in EP. rewrite EP in H0. exact H0. }
    lia. }
  rewrite (brevity_shape _ _ Hil). destruct (qlt (qn (bleu_tlen b)) (qn (bleu_ilen b))); reflexivity.
Qed.

Lemma default_weights_pos n : 1 <= n <= 4 -> Forall (fun w => qlt 0 w = true) (bleu_weights (n, None)).
Proof.
  intros H. assert (E : n = 1 \/ n = 2 \/ n = 3 \/ n = 4) by lia.
  destruct E as [-> | [-> | [-> | ->]]]; vm_compute; repeat constructor.
Qed.

(* class = functional for BLEU: positive weights (the default included) *)
Lemma bleu_class_eq_functional_pos (c : bcfg) b bs :
  1 <= fst c -> List.length (bleu_weights c) = fst c ->
  Forall (fun w => qlt 0 w = true) (bleu_weights c) ->
  bleu_valid c b -> Forall (bleu_valid c) bs ->
  class_run bleu_spec_add c (b :: bs) = bleu_fn c (concat (b :: bs)) /\ bleu_valid c (concat (b :: bs)).
Proof.
  intros Hn Hl Hw Hb Hbs. pose proof (bleu_ok_concat c b bs Hb Hbs) as Hok. split; [|exact Hok].
  rewrite bleu_class_eq_fn by (constructor; assumption). rewrite bleu_gamma_guard.
  destruct (bleu_no_match c (concat (b :: bs))) eqn:E; [|reflexivity].
  symmetry. apply bleu_fn_zero_no_match; assumption.
Qed.

(* ========================================================================================== *)
(* V_fixed: the repaired _bleu_score_compute (a zero-weighted order is ignored)                 *)
(* ========================================================================================== *)
Lemma bleu_class_spec_v (v : bvariant) : forall (c : bcfg) (t : mtree (add_metric (bleu_spec_add_v v))),
  Forall (fun b => bleu_ok (fst c) b = true) (stream _ t) ->
  bleu_gamma_v v c (run (add_metric (bleu_spec_add_v v)) c t)
  = bleu_gamma_v v c (bleu_beta_with sent_matches_spec c (concat (stream _ t))).
Proof.
  intros c t Hv.
  change (agamma (bleu_spec_add_v v) c (run (add_metric (bleu_spec_add_v v)) c t)
          = bleu_gamma_v v c (bleu_beta_with sent_matches_spec c (concat (stream (add_metric (bleu_spec_add_v v)) t)))).
  rewrite (add_tree_eq_concat (bleu_spec_add_v v) c (@app _) []
             (fun b1 b2 => bleu_beta_with_app sent_matches c b1 b2 sent_matches_length)
             (bleu_beta_with_nil sent_matches c) t Hv).
  change (abeta (bleu_spec_add_v v) c) with (bleu_beta c). rewrite bleu_beta_eq_spec. reflexivity.
Qed.
Lemma bleu_class_eq_fn_v (v : bvariant) (c : bcfg) bs : Forall (bleu_valid c) bs ->
  class_run (bleu_spec_add_v v) c bs = fn_of (bleu_spec_add_v v) c (concat bs).
Proof.
  intros Hv.
  exact (class_run_concat (bleu_spec_add_v v) c (@app _) []
           (fun b1 b2 => bleu_beta_with_app sent_matches c b1 b2 sent_matches_length)
           (bleu_beta_with_nil sent_matches c) bs Hv).
Qed.
Lemma bleu_multiset_v (v : bvariant) c bs bs' : Forall (bleu_valid c) bs -> Forall (bleu_valid c) bs' ->
  Permutation (concat bs) (concat bs') ->
  class_run (bleu_spec_add_v v) c bs = class_run (bleu_spec_add_v v) c bs'.
Proof.
  intros H1 H2 HP. rewrite !bleu_class_eq_fn_v by assumption. unfold Counting.fn_of. cbn [abeta bleu_spec_add_v].
  rewrite (bleu_beta_perm c _ _ HP). reflexivity.
Qed.

Definition bleu_fn_v (v : bvariant) (c : bcfg) (b : bbatch) : val := xr_val (bleu_of_stats_v v c (bleu_beta c b)).
Lemma run_bleu_fn_v_is_bleu_fn_v v cv bv c b : dec_bcfg cv = Some c -> dec_bbatch bv = Some b -> bleu_valid c b ->
  run_bleu_fn_v v (VL [cv; bv]) = bleu_fn_v v c b.
Proof. intros H1 H2 H3. unfold run_bleu_fn_v. rewrite H1, H2, H3. reflexivity. Qed.
Lemma bleu_gamma_guard_v v c b :
  fn_of (bleu_spec_add_v v) c b = if bleu_no_match c b then vq 0%Qc else bleu_fn_v v c b.
Proof.
  unfold Counting.fn_of, bleu_no_match, bleu_fn_v. cbn [agamma abeta bleu_spec_add_v]. unfold bleu_gamma_v, bleu_beta, bleu_beta_with.
  cbn [nget narr nth]. rewrite nlist_nvec. reflexivity.
Qed.

Definition fin_or_ninf (t : xs) : Prop := t = SNInf \/ exists v, t = SFin v.
Lemma term_fixed_nomatch w p : (w = 0%Qc \/ qlt 0 w = true) -> 0 < p ->
  (w = 0%Qc /\ bleu_term_v V_fixed w (qn 0) (qn p) = SFin (vq 0%Qc)) \/
  (qlt 0 w = true /\ bleu_term_v V_fixed w (qn 0) (qn p) = SNInf).
Proof.
  intros Hw Hp. cbn [bleu_term_v].
  assert (Hp0 : qeq (qn p) 0 = false).
  { unfold qeq. destruct (Qc_eq_dec (qn p) 0) as [E|]; [apply qn_eq0 in E; lia|reflexivity]. }
  destruct (Qc_eq_dec w 0) as [E|E].
  - left. split; [exact E|]. subst w. unfold qeq at 1. destruct (Qc_eq_dec 0 0); [|congruence].
    unfold qdivx. rewrite Hp0. reflexivity.
  - right. destruct Hw as [Hw|Hw]; [contradiction|]. split; [exact Hw|].
    unfold qeq at 1. destruct (Qc_eq_dec w 0); [contradiction|]. apply bleu_term_nomatch; assumption.
Qed.
Lemma map3_fixed_nomatch : forall ws M P, List.length M = List.length ws -> List.length P = List.length ws ->
  Forall (fun w => w = 0%Qc \/ qlt 0 w = true) ws -> Forall (fun m => m = 0) M -> Forall (fun p => 0 < p) P ->
  Forall fin_or_ninf (map3 (bleu_term_v V_fixed) ws (map qn M) (map qn P)) /\
  (Exists (fun w => qlt 0 w = true) ws -> Exists (fun t => t = SNInf) (map3 (bleu_term_v V_fixed) ws (map qn M) (map qn P))).
Proof.
  induction ws as [|w ws IH]; intros [|m M] [|p P] HlM HlP Hw HM HP; cbn [List.length] in *; try discriminate.
  - cbn [map map3]. split; [constructor|]. intros HE. inversion HE.
  - inversion Hw as [|? ? Hw1 Hws]; inversion HM as [|? ? Hm1 HMs]; inversion HP as [|? ? Hp1 HPs]; subst.
    destruct (IH M P ltac:(lia) ltac:(lia) Hws HMs HPs) as [IHa IHe].
    cbn [map map3]. destruct (term_fixed_nomatch w p Hw1 Hp1) as [[E Ht]|[E Ht]]; rewrite Ht.
    + split; [constructor; [right; eexists; reflexivity|exact IHa]|].
      intros HE. apply Exists_cons_tl. apply IHe. inversion HE as [? ? Hh|? ? Hh]; subst; [|exact Hh].
      exfalso. clear -Hh. vm_compute in Hh. discriminate Hh.
    + split; [constructor; [left; reflexivity|exact IHa]|]. intros _. apply Exists_cons_hd. reflexivity.
Qed.
Lemma fold_sadd_fin_ninf : forall l a, Forall fin_or_ninf l -> fin_or_ninf a ->
  (a = SNInf \/ Exists (fun t => t = SNInf) l) -> fold_left sadd l a = SNInf.
Proof.
  induction l as [|t l IH]; intros a Hl Ha Hex; cbn [fold_left].
  - destruct Hex as [E|E]; [exact E|inversion E].
  - inversion Hl as [|? ? Ht Hl']; subst. apply IH; [exact Hl'| |].
    + destruct Ha as [->|[x ->]], Ht as [->|[y ->]]; cbn [sadd]; [left|left|left|right; eexists]; reflexivity.
    + destruct Ha as [->|[x ->]], Ht as [->|[y ->]]; cbn [sadd]; try (left; reflexivity).
      destruct Hex as [E|E]; [discriminate E|]. inversion E as [? ? Hh|? ? Hh]; subst; [discriminate Hh|right; exact Hh].
Qed.

(* nothing matched, weights >= 0 with at least one > 0: the repaired functional returns 0 like the class *)
Lemma bleu_fn_fixed_zero_no_match (c : bcfg) b :
  1 <= fst c -> List.length (bleu_weights c) = fst c ->
  Forall (fun w => w = 0%Qc \/ qlt 0 w = true) (bleu_weights c) ->
  Exists (fun w => qlt 0 w = true) (bleu_weights c) ->
  bleu_valid c b -> bleu_no_match c b = true -> bleu_fn_v V_fixed c b = vq 0%Qc.
Proof.
  intros Hn Hlen Hw Hex Hv Hnm. unfold bleu_fn_v, bleu_of_stats_v, bleu_beta, bleu_beta_with.
  cbn [nget narr nth nsc]. rewrite !nlist_nvec. unfold bleu_compute_v.
  set (M := bleu_matches sent_matches (fst c) b). set (P := bleu_possible (fst c) b).
  assert (HM : Forall (fun m => m = 0) M).
  { apply list_sum_zero, qn_eq0. rewrite <- sumQl_qn. apply qeq_true. exact Hnm. }
  assert (HP : Forall (fun p => 0 < p) P).
  { unfold bleu_valid, bleu_ok in Hv. apply andb_true_iff in Hv as [_ Hp]. fold P in Hp.
    apply Forall_forall. intros p Hin. rewrite forallb_forall in Hp. apply Nat.ltb_lt, Hp, Hin. }
  assert (HlM : List.length M = fst c) by (apply bleu_matches_length; intros; apply sent_matches_length).
  assert (HlP : List.length P = fst c) by apply bleu_possible_length.
  destruct (map3_fixed_nomatch (bleu_weights c) M P ltac:(congruence) ltac:(congruence) Hw HM HP) as [Hall Hsome].
  rewrite (fold_sadd_fin_ninf _ _ Hall (or_intror (ex_intro _ _ eq_refl)) (or_intror (Hsome Hex))). cbn [sexp].
  assert (Hil : qn (bleu_ilen b) <> 0%Qc).
  { intros E. apply qn_eq0 in E.
    destruct P as [|p0 P'] eqn:EP; [cbn in HlP; lia|]. inversion HP as [|? ? Hp0 _]; subst.
    pose proof (possible0 (fst c) b Hn) as H0. unfold P in EP. rewrite EP in H0. cbn [nth] in H0. lia. }
  rewrite (brevity_shape _ _ Hil). destruct (qlt (qn (bleu_tlen b)) (qn (bleu_ilen b))); reflexivity.
Qed.

(* class = functional for the repaired BLEU: non-negative weights, at least one positive *)
Lemma bleu_class_eq_functional_fixed_gen (c : bcfg) b bs :
  1 <= fst c -> List.length (bleu_weights c) = fst c ->
  Forall (fun w => w = 0%Qc \/ qlt 0 w = true) (bleu_weights c) ->
  Exists (fun w => qlt 0 w = true) (bleu_weights c) ->
  bleu_valid c b -> Forall (bleu_valid c) bs ->
  class_run (bleu_spec_add_v V_fixed) c (b :: bs) = bleu_fn_v V_fixed c (concat (b :: bs)) /\ bleu_valid c (concat (b :: bs)).
Proof.
  intros Hn Hl Hw Hex Hb Hbs. pose proof (bleu_ok_concat c b bs Hb Hbs) as Hok. split; [|exact Hok].
  rewrite bleu_class_eq_fn_v by (constructor; assumption). rewrite bleu_gamma_guard_v.
  destruct (bleu_no_match c (concat (b :: bs))) eqn:E; [|reflexivity].
  symmetry. apply bleu_fn_fixed_zero_no_match; assumption.
Qed.

(* the witness of the V_code refutation under V_fixed: weights (1, 0), "1 2" vs "1 3":
   exp(1 - 2/2) * exp(0 + 1 * ln(1/2) + 0), i.e. the product form value 1/2 *)
Lemma bleu_fixed_witness :
  let c : bcfg := (2, Some [Q2Qc 1; Q2Qc 0]) in let b : bbatch := [([1; 2]%Z, [[1; 3]%Z])] in
  bleu_valid c b /\
  bleu_fn_v V_fixed c b = rmul (rexp (VQ 0 1)) (rexp (radd (radd (VQ 0 1) (rmul (VQ 1 1) (rln (VQ 1 2)))) (VQ 0 1))) /\
  class_run (bleu_spec_add_v V_fixed) c [b] = bleu_fn_v V_fixed c b.
Proof. vm_compute. repeat split; reflexivity. Qed.
(* remaining class/functional difference after the repair: ALL weights zero and nothing matched --
   the class's guard returns 0.0, the functional the bare brevity penalty *)
Lemma bleu_fixed_all_zero_witness :
  let c : bcfg := (2, Some [Q2Qc 0; Q2Qc 0]) in let b : bbatch := [([1; 2]%Z, [[3; 4; 5]%Z])] in
  bleu_valid c b /\ class_run (bleu_spec_add_v V_fixed) c [b] = VQ 0 1 /\
  bleu_fn_v V_fixed c b = rmul (rexp (VQ (-1) 2)) (rexp (radd (radd (VQ 0 1) (VQ 0 1)) (VQ 0 1))).
Proof. vm_compute. repeat split; reflexivity. Qed.

(* ---- V_fixed, non-negative weights: compute() is always a number (never nan / inf) ---- *)
Lemma qn_div_nonneg k p : qlt (qn k / qn p) 0 = false.
Proof.
  unfold qlt. destruct (qn k / qn p ?= 0)%Qc eqn:E; try reflexivity.
  exfalso. apply Qclt_alt in E. revert E. apply Qcle_not_lt.
  unfold Qcle, Qcdiv, Qcmult, Qcinv, qn, mkq, Q2Qc. cbn [this]. rewrite !Qred_correct.
  apply Qmult_le_0_compat; [|apply Qinv_le_0_compat]; unfold Qle; cbn; lia.
Qed.
Lemma term_fixed_fin_or_ninf w k p : (w = 0%Qc \/ qlt 0 w = true) -> 0 < p ->
  fin_or_ninf (bleu_term_v V_fixed w (qn k) (qn p)).
Proof.
  intros Hw Hp. cbn [bleu_term_v].
  assert (Hp0 : qeq (qn p) 0 = false).
  { unfold qeq. destruct (Qc_eq_dec (qn p) 0) as [E|]; [apply qn_eq0 in E; lia|reflexivity]. }
  unfold qeq at 1. destruct (Qc_eq_dec w 0) as [E|E].
  - unfold qdivx. rewrite Hp0. right. eexists. reflexivity.
  - destruct Hw as [Hw|Hw]; [contradiction|]. unfold bleu_term, qdivx. rewrite Hp0.
    destruct (qeq (qn k / qn p) 0).
    + left. unfold w_times_inf, qeq. destruct (Qc_eq_dec w 0); [contradiction|]. rewrite Hw. reflexivity.
    + rewrite qn_div_nonneg. right. eexists. reflexivity.
Qed.
Lemma map3_fixed_fin_or_ninf : forall ws M P,
  Forall (fun w => w = 0%Qc \/ qlt 0 w = true) ws -> Forall (fun p => 0 < p) P ->
  Forall fin_or_ninf (map3 (bleu_term_v V_fixed) ws (map qn M) (map qn P)).
Proof.
  induction ws as [|w ws IH]; intros [|m M] [|p P] Hw HP; cbn [map map3]; try constructor.
  - inversion Hw; inversion HP; subst. apply term_fixed_fin_or_ninf; assumption.
  - inversion Hw; inversion HP; subst. apply IH; assumption.
Qed.
Lemma fold_sadd_closed : forall l a, Forall fin_or_ninf l -> fin_or_ninf a -> fin_or_ninf (fold_left sadd l a).
Proof.
  induction l as [|t l IH]; intros a Hl Ha; cbn [fold_left]; [exact Ha|].
  inversion Hl as [|? ? Ht Hl']; subst. apply IH; [exact Hl'|].
  destruct Ha as [->|[x ->]], Ht as [->|[y ->]]; cbn [sadd]; [left|left|left|right; eexists]; reflexivity.
Qed.
Lemma bleu_value_is_number_fixed_gen (c : bcfg) b :
  1 <= fst c -> Forall (fun w => w = 0%Qc \/ qlt 0 w = true) (bleu_weights c) -> bleu_valid c b ->
  bleu_of_stats_v V_fixed c (bleu_beta c b) = RZero \/ exists v, bleu_of_stats_v V_fixed c (bleu_beta c b) = RFin v.
Proof.
  intros Hn Hw Hv. unfold bleu_of_stats_v, bleu_beta, bleu_beta_with.
  cbn [nget narr nth nsc]. rewrite !nlist_nvec. unfold bleu_compute_v.
  set (M := bleu_matches sent_matches (fst c) b). set (P := bleu_possible (fst c) b).
  assert (HP : Forall (fun p => 0 < p) P).
  { unfold bleu_valid, bleu_ok in Hv. apply andb_true_iff in Hv as [_ Hp]. fold P in Hp.
    apply Forall_forall. intros p Hin. rewrite forallb_forall in Hp. apply Nat.ltb_lt, Hp, Hin. }
  assert (HlP : List.length P = fst c) by apply bleu_possible_length.
  assert (Hil : qn (bleu_ilen b) <> 0%Qc).
  { intros E. apply qn_eq0 in E.
    destruct P as [|p0 P'] eqn:EP; [cbn in HlP; lia|]. inversion HP as [|? ? Hp0 _]; subst.
    pose proof (possible0 (fst c) b Hn) as H0. unfold P in EP. rewrite EP in H0. cbn [nth] in H0. lia. }
  pose proof (fold_sadd_closed _ (SFin (vq 0%Qc)) (map3_fixed_fin_or_ninf (bleu_weights c) M P Hw HP)
                (or_intror (ex_intro _ _ eq_refl))) as Hsum.
  rewrite (brevity_shape _ _ Hil).
  destruct Hsum as [->|[x ->]]; cbn [sexp]; destruct (qlt (qn (bleu_tlen b)) (qn (bleu_ilen b))); cbn [rmulx];
    first [left; reflexivity | right; eexists; reflexivity].
Qed.
