(* C16 for the regression family: multi-output / multi-task results decompose per column / per task. *)
From Coq Require Import ZArith List Bool QArith Qcanon Lia String.
From TE Require Import Base.Val Base.Nd Base.Xq Algebra.Metric Models.Aggregation Models.Aggregation2
  Models.Regression Models.Stat Proofs.RegressionP Proofs.CovP Proofs.AdoptP.
Import ListNotations.
Open Scope list_scope.
Open Scope Qc_scope.

Definition xout (x : xnd) : list xq := match x with XS a => [a] | XV l => l end.
(* the single-output batch made of column j of a multi-output batch *)
Definition bcol (j : nat) (b : rbatch) : rbatch := b1d (col j (rb_x b)) (col j (rb_t b)) (rb_w b).

Lemma nth_map2 {X Y Z} (f : X -> Y -> Z) dx dy dz : forall a b j, (j < List.length a)%nat -> (j < List.length b)%nat ->
  nth j (map2 f a b) dz = f (nth j a dx) (nth j b dy).
Proof.
  induction a as [|x a IH]; intros [|y b] [|j] Ha Hb; cbn [List.length] in *; try lia; cbn [map2 nth]; [reflexivity|].
  apply IH; lia.
Qed.
Lemma nth_map' {X Y} (f : X -> Y) dx dy : forall l j, (j < List.length l)%nat -> nth j (map f l) dy = f (nth j l dx).
Proof. induction l as [|x l IH]; intros [|j] H; cbn [List.length] in *; try lia; cbn [map nth]; [reflexivity|]. apply IH. lia. Qed.
Lemma map2_lt {X Y Z} (f : X -> Y -> Z) : forall a b j, (j < List.length a)%nat -> (j < List.length b)%nat ->
  (j < List.length (map2 f a b))%nat.
Proof.
  induction a as [|x a IH]; intros [|y b] [|j] Ha Hb; cbn [List.length map2] in *; try lia.
  specialize (IH b j ltac:(lia) ltac:(lia)). lia.
Qed.
Lemma rows_ok_in d rows r : rows_ok d rows = true -> In r rows -> List.length r = d.
Proof. unfold rows_ok. rewrite forallb_forall. intros H Hr. apply Nat.eqb_eq. apply H. exact Hr. Qed.

Lemma col_sqerr d j : forall X T, rows_ok d X = true -> rows_ok d T = true -> (j < d)%nat ->
  col j (map2 sqerr_row X T) = sqerrs (col j X) (col j T).
Proof.
  unfold sqerrs. induction X as [|x X IH]; intros [|t T] HX HT Hj; try reflexivity.
  cbn [map2 col map]. fold (col j (map2 sqerr_row X T)) (col j X) (col j T).
  pose proof (rows_ok_in d _ x HX (or_introl eq_refl)) as Lx. pose proof (rows_ok_in d _ t HT (or_introl eq_refl)) as Lt.
  unfold rows_ok in HX, HT. cbn [forallb] in HX, HT. apply andb_prop in HX as [_ HX]. apply andb_prop in HT as [_ HT].
  rewrite (IH T HX HT Hj). f_equal. unfold sqerr_row. apply (nth_map2 (fun a b : Qc => sq (b - a)) 0 0 0); lia.
Qed.
Lemma col_scaled d j : forall ws rows, rows_ok d rows = true -> (j < d)%nat ->
  col j (map2 (fun (w : Qc) r => map (Qcmult w) r) ws rows) = map2 Qcmult ws (col j rows).
Proof.
  induction ws as [|w ws IH]; intros [|r rows] Hr Hj; try reflexivity.
  cbn [map2 col map]. fold (col j (map2 (fun (w : Qc) r => map (Qcmult w) r) ws rows)) (col j rows).
  pose proof (rows_ok_in d _ r Hr (or_introl eq_refl)) as Lr.
  unfold rows_ok in Hr. cbn [forallb] in Hr. apply andb_prop in Hr as [_ Hr].
  rewrite (IH rows Hr Hj). f_equal. apply (nth_map' (Qcmult w) 0 0). lia.
Qed.
Lemma col_mapsq d j : forall T, rows_ok d T = true -> (j < d)%nat -> col j (map (map sq) T) = map sq (col j T).
Proof.
  induction T as [|t T IH]; intros HT Hj; [reflexivity|]. cbn [map col]. fold (col j (map (map sq) T)) (col j T).
  pose proof (rows_ok_in d _ t HT (or_introl eq_refl)) as Lt.
  unfold rows_ok in HT. cbn [forallb] in HT. apply andb_prop in HT as [_ HT].
  rewrite (IH HT Hj). f_equal. apply (nth_map' sq 0 0). lia.
Qed.
Lemma rows_ok_map2 d {X} (f : X -> list Qc -> list Qc) : (forall x r, List.length (f x r) = List.length r) ->
  forall xs rows, rows_ok d rows = true -> rows_ok d (map2 f xs rows) = true.
Proof.
  intros Hf. induction xs as [|x xs IH]; intros [|r rows] Hr; try reflexivity. unfold rows_ok in *. cbn [map2 forallb] in *.
  apply andb_prop in Hr as [H1 H2]. rewrite Hf, H1. cbn [andb]. apply IH. exact H2.
Qed.
Lemma sqerr_row_len x t : List.length x = List.length t -> List.length (sqerr_row x t) = List.length t.
Proof. intros H. unfold sqerr_row. rewrite (map2_len' _ x t H). exact H. Qed.
Lemma rows_ok_sqerr d : forall X T, rows_ok d X = true -> rows_ok d T = true -> rows_ok d (map2 sqerr_row X T) = true.
Proof.
  induction X as [|x X IH]; intros [|t T] HX HT; try reflexivity.
  pose proof (rows_ok_in d _ x HX (or_introl eq_refl)) as Lx. pose proof (rows_ok_in d _ t HT (or_introl eq_refl)) as Lt.
  unfold rows_ok in *. cbn [map2 forallb] in *. apply andb_prop in HX as [_ HX]. apply andb_prop in HT as [_ HT].
  rewrite sqerr_row_len by congruence. rewrite Lt, Nat.eqb_refl. cbn [andb]. apply IH; assumption.
Qed.

Lemma rb_valid_parts w b : rb_valid w b = true ->
  rows_ok (width_of w) (rb_x b) = true /\ rows_ok (width_of w) (rb_t b) = true.
Proof.
  unfold rb_valid. intros H. apply andb_prop in H as [H _]. apply andb_prop in H as [H _]. apply andb_prop in H as [H Ht].
  apply andb_prop in H as [_ Hx]. split; assumption.
Qed.

(* ---- MeanSquaredError: column j of the multi-output statistic is the single-output statistic of column j ---- *)
Lemma mse_stat_column c2 c1 b d j : mse_w c2 = Some d -> mse_w c1 = None -> rb_valid (Some d) b = true -> (j < d)%nat ->
  a_sc (mse_stat c2 b) = a_sc (mse_stat c1 (bcol j b))
  /\ Sc (nth j (nlist (nth 0 (a_vs (mse_stat c2 b)) (Sc 0))) 0) = nth 0 (a_vs (mse_stat c1 (bcol j b))) (Sc 0).
Proof.
  intros E2 E1 Hv Hj. pose proof (rb_valid_1d _ _ Hv) as E1d. cbn in E1d.
  destruct (rb_valid_parts _ _ Hv) as [HX HT]. cbn [width_of] in HX, HT.
  unfold bcol. rewrite (mse_stat_1d c1 _ _ (rb_w b) E1). unfold mse_stat. rewrite E2, E1d. cbn [width_of present].
  pose proof (rows_ok_sqerr d _ _ HX HT) as Hse.
  destruct (rb_w b) as [ws|]; cbn [a_sc a_vs nth]; rewrite nlist_nvec, (colsums_nth d _ j Hj).
  - split; [reflexivity|]. rewrite (col_scaled d j ws _ Hse Hj), (col_sqerr d j _ _ HX HT Hj). reflexivity.
  - split; [unfold lenQ, col; rewrite map_length; reflexivity|]. rewrite (col_sqerr d j _ _ HX HT Hj). reflexivity.
Qed.
(* raw_values: output j is a function of column j's statistic and the total weight only *)
Lemma mse_raw_column sse sw j : (j < List.length sse)%nat ->
  nth j (xout (mse_compute true (nvec sse) sw)) NaN = hd NaN (xout (mse_compute true (Sc (nth j sse 0)) sw)).
Proof.
  intros Hj. unfold mse_compute. cbn [xelems xlike xout map hd nvec]. change (Arr (map Sc sse)) with (nvec sse). rewrite nlist_nvec.
  apply (nth_map' (fun e : Qc => qdivx e (mse_den sw)) 0 NaN). exact Hj.
Qed.
(* uniform_average is the mean of the raw values *)
Lemma mse_uniform_mean sse sw : mse_compute false sse sw = XS (xmeanq (xout (mse_compute true sse sw))).
Proof. unfold mse_compute. destruct sse as [q|l]; reflexivity. Qed.

(* ---- R2Score ---- *)
Lemma r2_stat_column c2 c1 b d j : r2_w c2 = Some d -> r2_w c1 = None -> rb_valid (Some d) b = true -> rb_w b = None -> (j < d)%nat ->
  a_sc (r2_stat c2 b) = a_sc (r2_stat c1 (bcol j b))
  /\ map (fun v => Sc (nth j (nlist v) 0)) (a_vs (r2_stat c2 b)) = a_vs (r2_stat c1 (bcol j b)).
Proof.
  intros E2 E1 Hv Hw Hj. pose proof (rb_valid_1d _ _ Hv) as E1d. cbn in E1d.
  destruct (rb_valid_parts _ _ Hv) as [HX HT]. cbn [width_of] in HX, HT.
  unfold bcol. rewrite Hw, (r2_stat_1d c1 _ _ E1). unfold r2_stat. rewrite E2, E1d. cbn [width_of present a_sc a_vs map].
  rewrite !nlist_nvec, !(colsums_nth d _ j Hj). rewrite (col_mapsq d j _ HT Hj), (col_sqerr d j _ _ HX HT Hj).
  split; [unfold lenQ, col; rewrite map_length; reflexivity|reflexivity].
Qed.
(* raw_values (with or without adjustment): output j depends on the statistics of column j only, and equals the
   single-output value on them *)
Lemma r2_raw_column p n so sso rss j : (j < List.length so)%nat -> (j < List.length sso)%nat -> (j < List.length rss)%nat ->
  nth j (xout (r2_core 0 p n (nvec sso) so sso rss)) NaN
  = hd NaN (xout (r2_core 0 p n (Sc (nth j sso 0)) [nth j so 0] [nth j sso 0] [nth j rss 0])).
Proof.
  intros H1 H2 H3. unfold r2_core. cbn [xlike xout nvec map map2 hd].
  assert (Ht : (j < List.length (map2 (r2_tss n) so sso))%nat) by (apply map2_lt; assumption).
  assert (Hr : (j < List.length (map2 (fun rs ts => xsub (Fin 1) (qdivx rs ts)) rss (map2 (r2_tss n) so sso)))%nat)
    by (apply map2_lt; assumption).
  rewrite (nth_map' _ NaN NaN) by exact Hr. rewrite (nth_map2 _ 0 0 NaN) by assumption.
  rewrite (nth_map2 _ 0 0 0) by assumption. reflexivity.
Qed.
(* uniform_average / variance_weighted (num_regressors = 0) in terms of the raw values *)
Lemma map_idf {X} (l : list X) : map (fun x => x) l = l. Proof. apply map_id. Qed.
Lemma r2_uniform_mean n l so sso rss :
  r2_core 1 0 n (Arr l) so sso rss = XS (xmeanq (xout (r2_core 0 0 n (Arr l) so sso rss))).
Proof. unfold r2_core. cbn [Z.eqb xlike xout]. rewrite map_idf. reflexivity. Qed.
Lemma r2_variance_weighted n l so sso rss :
  let tss := map2 (r2_tss n) so sso in
  r2_core 2 0 n (Arr l) so sso rss
  = XS (xsum (map2 (fun r ts => xdivq (xmul r (Fin ts)) (sumQ tss)) (xout (r2_core 0 0 n (Arr l) so sso rss)) tss)).
Proof. unfold r2_core. cbn [Z.eqb xlike xout]. rewrite map_idf. reflexivity. Qed.

(* ---- BinaryNormalizedEntropy: task i is the single-task metric of row i ---- *)
Lemma nth_map3 {X Y Z W} (f : X -> Y -> Z -> W) dx dy dz dw : forall a b c i,
  (i < List.length a)%nat -> (i < List.length b)%nat -> (i < List.length c)%nat ->
  nth i (map3 f a b c) dw = f (nth i a dx) (nth i b dy) (nth i c dz).
Proof.
  induction a as [|x a IH]; intros [|y b] [|z c] [|i] Ha Hb Hc; cbn [List.length] in *; try lia; cbn [map3 nth]; [reflexivity|].
  apply IH; lia.
Qed.
Definition ne_row_batch (i : nat) (b : ne_batch) : ne_batch :=
  {| nb_x := [nth i (nb_x b) []]; nb_t := [nth i (nb_t b) []]; nb_w := Some [nth i (ne_wrows b) []] |}.
Lemma ne_task_row c c1 b i : ne_logits c1 = ne_logits c ->
  (i < List.length (nb_x b))%nat -> (i < List.length (nb_t b))%nat -> (i < List.length (ne_wrows b))%nat ->
  [nth i (ne_stat c b) (f0, 0, 0)] = ne_stat c1 (ne_row_batch i b).
Proof.
  intros Hl H1 H2 H3. unfold ne_stat, ne_row_batch. cbn [nb_x nb_t nb_w ne_wrows map3]. rewrite Hl.
  rewrite (nth_map3 _ [] [] [] (f0, 0, 0)) by assumption. reflexivity.
Qed.
Lemma ne_value_per_task s : existsb (fun t => qeq (snd (fst t)) 0) s = false -> ne_cmp s = VL (map ne_value s).
Proof. intros H. unfold ne_cmp. rewrite H. reflexivity. Qed.

(* ---- Covariance: entry (i, j) depends only on columns i and j ---- *)
Lemma nth_vec_of d f i : (i < d)%nat -> nth i (vec_of d f) 0 = f i.
Proof. intros H. unfold vec_of. rewrite (nth_map' f 0%nat 0) by (rewrite seq_length; exact H). rewrite seq_nth by exact H. reflexivity. Qed.
Lemma nth_mat_of d f i j : (i < d)%nat -> (j < d)%nat -> nth j (nth i (mat_of d f) []) 0 = f i j.
Proof.
  intros Hi Hj. unfold mat_of. rewrite (nth_map' (fun i => vec_of d (f i)) 0%nat []) by (rewrite seq_length; exact Hi).
  rewrite seq_nth by exact Hi. apply nth_vec_of. exact Hj.
Qed.
Lemma cov_entry_columns d r1 r2 i j : rows_ok d r1 = true -> rows_ok d r2 = true -> (i < d)%nat -> (j < d)%nat ->
  col i r1 = col i r2 -> col j r1 = col j r2 ->
  nth j (nth i (nrows (cv_ss (cov_stat d r1))) []) 0 = nth j (nth i (nrows (cv_ss (cov_stat d r2))) []) 0.
Proof.
  intros H1 H2 Hi Hj Ei Ej. rewrite (cov_stat_of d r1 H1), (cov_stat_of d r2 H2). cbn [cv_ss]. rewrite !nrows_nmat, !nth_mat_of by assumption.
  assert (El : List.length r1 = List.length r2) by (rewrite <- (col_len i r1), <- (col_len i r2), Ei; reflexivity).
  rewrite Ei, Ej, El. reflexivity.
Qed.
