(* Merge TREES of the four update-granular windowed classes (C01, windows).
   Part A  the LIFETIME component and total_updates of ANY merge tree (flat, nested, sequential, merged
           objects used as sources or targets, updates after merges, shards whose windows wrapped) are
           those of one metric that saw everything: no deviation from C01 at all.
   Part B  the WINDOWED component: what a merged object contributes when it is merged AGAIN
           (wfilled_mrg: only the first N = max_num_updates slots of its pooled buffer), what compute()
           reads right after a merge (wread_mrg: the whole pool), the closed form for every post-free
           merge tree (contrib), and the sequential merge A.merge([B1]); ...; A.merge([Bk]).
   All for the faithful model Models/Window.v (merge_state enlarges the buffers, keeps max_num_updates). *)
From Coq Require Import ZArith List Bool QArith Qcanon String Arith Lia Permutation.
From TE Require Import Base.Val Base.Xq Algebra.Metric Algebra.Pool Algebra.MergeTree Models.Window
  Proofs.WindowP Proofs.WindowMergeP.
Import ListNotations.
Open Scope list_scope.
Open Scope nat_scope.

Definition lifetime_of {R} (o : wout R) : option R := match o with WEmpty => None | WOut l _ => l end.
Definition windowed_of {R} (o : wout R) : option R := match o with WEmpty => None | WOut _ w => Some w end.

Lemma wset_length {A} (x : A) : forall i l, List.length (wset i x l) = List.length l.
Proof. intros i l. revert i. induction l as [|y l IH]; intros [|i]; cbn [wset List.length]; try reflexivity. rewrite IH. reflexivity. Qed.

Lemma Forall2_trans' {A} (R : A -> A -> Prop) : (forall x y z, R x y -> R y z -> R x z) ->
  forall l1 l2 l3, Forall2 R l1 l2 -> Forall2 R l2 l3 -> Forall2 R l1 l3.
Proof.
  intros HT l1 l2 l3 H. revert l3. induction H as [|x y l l' Hxy _ IH]; intros l3 H3; inversion H3; subst; constructor.
  - eapply HT; eassumption.
  - apply IH. assumption.
Qed.
Lemma Forall2_sym' {A} (R : A -> A -> Prop) : (forall x y, R x y -> R y x) ->
  forall l1 l2, Forall2 R l1 l2 -> Forall2 R l2 l1.
Proof. intros HS l1 l2 H. induction H; constructor; auto. Qed.

Lemma lsum_nil : list_sum [] = 0. Proof. reflexivity. Qed.
Lemma lsum_cons x l : list_sum (x :: l) = x + list_sum l. Proof. reflexivity. Qed.

Section TreeProofs.
Variable W : WinSpec.
Variable L : WinLaws W.
Variable LM : WinLawsM W L.
Variable v : variant.
Variable c : wcfg.
Notation N := (cN c).
Notation col := (list (wS W)).
Notation R := (Req L).
Notation M := (win_metric W v).
Notation shard := (fun us => fold_left (wupd W c) us (winit W c)).
Notation hist := (fun us => map (wstat W c) us).

(* ===================================================================================== *)
(* Part A: lifetime sums and total_updates                                                *)
(* ===================================================================================== *)
(* s has seen the statistics h (in some order and grouping) *)
Definition TInv (h : list col) (s : wst (wS W)) : Prop :=
  w_tot s = List.length h /\
  (cLife c = true -> exists G, w_life s = map G (tasks c) /\ forall t, R (G t) (colsum W t h)).

Lemma zcol_map : zcol W c = map (fun _ => wz W) (tasks c).
Proof. unfold zcol, tasks. symmetry. apply map_const_seq. Qed.

Lemma tinv_init : TInv [] (winit W c).
Proof.
  split; [reflexivity|]. intros _. exists (fun _ => wz W). split; [apply zcol_map|].
  intros t. apply Req_refl.
Qed.

Lemma ladd_map_l (G : nat -> wS W) (x : col) :
  ladd W c (map G (tasks c)) x = map (fun t => wadd W (nth t x (wz W)) (G t)) (tasks c).
Proof.
  unfold ladd. apply map_ext_in. intros t Ht. apply in_seq in Ht. unfold tasks.
  rewrite nth_map_seq by lia. reflexivity.
Qed.

Lemma tinv_upd h s b : TInv h s -> TInv (h ++ [wstat W c b]) (wupd W c s b).
Proof.
  intros [Ht Hl]. split.
  - cbn [wupd w_tot]. rewrite app_length, Ht. cbn [List.length]. lia.
  - intros Hc. destruct (Hl Hc) as (G & EG & HG). cbn [wupd w_life]. rewrite Hc, EG, ladd_map_l.
    exists (fun t => wadd W (nth t (wstat W c b) (wz W)) (G t)). split; [reflexivity|].
    intros t. eapply Req_trans; [apply wadd_cong, HG|].
    change (wadd W (nth t (wstat W c b) (wz W)) (colsum W t h)) with (colsum W t ([wstat W c b] ++ h)).
    apply colsum_perm. apply Permutation_app_comm.
Qed.

Lemma tinv_fold us : forall h s, TInv h s -> TInv (h ++ hist us) (fold_left (wupd W c) us s).
Proof.
  induction us as [|b us IH]; intros h s Hi; cbn [fold_left map].
  - rewrite app_nil_r. exact Hi.
  - replace (h ++ wstat W c b :: map (wstat W c) us) with ((h ++ [wstat W c b]) ++ map (wstat W c) us)
      by (rewrite <- app_assoc; reflexivity).
    apply IH, tinv_upd, Hi.
Qed.

Lemma tot_fold (ms : list (wst (wS W))) : forall a,
  fold_left (fun a m => a + w_tot m) ms a = a + list_sum (map (@w_tot (wS W)) ms).
Proof.
  induction ms as [|m ms IH]; intros a; cbn [fold_left map]; rewrite ?lsum_nil, ?lsum_cons; [lia|]. rewrite IH. lia.
Qed.

Lemma life_fold hs ms : Forall2 TInv hs ms -> cLife c = true ->
  forall (G : nat -> wS W) (H : list col), (forall t, R (G t) (colsum W t H)) ->
  exists G', fold_left (fun l m => ladd W c l (w_life m)) ms (map G (tasks c)) = map G' (tasks c) /\
             forall t, R (G' t) (colsum W t (H ++ List.concat hs)).
Proof.
  intros Hs Hc. induction Hs as [|h s hs ms Hi _ IH]; intros G H HG; cbn [fold_left List.concat].
  - exists G. split; [reflexivity|]. intros t. rewrite app_nil_r. apply HG.
  - destruct Hi as [_ Hl]. destruct (Hl Hc) as (Gm & Em & HGm). rewrite Em, ladd_maps.
    destruct (IH (fun t => wadd W (Gm t) (G t)) (H ++ h)) as (G' & E & HG').
    { intros t.
      eapply Req_trans; [apply (wadd_cong_l W L LM), HGm|].
      eapply Req_trans; [apply wadd_cong, HG|].
      eapply Req_trans; [apply (Req_sym W L LM), (colsum_app W L LM)|].
      apply colsum_perm, Permutation_app_comm. }
    exists G'. split; [exact E|]. intros t. rewrite app_assoc. apply HG'.
Qed.

Lemma tinv_mrg h0 s0 hs ms : TInv h0 s0 -> Forall2 TInv hs ms -> TInv (h0 ++ List.concat hs) (wmrg W c s0 ms).
Proof.
  intros [Ht0 Hl0] Hs. split.
  - cbn [wmrg w_tot]. rewrite tot_fold, app_length, Ht0. f_equal.
    clear - Hs. induction Hs as [|h s hs ms [Ht _] _ IH]; cbn [map List.concat]; [reflexivity|].
    rewrite lsum_cons, app_length, IH, Ht. reflexivity.
  - intros Hc. destruct (Hl0 Hc) as (G & EG & HG). cbn [wmrg w_life]. rewrite Hc, EG.
    exact (life_fold hs ms Hs Hc G h0 HG).
Qed.

Definition thist (t : mtree M) : list col := map (wstat W c) (stream M t).

Lemma thist_flat (os : list (mtree M)) : map (wstat W c) (flat_map (stream M) os) = List.concat (map thist os).
Proof.
  induction os as [|o os IH]; cbn [flat_map map List.concat]; [reflexivity|].
  rewrite map_app. f_equal. exact IH.
Qed.

Lemma tree_tinv : forall t : mtree M, TInv (thist t) (run M c t).
Proof.
  induction t as [bs|t os post IHt IHos] using mtree_ind'; unfold thist; cbn [run stream].
  - exact (tinv_fold bs [] (winit W c) tinv_init).
  - rewrite !map_app, app_assoc, thist_flat.
    apply (tinv_fold post). apply (tinv_mrg (thist t) (run M c t) (map thist os) (map (run M c) os) IHt).
    clear - IHos. induction IHos; cbn [map]; constructor; assumption.
Qed.

(* total_updates needs no law of the statistic at all *)
Lemma tot_fold_upd us : forall s, w_tot (fold_left (wupd W c) us s) = w_tot s + List.length us.
Proof.
  induction us as [|b us IH]; intros s; cbn [fold_left List.length]; [lia|]. rewrite IH. cbn [wupd w_tot]. lia.
Qed.
Theorem ring_total_updates_any_tree : forall t : mtree M, w_tot (run M c t) = List.length (stream M t).
Proof.
  induction t as [bs|t os post IHt IHos] using mtree_ind'; cbn [run stream].
  - rewrite tot_fold_upd. reflexivity.
  - rewrite tot_fold_upd. change (mrg M c (run M c t) (map (run M c) os)) with (wmrg W c (run M c t) (map (run M c) os)).
    cbn [wmrg w_tot]. rewrite tot_fold, IHt, !app_length, <- Nat.add_assoc. f_equal. f_equal.
    clear - IHos. induction IHos as [|o os Ho _ IH]; cbn [map flat_map]; [reflexivity|].
    rewrite lsum_cons, app_length, Ho, IH. reflexivity.
Qed.

(* compute() on a state that has seen h *)
Lemma tinv_lifetime h s : TInv h s -> cLife c = true ->
  exists ll, lifetime_of (wcmp W c s) = (if Nat.eqb (List.length h) 0 then None else Some (wgam W c ll)) /\
             Forall2 R ll (tsum W c h).
Proof.
  intros [Ht Hl] Hc. destruct (Hl Hc) as (G & EG & HG). exists (w_life s). split.
  - unfold wcmp. rewrite Ht. destruct (Nat.eqb (List.length h) 0); cbn [lifetime_of]; [reflexivity|].
    rewrite Hc. reflexivity.
  - rewrite EG. unfold tsum. apply Forall2_map_same. intros t _. apply HG.
Qed.

(* C01 for the lifetime component: every merge tree *)
Theorem ring_lifetime_any_tree (t : mtree M) : cLife c = true ->
  exists ll, lifetime_of (wcmp W c (run M c t))
             = (if Nat.eqb (List.length (stream M t)) 0 then None else Some (wgam W c ll)) /\
             Forall2 R ll (tsum W c (hist (stream M t))).
Proof.
  intros Hc. destruct (tinv_lifetime _ _ (tree_tinv t) Hc) as (ll & E & Hll).
  exists ll. split; [|exact Hll]. rewrite E. unfold thist. rewrite map_length. reflexivity.
Qed.

Lemma tsum_perm (h h' : list col) : Permutation h h' -> Forall2 R (tsum W c h) (tsum W c h').
Proof. intros HP. apply tsum_R. intros t. apply colsum_perm, HP. Qed.

(* any two groupings / orders of the same updates (in particular: one metric that saw everything) *)
Theorem ring_lifetime_any_two_trees (t t' : mtree M) : cLife c = true -> stream M t <> [] ->
  Permutation (stream M t) (stream M t') ->
  exists ll ll', lifetime_of (wcmp W c (run M c t)) = Some (wgam W c ll) /\
                 lifetime_of (wcmp W c (run M c t')) = Some (wgam W c ll') /\ Forall2 R ll ll'.
Proof.
  intros Hc Hne HP.
  destruct (ring_lifetime_any_tree t Hc) as (ll & E & Hll).
  destruct (ring_lifetime_any_tree t' Hc) as (ll' & E' & Hll').
  assert (Hl : List.length (stream M t') = List.length (stream M t)) by (symmetry; apply Permutation_length, HP).
  rewrite Hl in E'.
  assert (Hz : Nat.eqb (List.length (stream M t)) 0 = false).
  { apply Nat.eqb_neq. destruct (stream M t); [congruence|cbn; lia]. }
  rewrite Hz in E, E'. exists ll, ll'. split; [exact E|split; [exact E'|]].
  eapply Forall2_trans'; [apply Req_trans|exact Hll|].
  eapply Forall2_trans'; [apply Req_trans|apply tsum_perm, Permutation_map, HP|].
  apply Forall2_sym'; [apply (Req_sym W L LM)|exact Hll'].
Qed.

(* further update() calls on the result of any merge tree *)
Theorem ring_lifetime_after_tree_then_updates (t : mtree M) (post : list wbatch) : cLife c = true ->
  let s := fold_left (wupd W c) post (run M c t) in
  exists ll, w_tot s = List.length (stream M t ++ post) /\
             lifetime_of (wcmp W c s)
             = (if Nat.eqb (List.length (stream M t ++ post)) 0 then None else Some (wgam W c ll)) /\
             Forall2 R ll (tsum W c (hist (stream M t ++ post))).
Proof.
  intros Hc s. pose proof (tinv_fold post _ _ (tree_tinv t)) as Hi. fold s in Hi.
  assert (El : List.length (thist t ++ hist post) = List.length (stream M t ++ post))
    by (unfold thist; rewrite <- map_app; apply map_length).
  destruct (tinv_lifetime _ _ Hi Hc) as (ll & E & Hll). exists ll. split; [|split].
  - destruct Hi as [Ht _]. rewrite Ht. exact El.
  - rewrite E, El. reflexivity.
  - rewrite map_app. exact Hll.
Qed.

(* ===================================================================================== *)
(* Part B: the windows                                                                    *)
(* ===================================================================================== *)
(* every reachable state: max_num_updates is still N, the buffers have at least N slots *)
Definition Wf (s : wst (wS W)) : Prop := w_max s = N /\ N <= List.length (w_buf s).

Lemma wf_init : Wf (winit W c).
Proof. split; [reflexivity|]. cbn [winit w_buf]. rewrite repeat_length. lia. Qed.
Lemma wf_upd s b : Wf s -> Wf (wupd W c s b).
Proof. intros [Hm Hl]. split; [exact Hm|]. cbn [wupd w_buf]. rewrite wset_length. exact Hl. Qed.
Lemma wf_fold us : forall s, Wf s -> Wf (fold_left (wupd W c) us s).
Proof. induction us as [|b us IH]; intros s Hs; cbn [fold_left]; [exact Hs|]. apply IH, wf_upd, Hs. Qed.
Lemma wf_mrg s ms : Wf s -> Wf (wmrg W c s ms).
Proof.
  intros [Hm Hl]. split; [exact Hm|]. cbn [wmrg w_buf]. rewrite app_length, repeat_length.
  pose proof (fold_ge (@w_max (wS W)) ms (w_max s)). lia.
Qed.
Lemma tree_wf : forall t : mtree M, Wf (run M c t).
Proof.
  induction t as [bs|t os post IHt _] using mtree_ind'; cbn [run].
  - apply (wf_fold bs), wf_init.
  - apply (wf_fold post), wf_mrg, IHt.
Qed.

Lemma wfilled_length s : Wf s -> List.length (wfilled W s) = Nat.min (w_tot s) N.
Proof. intros [Hm Hl]. unfold wfilled. rewrite firstn_length, Hm. lia. Qed.

Lemma parts_length ms : Forall Wf ms ->
  List.length (flat_map (wfilled W) ms) = list_sum (map (fun m => Nat.min (w_tot m) N) ms).
Proof.
  induction 1 as [|m ms Hm _ IH]; cbn [flat_map map]; [reflexivity|].
  rewrite lsum_cons, app_length, IH, (wfilled_length m Hm). reflexivity.
Qed.

Lemma parts_arith (ms : list (wst (wS W))) :
  let T := list_sum (map (@w_tot (wS W)) ms) in
  let P := list_sum (map (fun m => Nat.min (w_tot m) N) ms) in
  Nat.min T N <= P /\ P <= T /\ (T < N -> P = T).
Proof. induction ms as [|m ms IH]; cbn [map] in *; rewrite ?lsum_nil, ?lsum_cons; lia. Qed.

Lemma wfilled_mrg_unfold s ms :
  wfilled W (wmrg W c s ms) =
  firstn (Nat.min (fold_left (fun a m => a + w_tot m) ms (w_tot s)) (w_max s))
         ((wfilled W s ++ flat_map (wfilled W) ms)
          ++ repeat (zcol W c) (fold_left (fun a m => a + w_max m) ms (w_max s)
                                - List.length (wfilled W s ++ flat_map (wfilled W) ms))).
Proof. reflexivity. Qed.

(* THE law behind window_merge_nested_refuted: a merged object that takes part in another merge (as
   target or as source) contributes only the first N slots of the pool it holds *)
Theorem wfilled_mrg s ms : Wf s -> Forall Wf ms ->
  wfilled W (wmrg W c s ms) = firstn N (wfilled W s ++ flat_map (wfilled W) ms).
Proof.
  intros Hs Hms. rewrite wfilled_mrg_unfold. set (parts := wfilled W s ++ flat_map (wfilled W) ms).
  assert (Hlen : List.length parts = Nat.min (w_tot s) N + list_sum (map (fun m => Nat.min (w_tot m) N) ms)).
  { unfold parts. rewrite app_length, (wfilled_length s Hs), (parts_length ms Hms). reflexivity. }
  destruct Hs as [Hm Hl]. rewrite tot_fold, Hm.
  destruct (parts_arith ms) as (A1 & A2 & A3).
  destruct (le_lt_dec N (w_tot s + list_sum (map (@w_tot (wS W)) ms))) as [Hge|Hlt].
  - rewrite Nat.min_r by lia. rewrite firstn_app. replace (N - List.length parts) with 0 by lia.
    cbn [firstn]. rewrite app_nil_r. reflexivity.
  - rewrite Nat.min_l by lia.
    assert (Hp : List.length parts = w_tot s + list_sum (map (@w_tot (wS W)) ms)) by lia.
    rewrite <- Hp, firstn_app, firstn_all, Nat.sub_diag. cbn [firstn]. rewrite app_nil_r.
    rewrite firstn_all2 by lia. reflexivity.
Qed.

(* ... while compute() right after the merge reads the WHOLE pool *)
Theorem wread_mrg s ms t : Wf s -> Forall Wf ms ->
  R (colsum W t (wread W (wmrg W c s ms))) (colsum W t (wfilled W s ++ flat_map (wfilled W) ms)).
Proof.
  intros Hs Hms. set (parts := wfilled W s ++ flat_map (wfilled W) ms).
  assert (Hlen : List.length parts = Nat.min (w_tot s) N + list_sum (map (fun m => Nat.min (w_tot m) N) ms)).
  { unfold parts. rewrite app_length, (wfilled_length s Hs), (parts_length ms Hms). reflexivity. }
  destruct Hs as [Hm Hl]. destruct (parts_arith ms) as (A1 & A2 & A3).
  assert (Hwhole : R (colsum W t (w_buf (wmrg W c s ms))) (colsum W t parts)).
  { cbn [wmrg w_buf]. fold parts. apply (colsum_app_zeros W L c t parts).
    intros x Hx. apply repeat_spec in Hx. exact Hx. }
  unfold wread. destruct (wwhole W); [exact Hwhole|].
  cbn [wmrg w_max w_tot]. rewrite tot_fold, Hm.
  destruct (Nat.leb_spec N (w_tot s + list_sum (map (@w_tot (wS W)) ms))) as [Hge|Hlt]; [exact Hwhole|].
  cbn [wmrg w_cur w_buf]. fold parts. rewrite Hm.
  assert (Hp : List.length parts < N) by lia.
  rewrite Nat.mod_small by exact Hp.
  rewrite firstn_app, firstn_all, Nat.sub_diag. cbn [firstn]. rewrite app_nil_r. apply Req_refl.
Qed.

(* ---- closed form for every merge tree without updates after a merge ---- *)
Fixpoint contrib (t : mtree M) : list col :=
  match t with
  | Shard _ us => wfilled W (fold_left (wupd W c) us (winit W c))
  | Merge _ t os _ => firstn N (contrib t ++ flat_map contrib os)
  end.
Fixpoint nopost (t : mtree M) : bool :=
  match t with
  | Shard _ _ => true
  | Merge _ t os post => nopost t && forallb nopost os && match post with [] => true | _ => false end
  end.

Lemma trees_wf (os : list (mtree M)) : Forall Wf (map (run M c) os).
Proof. induction os as [|o os IH]; cbn [map]; constructor; [apply tree_wf|exact IH]. Qed.

Lemma contrib_run : forall t : mtree M, nopost t = true -> wfilled W (run M c t) = contrib t.
Proof.
  induction t as [bs|t os post IHt IHos] using mtree_ind'; intros Hn; cbn [run contrib nopost] in *.
  - reflexivity.
  - apply andb_true_iff in Hn as [Hn Hp]. apply andb_true_iff in Hn as [Hnt Hno].
    destruct post as [|b post]; [|discriminate]. cbn [fold_left].
    change (mrg M c (run M c t) (map (run M c) os)) with (wmrg W c (run M c t) (map (run M c) os)).
    rewrite (wfilled_mrg _ _ (tree_wf t) (trees_wf os)), (IHt Hnt). f_equal. f_equal.
    clear - IHos Hno. induction IHos as [|o os Ho _ IH]; cbn [map flat_map forallb] in *; [reflexivity|].
    apply andb_true_iff in Hno as [H1 H2]. rewrite (Ho H1), (IH H2). reflexivity.
Qed.
Lemma contribs_run (os : list (mtree M)) : forallb nopost os = true ->
  flat_map (wfilled W) (map (run M c) os) = flat_map contrib os.
Proof.
  induction os as [|o os IH]; cbn [map flat_map forallb]; intros Hn; [reflexivity|].
  apply andb_true_iff in Hn as [H1 H2]. rewrite (contrib_run o H1), (IH H2). reflexivity.
Qed.

(* what compute() reads at the root of a post-free merge tree: the (untruncated) pool of what the
   sub-trees contribute, each merged sub-tree truncated to its first N slots *)
Theorem ring_window_any_tree (t : mtree M) (os : list (mtree M)) :
  nopost t = true -> forallb nopost os = true ->
  let s := run M c (Merge M t os []) in
  exists lw, windowed_of (wcmp W c s) = (if Nat.eqb (w_tot s) 0 then None else Some (wgam W c lw)) /\
             Forall2 R lw (tsum W c (contrib t ++ flat_map contrib os)).
Proof.
  intros Hnt Hno s. exists (tsum W c (wread W s)). split.
  - unfold wcmp. destruct (Nat.eqb (w_tot s) 0); reflexivity.
  - apply tsum_R. intros k. unfold s. cbn [run fold_left].
    change (mrg M c (run M c t) (map (run M c) os)) with (wmrg W c (run M c t) (map (run M c) os)).
    rewrite <- (contrib_run t Hnt), <- (contribs_run os Hno).
    apply wread_mrg; [apply tree_wf|apply trees_wf].
Qed.

(* a leaf contributes (a rotation of) its last N updates; exactly its updates if it saw at most N *)
Lemma contrib_shard_perm us : 0 < N ->
  Permutation (contrib (Shard M us)) (lastn N (hist us)) /\ List.length (contrib (Shard M us)) = Nat.min (List.length us) N.
Proof.
  intros HN. destruct (shard_inv W c us HN) as [Hi _].
  destruct (filled_perm W c (hist us) (shard us) HN Hi) as (HP & _ & _). split; [exact HP|].
  cbn [contrib]. rewrite (wfilled_length _ (wf_fold us _ wf_init)).
  destruct Hi as [_ (o & p & cu & _ & _ & _ & Ht & _)]. rewrite Ht, map_length. reflexivity.
Qed.
Lemma contrib_shard_nowrap us : 0 < N -> List.length us <= N -> contrib (Shard M us) = hist us.
Proof.
  intros HN Hle. destruct (shard_inv W c us HN) as [[Hmax (older & prev & cur & Hh & Hc & HcN & Ht & Hb)] _].
  cbv beta in *. cbn [contrib]. unfold wfilled. rewrite Hmax, Ht.
  assert (Hl : List.length (map (wstat W c) us) <= N) by (rewrite map_length; exact Hle).
  rewrite Nat.min_l by exact Hl.
  destruct Hb as [[Hp Hb]|(Ep & Eo & Hb)].
  - rewrite Hh, !app_length in Hl.
    assert (Eo : older = []) by (destruct older; [reflexivity|cbn in Hl; lia]).
    assert (Ec : cur = []) by (destruct cur; [reflexivity|cbn in Hl; lia]).
    subst older cur. cbn [app List.length skipn] in *. rewrite app_nil_r in Hh.
    rewrite Hb, Hh. apply firstn_all.
  - subst prev older. cbn [app] in Hh. rewrite Hb, Hh.
    rewrite firstn_app, firstn_all, Nat.sub_diag. cbn [firstn]. apply app_nil_r.
Qed.

(* ---- sequential merging  A.merge([B1]); A.merge([B2]); ...; A.merge([Bk]) ---- *)
Definition seq_merge (s : wst (wS W)) (uss : list (list wbatch)) : wst (wS W) :=
  fold_left (fun s us => wmrg W c s [shard us]) uss s.

(* a target whose first N slots are full keeps exactly those through any number of merges *)
Lemma seq_keeps uss : forall s, Wf s -> List.length (wfilled W s) = N ->
  Wf (seq_merge s uss) /\ wfilled W (seq_merge s uss) = wfilled W s.
Proof.
  induction uss as [|us uss IH]; intros s Hs Hl; cbn [seq_merge fold_left]; [split; [exact Hs|reflexivity]|].
  assert (E : wfilled W (wmrg W c s [shard us]) = wfilled W s).
  { rewrite (wfilled_mrg s [shard us] Hs) by (constructor; [apply (wf_fold us), wf_init|constructor]).
    rewrite firstn_app, Hl, Nat.sub_diag. cbn [firstn]. rewrite app_nil_r. rewrite <- Hl. apply firstn_all. }
  destruct (IH (wmrg W c s [shard us]) (wf_mrg s _ Hs)) as [H1 H2]; [rewrite E; exact Hl|].
  split; [exact H1|exact (eq_trans H2 E)].
Qed.

(* THE characterisation of the known finding: with a target shard that saw >= N updates, after any
   number of one-source merges the window is  lastN(target) ++ lastN(LAST source)  -- the windows of
   all sources merged in between are gone *)
Theorem ring_sequential_merge_window (uA : list wbatch) (uss : list (list wbatch)) (uL : list wbatch) :
  0 < N -> N <= List.length uA ->
  let s := seq_merge (shard uA) (uss ++ [uL]) in
  exists lw, windowed_of (wcmp W c s) = Some (wgam W c lw) /\
             Forall2 R lw (tsum W c (lastn N (hist uA) ++ lastn N (hist uL))).
Proof.
  intros HN HA s.
  destruct (contrib_shard_perm uA HN) as [PA LA]. cbn [contrib] in PA, LA. rewrite Nat.min_r in LA by exact HA.
  destruct (contrib_shard_perm uL HN) as [PL _]. cbn [contrib] in PL.
  destruct (seq_keeps uss (shard uA) (wf_fold uA _ wf_init) LA) as [HwS ES].
  set (S0 := seq_merge (shard uA) uss) in *.
  assert (Es : s = wmrg W c S0 [shard uL]) by (unfold s, seq_merge; rewrite fold_left_app; reflexivity).
  assert (HwL : Forall Wf [shard uL]) by (constructor; [apply (wf_fold uL), wf_init|constructor]).
  exists (tsum W c (wread W s)). split.
  - unfold wcmp.
    assert (Hpos : w_tot s <> 0).
    { rewrite Es. cbn [wmrg w_tot fold_left].
      pose proof (wfilled_length S0 HwS) as Hl. rewrite ES, LA in Hl. lia. }
    apply Nat.eqb_neq in Hpos. rewrite Hpos. reflexivity.
  - apply tsum_R. intros k. rewrite Es.
    eapply Req_trans; [apply (wread_mrg S0 [shard uL] k HwS HwL)|].
    apply colsum_perm. rewrite ES. cbn [flat_map]. rewrite app_nil_r.
    apply Permutation_app; assumption.
Qed.

(* a target that saw a <= N updates absorbs the OLDEST  N - a  slots of a first source that saw <= N:
   A.merge([B]); A.merge([C])  reads  A ++ firstn (N - a) B ++ lastN(C) *)
Theorem ring_sequential_merge_small (uA uB uC : list wbatch) :
  0 < N -> List.length uA <= N -> List.length uB <= N ->
  let s := seq_merge (shard uA) [uB; uC] in
  exists lw, windowed_of (wcmp W c s) = (if Nat.eqb (w_tot s) 0 then None else Some (wgam W c lw)) /\
             Forall2 R lw (tsum W c (hist uA ++ firstn (N - List.length uA) (hist uB) ++ lastn N (hist uC))).
Proof.
  intros HN HA HB s.
  pose proof (contrib_shard_nowrap uA HN HA) as EA. pose proof (contrib_shard_nowrap uB HN HB) as EB.
  destruct (contrib_shard_perm uC HN) as [PC _]. cbn [contrib] in EA, EB, PC.
  assert (HwA : Wf (shard uA)) by (apply (wf_fold uA), wf_init).
  assert (HwB : Forall Wf [shard uB]) by (constructor; [apply (wf_fold uB), wf_init|constructor]).
  assert (HwC : Forall Wf [shard uC]) by (constructor; [apply (wf_fold uC), wf_init|constructor]).
  exists (tsum W c (wread W s)). split.
  - unfold wcmp. destruct (Nat.eqb (w_tot s) 0); reflexivity.
  - apply tsum_R. intros k. unfold s, seq_merge. cbn [fold_left].
    eapply Req_trans; [apply (wread_mrg _ [shard uC] k (wf_mrg _ [shard uB] HwA) HwC)|].
    rewrite (wfilled_mrg _ _ HwA HwB). cbn [flat_map]. rewrite !app_nil_r, EA, EB.
    rewrite firstn_app, firstn_all2, map_length by (rewrite map_length; exact HA).
    rewrite <- app_assoc. apply colsum_perm. apply Permutation_app_head, Permutation_app_head, PC.
Qed.

(* ---- when the statistic's equivalence is plain equality: clean statements ---- *)
Hypothesis R_eq : forall x y, R x y -> x = y.

Theorem ring_lifetime_any_tree_eq (t : mtree M) : cLife c = true ->
  lifetime_of (wcmp W c (run M c t))
  = (if Nat.eqb (List.length (stream M t)) 0 then None else Some (win_ref W c (stream M t))).
Proof.
  intros Hc. destruct (ring_lifetime_any_tree t Hc) as (ll & E & Hll). rewrite E.
  rewrite (Forall2_eq _ _ _ R_eq Hll). reflexivity.
Qed.
Theorem ring_lifetime_any_two_trees_eq (t t' : mtree M) : cLife c = true ->
  Permutation (stream M t) (stream M t') ->
  lifetime_of (wcmp W c (run M c t)) = lifetime_of (wcmp W c (run M c t')).
Proof.
  intros Hc HP. rewrite !ring_lifetime_any_tree_eq by exact Hc.
  rewrite (Permutation_length HP). destruct (Nat.eqb (List.length (stream M t')) 0); [reflexivity|].
  unfold win_ref. rewrite (Forall2_eq _ _ _ R_eq (tsum_perm _ _ (Permutation_map (wstat W c) HP))). reflexivity.
Qed.
Theorem ring_lifetime_after_tree_then_updates_eq (t : mtree M) (post : list wbatch) : cLife c = true ->
  lifetime_of (wcmp W c (fold_left (wupd W c) post (run M c t)))
  = (if Nat.eqb (List.length (stream M t ++ post)) 0 then None else Some (win_ref W c (stream M t ++ post))).
Proof.
  intros Hc. destruct (ring_lifetime_after_tree_then_updates t post Hc) as (ll & _ & E & Hll). rewrite E.
  rewrite (Forall2_eq _ _ _ R_eq Hll). reflexivity.
Qed.
Theorem ring_sequential_merge_window_eq (uA : list wbatch) (uss : list (list wbatch)) (uL : list wbatch) :
  0 < N -> N <= List.length uA ->
  windowed_of (wcmp W c (seq_merge (shard uA) (uss ++ [uL]))) = Some (win_ref W c (lastn N uA ++ lastn N uL)).
Proof.
  intros HN HA. destruct (ring_sequential_merge_window uA uss uL HN HA) as (lw & E & Hlw). rewrite E.
  rewrite (Forall2_eq _ _ _ R_eq Hlw). unfold win_ref. rewrite map_app, <- !lastn_map. reflexivity.
Qed.
End TreeProofs.
