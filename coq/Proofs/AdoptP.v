(* Shape-adopting additive states (MeanSquaredError, R2Score): a monoid abstraction with an ADJOINED
   identity -- a fresh 0-dim state of a 2-D stream carries no data (compute() on it has scalar shape,
   unlike a zero vector), so alpha maps it to None; vector / 1-D states map to Some (their sums). *)
From Coq Require Import ZArith List Bool QArith Qcanon Lia Permutation String.
From TE Require Import Base.Val Base.Nd Base.Xq Algebra.Metric Algebra.MergeTree Algebra.Pool
  Models.Aggregation Models.Aggregation2 Models.Regression Proofs.RegressionP.
Import ListNotations.
Open Scope list_scope.
Open Scope Qc_scope.

Definition aop (a b : option nd) : option nd :=
  match a, b with None, x => x | x, None => x | Some x, Some y => Some (nadd x y) end.
Lemma aop_assoc a b c : aop a (aop b c) = aop (aop a b) c.
Proof. destruct a, b, c; cbn [aop]; try reflexivity. rewrite nadd_assoc. reflexivity. Qed.
Lemma aop_comm a b : aop a b = aop b a.
Proof. destruct a, b; cbn [aop]; try reflexivity. rewrite nadd_comm. reflexivity. Qed.

Definition is_scq (x : nd) : Prop := exists q, x = Sc q.
Definition is_vec (d : nat) (x : nd) : Prop := exists l, x = nvec l /\ List.length l = d.
Definition pack (s : astat) : nd := Arr [nvec (a_sc s); Arr (a_vs s)].
Definition unpack (x : nd) : astat := {| a_sc := nlist (nget 0 x); a_vs := narr (nget 1 x) |}.
Lemma unpack_pack s : unpack (pack s) = s.
Proof. destruct s as [sc vs]. unfold unpack, pack, nget. cbn [narr nth a_sc a_vs]. rewrite nlist_nvec. reflexivity. Qed.

Lemma nvec_add : forall a b, nadd (nvec a) (nvec b) = nvec (map2 Qcplus a b).
Proof.
  unfold nvec. intros a b. rewrite nadd_arr. f_equal. revert b.
  induction a as [|x a IH]; intros [|y b]; cbn [map map2]; try reflexivity. rewrite IH. reflexivity.
Qed.
Lemma map2_ext_l {X Y Z} (P : X -> Prop) (f g : X -> Y -> Z) : (forall x y, P x -> f x y = g x y) ->
  forall a b, Forall P a -> map2 f a b = map2 g a b.
Proof.
  intros H a. induction a as [|x a IH]; intros [|y b] Ha; cbn [map2]; try reflexivity.
  inversion Ha; subst. rewrite H, IH by assumption. reflexivity.
Qed.
Lemma badd_sc_l x y : is_scq x -> badd x y = nadd x y. Proof. intros [q ->]. reflexivity. Qed.
Lemma badd_vec_r d x y : is_vec d y -> badd x y = nadd x y.
Proof. intros [l [-> _]]. destruct x; reflexivity. Qed.
Lemma map2_Forall {X} (P : X -> Prop) (f : X -> X -> X) : (forall x y, P x -> P y -> P (f x y)) ->
  forall a b, Forall P a -> Forall P b -> Forall P (map2 f a b).
Proof.
  intros H a. induction a as [|x a IH]; intros [|y b] Ha Hb; cbn [map2]; try constructor;
    inversion Ha; inversion Hb; subst; [apply H|apply IH]; assumption.
Qed.
Lemma nadd_scq x y : is_scq x -> is_scq y -> is_scq (nadd x y).
Proof. intros [a ->] [b ->]. exists (a + b). reflexivity. Qed.
Lemma map2_len' {X Y Z} (f : X -> Y -> Z) : forall a b, List.length a = List.length b -> List.length (map2 f a b) = List.length a.
Proof. induction a as [|x a IH]; intros [|y b] H; try discriminate; cbn [map2 List.length]; [reflexivity|]. rewrite IH by (injection H; auto). reflexivity. Qed.
Lemma nadd_vec d x y : is_vec d x -> is_vec d y -> is_vec d (nadd x y).
Proof.
  intros [a [-> Ha]] [b [-> Hb]]. exists (map2 Qcplus a b). split; [apply nvec_add|].
  rewrite map2_len'; congruence.
Qed.
Lemma badd_rep : forall m, map2 badd (repeat (Sc 0) m) (repeat (Sc 0) m) = repeat (Sc 0) m.
Proof. induction m as [|m IH]; cbn [repeat map2]; [reflexivity|]. rewrite IH. cbn [badd nadd]. rewrite Qcplus_0_l. reflexivity. Qed.
Lemma badd_vec_rep d : forall vs, Forall (is_vec d) vs -> map2 badd vs (repeat (Sc 0) (List.length vs)) = vs.
Proof.
  induction vs as [|v vs IH]; intros H; cbn [List.length repeat map2]; [reflexivity|]. inversion H as [|? ? [l [-> _]] Hvs]; subst.
  rewrite IH by exact Hvs. f_equal. unfold nvec. cbn [badd]. f_equal. rewrite map_map. apply map_ext. intros a. cbn [nadd].
  rewrite Qcplus_0_r. reflexivity.
Qed.
Lemma sc1_0_l sc : List.length sc = 1%nat -> map2 Qcplus [0] sc = sc.
Proof. destruct sc as [|q [|? ?]]; try discriminate. intros _. cbn [map2]. rewrite Qcplus_0_l. reflexivity. Qed.
Lemma sc1_0_r sc : List.length sc = 1%nat -> map2 Qcplus sc [0] = sc.
Proof. destruct sc as [|q [|? ?]]; try discriminate. intros _. cbn [map2]. rewrite Qcplus_0_r. reflexivity. Qed.
Lemma nth_rep {X} (a : X) : forall m k, nth k (repeat a m) a = a.
Proof. induction m as [|m IH]; intros [|k]; cbn [repeat nth]; try reflexivity. apply IH. Qed.

Lemma badd_vecs d : forall a b, Forall (is_vec d) a -> Forall (is_vec d) b -> map2 badd a b = map2 nadd a b.
Proof.
  induction a as [|x a IH]; intros [|y b] Ha Hb; cbn [map2]; try reflexivity.
  inversion Ha; inversion Hb; subst. rewrite (badd_vec_r d x y) by assumption. rewrite IH by assumption. reflexivity.
Qed.
Lemma pack_add s t : nadd (pack s) (pack t) = Arr [nvec (map2 Qcplus (a_sc s) (a_sc t)); Arr (map2 nadd (a_vs s) (a_vs t))].
Proof. unfold pack. rewrite nadd_arr. cbn [map2]. rewrite nvec_add, nadd_arr. reflexivity. Qed.

Section Adopt.
Variables (key m : nat).
Hypothesis Hkey : (key < m)%nat.

Definition fresh : astat := {| a_sc := [0]; a_vs := repeat (Sc 0) m |}.
Definition zero_of (w : option nat) : nd := match w with None => Sc 0 | Some d => nzeros d end.
Definition shape (w : option nat) : nd := Arr [nzeros 1; Arr (repeat (zero_of w) m)].
Definition a_e (w : option nat) : option nd := match w with None => Some (pack fresh) | Some _ => None end.
Definition a_ok (w : option nat) (x : option nd) : Prop :=
  match w with
  | None => exists y, x = Some y /\ same (shape None) y = true
  | Some d => x = None \/ exists y, x = Some y /\ same (shape (Some d)) y = true
  end.
Definition a_alpha (w : option nat) (s : astat) : option nd :=
  match w with
  | None => Some (pack s)
  | Some _ => if is_sc (nth key (a_vs s) (Sc 0)) then None else Some (pack s)
  end.
Definition a_reach (w : option nat) (s : astat) : Prop :=
  match w with
  | None => List.length (a_sc s) = 1%nat /\ List.length (a_vs s) = m /\ Forall is_scq (a_vs s)
  | Some d => s = fresh \/ (List.length (a_sc s) = 1%nat /\ List.length (a_vs s) = m /\ Forall (is_vec d) (a_vs s))
  end.

Lemma key_vec d vs : List.length vs = m -> Forall (is_vec d) vs -> is_sc (nth key vs (Sc 0)) = false.
Proof.
  intros Hl Hv. assert (Hin : In (nth key vs (Sc 0)) vs) by (apply nth_In; lia).
  rewrite Forall_forall in Hv. destruct (Hv _ Hin) as [l [-> _]]. reflexivity.
Qed.
Lemma key_sc vs : Forall is_scq vs -> is_sc (nth key vs (Sc 0)) = true.
Proof.
  intros Hv. destruct (lt_dec key (List.length vs)) as [H|H].
  - rewrite Forall_forall in Hv. destruct (Hv _ (nth_In vs (Sc 0) H)) as [q ->]. reflexivity.
  - rewrite nth_overflow by lia. reflexivity.
Qed.
Lemma key_fresh : is_sc (nth key (a_vs fresh) (Sc 0)) = true.
Proof. unfold fresh. cbn [a_vs]. rewrite nth_rep. reflexivity. Qed.

Lemma same_shape_op z x y : same z x = true -> same z y = true -> same z (nadd x y) = true.
Proof.
  intros Hx Hy. assert (Hxy : same x y = true) by (apply (same_trans x z y); [rewrite same_sym; exact Hx|exact Hy]).
  pose proof (nadd_same x y Hxy) as H. rewrite same_sym in H. apply (same_trans z x (nadd x y)); assumption.
Qed.
Lemma all2_repeat z : forall k vs, List.length vs = k -> Forall (fun x => same z x = true) vs -> all2 same (repeat z k) vs = true.
Proof.
  induction k as [|k IH]; intros [|v vs] Hl Hv; try discriminate; cbn [repeat all2]; [reflexivity|].
  inversion Hv; subst. rewrite H1, IH by (try assumption; injection Hl; auto). reflexivity.
Qed.
Lemma same_vec d x : is_vec d x -> same (nzeros d) x = true.
Proof.
  intros [l [-> Hl]]. subst d. unfold nzeros, nvec. rewrite same_arr.
  induction l as [|a l IH]; cbn [List.length repeat map all2]; [reflexivity|]. exact IH.
Qed.
Lemma same_sc1 sc : List.length sc = 1%nat -> same (nzeros 1) (nvec sc) = true.
Proof. destruct sc as [|q [|? ?]]; try discriminate. reflexivity. Qed.
Lemma pack_shape w s : List.length (a_sc s) = 1%nat -> List.length (a_vs s) = m ->
  Forall (fun x => same (zero_of w) x = true) (a_vs s) -> same (shape w) (pack s) = true.
Proof.
  intros H1 H2 H3. unfold shape, pack. rewrite same_arr. cbn [all2]. rewrite (same_sc1 _ H1), same_arr, (all2_repeat _ m _ H2 H3). reflexivity.
Qed.
Lemma reach_ok w s : a_reach w s -> a_ok w (a_alpha w s).
Proof.
  destruct w as [d|]; cbn [a_reach a_ok a_alpha].
  - intros [->|[H1 [H2 H3]]]; [left; rewrite key_fresh; reflexivity|]. right. rewrite (key_vec d _ H2 H3).
    exists (pack s). split; [reflexivity|]. apply pack_shape; try assumption. eapply Forall_impl; [|exact H3]. intros x. apply same_vec.
  - intros [H1 [H2 H3]]. exists (pack s). split; [reflexivity|]. apply pack_shape; try assumption.
    eapply Forall_impl; [|exact H3]. intros x [q ->]. reflexivity.
Qed.
Lemma a_ok_e w : a_ok w (a_e w).
Proof.
  destruct w as [d|]; cbn [a_ok a_e]; [left; reflexivity|]. exists (pack fresh). split; [reflexivity|].
  apply pack_shape; [reflexivity|apply repeat_length|]. unfold fresh. cbn [a_vs].
  clear. induction m; cbn [repeat]; constructor; [reflexivity|assumption].
Qed.
Lemma a_ok_op w x y : a_ok w x -> a_ok w y -> a_ok w (aop x y).
Proof.
  destruct w as [d|]; cbn [a_ok].
  - intros [->|[x' [-> Hx]]] [->|[y' [-> Hy]]]; cbn [aop]; try (left; reflexivity); right.
    + exists y'. split; [reflexivity|exact Hy].
    + exists x'. split; [reflexivity|exact Hx].
    + exists (nadd x' y'). split; [reflexivity|apply same_shape_op; assumption].
  - intros [x' [-> Hx]] [y' [-> Hy]]. exists (nadd x' y'). split; [reflexivity|apply same_shape_op; assumption].
Qed.
Lemma is_zero_shape_none : is_zero (pack fresh) = true.
Proof.
  unfold pack, fresh. cbn [a_sc a_vs is_zero forallb nvec map]. destruct (Qc_eq_dec 0 0) as [_|n]; [|congruence]. cbn [andb].
  rewrite andb_true_r. clear. induction m; cbn [repeat forallb is_zero]; [reflexivity|]. destruct (Qc_eq_dec 0 0); [assumption|congruence].
Qed.
Lemma same_fresh_none : same (pack fresh) (shape None) = true.
Proof.
  unfold pack, fresh, shape. cbn [a_sc a_vs zero_of]. rewrite same_arr. cbn [all2]. rewrite same_arr.
  assert (H : all2 same (repeat (Sc 0) m) (repeat (Sc 0) m) = true) by (clear; induction m; cbn [repeat all2]; [reflexivity|assumption]).
  rewrite H. reflexivity.
Qed.
Lemma a_e_l w x : a_ok w x -> aop (a_e w) x = x.
Proof.
  destruct w as [d|]; cbn [a_ok a_e]; [intros _; reflexivity|]. intros [y [-> Hy]]. cbn [aop]. f_equal.
  apply nadd_zero_l; [apply is_zero_shape_none|]. apply (same_trans _ (shape None) _); [apply same_fresh_none|exact Hy].
Qed.
Lemma a_e_r w x : a_ok w x -> aop x (a_e w) = x.
Proof. intros H. rewrite aop_comm. apply a_e_l. exact H. Qed.

(* the common body of update() and of one merge_state() iteration is a homomorphism *)
Lemma step_hom w s t : a_reach w s -> a_reach w t ->
  a_alpha w (adopt_step key s t) = aop (a_alpha w s) (a_alpha w t) /\ a_reach w (adopt_step key s t).
Proof.
  destruct w as [d|]; cbn [a_reach a_alpha].
  - intros [->|[S1 [S2 S3]]] [->|[T1 [T2 T3]]].
    + assert (E : adopt_step key fresh fresh = fresh).
      { unfold adopt_step. rewrite key_fresh. cbn [andb negb]. unfold fresh. cbn [a_sc a_vs map2]. rewrite badd_rep, Qcplus_0_l. reflexivity. }
      rewrite E, key_fresh. split; [reflexivity|left; reflexivity].
    + assert (E : adopt_step key fresh t = t).
      { unfold adopt_step. rewrite key_fresh, (key_vec d _ T2 T3). cbn [andb negb]. cbn [fresh a_sc]. rewrite (sc1_0_l _ T1). destruct t; reflexivity. }
      rewrite E, key_fresh. split; [reflexivity|right; repeat split; assumption].
    + assert (E : adopt_step key s fresh = s).
      { unfold adopt_step. rewrite (key_vec d _ S2 S3). cbn [andb]. cbn [fresh a_sc a_vs]. rewrite (sc1_0_r _ S1), <- S2, (badd_vec_rep d _ S3). destruct s; reflexivity. }
      rewrite E, key_fresh, (key_vec d _ S2 S3). split; [reflexivity|right; repeat split; assumption].
    + assert (E : adopt_step key s t = {| a_sc := map2 Qcplus (a_sc s) (a_sc t); a_vs := map2 nadd (a_vs s) (a_vs t) |}).
      { unfold adopt_step. rewrite (key_vec d _ S2 S3). cbn [andb]. rewrite (badd_vecs d _ _ S3 T3). reflexivity. }
      assert (R1 : List.length (map2 Qcplus (a_sc s) (a_sc t)) = 1%nat) by (rewrite map2_len'; congruence).
      assert (R2 : List.length (map2 nadd (a_vs s) (a_vs t)) = m) by (rewrite map2_len'; congruence).
      assert (R3 : Forall (is_vec d) (map2 nadd (a_vs s) (a_vs t))) by (apply map2_Forall; [apply nadd_vec|assumption|assumption]).
      rewrite E. cbn [a_vs a_sc]. rewrite (key_vec d _ R2 R3), (key_vec d _ S2 S3), (key_vec d _ T2 T3). cbn [aop].
      split; [rewrite pack_add; reflexivity|right; repeat split; assumption].
  - intros [S1 [S2 S3]] [T1 [T2 T3]].
    assert (E : adopt_step key s t = {| a_sc := map2 Qcplus (a_sc s) (a_sc t); a_vs := map2 nadd (a_vs s) (a_vs t) |}).
    { unfold adopt_step. rewrite (key_sc _ S3), (key_sc _ T3). cbn [andb negb].
      rewrite (map2_ext_l is_scq badd nadd) by (try exact S3; intros x y Hx; apply badd_sc_l; exact Hx). reflexivity. }
    rewrite E. cbn [aop a_sc a_vs]. split; [rewrite pack_add; reflexivity|].
    repeat split; [rewrite map2_len'; congruence|rewrite map2_len'; congruence|apply map2_Forall; [apply nadd_scq|assumption|assumption]].
Qed.
Lemma fold_hom w : forall ms s, a_reach w s -> Forall (a_reach w) ms ->
  a_alpha w (fold_left (adopt_step key) ms s) = fold_left aop (map (a_alpha w) ms) (a_alpha w s)
  /\ a_reach w (fold_left (adopt_step key) ms s).
Proof.
  induction ms as [|t ms IH]; intros s Hs Hm; cbn [fold_left map]; [split; [reflexivity|exact Hs]|].
  inversion Hm; subst. destruct (step_hom w s t Hs H1) as [Ha Hr]. destruct (IH _ Hr H2) as [IHa IHr].
  split; [rewrite IHa, Ha; reflexivity|exact IHr].
Qed.
Lemma fresh_reach w : a_reach w fresh.
Proof.
  destruct w as [d|]; cbn [a_reach]; [left; reflexivity|]. unfold fresh. cbn [a_sc a_vs]. split; [reflexivity|]. split; [apply repeat_length|].
  clear. induction m; cbn [repeat]; constructor; [exists 0; reflexivity|assumption].
Qed.
Lemma fresh_alpha w : a_alpha w fresh = a_e w.
Proof. destruct w as [d|]; cbn [a_alpha a_e]; [rewrite key_fresh|]; reflexivity. Qed.
(* compute() factors: on reachable states it only needs alpha *)
Lemma alpha_some w s x : a_reach w s -> a_alpha w s = Some x -> unpack x = s.
Proof.
  destruct w as [d|]; cbn [a_alpha]; intros _ H.
  - destruct (is_sc (nth key (a_vs s) (Sc 0))); [discriminate|]. injection H as <-. apply unpack_pack.
  - injection H as <-. apply unpack_pack.
Qed.
Lemma alpha_none w s : a_reach w s -> a_alpha w s = None -> s = fresh.
Proof.
  destruct w as [d|]; cbn [a_alpha a_reach]; [|discriminate].
  intros [->|[_ [H2 H3]]]; [reflexivity|]. rewrite (key_vec d _ H2 H3). discriminate.
Qed.
End Adopt.

(* a batch statistic presented as torch does is reachable *)
Lemma present_reach_vec d l : List.length l = d -> is_vec d (present false l).
Proof. intros H. exists l. split; [reflexivity|exact H]. Qed.
Lemma colsums_len d rows : List.length (colsums d rows) = d.
Proof. unfold colsums. rewrite map_length. apply seq_length. Qed.
Lemma rb_valid_1d w b : rb_valid w b = true -> rb_1d b = match w with None => true | Some _ => false end.
Proof. unfold rb_valid. intros H. repeat (apply andb_prop in H as [H ?]). apply eqb_prop. exact H. Qed.

(* ---- MeanSquaredError ---- *)
Lemma mse_stat_reach c b : rb_valid (mse_w c) b = true -> a_reach 1 (mse_w c) (mse_stat c b).
Proof.
  intros Hv. pose proof (rb_valid_1d _ _ Hv) as H1. unfold mse_stat.
  destruct (mse_w c) as [d|]; cbn [a_reach width_of]; rewrite H1.
  - right. destruct (rb_w b); cbn [a_sc a_vs List.length]; repeat split; constructor; try constructor;
      apply present_reach_vec, colsums_len.
  - destruct (rb_w b); cbn [a_sc a_vs List.length]; repeat split; constructor; try constructor; eexists; reflexivity.
Qed.
Definition mse_gamma (c : mse_cfg) (x : option nd) : xnd :=
  match x with None => mse_cmp c mse_init | Some y => mse_cmp c (unpack y) end.
Definition mse_alg : Alg mse_metric.
Proof.
  refine (Build_Alg mse_metric (option nd) (fun c => a_e 1 (mse_w c)) aop (fun c => a_ok 1 (mse_w c)) aop_assoc _ _ _ _
            (fun c => a_alpha 0 (mse_w c)) (fun c b => a_alpha 0 (mse_w c) (mse_stat c b)) mse_gamma
            (fun c => a_reach 1 (mse_w c)) _ _ _ _ _ _ _).
  - intros c. apply a_ok_e.
  - intros c. apply a_ok_op.
  - intros c. apply a_e_l.
  - intros c. apply a_e_r.
  - intros c b Hb. apply (reach_ok 0 1 ltac:(lia)). apply mse_stat_reach. exact Hb.
  - intros c s Hs. apply (reach_ok 0 1 ltac:(lia)). exact Hs.
  - intros c. apply (fresh_reach 1).
  - intros c. apply (fresh_alpha 0 1).
  - intros c s b Hs Hb. apply (step_hom 0 1 ltac:(lia)); [exact Hs|apply mse_stat_reach; exact Hb].
  - intros c s ms Hs Hm. apply (fold_hom 0 1 ltac:(lia)); assumption.
  - intros c s Hs. cbn [cmp mse_metric plain]. unfold mse_gamma. destruct (a_alpha 0 (mse_w c) s) as [x|] eqn:E.
    + rewrite (alpha_some 0 1 _ _ _ Hs E). reflexivity.
    + rewrite (alpha_none 0 1 ltac:(lia) _ _ Hs E). reflexivity.
Defined.

(* ---- R2Score ---- *)
Lemma r2_stat_reach c b : rb_valid (r2_w c) b = true -> a_reach 3 (r2_w c) (r2_stat c b).
Proof.
  intros Hv. pose proof (rb_valid_1d _ _ Hv) as H1. unfold r2_stat.
  destruct (r2_w c) as [d|]; cbn [a_reach width_of]; rewrite H1; cbn [a_sc a_vs List.length].
  - right. repeat split; repeat constructor; apply present_reach_vec, colsums_len.
  - repeat split; repeat constructor; eexists; reflexivity.
Qed.
Definition r2_gamma (c : r2_cfg) (x : option nd) : r2_out :=
  match x with None => r2_cmp c r2_init | Some y => r2_cmp c (unpack y) end.
Definition r2_alg : Alg r2_metric.
Proof.
  refine (Build_Alg r2_metric (option nd) (fun c => a_e 3 (r2_w c)) aop (fun c => a_ok 3 (r2_w c)) aop_assoc _ _ _ _
            (fun c => a_alpha 1 (r2_w c)) (fun c b => a_alpha 1 (r2_w c) (r2_stat c b)) r2_gamma
            (fun c => a_reach 3 (r2_w c)) _ _ _ _ _ _ _).
  - intros c. apply a_ok_e.
  - intros c. apply a_ok_op.
  - intros c. apply a_e_l.
  - intros c. apply a_e_r.
  - intros c b Hb. apply (reach_ok 1 3 ltac:(lia)). apply r2_stat_reach. exact Hb.
  - intros c s Hs. apply (reach_ok 1 3 ltac:(lia)). exact Hs.
  - intros c. apply (fresh_reach 3).
  - intros c. apply (fresh_alpha 1 3).
  - intros c s b Hs Hb. apply (step_hom 1 3 ltac:(lia)); [exact Hs|apply r2_stat_reach; exact Hb].
  - intros c s ms Hs Hm. apply (fold_hom 1 3 ltac:(lia)); assumption.
  - intros c s Hs. cbn [cmp r2_metric plain]. unfold r2_gamma. destruct (a_alpha 1 (r2_w c) s) as [x|] eqn:E.
    + rewrite (alpha_some 1 3 _ _ _ Hs E). reflexivity.
    + rewrite (alpha_none 1 3 ltac:(lia) _ _ Hs E). reflexivity.
Defined.
