(* Covariance: the streaming (Chan) combine of two batch statistics is the two-pass statistic of the
   concatenated rows -- at the level of the model's vectors and matrices. *)
From Coq Require Import ZArith List Bool QArith Qcanon Lia String.
From TE Require Import Base.Val Base.Nd Base.Xq Algebra.Metric Models.Aggregation Models.Aggregation2
  Models.Regression Proofs.RegressionP.
Import ListNotations.
Open Scope list_scope.
Open Scope Qc_scope.

Definition vec_of (d : nat) (f : nat -> Qc) : vecq := map f (seq 0 d).
Definition mat_of (d : nat) (f : nat -> nat -> Qc) : matq := map (fun i => vec_of d (f i)) (seq 0 d).

Lemma map2_map_same {X Y Z W} (h : Y -> Z -> W) (f : X -> Y) (g : X -> Z) : forall l,
  map2 h (map f l) (map g l) = map (fun x => h (f x) (g x)) l.
Proof. induction l as [|x l IH]; cbn [map map2]; [reflexivity|]. rewrite IH. reflexivity. Qed.
Lemma vec_of_ext d f g : (forall i, (i < d)%nat -> f i = g i) -> vec_of d f = vec_of d g.
Proof. intros H. unfold vec_of. apply map_ext_in. intros i Hi. apply in_seq in Hi. apply H. lia. Qed.
Lemma mat_of_ext d f g : (forall i j, (i < d)%nat -> (j < d)%nat -> f i j = g i j) -> mat_of d f = mat_of d g.
Proof.
  intros H. unfold mat_of. apply map_ext_in. intros i Hi. apply in_seq in Hi. apply vec_of_ext. intros j Hj. apply H; lia.
Qed.
Lemma tab_nth : forall r : list Qc, r = vec_of (List.length r) (fun i => nth i r 0).
Proof.
  unfold vec_of. induction r as [|a r IH]; [reflexivity|]. cbn [List.length seq map nth]. f_equal.
  rewrite <- seq_shift, map_map. exact IH.
Qed.
Lemma vadd_of d f g : vadd (vec_of d f) (vec_of d g) = vec_of d (fun i => f i + g i).
Proof. apply map2_map_same. Qed.
Lemma vsub_of d f g : vsub (vec_of d f) (vec_of d g) = vec_of d (fun i => f i - g i).
Proof. apply map2_map_same. Qed.
Lemma vdivn_of d f n : vdivn (vec_of d f) n = vec_of d (fun i => f i / n).
Proof. unfold vdivn, vec_of. apply map_map. Qed.
Lemma outer_of d f g : outer (vec_of d f) (vec_of d g) = mat_of d (fun i j => f i * g j).
Proof. unfold outer, mat_of, vec_of. rewrite map_map. apply map_ext. intros i. rewrite map_map. reflexivity. Qed.
Lemma madd_of d f g : madd (mat_of d f) (mat_of d g) = mat_of d (fun i j => f i j + g i j).
Proof.
  unfold madd, mat_of. rewrite map2_map_same. apply map_ext. intros i. apply vadd_of.
Qed.
Lemma mmap_of d h f : mmap h (mat_of d f) = mat_of d (fun i j => h (f i j)).
Proof. unfold mmap, mat_of, vec_of. rewrite map_map. apply map_ext. intros i. apply map_map. Qed.
Lemma zeros_of d : repeat (repeat 0 d) d = mat_of d (fun _ _ => 0).
Proof.
  unfold mat_of, vec_of.
  assert (H : forall (X : Type) (a : X) k s, repeat a k = map (fun _ => a) (seq s k)).
  { intros X a k. induction k as [|k IH]; intros s; [reflexivity|]. cbn [repeat seq map]. rewrite (IH (S s)). reflexivity. }
  rewrite (H _ (repeat 0 d) d 0%nat). apply map_ext. intros _. apply H.
Qed.
Lemma colsums_of d rows : colsums d rows = vec_of d (fun j => sumQ (col j rows)).
Proof. reflexivity. Qed.

Lemma msum_of d (F : list Qc -> nat -> nat -> Qc) : forall rows g,
  fold_left madd (map (fun r => mat_of d (F r)) rows) (mat_of d g)
  = mat_of d (fun i j => g i j + sumQ (map (fun r => F r i j) rows)).
Proof.
  induction rows as [|r rows IH]; intros g; cbn [map fold_left].
  - apply mat_of_ext. intros. rewrite sumQ_nil. ring.
  - rewrite madd_of, IH. apply mat_of_ext. intros. rewrite sumQ_cons. ring.
Qed.
Lemma scatter_sum i j mx mz : forall rows,
  scatter mx mz (col i rows) (col j rows) = sumQ (map (fun r => (nth i r 0 - mx) * (nth j r 0 - mz)) rows).
Proof. induction rows as [|r rows IH]; [reflexivity|]. cbn [col map scatter]. fold (col i rows) (col j rows). rewrite IH, sumQ_cons. reflexivity. Qed.

(* the batch statistic in tabulated form *)
Lemma cov_stat_of d rows : rows_ok d rows = true ->
  let n := qofnat (List.length rows) in
  cov_stat d rows =
  {| cv_n := Z.of_nat (List.length rows);
     cv_ss := nmat (mat_of d (fun i j => 0 + scatter (sumQ (col i rows) / n) (sumQ (col j rows) / n) (col i rows) (col j rows)));
     cv_sum := nvec (vec_of d (fun j => sumQ (col j rows))) |}.
Proof.
  intros Hok n. unfold cov_stat. fold n. f_equal. f_equal. unfold msum. rewrite zeros_of, colsums_of, vdivn_of.
  set (mean := fun i => sumQ (col i rows) / n).
  assert (Hdem : map (fun r => outer r r) (map (fun r => vsub r (vec_of d mean)) rows)
                 = map (fun r => mat_of d (fun i j => (nth i r 0 - mean i) * (nth j r 0 - mean j))) rows).
  { rewrite map_map. apply map_ext_in. intros r Hr.
    assert (Hl : List.length r = d).
    { unfold rows_ok in Hok. rewrite forallb_forall in Hok. apply Nat.eqb_eq. apply Hok. exact Hr. }
    rewrite (tab_nth r) at 1 2. rewrite Hl, vsub_of, outer_of. reflexivity. }
  rewrite Hdem, (msum_of d (fun r i j => (nth i r 0 - mean i) * (nth j r 0 - mean j))).
  apply mat_of_ext. intros i j _ _. rewrite scatter_sum. reflexivity.
Qed.

Lemma nrows_nmat l : nrows (nmat l) = l.
Proof. unfold nrows, nmat. cbn [narr]. rewrite map_map. rewrite <- (map_id l) at 2. apply map_ext. apply nlist_nvec. Qed.
Lemma col_app j a b : col j (a ++ b) = col j a ++ col j b. Proof. apply map_app. Qed.
Lemma col_len j (rows : matq) : List.length (col j rows) = List.length rows. Proof. apply map_length. Qed.

(* Chan's combine of the statistics of two non-empty batches = the statistic of the concatenation *)
Theorem cov_step_concat d a b : rows_ok d a = true -> rows_ok d b = true -> a <> [] -> b <> [] ->
  cov_step (cov_stat d a) (cov_stat d b) = cov_stat d (a ++ b).
Proof.
  intros Ha Hb Hna Hnb.
  assert (Hab : rows_ok d (a ++ b) = true) by (unfold rows_ok in *; rewrite forallb_app, Ha, Hb; reflexivity).
  rewrite (cov_stat_of d a Ha), (cov_stat_of d b Hb), (cov_stat_of d (a ++ b) Hab).
  unfold cov_step. cbn [cv_n cv_ss cv_sum].
  assert (Ea : Z.eqb (Z.of_nat (List.length a)) 0 = false) by (destruct a; [congruence|reflexivity]).
  assert (Eb : Z.eqb (Z.of_nat (List.length b)) 0 = false) by (destruct b; [congruence|reflexivity]).
  rewrite Ea, Eb. rewrite !nlist_nvec, !nrows_nmat.
  change (qz (Z.of_nat (List.length a))) with (qofnat (List.length a)).
  change (qz (Z.of_nat (List.length b))) with (qofnat (List.length b)).
  rewrite !vdivn_of, vsub_of, outer_of, mmap_of, !madd_of, vadd_of.
  f_equal.
  - rewrite app_length. lia.
  - f_equal. apply mat_of_ext. intros i j _ _. rewrite !col_app.
    pose proof (chan_entry (col i a) (col j a) (col i b) (col j b)) as H.
    unfold ss_batch, lenQ in H. rewrite !app_length, !col_len in H. rewrite !app_length.
    rewrite <- H.
    + ring.
    + reflexivity.
    + reflexivity.
    + destruct a; [congruence|cbn; discriminate].
    + destruct b; [congruence|cbn; discriminate].
  - f_equal. apply vec_of_ext. intros i _. rewrite col_app, sumQ_app. reflexivity.
Qed.

(* compute(): mean = sum / n, covariance = scatter / (n - 1) -- the unbiased two-pass definition *)
Theorem cov_compute_two_pass d rows : rows_ok d rows = true -> (2 <= List.length rows)%nat ->
  let n := qofnat (List.length rows) in
  cov_cmp (cov_stat d rows) =
  CovVal (vec_of d (fun i => sumQ (col i rows) / n))
         (mat_of d (fun i j => (0 + scatter (sumQ (col i rows) / n) (sumQ (col j rows) / n) (col i rows) (col j rows)) / (n - 1))).
Proof.
  intros Hok Hn n. rewrite (cov_stat_of d rows Hok). unfold cov_cmp. cbn [cv_n cv_ss cv_sum].
  assert (E : Z.ltb (Z.of_nat (List.length rows)) 2 = false) by (apply Z.ltb_ge; lia). rewrite E.
  rewrite nlist_nvec, nrows_nmat, vdivn_of, mmap_of. reflexivity.
Qed.

Lemma rows_ok_app d a b : rows_ok d a = true -> rows_ok d b = true -> rows_ok d (a ++ b) = true.
Proof. unfold rows_ok. intros Ha Hb. rewrite forallb_app, Ha, Hb. reflexivity. Qed.
Lemma cov_updates d : forall bs a, rows_ok d a = true -> a <> [] ->
  Forall (fun b => rows_ok d b = true /\ b <> []) bs ->
  fold_left (fun s b => cov_step s (cov_stat d b)) bs (cov_stat d a) = cov_stat d (a ++ List.concat bs).
Proof.
  induction bs as [|b bs IH]; intros a Ha Hna Hbs; cbn [fold_left List.concat].
  - rewrite app_nil_r. reflexivity.
  - inversion Hbs as [|? ? [Hb Hnb] Hbs']; subst. rewrite (cov_step_concat d a b Ha Hb Hna Hnb), app_assoc.
    apply IH; [apply rows_ok_app; assumption| |exact Hbs']. destruct a; [congruence|discriminate].
Qed.
(* any non-empty stream of non-empty batches: the state is the two-pass statistic of all rows seen *)
Theorem cov_stream d b bs : Forall (fun b => rows_ok d b = true /\ b <> []) (b :: bs) ->
  fold_left (upd cov_metric d) (b :: bs) (init cov_metric d) = cov_stat d (List.concat (b :: bs)).
Proof.
  intros H. inversion H as [|? ? [Hb Hnb] Hbs]; subst. cbn [fold_left List.concat].
  change (upd cov_metric d) with (fun s b => cov_step s (cov_stat d b)).
  assert (E : cov_step (init cov_metric d) (cov_stat d b) = cov_stat d b).
  { unfold cov_step. cbn [init cov_metric plain cov_init cv_n]. 
    assert (Eb : Z.eqb (cv_n (cov_stat d b)) 0 = false) by (destruct b; [congruence|reflexivity]).
    rewrite Eb. reflexivity. }
  cbn beta. rewrite E. apply cov_updates; assumption.
Qed.
Lemma cov_guard s : (cv_n s < 2)%Z -> cov_cmp s = CovErr "ValueError".
Proof. intros H. unfold cov_cmp. apply Z.ltb_lt in H. rewrite H. reflexivity. Qed.

(* C01 for Covariance: merging a shard into another = the single instance that saw both streams;
   empty (fresh) shards are ignored by _update *)
Lemma cov_step_fresh_r s : cov_step s cov_init = s. Proof. reflexivity. Qed.
Theorem cov_merge_shards d a al b bl :
  Forall (fun b => rows_ok d b = true /\ b <> []) (a :: al) -> Forall (fun b => rows_ok d b = true /\ b <> []) (b :: bl) ->
  mrg cov_metric d (fold_left (upd cov_metric d) (a :: al) (init cov_metric d))
      [init cov_metric d; fold_left (upd cov_metric d) (b :: bl) (init cov_metric d); init cov_metric d]
  = fold_left (upd cov_metric d) ((a :: al) ++ (b :: bl)) (init cov_metric d).
Proof.
  intros Ha Hb. change ((a :: al) ++ b :: bl) with (a :: (al ++ b :: bl)).
  rewrite (cov_stream d a al Ha), (cov_stream d b bl Hb), (cov_stream d a (al ++ b :: bl)).
  2:{ inversion Ha; subst. constructor; [assumption|]. apply Forall_app. split; assumption. }
  change (mrg cov_metric d ?s ?ms) with (fold_left cov_step ms s). cbn [fold_left].
  change (init cov_metric d) with cov_init. rewrite !cov_step_fresh_r.
  assert (Hc : forall l, Forall (fun b => rows_ok d b = true /\ b <> []) l -> rows_ok d (List.concat l) = true).
  { induction 1 as [|x l [Hx _] _ IH]; [reflexivity|]. cbn [List.concat]. apply rows_ok_app; assumption. }
  rewrite cov_step_concat.
  - change (a :: al ++ b :: bl) with ((a :: al) ++ (b :: bl)). rewrite concat_app. reflexivity.
  - apply Hc. exact Ha.
  - apply Hc. exact Hb.
  - inversion Ha as [|? ? [_ Hn] _]; subst. cbn [List.concat]. destruct a; [congruence|discriminate].
  - inversion Hb as [|? ? [_ Hn] _]; subst. cbn [List.concat]. destruct b; [congruence|discriminate].
Qed.
