From Coq Require Import ZArith Bool List String Lia.
From TE Require Import Models.FloatAcc Models.AccPath Proofs.FloatAccP.
Import ListNotations.
Open Scope Z_scope.

(* ---------- single roundings ---------- *)

Lemma rnes_exact p z : 0 < p -> Z.abs z <= 2 ^ p -> rnes p z = z.
Proof.
  intros Hp Hz. unfold rnes. destruct (z <? 0) eqn:E.
  - apply Z.ltb_lt in E. rewrite rne_exact by lia. lia.
  - apply Z.ltb_ge in E. apply rne_exact; lia.
Qed.

Lemma pow2_double b : 1 <= b -> 2 ^ b = 2 * 2 ^ (b - 1).
Proof. intros H. rewrite <- Z.pow_succ_r by lia. f_equal. lia. Qed.

Lemma wrap_exact b a : 1 <= b -> - 2 ^ (b - 1) <= a < 2 ^ (b - 1) -> wrap b a = a.
Proof.
  intros Hb Ha. unfold wrap. pose proof (pow2_double b Hb) as E.
  rewrite Z.mod_small by lia. lia.
Qed.

Lemma pow_lt_53_63 : 2 ^ 53 < 2 ^ 63.
Proof. reflexivity. Qed.

Lemma round_kind_wide_exact k v : wide k = true -> Z.abs v < 2 ^ 53 -> round_kind k v = v.
Proof.
  intros Hk Hv. pose proof pow_lt_53_63 as H63.
  destruct k; try discriminate Hk; unfold round_kind.
  - apply rnes_exact; lia.
  - apply wrap_exact; [lia|]. change (64 - 1) with 63. lia.
  - reflexivity.
  - apply rnes_exact; lia.
Qed.

Lemma edge_pos k : 0 < edge k.
Proof. destruct k; reflexivity. Qed.

(* below its edge a kind holds every non-negative integer *)
Lemma round_kind_exact_nonneg k v : 0 <= v < edge k -> round_kind k v = v.
Proof.
  intros Hv. destruct k; unfold round_kind, edge in *;
    try (apply rnes_exact; lia); try (apply wrap_exact; [lia|]); try reflexivity.
  - change (2 ^ (8 - 1)) with (2 ^ 7). assert (0 < 2 ^ 7) by reflexivity. lia.
  - apply Z.mod_small. lia.
  - change (2 ^ (16 - 1)) with (2 ^ 15). assert (0 < 2 ^ 15) by reflexivity. lia.
  - change (2 ^ (32 - 1)) with (2 ^ 31). assert (0 < 2 ^ 31) by reflexivity. lia.
  - change (2 ^ (64 - 1)) with (2 ^ 63). assert (0 < 2 ^ 63) by reflexivity. lia.
Qed.

(* ---------- paths ---------- *)

Lemma round_path_nil v : round_path [] v = v.
Proof. reflexivity. Qed.
Lemma round_path_cons k path v : round_path (k :: path) v = round_path path (round_kind k v).
Proof. reflexivity. Qed.
Lemma round_path_app p q v : round_path (p ++ q) v = round_path q (round_path p v).
Proof. unfold round_path. apply fold_left_app. Qed.

Lemma round_path_wide path : forallb wide path = true -> forall v, Z.abs v < 2 ^ 53 -> round_path path v = v.
Proof.
  induction path as [|k path IH]; intros Hp v Hv.
  - apply round_path_nil.
  - change (forallb wide (k :: path)) with (wide k && forallb wide path) in Hp.
    apply andb_true_iff in Hp. destruct Hp as [Hk Hp].
    rewrite round_path_cons, round_kind_wide_exact by assumption. apply IH; assumption.
Qed.

Lemma path_edge_cons k path : path_edge (k :: path) = Z.min (edge k) (path_edge path).
Proof. reflexivity. Qed.

(* a path holds every non-negative addend below the edge of its narrowest element *)
Lemma path_exact_below_edge path : forall v, 0 <= v < path_edge path -> round_path path v = v.
Proof.
  induction path as [|k path IH]; intros v Hv.
  - apply round_path_nil.
  - rewrite path_edge_cons in Hv.
    rewrite round_path_cons, round_kind_exact_nonneg by lia. apply IH. lia.
Qed.

(* ---------- one update ---------- *)

Lemma acc_add_s_wide k a d :
  wide k = true -> Z.abs a < 2 ^ 53 -> Z.abs d < 2 ^ 53 -> Z.abs (a + d) < 2 ^ 53 -> acc_add_s k a d = a + d.
Proof.
  intros Hk Ha Hd Hs. unfold acc_add_s.
  rewrite (round_kind_wide_exact k d) by assumption. apply round_kind_wide_exact; assumption.
Qed.

Lemma via_exact_wide path acc state v :
  forallb wide path = true -> wide acc = true ->
  Z.abs state < 2 ^ 53 -> Z.abs v < 2 ^ 53 -> Z.abs (state + v) < 2 ^ 53 ->
  acc_add_via path acc state v = state + v.
Proof.
  intros Hp Hk Ha Hv Hs. unfold acc_add_via.
  rewrite round_path_wide by assumption. apply acc_add_s_wide; assumption.
Qed.

Lemma fused_exact_wide path acc state v :
  forallb wide path = true -> wide acc = true ->
  Z.abs state < 2 ^ 53 -> Z.abs v < 2 ^ 53 -> Z.abs (state + v) < 2 ^ 53 ->
  acc_add_fused path acc state v = state + v.
Proof.
  intros Hp Hk Ha Hv Hs. unfold acc_add_fused.
  rewrite round_path_wide by assumption. apply round_kind_wide_exact; assumption.
Qed.

(* converting the addend first is the fused add behind a path that ends in the accumulator's own kind *)
Lemma via_is_fused path acc state v : acc_add_via path acc state v = acc_add_fused (path ++ [acc]) acc state v.
Proof. unfold acc_add_via, acc_add_fused, acc_add_s. rewrite round_path_app. reflexivity. Qed.

(* ---------- agreement with the accumulator add of FloatAcc ---------- *)

Lemma rne_nonneg p z : 0 <= z -> 0 <= rne p z.
Proof.
  intros Hz. unfold rne.
  set (e := Z.max 0 (Z.log2 z + 1 - p)).
  assert (Hpow : 0 < 2 ^ e) by (apply Z.pow_pos_nonneg; lia).
  assert (Hq : 0 <= z / 2 ^ e) by (apply Z.div_pos; lia).
  destruct (e =? 0); [assumption|].
  destruct ((2 ^ (e - 1) <? z mod 2 ^ e) || ((z mod 2 ^ e =? 2 ^ (e - 1)) && Z.odd (z / 2 ^ e))); nia.
Qed.

Lemma rnes_nonneg_eq p z : 0 <= z -> rnes p z = rne p z.
Proof. intros Hz. unfold rnes. destruct (z <? 0) eqn:E; [apply Z.ltb_lt in E; lia|reflexivity]. Qed.

Lemma wrap_add_idemp b a d : wrap b (a + wrap b d) = wrap b (a + d).
Proof.
  unfold wrap. f_equal.
  replace (a + ((d + 2 ^ (b - 1)) mod 2 ^ b - 2 ^ (b - 1)) + 2 ^ (b - 1)) with (a + (d + 2 ^ (b - 1)) mod 2 ^ b) by lia.
  rewrite Zplus_mod_idemp_r. f_equal. lia.
Qed.

Lemma acc_add_s_nonneg k a d : 0 <= a -> 0 <= d -> acc_add_s k a d = acc_add k a d.
Proof.
  intros Ha Hd. unfold acc_add_s.
  destruct k; unfold round_kind, acc_add;
    try (rewrite (rnes_nonneg_eq _ d) by assumption; apply rnes_nonneg_eq;
         pose proof (rne_nonneg 11 d Hd); pose proof (rne_nonneg 8 d Hd);
         pose proof (rne_nonneg 24 d Hd); pose proof (rne_nonneg 53 d Hd); lia);
    try apply wrap_add_idemp; try reflexivity.
  apply Zplus_mod_idemp_r.
Qed.

Lemma via_nil_is_acc_add k a d : 0 <= a -> 0 <= d -> acc_add_via [] k a d = acc_add k a d.
Proof. intros. unfold acc_add_via. rewrite round_path_nil. apply acc_add_s_nonneg; assumption. Qed.

(* ---------- histories ---------- *)

(* every addend and every running total stays inside (-2^53, 2^53) *)
Fixpoint within (a : Z) (vs : list Z) : Prop :=
  match vs with
  | [] => True
  | v :: vs' => Z.abs v < 2 ^ 53 /\ Z.abs (a + v) < 2 ^ 53 /\ within (a + v) vs'
  end.

Lemma acc_run_via_cons path acc a v vs :
  acc_run_via path acc a (v :: vs) = acc_run_via path acc (acc_add_via path acc a v) vs.
Proof. reflexivity. Qed.
Lemma acc_run_fused_cons path acc a v vs :
  acc_run_fused path acc a (v :: vs) = acc_run_fused path acc (acc_add_fused path acc a v) vs.
Proof. reflexivity. Qed.

Lemma history_exact_wide_path path acc :
  forallb wide path = true -> wide acc = true ->
  forall vs a, Z.abs a < 2 ^ 53 -> within a vs -> acc_run_via path acc a vs = a + sumZ vs.
Proof.
  intros Hp Hk. induction vs as [|v vs IH]; intros a Ha Hw.
  - cbv [acc_run_via fold_left sumZ fold_right]. lia.
  - destruct Hw as [Hv [Hs Hw]].
    rewrite acc_run_via_cons, via_exact_wide, IH, sumZ_cons by assumption. lia.
Qed.

Lemma history_exact_wide_fused path acc :
  forallb wide path = true -> wide acc = true ->
  forall vs a, Z.abs a < 2 ^ 53 -> within a vs -> acc_run_fused path acc a vs = a + sumZ vs.
Proof.
  intros Hp Hk. induction vs as [|v vs IH]; intros a Ha Hw.
  - cbv [acc_run_fused fold_left sumZ fold_right]. lia.
  - destruct Hw as [Hv [Hs Hw]].
    rewrite acc_run_fused_cons, fused_exact_wide, IH, sumZ_cons by assumption. lia.
Qed.

(* the shape of FloatAccP.history_exact_wide: non-negative addends, final total below 2^53 *)
Lemma within_nonneg : forall vs a, 0 <= a -> Forall (fun d => 0 <= d) vs -> a + sumZ vs < 2 ^ 53 -> within a vs.
Proof.
  induction vs as [|v vs IH]; intros a Ha Hvs Hs; [exact I|].
  inversion Hvs as [|? ? Hv Hvs']; subst.
  pose proof (sumZ_nonneg vs Hvs') as Hrest. rewrite sumZ_cons in Hs.
  cbn [within]. repeat split; try lia. apply IH; try assumption; lia.
Qed.

Lemma history_exact_wide_path_nonneg path acc :
  forallb wide path = true -> wide acc = true ->
  forall vs a, 0 <= a -> Forall (fun d => 0 <= d) vs -> a + sumZ vs < 2 ^ 53 ->
  acc_run_via path acc a vs = a + sumZ vs.
Proof.
  intros Hp Hk vs a Ha Hvs Hs. pose proof (sumZ_nonneg vs Hvs).
  apply history_exact_wide_path; try assumption; [lia|apply within_nonneg; assumption].
Qed.

(* ---------- narrow paths lose addends ---------- *)

Lemma narrow_witness k : wide k = false ->
  0 < edge k + 1 < 2 ^ 53 /\ Z.abs (round_kind k (edge k + 1)) < 2 ^ 53 /\ round_kind k (edge k + 1) <> edge k + 1.
Proof.
  intros Hk. destruct k; try discriminate Hk; vm_compute; (repeat split; try reflexivity; discriminate).
Qed.

Lemma narrow_edge_small k : wide k = false -> edge k + 1 <= 2 * edge k /\ 2 * edge k < 2 ^ 53.
Proof. intros Hk. destruct k; try discriminate Hk; vm_compute; split; (reflexivity || discriminate). Qed.

(* a narrow kind anywhere on an otherwise wide path, in front of a wide accumulator, loses the addend edge+1 *)
Lemma narrow_element_loses pre k post acc :
  forallb wide pre = true -> wide k = false -> forallb wide post = true -> wide acc = true ->
  acc_add_via (pre ++ k :: post) acc 0 (edge k + 1) <> 0 + (edge k + 1).
Proof.
  intros Hpre Hk Hpost Hacc. destruct (narrow_witness k Hk) as [Hv [Hw Hne]].
  unfold acc_add_via.
  rewrite round_path_app, round_path_cons.
  rewrite (round_path_wide pre Hpre) by lia.
  rewrite (round_path_wide post Hpost) by assumption.
  rewrite acc_add_s_wide by (try assumption; cbn; lia).
  lia.
Qed.

Lemma narrow_path_loses k acc : wide k = false -> wide acc = true ->
  exists v, 0 < v < 2 ^ 53 /\ acc_add_via [k] acc 0 v <> 0 + v.
Proof.
  intros Hk Hacc. exists (edge k + 1). split; [apply narrow_witness; assumption|].
  apply (narrow_element_loses [] k [] acc); (reflexivity || assumption).
Qed.

(* ... and is exact below that element's edge: the path is exactly as good as its one narrow element *)
Lemma wide_edge k : wide k = true -> 2 ^ 53 <= edge k.
Proof. intros Hk. destruct k; try discriminate Hk; vm_compute; discriminate. Qed.

Lemma path_edge_wide path : forallb wide path = true -> 2 ^ 53 <= path_edge path.
Proof.
  induction path as [|k path IH]; intros Hp; [vm_compute; discriminate|].
  change (forallb wide (k :: path)) with (wide k && forallb wide path) in Hp.
  apply andb_true_iff in Hp. destruct Hp as [Hk Hp].
  rewrite path_edge_cons. pose proof (wide_edge k Hk). specialize (IH Hp). lia.
Qed.

Lemma path_edge_app p q : path_edge (p ++ q) = Z.min (path_edge p) (path_edge q).
Proof.
  induction p as [|k p IH]; [|rewrite <- app_comm_cons, !path_edge_cons, IH; lia].
  cbn [app]. change (path_edge []) with (2 ^ 63).
  assert (path_edge q <= 2 ^ 63); [|lia].
  induction q as [|k q IHq]; [reflexivity|rewrite path_edge_cons; lia].
Qed.

Lemma narrow_element_caps pre k post acc :
  forallb wide pre = true -> wide k = false -> forallb wide post = true -> wide acc = true ->
  path_edge (pre ++ k :: post) = edge k
  /\ (forall v, 0 <= v < edge k -> acc_add_via (pre ++ k :: post) acc 0 v = 0 + v)
  /\ (exists v, edge k <= v <= 2 * edge k /\ acc_add_via (pre ++ k :: post) acc 0 v <> 0 + v).
Proof.
  intros Hpre Hk Hpost Hacc.
  destruct (narrow_edge_small k Hk) as [He1 He2].
  pose proof (path_edge_wide pre Hpre) as Epre. pose proof (path_edge_wide post Hpost) as Epost.
  assert (E : path_edge (pre ++ k :: post) = edge k) by (rewrite path_edge_app, path_edge_cons; lia).
  pose proof (edge_pos k) as Hpos.
  split; [exact E|split].
  - intros v Hv. unfold acc_add_via. rewrite path_exact_below_edge by lia.
    apply acc_add_s_wide; try assumption; cbn; lia.
  - exists (edge k + 1). split; [lia|]. apply narrow_element_loses; assumption.
Qed.

(* ---------- tables ---------- *)

Lemma rows_exact_unless_known (tbl : list path_row) (known : path_row -> bool) :
  forallb (fun r => wide (path_kind r) || known r) tbl = true ->
  forallb (fun r => implb (wide (path_kind r)) (wide (storage_kind r))) tbl = true ->
  forall r, In r tbl -> known r = false ->
  forall vs a, Z.abs a < 2 ^ 53 -> within a vs ->
    acc_run_via [path_kind r] (storage_kind r) a vs = a + sumZ vs.
Proof.
  intros H1 H2 r Hin Hk vs a Ha Hw.
  rewrite forallb_forall in H1, H2. specialize (H1 r Hin). specialize (H2 r Hin). cbv beta in H1, H2.
  rewrite Hk, orb_false_r in H1. rewrite H1 in H2. cbn [implb] in H2.
  apply history_exact_wide_path; try assumption. cbn [forallb]. rewrite H1. reflexivity.
Qed.
