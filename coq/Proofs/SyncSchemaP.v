(* Lemmas about Models/SyncSchema.v (statements re-exported by Props/C02_schema.v). *)
From Coq Require Import ZArith List Bool String Arith Lia.
From TE Require Import Base.Val Models.SyncSchema.
Import ListNotations.
Open Scope string_scope.

(* ------------------------------------------------------------------ deterministic classes *)
Lemma det_run (c : sclass) : input_deterministic c -> forall h, s_run c h = s_init c.
Proof.
  intros H h. unfold s_run. generalize (s_init c). induction h as [|x h IH]; intros s; [reflexivity|].
  cbn [fold_left]. rewrite H. apply IH.
Qed.

Lemma reach_schema_agree :
  forall k c, In k deterministic_keys -> class_of k class_table = Some c ->
    input_deterministic c /\ forall h1 h2 : list upd_in, s_run c h1 = s_run c h2.
Proof.
  intros k c Hk Hc.
  assert (Hd : input_deterministic c).
  { cbn in Hk. repeat (destruct Hk as [<-|Hk]; [cbn in Hc; inversion Hc; intros s x; reflexivity|]). destruct Hk. }
  split; [exact Hd|]. intros h1 h2. rewrite !det_run by exact Hd. reflexivity.
Qed.

(* ------------------------------------------------------------------ promotion *)
Lemma promote_1_l d : promote 1 d = 1%Z.
Proof. reflexivity. Qed.
Lemma promote_0_l d : promote 0 d = if Z.eqb d 1 then 1%Z else 0%Z.
Proof. unfold promote. cbn [Z.eqb orb]. destruct (Z.eqb d 1); reflexivity. Qed.

Lemma fold_promote_1 l : fold_left promote l 1%Z = 1%Z.
Proof. induction l as [|d l IH]; [reflexivity|]. cbn [fold_left]. rewrite promote_1_l. exact IH. Qed.
Lemma fold_promote_0 l : fold_left promote l 0%Z = if has_f64 l then 1%Z else 0%Z.
Proof.
  induction l as [|d l IH]; [reflexivity|]. cbn [fold_left has_f64 existsb]. rewrite promote_0_l.
  destruct (Z.eqb d 1); cbn [orb]; [apply fold_promote_1|exact IH].
Qed.

(* ------------------------------------------------------------------ Max / Min *)
Lemma ext_step n a x : s_upd (ext_class n) [(n, KT 0 a)] x = [(n, KT 0 (promote a (snd x)))].
Proof.
  cbn [s_upd ext_class]. unfold dt_of, set_dt. cbn [find map fst snd]. rewrite String.eqb_refl. reflexivity.
Qed.
Lemma ext_fold n h : forall a,
  fold_left (s_upd (ext_class n)) h [(n, KT 0 a)] = [(n, KT 0 (fold_left promote (map snd h) a))].
Proof.
  induction h as [|x h IH]; intros a; [reflexivity|].
  cbn [fold_left map]. rewrite ext_step. apply IH.
Qed.
(* the schema of Max / Min after any history: float64 iff some update carried float64 data *)
Lemma ext_run n h :
  s_run (ext_class n) h = [(n, KT 0 (if has_f64 (map snd h) then 1%Z else 0%Z))].
Proof. unfold s_run. cbn [s_init ext_class]. rewrite ext_fold, fold_promote_0. reflexivity. Qed.

Lemma ext_agree_iff n h1 h2 :
  s_run (ext_class n) h1 = s_run (ext_class n) h2 <-> has_f64 (map snd h1) = has_f64 (map snd h2).
Proof.
  rewrite !ext_run. split.
  - intros E. destruct (has_f64 (map snd h1)), (has_f64 (map snd h2)); try reflexivity; discriminate E.
  - intros ->. reflexivity.
Qed.

Lemma has_f64_uniform d (h : list upd_in) :
  h <> [] -> Forall (fun x => snd x = d) h -> has_f64 (map snd h) = Z.eqb d 1.
Proof.
  intros Hne Hall. revert Hne. induction Hall as [|x h Hx Hall IH]; intros Hne; [exfalso; apply Hne; reflexivity|].
  cbn [map has_f64 existsb]. rewrite Hx. destruct (Z.eqb d 1) eqn:E; [reflexivity|]. cbn [orb].
  destruct h as [|y h]; [reflexivity|]. fold (has_f64 (map snd (y :: h))). apply IH. discriminate.
Qed.

(* ------------------------------------------------------------------ MeanSquaredError *)
Definition SSE := "sum_squared_error".
Lemma mse_fixed h : forall s, nd_of SSE s = 1 -> fold_left (s_upd mse_class) h s = s.
Proof.
  induction h as [|x h IH]; intros s Hs; [reflexivity|]. cbn [fold_left].
  assert (E : s_upd mse_class s x = s).
  { cbn [s_upd mse_class]. fold SSE. rewrite Hs. cbn [Nat.eqb]. rewrite andb_false_r. reflexivity. }
  rewrite E. apply IH. exact Hs.
Qed.
Lemma mse_rejected h : forall s, Forall (fun x : upd_in => snd x = 4%Z) h -> fold_left (s_upd mse_class) h s = s.
Proof.
  induction h as [|x h IH]; intros s Hall; [reflexivity|]. inversion Hall as [|? ? Hx Hr]; subst. cbn [fold_left].
  assert (E : s_upd mse_class s x = s).
  { cbn [s_upd mse_class]. rewrite Hx. cbn [Z.eqb negb]. rewrite andb_false_r. reflexivity. }
  rewrite E. apply IH. exact Hr.
Qed.
Lemma mse_first x h :
  List.length (fst x) = 2 -> snd x <> 4%Z ->
  s_run mse_class (x :: h) = [(SSE, KT 1 (sum_dt (snd x))); ("sum_weight", KT 0 0)].
Proof.
  intros Hl Hd. unfold s_run. cbn [fold_left s_init mse_class].
  assert (E : s_upd mse_class [(SSE, KT 0 0); ("sum_weight", KT 0 0)] x
              = [(SSE, KT 1 (sum_dt (snd x))); ("sum_weight", KT 0 0)]).
  { cbn [s_upd mse_class]. rewrite Hl. destruct (Z.eqb_spec (snd x) 4) as [|_]; [contradiction|]. reflexivity. }
  unfold SSE in E. rewrite E. apply mse_fixed. reflexivity.
Qed.

(* ------------------------------------------------------------------ R2Score *)
Definition SSO := "sum_squared_obs".
Lemma r2_fixed h : forall s, nd_of SSO s = 1 -> fold_left (s_upd r2_class) h s = s.
Proof.
  induction h as [|x h IH]; intros s Hs; [reflexivity|]. cbn [fold_left].
  assert (E : s_upd r2_class s x = s).
  { cbn [s_upd r2_class]. fold SSO. rewrite Hs. cbn [Nat.eqb]. rewrite andb_false_r. reflexivity. }
  rewrite E. apply IH. exact Hs.
Qed.
Lemma r2_rejected h : forall s, Forall (fun x : upd_in => snd x = 4%Z) h -> fold_left (s_upd r2_class) h s = s.
Proof.
  induction h as [|x h IH]; intros s Hall; [reflexivity|]. inversion Hall as [|? ? Hx Hr]; subst. cbn [fold_left].
  assert (E : s_upd r2_class s x = s).
  { cbn [s_upd r2_class]. rewrite Hx. cbn [Z.eqb negb]. rewrite andb_false_r. reflexivity. }
  rewrite E. apply IH. exact Hr.
Qed.
Lemma r2_first x h :
  List.length (fst x) = 2 -> snd x <> 4%Z ->
  s_run r2_class (x :: h) = [("num_obs", KT 0 0); ("sum_obs", KT 1 (sum_dt (snd x))); (SSO, KT 1 (sum_dt (snd x)));
                             ("sum_squared_residual", KT 1 (sum_dt (snd x)))].
Proof.
  intros Hl Hd. unfold s_run. cbn [fold_left s_init r2_class].
  assert (E : s_upd r2_class [("num_obs", KT 0 0); ("sum_obs", KT 0 0); (SSO, KT 0 0); ("sum_squared_residual", KT 0 0)] x
              = [("num_obs", KT 0 0); ("sum_obs", KT 1 (sum_dt (snd x))); (SSO, KT 1 (sum_dt (snd x)));
                 ("sum_squared_residual", KT 1 (sum_dt (snd x)))]).
  { cbn [s_upd r2_class]. rewrite Hl. destruct (Z.eqb_spec (snd x) 4) as [|_]; [contradiction|]. reflexivity. }
  unfold SSO in E. rewrite E. apply r2_fixed. reflexivity.
Qed.

(* ------------------------------------------------------------------ Covariance *)
Lemma cov_fixed h : forall s, nd_of "sum" s = 1 -> fold_left (s_upd cov_class) h s = s.
Proof.
  induction h as [|x h IH]; intros s Hs; [reflexivity|]. cbn [fold_left].
  assert (E : s_upd cov_class s x = s).
  { cbn [s_upd cov_class]. destruct (fst x) as [|k r]; [reflexivity|]. rewrite Hs. cbn [Nat.eqb].
    rewrite andb_false_r. reflexivity. }
  rewrite E. apply IH. exact Hs.
Qed.
Lemma cov_rejected d h : is_float d = false ->
  forall s, Forall (fun x : upd_in => snd x = d) h -> fold_left (s_upd cov_class) h s = s.
Proof.
  intros Hd. induction h as [|x h IH]; intros s Hall; [reflexivity|]. inversion Hall as [|? ? Hx Hr]; subst. cbn [fold_left].
  assert (E : s_upd cov_class s x = s).
  { cbn [s_upd cov_class]. destruct (fst x) as [|k r]; [reflexivity|]. rewrite Hd, andb_false_r. reflexivity. }
  rewrite E. apply IH. exact Hr.
Qed.
Lemma cov_first x h :
  List.length (fst x) = 2 -> hd 0 (fst x) <> 0 -> is_float (snd x) = true ->
  s_run cov_class (x :: h) = [("n", KInt); ("ss_sum", KT 2 (snd x)); ("sum", KT 1 (snd x))].
Proof.
  intros Hl Hk Hd. unfold s_run. cbn [fold_left s_init cov_class].
  assert (E : s_upd cov_class [("n", KInt); ("ss_sum", KT 0 0); ("sum", KT 0 0)] x
              = [("n", KInt); ("ss_sum", KT 2 (snd x)); ("sum", KT 1 (snd x))]).
  { cbn [s_upd cov_class]. destruct (fst x) as [|k r]; [discriminate Hl|]. cbn [hd] in Hk.
    destruct (Nat.eqb_spec k 0) as [|_]; [contradiction|]. rewrite Hd. reflexivity. }
  rewrite E. apply cov_fixed. reflexivity.
Qed.

(* ------------------------------------------------------------------ the positive theorem *)
Lemma uniform_snd k d h : uniform_hist k d h -> h <> [] /\ Forall (fun x : upd_in => snd x = d) h.
Proof.
  intros [Hne Hall]. split; [exact Hne|]. eapply Forall_impl; [|exact Hall]. intros x [Hx _]. exact Hx.
Qed.

Lemma uniform_mse_run k d h :
  (forall x, shape_proviso k x = Nat.eqb (List.length x) 2) -> uniform_hist k d h ->
  s_run mse_class h = if Z.eqb d 4 then s_init mse_class
                      else [(SSE, KT 1 (sum_dt d)); ("sum_weight", KT 0 0)].
Proof.
  intros Hp [Hne Hall]. destruct (Z.eqb_spec d 4) as [->|Hd].
  - unfold s_run. apply mse_rejected. eapply Forall_impl; [|exact Hall]. intros x [Hx _]. exact Hx.
  - destruct h as [|x h]; [exfalso; apply Hne; reflexivity|]. inversion Hall as [|? ? [Hx Hs] _]; subst.
    rewrite Hp in Hs. apply Nat.eqb_eq in Hs. apply mse_first; assumption.
Qed.
Lemma uniform_r2_run k d h :
  (forall x, shape_proviso k x = Nat.eqb (List.length x) 2) -> uniform_hist k d h ->
  s_run r2_class h = if Z.eqb d 4 then s_init r2_class
                     else [("num_obs", KT 0 0); ("sum_obs", KT 1 (sum_dt d)); (SSO, KT 1 (sum_dt d));
                           ("sum_squared_residual", KT 1 (sum_dt d))].
Proof.
  intros Hp [Hne Hall]. destruct (Z.eqb_spec d 4) as [->|Hd].
  - unfold s_run. apply r2_rejected. eapply Forall_impl; [|exact Hall]. intros x [Hx _]. exact Hx.
  - destruct h as [|x h]; [exfalso; apply Hne; reflexivity|]. inversion Hall as [|? ? [Hx Hs] _]; subst.
    rewrite Hp in Hs. apply Nat.eqb_eq in Hs. apply r2_first; assumption.
Qed.
Lemma uniform_cov_run d h :
  uniform_hist "Covariance" d h ->
  s_run cov_class h = if is_float d then [("n", KInt); ("ss_sum", KT 2 d); ("sum", KT 1 d)] else s_init cov_class.
Proof.
  intros [Hne Hall]. destruct (is_float d) eqn:Hd.
  - destruct h as [|x h]; [exfalso; apply Hne; reflexivity|]. inversion Hall as [|? ? [Hx Hs] _]; subst.
    change (shape_proviso "Covariance" (fst x)) with (Nat.eqb (List.length (fst x)) 2 && negb (Nat.eqb (hd 0 (fst x)) 0)) in Hs.
    apply andb_true_iff in Hs. destruct Hs as [Hl Hk]. apply Nat.eqb_eq in Hl. apply negb_true_iff, Nat.eqb_neq in Hk.
    apply cov_first; assumption.
  - unfold s_run. apply (cov_rejected d); [exact Hd|]. eapply Forall_impl; [|exact Hall]. intros x [Hx _]. exact Hx.
Qed.
Lemma uniform_ext_run n k d h :
  uniform_hist k d h -> s_run (ext_class n) h = [(n, KT 0 (if Z.eqb d 1 then 1%Z else 0%Z))].
Proof.
  intros Hu. destruct (uniform_snd _ _ _ Hu) as [Hne Hall]. rewrite ext_run, (has_f64_uniform d); auto.
Qed.

Lemma reach_schema_agree_same_dtype :
  forall k c d h1 h2, In k dtype_following_keys -> class_of k class_table = Some c ->
    uniform_hist k d h1 -> uniform_hist k d h2 -> s_run c h1 = s_run c h2.
Proof.
  intros k c d h1 h2 Hk Hc H1 H2. cbn in Hk.
  destruct Hk as [<-|[<-|[<-|[<-|[<-|[<-|[]]]]]]]; cbn in Hc; inversion Hc; subst c; clear Hc.
  - rewrite (uniform_ext_run _ _ _ _ H1), (uniform_ext_run _ _ _ _ H2). reflexivity.
  - rewrite (uniform_ext_run _ _ _ _ H1), (uniform_ext_run _ _ _ _ H2). reflexivity.
  - rewrite (uniform_mse_run "MeanSquaredError" _ _ (fun x => eq_refl) H1), (uniform_mse_run "MeanSquaredError" _ _ (fun x => eq_refl) H2). reflexivity.
  - rewrite (uniform_mse_run "MeanSquaredErrorRaw" _ _ (fun x => eq_refl) H1), (uniform_mse_run "MeanSquaredErrorRaw" _ _ (fun x => eq_refl) H2). reflexivity.
  - rewrite (uniform_r2_run "R2ScoreRaw" _ _ (fun x => eq_refl) H1), (uniform_r2_run "R2ScoreRaw" _ _ (fun x => eq_refl) H2). reflexivity.
  - rewrite (uniform_cov_run _ _ H1), (uniform_cov_run _ _ H2). reflexivity.
Qed.

(* the first (2-D, accepted) update alone decides: later updates accumulate in place *)
Lemma mse_first_update_decides :
  forall x1 x2 h1 h2, List.length (fst x1) = 2 -> List.length (fst x2) = 2 -> snd x1 <> 4%Z -> snd x2 <> 4%Z ->
    sum_dt (snd x1) = sum_dt (snd x2) -> s_run mse_class (x1 :: h1) = s_run mse_class (x2 :: h2).
Proof. intros x1 x2 h1 h2 L1 L2 D1 D2 E. rewrite !mse_first by assumption. rewrite E. reflexivity. Qed.
Lemma r2_first_update_decides :
  forall x1 x2 h1 h2, List.length (fst x1) = 2 -> List.length (fst x2) = 2 -> snd x1 <> 4%Z -> snd x2 <> 4%Z ->
    sum_dt (snd x1) = sum_dt (snd x2) -> s_run r2_class (x1 :: h1) = s_run r2_class (x2 :: h2).
Proof. intros x1 x2 h1 h2 L1 L2 D1 D2 E. rewrite !r2_first by assumption. rewrite E. reflexivity. Qed.
Lemma cov_first_update_decides :
  forall x1 x2 h1 h2, List.length (fst x1) = 2 -> List.length (fst x2) = 2 -> hd 0 (fst x1) <> 0 -> hd 0 (fst x2) <> 0 ->
    is_float (snd x1) = true -> snd x1 = snd x2 -> s_run cov_class (x1 :: h1) = s_run cov_class (x2 :: h2).
Proof.
  intros x1 x2 h1 h2 L1 L2 K1 K2 F E. rewrite !cov_first; try assumption; [rewrite E; reflexivity|rewrite <- E; exact F].
Qed.

Lemma agree_after_first_update_nd :
  forall x1 x2 h1 h2, List.length (fst x1) = 2 -> List.length (fst x2) = 2 -> snd x1 <> 4%Z -> snd x2 <> 4%Z ->
    nd_of "sum_squared_error" (s_run mse_class (x1 :: h1)) = nd_of "sum_squared_error" (s_run mse_class (x2 :: h2)).
Proof. intros x1 x2 h1 h2 L1 L2 D1 D2. rewrite !mse_first by assumption. reflexivity. Qed.
