(* The generic C18 tactic (ported from design-probes/ShapeContract.v `atoms`): decide
   `accepts chk_f e = contractb_f e` for a GENERATED check term and a hand-written contract by
   case analysis driven by the goal: rewrite known argument kinds, destruct the scrutinee on which
   evaluation is stuck (shapes, atoms, remaining arguments), destruct every comparison with its spec,
   close leaves by reflexivity / lia / congruence.  Re-ordering conditions in the Python source does
   not disturb it; weakening, dropping or changing a condition leaves an unsolved leaf. *)
From Coq Require Import ZArith List Bool String Lia.
From TE Require Import Models.ShapeLang Models.Contracts.
Import ListNotations.
Open Scope string_scope.

Lemma tail_eqb_sym a : forall b, tail_eqb a b = tail_eqb b a.
Proof.
  induction a as [|x a IH]; destruct b as [|y b]; cbn; try reflexivity.
  rewrite IH, Nat.eqb_sym. reflexivity.
Qed.
Lemma shape_eqb_sym a b : shape_eqb a b = shape_eqb b a.
Proof.
  destruct a as [|a0 [|a1 [|a2 [|a3 a]]]]; destruct b as [|b0 [|b1 [|b2 [|b3 b]]]]; cbn [shape_eqb]; try reflexivity;
    rewrite ?(Nat.eqb_sym a0), ?(Nat.eqb_sym a1), ?(Nat.eqb_sym a2), ?(Nat.eqb_sym a3), ?(tail_eqb_sym a); reflexivity.
Qed.

Ltac sred := cbn -[Z.eqb Z.ltb Z.leb Z.of_nat Nat.eqb numel tail_eqb].
Ltac kinds H :=
  unfold wf in H; cbn -[has_kind] in H;
  repeat match type of H with
  | context [has_kind _ (arg ?e ?p)] =>
      destruct (arg e p) eqn:?; cbn [has_kind andb] in H; try discriminate H
  end.
Ltac fin := first [reflexivity | congruence
                  | exfalso; cbn [Datatypes.length kind_tag numel] in *; first [lia | congruence | discriminate]].

(* the sub-term on which evaluation of a boolean / outcome expression is stuck *)
Ltac head_scrut t :=
  lazymatch t with
  | match ?x with _ => _ end => head_scrut x
  | if ?x then _ else _ => head_scrut x
  | andb ?x _ => head_scrut x
  | orb ?x _ => head_scrut x
  | negb ?x => head_scrut x
  | implb ?x _ => head_scrut x
  | cmp2 _ ?x ?y => lazymatch x with Some _ => head_scrut y | _ => head_scrut x end
  | ?x => x
  end.
Ltac split_on s :=
  lazymatch s with
  | arg ?e ?p => first [ match goal with H : arg e p = _ |- _ => rewrite H end | destruct (arg e p) eqn:? ]
  | atom ?e ?n => first [ match goal with H : atom e n = _ |- _ => rewrite H end | destruct (atom e n) as [[|]|] eqn:? ]
  | Z.eqb ?a ?b => destruct (Z.eqb_spec a b)
  | Z.ltb ?a ?b => destruct (Z.ltb_spec a b)
  | Z.leb ?a ?b => destruct (Z.leb_spec a b)
  | Nat.eqb ?a ?b => destruct (Nat.eqb_spec a b)
  | tail_eqb ?a ?b => first [ match goal with H : tail_eqb b a = _ |- _ => rewrite (tail_eqb_sym a b), H end
                            | destruct (tail_eqb a b) eqn:? ]
  | shape_eqb ?a ?b => first [ is_var a; destruct a | is_var b; destruct b ]
  | String.eqb ?a ?b => destruct (String.eqb a b) eqn:?
  | nth_error ?l _ => is_var l; destruct l
  | Datatypes.length ?l => is_var l; destruct l
  | Z.of_nat ?n => split_on n
  | _ => is_var s; destruct s
  end.
Ltac known :=
  repeat match goal with
  | H : arg ?e ?p = _ |- context [arg ?e ?p] => rewrite H
  | H : atom ?e ?p = _ |- context [atom ?e ?p] => rewrite H
  end.
Ltac step :=
  known; sred;
  first [ fin
        | lazymatch goal with
          | |- ?L = ?R =>
              first [ let s := head_scrut L in split_on s
                    | let s := head_scrut R in split_on s ]
          end; sred ].
Ltac shape_auto := repeat (first [fin | step]).
(* H : wf sig_f e ; goal: a boolean equation over accepts chk_f e / contractb_f e (both unfolded) *)
Ltac shape_solve H :=
  kinds H; unfold accepts; repeat autounfold with shapes; sred; shape_auto.

(* completeness half only:  contractb_f e = true -> accepts chk_f e = true, as a boolean implication *)
Lemma implb_true_intro (a b : bool) : implb a b = true -> a = true -> b = true.
Proof. destruct a, b; cbn; congruence. Qed.
Lemma iff_of_beq (a b : bool) : a = b -> (a = true <-> b = true).
Proof. intros ->; reflexivity. Qed.

(* witness environments for refutations *)
Fixpoint lookup_arg (l : list (string * aval)) (k : string) : aval :=
  match l with [] => AOther | (k', v) :: r => if String.eqb k k' then v else lookup_arg r k end.
Fixpoint lookup_atom (l : list (string * bool)) (d : option bool) (k : string) : option bool :=
  match l with [] => d | (k', v) :: r => if String.eqb k k' then Some v else lookup_atom r d k end.
(* atoms not listed evaluate to `d` *)
Definition env_of (args : list (string * aval)) (atoms : list (string * bool)) (d : option bool) : env :=
  {| arg := lookup_arg args; atom := lookup_atom atoms d |}.
