(* The generic C18 tactic (ported from design-probes/ShapeContract.v `atoms`): decide
   `accepts chk_f e = contractb_f e` for a GENERATED check term and a hand-written contract by
   case analysis driven by the goal: rewrite known argument kinds, destruct the scrutinee of every
   stuck match (shapes, atoms, remaining arguments), destruct every comparison with its spec, close
   leaves by reflexivity / lia / congruence.  Re-ordering conditions in the Python source does not
   disturb it; weakening, dropping or changing a condition leaves an unsolved leaf. *)
From Coq Require Import ZArith List Bool String Lia.
From TE Require Import Models.ShapeLang Models.Contracts.
Import ListNotations.
Open Scope string_scope.

Ltac sred := cbn -[Z.eqb Z.ltb Z.leb Z.of_nat Nat.eqb numel tail_eqb].
Ltac kinds H :=
  unfold wf in H; cbn -[has_kind] in H;
  repeat match type of H with
  | context [has_kind _ (arg ?e ?p)] =>
      destruct (arg e p) eqn:?; cbn [has_kind andb] in H; try discriminate H
  end.
Ltac fin := first [reflexivity | exfalso; lia | congruence].
Ltac step := match goal with
  | H : arg ?e ?p = _ |- context [arg ?e ?p] => rewrite H
  | H : atom ?e ?p = _ |- context [atom ?e ?p] => rewrite H
  | |- context [match ?x with _ => _ end] => is_var x; destruct x
  | |- context [atom ?e ?n] => destruct (atom e n) as [[|]|] eqn:?
  | |- context [arg ?e ?p] => destruct (arg e p) eqn:?
  | |- context [Z.eqb ?a ?b] => destruct (Z.eqb_spec a b)
  | |- context [Z.ltb ?a ?b] => destruct (Z.ltb_spec a b)
  | |- context [Z.leb ?a ?b] => destruct (Z.leb_spec a b)
  | |- context [Nat.eqb ?a ?b] => destruct (Nat.eqb_spec a b)
  | |- context [tail_eqb ?a ?b] => destruct (tail_eqb a b) eqn:?
  | |- context [String.eqb ?a ?b] => destruct (String.eqb a b) eqn:?
  end; sred.
Ltac shape_auto := repeat (first [fin | step]).
(* H : wf sig_f e ; goal: accepts chk_f e = contractb_f e, with chk_f / contractb_f already unfolded *)
Ltac shape_solve H :=
  kinds H; unfold accepts; repeat autounfold with shapes; sred; shape_auto.
