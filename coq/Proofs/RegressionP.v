(* Lemmas for the C07 family (regression, aggregation, statistical, image metrics). *)
From Coq Require Import ZArith List Bool QArith Qcanon Lia Permutation Sorted String.
From TE Require Import Base.Val Base.Nd Base.Xq Algebra.Metric Algebra.MergeTree Algebra.Pool Algebra.Cache
  Models.Aggregation Models.Aggregation2 Models.Regression Models.Stat.
Import ListNotations.
Open Scope list_scope.
Open Scope Qc_scope.

(* ---------------------------------------------------------------------------------------- *)
(* order on Qc through the boolean tests of Base/Xq *)
Lemma qlt_iff a b : qlt a b = true <-> a < b.
Proof.
  unfold qlt, Qclt, Qccompare. rewrite Qlt_alt.
  destruct (this a ?= this b)%Q; split; intro H; try discriminate; reflexivity.
Qed.
Lemma qlt_false a b : qlt a b = false <-> b <= a.
Proof.
  split; intro H.
  - apply Qcnot_lt_le. intro L. apply qlt_iff in L. congruence.
  - destruct (qlt a b) eqn:E; [|reflexivity]. apply qlt_iff in E. exfalso. exact (Qcle_not_lt _ _ H E).
Qed.
Lemma qle_iff a b : qle a b = true <-> a <= b.
Proof.
  unfold qle, Qcle, Qccompare. rewrite Qle_alt.
  destruct (this a ?= this b)%Q; split; intro H; try discriminate; try reflexivity; try (intro; discriminate).
  exfalso. apply H. reflexivity.
Qed.
Lemma qeq_iff a b : qeq a b = true <-> a = b.
Proof. unfold qeq. destruct (Qc_eq_dec a b); split; intro; congruence. Qed.

Lemma qmax_l a b : b <= a -> qmax a b = a.
Proof. intro H. unfold qmax. apply qlt_false in H. rewrite H. reflexivity. Qed.
Lemma qmax_r a b : a <= b -> qmax a b = b.
Proof.
  intro H. unfold qmax. destruct (qlt a b) eqn:E; [reflexivity|]. apply qlt_false in E. apply Qcle_antisym; assumption.
Qed.
Lemma qmax_case a b : (qmax a b = a /\ b <= a) \/ (qmax a b = b /\ a <= b).
Proof.
  unfold qmax. destruct (qlt a b) eqn:E.
  - right. split; [reflexivity|]. apply qlt_iff in E. apply Qclt_le_weak. exact E.
  - left. split; [reflexivity|]. apply qlt_false. exact E.
Qed.
Lemma qmin_case a b : (qmin a b = a /\ a <= b) \/ (qmin a b = b /\ b <= a).
Proof.
  unfold qmin. destruct (qlt b a) eqn:E.
  - right. split; [reflexivity|]. apply qlt_iff in E. apply Qclt_le_weak. exact E.
  - left. split; [reflexivity|]. apply qlt_false. exact E.
Qed.
Lemma qmax_comm a b : qmax a b = qmax b a.
Proof.
  destruct (qmax_case a b) as [[-> H]|[-> H]].
  - symmetry. apply qmax_r. exact H.
  - symmetry. apply qmax_l. exact H.
Qed.
Lemma qmax_assoc a b c : qmax a (qmax b c) = qmax (qmax a b) c.
Proof.
  destruct (qmax_case b c) as [[-> Hbc]|[-> Hbc]]; destruct (qmax_case a b) as [[-> Hab]|[-> Hab]].
  - symmetry. apply qmax_l. eapply Qcle_trans; eassumption.
  - symmetry. apply qmax_l. exact Hbc.
  - reflexivity.
  - rewrite (qmax_r b c Hbc). apply qmax_r. eapply Qcle_trans; eassumption.
Qed.
Lemma qmin_comm a b : qmin a b = qmin b a.
Proof.
  destruct (qmin_case a b) as [[-> H]|[-> H]]; destruct (qmin_case b a) as [[-> H']|[-> H']]; try reflexivity;
    apply Qcle_antisym; assumption.
Qed.
Lemma qmin_assoc a b c : qmin a (qmin b c) = qmin (qmin a b) c.
Proof.
  destruct (qmin_case b c) as [[E1 Hbc]|[E1 Hbc]]; rewrite E1;
  destruct (qmin_case a b) as [[E2 Hab]|[E2 Hab]]; rewrite E2; try rewrite E1; try reflexivity.
  - destruct (qmin_case a c) as [[-> H]|[-> H]]; [reflexivity|]. apply Qcle_antisym; [eapply Qcle_trans; eassumption|exact H].
  - destruct (qmin_case a c) as [[E3 H]|[E3 H]]; rewrite E3; [|reflexivity].
    apply Qcle_antisym; [exact H|eapply Qcle_trans; eassumption].
Qed.

(* ---------------------------------------------------------------------------------------- *)
(* Max / Min: semilattices with identity -inf / +inf (NaN absorbing) *)
Lemma xmax_assoc a b c : xmax a (xmax b c) = xmax (xmax a b) c.
Proof. destruct a, b, c; cbn; try reflexivity. rewrite qmax_assoc. reflexivity. Qed.
Lemma xmax_comm a b : xmax a b = xmax b a.
Proof. destruct a, b; cbn; try reflexivity. rewrite qmax_comm. reflexivity. Qed.
Lemma xmax_e_l a : xmax NInf a = a. Proof. reflexivity. Qed.
Lemma xmax_e_r a : xmax a NInf = a. Proof. destruct a; reflexivity. Qed.
Lemma xmin_assoc a b c : xmin a (xmin b c) = xmin (xmin a b) c.
Proof. destruct a, b, c; cbn; try reflexivity. rewrite qmin_assoc. reflexivity. Qed.
Lemma xmin_comm a b : xmin a b = xmin b a.
Proof. destruct a, b; cbn; try reflexivity. rewrite qmin_comm. reflexivity. Qed.
Lemma xmin_e_l a : xmin PInf a = a. Proof. reflexivity. Qed.
Lemma xmin_e_r a : xmin a PInf = a. Proof. destruct a; reflexivity. Qed.

Definition max_alg : Alg max_metric.
Proof.
  refine (Build_Alg max_metric xq (fun _ => NInf) xmax (fun _ _ => True) xmax_assoc _ _ _ _
            (fun _ s => s) (fun _ b => bmax b) (fun _ s => s) (fun _ _ => True) _ _ _ _ _ _ _); try (intros; exact I).
  - intros. apply xmax_e_l.
  - intros. apply xmax_e_r.
  - reflexivity.
  - intros. split; [reflexivity|exact I].
  - intros. cbn. rewrite map_id. split; [reflexivity|exact I].
  - reflexivity.
Defined.
Definition min_alg : Alg min_metric.
Proof.
  refine (Build_Alg min_metric xq (fun _ => PInf) xmin (fun _ _ => True) xmin_assoc _ _ _ _
            (fun _ s => s) (fun _ b => bmin b) (fun _ s => s) (fun _ _ => True) _ _ _ _ _ _ _); try (intros; exact I).
  - intros. apply xmin_e_l.
  - intros. apply xmin_e_r.
  - reflexivity.
  - intros. split; [reflexivity|exact I].
  - intros. cbn. rewrite map_id. split; [reflexivity|exact I].
  - reflexivity.
Defined.

(* the definition: the state is -inf before any data, else the greatest element seen *)
Definition is_max_of (s : xq) (seen : list Qc) : Prop :=
  (s = NInf /\ seen = []) \/ (exists m, s = Fin m /\ In m seen /\ forall x, In x seen -> x <= m).
Definition is_min_of (s : xq) (seen : list Qc) : Prop :=
  (s = PInf /\ seen = []) \/ (exists m, s = Fin m /\ In m seen /\ forall x, In x seen -> m <= x).

Lemma fold_qmax_spec : forall l x, In (fold_left qmax l x) (x :: l) /\ forall y, In y (x :: l) -> y <= fold_left qmax l x.
Proof.
  induction l as [|a l IH]; intros x; cbn [fold_left].
  - split; [left; reflexivity|]. intros y [<-|[]]. apply Qcle_refl.
  - destruct (IH (qmax x a)) as [Hin Hub]. split.
    + destruct Hin as [E|Hin]; [|right; right; exact Hin].
      rewrite <- E. destruct (qmax_case x a) as [[-> _]|[-> _]]; [left|right; left]; reflexivity.
    + intros y Hy. assert (Hm : qmax x a <= fold_left qmax l (qmax x a)) by (apply Hub; left; reflexivity).
      destruct Hy as [<-|[<-|Hy]].
      * eapply Qcle_trans; [|exact Hm]. destruct (qmax_case x a) as [[-> _]|[-> H]]; [apply Qcle_refl|exact H].
      * eapply Qcle_trans; [|exact Hm]. destruct (qmax_case x a) as [[-> H]|[-> _]]; [exact H|apply Qcle_refl].
      * apply Hub. right. exact Hy.
Qed.
Lemma fold_qmin_spec : forall l x, In (fold_left qmin l x) (x :: l) /\ forall y, In y (x :: l) -> fold_left qmin l x <= y.
Proof.
  induction l as [|a l IH]; intros x; cbn [fold_left].
  - split; [left; reflexivity|]. intros y [<-|[]]. apply Qcle_refl.
  - destruct (IH (qmin x a)) as [Hin Hub]. split.
    + destruct Hin as [E|Hin]; [|right; right; exact Hin].
      rewrite <- E. destruct (qmin_case x a) as [[-> _]|[-> _]]; [left|right; left]; reflexivity.
    + intros y Hy. assert (Hm : fold_left qmin l (qmin x a) <= qmin x a) by (apply Hub; left; reflexivity).
      destruct Hy as [<-|[<-|Hy]].
      * eapply Qcle_trans; [exact Hm|]. destruct (qmin_case x a) as [[-> _]|[-> H]]; [apply Qcle_refl|exact H].
      * eapply Qcle_trans; [exact Hm|]. destruct (qmin_case x a) as [[-> H]|[-> _]]; [exact H|apply Qcle_refl].
      * apply Hub. right. exact Hy.
Qed.

Lemma max_upd_spec s seen b : is_max_of s seen -> b <> [] -> is_max_of (xmax s (bmax b)) (seen ++ b).
Proof.
  intros Hs Hb. destruct b as [|x r]; [congruence|]. cbn [bmax].
  destruct (fold_qmax_spec r x) as [Hin Hub]. set (m := fold_left qmax r x) in *.
  destruct Hs as [[-> ->]|[m0 [-> [Hin0 Hub0]]]]; right.
  - exists m. cbn [xmax app]. repeat split; assumption.
  - cbn [xmax]. destruct (qmax_case m0 m) as [[-> H]|[-> H]].
    + exists m0. split; [reflexivity|]. split; [apply in_or_app; left; exact Hin0|].
      intros y Hy. apply in_app_or in Hy as [Hy|Hy]; [apply Hub0; exact Hy|].
      eapply Qcle_trans; [apply Hub; exact Hy|exact H].
    + exists m. split; [reflexivity|]. split; [apply in_or_app; right; exact Hin|].
      intros y Hy. apply in_app_or in Hy as [Hy|Hy]; [|apply Hub; exact Hy].
      eapply Qcle_trans; [apply Hub0; exact Hy|exact H].
Qed.
Lemma min_upd_spec s seen b : is_min_of s seen -> b <> [] -> is_min_of (xmin s (bmin b)) (seen ++ b).
Proof.
  intros Hs Hb. destruct b as [|x r]; [congruence|]. cbn [bmin].
  destruct (fold_qmin_spec r x) as [Hin Hub]. set (m := fold_left qmin r x) in *.
  destruct Hs as [[-> ->]|[m0 [-> [Hin0 Hub0]]]]; right.
  - exists m. cbn [xmin app]. repeat split; assumption.
  - cbn [xmin]. destruct (qmin_case m0 m) as [[-> H]|[-> H]].
    + exists m0. split; [reflexivity|]. split; [apply in_or_app; left; exact Hin0|].
      intros y Hy. apply in_app_or in Hy as [Hy|Hy]; [apply Hub0; exact Hy|].
      eapply Qcle_trans; [exact H|apply Hub; exact Hy].
    + exists m. split; [reflexivity|]. split; [apply in_or_app; right; exact Hin|].
      intros y Hy. apply in_app_or in Hy as [Hy|Hy]; [|apply Hub; exact Hy].
      eapply Qcle_trans; [exact H|apply Hub0; exact Hy].
Qed.

Lemma max_stream_spec : forall bs s seen, is_max_of s seen -> Forall (fun b => b <> []) bs ->
  is_max_of (fold_left (upd max_metric tt) bs s) (seen ++ List.concat bs).
Proof.
  induction bs as [|b bs IH]; intros s seen Hs Hb; cbn [fold_left List.concat].
  - rewrite app_nil_r. exact Hs.
  - inversion Hb; subst. rewrite app_assoc. apply IH; [|assumption]. apply max_upd_spec; assumption.
Qed.
Lemma min_stream_spec : forall bs s seen, is_min_of s seen -> Forall (fun b => b <> []) bs ->
  is_min_of (fold_left (upd min_metric tt) bs s) (seen ++ List.concat bs).
Proof.
  induction bs as [|b bs IH]; intros s seen Hs Hb; cbn [fold_left List.concat].
  - rewrite app_nil_r. exact Hs.
  - inversion Hb; subst. rewrite app_assoc. apply IH; [|assumption]. apply min_upd_spec; assumption.
Qed.

(* ---------------------------------------------------------------------------------------- *)
(* sums over Qc lists (ported from design-probes/RegressionQc.v) *)
Lemma sumQ_cons x l : sumQ (x :: l) = x + sumQ l. Proof. reflexivity. Qed.
Lemma sumQ_nil : sumQ [] = 0. Proof. reflexivity. Qed.
Lemma qofnat_S n : qofnat (S n) = qofnat n + 1.
Proof.
  apply Qc_is_canon. unfold qofnat, mkq, Qcplus, Q2Qc. cbn [this].
  rewrite !Qred_correct. change (Qred 1) with (1#1)%Q.
  unfold Qeq, Qplus. cbn [Qnum Qden]. rewrite Nat2Z.inj_succ. lia.
Qed.
Lemma qofnat_0 : qofnat 0 = 0. Proof. apply Qc_is_canon. reflexivity. Qed.
Definition lenQ (l : list Qc) : Qc := qofnat (List.length l).
Lemma lenQ_cons x l : lenQ (x :: l) = lenQ l + 1. Proof. unfold lenQ. cbn [List.length]. apply qofnat_S. Qed.
Lemma lenQ_nil : lenQ [] = 0. Proof. exact qofnat_0. Qed.
Lemma qofnat_pos n : (0 < n)%nat -> 0 < qofnat n.
Proof.
  intros H. unfold qofnat, mkq, Qclt, Q2Qc. cbn [this]. rewrite (Qred_correct (Z.of_nat n # 1)).
  change (Qred 0) with (0#1)%Q. unfold Qlt. cbn [Qnum Qden]. lia.
Qed.
Lemma lenQ_nz l : l <> [] -> lenQ l <> 0.
Proof.
  intros H E. destruct l as [|x l]; [congruence|]. unfold lenQ in E.
  pose proof (qofnat_pos (List.length (x :: l))) as P. cbn [List.length] in *. rewrite E in P.
  apply (Qclt_not_le 0 0); [apply P; lia|apply Qcle_refl].
Qed.
Lemma sumQ_app a b : sumQ (a ++ b) = sumQ a + sumQ b.
Proof. induction a as [|x a IH]; [cbn [app]; rewrite sumQ_nil; ring|]. cbn [app]. rewrite !sumQ_cons, IH. ring. Qed.
Lemma lenQ_app a b : lenQ (a ++ b) = lenQ a + lenQ b.
Proof. induction a as [|x a IH]; [cbn [app]; rewrite lenQ_nil; ring|]. cbn [app]. rewrite !lenQ_cons, IH. ring. Qed.

(* sum (y - m)^2 = sum y^2 - 2 m sum y + n m^2, for any m *)
Lemma centered_sq (ys : list Qc) (m : Qc) :
  sumQ (map (fun y => sq (y - m)) ys) = sumQ (map sq ys) - (1 + 1) * m * sumQ ys + lenQ ys * m * m.
Proof.
  induction ys as [|y ys IH]; [cbn [map]; rewrite !sumQ_nil, lenQ_nil; ring|].
  cbn [map]. rewrite !sumQ_cons, lenQ_cons, IH. unfold sq. ring.
Qed.
(* R2Score's TSS from sufficient statistics = the definition with the mean *)
Lemma r2_tss_centered (ys : list Qc) : ys <> [] ->
  r2_tss (lenQ ys) (sumQ ys) (sumQ (map sq ys)) = sumQ (map (fun y => sq (y - sumQ ys / lenQ ys)) ys).
Proof. intros Hn. unfold r2_tss. rewrite centered_sq. unfold sq. field. apply lenQ_nz. exact Hn. Qed.

(* ---- covariance, one matrix entry (i, j): xs = column i, zs = column j ---- *)
Fixpoint dot (xs zs : list Qc) : Qc :=
  match xs, zs with x :: xs', z :: zs' => x * z + dot xs' zs' | _, _ => 0 end.
Fixpoint scatter (mx mz : Qc) (xs zs : list Qc) : Qc :=
  match xs, zs with x :: xs', z :: zs' => (x - mx) * (z - mz) + scatter mx mz xs' zs' | _, _ => 0 end.
Lemma scatter_expand : forall xs zs mx mz, List.length xs = List.length zs ->
  scatter mx mz xs zs = dot xs zs - mz * sumQ xs - mx * sumQ zs + lenQ xs * mx * mz.
Proof.
  induction xs as [|x xs IH]; intros [|z zs] mx mz Hl; try discriminate;
    [cbn [scatter dot]; rewrite !sumQ_nil, lenQ_nil; ring|].
  cbn [scatter dot]. rewrite !sumQ_cons, lenQ_cons, IH by (injection Hl; auto). ring.
Qed.
Definition ss_batch (xs zs : list Qc) : Qc := scatter (sumQ xs / lenQ xs) (sumQ zs / lenQ zs) xs zs.
Lemma dot_app : forall a1 b1 a2 b2, List.length a1 = List.length b1 -> dot (a1 ++ a2) (b1 ++ b2) = dot a1 b1 + dot a2 b2.
Proof.
  induction a1 as [|x a1 IH]; intros [|z b1] a2 b2 Hl; try discriminate; [cbn [app dot]; ring|].
  cbn [app dot]. rewrite IH by (injection Hl; auto). ring.
Qed.
Lemma lenQ_same (a b : list Qc) : List.length a = List.length b -> lenQ a = lenQ b.
Proof. unfold lenQ. intros ->. reflexivity. Qed.

(* Chan's combine for one entry, exactly the expression of Covariance._update *)
Lemma chan_entry (xa za xb zb : list Qc) :
  List.length xa = List.length za -> List.length xb = List.length zb -> xa <> [] -> xb <> [] ->
  ss_batch xa za + (ss_batch xb zb
  + (sumQ xa / lenQ xa - sumQ xb / lenQ xb) * (sumQ za / lenQ za - sumQ zb / lenQ zb)
    * (lenQ xb * lenQ xa) / (lenQ xa + lenQ xb))
  = ss_batch (xa ++ xb) (za ++ zb).
Proof.
  intros Ha Hb Hna Hnb. unfold ss_batch.
  assert (Hab : List.length (xa ++ xb) = List.length (za ++ zb)) by (rewrite !app_length; congruence).
  assert (Hn : lenQ xa + lenQ xb <> 0).
  { rewrite <- lenQ_app. apply lenQ_nz. destruct xa; [congruence|discriminate]. }
  rewrite !scatter_expand by assumption.
  rewrite !lenQ_app, !sumQ_app, dot_app by assumption.
  rewrite <- (lenQ_same xa za Ha), <- (lenQ_same xb zb Hb).
  pose proof (lenQ_nz xa Hna). pose proof (lenQ_nz xb Hnb). field. repeat split; assumption.
Qed.

(* ---------------------------------------------------------------------------------------- *)
(* R2Score and MeanSquaredError on 1-D inputs: the full formula; 2-D: per-column statistics *)
Lemma qdivx_nz a b : b <> 0 -> qdivx a b = Fin (a / b).
Proof. intros H. unfold qdivx. destruct (qeq b 0) eqn:E; [apply qeq_iff in E; congruence|reflexivity]. Qed.
Lemma xsub_fin a b : xsub (Fin a) (Fin b) = Fin (a - b). Proof. reflexivity. Qed.
Lemma xdivq_fin a b : b <> 0 -> xdivq (Fin a) b = Fin (a / b). Proof. intros. cbn [xdivq]. apply qdivx_nz. assumption. Qed.
Lemma mkq11 : mkq 1 1 = 1. Proof. apply Qc_is_canon. reflexivity. Qed.

Definition b1d (xs ts : list Qc) (w : option (list Qc)) : rbatch :=
  {| rb_x := map (fun x => [x]) xs; rb_t := map (fun t => [t]) ts; rb_w := w; rb_1d := true |}.
Lemma col0_sing {X} (f : X -> Qc) l : col 0 (map (fun t => [f t]) l) = map f l.
Proof. unfold col. rewrite map_map. reflexivity. Qed.
Lemma sqerr_sing : forall xs ts, map2 sqerr_row (map (fun x => [x]) xs) (map (fun t => [t]) ts)
                                 = map (fun e => [e]) (map2 (fun x t => sq (t - x)) xs ts).
Proof. induction xs as [|x xs IH]; intros [|t ts]; cbn [map map2]; try reflexivity. rewrite IH. reflexivity. Qed.
Lemma colsums1 rows : colsums 1 rows = [sumQ (col 0 rows)]. Proof. reflexivity. Qed.
Lemma map_sq_sing ts : map (map sq) (map (fun t : Qc => [t]) ts) = map (fun t => [sq t]) ts.
Proof. rewrite map_map. reflexivity. Qed.

Definition sqerrs (xs ts : list Qc) : list Qc := map2 (fun x t => sq (t - x)) xs ts.
Lemma r2_stat_1d c xs ts : r2_w c = None ->
  r2_stat c (b1d xs ts None) =
  {| a_sc := [lenQ ts]; a_vs := [Sc (sumQ ts); Sc (sumQ (map sq ts)); Sc (sumQ (sqerrs xs ts))] |}.
Proof.
  intros Hw. unfold r2_stat, b1d. cbn [rb_x rb_t rb_1d]. rewrite Hw. cbn [width_of]. rewrite !colsums1.
  rewrite map_sq_sing, sqerr_sing. rewrite (col0_sing (fun t => t)), (col0_sing sq), (col0_sing (fun e => e)).
  rewrite !map_id. unfold lenQ. rewrite map_length. reflexivity.
Qed.

Definition r2_adjusted (p : Z) (n v : Qc) : Qc :=
  if Z.eqb p 0 then v else 1 - (1 - v) * (n - 1) / (n - mkq p 1 - 1).

(* every multioutput mode, with and without the adjustment, on 1-D data with TSS <> 0 *)
Lemma r2_core_1d mode p n so sso rss :
  r2_tss n so sso <> 0 -> n - mkq p 1 - 1 <> 0 ->
  r2_core mode p n (Sc sso) [so] [sso] [rss] = XS (Fin (r2_adjusted p n (1 - rss / r2_tss n so sso))).
Proof.
  intros Ht Hp. unfold r2_core. cbn [map2]. set (tss := r2_tss n so sso) in *.
  rewrite (qdivx_nz rss tss Ht), xsub_fin. set (v := 1 - rss / tss).
  assert (Hadj : forall u, u = v ->
            (if Z.eqb p 0 then Fin u
             else xsub (Fin 1) (xdivq (xmul (xsub (Fin 1) (Fin u)) (Fin (n - 1))) (n - mkq p 1 - 1)))
            = Fin (r2_adjusted p n v)).
  { intros u ->. unfold r2_adjusted. destruct (Z.eqb p 0); [reflexivity|].
    rewrite xsub_fin. cbn [xmul]. rewrite xdivq_fin by exact Hp. rewrite xsub_fin. reflexivity. }
  clearbody v. destruct mode as [|[|m]].
  - cbn [map xlike hd]. rewrite Hadj; reflexivity.
  - unfold xmeanq, xsum. cbn [fold_left xadd List.length]. change (Z.of_nat 1) with 1%Z. rewrite mkq11.
    rewrite xdivq_fin by (intro E; discriminate E). rewrite Hadj; [reflexivity|]. field. intro E; discriminate E.
  - cbn [map2 sumQ fold_right]. cbn [xmul]. 
    assert (Ht0 : tss + 0 <> 0) by (intro E; apply Ht; rewrite <- E; ring).
    rewrite xdivq_fin by exact Ht0. unfold xsum. cbn [fold_left xadd].
    rewrite Hadj; [reflexivity|]. field. exact Ht.
Qed.

Lemma r2_guard_few c s : nth 0 (a_sc s) 0 < mkq 2 1 -> r2_cmp c s = R2Err "ValueError"%string.
Proof. intros H. unfold r2_cmp. apply qlt_iff in H. rewrite H. reflexivity. Qed.
Lemma r2_guard_regressors c s : mkq 2 1 <= nth 0 (a_sc s) 0 -> nth 0 (a_sc s) 0 - 1 <= mkq (r2_p c) 1 ->
  r2_cmp c s = R2Err "ValueError"%string.
Proof.
  intros H2 H. unfold r2_cmp. apply qlt_false in H2. rewrite H2. apply qle_iff in H. rewrite H. reflexivity.
Qed.

(* R2Score on 1-D data: 1 - RSS/TSS with TSS the centered sum of squares (the textbook definition),
   adjusted when num_regressors <> 0; identical for the three multioutput modes *)
Lemma r2_1d_spec c xs ts :
  r2_w c = None -> ts <> [] ->
  mkq 2 1 <= lenQ ts -> mkq (r2_p c) 1 < lenQ ts - 1 ->
  let mean := sumQ ts / lenQ ts in
  let tss := sumQ (map (fun t => sq (t - mean)) ts) in
  tss <> 0 ->
  r2_cmp c (r2_stat c (b1d xs ts None)) =
  R2Val (XS (Fin (r2_adjusted (r2_p c) (lenQ ts) (1 - sumQ (sqerrs xs ts) / tss)))).
Proof.
  intros Hw Hne H2 Hp mean tss Ht. rewrite (r2_stat_1d c xs ts Hw). unfold r2_cmp. cbn [a_sc a_vs nth].
  apply qlt_false in H2. rewrite H2.
  destruct (qle (lenQ ts - 1) (mkq (r2_p c) 1)) eqn:E.
  { apply qle_iff in E. exfalso. exact (Qclt_not_le _ _ Hp E). }
  cbn [xelems]. subst tss mean. rewrite <- (r2_tss_centered ts Hne) in *.
  rewrite r2_core_1d; [reflexivity|exact Ht|].
  intro E0. apply (Qclt_not_le _ _ Hp). assert (lenQ ts - 1 = mkq (r2_p c) 1) as -> by (rewrite <- (Qcplus_0_r (mkq (r2_p c) 1)), <- E0; ring).
  apply Qcle_refl.
Qed.

(* ---- MeanSquaredError ---- *)
Lemma eps64_pos : 0 < eps64. Proof. apply qlt_iff. reflexivity. Qed.
(* sum_weight.abs().clamp(min=eps) * sum_weight.sign() is the weight itself once |w| >= eps *)
Lemma mse_den_pos sw : eps64 <= sw -> mse_den sw = sw.
Proof.
  intros H. assert (H0 : 0 < sw) by (eapply Qclt_le_trans; [apply eps64_pos|exact H]).
  unfold mse_den, qabs, qsign.
  assert (E1 : qlt sw 0 = false) by (apply qlt_false; apply Qclt_le_weak; exact H0). rewrite E1.
  apply qlt_iff in H0. rewrite H0. rewrite (qmax_l sw eps64 H). ring.
Qed.
Lemma mse_den_neg sw : sw <= - eps64 -> mse_den sw = sw.
Proof.
  intros H. assert (H0 : sw < 0).
  { eapply Qcle_lt_trans; [exact H|]. apply qlt_iff. reflexivity. }
  unfold mse_den, qabs, qsign. assert (E0 : qlt 0 sw = false) by (apply qlt_false; apply Qclt_le_weak; exact H0).
  rewrite E0. apply qlt_iff in H0. rewrite H0.
  assert (He : eps64 <= - sw). { apply Qcopp_le_compat in H. rewrite Qcopp_involutive in H. exact H. }
  rewrite (qmax_l (- sw) eps64 He). ring.
Qed.
Lemma mse_den_zero : mse_den 0 = 0.
Proof. apply Qc_is_canon. reflexivity. Qed.

Lemma wsq_sing : forall ws es, map2 (fun (w : Qc) r => map (Qcmult w) r) ws (map (fun e : Qc => [e]) es)
                               = map (fun e => [e]) (map2 Qcmult ws es).
Proof. induction ws as [|w ws IH]; intros [|e es]; cbn [map map2]; try reflexivity. rewrite IH. reflexivity. Qed.
Lemma mse_stat_1d c xs ts w : mse_w c = None ->
  mse_stat c (b1d xs ts w) =
  match w with
  | None => {| a_sc := [lenQ ts]; a_vs := [Sc (sumQ (sqerrs xs ts))] |}
  | Some ws => {| a_sc := [sumQ ws]; a_vs := [Sc (sumQ (map2 Qcmult ws (sqerrs xs ts)))] |}
  end.
Proof.
  intros Hw. unfold mse_stat, b1d. cbn [rb_x rb_t rb_w rb_1d]. rewrite Hw. cbn [width_of].
  rewrite sqerr_sing. destruct w as [ws|].
  - rewrite wsq_sing, colsums1, (col0_sing (fun e => e)), map_id. reflexivity.
  - rewrite colsums1, (col0_sing (fun e => e)), map_id. unfold lenQ. rewrite map_length. reflexivity.
Qed.
(* weighted mean of squared errors, both multioutput modes, once the total weight is at least eps *)
Lemma mse_1d_spec c xs ts ws : mse_w c = None -> eps64 <= sumQ ws ->
  mse_cmp c (mse_stat c (b1d xs ts (Some ws))) = XS (Fin (sumQ (map2 Qcmult ws (sqerrs xs ts)) / sumQ ws)).
Proof.
  intros Hw He. rewrite (mse_stat_1d c xs ts (Some ws) Hw). unfold mse_cmp, mse_compute. cbn [a_sc a_vs nth xelems map].
  rewrite (mse_den_pos _ He).
  assert (Hnz : sumQ ws <> 0).
  { intro E. rewrite E in He. apply (Qclt_not_le _ _ eps64_pos He). }
  rewrite (qdivx_nz _ _ Hnz). destruct (mse_raw c); [reflexivity|].
  unfold xmeanq, xsum. cbn [fold_left xadd List.length]. change (Z.of_nat 1) with 1%Z. rewrite mkq11.
  rewrite xdivq_fin by (intro E; discriminate E). do 2 f_equal. field. repeat split; try exact Hnz; intro E; discriminate E.
Qed.
Lemma mse_1d_unweighted_spec c xs ts : mse_w c = None -> ts <> [] ->
  mse_cmp c (mse_stat c (b1d xs ts None)) = XS (Fin (sumQ (sqerrs xs ts) / lenQ ts)).
Proof.
  intros Hw Hne. rewrite (mse_stat_1d c xs ts None Hw). unfold mse_cmp, mse_compute. cbn [a_sc a_vs nth xelems map].
  assert (He : eps64 <= lenQ ts).
  { destruct ts as [|t ts]; [congruence|]. rewrite lenQ_cons.
    apply Qcle_trans with 1; [apply qle_iff; reflexivity|].
    rewrite <- (Qcplus_0_l 1) at 1. apply Qcplus_le_compat; [|apply Qcle_refl].
    destruct ts as [|t' ts']; [rewrite lenQ_nil; apply Qcle_refl|]. apply Qclt_le_weak, qofnat_pos. cbn; lia. }
  rewrite (mse_den_pos _ He). pose proof (lenQ_nz ts Hne) as Hnz.
  rewrite (qdivx_nz _ _ Hnz). destruct (mse_raw c); [reflexivity|].
  unfold xmeanq, xsum. cbn [fold_left xadd List.length]. change (Z.of_nat 1) with 1%Z. rewrite mkq11.
  rewrite xdivq_fin by (intro E; discriminate E). do 2 f_equal. field. repeat split; try exact Hnz; intro E; discriminate E.
Qed.

(* 2-D inputs: entry j of the per-column statistics is the sum over column j *)
Lemma colsums_nth d rows j : (j < d)%nat -> nth j (colsums d rows) 0 = sumQ (col j rows).
Proof.
  intros H. unfold colsums.
  transitivity (nth j (map (fun j => sumQ (col j rows)) (seq 0 d)) ((fun j => sumQ (col j rows)) 0%nat)).
  { apply nth_indep. rewrite map_length, seq_length. exact H. }
  rewrite (map_nth (fun j => sumQ (col j rows))). rewrite seq_nth by exact H. reflexivity.
Qed.

(* ---------------------------------------------------------------------------------------- *)
(* Throughput: closed form of any merge tree (merge adds num_total, takes max of elapsed; update adds) *)
Fixpoint tp_elapsed (t : mtree tp_metric) : Qc :=
  match t with
  | Shard _ bs => sumQ (map snd bs)
  | Merge _ t os post => fold_left qmax (map tp_elapsed os) (tp_elapsed t) + sumQ (map snd post)
  end.
Definition tp_total (t : mtree tp_metric) : Qc := sumQ (map fst (stream tp_metric t)).

Lemma tp_updates : forall (bs : list (Qc * Qc)) s,
  fold_left tp_upd bs s = (fst s + sumQ (map fst bs), snd s + sumQ (map snd bs)).
Proof.
  induction bs as [|b bs IH]; intros [n e]; cbn [fold_left map fst snd].
  - rewrite !sumQ_nil. f_equal; ring.
  - rewrite IH. unfold tp_upd. cbn [fst snd]. rewrite !sumQ_cons. f_equal; ring.
Qed.
Lemma tp_merges : forall (ms : list (Qc * Qc)) s,
  fold_left tp_mrg1 ms s = (fst s + sumQ (map fst ms), fold_left qmax (map snd ms) (snd s)).
Proof.
  induction ms as [|m ms IH]; intros [n e]; cbn [fold_left map fst snd].
  - rewrite sumQ_nil. f_equal; ring.
  - rewrite IH. unfold tp_mrg1. cbn [fst snd]. rewrite sumQ_cons. f_equal; ring.
Qed.
Lemma throughput_tree : forall t : mtree tp_metric, run tp_metric tt t = (tp_total t, tp_elapsed t).
Proof.
  induction t as [bs|t os post IHt IHos] using (mtree_ind' tp_metric); unfold tp_total; cbn [run stream tp_elapsed].
  - change (fold_left (upd tp_metric tt) bs (init tp_metric tt)) with (fold_left tp_upd bs (0, 0)).
    rewrite tp_updates. cbn [fst snd]. f_equal; ring.
  - change (fold_left (upd tp_metric tt) post ?s) with (fold_left tp_upd post s).
    change (mrg tp_metric tt ?s ?ms) with (fold_left tp_mrg1 ms s).
    rewrite tp_updates, tp_merges, IHt. cbn [fst snd].
    assert (Hos : map fst (map (run tp_metric tt) os) = map tp_total os /\ map snd (map (run tp_metric tt) os) = map tp_elapsed os).
    { clear -IHos. induction IHos as [|o os Ho _ IH]; [split; reflexivity|]. cbn [map]. rewrite Ho. cbn [fst snd].
      destruct IH as [-> ->]. split; reflexivity. }
    destruct Hos as [-> ->]. f_equal. rewrite !map_app, !sumQ_app.
    assert (Hf : sumQ (map tp_total os) = sumQ (map fst (flat_map (stream tp_metric) os))).
    { clear. induction os as [|o os IH]; [reflexivity|]. cbn [map flat_map]. rewrite map_app, sumQ_app, sumQ_cons, IH. reflexivity. }
    rewrite Hf. unfold tp_total. symmetry. apply Qcplus_assoc.
Qed.

(* ---------------------------------------------------------------------------------------- *)
(* PSNR / Perplexity / NE: the exact sufficient statistics *)
Lemma psnr_updates_fixed r : forall bs s,
  p_n (fold_left (p_upd (Some r)) bs s) = p_n s + sumQ (map (fun b => qofnat (List.length (snd b))) bs)
  /\ p_sse (fold_left (p_upd (Some r)) bs s) = p_sse s + sumQ (map p_sse_of bs)
  /\ p_dr (fold_left (p_upd (Some r)) bs s) = p_dr s.
Proof.
  induction bs as [|b bs IH]; intros s; cbn [fold_left map].
  - rewrite !sumQ_nil. repeat split; ring.
  - destruct (IH (p_upd (Some r) s b)) as [H1 [H2 H3]]. rewrite H1, H2, H3. unfold p_upd. cbn [p_auto p_n p_sse p_dr].
    rewrite !sumQ_cons. repeat split; ring.
Qed.
Lemma psnr_updates_auto : forall bs s,
  p_n (fold_left (p_upd None) bs s) = p_n s + sumQ (map (fun b => qofnat (List.length (snd b))) bs)
  /\ p_sse (fold_left (p_upd None) bs s) = p_sse s + sumQ (map p_sse_of bs).
Proof.
  induction bs as [|b bs IH]; intros s; cbn [fold_left map].
  - rewrite !sumQ_nil. split; ring.
  - destruct (IH (p_upd None s b)) as [H1 H2]. rewrite H1, H2. unfold p_upd. cbn [p_auto p_n p_sse].
    rewrite !sumQ_cons. split; ring.
Qed.
(* auto range: after an update the stored data_range is max_target - min_target, and those are the
   running extrema of the targets *)
Lemma psnr_auto_range s b : p_dr (p_upd None s b) = xsub (p_mx (p_upd None s b)) (p_mn (p_upd None s b))
  /\ p_mx (p_upd None s b) = xmax (bmax (snd b)) (p_mx s) /\ p_mn (p_upd None s b) = xmin (bmin (snd b)) (p_mn s).
Proof. unfold p_upd. cbn [p_auto p_dr p_mx p_mn]. repeat split. Qed.
(* the argument of 10*log10 is data_range^2 / (sse / n) whenever everything is finite and positive *)
Lemma psnr_ratio_fin dr sse n : n <> 0 -> sse <> 0 ->
  psnr_ratio (Fin dr) sse n = Fin (dr * dr / (sse / n)).
Proof.
  intros Hn Hs. unfold psnr_ratio. cbn [xmul]. rewrite (qdivx_nz sse n Hn). cbn [xdivx]. apply xdivq_fin.
  intro E. apply Hs. assert (sse = sse / n * n) as -> by (field; exact Hn). rewrite E. ring.
Qed.

(* Perplexity: ignore_index filters exactly the masked positions; the statistic is
   (sum over kept positions of  ln(sum_j exp x_ij) - x_{i,t_i},  number of kept positions) *)
Definition px_kept (ig : option Z) (rows : mat) (ts : list Z) : list (list Qc * Z) :=
  filter (fun rt => negb (ignored ig (snd rt))) (combine rows ts).
Lemma px_stat_spec ig : forall rows ts,
  snd (px_stat ig rows ts) = qofnat (List.length (px_kept ig rows ts))
  /\ f_k (fst (px_stat ig rows ts)) = sumQ (map (fun rt => - nth (Z.to_nat (snd rt)) (fst rt) 0) (px_kept ig rows ts))
  /\ f_logs (fst (px_stat ig rows ts)) = map (fun rt => (1, sumexp (fst rt))) (px_kept ig rows ts).
Proof.
  induction rows as [|r rows IH]; intros [|t ts]; cbn [px_stat]; unfold px_kept; cbn [combine filter map List.length];
    try (rewrite qofnat_0, sumQ_nil; repeat split; reflexivity).
  destruct (IH ts) as [H1 [H2 H3]]. fold (px_kept ig rows ts). cbn [snd]. destruct (ignored ig t); cbn [negb].
  - repeat split; assumption.
  - cbn [fst snd map fadd px_term f_k f_logs List.length]. rewrite qofnat_S, sumQ_cons, H1, H2, H3. cbn [app fst snd].
    repeat split; ring.
Qed.
Lemma form_add_k f g : f_k (fadd f g) = f_k f + f_k g. Proof. reflexivity. Qed.
Lemma form_add_logs f g : f_logs (fadd f g) = f_logs f ++ f_logs g. Proof. reflexivity. Qed.

(* BinaryNormalizedEntropy: weights and positives of a task row are plain sums *)
Lemma ne_row_counts l xs ts ws : snd (fst (ne_row l xs ts ws)) = sumQ ws /\ snd (ne_row l xs ts ws) = sumQ (map2 Qcmult ws ts).
Proof. split; reflexivity. Qed.
(* one sample's cross entropy (probabilities strictly inside (0,1)):  -w t ln p - w (1-t) ln (1-p) *)
Lemma ne_term_prob x t w : x <> 0 -> 1 - x <> 0 -> w * t <> 0 -> w * (1 - t) <> 0 ->
  ne_term false x t w = {| f_k := 0 + 0; f_logs := [(- (w * t), vq x); (- (w * (1 - t)), vq (1 - x))] |}.
Proof.
  intros Hx Hx1 H1 H2. unfold ne_term, clamp_log.
  assert (E1 : qeq (- (w * t)) 0 = false).
  { destruct (qeq (- (w * t)) 0) eqn:E; [|reflexivity]. apply qeq_iff in E. exfalso. apply H1.
    rewrite <- (Qcopp_involutive (w * t)), E. reflexivity. }
  assert (E2 : qeq (- (w * (1 - t))) 0 = false).
  { destruct (qeq (- (w * (1 - t))) 0) eqn:E; [|reflexivity]. apply qeq_iff in E. exfalso. apply H2.
    rewrite <- (Qcopp_involutive (w * (1 - t))), E. reflexivity. }
  assert (E3 : qeq x 0 = false) by (destruct (qeq x 0) eqn:E; [apply qeq_iff in E; congruence|reflexivity]).
  assert (E4 : qeq (1 - x) 0 = false) by (destruct (qeq (1 - x) 0) eqn:E; [apply qeq_iff in E; congruence|reflexivity]).
  rewrite E1, E2, E3, E4. reflexivity.
Qed.

(* ---------------------------------------------------------------------------------------- *)
(* AUC: stable insertion sort by x is a sorted permutation; trapezoid rule *)
Definition le1 (p q : Qc * Qc) : Prop := fst p <= fst q.
Lemma ins_pair_perm p : forall l, Permutation (p :: l) (ins_pair p l).
Proof.
  induction l as [|q l IH]; cbn [ins_pair]; [apply Permutation_refl|].
  destruct (qlt (fst q) (fst p)); [|apply Permutation_refl].
  eapply perm_trans; [apply perm_swap|]. apply perm_skip. exact IH.
Qed.
Lemma sort_pairs_perm : forall l, Permutation l (sort_pairs l).
Proof.
  induction l as [|p l IH]; [apply Permutation_refl|]. unfold sort_pairs. cbn [fold_right]. fold (sort_pairs l).
  eapply perm_trans; [apply perm_skip; exact IH|]. apply ins_pair_perm.
Qed.
Lemma ins_pair_sorted p : forall l, StronglySorted le1 l -> StronglySorted le1 (ins_pair p l).
Proof.
  induction l as [|q l IH]; intros Hs; cbn [ins_pair].
  - constructor; constructor.
  - inversion Hs as [|? ? Hs' Hq]; subst. destruct (qlt (fst q) (fst p)) eqn:E.
    + constructor; [apply IH; exact Hs'|].
      eapply Permutation_Forall; [apply ins_pair_perm|]. constructor; [|exact Hq].
      apply qlt_iff in E. apply Qclt_le_weak. exact E.
    + apply qlt_false in E. constructor; [exact Hs|]. constructor; [exact E|].
      eapply Forall_impl; [|exact Hq]. intros r Hr. unfold le1 in *. eapply Qcle_trans; eassumption.
Qed.
Lemma sort_pairs_sorted : forall l, StronglySorted le1 (sort_pairs l).
Proof.
  induction l as [|p l IH]; [constructor|]. unfold sort_pairs. cbn [fold_right]. fold (sort_pairs l).
  apply ins_pair_sorted. exact IH.
Qed.
(* stability: pairs with equal x keep their input order (an inserted element goes BEFORE equal ones,
   and insertion proceeds from the right) *)
Lemma ins_pair_stable p q l : fst p = fst q -> ins_pair p (q :: l) = p :: q :: l.
Proof.
  intros E. cbn [ins_pair]. rewrite E. assert (H : qlt (fst q) (fst q) = false) by (apply qlt_false, Qcle_refl).
  rewrite H. reflexivity.
Qed.
Lemma trapz_step a b r : trapz (a :: b :: r) = (fst b - fst a) * (snd a + snd b) * half + trapz (b :: r).
Proof. reflexivity. Qed.
Lemma auc_row_spec reorder xs ys :
  exists l, auc_row reorder xs ys = trapz l /\ Permutation (combine xs ys) l
            /\ (if reorder then StronglySorted le1 l else l = combine xs ys).
Proof.
  unfold auc_row. destruct reorder.
  - exists (sort_pairs (combine xs ys)). split; [reflexivity|]. split; [apply sort_pairs_perm|apply sort_pairs_sorted].
  - exists (combine xs ys). split; [reflexivity|]. split; [apply Permutation_refl|reflexivity].
Qed.
