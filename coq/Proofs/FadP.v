(* FrechetAudioDistance: additive state (AddSpec / Alg), moments from partial sums = two-pass definition,
   structure of the Frechet distance. *)
From Coq Require Import ZArith List Bool QArith Qcanon Lia String.
From TE Require Import Base.Val Base.Nd Base.Xq Algebra.Metric Algebra.MergeTree Algebra.Pool Algebra.Additive
  Models.Aggregation Models.Aggregation2 Models.Regression Models.Fad Proofs.RegressionP Proofs.CovP Proofs.AdoptP.
Import ListNotations.
Open Scope list_scope.
Open Scope Qc_scope.

Lemma same_nzeros_nvec : forall l, same (nzeros (List.length l)) (nvec l) = true.
Proof. intros l. apply same_vec. exists l. split; reflexivity. Qed.
Lemma same_zeros2_nmat r k (m : matq) : List.length m = r -> Forall (fun row => List.length row = k) m ->
  same (nzeros2 r k) (nmat m) = true.
Proof.
  intros Hl Hr. unfold nzeros2, nmat. rewrite same_arr. apply all2_repeat; [rewrite map_length; exact Hl|].
  apply Forall_map. eapply Forall_impl; [|exact Hr]. intros row <-. apply same_nzeros_nvec.
Qed.
Lemma tab1_len d f : List.length (tab1 d f) = d. Proof. unfold tab1. rewrite map_length. apply seq_length. Qed.
Lemma tab2_shape d f : List.length (tab2 d f) = d /\ Forall (fun row => List.length row = d) (tab2 d f).
Proof.
  unfold tab2. split; [rewrite map_length; apply seq_length|]. apply Forall_map. apply Forall_forall. intros i _. apply tab1_len.
Qed.
Lemma fad_side_same d rows : same (nzeros2 d d) (nmat (gram d rows)) = true /\ same (nzeros2 1 d) (nmat [colsums d rows]) = true.
Proof.
  destruct (tab2_shape d (fun i j => dotq (col i rows) (col j rows))) as [H1 H2]. split.
  - unfold gram. apply same_zeros2_nmat; assumption.
  - apply same_zeros2_nmat; [reflexivity|]. constructor; [apply colsums_len|constructor].
Qed.
Definition fad_spec : AddSpec.
Proof.
  refine (Build_AddSpec nat (matq * matq) val fad_zero fad_valid fad_beta fad_cmp _ _).
  - intros d. unfold fad_zero. cbn [is_zero forallb]. rewrite !is_zero_nzeros2. destruct (Qc_eq_dec 0 0); [reflexivity|congruence].
  - intros d b _. unfold fad_zero, fad_beta, fad_side. cbn [app]. rewrite same_arr. cbn [all2].
    destruct (fad_side_same d (fst b)) as [-> ->]. destruct (fad_side_same d (snd b)) as [-> ->]. reflexivity.
Defined.
Lemma fad_metric_is_additive : fad_metric = add_metric fad_spec. Proof. reflexivity. Qed.
Definition fad_alg : Alg fad_metric := add_alg fad_spec.
Lemma fad_alg_comm : forall x y : A fad_alg, op fad_alg x y = op fad_alg y x. Proof. exact nadd_comm. Qed.

(* ---- moments ---- *)
Lemma dotq_dot : forall a b, dotq a b = dot a b.
Proof. intros a b. reflexivity. Qed.
Lemma map2map2_of d (g : Qc -> Qc -> Qc) f h :
  map2 (map2 g) (mat_of d f) (mat_of d h) = mat_of d (fun i j => g (f i j) (h i j)).
Proof. unfold mat_of. rewrite map2_map_same. apply map_ext. intros i. unfold vec_of. apply map2_map_same. Qed.
(* compute()'s covariance from the partial sums of a data set = scatter about the mean / (n - 1) *)
Lemma fad_moments d (rows : matq) : (2 <= List.length rows)%nat ->
  let n := qofnat (List.length rows) in
  fad_mean n (colsums d rows) = vec_of d (fun i => sumQ (col i rows) / n)
  /\ fad_cov n (colsums d rows) (gram d rows)
     = mat_of d (fun i j => scatter (sumQ (col i rows) / n) (sumQ (col j rows) / n) (col i rows) (col j rows) / (n - 1)).
Proof.
  intros Hn n. unfold fad_mean, fad_cov. rewrite colsums_of, vdivn_of. split; [reflexivity|].
  unfold fad_mean. rewrite !vdivn_of, outer_of. change (gram d rows) with (mat_of d (fun i j => dotq (col i rows) (col j rows))).
  rewrite map2map2_of. apply mat_of_ext. intros i j _ _.
  rewrite scatter_expand by (rewrite !col_len; reflexivity). rewrite dotq_dot. unfold lenQ. rewrite col_len. fold n.
  assert (Hn0 : n <> 0). { intro E. pose proof (qofnat_pos (List.length rows) ltac:(lia)) as P. fold n in P. rewrite E in P. apply (Qclt_not_le 0 0 P), Qcle_refl. }
  assert (Hn1 : n - 1 <> 0).
  { unfold n. destruct (List.length rows) as [|k] eqn:E; [lia|]. rewrite qofnat_S. intro E1.
    pose proof (qofnat_pos k ltac:(lia)) as P. assert (qofnat k = 0) as E2 by (rewrite <- E1; ring). rewrite E2 in P.
    apply (Qclt_not_le 0 0 P), Qcle_refl. }
  field. split; assumption.
Qed.

(* ---- structure of compute(): only the eigenvalue term is uninterpreted ---- *)
Lemma fad_cmp_structure d s :
  let pc := nrows (nget 0 s) in let pm := hd [] (nrows (nget 1 s)) in let pn := nsc (nget 2 s) in
  let tc := nrows (nget 3 s) in let tm := hd [] (nrows (nget 4 s)) in let tn := nsc (nget 5 s) in
  mkq 2 1 <= pn -> mkq 2 1 <= tn ->
  fad_cmp d s =
  let mx := fad_mean pn pm in let cx := fad_cov pn pm pc in let my := fad_mean tn tm in let cy := fad_cov tn tm tc in
  rsub (radd (vq (sumQ (map sq (vsub mx my)))) (vq (trace cx + trace cy))) (rmul (VZ 2) (sqrt_eig_sum cx cy)).
Proof.
  intros pc pm pn tc tm tn Hp Ht. unfold fad_cmp. fold pc pm pn tc tm tn.
  apply qlt_false in Hp. apply qlt_false in Ht. rewrite Hp, Ht. reflexivity.
Qed.
Lemma fad_cmp_guard d s : nsc (nget 2 s) < mkq 2 1 \/ nsc (nget 5 s) < mkq 2 1 -> fad_cmp d s = verr "ValueError".
Proof.
  intros H. unfold fad_cmp. destruct H as [H|H]; apply qlt_iff in H; rewrite H; [reflexivity|]. rewrite orb_true_r. reflexivity.
Qed.
