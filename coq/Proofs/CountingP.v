(* C04 proofs: the counting kernels (algo) equal direct counting (spec). *)
From Coq Require Import ZArith List Bool QArith Qcanon Lia Field.
From TE Require Import Base.Val Base.Nd Base.Xq Algebra.Metric Algebra.MergeTree Algebra.Additive Models.Counting.
Import ListNotations.
Open Scope Z_scope.

(* ------------------------------------------------------------------------------------------ *)
(* integers as canonical rationals                                                             *)
(* ------------------------------------------------------------------------------------------ *)
Lemma z2q_add a b : z2q (a + b) = (z2q a + z2q b)%Qc.
Proof.
  unfold z2q, mkq, Qcplus. apply Q2Qc_eq_iff. cbn [this Q2Qc]. rewrite !Qred_correct. unfold Qplus, Qeq. simpl. lia.
Qed.
Lemma z2q_mul a b : z2q (a * b) = (z2q a * z2q b)%Qc.
Proof.
  unfold z2q, mkq, Qcmult. apply Q2Qc_eq_iff. cbn [this Q2Qc]. rewrite !Qred_correct. unfold Qmult, Qeq. simpl. lia.
Qed.
Lemma z2q_0 : z2q 0 = 0%Qc.
Proof. apply Qc_is_canon. reflexivity. Qed.
Lemma z2q_inj a b : z2q a = z2q b -> a = b.
Proof. unfold z2q, mkq. intros H. apply Q2Qc_eq_iff in H. unfold Qeq in H. simpl in H. lia. Qed.
Lemma z2q_eq0 a : z2q a = 0%Qc <-> a = 0.
Proof. split; [intros H; apply z2q_inj; rewrite H, z2q_0; reflexivity|intros ->; apply z2q_0]. Qed.
Lemma qeq_z2q0 a : qeq (z2q a) 0 = (a =? 0).
Proof.
  unfold qeq. destruct (Qc_eq_dec (z2q a) 0) as [H|H]; destruct (Z.eqb_spec a 0) as [E|E]; try reflexivity.
  - apply z2q_eq0 in H. contradiction.
  - subst. rewrite z2q_0 in H. congruence.
Qed.
Lemma nz_z2q a : nz (z2q a) = negb (a =? 0).
Proof. unfold nz. rewrite qeq_z2q0. reflexivity. Qed.

(* a/b on counts: the IEEE quotient followed by nan_to_num is the "undefined -> 0" convention,
   provided the numerator vanishes with the denominator *)
Lemma qdivx_z a b : (b = 0 -> a = 0) -> qdivx (z2q a) (z2q b) = ratioN a b.
Proof.
  intros H. unfold qdivx, ratioN. rewrite qeq_z2q0. destruct (Z.eqb_spec b 0) as [E|E]; [|reflexivity].
  rewrite (H E), qeq_z2q0. reflexivity.
Qed.
Lemma ratio0_nan a b : nan_to_zero (ratioN a b) = ratio0 a b.
Proof. unfold ratioN, ratio0. destruct (b =? 0); reflexivity. Qed.

(* ------------------------------------------------------------------------------------------ *)
(* counting                                                                                    *)
(* ------------------------------------------------------------------------------------------ *)
Lemma cnt_nil {X} (P : X -> bool) : cnt P [] = 0.
Proof. reflexivity. Qed.
Lemma cnt_cons {X} (P : X -> bool) x l : cnt P (x :: l) = b2z (P x) + cnt P l.
Proof. unfold cnt. cbn [filter]. destruct (P x); cbn [b2z List.length]; lia. Qed.
Lemma cnt_nonneg {X} (P : X -> bool) l : 0 <= cnt P l.
Proof. unfold cnt. lia. Qed.
Lemma cnt_ext {X} (P Q : X -> bool) l : (forall x, P x = Q x) -> cnt P l = cnt Q l.
Proof. intros H. induction l as [|x l IH]; [reflexivity|]. rewrite !cnt_cons, IH, H. reflexivity. Qed.
Lemma cnt_split {X} (P Q : X -> bool) l :
  cnt P l = cnt (fun x => P x && Q x) l + cnt (fun x => P x && negb (Q x)) l.
Proof. induction l as [|x l IH]; [reflexivity|]. rewrite !cnt_cons, IH. destruct (P x), (Q x); cbn [b2z andb negb]; lia. Qed.
Lemma lenZ_cons {X} (x : X) l : lenZ (x :: l) = 1 + lenZ l.
Proof. unfold lenZ. cbn [List.length]. lia. Qed.
Lemma cnt_le_len {X} (P : X -> bool) l : cnt P l <= lenZ l.
Proof. induction l as [|x l IH]; [cbn; lia|]. rewrite cnt_cons, lenZ_cons. destruct (P x); cbn [b2z]; lia. Qed.
Lemma cnt_map {X Y} (f : X -> Y) (P : Y -> bool) l : cnt P (map f l) = cnt (fun x => P (f x)) l.
Proof. induction l as [|x l IH]; [reflexivity|]. cbn [map]. rewrite !cnt_cons, IH. reflexivity. Qed.
Lemma cnt_filter {X} (P Q : X -> bool) l : cnt P (filter Q l) = cnt (fun x => Q x && P x) l.
Proof.
  induction l as [|x l IH]; [reflexivity|]. cbn [filter]. rewrite (cnt_cons (fun x => Q x && P x)).
  destruct (Q x); cbn [andb b2z]; [rewrite cnt_cons|]; lia.
Qed.
Lemma lenZ_filter {X} (P : X -> bool) l : lenZ (filter P l) = cnt P l.
Proof. reflexivity. Qed.
Lemma cnt_app {X} (P : X -> bool) l1 l2 : cnt P (l1 ++ l2) = cnt P l1 + cnt P l2.
Proof. induction l1 as [|x l IH]; [cbn [app]; rewrite cnt_nil; lia|]. cbn [app]. rewrite !cnt_cons, IH. lia. Qed.
Lemma sumZ_cons x l : sumZ (x :: l) = x + sumZ l.
Proof. reflexivity. Qed.
Lemma sumZ_b2z {X} (P : X -> bool) l : sumZ (map (fun x => b2z (P x)) l) = cnt P l.
Proof. induction l as [|x l IH]; [reflexivity|]. cbn [map]. rewrite sumZ_cons, IH, cnt_cons. reflexivity. Qed.
Lemma cnt_true {X} (l : list X) : cnt (fun _ => true) l = lenZ l.
Proof. induction l as [|x l IH]; [reflexivity|]. rewrite cnt_cons, IH, lenZ_cons. reflexivity. Qed.
Lemma lenZ_map {X Y} (f : X -> Y) l : lenZ (map f l) = lenZ l.
Proof. unfold lenZ. rewrite map_length. reflexivity. Qed.

(* ------------------------------------------------------------------------------------------ *)
(* thresholding: a score exactly at the threshold is positive                                  *)
(* ------------------------------------------------------------------------------------------ *)
Lemma thresh_spec t s : thresh t s = b2z (t <=? s).
Proof. unfold thresh. destruct (Z.ltb_spec s t), (Z.leb_spec t s); cbn; lia. Qed.
Lemma thresh_at t : thresh t t = 1.
Proof. rewrite thresh_spec, Z.leb_refl. reflexivity. Qed.
Lemma bin_pairs_eq t b : bin_pairs t b = bin_pairs_spec t b.
Proof. unfold bin_pairs, bin_pairs_spec. f_equal. apply map_ext. intros s. apply thresh_spec. Qed.

(* ------------------------------------------------------------------------------------------ *)
(* argmax = the first maximal index                                                            *)
(* ------------------------------------------------------------------------------------------ *)
Definition is_first_max (row : list Z) (i : nat) : Prop :=
  (i < List.length row)%nat /\ (forall x, In x row -> x <= nth i row 0) /\ (forall j, (j < i)%nat -> nth j row 0 < nth i row 0).

Lemma argmax_go_spec : forall l pre best bi,
  (bi < List.length pre)%nat -> nth bi pre 0 = best ->
  (forall x, In x pre -> x <= best) -> (forall j, (j < bi)%nat -> nth j pre 0 < best) ->
  exists i, argmax_go best (Z.of_nat bi) (Z.of_nat (List.length pre)) l = Z.of_nat i /\ is_first_max (pre ++ l) i.
Proof.
  induction l as [|x l IH]; intros pre best bi Hbi Hb Hle Hlt; cbn [argmax_go].
  - exists bi. rewrite app_nil_r. split; [reflexivity|]. unfold is_first_max. rewrite Hb. auto.
  - destruct (Z.ltb_spec best x) as [Hx|Hx].
    + destruct (IH (pre ++ [x]) x (List.length pre)) as [i [Hi Hf]].
      * rewrite app_length. cbn. lia.
      * rewrite app_nth2 by lia. rewrite Nat.sub_diag. reflexivity.
      * intros y Hy. apply in_app_or in Hy as [Hy|[Hy|[]]]; [specialize (Hle y Hy); lia|lia].
      * intros j Hj. rewrite app_nth1 by lia.
        assert (Hin : In (nth j pre 0) pre) by (apply nth_In; lia). specialize (Hle _ Hin). lia.
      * exists i. rewrite app_length in Hi. cbn [List.length] in Hi. rewrite Nat2Z.inj_add in Hi. cbn in Hi.
        rewrite <- app_assoc in Hf. cbn [app] in Hf. split; [exact Hi|exact Hf].
    + destruct (IH (pre ++ [x]) best bi) as [i [Hi Hf]].
      * rewrite app_length. cbn. lia.
      * rewrite app_nth1 by lia. exact Hb.
      * intros y Hy. apply in_app_or in Hy as [Hy|[Hy|[]]]; [apply Hle; exact Hy|lia].
      * intros j Hj. rewrite app_nth1 by lia. apply Hlt. exact Hj.
      * exists i. rewrite app_length in Hi. cbn [List.length] in Hi. rewrite Nat2Z.inj_add in Hi. cbn in Hi.
        rewrite <- app_assoc in Hf. cbn [app] in Hf. split; [exact Hi|exact Hf].
Qed.
Lemma argmax_is_first_max row : row <> [] -> exists i, argmax row = Z.of_nat i /\ is_first_max row i.
Proof.
  destruct row as [|x r]; [congruence|]. intros _. unfold argmax.
  destruct (argmax_go_spec r [x] x 0%nat) as [i [Hi Hf]].
  - cbn. lia.
  - reflexivity.
  - intros y [Hy|[]]. lia.
  - intros j Hj. lia.
  - exists i. split; [exact Hi|exact Hf].
Qed.
Lemma first_max_unique row i j : is_first_max row i -> is_first_max row j -> i = j.
Proof.
  intros [Hi [Hia Hib]] [Hj [Hja Hjb]].
  destruct (Nat.lt_trichotomy i j) as [H|[H|H]]; [|exact H|].
  - specialize (Hjb i H). assert (Hin : In (nth j row 0) row) by (apply nth_In; lia). specialize (Hia _ Hin). lia.
  - specialize (Hib j H). assert (Hin : In (nth i row 0) row) by (apply nth_In; lia). specialize (Hja _ Hin). lia.
Qed.
(* the executable spec [first_max] returns the first maximal index *)
Lemma find_first : forall (P : nat -> bool) l i, find P l = Some i ->
  exists pre post, l = pre ++ i :: post /\ P i = true /\ forall j, In j pre -> P j = false.
Proof.
  induction l as [|x l IH]; intros i H; cbn [find] in H; [discriminate|].
  destruct (P x) eqn:E.
  - inversion H; subst. exists [], l. split; [reflexivity|]. split; [exact E|intros j []].
  - destruct (IH i H) as [pre [post [Hl [Hp Hn]]]]. exists (x :: pre), post. subst. split; [reflexivity|].
    split; [exact Hp|]. intros j [Hj|Hj]; [subst; exact E|apply Hn; exact Hj].
Qed.
Lemma first_max_is_first_max row i : is_first_max row i -> first_max row = Z.of_nat i.
Proof.
  intros Hf. unfold first_max.
  set (P := fun i => forallb (fun x => x <=? nth i row 0) row).
  assert (HP : forall k, P k = true <-> (forall x, In x row -> x <= nth k row 0)).
  { intros k. unfold P. rewrite forallb_forall. split; intros H x Hx; specialize (H x Hx); lia. }
  destruct Hf as [Hi [Ha Hb]].
  destruct (find P (seq 0 (List.length row))) as [k|] eqn:E.
  - destruct (find_first _ _ _ E) as [pre [post [Hl [Hp Hn]]]].
    f_equal. apply (first_max_unique row); [|split; [exact Hi|split; [exact Ha|exact Hb]]].
    assert (Hk : In k (seq 0 (List.length row))) by (rewrite Hl; apply in_or_app; right; left; reflexivity).
    apply in_seq in Hk. split; [lia|]. split; [exact (proj1 (HP k) Hp)|].
    intros j Hj.
    assert (Hjpre : In j pre).
    { assert (Hpre : forall pre s n, seq s n = pre ++ k :: post -> pre = seq s (k - s)).
      { clear. induction pre as [|p pre IH]; intros s n Hl.
        - destruct n; cbn in Hl; [discriminate|]. inversion Hl; subst. rewrite Nat.sub_diag. reflexivity.
        - destruct n; cbn in Hl; [discriminate|]. inversion Hl as [[Hs Hr]]. subst p.
          pose proof (IH (S s) n Hr) as IH'. assert (Hk : (S s <= k)%nat).
          { assert (Hin : In k (seq (S s) n)) by (rewrite Hr; apply in_or_app; right; left; reflexivity). apply in_seq in Hin. lia. }
          replace (k - s)%nat with (S (k - S s)) by lia. cbn [seq]. f_equal. exact IH'. }
      rewrite (Hpre pre 0%nat _ Hl). replace (k - 0)%nat with k by lia. apply in_seq. lia. }
    specialize (Hn j Hjpre).
    destruct (Z.lt_ge_cases (nth j row 0) (nth k row 0)) as [Hlt|Hge]; [exact Hlt|].
    exfalso. assert (HPj : P j = true).
    { apply HP. intros x Hx. pose proof (proj1 (HP k) Hp x Hx) as Hpx. lia. }
    congruence.
  - exfalso. assert (Hin : In i (seq 0 (List.length row))) by (apply in_seq; lia).
    pose proof (find_none _ _ E i Hin) as Hnone. pose proof (proj2 (HP i) Ha) as Hai. congruence.
Qed.
Theorem argmax_eq_first_max row : argmax row = first_max row.
Proof.
  destruct row as [|x r] eqn:E; [reflexivity|].
  destruct (argmax_is_first_max (x :: r)) as [i [Hi Hf]]; [congruence|].
  rewrite Hi. symmetry. apply first_max_is_first_max. exact Hf.
Qed.
Lemma preds_eq i : preds i = preds_spec i.
Proof. destruct i as [l|rows]; [reflexivity|]. cbn. apply map_ext. intros r. apply argmax_eq_first_max. Qed.
Lemma pairs_eq b : pairs b = pairs_spec b.
Proof. unfold pairs, pairs_spec. rewrite preds_eq. reflexivity. Qed.

(* ------------------------------------------------------------------------------------------ *)
(* in-place updates of tabulated vectors; scatter-add; sparse-COO accumulation                 *)
(* ------------------------------------------------------------------------------------------ *)
Lemma upd_nth_tab {X} (f : X -> X) : forall n s k (g : nat -> X),
  upd_nth k f (map g (seq s n)) = map (fun c => if Nat.eqb c (s + k) then f (g c) else g c) (seq s n).
Proof.
  induction n as [|n IH]; intros s k g; [destruct k; reflexivity|].
  cbn [seq map]. destruct k as [|k]; cbn [upd_nth].
  - rewrite Nat.add_0_r, Nat.eqb_refl. f_equal. apply map_ext_in. intros c Hc. apply in_seq in Hc.
    destruct (Nat.eqb_spec c s); [lia|reflexivity].
  - destruct (Nat.eqb_spec s (s + S k)); [lia|]. f_equal. rewrite IH. apply map_ext. intros c.
    replace (S s + k)%nat with (s + S k)%nat by lia. reflexivity.
Qed.
Lemma upd_at_tab {X} (f : X -> X) n i (g : Z -> X) :
  upd_at i f (map g (classes n)) = map (fun c => if c =? i then f (g c) else g c) (classes n).
Proof.
  unfold upd_at, classes. rewrite !map_map. destruct (Z.ltb_spec i 0) as [Hi|Hi].
  - apply map_ext. intros c. destruct (Z.eqb_spec (Z.of_nat c) i); [lia|reflexivity].
  - rewrite upd_nth_tab. apply map_ext. intros c. cbn [Nat.add].
    destruct (Nat.eqb_spec c (Z.to_nat i)), (Z.eqb_spec (Z.of_nat c) i); try reflexivity; lia.
Qed.
Lemma repeat_tab {X} (x : X) n : repeat x n = map (fun _ => x) (classes n).
Proof.
  unfold classes. rewrite map_map. generalize 0%nat as s. induction n as [|n IH]; intros s; [reflexivity|].
  cbn [repeat seq map]. f_equal. apply IH.
Qed.

Definition sum_where (c : Z) (ps : list (Z * Z)) : Z := sumZ (map snd (filter (fun p => fst p =? c) ps)).
Lemma sum_where_cons c p ps : sum_where c (p :: ps) = (if fst p =? c then snd p else 0) + sum_where c ps.
Proof. unfold sum_where. cbn [filter]. destruct (fst p =? c); cbn [map]; [rewrite sumZ_cons|]; lia. Qed.

Lemma scatter_fold_tab n : forall ps (g : Z -> Z),
  fold_left (fun acc p => upd_at (fst p) (Z.add (snd p)) acc) ps (map g (classes n))
  = map (fun c => g c + sum_where c ps) (classes n).
Proof.
  induction ps as [|p ps IH]; intros g; cbn [fold_left].
  - apply map_ext. intros c. unfold sum_where. cbn. lia.
  - rewrite upd_at_tab, IH. apply map_ext. intros c. rewrite sum_where_cons, (Z.eqb_sym (fst p) c).
    destruct (c =? fst p); lia.
Qed.
(* scatter_(reduce="add") into zeros = per-class sums of the source *)
Theorem scatter_add_spec n idx src :
  scatter_add n idx src = map (fun c => sum_where c (combine idx src)) (classes n).
Proof. unfold scatter_add. rewrite repeat_tab, scatter_fold_tab. apply map_ext. intros c. lia. Qed.
Theorem scatter_ones_spec n idx : scatter_ones n idx = map (fun c => cnt (fun i => i =? c) idx) (classes n).
Proof.
  unfold scatter_ones. rewrite scatter_add_spec. apply map_ext. intros c.
  induction idx as [|i idx IH]; [reflexivity|]. cbn [map combine]. rewrite sum_where_cons, cnt_cons, IH. cbn [fst snd].
  destruct (i =? c); reflexivity.
Qed.

Lemma coo_fold_tab n : forall ps (G : Z -> Z -> Z),
  fold_left (fun m p => upd_at (snd p) (upd_at (fst p) (Z.add 1)) m) ps (map (fun i => map (G i) (classes n)) (classes n))
  = map (fun i => map (fun j => G i j + cm_cell ps i j) (classes n)) (classes n).
Proof.
  induction ps as [|p ps IH]; intros G; cbn [fold_left].
  - apply map_ext. intros i. apply map_ext. intros j. unfold cm_cell. rewrite cnt_nil. lia.
  - rewrite upd_at_tab.
    rewrite (map_ext _ (fun i => map (fun j => if (i =? snd p) && (j =? fst p) then 1 + G i j else G i j) (classes n))).
    + rewrite (IH (fun i j => if (i =? snd p) && (j =? fst p) then 1 + G i j else G i j)).
      apply map_ext. intros i. apply map_ext. intros j. unfold cm_cell. rewrite cnt_cons.
      rewrite (Z.eqb_sym (snd p) i), (Z.eqb_sym (fst p) j). destruct (i =? snd p), (j =? fst p); cbn [andb b2z]; lia.
    + intros i. destruct (i =? snd p); cbn [andb]; [|reflexivity]. rewrite upd_at_tab. reflexivity.
Qed.
(* sparse-COO accumulation of (target, prediction) pairs = matrix of pair counts *)
Theorem coo_dense_spec n ps :
  coo_dense n ps = map (fun i => map (fun j => cm_cell ps i j) (classes n)) (classes n).
Proof.
  unfold coo_dense. rewrite (repeat_tab 0 n), (repeat_tab (map (fun _ => 0) (classes n)) n).
  rewrite (coo_fold_tab n ps (fun _ _ => 0)). reflexivity.
Qed.

(* zeros.scatter_(-1, topk.indices, 1.0) = indicator of the selected index set *)
Lemma memZ_cons c i l : memZ c (i :: l) = (c =? i) || memZ c l.
Proof. reflexivity. Qed.
Lemma tk_fold_tab n : forall sel (g : Z -> Z),
  fold_left (fun acc i => upd_at i (fun _ => 1) acc) sel (map g (classes n))
  = map (fun c => if memZ c sel then 1 else g c) (classes n).
Proof.
  induction sel as [|i sel IH]; intros g; cbn [fold_left]; [reflexivity|].
  rewrite upd_at_tab, IH. apply map_ext. intros c. rewrite memZ_cons.
  destruct (c =? i), (memZ c sel); reflexivity.
Qed.
Theorem tk_label_spec row sel : tk_label row sel = map (fun c => b2z (memZ c sel)) (classes (List.length row)).
Proof. unfold tk_label. rewrite repeat_tab, tk_fold_tab. reflexivity. Qed.

(* ------------------------------------------------------------------------------------------ *)
(* tabulated vectors: helpers                                                                  *)
(* ------------------------------------------------------------------------------------------ *)
Lemma combine_map {X A B} (f : X -> A) (g : X -> B) l : combine (map f l) (map g l) = map (fun x => (f x, g x)) l.
Proof. induction l as [|x l IH]; [reflexivity|]. cbn [map combine]. rewrite IH. reflexivity. Qed.
Lemma filter_map {X Y} (f : X -> Y) (P : Y -> bool) l : filter P (map f l) = map f (filter (fun x => P (f x)) l).
Proof. induction l as [|x l IH]; [reflexivity|]. cbn [map filter]. destruct (P (f x)); cbn [map]; rewrite IH; reflexivity. Qed.
Lemma map2_map {X A B C} (h : A -> B -> C) (f : X -> A) (g : X -> B) l :
  map2 h (map f l) (map g l) = map (fun x => h (f x) (g x)) l.
Proof. induction l as [|x l IH]; [reflexivity|]. cbn [map map2]. rewrite IH. reflexivity. Qed.
Lemma rows3 (f g h : Z -> Z) cls :
  combine (map z2q (map f cls)) (combine (map z2q (map g cls)) (map z2q (map h cls)))
  = map (fun c => (z2q (f c), (z2q (g c), z2q (h c)))) cls.
Proof. rewrite !map_map, combine_map, combine_map. reflexivity. Qed.
Lemma rows2 (f g : Z -> Z) cls :
  combine (map z2q (map f cls)) (map z2q (map g cls)) = map (fun c => (z2q (f c), z2q (g c))) cls.
Proof. rewrite !map_map, combine_map. reflexivity. Qed.
Lemma fld_zvec3 a b c : fld 0 (Arr [zvec a; zvec b; zvec c]) = map z2q a /\ fld 1 (Arr [zvec a; zvec b; zvec c]) = map z2q b
  /\ fld 2 (Arr [zvec a; zvec b; zvec c]) = map z2q c.
Proof. unfold fld, zvec. cbn [nget narr nth]. rewrite !nlist_nvec. auto. Qed.
Lemma fld_zvec2 a b : fld 0 (Arr [zvec a; zvec b]) = map z2q a /\ fld 1 (Arr [zvec a; zvec b]) = map z2q b.
Proof. unfold fld, zvec. cbn [nget narr nth]. rewrite !nlist_nvec. auto. Qed.
Lemma qsum_z2q l : qsum (map z2q l) = z2q (sumZ l).
Proof.
  induction l as [|x l IH]; [symmetry; apply z2q_0|]. cbn [map qsum fold_right]. fold (qsum (map z2q l)).
  rewrite IH, sumZ_cons, z2q_add. reflexivity.
Qed.
Lemma sumZ_filter_zero {X} (f : X -> Z) (P : X -> bool) l :
  (forall x, P x = false -> f x = 0) -> sumZ (map f (filter P l)) = sumZ (map f l).
Proof.
  intros H. induction l as [|x l IH]; [reflexivity|]. cbn [filter map]. destruct (P x) eqn:E; cbn [map]; rewrite !sumZ_cons, IH.
  - reflexivity.
  - rewrite (H x E). lia.
Qed.
Lemma filter_all {X} (P : X -> bool) l : forallb P l = true -> filter P l = l.
Proof. induction l as [|x l IH]; [reflexivity|]. cbn [forallb filter]. intros H. apply andb_prop in H as [H1 H2]. rewrite H1, IH by exact H2. reflexivity. Qed.

(* ------------------------------------------------------------------------------------------ *)
(* per-class count vectors: scatter-based algo = direct counts                                 *)
(* ------------------------------------------------------------------------------------------ *)
Lemma cnt_label c ps : cnt (fun py : Z * Z => snd py =? c) ps = tp c ps + fn c ps.
Proof.
  unfold tp, fn. rewrite (cnt_split _ (fun py => fst py =? c)). f_equal; apply cnt_ext; intros [p y]; cbn [fst snd];
    destruct (y =? c), (p =? c); reflexivity.
Qed.
Lemma cnt_pred c ps : cnt (fun py : Z * Z => fst py =? c) ps = tp c ps + fp c ps.
Proof. unfold tp, fp. rewrite (cnt_split _ (fun py => snd py =? c)). reflexivity. Qed.
Lemma vec_support n ps : scatter_ones n (map snd ps) = map (support ps) (classes n).
Proof. rewrite scatter_ones_spec. apply map_ext. intros c. rewrite cnt_map. apply cnt_label. Qed.
Lemma vec_npred n ps : scatter_ones n (map fst ps) = map (fun c => tp c ps + fp c ps) (classes n).
Proof. rewrite scatter_ones_spec. apply map_ext. intros c. rewrite cnt_map. apply cnt_pred. Qed.
Lemma vec_tp n ps : scatter_ones n (map snd (sel_eq ps)) = map (fun c => tp c ps) (classes n).
Proof.
  rewrite scatter_ones_spec. apply map_ext. intros c. unfold sel_eq. rewrite cnt_map, cnt_filter. apply cnt_ext.
  intros [p y]. cbn [fst snd]. destruct (Z.eqb_spec p y), (Z.eqb_spec y c), (Z.eqb_spec p c); cbn; try reflexivity; exfalso; lia.
Qed.
Lemma vec_fp n ps : scatter_ones n (map fst (sel_ne ps)) = map (fun c => fp c ps) (classes n).
Proof.
  rewrite scatter_ones_spec. apply map_ext. intros c. unfold sel_ne. rewrite cnt_map, cnt_filter. apply cnt_ext.
  intros [p y]. cbn [fst snd]. destruct (Z.eqb_spec p y), (Z.eqb_spec y c), (Z.eqb_spec p c); cbn; try reflexivity; exfalso; lia.
Qed.
Lemma tp_nonneg c ps : 0 <= tp c ps. Proof. apply cnt_nonneg. Qed.
Lemma fp_nonneg c ps : 0 <= fp c ps. Proof. apply cnt_nonneg. Qed.
Lemma fn_nonneg c ps : 0 <= fn c ps. Proof. apply cnt_nonneg. Qed.
Lemma support_le c ps : support ps c <= lenZ ps.
Proof. unfold support. rewrite <- cnt_label. apply cnt_le_len. Qed.

(* every label is a class index: the supports add up to the number of samples *)
Lemma sum_onehot n y : inrange n y = true -> sumZ (map (fun c => b2z (y =? c)) (classes n)) = 1.
Proof.
  unfold inrange, classes. intros H. apply andb_prop in H as [H1 H2]. apply Z.leb_le in H1. apply Z.ltb_lt in H2.
  rewrite map_map. replace n with (Z.to_nat y + S (n - S (Z.to_nat y)))%nat by lia.
  rewrite seq_app, map_app. cbn [seq map].
  assert (Hs : forall l, sumZ l = fold_right Z.add 0 l) by reflexivity.
  assert (Happ : forall a b, sumZ (a ++ b) = sumZ a + sumZ b).
  { induction a as [|x a IH]; intros b; [reflexivity|]. cbn [app]. rewrite !sumZ_cons, IH. lia. }
  rewrite Happ, sumZ_cons.
  assert (Hz : forall s m, (forall c, In c (seq s m) -> Z.of_nat c <> y) -> sumZ (map (fun c => b2z (y =? Z.of_nat c)) (seq s m)) = 0).
  { intros s m. revert s. induction m as [|m IH]; intros s Hc; [reflexivity|]. cbn [seq map]. rewrite sumZ_cons, IH.
    - destruct (Z.eqb_spec y (Z.of_nat s)) as [E|E]; [exfalso; apply (Hc s); [left; reflexivity|lia]|reflexivity].
    - intros c Hin. apply Hc. right. exact Hin. }
  rewrite !Hz.
  - cbn [Nat.add]. destruct (Z.eqb_spec y (Z.of_nat (Z.to_nat y))); [reflexivity|lia].
  - intros c Hc. apply in_seq in Hc. lia.
  - intros c Hc. apply in_seq in Hc. lia.
Qed.
Lemma sum_support n ps : forallb (inrange n) (map snd ps) = true -> sumZ (map (support ps) (classes n)) = lenZ ps.
Proof.
  induction ps as [|[p y] ps IH]; intros H.
  - cbn [map]. clear. induction (classes n) as [|c l IHl]; [reflexivity|]. cbn [map]. rewrite sumZ_cons, IHl. reflexivity.
  - cbn [map forallb snd] in H. apply andb_prop in H as [Hy Hr]. rewrite lenZ_cons, <- (IH Hr), <- (sum_onehot n y Hy).
    clear. induction (classes n) as [|c l IHl]; [reflexivity|]. cbn [map]. rewrite !sumZ_cons, IHl.
    unfold support. rewrite <- !cnt_label, cnt_cons. cbn [snd]. lia.
Qed.
Lemma forallb_snd_combine {X} (P : Z -> bool) (a : list X) b : forallb P b = true -> forallb P (map snd (combine a b)) = true.
Proof.
  revert b. induction a as [|x a IH]; intros [|y b] H; try reflexivity. cbn [combine map forallb snd] in *.
  apply andb_prop in H as [H1 H2]. rewrite H1, IH by exact H2. reflexivity.
Qed.

(* ------------------------------------------------------------------------------------------ *)
(* Precision                                                                                   *)
(* ------------------------------------------------------------------------------------------ *)
Lemma prec1_z t f : 0 <= t -> 0 <= f -> prec1 (z2q t) (z2q f) = ratio0 t (t + f).
Proof. intros Ht Hf. unfold prec1. rewrite <- z2q_add, qdivx_z by lia. apply ratio0_nan. Qed.
Lemma present_mask_prec ps c :
  nz (z2q (support ps c)) || nz (z2q (tp c ps) + z2q (fp c ps))%Qc = present ps c.
Proof.
  rewrite <- z2q_add, !nz_z2q. unfold present, support.
  pose proof (tp_nonneg c ps). pose proof (fp_nonneg c ps). pose proof (fn_nonneg c ps).
  destruct (Z.eqb_spec (tp c ps + fn c ps) 0), (Z.eqb_spec (tp c ps + fp c ps) 0), (Z.eqb_spec (tp c ps + fp c ps + fn c ps) 0);
    cbn; try reflexivity; exfalso; lia.
Qed.
Lemma split_correct ps : lenZ (sel_eq ps) + lenZ (sel_ne ps) = lenZ ps.
Proof. unfold sel_eq, sel_ne. rewrite !lenZ_filter, <- cnt_true. rewrite (cnt_split (fun _ => true) (fun py => fst py =? snd py)). reflexivity. Qed.

Definition targets_in (n : nat) (b : mcbatch) : Prop := forallb (inrange n) (snd b) = true.

Theorem mcprec_algo_eq_spec a nc b :
  (a = Weighted -> targets_in (ncls nc) b) ->
  fn_of mcprec_spec (a, nc) b = mcprec_textbook (a, nc) b.
Proof.
  intros Hv. unfold fn_of, mcprec_textbook, prf_spec_of. cbn [agamma abeta mcprec_spec fst snd].
  rewrite <- pairs_eq. set (ps := pairs b). unfold prec_beta, prec_gamma. cbn [fst snd]. fold ps.
  destruct a; cbn [is_micro].
  - (* micro *) f_equal. cbn [fsc nget narr nth nsc zsc]. unfold micro_spec, n_correct.
    rewrite prec1_z by apply cnt_nonneg. rewrite split_correct. reflexivity.
  - (* macro *) f_equal. rewrite vec_fp, vec_support, vec_tp.
    destruct (fld_zvec3 (map (fun c => fp c ps) (classes (ncls nc))) (map (support ps) (classes (ncls nc))) (map (fun c => tp c ps) (classes (ncls nc)))) as [E0 [E1 E2]].
    rewrite E0, E1, E2, rows3, filter_map, map_map. cbn [fst snd]. unfold macro_of. f_equal.
    rewrite (filter_ext _ (present ps)) by (intros c; apply present_mask_prec).
    apply map_ext. intros c. apply prec1_z; [apply tp_nonneg|apply fp_nonneg].
  - (* weighted *) f_equal. rewrite vec_fp, vec_support, vec_tp.
    destruct (fld_zvec3 (map (fun c => fp c ps) (classes (ncls nc))) (map (support ps) (classes (ncls nc))) (map (fun c => tp c ps) (classes (ncls nc)))) as [E0 [E1 E2]].
    rewrite E0, E1, E2, qsum_z2q, sum_support by (apply forallb_snd_combine, Hv; reflexivity).
    rewrite rows3, filter_map, !map_map, map2_map. cbn [fst snd]. unfold weighted_of. f_equal.
    rewrite (filter_ext _ (present ps)) by (intros c; apply present_mask_prec).
    apply map_ext. intros c. rewrite prec1_z by (try apply tp_nonneg; apply fp_nonneg).
    rewrite qdivx_z; [reflexivity|]. intros H0. pose proof (support_le c ps). unfold support in *.
    pose proof (tp_nonneg c ps). pose proof (fn_nonneg c ps). lia.
  - (* per class *) f_equal. rewrite vec_fp, vec_support, vec_tp.
    destruct (fld_zvec3 (map (fun c => fp c ps) (classes (ncls nc))) (map (support ps) (classes (ncls nc))) (map (fun c => tp c ps) (classes (ncls nc)))) as [E0 [E1 E2]].
    rewrite E0, E2, rows2, map_map. cbn [fst snd]. apply map_ext. intros c. apply prec1_z; [apply tp_nonneg|apply fp_nonneg].
Qed.

(* ------------------------------------------------------------------------------------------ *)
(* Recall                                                                                      *)
(* ------------------------------------------------------------------------------------------ *)
Definition aligned (b : mcbatch) : Prop := List.length (preds (fst b)) = List.length (snd b).
Lemma lenZ_pairs b : aligned b -> lenZ (pairs b) = lenZ (snd b).
Proof. unfold aligned, pairs, lenZ. intros H. rewrite combine_length, H, Nat.min_id. reflexivity. Qed.
Lemma shape_aligned nc b : mc_shape_ok nc b = true -> aligned b.
Proof.
  unfold mc_shape_ok, aligned. intros H. apply andb_prop in H as [H _]. apply Nat.eqb_eq in H. rewrite <- H.
  destruct (fst b); cbn [preds mc_len]; [reflexivity|apply map_length].
Qed.
Lemma rec1_z t l : (l = 0 -> t = 0) -> rec1 (z2q t) (z2q l) = ratio0 t l.
Proof. intros H. unfold rec1. rewrite qdivx_z by exact H. apply ratio0_nan. Qed.
Lemma present_mask_rec ps c :
  nz (z2q (support ps c)) || nz (z2q (tp c ps + fp c ps)) = present ps c.
Proof.
  rewrite !nz_z2q. unfold present, support.
  pose proof (tp_nonneg c ps). pose proof (fp_nonneg c ps). pose proof (fn_nonneg c ps).
  destruct (Z.eqb_spec (tp c ps + fn c ps) 0), (Z.eqb_spec (tp c ps + fp c ps) 0), (Z.eqb_spec (tp c ps + fp c ps + fn c ps) 0);
    cbn; try reflexivity; exfalso; lia.
Qed.
Lemma recall_pt ps c : rec1 (z2q (tp c ps)) (z2q (support ps c)) = recall_c ps c.
Proof. unfold recall_c, support. apply rec1_z. pose proof (tp_nonneg c ps). pose proof (fn_nonneg c ps). lia. Qed.

(* micro, macro, weighted, per-class: algo = textbook *)
Theorem mcrec_algo_eq_spec a nc b :
  aligned b -> (a = Weighted -> targets_in (ncls nc) b) ->
  fn_of mcrec_spec (a, nc) b = mcrec_textbook (a, nc) b.
Proof.
  intros Hal Hv. unfold fn_of, mcrec_textbook, prf_spec_of. cbn [agamma abeta mcrec_spec fst snd].
  rewrite <- pairs_eq. unfold rec_beta, rec_gamma. cbn [fst snd]. set (ps := pairs b) in *.
  destruct a; cbn [is_micro].
  - f_equal. cbn [fsc nget narr nth nsc zsc]. unfold micro_spec, n_correct. rewrite <- (lenZ_pairs b Hal). fold ps.
    apply rec1_z. intros H0. pose proof (cnt_le_len (fun py : Z * Z => fst py =? snd py) ps) as H1.
    unfold sel_eq. unfold lenZ, cnt in *. lia.
  - f_equal. rewrite vec_support, vec_npred, vec_tp.
    destruct (fld_zvec3 (map (support ps) (classes (ncls nc))) (map (fun c => tp c ps + fp c ps) (classes (ncls nc))) (map (fun c => tp c ps) (classes (ncls nc)))) as [E0 [E1 E2]].
    rewrite E0, E1, E2, rows3, filter_map, map_map. cbn [fst snd]. unfold macro_of. f_equal.
    rewrite (filter_ext _ (present ps)) by (intros c; apply present_mask_rec).
    apply map_ext. intros c. apply recall_pt.
  - f_equal. rewrite vec_support, vec_npred, vec_tp.
    destruct (fld_zvec3 (map (support ps) (classes (ncls nc))) (map (fun c => tp c ps + fp c ps) (classes (ncls nc))) (map (fun c => tp c ps) (classes (ncls nc)))) as [E0 [E1 E2]].
    rewrite E0, E1, E2, rows3, filter_map, !map_map, map2_map. cbn [fst snd]. unfold weighted_of.
    rewrite (filter_ext _ (present ps)) by (intros c; apply present_mask_rec). f_equal.
    rewrite <- (map_map (support ps) z2q), qsum_z2q, sumZ_filter_zero, sum_support by
      (try (apply forallb_snd_combine, Hv; reflexivity); intros c Hc; unfold present in Hc; apply negb_false_iff, Z.eqb_eq in Hc;
       unfold support; pose proof (tp_nonneg c ps); pose proof (fp_nonneg c ps); pose proof (fn_nonneg c ps); lia).
    apply map_ext. intros c. rewrite recall_pt. f_equal. apply qdivx_z.
    intros H0. pose proof (support_le c ps). unfold support in *. pose proof (tp_nonneg c ps). pose proof (fn_nonneg c ps). lia.
  - f_equal. rewrite vec_support, vec_npred, vec_tp.
    destruct (fld_zvec3 (map (support ps) (classes (ncls nc))) (map (fun c => tp c ps + fp c ps) (classes (ncls nc))) (map (fun c => tp c ps) (classes (ncls nc)))) as [E0 [E1 E2]].
    rewrite E0, E2, rows2, map_map. cbn [fst snd]. apply map_ext. intros c. apply recall_pt.
Qed.

(* ------------------------------------------------------------------------------------------ *)
(* F1                                                                                          *)
(* ------------------------------------------------------------------------------------------ *)
Lemma zdiv_0 b : zdiv 0 b = 0%Qc.
Proof. unfold zdiv. rewrite z2q_0. unfold Qcdiv. ring. Qed.
(* 2 * precision * recall / (precision + recall) with IEEE semantics and nan_to_num = 2tp / (label + prediction), 0 if undefined *)
Lemma f1c_z t l p : 0 <= t -> t <= l -> t <= p -> f1c (z2q t) (z2q l) (z2q p) = ratio0 (2 * t) (l + p).
Proof.
  intros Ht Hl Hp. unfold f1c.
  rewrite (qdivx_z t p), (qdivx_z t l) by lia.
  unfold ratioN, ratio0.
  destruct (Z.eqb_spec p 0) as [Ep|Ep]; destruct (Z.eqb_spec l 0) as [El|El]; cbn [xmul xadd xdiv nan_to_zero].
  - destruct (Z.eqb_spec (l + p) 0); [reflexivity|lia].
  - assert (t = 0) by lia. subst t. destruct (Z.eqb_spec (l + p) 0); [reflexivity|]. rewrite Z.mul_0_r, zdiv_0. reflexivity.
  - assert (t = 0) by lia. subst t. destruct (Z.eqb_spec (l + p) 0); [reflexivity|]. rewrite Z.mul_0_r, zdiv_0. reflexivity.
  - destruct (Z.eqb_spec (l + p) 0) as [E|E]; [lia|].
    destruct (Z.eq_dec t 0) as [->|Et].
    + rewrite Z.mul_0_r, !zdiv_0. unfold qdivx.
      replace (0 + 0)%Qc with 0%Qc by ring. replace (mkq 2 1 * 0 * 0)%Qc with 0%Qc by ring.
      unfold qeq. destruct (Qc_eq_dec 0 0); [reflexivity|congruence].
    + assert (HT : z2q t <> 0%Qc) by (rewrite z2q_eq0; exact Et).
      assert (HP : z2q p <> 0%Qc) by (rewrite z2q_eq0; exact Ep).
      assert (HL : z2q l <> 0%Qc) by (rewrite z2q_eq0; exact El).
      assert (HLP : (z2q l + z2q p)%Qc <> 0%Qc) by (rewrite <- z2q_add, z2q_eq0; exact E).
      assert (HTT : (z2q t * z2q l + z2q t * z2q p)%Qc <> 0%Qc) by (rewrite <- !z2q_mul, <- z2q_add, z2q_eq0; nia).
      assert (HB : (zdiv t p + zdiv t l)%Qc <> 0%Qc).
      { intros HB. assert (Hx : (z2q t * z2q l + z2q t * z2q p = (zdiv t p + zdiv t l) * (z2q p * z2q l))%Qc).
        { unfold zdiv. field. auto. }
        rewrite HB in Hx. apply HTT. rewrite Hx. ring. }
      unfold qdivx, qeq. destruct (Qc_eq_dec (zdiv t p + zdiv t l) 0) as [E0|_]; [contradiction|].
      cbn [nan_to_zero]. f_equal. unfold zdiv. rewrite z2q_mul, z2q_add. change (mkq 2 1) with (z2q 2). field.
      repeat split; assumption.
Qed.
Lemma tp_le_pred c ps : tp c ps <= tp c ps + fp c ps. Proof. pose proof (fp_nonneg c ps). lia. Qed.
Lemma f1_pt ps c : f1c (z2q (tp c ps)) (z2q (support ps c)) (z2q (tp c ps + fp c ps)) = f1_c ps c.
Proof.
  unfold f1_c, support. pose proof (tp_nonneg c ps). pose proof (fp_nonneg c ps). pose proof (fn_nonneg c ps).
  rewrite f1c_z by lia. f_equal. lia.
Qed.
Lemma ratio0_double a n : ratio0 (2 * a) (n + n) = ratio0 a n.
Proof.
  unfold ratio0. destruct (Z.eqb_spec n 0) as [->|En]; [reflexivity|].
  destruct (Z.eqb_spec (n + n) 0); [lia|]. f_equal. unfold zdiv. rewrite z2q_mul, z2q_add.
  assert (z2q n <> 0%Qc) by (rewrite z2q_eq0; exact En).
  assert ((z2q n + z2q n)%Qc <> 0%Qc) by (rewrite <- z2q_add, z2q_eq0; lia).
  change (z2q 2) with (1 + 1)%Qc. field. auto.
Qed.

Theorem mcf1_algo_eq_spec a nc b :
  aligned b -> (a = Weighted -> targets_in (ncls nc) b) ->
  fn_of mcf1_spec (a, nc) b = mcf1_textbook (a, nc) b.
Proof.
  intros Hal Hv. unfold fn_of, mcf1_textbook, prf_spec_of. cbn [agamma abeta mcf1_spec fst snd].
  rewrite <- pairs_eq. unfold f1_beta, f1_gamma. cbn [fst snd]. set (ps := pairs b) in *.
  destruct a; cbn [is_micro].
  - f_equal. cbn [fsc nget narr nth nsc zsc]. unfold micro_spec, n_correct. rewrite <- (lenZ_pairs b Hal). fold ps.
    pose proof (cnt_le_len (fun py : Z * Z => fst py =? snd py) ps) as H1.
    pose proof (cnt_nonneg (fun py : Z * Z => fst py =? snd py) ps) as H2.
    change (lenZ (sel_eq ps)) with (cnt (fun py : Z * Z => fst py =? snd py) ps).
    rewrite f1c_z by lia. apply ratio0_double.
  - f_equal. rewrite vec_support, vec_npred, vec_tp.
    destruct (fld_zvec3 (map (support ps) (classes (ncls nc))) (map (fun c => tp c ps + fp c ps) (classes (ncls nc))) (map (fun c => tp c ps) (classes (ncls nc)))) as [E0 [E1 E2]].
    rewrite E0, E1, E2, rows3, filter_map, map_map. cbn [fst snd]. unfold macro_of. f_equal.
    rewrite (filter_ext _ (present ps)) by (intros c; apply present_mask_rec).
    apply map_ext. intros c. apply f1_pt.
  - f_equal. rewrite vec_support, vec_npred, vec_tp.
    destruct (fld_zvec3 (map (support ps) (classes (ncls nc))) (map (fun c => tp c ps + fp c ps) (classes (ncls nc))) (map (fun c => tp c ps) (classes (ncls nc)))) as [E0 [E1 E2]].
    rewrite E0, E1, E2, rows3, filter_map, !map_map, map2_map. cbn [fst snd]. unfold weighted_of.
    rewrite (filter_ext _ (present ps)) by (intros c; apply present_mask_rec). f_equal.
    rewrite <- (map_map (support ps) z2q), qsum_z2q, sumZ_filter_zero, sum_support by
      (try (apply forallb_snd_combine, Hv; reflexivity); intros c Hc; unfold present in Hc; apply negb_false_iff, Z.eqb_eq in Hc;
       unfold support; pose proof (tp_nonneg c ps); pose proof (fp_nonneg c ps); pose proof (fn_nonneg c ps); lia).
    apply map_ext. intros c. rewrite f1_pt. f_equal. apply qdivx_z.
    intros H0. pose proof (support_le c ps). unfold support in *. pose proof (tp_nonneg c ps). pose proof (fn_nonneg c ps). lia.
  - f_equal. rewrite vec_support, vec_npred, vec_tp.
    destruct (fld_zvec3 (map (support ps) (classes (ncls nc))) (map (fun c => tp c ps + fp c ps) (classes (ncls nc))) (map (fun c => tp c ps) (classes (ncls nc)))) as [E0 [E1 E2]].
    rewrite E0, E1, E2, rows3, map_map. cbn [fst snd]. apply map_ext. intros c. apply f1_pt.
Qed.

(* ------------------------------------------------------------------------------------------ *)
(* total_on_valid: compute never raises                                                        *)
(* ------------------------------------------------------------------------------------------ *)
Lemma acc_gamma_total a s : is_err (acc_gamma_avg a s) = false.
Proof. destruct a; reflexivity. Qed.
Lemma prec_gamma_total c s : is_err (prec_gamma c s) = false.
Proof. destruct c as [[| | |] nc]; reflexivity. Qed.
Lemma f1_gamma_total c s : is_err (f1_gamma c s) = false.
Proof. destruct c as [[| | |] nc]; reflexivity. Qed.
Lemma cm_compute_total nm m : is_err (cm_compute nm m) = false.
Proof. destruct nm; reflexivity. Qed.
Lemma rec_gamma_total c s : is_err (rec_gamma c s) = false.
Proof. destruct c as [[| | |] nc]; reflexivity. Qed.

(* ------------------------------------------------------------------------------------------ *)
(* Binary forms (threshold, then count the positive class)                                     *)
(* ------------------------------------------------------------------------------------------ *)
Definition ok01 (ps : list (Z * Z)) : Prop :=
  forall py, In py ps -> (fst py = 0 \/ fst py = 1) /\ (snd py = 0 \/ snd py = 1).
Lemma bin_ok01 t b : bin_valid b = true -> ok01 (bin_pairs_spec t b).
Proof.
  unfold bin_valid, ok01, bin_pairs_spec. intros H [p y] Hin. apply andb_prop in H as [_ H].
  pose proof (in_combine_l _ _ _ _ Hin) as Hp. pose proof (in_combine_r _ _ _ _ Hin) as Hy.
  apply in_map_iff in Hp as [s [Hs _]]. rewrite forallb_forall in H. specialize (H y Hy). unfold is01 in H.
  cbn [fst snd]. split.
  - subst p. destruct (t <=? s); cbn; auto.
  - apply orb_prop in H as [H|H]; apply Z.eqb_eq in H; auto.
Qed.
Lemma bin_len t b : bin_valid b = true -> lenZ (bin_pairs_spec t b) = lenZ (snd b).
Proof.
  unfold bin_valid, bin_pairs_spec, lenZ. intros H. apply andb_prop in H as [H _]. apply Nat.eqb_eq in H.
  rewrite combine_length, map_length, H, Nat.min_id. reflexivity.
Qed.
Lemma sumZ_cnt_in {X} (f : X -> Z) (P : X -> bool) l : (forall x, In x l -> f x = b2z (P x)) -> sumZ (map f l) = cnt P l.
Proof.
  induction l as [|x l IH]; intros H; [reflexivity|]. cbn [map]. rewrite sumZ_cons, cnt_cons, IH, H; [reflexivity|left; reflexivity|].
  intros y Hy. apply H. right. exact Hy.
Qed.
Lemma cnt_ext_in {X} (P Q : X -> bool) l : (forall x, In x l -> P x = Q x) -> cnt P l = cnt Q l.
Proof.
  induction l as [|x l IH]; intros H; [reflexivity|]. rewrite !cnt_cons, IH, H; [reflexivity|left; reflexivity|].
  intros y Hy. apply H. right. exact Hy.
Qed.
Ltac case01 H py := let Hp := fresh in let Hy := fresh in
  destruct (H py) as [Hp Hy]; [assumption|]; destruct py as [p y]; cbn [fst snd] in *; destruct Hp, Hy; subst; reflexivity.
Lemma sum_py_tp ps : ok01 ps -> sumZ (map (fun py => fst py * snd py) ps) = tp 1 ps.
Proof. intros H. apply sumZ_cnt_in. intros py Hin. case01 H py. Qed.
Lemma sum_land_tp ps : ok01 ps -> sumZ (map (fun py => Z.land (fst py) (snd py)) ps) = tp 1 ps.
Proof. intros H. apply sumZ_cnt_in. intros py Hin. case01 H py. Qed.
Lemma sum_p ps : ok01 ps -> sumZ (map fst ps) = tp 1 ps + fp 1 ps.
Proof. intros H. rewrite <- cnt_pred. apply sumZ_cnt_in. intros py Hin. case01 H py. Qed.
Lemma sum_y ps : ok01 ps -> sumZ (map snd ps) = tp 1 ps + fn 1 ps.
Proof. intros H. rewrite <- cnt_label. apply sumZ_cnt_in. intros py Hin. case01 H py. Qed.
Lemma correct_tp_tn ps : ok01 ps -> cnt (fun py => fst py =? snd py) ps = tp 1 ps + tn 1 ps.
Proof.
  intros H. rewrite (cnt_split _ (fun py => fst py =? 1)). unfold tp, tn. f_equal; apply cnt_ext_in; intros py Hin; case01 H py.
Qed.

Theorem binacc_algo_eq_spec t b : bin_valid b = true -> fn_of binacc_spec t b = binacc_textbook t b.
Proof.
  intros Hv. unfold fn_of, binacc_textbook. cbn [agamma abeta binacc_spec]. unfold binacc_beta, acc_gamma_avg.
  rewrite bin_pairs_eq. set (ps := bin_pairs_spec t b). cbn [fsc nget narr nth nsc zsc]. f_equal.
  rewrite sumZ_b2z, <- (bin_len t b Hv), (correct_tp_tn ps (bin_ok01 t b Hv)). fold ps. apply qdivx_z.
  intros H0. rewrite <- (correct_tp_tn ps (bin_ok01 t b Hv)).
  pose proof (cnt_le_len (fun py : Z * Z => fst py =? snd py) ps). pose proof (cnt_nonneg (fun py : Z * Z => fst py =? snd py) ps). lia.
Qed.
Theorem binprec_algo_eq_spec t b : bin_valid b = true -> fn_of binprec_spec t b = binprec_textbook t b.
Proof.
  intros Hv. unfold fn_of, binprec_textbook. cbn [agamma abeta binprec_spec]. unfold binprec_beta, prec_gamma. cbn [fst].
  rewrite bin_pairs_eq. set (ps := bin_pairs_spec t b). pose proof (bin_ok01 t b Hv) as H01. fold ps in H01.
  cbn [fsc nget narr nth nsc zsc]. f_equal. rewrite (sum_py_tp ps H01), (sum_p ps H01).
  replace (tp 1 ps + fp 1 ps - tp 1 ps) with (fp 1 ps) by lia. apply prec1_z; [apply tp_nonneg|apply fp_nonneg].
Qed.
Theorem binrec_algo_eq_spec t b : bin_valid b = true -> fn_of binrec_spec t b = binrec_textbook t b.
Proof.
  intros Hv. unfold fn_of, binrec_textbook. cbn [agamma abeta binrec_spec]. unfold binrec_beta, binrec_gamma.
  rewrite bin_pairs_eq. set (ps := bin_pairs_spec t b). pose proof (bin_ok01 t b Hv) as H01. fold ps in H01.
  cbn [fsc nget narr nth nsc zsc]. f_equal. rewrite (sum_land_tp ps H01), (sum_y ps H01).
  apply rec1_z. pose proof (tp_nonneg 1 ps). pose proof (fn_nonneg 1 ps). lia.
Qed.
Theorem binf1_algo_eq_spec t b : bin_valid b = true -> fn_of binf1_spec t b = binf1_textbook t b.
Proof.
  intros Hv. unfold fn_of, binf1_textbook. cbn [agamma abeta binf1_spec]. unfold binf1_beta, f1_gamma. cbn [fst].
  rewrite bin_pairs_eq. set (ps := bin_pairs_spec t b). pose proof (bin_ok01 t b Hv) as H01. fold ps in H01.
  cbn [fsc nget narr nth nsc zsc]. f_equal. rewrite (sum_py_tp ps H01), (sum_p ps H01), (sum_y ps H01).
  pose proof (tp_nonneg 1 ps). pose proof (fp_nonneg 1 ps). pose proof (fn_nonneg 1 ps).
  rewrite f1c_z by lia. unfold f1_c. f_equal. lia.
Qed.

(* ------------------------------------------------------------------------------------------ *)
(* Multiclass accuracy (k = 1: argmax; k > 1: fewer than k scores strictly above the target's) *)
(* ------------------------------------------------------------------------------------------ *)
Lemma acc_mask_eq c b : acc_mask c b = map (fun s => (b2z (fst s), snd s)) (acc_samples c b).
Proof.
  unfold acc_mask, acc_samples. rewrite pairs_eq. destruct (Nat.eqb (acc_k c) 1).
  - rewrite map_map. reflexivity.
  - destruct (fst b) as [l|rows]; [reflexivity|]. rewrite map_map. apply map_ext. intros [row y]. cbn [fst snd].
    unfold correct_topk. rewrite sumZ_b2z. reflexivity.
Qed.
Lemma sum_where_samples c (cs : list (bool * Z)) :
  sum_where c (combine (map snd (map (fun s => (b2z (fst s), snd s)) cs)) (map fst (map (fun s => (b2z (fst s), snd s)) cs)))
  = cnt (fun s => fst s && (snd s =? c)) cs.
Proof.
  induction cs as [|[m y] cs IH]; [reflexivity|]. cbn [map combine fst snd]. rewrite sum_where_cons, cnt_cons, IH. cbn [fst snd].
  destruct m, (y =? c); reflexivity.
Qed.
Lemma cnt_and_le {X} (P Q : X -> bool) l : cnt (fun x => P x && Q x) l <= cnt Q l.
Proof. induction l as [|x l IH]; [cbn; lia|]. rewrite !cnt_cons. cbn beta. destruct (P x), (Q x); cbn [andb b2z]; lia. Qed.
Lemma acc_pt cs c : qdivx (z2q (cnt (fun s : bool * Z => fst s && (snd s =? c)) cs)) (z2q (cnt (fun s : bool * Z => snd s =? c) cs)) = acc_c cs c.
Proof.
  unfold acc_c. apply qdivx_z. intros H0. pose proof (cnt_and_le (fun s : bool * Z => fst s) (fun s => snd s =? c) cs).
  pose proof (cnt_nonneg (fun s : bool * Z => fst s && (snd s =? c)) cs). cbn beta in *. lia.
Qed.

(* [Htg] follows from acc_valid (equal lengths; k > 1 needs score rows) *)
Theorem mcacc_algo_eq_spec c b :
  map snd (acc_samples c b) = snd b ->
  fn_of mcacc_spec c b = mcacc_textbook c b.
Proof.
  intros Htg. unfold fn_of, mcacc_textbook. cbn [agamma abeta mcacc_spec]. unfold acc_beta. rewrite acc_mask_eq.
  set (cs := acc_samples c b) in *. rewrite <- Htg.
  destruct (acc_avg c); cbn [is_micro acc_gamma_avg].
  - cbn [fsc nget narr nth nsc zsc]. f_equal. rewrite !map_map. cbn [fst]. rewrite sumZ_b2z, lenZ_map. apply qdivx_z.
    intros H0. pose proof (cnt_le_len (@fst bool Z) cs). pose proof (cnt_nonneg (@fst bool Z) cs). pose proof (cnt_le_len (fun s : bool * Z => fst s) cs). pose proof (cnt_nonneg (fun s : bool * Z => fst s) cs). lia.
  - rewrite scatter_add_spec, scatter_ones_spec.
    rewrite (map_ext _ (fun c0 => cnt (fun s : bool * Z => fst s && (snd s =? c0)) cs)) by (intros c0; apply sum_where_samples).
    rewrite (map_ext (fun c0 => cnt (fun i => i =? c0) (map snd cs)) (fun c0 => cnt (fun s : bool * Z => snd s =? c0) cs)) by (intros c0; apply cnt_map).
    destruct (fld_zvec2 (map (fun c0 => cnt (fun s : bool * Z => fst s && (snd s =? c0)) cs) (classes (ncls (acc_nc c))))
                        (map (fun c0 => cnt (fun s : bool * Z => snd s =? c0) cs) (classes (ncls (acc_nc c))))) as [E0 E1].
    rewrite E0, E1, rows2, filter_map, map_map. cbn [fst snd]. f_equal. f_equal.
    rewrite (filter_ext _ (fun c0 => negb (cnt (fun s : bool * Z => snd s =? c0) cs =? 0))) by (intros c0; apply nz_z2q).
    apply map_ext. intros c0. apply acc_pt.
  - rewrite scatter_add_spec, scatter_ones_spec.
    rewrite (map_ext _ (fun c0 => cnt (fun s : bool * Z => fst s && (snd s =? c0)) cs)) by (intros c0; apply sum_where_samples).
    rewrite (map_ext (fun c0 => cnt (fun i => i =? c0) (map snd cs)) (fun c0 => cnt (fun s : bool * Z => snd s =? c0) cs)) by (intros c0; apply cnt_map).
    destruct (fld_zvec2 (map (fun c0 => cnt (fun s : bool * Z => fst s && (snd s =? c0)) cs) (classes (ncls (acc_nc c))))
                        (map (fun c0 => cnt (fun s : bool * Z => snd s =? c0) cs) (classes (ncls (acc_nc c))))) as [E0 E1].
    rewrite E0, E1, rows2, map_map. cbn [fst snd]. f_equal. apply map_ext. intros c0. apply acc_pt.
  - rewrite scatter_add_spec, scatter_ones_spec.
    rewrite (map_ext _ (fun c0 => cnt (fun s : bool * Z => fst s && (snd s =? c0)) cs)) by (intros c0; apply sum_where_samples).
    rewrite (map_ext (fun c0 => cnt (fun i => i =? c0) (map snd cs)) (fun c0 => cnt (fun s : bool * Z => snd s =? c0) cs)) by (intros c0; apply cnt_map).
    destruct (fld_zvec2 (map (fun c0 => cnt (fun s : bool * Z => fst s && (snd s =? c0)) cs) (classes (ncls (acc_nc c))))
                        (map (fun c0 => cnt (fun s : bool * Z => snd s =? c0) cs) (classes (ncls (acc_nc c))))) as [E0 E1].
    rewrite E0, E1, rows2, map_map. cbn [fst snd]. f_equal. apply map_ext. intros c0. apply acc_pt.
Qed.
(* the hypothesis holds on valid batches *)
Lemma map_snd_combine {X Y} (a : list X) (b : list Y) : List.length a = List.length b -> map snd (combine a b) = b.
Proof. revert b. induction a as [|x a IH]; intros [|y b] H; cbn in *; try discriminate; [reflexivity|]. f_equal. apply IH. lia. Qed.
Lemma acc_valid_targets c b : acc_valid c b = true -> map snd (acc_samples c b) = snd b.
Proof.
  unfold acc_valid, acc_samples. intros H. apply andb_prop in H as [H _]. apply andb_prop in H as [Hs Hk].
  pose proof (shape_aligned _ _ Hs) as Hal. unfold aligned in Hal. unfold pairs_spec. rewrite <- preds_eq.
  destruct (Nat.eqb (acc_k c) 1).
  - rewrite map_map. cbn [snd]. apply map_snd_combine. exact Hal.
  - destruct (fst b) as [l|rows]; [discriminate|]. rewrite map_map. cbn [snd]. apply map_snd_combine.
    cbn [preds] in Hal. rewrite map_length in Hal. exact Hal.
Qed.

(* ------------------------------------------------------------------------------------------ *)
(* Confusion matrix and its normalisations                                                     *)
(* ------------------------------------------------------------------------------------------ *)
Lemma nrows_zmat m : nrows (zmat m) = map (map z2q) m.
Proof. unfold nrows, zmat. cbn [narr]. rewrite map_map. apply map_ext. intros r. unfold zvec. apply nlist_nvec. Qed.
Lemma cmp_z2q a n d : (z2q a ?= mkq n d)%Qc = (a * Zpos d ?= n).
Proof.
  unfold Qccompare, z2q, mkq. unfold Q2Qc, this. rewrite <- Qred_compare. unfold Qcompare. cbn [Qnum Qden]. rewrite Z.mul_1_r. reflexivity.
Qed.
Lemma qabs_z2q a : 0 <= a -> qabs (z2q a) = z2q a.
Proof.
  intros Ha. unfold qabs, qlt. change 0%Qc with (mkq 0 1). rewrite cmp_z2q. rewrite Z.mul_1_r.
  destruct (a ?= 0) eqn:E; try reflexivity. change (a < 0) in E. exfalso. lia.
Qed.
(* F.normalize's max(norm, eps): eps only matters for an all-zero row / column *)
Lemma qmax_eps r : 0 <= r -> qmax (z2q r) norm_eps = if r =? 0 then norm_eps else z2q r.
Proof.
  intros Hr. unfold qmax, qlt, norm_eps. rewrite cmp_z2q.
  destruct (Z.eqb_spec r 0) as [->|E]; [reflexivity|]. destruct (r * 1000000000000 ?= 1) eqn:C; try reflexivity.
  change (r * 1000000000000 < 1) in C. exfalso. lia.
Qed.
Lemma l1div_z v r : 0 <= v -> v <= r -> l1div (z2q v) (z2q r) = ratio0 v r.
Proof.
  intros Hv Hr. unfold l1div, ratio0. rewrite qmax_eps by lia. destruct (Z.eqb_spec r 0) as [E|E].
  - assert (v = 0) by lia. subst v. f_equal; try (rewrite z2q_0; unfold Qcdiv; ring).
  - reflexivity.
Qed.
Lemma sumZ_map_ext_le (f g : Z -> Z) l : (forall c, f c = g c) -> sumZ (map f l) = sumZ (map g l).
Proof. intros H. f_equal. apply map_ext. exact H. Qed.
Lemma sumZ_lin (k : Z) (f g : Z -> Z) l : sumZ (map (fun j => k * f j + g j) l) = k * sumZ (map f l) + sumZ (map g l).
Proof. induction l as [|c l IH]; [cbn; lia|]. cbn [map]. rewrite !sumZ_cons, IH. lia. Qed.
(* predictions are class indices: the cells of row i add up to the number of samples with target i *)
Lemma row_sum n ps i : forallb (inrange n) (map fst ps) = true ->
  sumZ (map (fun j => cm_cell ps i j) (classes n)) = cnt (fun py => snd py =? i) ps.
Proof.
  induction ps as [|[p y] ps IH]; intros H.
  - cbn [map]. clear. induction (classes n) as [|c l IHl]; [reflexivity|]. cbn [map]. rewrite sumZ_cons, IHl. reflexivity.
  - cbn [map forallb fst] in H. apply andb_prop in H as [Hp Hr]. rewrite cnt_cons, <- (IH Hr). cbn [snd].
    transitivity (sumZ (map (fun j => b2z (y =? i) * b2z (p =? j) + cm_cell ps i j) (classes n))).
    + apply sumZ_map_ext_le. intros j. unfold cm_cell. rewrite cnt_cons. cbn [fst snd]. destruct (y =? i), (p =? j); cbn; lia.
    + rewrite sumZ_lin, (sum_onehot n p Hp), Z.mul_1_r. reflexivity.
Qed.
Lemma col_sum n ps j : forallb (inrange n) (map snd ps) = true ->
  sumZ (map (fun i => cm_cell ps i j) (classes n)) = cnt (fun py => fst py =? j) ps.
Proof.
  induction ps as [|[p y] ps IH]; intros H.
  - cbn [map]. clear. induction (classes n) as [|c l IHl]; [reflexivity|]. cbn [map]. rewrite sumZ_cons, IHl. reflexivity.
  - cbn [map forallb snd] in H. apply andb_prop in H as [Hy Hr]. rewrite cnt_cons, <- (IH Hr). cbn [fst].
    transitivity (sumZ (map (fun i => b2z (p =? j) * b2z (y =? i) + cm_cell ps i j) (classes n))).
    + apply sumZ_map_ext_le. intros i. unfold cm_cell. rewrite cnt_cons. cbn [fst snd]. destruct (y =? i), (p =? j); cbn; lia.
    + rewrite sumZ_lin, (sum_onehot n y Hy), Z.mul_1_r. reflexivity.
Qed.
Lemma cell_nonneg ps i j : 0 <= cm_cell ps i j. Proof. apply cnt_nonneg. Qed.
Lemma cell_le_row ps i j : cm_cell ps i j <= cnt (fun py => snd py =? i) ps.
Proof.
  unfold cm_cell. pose proof (cnt_and_le (fun py : Z * Z => fst py =? j) (fun py => snd py =? i) ps) as H.
  rewrite (cnt_ext _ (fun py : Z * Z => (fst py =? j) && (snd py =? i))); [exact H|]. intros py. apply andb_comm.
Qed.
Lemma cell_le_col ps i j : cm_cell ps i j <= cnt (fun py => fst py =? j) ps.
Proof. unfold cm_cell. apply (cnt_and_le (fun py : Z * Z => snd py =? i) (fun py => fst py =? j) ps). Qed.
Lemma qsum_abs_z (f : Z -> Z) l : (forall c, 0 <= f c) -> qsum (map qabs (map (fun c => z2q (f c)) l)) = z2q (sumZ (map f l)).
Proof.
  intros H. rewrite map_map, <- qsum_z2q, map_map. f_equal. apply map_ext. intros c. apply qabs_z2q, H.
Qed.

Definition labels_in (n : nat) (ps : list (Z * Z)) : Prop :=
  forallb (inrange n) (map fst ps) = true /\ forallb (inrange n) (map snd ps) = true.

(* normalize = None / "all" / "true" (rows) on the matrix of pair counts *)
Theorem cm_compute_spec_partial n nm ps : nm <> NPred -> labels_in n ps ->
  cm_compute nm (map (map z2q) (coo_dense n ps)) = cm_textbook_ps n nm ps.
Proof.
  intros Hnm [Hp Hy]. rewrite coo_dense_spec. unfold cm_compute, cm_textbook_ps. rewrite !map_map.
  destruct nm; [| | contradiction |].
  - f_equal. apply map_ext. intros i. rewrite !map_map. reflexivity.
  - f_equal.
    assert (Htot : qsum (map (fun i => qsum (map z2q (map (fun j => cm_cell ps i j) (classes n)))) (classes n)) = z2q (lenZ ps)).
    { rewrite (map_ext _ (fun i => z2q (cnt (fun py : Z * Z => snd py =? i) ps))) by (intros i; rewrite qsum_z2q, row_sum by exact Hp; reflexivity).
      rewrite <- (map_map (fun i => cnt (fun py : Z * Z => snd py =? i) ps) z2q), qsum_z2q.
      rewrite (sumZ_map_ext_le _ (support ps)) by (intros c; apply cnt_label). rewrite sum_support by exact Hy. reflexivity. }
    rewrite Htot. apply map_ext. intros i. rewrite !map_map. apply map_ext. intros j. apply qdivx_z.
    intros H0. pose proof (cell_le_row ps i j). pose proof (cell_nonneg ps i j). pose proof (cnt_le_len (fun py : Z * Z => snd py =? i) ps). lia.
  - f_equal. apply map_ext. intros i. rewrite (map_map (fun j => cm_cell ps i j) z2q).
    rewrite (qsum_abs_z (fun j => cm_cell ps i j)) by (intros c; apply cell_nonneg). rewrite row_sum by exact Hp. rewrite !map_map.
    apply map_ext. intros j. apply l1div_z; [apply cell_nonneg|apply cell_le_row].
Qed.

(* normalize = "pred": columns *)
Lemma nth_classes {X} (g : Z -> X) d n j : (j < n)%nat -> nth j (map g (classes n)) d = g (Z.of_nat j).
Proof.
  intros H. unfold classes. rewrite map_map.
  rewrite (nth_indep _ d ((fun c => g (Z.of_nat c)) 0%nat)) by (rewrite map_length, seq_length; exact H).
  rewrite (map_nth (fun c => g (Z.of_nat c))), seq_nth by exact H. reflexivity.
Qed.
Lemma col_norms_spec n ps : forallb (inrange n) (map snd ps) = true ->
  col_norms (map (fun i => map (fun j => z2q (cm_cell ps i j)) (classes n)) (classes n))
  = map (fun c => z2q (cnt (fun py => fst py =? c) ps)) (classes n).
Proof.
  intros Hy. unfold col_norms.
  assert (Hw : width_q (map (fun i => map (fun j => z2q (cm_cell ps i j)) (classes n)) (classes n)) = n).
  { destruct n; [reflexivity|]. unfold classes. cbn [seq map width_q List.length]. rewrite !map_length, seq_length. reflexivity. }
  rewrite Hw. unfold classes at 3. rewrite (map_map Z.of_nat). apply map_ext_in. intros j Hj. apply in_seq in Hj.
  rewrite map_map.
  rewrite (map_ext _ (fun i => qabs (z2q (cm_cell ps i (Z.of_nat j))))) by (intros i; rewrite nth_classes by lia; reflexivity).
  rewrite <- (map_map (fun i => z2q (cm_cell ps i (Z.of_nat j))) qabs).
  rewrite (qsum_abs_z (fun i => cm_cell ps i (Z.of_nat j))) by (intros c; apply cell_nonneg).
  rewrite col_sum by exact Hy. reflexivity.
Qed.
Theorem cm_compute_spec n nm ps : labels_in n ps ->
  cm_compute nm (map (map z2q) (coo_dense n ps)) = cm_textbook_ps n nm ps.
Proof.
  intros Hl. destruct nm; try (apply cm_compute_spec_partial; [discriminate|exact Hl]).
  destruct Hl as [Hp Hy]. rewrite coo_dense_spec. unfold cm_compute, cm_textbook_ps. rewrite !map_map.
  rewrite (map_ext (fun i => map z2q (map (fun j => cm_cell ps i j) (classes n))) (fun i => map (fun j => z2q (cm_cell ps i j)) (classes n)))
    by (intros i; apply map_map).
  rewrite col_norms_spec by exact Hy. f_equal. apply map_ext. intros i. rewrite map_map.
  rewrite (map2_map l1div (fun j => z2q (cm_cell ps i j)) (fun c => z2q (cnt (fun py : Z * Z => fst py =? c) ps))).
  apply map_ext. intros j. apply l1div_z; [apply cell_nonneg|apply cell_le_col].
Qed.

(* end to end *)
Lemma forallb_fst_combine {Y} (P : Z -> bool) a (b : list Y) : forallb P a = true -> forallb P (map fst (combine a b)) = true.
Proof.
  revert b. induction a as [|x a IH]; intros [|y b] H; try reflexivity. cbn [combine map forallb fst] in *.
  apply andb_prop in H as [H1 H2]. rewrite H1, IH by exact H2. reflexivity.
Qed.
Theorem mccm_algo_eq_spec c b : cm_valid c b = true -> fn_of mccm_spec c b = mccm_textbook c b.
Proof.
  intros Hv. unfold fn_of, mccm_textbook. cbn [agamma abeta mccm_spec]. unfold cm_gamma, cm_beta. cbn [nget narr nth].
  rewrite nrows_zmat, <- pairs_eq. apply cm_compute_spec.
  unfold cm_valid in Hv. apply andb_prop in Hv as [Hv Hp]. apply andb_prop in Hv as [Hv Hy].
  split; unfold pairs; [apply forallb_fst_combine; exact Hp|apply forallb_snd_combine; exact Hy].
Qed.
Theorem bincm_algo_eq_spec c b : bin_valid b = true -> fn_of bincm_spec c b = bincm_textbook c b.
Proof.
  intros Hv. unfold fn_of, bincm_textbook. cbn [agamma abeta bincm_spec]. unfold bincm_beta. cbn [nget narr nth].
  rewrite nrows_zmat, bin_pairs_eq. apply cm_compute_spec.
  pose proof (bin_ok01 (fst c) b Hv) as H01. set (ps := bin_pairs_spec (fst c) b) in *. clearbody ps.
  split; rewrite forallb_forall; intros z Hz; apply in_map_iff in Hz as [py [<- Hin]]; destruct (H01 py Hin) as [[E|E] [E'|E']];
    rewrite ?E, ?E'; reflexivity.
Qed.

(* ------------------------------------------------------------------------------------------ *)
(* Multilabel criteria as set relations between predicted and true label sets (per sample)     *)
(* ------------------------------------------------------------------------------------------ *)
Definition to_bits (py : Z * Z) : bool * bool := (fst py =? 1, snd py =? 1).
Lemma forallb_map_in {X Y} (f : X -> bool) (g : Y -> bool) (h : X -> Y) l :
  (forall x, In x l -> f x = g (h x)) -> forallb f l = forallb g (map h l).
Proof.
  induction l as [|x l IH]; intros H; [reflexivity|]. cbn [map forallb]. rewrite IH, H; [reflexivity|left; reflexivity|].
  intros y Hy. apply H. right. exact Hy.
Qed.
Lemma existsb_map_in {X Y} (f : X -> bool) (g : Y -> bool) (h : X -> Y) l :
  (forall x, In x l -> f x = g (h x)) -> existsb f l = existsb g (map h l).
Proof.
  induction l as [|x l IH]; intros H; [reflexivity|]. cbn [map existsb]. rewrite IH, H; [reflexivity|left; reflexivity|].
  intros y Hy. apply H. right. exact Hy.
Qed.
Ltac bits01 H py := let Hp := fresh in let Hy := fresh in
  destruct (H py) as [Hp Hy]; [assumption|]; destruct py as [p y]; unfold to_bits; cbn [fst snd] in *; destruct Hp, Hy; subst; reflexivity.
(* on 0/1 rows the tensor expressions of _multilabel_update are the set relations of the docstring *)
Theorem ml_row_criteria r : ok01 r ->
  forallb (fun py => fst py =? snd py) r = ml_sample_ok ExactMatch (map to_bits r) /\
  existsb (fun py => (fst py =? snd py) && (fst py =? 1)) r || forallb (fun py => (fst py =? 0) && (snd py =? 0)) r
    = ml_sample_ok Overlap (map to_bits r) /\
  forallb (fun py => 0 <=? fst py - snd py) r = ml_sample_ok Contain (map to_bits r) /\
  forallb (fun py => fst py - snd py <=? 0) r = ml_sample_ok Belong (map to_bits r) /\
  sumZ (map (fun py => b2z (fst py =? snd py)) r) = cnt (fun pt => Bool.eqb (fst pt) (snd pt)) (map to_bits r).
Proof.
  intros H. cbn [ml_sample_ok]. repeat split.
  - apply forallb_map_in. intros py Hin. bits01 H py.
  - f_equal; [apply existsb_map_in|apply forallb_map_in]; intros py Hin; bits01 H py.
  - apply forallb_map_in. intros py Hin. bits01 H py.
  - apply forallb_map_in. intros py Hin. bits01 H py.
  - rewrite sumZ_b2z, cnt_map. apply cnt_ext_in. intros py Hin. bits01 H py.
Qed.
(* the two summands of the "overlap" count never both fire on one sample *)
Theorem ml_overlap_exclusive r :
  existsb (fun py : Z * Z => (fst py =? snd py) && (fst py =? 1)) r && forallb (fun py => (fst py =? 0) && (snd py =? 0)) r = false.
Proof.
  destruct (existsb _ r) eqn:E; [|reflexivity]. destruct (forallb _ r) eqn:F; [|reflexivity]. exfalso.
  apply existsb_exists in E as [py [Hin Hpy]]. rewrite forallb_forall in F. specialize (F py Hin).
  apply andb_prop in Hpy as [_ H1]. apply andb_prop in F as [H0 _]. apply Z.eqb_eq in H1. apply Z.eqb_eq in H0. lia.
Qed.

(* ------------------------------------------------------------------------------------------ *)
(* Multilabel / top-k multilabel accuracy: lifting the per-sample criteria to the batch         *)
(* ------------------------------------------------------------------------------------------ *)
Lemma cnt_or_excl {X} (A B : X -> bool) l : (forall x, A x && B x = false) -> cnt A l + cnt B l = cnt (fun x => A x || B x) l.
Proof.
  intros H. induction l as [|x l IH]; [reflexivity|]. rewrite !cnt_cons, <- IH. specialize (H x).
  destruct (A x), (B x); cbn [orb b2z] in *; try discriminate; lia.
Qed.
Lemma cnt_ext_F {X} (P : X -> Prop) (A B : X -> bool) l : Forall P l -> (forall x, P x -> A x = B x) -> cnt A l = cnt B l.
Proof. intros HF H. apply cnt_ext_in. intros x Hx. apply H. rewrite Forall_forall in HF. apply HF. exact Hx. Qed.
Lemma sumZ_ext_F {X} (P : X -> Prop) (f g : X -> Z) l : Forall P l -> (forall x, P x -> f x = g x) -> sumZ (map f l) = sumZ (map g l).
Proof. intros HF H. induction HF as [|x l Hx _ IH]; [reflexivity|]. cbn [map]. rewrite !sumZ_cons, IH, (H x Hx). reflexivity. Qed.
Lemma sumZ_le {X} (f g : X -> Z) l : (forall x, 0 <= f x <= g x) -> 0 <= sumZ (map f l) <= sumZ (map g l).
Proof. intros H. induction l as [|x l IH]; [cbn; lia|]. cbn [map]. rewrite !sumZ_cons. specialize (H x). lia. Qed.

Theorem ml_update_spec cr rows : Forall ok01 rows ->
  acc_gamma_avg Micro (Arr [zsc (fst (ml_update cr rows)); zsc (snd (ml_update cr rows))])
  = ml_textbook_rows cr (map (map to_bits) rows).
Proof.
  intros HF. unfold acc_gamma_avg. cbn [fsc nget narr nth nsc zsc]. 
  assert (Hrow : forall A (cr' : crit), cr' <> Hamming ->
            (forall r, ok01 r -> A r = ml_sample_ok cr' (map to_bits r)) ->
            RS (qdivx (z2q (cnt A rows)) (z2q (lenZ rows))) = ml_textbook_rows cr' (map (map to_bits) rows)).
  { intros A cr' Hne HA. assert (E : ml_textbook_rows cr' (map (map to_bits) rows)
        = RS (ratioN (cnt (ml_sample_ok cr') (map (map to_bits) rows)) (lenZ (map (map to_bits) rows)))) by (destruct cr'; [reflexivity|congruence|reflexivity..]).
    rewrite E, cnt_map, lenZ_map, <- (cnt_ext_F ok01 A _ rows HF HA). f_equal. apply qdivx_z.
    intros H0. pose proof (cnt_le_len A rows). pose proof (cnt_nonneg A rows). lia. }
  destruct cr; cbn [ml_update fst snd].
  - rewrite sumZ_b2z. apply Hrow; [discriminate|]. intros r Hr. apply (ml_row_criteria r Hr).
  - cbn [ml_textbook_rows]. rewrite !map_map. f_equal.
    rewrite (sumZ_ext_F ok01 _ (fun r => cnt (fun pt : bool * bool => Bool.eqb (fst pt) (snd pt)) (map to_bits r)) rows HF)
      by (intros r Hr; apply (ml_row_criteria r Hr)).
    rewrite (map_ext (fun r => lenZ (map to_bits r)) lenZ) by (intros r; apply lenZ_map).
    apply qdivx_z. intros H0.
    pose proof (sumZ_le (fun r => cnt (fun pt : bool * bool => Bool.eqb (fst pt) (snd pt)) (map to_bits r)) lenZ rows) as Hle.
    assert (Hpt : forall r : list (Z * Z), 0 <= cnt (fun pt : bool * bool => Bool.eqb (fst pt) (snd pt)) (map to_bits r) <= lenZ r).
    { intros r. split; [apply cnt_nonneg|]. rewrite <- (lenZ_map to_bits r). apply cnt_le_len. }
    specialize (Hle Hpt). lia.
  - rewrite !sumZ_b2z, (cnt_or_excl _ _ rows ml_overlap_exclusive). apply Hrow; [discriminate|]. intros r Hr. apply (ml_row_criteria r Hr).
  - rewrite sumZ_b2z. apply Hrow; [discriminate|]. intros r Hr. apply (ml_row_criteria r Hr).
  - rewrite sumZ_b2z. apply Hrow; [discriminate|]. intros r Hr. apply (ml_row_criteria r Hr).
Qed.

Lemma combine_map2 {A B C D} (f : A -> C) (g : B -> D) a b : combine (map f a) (map g b) = map (fun p => (f (fst p), g (snd p))) (combine a b).
Proof. revert b. induction a as [|x a IH]; intros [|y b]; try reflexivity. cbn [map combine fst snd]. rewrite IH. reflexivity. Qed.
Lemma combine_map_l {A B C} (f : A -> C) a (b : list B) : combine (map f a) b = map (fun p => (f (fst p), snd p)) (combine a b).
Proof. revert b. induction a as [|x a IH]; intros [|y b]; try reflexivity. cbn [map combine fst snd]. rewrite IH. reflexivity. Qed.
Lemma b2z_eq1 x : (b2z x =? 1) = x. Proof. destruct x; reflexivity. Qed.
Lemma ml_bits_rows t b : ml_bits t b = map (map to_bits) (ml_rows t b).
Proof.
  unfold ml_bits, ml_rows. rewrite map_map. apply map_ext. intros [s y]. cbn [fst snd]. rewrite combine_map2, combine_map_l, map_map.
  apply map_ext. intros [p q]. unfold to_bits. cbn [fst snd]. rewrite thresh_spec, b2z_eq1, Z.eqb_sym. reflexivity.
Qed.
Lemma is01_cases z : is01 z = true -> z = 0 \/ z = 1.
Proof. unfold is01. intros H. apply orb_prop in H as [H|H]; apply Z.eqb_eq in H; auto. Qed.
Lemma ml_rows_ok01 t b : ml_shape_ok b = true -> Forall ok01 (ml_rows t b).
Proof.
  unfold ml_shape_ok. intros V. apply andb_prop in V as [_ V]. rewrite forallb_forall in V.
  unfold ml_rows. apply Forall_forall. intros r Hr. apply in_map_iff in Hr as [[s y] [<- Hin]]. cbn [fst snd].
  apply in_combine_r in Hin. specialize (V y Hin). rewrite forallb_forall in V.
  intros [p q] Hpq. cbn [fst snd]. split.
  - apply in_combine_l in Hpq. apply in_map_iff in Hpq as [z [<- _]]. rewrite thresh_spec. destruct (t <=? z); cbn; auto.
  - apply in_combine_r in Hpq. apply is01_cases, V, Hpq.
Qed.
Theorem mlacc_algo_eq_spec c b : ml_shape_ok b = true -> fn_of mlacc_spec c b = mlacc_textbook c b.
Proof.
  intros V. unfold fn_of, mlacc_textbook. cbn [agamma abeta mlacc_spec]. unfold mlacc_beta. cbv zeta.
  rewrite ml_bits_rows. apply ml_update_spec. apply ml_rows_ok01. exact V.
Qed.

Lemma tk_bits_rows b : tk_bits b = map (map to_bits) (tk_rows b).
Proof.
  unfold tk_bits, tk_rows. rewrite map_map. apply map_ext. intros [[s y] k]. cbn [fst snd]. rewrite tk_label_spec, combine_map2, combine_map_l, map_map.
  apply map_ext. intros [p q]. unfold to_bits. cbn [fst snd]. rewrite b2z_eq1, Z.eqb_sym. reflexivity.
Qed.
Lemma tk_rows_ok01 c b : tk_valid c b = true -> Forall ok01 (tk_rows b).
Proof.
  unfold tk_valid. intros V. do 3 (apply andb_prop in V as [V _]). unfold ml_shape_ok in V. apply andb_prop in V as [_ V]. cbn [snd] in V.
  rewrite forallb_forall in V. unfold tk_rows. apply Forall_forall. intros r Hr. apply in_map_iff in Hr as [[[s y] k] [<- Hin]]. cbn [fst snd].
  apply in_combine_l, in_combine_r in Hin. specialize (V y Hin). rewrite forallb_forall in V.
  intros [p q] Hpq. cbn [fst snd]. split.
  - apply in_combine_l in Hpq. rewrite tk_label_spec in Hpq. apply in_map_iff in Hpq as [z [<- _]]. destruct (memZ z k); cbn; auto.
  - apply in_combine_r in Hpq. apply is01_cases, V, Hpq.
Qed.
(* for EVERY admissible top-k selection *)
Theorem tkacc_algo_eq_spec c b : tk_valid c b = true -> fn_of tkacc_spec c b = tkacc_textbook c b.
Proof.
  intros V. unfold fn_of, tkacc_textbook. cbn [agamma abeta tkacc_spec]. unfold tkacc_beta. cbv zeta.
  rewrite tk_bits_rows. apply ml_update_spec. apply (tk_rows_ok01 c). exact V.
Qed.
