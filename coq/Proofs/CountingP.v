(* C04 proofs: the counting kernels (algo) equal direct counting (spec). *)
From Coq Require Import ZArith List Bool QArith Qcanon Lia.
From TE Require Import Base.Val Base.Nd Base.Xq Algebra.Metric Algebra.MergeTree Algebra.Additive Models.Counting.
Import ListNotations.
Open Scope Z_scope.

(* ------------------------------------------------------------------------------------------ *)
(* integers as canonical rationals                                                             *)
(* ------------------------------------------------------------------------------------------ *)
Lemma z2q_add a b : z2q (a + b) = (z2q a + z2q b)%Qc.
Proof.
  unfold z2q, mkq, Qcplus. apply Q2Qc_eq_iff. cbn [this Q2Qc]. rewrite !Qred_correct. unfold Qplus, Qeq. simpl. lia.
Qed.
Lemma z2q_mul a b : z2q (a * b) = (z2q a * z2q b)%Qc.
Proof.
  unfold z2q, mkq, Qcmult. apply Q2Qc_eq_iff. cbn [this Q2Qc]. rewrite !Qred_correct. unfold Qmult, Qeq. simpl. lia.
Qed.
Lemma z2q_0 : z2q 0 = 0%Qc.
Proof. apply Qc_is_canon. reflexivity. Qed.
Lemma z2q_inj a b : z2q a = z2q b -> a = b.
Proof. unfold z2q, mkq. intros H. apply Q2Qc_eq_iff in H. unfold Qeq in H. simpl in H. lia. Qed.
Lemma z2q_eq0 a : z2q a = 0%Qc <-> a = 0.
Proof. split; [intros H; apply z2q_inj; rewrite H, z2q_0; reflexivity|intros ->; apply z2q_0]. Qed.
Lemma qeq_z2q0 a : qeq (z2q a) 0 = (a =? 0).
Proof.
  unfold qeq. destruct (Qc_eq_dec (z2q a) 0) as [H|H]; destruct (Z.eqb_spec a 0) as [E|E]; try reflexivity.
  - apply z2q_eq0 in H. contradiction.
  - subst. rewrite z2q_0 in H. congruence.
Qed.
Lemma nz_z2q a : nz (z2q a) = negb (a =? 0).
Proof. unfold nz. rewrite qeq_z2q0. reflexivity. Qed.

(* a/b on counts: the IEEE quotient followed by nan_to_num is the "undefined -> 0" convention,
   provided the numerator vanishes with the denominator *)
Lemma qdivx_z a b : (b = 0 -> a = 0) -> qdivx (z2q a) (z2q b) = ratioN a b.
Proof.
  intros H. unfold qdivx, ratioN. rewrite qeq_z2q0. destruct (Z.eqb_spec b 0) as [E|E]; [|reflexivity].
  rewrite (H E), qeq_z2q0. reflexivity.
Qed.
Lemma ratio0_nan a b : nan_to_zero (ratioN a b) = ratio0 a b.
Proof. unfold ratioN, ratio0. destruct (b =? 0); reflexivity. Qed.

(* ------------------------------------------------------------------------------------------ *)
(* counting                                                                                    *)
(* ------------------------------------------------------------------------------------------ *)
Lemma cnt_nil {X} (P : X -> bool) : cnt P [] = 0.
Proof. reflexivity. Qed.
Lemma cnt_cons {X} (P : X -> bool) x l : cnt P (x :: l) = b2z (P x) + cnt P l.
Proof. unfold cnt. cbn [filter]. destruct (P x); cbn [b2z List.length]; lia. Qed.
Lemma cnt_nonneg {X} (P : X -> bool) l : 0 <= cnt P l.
Proof. unfold cnt. lia. Qed.
Lemma cnt_ext {X} (P Q : X -> bool) l : (forall x, P x = Q x) -> cnt P l = cnt Q l.
Proof. intros H. induction l as [|x l IH]; [reflexivity|]. rewrite !cnt_cons, IH, H. reflexivity. Qed.
Lemma cnt_split {X} (P Q : X -> bool) l :
  cnt P l = cnt (fun x => P x && Q x) l + cnt (fun x => P x && negb (Q x)) l.
Proof. induction l as [|x l IH]; [reflexivity|]. rewrite !cnt_cons, IH. destruct (P x), (Q x); cbn [b2z andb negb]; lia. Qed.
Lemma lenZ_cons {X} (x : X) l : lenZ (x :: l) = 1 + lenZ l.
Proof. unfold lenZ. cbn [List.length]. lia. Qed.
Lemma cnt_le_len {X} (P : X -> bool) l : cnt P l <= lenZ l.
Proof. induction l as [|x l IH]; [cbn; lia|]. rewrite cnt_cons, lenZ_cons. destruct (P x); cbn [b2z]; lia. Qed.
Lemma cnt_map {X Y} (f : X -> Y) (P : Y -> bool) l : cnt P (map f l) = cnt (fun x => P (f x)) l.
Proof. induction l as [|x l IH]; [reflexivity|]. cbn [map]. rewrite !cnt_cons, IH. reflexivity. Qed.
Lemma cnt_filter {X} (P Q : X -> bool) l : cnt P (filter Q l) = cnt (fun x => Q x && P x) l.
Proof.
  induction l as [|x l IH]; [reflexivity|]. cbn [filter]. rewrite (cnt_cons (fun x => Q x && P x)).
  destruct (Q x); cbn [andb b2z]; [rewrite cnt_cons|]; lia.
Qed.
Lemma lenZ_filter {X} (P : X -> bool) l : lenZ (filter P l) = cnt P l.
Proof. reflexivity. Qed.
Lemma cnt_app {X} (P : X -> bool) l1 l2 : cnt P (l1 ++ l2) = cnt P l1 + cnt P l2.
Proof. induction l1 as [|x l IH]; [cbn [app]; rewrite cnt_nil; lia|]. cbn [app]. rewrite !cnt_cons, IH. lia. Qed.
Lemma sumZ_cons x l : sumZ (x :: l) = x + sumZ l.
Proof. reflexivity. Qed.
Lemma sumZ_b2z {X} (P : X -> bool) l : sumZ (map (fun x => b2z (P x)) l) = cnt P l.
Proof. induction l as [|x l IH]; [reflexivity|]. cbn [map]. rewrite sumZ_cons, IH, cnt_cons. reflexivity. Qed.
Lemma cnt_true {X} (l : list X) : cnt (fun _ => true) l = lenZ l.
Proof. induction l as [|x l IH]; [reflexivity|]. rewrite cnt_cons, IH, lenZ_cons. reflexivity. Qed.
Lemma lenZ_map {X Y} (f : X -> Y) l : lenZ (map f l) = lenZ l.
Proof. unfold lenZ. rewrite map_length. reflexivity. Qed.

(* ------------------------------------------------------------------------------------------ *)
(* thresholding: a score exactly at the threshold is positive                                  *)
(* ------------------------------------------------------------------------------------------ *)
Lemma thresh_spec t s : thresh t s = b2z (t <=? s).
Proof. unfold thresh. destruct (Z.ltb_spec s t), (Z.leb_spec t s); cbn; lia. Qed.
Lemma thresh_at t : thresh t t = 1.
Proof. rewrite thresh_spec, Z.leb_refl. reflexivity. Qed.
Lemma bin_pairs_eq t b : bin_pairs t b = bin_pairs_spec t b.
Proof. unfold bin_pairs, bin_pairs_spec. f_equal. apply map_ext. intros s. apply thresh_spec. Qed.

(* ------------------------------------------------------------------------------------------ *)
(* argmax = the first maximal index                                                            *)
(* ------------------------------------------------------------------------------------------ *)
Definition is_first_max (row : list Z) (i : nat) : Prop :=
  (i < List.length row)%nat /\ (forall x, In x row -> x <= nth i row 0) /\ (forall j, (j < i)%nat -> nth j row 0 < nth i row 0).

Lemma argmax_go_spec : forall l pre best bi,
  (bi < List.length pre)%nat -> nth bi pre 0 = best ->
  (forall x, In x pre -> x <= best) -> (forall j, (j < bi)%nat -> nth j pre 0 < best) ->
  exists i, argmax_go best (Z.of_nat bi) (Z.of_nat (List.length pre)) l = Z.of_nat i /\ is_first_max (pre ++ l) i.
Proof.
  induction l as [|x l IH]; intros pre best bi Hbi Hb Hle Hlt; cbn [argmax_go].
  - exists bi. rewrite app_nil_r. split; [reflexivity|]. unfold is_first_max. rewrite Hb. auto.
  - destruct (Z.ltb_spec best x) as [Hx|Hx].
    + destruct (IH (pre ++ [x]) x (List.length pre)) as [i [Hi Hf]].
      * rewrite app_length. cbn. lia.
      * rewrite app_nth2 by lia. rewrite Nat.sub_diag. reflexivity.
      * intros y Hy. apply in_app_or in Hy as [Hy|[Hy|[]]]; [specialize (Hle y Hy); lia|lia].
      * intros j Hj. rewrite app_nth1 by lia.
        assert (Hin : In (nth j pre 0) pre) by (apply nth_In; lia). specialize (Hle _ Hin). lia.
      * exists i. rewrite app_length in Hi. cbn [List.length] in Hi. rewrite Nat2Z.inj_add in Hi. cbn in Hi.
        rewrite <- app_assoc in Hf. cbn [app] in Hf. split; [exact Hi|exact Hf].
    + destruct (IH (pre ++ [x]) best bi) as [i [Hi Hf]].
      * rewrite app_length. cbn. lia.
      * rewrite app_nth1 by lia. exact Hb.
      * intros y Hy. apply in_app_or in Hy as [Hy|[Hy|[]]]; [apply Hle; exact Hy|lia].
      * intros j Hj. rewrite app_nth1 by lia. apply Hlt. exact Hj.
      * exists i. rewrite app_length in Hi. cbn [List.length] in Hi. rewrite Nat2Z.inj_add in Hi. cbn in Hi.
        rewrite <- app_assoc in Hf. cbn [app] in Hf. split; [exact Hi|exact Hf].
Qed.
Lemma argmax_is_first_max row : row <> [] -> exists i, argmax row = Z.of_nat i /\ is_first_max row i.
Proof.
  destruct row as [|x r]; [congruence|]. intros _. unfold argmax.
  destruct (argmax_go_spec r [x] x 0%nat) as [i [Hi Hf]].
  - cbn. lia.
  - reflexivity.
  - intros y [Hy|[]]. lia.
  - intros j Hj. lia.
  - exists i. split; [exact Hi|exact Hf].
Qed.
Lemma first_max_unique row i j : is_first_max row i -> is_first_max row j -> i = j.
Proof.
  intros [Hi [Hia Hib]] [Hj [Hja Hjb]].
  destruct (Nat.lt_trichotomy i j) as [H|[H|H]]; [|exact H|].
  - specialize (Hjb i H). assert (Hin : In (nth j row 0) row) by (apply nth_In; lia). specialize (Hia _ Hin). lia.
  - specialize (Hib j H). assert (Hin : In (nth i row 0) row) by (apply nth_In; lia). specialize (Hja _ Hin). lia.
Qed.
(* the executable spec [first_max] returns the first maximal index *)
Lemma find_first : forall (P : nat -> bool) l i, find P l = Some i ->
  exists pre post, l = pre ++ i :: post /\ P i = true /\ forall j, In j pre -> P j = false.
Proof.
  induction l as [|x l IH]; intros i H; cbn [find] in H; [discriminate|].
  destruct (P x) eqn:E.
  - inversion H; subst. exists [], l. split; [reflexivity|]. split; [exact E|intros j []].
  - destruct (IH i H) as [pre [post [Hl [Hp Hn]]]]. exists (x :: pre), post. subst. split; [reflexivity|].
    split; [exact Hp|]. intros j [Hj|Hj]; [subst; exact E|apply Hn; exact Hj].
Qed.
Lemma first_max_is_first_max row i : is_first_max row i -> first_max row = Z.of_nat i.
Proof.
  intros Hf. unfold first_max.
  set (P := fun i => forallb (fun x => x <=? nth i row 0) row).
  assert (HP : forall k, P k = true <-> (forall x, In x row -> x <= nth k row 0)).
  { intros k. unfold P. rewrite forallb_forall. split; intros H x Hx; specialize (H x Hx); lia. }
  destruct Hf as [Hi [Ha Hb]].
  destruct (find P (seq 0 (List.length row))) as [k|] eqn:E.
  - destruct (find_first _ _ _ E) as [pre [post [Hl [Hp Hn]]]].
    f_equal. apply (first_max_unique row); [|split; [exact Hi|split; [exact Ha|exact Hb]]].
    assert (Hk : In k (seq 0 (List.length row))) by (rewrite Hl; apply in_or_app; right; left; reflexivity).
    apply in_seq in Hk. split; [lia|]. split; [exact (proj1 (HP k) Hp)|].
    intros j Hj.
    assert (Hjpre : In j pre).
    { assert (Hpre : forall pre s n, seq s n = pre ++ k :: post -> pre = seq s (k - s)).
      { clear. induction pre as [|p pre IH]; intros s n Hl.
        - destruct n; cbn in Hl; [discriminate|]. inversion Hl; subst. rewrite Nat.sub_diag. reflexivity.
        - destruct n; cbn in Hl; [discriminate|]. inversion Hl as [[Hs Hr]]. subst p.
          pose proof (IH (S s) n Hr) as IH'. assert (Hk : (S s <= k)%nat).
          { assert (Hin : In k (seq (S s) n)) by (rewrite Hr; apply in_or_app; right; left; reflexivity). apply in_seq in Hin. lia. }
          replace (k - s)%nat with (S (k - S s)) by lia. cbn [seq]. f_equal. exact IH'. }
      rewrite (Hpre pre 0%nat _ Hl). replace (k - 0)%nat with k by lia. apply in_seq. lia. }
    specialize (Hn j Hjpre).
    destruct (Z.lt_ge_cases (nth j row 0) (nth k row 0)) as [Hlt|Hge]; [exact Hlt|].
    exfalso. assert (HPj : P j = true).
    { apply HP. intros x Hx. pose proof (proj1 (HP k) Hp x Hx) as Hpx. lia. }
    congruence.
  - exfalso. assert (Hin : In i (seq 0 (List.length row))) by (apply in_seq; lia).
    pose proof (find_none _ _ E i Hin) as Hnone. pose proof (proj2 (HP i) Ha) as Hai. congruence.
Qed.
Theorem argmax_eq_first_max row : argmax row = first_max row.
Proof.
  destruct row as [|x r] eqn:E; [reflexivity|].
  destruct (argmax_is_first_max (x :: r)) as [i [Hi Hf]]; [congruence|].
  rewrite Hi. symmetry. apply first_max_is_first_max. exact Hf.
Qed.
Lemma preds_eq i : preds i = preds_spec i.
Proof. destruct i as [l|rows]; [reflexivity|]. cbn. apply map_ext. intros r. apply argmax_eq_first_max. Qed.
Lemma pairs_eq b : pairs b = pairs_spec b.
Proof. unfold pairs, pairs_spec. rewrite preds_eq. reflexivity. Qed.
