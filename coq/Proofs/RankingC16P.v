(* C16 lemmas for the ranking family: queries / tasks / samples decompose. *)
From Coq Require Import ZArith List Bool QArith Qcanon String Lia Permutation.
From TE Require Import Base.Val Base.Nd Base.Xq Algebra.Metric Algebra.MergeTree Algebra.Pool
  Algebra.Additive Models.Ranking Proofs.RankingP Proofs.RankingAlgP.
Import ListNotations.
Open Scope list_scope.
Open Scope nat_scope.

(* ==========================================================================================
   1. retrieval classes: query q of a num_queries metric = the single-query metric on the items
      whose index is q
   ========================================================================================== *)
Definition with_nq (c : rcfg) (n : nat) : rcfg := Build_rcfg (r_act c) (r_k c) (r_lim c) n (r_macro c) (r_den c).
(* the `indexes == q` partition of a batch, as a batch for a single-query metric *)
Definition restrict (c : rcfg) (q : nat) (b : rbatch) : rbatch :=
  let its := rsel_items c q b in (map fst its, map snd its, None).
Definition rvals (recall : bool) (c : rcfg) (s : rstate) : list (option xq) := map (rquery recall c) s.
Definition rrun (recall : bool) (c : rcfg) (bs : list rbatch) : rstate :=
  fold_left (upd (retr_metric recall) c) bs (init (retr_metric recall) c).

Lemma combine_fst_snd {X Y} : forall l : list (X * Y), combine (map fst l) (map snd l) = l.
Proof. induction l as [|[x y] l IH]; [reflexivity|]. cbn. rewrite IH. reflexivity. Qed.
Lemma rdata_restrict c q bs : rdata (with_nq c 1) 0 (map (restrict c q) bs) = rdata c q bs.
Proof.
  unfold rdata. rewrite flat_map_concat_map, map_map, <- flat_map_concat_map.
  induction bs as [|b bs IH]; [reflexivity|]. cbn [flat_map]. rewrite IH. f_equal.
  unfold rsel, restrict. cbn [with_nq r_nq Nat.eqb rb_in rb_tg fst snd]. apply combine_fst_snd.
Qed.
Lemma rquery_with_nq recall c n l : rquery recall (with_nq c n) l = rquery recall c l.
Proof. reflexivity. Qed.
Lemma rvals_nth recall c bs q : q < r_nq c ->
  nth q (rvals recall c (rrun recall c bs)) None = rquery recall c (topk (r_k c) (rdata c q bs)).
Proof.
  intros Hq. unfold rvals, rrun.
  rewrite (nth_map_lt (rquery recall c) None []).
  - rewrite (retr_class_state recall c bs q Hq). reflexivity.
  - change (q < List.length (fold_left (rupd c) bs (repeat [] (r_nq c)))). rewrite rupd_fold_length, repeat_length. exact Hq.
Qed.
Theorem retrieval_query_decomposes_lem recall c bs q : q < r_nq c ->
  nth q (rvals recall c (rrun recall c bs)) None =
  nth 0 (rvals recall (with_nq c 1) (rrun recall (with_nq c 1) (map (restrict c q) bs))) None.
Proof.
  intros Hq. rewrite (rvals_nth recall c bs q Hq).
  rewrite (rvals_nth recall (with_nq c 1) (map (restrict c q) bs) 0) by (cbn; lia).
  rewrite rdata_restrict. reflexivity.
Qed.
(* the value of query q depends only on the items routed to q (their order within q, not how they are
   interleaved with other queries' items inside or across batches) *)
Lemma retrieval_query_only_own_items recall c bs bs' q : q < r_nq c ->
  Permutation (rdata c q bs) (rdata c q bs') ->
  nth q (rvals recall c (rrun recall c bs)) None = nth q (rvals recall c (rrun recall c bs')) None.
Proof. intros Hq Hp. rewrite !rvals_nth by exact Hq. rewrite (topk_perm_inv _ _ _ Hp). reflexivity. Qed.
(* compute() assembles the per-query values: vector for avg none; nan-ignoring mean for "macro";
   raises iff some query raises (empty_target_action = "err") *)
Lemma rcmp_assembles recall c s : rcmp recall c s = rfinish c (rvals recall c s).
Proof. reflexivity. Qed.
Lemma rfinish_none c qs l : r_macro c = false -> omap (fun x => x) qs = Some l -> rfinish c qs = RVec l.
Proof. intros Hm Hq. unfold rfinish. rewrite Hq, Hm. reflexivity. Qed.
Lemma rfinish_macro c qs l : r_macro c = true -> omap (fun x => x) qs = Some l ->
  rfinish c qs = RAvg (xmean (filter (fun x => negb (is_nan x)) l)).
Proof. intros Hm Hq. unfold rfinish. rewrite Hq, Hm. reflexivity. Qed.

(* ==========================================================================================
   2. hit rate / reciprocal rank: sample i's value depends only on row i
   ========================================================================================== *)
Lemma hit_rowlocal k b b' i : i < List.length b -> i < List.length b' -> nth i b ([], 0%Z) = nth i b' ([], 0%Z) ->
  nth i (hit_fn k b) 0%Qc = nth i (hit_fn k b') 0%Qc.
Proof.
  intros H H' E. unfold hit_fn.
  rewrite (nth_map_lt (hit_one k) 0%Qc ([], 0%Z) b i H), (nth_map_lt (hit_one k) 0%Qc ([], 0%Z) b' i H'). f_equal. exact E.
Qed.
Lemma rr_rowlocal k b b' i : i < List.length b -> i < List.length b' -> nth i b ([], 0%Z) = nth i b' ([], 0%Z) ->
  nth i (rr_fn k b) 0%Qc = nth i (rr_fn k b') 0%Qc.
Proof.
  intros H H' E. unfold rr_fn.
  rewrite (nth_map_lt (rr_one k) 0%Qc ([], 0%Z) b i H), (nth_map_lt (rr_one k) 0%Qc ([], 0%Z) b' i H'). f_equal. exact E.
Qed.
Lemma hit_is_single k b i : i < List.length b -> nth i (hit_fn k b) 0%Qc = nth 0 (hit_fn k [nth i b ([], 0%Z)]) 0%Qc.
Proof. intros H. unfold hit_fn. rewrite (nth_map_lt (hit_one k) 0%Qc ([], 0%Z)) by exact H. reflexivity. Qed.
Lemma rr_is_single k b i : i < List.length b -> nth i (rr_fn k b) 0%Qc = nth 0 (rr_fn k [nth i b ([], 0%Z)]) 0%Qc.
Proof. intros H. unfold rr_fn. rewrite (nth_map_lt (rr_one k) 0%Qc ([], 0%Z)) by exact H. reflexivity. Qed.
