(* C16 lemmas for the ranking family: queries / tasks / samples decompose. *)
From Coq Require Import ZArith List Bool QArith Qcanon String Lia Permutation.
From TE Require Import Base.Val Base.Nd Base.Xq Algebra.Metric Algebra.MergeTree Algebra.Pool
  Algebra.Additive Models.Ranking Proofs.RankingP Proofs.RankingAlgP.
Import ListNotations.
Open Scope list_scope.
Open Scope nat_scope.

(* ==========================================================================================
   1. retrieval classes: query q of a num_queries metric = the single-query metric on the items
      whose index is q
   ========================================================================================== *)
Definition with_nq (c : rcfg) (n : nat) : rcfg := Build_rcfg (r_act c) (r_k c) (r_lim c) n (r_macro c) (r_den c).
(* the `indexes == q` partition of a batch, as a batch for a single-query metric *)
Definition restrict (c : rcfg) (q : nat) (b : rbatch) : rbatch :=
  let its := rsel_items c q b in (map fst its, map snd its, None).
Definition rvals (recall : bool) (c : rcfg) (s : rstate) : list (option xq) := map (rquery recall c) s.
Definition rrun (recall : bool) (c : rcfg) (bs : list rbatch) : rstate :=
  fold_left (upd (retr_metric recall) c) bs (init (retr_metric recall) c).

Lemma combine_fst_snd {X Y} : forall l : list (X * Y), combine (map fst l) (map snd l) = l.
Proof. induction l as [|[x y] l IH]; [reflexivity|]. cbn. rewrite IH. reflexivity. Qed.
Lemma rdata_restrict c q bs : rdata (with_nq c 1) 0 (map (restrict c q) bs) = rdata c q bs.
Proof.
  unfold rdata. rewrite flat_map_concat_map, map_map, <- flat_map_concat_map.
  induction bs as [|b bs IH]; [reflexivity|]. cbn [flat_map]. rewrite IH. f_equal.
  unfold rsel, restrict. cbn [with_nq r_nq Nat.eqb rb_in rb_tg fst snd]. apply combine_fst_snd.
Qed.
Lemma rquery_with_nq recall c n l : rquery recall (with_nq c n) l = rquery recall c l.
Proof. reflexivity. Qed.
Lemma rvals_nth recall c bs q : q < r_nq c ->
  nth q (rvals recall c (rrun recall c bs)) None = rquery recall c (topk (r_k c) (rdata c q bs)).
Proof.
  intros Hq. unfold rvals, rrun.
  rewrite (nth_map_lt (rquery recall c) None []).
  - rewrite (retr_class_state recall c bs q Hq). reflexivity.
  - change (q < List.length (fold_left (rupd c) bs (repeat [] (r_nq c)))). rewrite rupd_fold_length, repeat_length. exact Hq.
Qed.
Theorem retrieval_query_decomposes_lem recall c bs q : q < r_nq c ->
  nth q (rvals recall c (rrun recall c bs)) None =
  nth 0 (rvals recall (with_nq c 1) (rrun recall (with_nq c 1) (map (restrict c q) bs))) None.
Proof.
  intros Hq. rewrite (rvals_nth recall c bs q Hq).
  rewrite (rvals_nth recall (with_nq c 1) (map (restrict c q) bs) 0) by (cbn; lia).
  rewrite rdata_restrict. reflexivity.
Qed.
(* the value of query q depends only on the items routed to q (their order within q, not how they are
   interleaved with other queries' items inside or across batches) *)
Lemma retrieval_query_only_own_items recall c bs bs' q : q < r_nq c ->
  Permutation (rdata c q bs) (rdata c q bs') ->
  nth q (rvals recall c (rrun recall c bs)) None = nth q (rvals recall c (rrun recall c bs')) None.
Proof. intros Hq Hp. rewrite !rvals_nth by exact Hq. rewrite (topk_perm_inv _ _ _ Hp). reflexivity. Qed.
(* compute() assembles the per-query values: vector for avg none; nan-ignoring mean for "macro";
   raises iff some query raises (empty_target_action = "err") *)
Lemma rcmp_assembles recall c s : rcmp recall c s = rfinish c (rvals recall c s).
Proof. reflexivity. Qed.
Lemma rfinish_none c qs l : r_macro c = false -> omap (fun x => x) qs = Some l -> rfinish c qs = RVec l.
Proof. intros Hm Hq. unfold rfinish. rewrite Hq, Hm. reflexivity. Qed.
Lemma rfinish_macro c qs l : r_macro c = true -> omap (fun x => x) qs = Some l ->
  rfinish c qs = RAvg (xmean (filter (fun x => negb (is_nan x)) l)).
Proof. intros Hm Hq. unfold rfinish. rewrite Hq, Hm. reflexivity. Qed.

(* ==========================================================================================
   2. hit rate / reciprocal rank: sample i's value depends only on row i
   ========================================================================================== *)
Lemma hit_rowlocal k b b' i : i < List.length b -> i < List.length b' -> nth i b ([], 0%Z) = nth i b' ([], 0%Z) ->
  nth i (hit_fn k b) 0%Qc = nth i (hit_fn k b') 0%Qc.
Proof.
  intros H H' E. unfold hit_fn.
  rewrite (nth_map_lt (hit_one k) 0%Qc ([], 0%Z) b i H), (nth_map_lt (hit_one k) 0%Qc ([], 0%Z) b' i H'). f_equal. exact E.
Qed.
Lemma rr_rowlocal k b b' i : i < List.length b -> i < List.length b' -> nth i b ([], 0%Z) = nth i b' ([], 0%Z) ->
  nth i (rr_fn k b) 0%Qc = nth i (rr_fn k b') 0%Qc.
Proof.
  intros H H' E. unfold rr_fn.
  rewrite (nth_map_lt (rr_one k) 0%Qc ([], 0%Z) b i H), (nth_map_lt (rr_one k) 0%Qc ([], 0%Z) b' i H'). f_equal. exact E.
Qed.
Lemma hit_is_single k b i : i < List.length b -> nth i (hit_fn k b) 0%Qc = nth 0 (hit_fn k [nth i b ([], 0%Z)]) 0%Qc.
Proof. intros H. unfold hit_fn. rewrite (nth_map_lt (hit_one k) 0%Qc ([], 0%Z)) by exact H. reflexivity. Qed.
Lemma rr_is_single k b i : i < List.length b -> nth i (rr_fn k b) 0%Qc = nth 0 (rr_fn k [nth i b ([], 0%Z)]) 0%Qc.
Proof. intros H. unfold rr_fn. rewrite (nth_map_lt (rr_one k) 0%Qc ([], 0%Z)) by exact H. reflexivity. Qed.

(* ==========================================================================================
   3. ClickThroughRate / WeightedCalibration: task i = the single-task metric on row i
   ========================================================================================== *)
Local Open Scope Qc_scope.
Lemma nth_map2 {X Y Z} (f : X -> Y -> Z) dx dy dz : forall a b i, (i < List.length a)%nat -> (i < List.length b)%nat ->
  nth i (map2 f a b) dz = f (nth i a dx) (nth i b dy).
Proof.
  induction a as [|x a IH]; intros [|y b] i Ha Hb; cbn in Ha, Hb; try lia. destruct i; cbn [map2 nth]; [reflexivity|].
  apply IH; lia.
Qed.
Lemma nth_fold_plus i : forall Ls a, Forall (fun L => (i < List.length L)%nat) Ls -> (i < List.length a)%nat ->
  (i < List.length (fold_left (map2 Qcplus) Ls a))%nat /\
  nth i (fold_left (map2 Qcplus) Ls a) 0 = fold_left Qcplus (map (fun L => nth i L 0) Ls) (nth i a 0).
Proof.
  induction Ls as [|L Ls IH]; intros a HL Ha; cbn [fold_left map]; [split; [exact Ha|reflexivity]|].
  inversion HL as [|? ? H1 H2]; subst.
  assert (Hm : (i < List.length (map2 Qcplus a L))%nat) by (rewrite map2_length; lia).
  destruct (IH _ H2 Hm) as [I1 I2]. split; [exact I1|]. rewrite I2, (nth_map2 Qcplus 0 0 0) by assumption. reflexivity.
Qed.

Section TwoVec.
Variable B : Type.
Variables F G : B -> list Qc.
Definition beta2 (b : B) : nd := Arr [nvec (F b); nvec (G b)].
Lemma fold_beta2 : forall bs a g,
  fold_left (fun s b => nadd s (beta2 b)) bs (Arr [nvec a; nvec g]) =
  Arr [nvec (fold_left (map2 Qcplus) (map F bs) a); nvec (fold_left (map2 Qcplus) (map G bs) g)].
Proof.
  induction bs as [|b bs IH]; intros a g; cbn [fold_left map]; [reflexivity|].
  unfold beta2 at 2. rewrite nadd_pairvec. apply IH.
Qed.
End TwoVec.

(* row i of a batch as a single-task batch *)
Definition row_w (i : nat) (w : rk_w) : rk_w := match w with WSc w => WSc w | WTen ws => WTen [nth i ws []] end.
Definition ctr_row (i : nat) (b : ctr_batch) : ctr_batch := ([nth i (fst b) []], row_w i (snd b)).
Lemma wdot_row i w xs : wdot (row_w i w) 0 xs = wdot w i xs.
Proof. destruct w; reflexivity. Qed.
Lemma wtotal_row i w xs : wtotal (row_w i w) 0 xs = wtotal w i xs.
Proof. destruct w; reflexivity. Qed.
Lemma nth_mapi_Q (h : nat -> list Qc -> Qc) rows i : (i < List.length rows)%nat -> nth i (mapi h rows) 0 = h i (nth i rows []).
Proof. intros H. apply (nth_mapi h 0 []). exact H. Qed.

Definition ctr_sums (nt : nat) (bs : list ctr_batch) : list Qc * list Qc :=
  (fold_left (map2 Qcplus) (map (fun b => mapi (wdot (snd b)) (fst b)) bs) (repeat 0 nt),
   fold_left (map2 Qcplus) (map (fun b => mapi (wtotal (snd b)) (fst b)) bs) (repeat 0 nt)).
Lemma ctr_state nt bs : fold_left (upd ctr_metric nt) bs (init ctr_metric nt) =
  Arr [nvec (fst (ctr_sums nt bs)); nvec (snd (ctr_sums nt bs))].
Proof.
  change (upd ctr_metric nt) with (fun s b => nadd s (beta2 ctr_batch (fun b => mapi (wdot (snd b)) (fst b)) (fun b => mapi (wtotal (snd b)) (fst b)) b)).
  change (init ctr_metric nt) with (Arr [nvec (repeat 0 nt); nvec (repeat 0 nt)]).
  apply fold_beta2.
Qed.
Lemma nth_repeat0 i n : nth i (repeat 0%Qc n) 0%Qc = 0%Qc.
Proof. revert i. induction n; intros [|i]; cbn; try reflexivity. apply IHn. Qed.
Lemma rows_len nt b : ctr_valid nt b = true -> List.length (fst b) = nt.
Proof. intros H. apply ctr_valid_parts in H as [H _]. apply rows_ok_uniform in H. tauto. Qed.
(* the accumulated sums of task i *)
Lemma ctr_sums_nth nt bs i : (i < nt)%nat -> Forall (fun b => ctr_valid nt b = true) bs ->
  ((i < List.length (fst (ctr_sums nt bs)))%nat /\ (i < List.length (snd (ctr_sums nt bs)))%nat) /\
  nth i (fst (ctr_sums nt bs)) 0 = fold_left Qcplus (map (fun b => wdot (snd b) i (nth i (fst b) [])) bs) 0 /\
  nth i (snd (ctr_sums nt bs)) 0 = fold_left Qcplus (map (fun b => wtotal (snd b) i (nth i (fst b) [])) bs) 0.
Proof.
  intros Hi Hv. unfold ctr_sums. cbn [fst snd].
  assert (HL : forall h : rk_w -> nat -> list Qc -> Qc,
            Forall (fun L : list Qc => (i < List.length L)%nat) (map (fun b : ctr_batch => mapi (h (snd b)) (fst b)) bs)).
  { intros h. apply Forall_forall. intros L HLin. apply in_map_iff in HLin as [b [<- Hb]]. rewrite mapi_length.
    rewrite Forall_forall in Hv. rewrite (rows_len nt b (Hv b Hb)). exact Hi. }
  assert (Hr : (i < List.length (repeat (0%Qc) nt))%nat) by (rewrite repeat_length; exact Hi).
  destruct (nth_fold_plus i _ _ (HL wdot) Hr) as [A1 A2]. destruct (nth_fold_plus i _ _ (HL wtotal) Hr) as [B1 B2].
  split; [split; assumption|].
  split; (etransitivity; [first [exact A2 | exact B2]|]); rewrite map_map, nth_repeat0; f_equal; apply map_ext_in; intros b Hb;
    apply nth_mapi_Q; rewrite Forall_forall in Hv; rewrite (rows_len nt b (Hv b Hb)); exact Hi.
Qed.
Lemma rl_nth : forall (ws rows : list (list Qc)) i, List.length ws = List.length rows -> rl_ok ws rows = true ->
  Nat.eqb (List.length (nth i ws [])) (List.length (nth i rows [])) = true.
Proof.
  induction ws as [|x ws IH]; intros [|r rows] i Hl Hr; cbn in Hl; try discriminate.
  - destruct i; reflexivity.
  - unfold rl_ok in Hr. cbn [combine forallb fst snd] in Hr. apply andb_prop in Hr as [H1 H2].
    destruct i as [|i]; [exact H1|]. cbn [nth]. apply IH; [lia|exact H2].
Qed.
Lemma ctr_row_valid nt i b : ctr_valid nt b = true -> (i < nt)%nat -> ctr_valid 1%nat (ctr_row i b) = true.
Proof.
  intros Hv Hi. apply ctr_valid_parts in Hv as [_ Hw].
  unfold ctr_valid, ctr_row, rows_ok. cbn [fst snd List.length Nat.eqb forallb andb]. rewrite Nat.eqb_refl. cbn [andb].
  destruct (snd b) as [w|ws]; [reflexivity|]. cbn [row_w w_ok] in *. apply shape_eq_parts in Hw as [Hwl Hwr].
  unfold shape_eq. cbn [List.length Nat.eqb combine forallb fst snd andb]. rewrite andb_true_r.
  apply rl_nth; assumption.
Qed.
Theorem ctr_task_slice nt bs i : (i < nt)%nat -> Forall (fun b => ctr_valid nt b = true) bs ->
  nth i (cmp ctr_metric nt (fold_left (upd ctr_metric nt) bs (init ctr_metric nt))) 0 =
  nth 0%nat (cmp ctr_metric 1%nat (fold_left (upd ctr_metric 1%nat) (map (ctr_row i) bs) (init ctr_metric 1%nat))) 0.
Proof.
  intros Hi Hv.
  assert (Hv1 : Forall (fun b => ctr_valid 1%nat b = true) (map (ctr_row i) bs)).
  { apply Forall_forall. intros b Hb. apply in_map_iff in Hb as [b0 [<- Hb0]]. rewrite Forall_forall in Hv.
    apply (ctr_row_valid nt); [apply Hv, Hb0|exact Hi]. }
  rewrite !ctr_state. change (cmp ctr_metric nt) with (ctr_gamma nt). change (cmp ctr_metric 1%nat) with (ctr_gamma 1%nat).
  unfold ctr_gamma, nget. cbn [narr nth]. rewrite !nlist_nvec.
  destruct (ctr_sums_nth nt bs i Hi Hv) as [[L1 L2] [S1 S2]].
  destruct (ctr_sums_nth 1%nat (map (ctr_row i) bs) 0%nat (Nat.lt_0_1) Hv1) as [[L1' L2'] [S1' S2']].
  rewrite !(nth_map2 (ctr_ratio tiny64) 0 0 0) by assumption. rewrite S1, S2, S1', S2', !map_map.
  f_equal; f_equal; apply map_ext; intros b; unfold ctr_row; cbn [fst snd nth]; [apply eq_sym, wdot_row|apply eq_sym, wtotal_row].
Qed.

(* ---- WeightedCalibration ---- *)
Lemma sums_nth {B} (F : B -> list Qc) nt bs i : (i < nt)%nat -> Forall (fun b => List.length (F b) = nt) bs ->
  (i < List.length (fold_left (map2 Qcplus) (map F bs) (repeat 0%Qc nt)))%nat /\
  nth i (fold_left (map2 Qcplus) (map F bs) (repeat 0%Qc nt)) 0 = fold_left Qcplus (map (fun b => nth i (F b) 0) bs) 0.
Proof.
  intros Hi Hl.
  assert (HL : Forall (fun L : list Qc => (i < List.length L)%nat) (map F bs)).
  { apply Forall_forall. intros L HLin. apply in_map_iff in HLin as [b [<- Hb]]. rewrite Forall_forall in Hl. rewrite (Hl b Hb). exact Hi. }
  assert (Hr : (i < List.length (repeat 0%Qc nt))%nat) by (rewrite repeat_length; exact Hi).
  destruct (nth_fold_plus i _ _ HL Hr) as [A1 A2]. split; [exact A1|]. rewrite A2, map_map, nth_repeat0. reflexivity.
Qed.
Definition wc_row (i : nat) (b : wc_batch) : wc_batch := ([nth i (wc_in b) []], [nth i (wc_tg b) []], row_w i (snd b)).
Definition wc_Fin (b : wc_batch) := mapi (wdot (snd b)) (wc_in b).
Definition wc_Ftg (b : wc_batch) := mapi (wdot (snd b)) (wc_tg b).
Definition wc_sums (nt : nat) (bs : list wc_batch) : list Qc * list Qc :=
  (fold_left (map2 Qcplus) (map wc_Fin bs) (repeat 0%Qc nt), fold_left (map2 Qcplus) (map wc_Ftg bs) (repeat 0%Qc nt)).
Lemma wc_state nt bs : fold_left (upd wc_metric nt) bs (init wc_metric nt) =
  Arr [nvec (fst (wc_sums nt bs)); nvec (snd (wc_sums nt bs))].
Proof.
  change (upd wc_metric nt) with (fun s b => nadd s (beta2 wc_batch wc_Fin wc_Ftg b)).
  change (init wc_metric nt) with (Arr [nvec (repeat 0%Qc nt); nvec (repeat 0%Qc nt)]).
  apply fold_beta2.
Qed.
Lemma wc_lens nt b : wc_valid nt b = true -> List.length (wc_Fin b) = nt /\ List.length (wc_Ftg b) = nt.
Proof.
  intros H. apply wc_valid_parts in H as [R [S _]]. apply rows_ok_uniform in R as [L _]. apply shape_eq_parts in S as [SL _].
  unfold wc_Fin, wc_Ftg. rewrite !mapi_length. split; congruence.
Qed.
(* the accumulated sums of task i, and of the single-task metric on row i: the same numbers *)
Definition wc_Ci (i : nat) (bs : list wc_batch) : Qc := fold_left Qcplus (map (fun b => wdot (snd b) i (nth i (wc_in b) [])) bs) 0.
Definition wc_Ti (i : nat) (bs : list wc_batch) : Qc := fold_left Qcplus (map (fun b => wdot (snd b) i (nth i (wc_tg b) [])) bs) 0.
Lemma wc_sums_nth nt bs i : (i < nt)%nat -> Forall (fun b => wc_valid nt b = true) bs ->
  ((i < List.length (fst (wc_sums nt bs)))%nat /\ (i < List.length (snd (wc_sums nt bs)))%nat) /\
  nth i (fst (wc_sums nt bs)) 0 = wc_Ci i bs /\ nth i (snd (wc_sums nt bs)) 0 = wc_Ti i bs.
Proof.
  intros Hi Hv. unfold wc_sums. cbn [fst snd].
  assert (H1 : Forall (fun b => List.length (wc_Fin b) = nt) bs) by (eapply Forall_impl; [|exact Hv]; intros b Hb; apply (wc_lens nt b Hb)).
  assert (H2 : Forall (fun b => List.length (wc_Ftg b) = nt) bs) by (eapply Forall_impl; [|exact Hv]; intros b Hb; apply (wc_lens nt b Hb)).
  destruct (sums_nth wc_Fin nt bs i Hi H1) as [A1 A2]. destruct (sums_nth wc_Ftg nt bs i Hi H2) as [B1 B2].
  split; [split; assumption|]. rewrite A2, B2. unfold wc_Ci, wc_Ti.
  split; f_equal; apply map_ext_in; intros b Hb; rewrite Forall_forall in Hv; destruct (wc_lens nt b (Hv b Hb)) as [L1 L2];
    unfold wc_Fin, wc_Ftg in *; rewrite mapi_length in L1, L2; apply nth_mapi_Q; lia.
Qed.
Lemma wc_single_sums bs i :
  wc_sums 1%nat (map (wc_row i) bs) = ([wc_Ci i bs], [wc_Ti i bs]).
Proof.
  unfold wc_sums, wc_Ci, wc_Ti. rewrite !map_map. cbn [repeat].
  assert (G : forall (f g : wc_batch -> Qc) l a, fold_left (map2 Qcplus) (map (fun b => [f b]) l) [a] = [fold_left Qcplus (map f l) a]).
  { intros f g l. induction l as [|b l IH]; intros a; cbn [map fold_left map2]; [reflexivity|]. apply IH. }
  f_equal.
  - rewrite <- (G (fun b => wdot (snd b) i (nth i (wc_in b) [])) (fun _ => 0)). f_equal. apply map_ext. intros b.
    unfold wc_Fin, wc_row, wc_in, mapi. cbn [fst snd mapi_from]. rewrite wdot_row. reflexivity.
  - rewrite <- (G (fun b => wdot (snd b) i (nth i (wc_tg b) [])) (fun _ => 0)). f_equal. apply map_ext. intros b.
    unfold wc_Ftg, wc_row, wc_tg, mapi. cbn [fst snd mapi_from]. rewrite wdot_row. reflexivity.
Qed.
(* task i of the multi-task class = the single-task class on row i, unless row i accumulated nothing
   (then the single-task class returns the EMPTY tensor while task i of the multi-task class is 0/0 = nan) *)
Theorem wc_task_slice nt bs i : (i < nt)%nat -> Forall (fun b => wc_valid nt b = true) bs ->
  (wc_Ci i bs <> 0 \/ wc_Ti i bs <> 0) ->
  nth i (cmp wc_metric nt (fold_left (upd wc_metric nt) bs (init wc_metric nt))) NaN =
  nth 0%nat (cmp wc_metric 1%nat (fold_left (upd wc_metric 1%nat) (map (wc_row i) bs) (init wc_metric 1%nat))) NaN.
Proof.
  intros Hi Hv Hnz. rewrite !wc_state, wc_single_sums. cbn [fst snd].
  change (cmp wc_metric nt) with (wc_gamma nt). change (cmp wc_metric 1%nat) with (wc_gamma 1%nat).
  destruct (wc_sums_nth nt bs i Hi Hv) as [[L1 L2] [S1 S2]].
  assert (Hq : forall x : Qc, x <> 0 -> qeq x 0 = false).
  { intros x Hx. unfold qeq. destruct (Qc_eq_dec x 0); [contradiction|reflexivity]. }
  assert (Hfa : forall l j, (j < List.length l)%nat -> nth j l 0 <> 0 -> forallb (fun x => qeq x 0) l = false).
  { induction l as [|x l IHl]; intros j Hj Hn; [cbn in Hj; lia|]. destruct j as [|j]; cbn [nth forallb] in *.
    - rewrite (Hq x Hn). reflexivity.
    - rewrite (IHl j); [apply andb_false_r|cbn in Hj; lia|exact Hn]. }
  rewrite (wc_gamma_value nt), (wc_gamma_value 1%nat).
  - unfold nget. cbn [narr nth]. rewrite !nlist_nvec. rewrite (nth_map2 qdivx 0 0 NaN) by assumption. rewrite S1, S2. reflexivity.
  - unfold wc_nothing, nget. cbn [narr nth]. rewrite !nlist_nvec. cbn [forallb]. destruct Hnz as [H|H]; rewrite (Hq _ H); cbn; [apply andb_false_r|reflexivity].
  - unfold wc_nothing, nget. cbn [narr nth]. rewrite !nlist_nvec.
    destruct Hnz as [H|H]; [rewrite (Hfa (fst (wc_sums nt bs)) i L1) by (rewrite S1; exact H); apply andb_false_r|
                            rewrite (Hfa (snd (wc_sums nt bs)) i L2) by (rewrite S2; exact H); reflexivity].
Qed.
(* witness: task 1 accumulated nothing while task 0 did *)
Lemma wc_all_zero_slice_refuted :
  let b : wc_batch := ([[1]; [0]], [[1]; [0]], WSc 1) in
  wc_valid 2 b = true /\
  map xq_val (cmp wc_metric 2%nat (fold_left (upd wc_metric 2%nat) [b] (init wc_metric 2%nat))) = [VQ 1 1; VT "nan"%string []] /\
  cmp wc_metric 1%nat (fold_left (upd wc_metric 1%nat) [wc_row 1 b] (init wc_metric 1%nat)) = [].
Proof. repeat split; vm_compute; reflexivity. Qed.
