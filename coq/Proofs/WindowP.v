(* Proofs for the windowed (ring-buffer) classes.
   Part A: the update-granular ring buffer refines the "last N updates" queue
           (port of design-probes/WindowRing.v, generic in the per-update statistic).
   Part B: the sample-granular buffer of WindowedBinaryAUROC holds the last N samples
           (port of design-probes/WindowSamples.v).
   Part C: refutation witnesses (zero scores / squeeze; stale cursor after load / reset)
           and the positive statements for the V_fixed variant. *)
From Coq Require Import ZArith List Bool QArith Qcanon String Arith Lia Permutation.
From TE Require Import Base.Val Base.Xq Algebra.Metric Algebra.Pool Models.Curves Models.Window Models.WindowAUROC.
Import ListNotations.
Open Scope list_scope.
Open Scope nat_scope.

(* ------------------------------------------------------------------------------------- *)
(* generic list facts                                                                     *)
(* ------------------------------------------------------------------------------------- *)
Lemma wset_app_skipn {A} : forall (cur P : list A) x,
  List.length cur < List.length P ->
  wset (List.length cur) x (cur ++ skipn (List.length cur) P) = cur ++ x :: skipn (S (List.length cur)) P.
Proof.
  induction cur as [|a cur IH]; intros P x Hl.
  - destruct P; cbn in *; [lia|reflexivity].
  - destruct P as [|p P]; cbn in Hl; [lia|]. cbn [List.length app skipn wset]. f_equal. apply IH. lia.
Qed.

Lemma skipn_skipn' {A} : forall (n m : nat) (l : list A), skipn n (skipn m l) = skipn (m + n) l.
Proof.
  intros n m. revert n. induction m as [|m IH]; intros n l; [reflexivity|].
  destruct l as [|x l]; [rewrite !skipn_nil; reflexivity|]. cbn [skipn Nat.add]. apply IH.
Qed.

Lemma lastn_map {A B} (f : A -> B) n l : lastn n (map f l) = map f (lastn n l).
Proof. unfold lastn. rewrite map_length, skipn_map. reflexivity. Qed.

Lemma in_skipn {A} (x : A) k l : In x (skipn k l) -> In x l.
Proof. intros H. rewrite <- (firstn_skipn k l). apply in_or_app. right. exact H. Qed.

Lemma map_const_seq {A} (a : A) : forall n s, map (fun _ => a) (seq s n) = repeat a n.
Proof. induction n as [|n IH]; intros s; cbn; [reflexivity|]. rewrite IH. reflexivity. Qed.

Lemma nth_map_seq {A} (g : nat -> A) d n t : t < n -> nth t (map g (seq 0 n)) d = g t.
Proof.
  intros Ht. rewrite (nth_indep _ d (g 0)) by (rewrite map_length, seq_length; exact Ht).
  rewrite map_nth, seq_nth by exact Ht. reflexivity.
Qed.

Lemma Forall2_map_same {A B} (R : B -> B -> Prop) (f g : A -> B) l :
  (forall x, In x l -> R (f x) (g x)) -> Forall2 R (map f l) (map g l).
Proof.
  induction l as [|a l IH]; intros H; cbn [map]; constructor.
  - apply H. left. reflexivity.
  - apply IH. intros x Hx. apply H. right. exact Hx.
Qed.

Lemma Forall2_eq {A} (R : A -> A -> Prop) (l l' : list A) :
  (forall x y, R x y -> x = y) -> Forall2 R l l' -> l = l'.
Proof. intros HR. induction 1 as [|x y l l' Hxy _ IH]; [reflexivity|]. rewrite (HR _ _ Hxy), IH. reflexivity. Qed.

(* ------------------------------------------------------------------------------------- *)
(* Part A: update-granular ring buffer                                                    *)
(* ------------------------------------------------------------------------------------- *)
(* what the statistic's addition must satisfy (up to an equivalence Req: equality for the
   rational statistics, permutation of the formal log-terms for normalized entropy) *)
Record WinLaws (W : WinSpec) := {
  Req : wS W -> wS W -> Prop;
  Req_refl : forall x, Req x x;
  Req_trans : forall x y z, Req x y -> Req y z -> Req x z;
  wadd_cong : forall a x y, Req x y -> Req (wadd W a x) (wadd W a y);
  wadd_lcomm : forall a b x, Req (wadd W a (wadd W b x)) (wadd W b (wadd W a x));
  wadd_z : forall x, Req (wadd W (wz W) x) x }.
Arguments Req {W}.

Section RingProofs.
Variable W : WinSpec.
Variable L : WinLaws W.
Variable c : wcfg.
Notation N := (cN c).
Notation col := (list (wS W)).
Notation R := (Req L).

Lemma colsum_cons t x l : colsum W t (x :: l) = wadd W (nth t x (wz W)) (colsum W t l).
Proof. reflexivity. Qed.

Lemma colsum_perm t l l' : Permutation l l' -> R (colsum W t l) (colsum W t l').
Proof.
  induction 1 as [| x l l' _ IH | x y l | l1 l2 l3 _ IH1 _ IH2].
  - apply Req_refl.
  - rewrite !colsum_cons. apply wadd_cong, IH.
  - rewrite !colsum_cons. apply wadd_lcomm.
  - eapply Req_trans; eassumption.
Qed.

Lemma nth_zcol t : nth t (zcol W c) (wz W) = wz W.
Proof. unfold zcol. apply nth_repeat. Qed.

Lemma colsum_zeros t (Z : list col) : (forall x, In x Z -> x = zcol W c) -> R (colsum W t Z) (wz W).
Proof.
  induction Z as [|z Z IH]; intros HZ.
  - apply Req_refl.
  - rewrite colsum_cons, (HZ z (or_introl eq_refl)), nth_zcol.
    eapply Req_trans; [apply wadd_z|]. apply IH. intros x Hx. apply HZ. right. exact Hx.
Qed.

Lemma colsum_app_zeros t (l Z : list col) :
  (forall x, In x Z -> x = zcol W c) -> R (colsum W t (l ++ Z)) (colsum W t l).
Proof.
  intros HZ. induction l as [|x l IH]; cbn [app].
  - eapply Req_trans; [apply colsum_zeros; exact HZ|apply Req_refl].
  - rewrite !colsum_cons. apply wadd_cong, IH.
Qed.

Lemma tsum_R (l l' : list col) :
  (forall t, R (colsum W t l) (colsum W t l')) -> Forall2 R (tsum W c l) (tsum W c l').
Proof. intros H. unfold tsum. apply Forall2_map_same. intros t _. apply H. Qed.

(* representation invariant: history = older ++ prev ++ cur; buffer = cur ++ skipn |cur| prev *)
Definition Inv (h : list col) (s : wst (wS W)) : Prop :=
  w_max s = N /\
  exists older prev cur,
    h = older ++ prev ++ cur /\ List.length cur = w_cur s /\ w_cur s < N /\ w_tot s = List.length h /\
    ((List.length prev = N /\ w_buf s = cur ++ skipn (List.length cur) prev) \/
     (prev = [] /\ older = [] /\ w_buf s = cur ++ skipn (List.length cur) (repeat (zcol W c) N))).

(* lifetime sums: per task, the sum of everything seen (most recent first) *)
Definition LifeInv (h : list col) (s : wst (wS W)) : Prop :=
  cLife c = true -> w_life s = map (fun t => colsum W t (rev h)) (tasks c).

Lemma inv_init : 0 < N -> Inv [] (winit W c).
Proof.
  intros HN. split; [reflexivity|]. exists [], [], []. cbn. repeat split; try lia. right. repeat split.
Qed.
Lemma life_init : LifeInv [] (winit W c).
Proof.
  intros _. cbn [winit w_life rev]. unfold zcol, tasks. symmetry.
  change (fun t : nat => colsum W t []) with (fun _ : nat => wz W). apply map_const_seq.
Qed.

Lemma inv_upd h s b : 0 < N -> Inv h s -> Inv (h ++ [wstat W c b]) (wupd W c s b).
Proof.
  intros HN [Hmax (older & prev & cur & Hh & Hc & HcN & Ht & Hb)].
  set (x := wstat W c b).
  split; [exact Hmax|].
  assert (Hlen : w_tot (wupd W c s b) = List.length (h ++ [x])) by (cbn; rewrite app_length; cbn; lia).
  destruct (Nat.eq_dec (S (w_cur s)) N) as [Hwrap|Hno].
  - exists (older ++ prev), (cur ++ [x]), [].
    cbn [w_cur wupd]. rewrite Hmax, Hwrap, Nat.mod_same by lia.
    split; [|split; [|split; [|split]]].
    + rewrite Hh, !app_nil_r, <- !app_assoc. reflexivity.
    + reflexivity.
    + lia.
    + exact Hlen.
    + left. split; [rewrite app_length; cbn; lia|]. cbn [w_buf wupd app List.length skipn]. rewrite <- Hc.
      fold x.
      destruct Hb as [[Hp ->]|(-> & -> & ->)].
      * rewrite wset_app_skipn by lia. rewrite skipn_all2 by lia. reflexivity.
      * rewrite wset_app_skipn by (rewrite repeat_length; lia).
        rewrite skipn_all2 by (rewrite repeat_length; lia). reflexivity.
  - exists older, prev, (cur ++ [x]).
    cbn [w_cur wupd]. rewrite Hmax, Nat.mod_small by lia.
    split; [|split; [|split; [|split]]].
    + rewrite Hh, <- !app_assoc. reflexivity.
    + rewrite app_length; cbn; lia.
    + lia.
    + exact Hlen.
    + cbn [w_buf wupd]. fold x. rewrite <- Hc.
      destruct Hb as [[Hp ->]|(-> & -> & ->)]; [left; split; [exact Hp|]|right; repeat split];
        rewrite wset_app_skipn by (rewrite ?repeat_length; lia);
        rewrite app_length, <- app_assoc; cbn [List.length app]; rewrite Nat.add_1_r; reflexivity.
Qed.

Lemma life_upd h s b : LifeInv h s -> LifeInv (h ++ [wstat W c b]) (wupd W c s b).
Proof.
  intros Hl Hc. cbn [wupd w_life]. rewrite Hc, (Hl Hc). unfold ladd.
  rewrite rev_app_distr. cbn [rev app].
  apply map_ext_in. intros t Ht. apply in_seq in Ht.
  unfold tasks. rewrite nth_map_seq by lia. reflexivity.
Qed.

Lemma inv_fold us : forall h s, 0 < N -> Inv h s -> LifeInv h s ->
  Inv (h ++ map (wstat W c) us) (fold_left (wupd W c) us s) /\
  LifeInv (h ++ map (wstat W c) us) (fold_left (wupd W c) us s).
Proof.
  induction us as [|b us IH]; intros h s HN Hi Hl; cbn [fold_left map].
  - rewrite app_nil_r. split; assumption.
  - replace (h ++ wstat W c b :: map (wstat W c) us) with ((h ++ [wstat W c b]) ++ map (wstat W c) us)
      by (rewrite <- app_assoc; reflexivity).
    apply IH; [exact HN|apply inv_upd; assumption|apply life_upd; assumption].
Qed.

(* the slots compute() reads sum (per task) to the sum over the last N statistics *)
Lemma inv_read h s t : 0 < N -> Inv h s -> R (colsum W t (wread W s)) (colsum W t (lastn N h)).
Proof.
  intros HN [Hmax (older & prev & cur & Hh & Hc & HcN & Ht & Hb)]. unfold wread, lastn. rewrite Ht, Hmax.
  destruct Hb as [[Hp Hb]|(-> & -> & Hb)].
  - assert (Hge : N <= List.length h) by (rewrite Hh, !app_length; lia).
    apply Nat.leb_le in Hge. rewrite Hge, Hb.
    assert (Hlast : skipn (List.length h - N) h = skipn (List.length cur) prev ++ cur).
    { rewrite Hh, !app_length.
      replace (List.length older + (List.length prev + List.length cur) - N) with (List.length older + List.length cur) by lia.
      rewrite skipn_app. rewrite (skipn_all2 (n := List.length older + List.length cur) older) by lia. cbn [app].
      replace (List.length older + List.length cur - List.length older) with (List.length cur) by lia.
      rewrite skipn_app. replace (List.length cur - List.length prev) with 0 by lia. reflexivity. }
    rewrite Hlast.
    assert (HP : R (colsum W t (cur ++ skipn (List.length cur) prev)) (colsum W t (skipn (List.length cur) prev ++ cur)))
      by (apply colsum_perm, Permutation_app_comm).
    destruct (wwhole W); exact HP.
  - cbn [app] in Hh. subst h.
    assert (Hlt : Nat.leb N (List.length cur) = false) by (apply Nat.leb_gt; lia). rewrite Hlt, Hb, <- Hc.
    replace (List.length cur - N) with 0 by lia. cbn [skipn].
    destruct (wwhole W).
    + apply colsum_app_zeros. intros x Hx. apply in_skipn in Hx. apply repeat_spec in Hx. exact Hx.
    + rewrite firstn_app, firstn_all, Nat.sub_diag. cbn [firstn]. rewrite app_nil_r. apply Req_refl.
Qed.

Lemma inv_life h s : LifeInv h s -> cLife c = true -> Forall2 R (w_life s) (tsum W c h).
Proof.
  intros Hl Hc. rewrite (Hl Hc). unfold tsum. apply Forall2_map_same. intros t _.
  apply colsum_perm. apply Permutation_sym, Permutation_rev.
Qed.

(* C13, update-granular classes: for every window size N >= 1 and every non-empty update list,
   compute() is NOT the empty (error) value; its windowed component is the non-windowed compute
   applied to per-task sums that are R-equal to the sums over the last N updates' statistics;
   its lifetime component likewise over all updates. *)
Theorem ring_refines_queue (us : list wbatch) : 0 < N -> us <> [] ->
  let s := fold_left (wupd W c) us (winit W c) in
  let h := map (wstat W c) us in
  exists lw ll,
    wcmp W c s = WOut (if cLife c then Some (wgam W c ll) else None) (wgam W c lw) /\
    Forall2 R lw (tsum W c (lastn N h)) /\
    (cLife c = true -> Forall2 R ll (tsum W c h)).
Proof.
  intros HN Hne s h.
  destruct (inv_fold us [] (winit W c) HN (inv_init HN) life_init) as [Hi Hl]. cbn [app] in Hi, Hl.
  fold s h in Hi, Hl.
  exists (tsum W c (wread W s)), (w_life s). split; [|split].
  - unfold wcmp. destruct Hi as [_ (o & p & cu & _ & _ & _ & Ht & _)].
    assert (Hpos : w_tot s <> 0).
    { rewrite Ht. unfold h. rewrite map_length. destruct us; [congruence|cbn; lia]. }
    apply Nat.eqb_neq in Hpos. rewrite Hpos. reflexivity.
  - apply tsum_R. intros t. apply inv_read; assumption.
  - intros Hc. apply inv_life; assumption.
Qed.

(* when the statistic's equivalence is plain equality: the clean statement *)
Hypothesis R_eq : forall x y, R x y -> x = y.
Theorem ring_refines_queue_eq (us : list wbatch) : 0 < N -> us <> [] ->
  wcmp W c (fold_left (wupd W c) us (winit W c)) =
  WOut (if cLife c then Some (win_ref W c us) else None) (win_ref W c (lastn N us)).
Proof.
  intros HN Hne. destruct (ring_refines_queue us HN Hne) as (lw & ll & Hc & Hw & Hl).
  rewrite Hc. unfold win_ref. rewrite <- lastn_map.
  assert (Ew : lw = tsum W c (lastn N (map (wstat W c) us))).
  { apply (Forall2_eq _ _ _ R_eq Hw). }
  rewrite Ew. destruct (cLife c); [|reflexivity].
  assert (El : ll = tsum W c (map (wstat W c) us)).
  { apply (Forall2_eq _ _ _ R_eq (Hl eq_refl)). }
  rewrite El. reflexivity.
Qed.
End RingProofs.

(* ---- the laws for the three rational statistics (Req = eq) ---- *)
Open Scope Qc_scope.
Lemma q2add_lcomm a b x : q2add a (q2add b x) = q2add b (q2add a x).
Proof. unfold q2add. cbn [fst snd]. f_equal; ring. Qed.
Lemma q2add_z x : q2add q2z x = x.
Proof. destruct x as [u v]. unfold q2add, q2z. cbn [fst snd]. f_equal; ring. Qed.

Definition ctr_laws : WinLaws ctr_spec.
Proof.
  refine (Build_WinLaws ctr_spec eq _ _ _ _ _); cbn.
  - reflexivity.
  - intros; congruence.
  - intros; congruence.
  - exact q2add_lcomm.
  - exact q2add_z.
Defined.
Definition wcal_laws : WinLaws wcal_spec.
Proof.
  refine (Build_WinLaws wcal_spec eq _ _ _ _ _); cbn.
  - reflexivity.
  - intros; congruence.
  - intros; congruence.
  - exact q2add_lcomm.
  - exact q2add_z.
Defined.
Definition mse_laws : WinLaws mse_spec.
Proof.
  refine (Build_WinLaws mse_spec eq _ _ _ _ _); cbn.
  - reflexivity.
  - intros; congruence.
  - intros; congruence.
  - exact q2add_lcomm.
  - exact q2add_z.
Defined.

(* ---- normalized entropy: formal log-terms up to permutation ---- *)
Definition ne_equiv (a b : ne3) : Prop :=
  Permutation (ne_ent a) (ne_ent b) /\ ne_n a = ne_n b /\ ne_pos a = ne_pos b.
Definition ne_laws : WinLaws ne_spec.
Proof.
  refine (Build_WinLaws ne_spec ne_equiv _ _ _ _ _); unfold ne_equiv; cbn.
  - intros x. repeat split. apply Permutation_refl.
  - intros x y z (H1 & H2 & H3) (H4 & H5 & H6). repeat split; [eapply Permutation_trans; eassumption|congruence|congruence].
  - intros a x y (H1 & H2 & H3). repeat split; [apply Permutation_app_head; exact H1|congruence|congruence].
  - intros a b x. repeat split; [|ring|ring].
    rewrite !app_assoc. apply Permutation_app_tail, Permutation_app_comm.
  - intros x. repeat split; [apply Permutation_refl|ring|ring].
Defined.
(* every interpretation of ln gives permutation-equivalent entropies the same value *)
Definition sym_eval (ln : Qc -> Qc) (e : sym) : Qc := fold_right (fun t acc => fst t * ln (snd t) + acc) 0 e.
Lemma sym_eval_perm ln e e' : Permutation e e' -> sym_eval ln e = sym_eval ln e'.
Proof.
  induction 1 as [| x l l' _ IH | x y l | l1 l2 l3 _ IH1 _ IH2]; cbn [sym_eval fold_right] in *.
  - reflexivity.
  - fold (sym_eval ln l). fold (sym_eval ln l'). rewrite IH. reflexivity.
  - ring.
  - congruence.
Qed.
Close Scope Qc_scope.

(* ------------------------------------------------------------------------------------- *)
(* Part B: the sample-granular buffer of WindowedBinaryAUROC                               *)
(* ------------------------------------------------------------------------------------- *)
Section AurocBuf.
Variable c : acfg.
Notation N := (aN c).

Definition AInv (h : list col) (s : ast) : Prop :=
  a_max s = N /\
  exists older prev cur,
    h = older ++ prev ++ cur /\ List.length cur = a_cur s /\ a_cur s < N /\ a_tot s = List.length h /\
    ((List.length prev = N /\ a_buf s = cur ++ skipn (List.length cur) prev) \/
     (prev = [] /\ older = [] /\ a_buf s = cur ++ skipn (List.length cur) (repeat (azcol c) N))).

Lemma blit_tail {A} (cur b P : list A) : List.length cur + List.length b <= List.length P ->
  blit (List.length cur) b (cur ++ skipn (List.length cur) P) = (cur ++ b) ++ skipn (List.length cur + List.length b) P.
Proof.
  intros H. unfold blit. rewrite firstn_app, firstn_all, Nat.sub_diag. cbn [firstn]. rewrite app_nil_r.
  rewrite skipn_app. rewrite (skipn_all2 cur) by lia. cbn [app].
  replace (List.length cur + List.length b - List.length cur) with (List.length b) by lia.
  rewrite skipn_skipn'. rewrite <- app_assoc. reflexivity.
Qed.

Lemma ainv_init : 0 < N -> AInv [] (ainit c).
Proof. intros HN. split; [reflexivity|]. exists [], [], []. cbn. repeat split; try lia. right. repeat split. Qed.

Lemma ainv_upd h s b : 0 < N -> AInv h s -> AInv (h ++ b) (aupd c s b).
Proof.
  intros HN [Hmax (older & prev & cur & Hh & Hc & HcN & Ht & Hb)]. unfold aupd. rewrite Hmax.
  assert (Hlen : a_tot s + List.length b = List.length (h ++ b)) by (rewrite app_length; lia).
  destruct (Nat.leb_spec N (List.length b)) as [Hbig|Hsmall].
  - split; [reflexivity|].
    exists (older ++ prev ++ cur ++ firstn (List.length b - N) b), (lastn N b), [].
    cbn [a_buf a_cur a_tot]. split; [|split; [reflexivity|split; [lia|split; [exact Hlen|]]]].
    + unfold lastn. rewrite Hh, app_nil_r, <- !app_assoc. do 3 f_equal. symmetry. apply firstn_skipn.
    + left. unfold lastn. split; [rewrite skipn_length; lia|reflexivity].
  - assert (Hst : Nat.ltb N (a_cur s) = false) by (apply Nat.ltb_ge; lia). rewrite Hst.
    destruct (Nat.leb_spec (List.length b) (N - a_cur s)) as [Hfit|Hwrap].
    + assert (HP : forall P, List.length P = N -> a_buf s = cur ++ skipn (List.length cur) P ->
                 blit (a_cur s) b (a_buf s) = (cur ++ b) ++ skipn (List.length (cur ++ b)) P).
      { intros P HPl HPb. rewrite HPb, <- Hc, blit_tail by lia. rewrite app_length. reflexivity. }
      destruct (Nat.eq_dec (a_cur s + List.length b) N) as [Hfull|Hnot].
      * split; [reflexivity|].
        exists (older ++ prev), (cur ++ b), []. cbn [a_buf a_cur a_tot]. rewrite Hfull, Nat.mod_same by lia.
        split; [|split; [reflexivity|split; [lia|split; [exact Hlen|]]]].
        -- rewrite Hh, app_nil_r, <- !app_assoc. reflexivity.
        -- left. split; [rewrite app_length; lia|]. cbn [app List.length skipn].
           destruct Hb as [[Hp Hbw]|(-> & -> & Hbw)].
           ++ rewrite (HP prev Hp Hbw), skipn_all2 by (rewrite app_length; lia). apply app_nil_r.
           ++ rewrite (HP (repeat (azcol c) N) (repeat_length _ N) Hbw), skipn_all2 by (rewrite app_length, repeat_length; lia). apply app_nil_r.
      * split; [reflexivity|].
        exists older, prev, (cur ++ b). cbn [a_buf a_cur a_tot]. rewrite Nat.mod_small by lia.
        split; [|split; [rewrite app_length; lia|split; [lia|split; [exact Hlen|]]]].
        -- rewrite Hh, <- !app_assoc. reflexivity.
        -- destruct Hb as [[Hp Hbw]|(-> & -> & Hbw)].
           ++ left. split; [exact Hp|]. apply (HP prev Hp Hbw).
           ++ right. split; [reflexivity|split; [reflexivity|]]. apply (HP (repeat (azcol c) N) (repeat_length _ N) Hbw).
    + set (rest := N - a_cur s) in *. set (b1 := firstn rest b). set (b2 := skipn rest b).
      assert (Hb1 : List.length b1 = rest) by (unfold b1; rewrite firstn_length; lia).
      assert (Hb2 : List.length b2 = List.length b - rest) by (unfold b2; rewrite skipn_length; lia).
      assert (Hb12 : b = b1 ++ b2) by (unfold b1, b2; symmetry; apply firstn_skipn).
      split; [reflexivity|].
      exists (older ++ prev), (cur ++ b1), b2. cbn [a_buf a_cur a_tot].
      rewrite Nat.mod_small by lia.
      split; [|split; [lia|split; [lia|split; [exact Hlen|]]]].
      * rewrite Hh, Hb12, <- !app_assoc. reflexivity.
      * left. split; [rewrite app_length; lia|].
        assert (Hstep1 : blit (a_cur s) b1 (a_buf s) = cur ++ b1).
        { destruct Hb as [[Hp Hbw]|(-> & -> & Hbw)]; rewrite Hbw, <- Hc, blit_tail by (rewrite ?repeat_length; lia);
            rewrite skipn_all2 by (rewrite ?repeat_length; lia); apply app_nil_r. }
        rewrite Hstep1. unfold blit. cbn [firstn app Nat.add]. rewrite Hb2. reflexivity.
Qed.

Lemma ainv_contents h s : 0 < N -> AInv h s -> acontents s = lastn N h.
Proof.
  intros HN [Hmax (older & prev & cur & Hh & Hc & HcN & Ht & Hb)]. unfold acontents, lastn. rewrite Ht, Hmax.
  destruct Hb as [[Hp Hbw]|(-> & -> & Hbw)].
  - assert (Hge : N <= List.length h) by (rewrite Hh, !app_length; lia). apply Nat.leb_le in Hge. rewrite Hge, Hbw, <- Hc.
    rewrite skipn_app, (skipn_all2 cur), Nat.sub_diag by lia. cbn [app skipn].
    rewrite firstn_app, firstn_all, Nat.sub_diag. cbn [firstn]. rewrite app_nil_r.
    rewrite Hh, !app_length.
    replace (List.length older + (List.length prev + List.length cur) - N) with (List.length older + List.length cur) by lia.
    rewrite skipn_app, (skipn_all2 older) by lia. cbn [app].
    replace (List.length older + List.length cur - List.length older) with (List.length cur) by lia.
    rewrite skipn_app. replace (List.length cur - List.length prev) with 0 by lia. reflexivity.
  - cbn [app] in Hh. subst h. assert (Hlt : Nat.leb N (List.length cur) = false) by (apply Nat.leb_gt; lia).
    rewrite Hlt, Hbw, <- Hc, firstn_app, firstn_all, Nat.sub_diag. cbn [firstn]. rewrite app_nil_r.
    replace (List.length cur - N) with 0 by lia. reflexivity.
Qed.

Lemma ainv_fold bs : forall h s, 0 < N -> AInv h s -> AInv (h ++ List.concat bs) (fold_left (aupd c) bs s).
Proof.
  induction bs as [|b bs IH]; intros h s HN Hi; cbn [fold_left List.concat]; [rewrite app_nil_r; exact Hi|].
  rewrite app_assoc. apply IH; [exact HN|]. apply ainv_upd; assumption.
Qed.

(* the buffer, read circularly from the cursor, is exactly the last min(total, N) samples *)
Theorem auroc_window_holds_lastN (bs : list (list col)) : 0 < N ->
  acontents (fold_left (aupd c) bs (ainit c)) = lastn N (List.concat bs).
Proof.
  intros HN. apply ainv_contents; [exact HN|].
  exact (ainv_fold bs [] (ainit c) HN (ainv_init HN)).
Qed.

(* when no score in the window is zero and the window has been filled, compute() reads a
   rotation (hence a permutation) of the last N samples; before that, exactly the samples seen.
   (That AUROC is invariant under permutation of its samples is the C05 theorem.) *)
Definition nonzero_col (cl : col) : bool := existsb (fun sm => negb (sc sm =? 0)%Z) cl.

Lemma zero_scores_false_in (l : list col) x : In x l -> nonzero_col x = true -> zero_scores l = false.
Proof.
  induction l as [|y l IH]; intros Hin Hx; [destruct Hin|]. cbn [zero_scores forallb].
  destruct Hin as [->|Hin].
  - assert (E : forallb (fun sm => (sc sm =? 0)%Z) x = false).
    { unfold nonzero_col in Hx. apply existsb_exists in Hx as (sm & Hsm & Hnz).
      destruct (forallb (fun sm0 => (sc sm0 =? 0)%Z) x) eqn:E; [|reflexivity].
      rewrite forallb_forall in E. rewrite (E sm Hsm) in Hnz. discriminate. }
    rewrite E. reflexivity.
  - fold (zero_scores l). rewrite (IH Hin Hx). apply andb_false_r.
Qed.

Theorem auroc_reads_lastN_partial (bs : list (list col)) : 0 < N ->
  Forall (fun cl => nonzero_col cl = true) (List.concat bs) ->
  Permutation (aread (fold_left (aupd c) bs (ainit c))) (lastn N (List.concat bs)).
Proof.
  intros HN Hnz. set (s := fold_left (aupd c) bs (ainit c)).
  pose proof (ainv_fold bs [] (ainit c) HN (ainv_init HN)) as Hi. cbn [app] in Hi. fold s in Hi.
  rewrite <- (ainv_contents _ _ HN Hi).
  destruct Hi as [Hmax (older & prev & cur & Hh & Hc & HcN & Ht & Hb)].
  unfold aread, acontents. rewrite Ht, Hmax.
  destruct Hb as [[Hp Hbw]|(-> & -> & Hbw)].
  - assert (Hge : N <= List.length (List.concat bs)) by (rewrite Hh, !app_length; lia).
    apply Nat.leb_le in Hge. rewrite Hge.
    (* the tail from the cursor is a non-empty piece of prev: not all zeros *)
    assert (Htail : skipn (a_cur s) (a_buf s) = skipn (List.length cur) prev).
    { rewrite Hbw, <- Hc, skipn_app, (skipn_all2 cur), Nat.sub_diag by lia. reflexivity. }
    assert (Hz : zero_scores (skipn (a_cur s) (a_buf s)) = false).
    { rewrite Htail. destruct (skipn (List.length cur) prev) as [|x r] eqn:E.
      - assert (Hl : List.length (skipn (List.length cur) prev) = 0) by (rewrite E; reflexivity).
        rewrite skipn_length in Hl. lia.
      - apply (zero_scores_false_in _ x); [left; reflexivity|].
        rewrite Forall_forall in Hnz. apply Hnz. rewrite Hh. apply in_or_app. right. apply in_or_app. left.
        apply (in_skipn x (List.length cur)). rewrite E. left. reflexivity. }
    rewrite Hz. rewrite <- (firstn_skipn (a_cur s) (a_buf s)) at 1. apply Permutation_app_comm.
  - cbn [app] in Hh.
    assert (Hlt : Nat.leb N (List.length (List.concat bs)) = false) by (apply Nat.leb_gt; rewrite Hh; lia). rewrite Hlt.
    assert (Hz : zero_scores (skipn (a_cur s) (a_buf s)) = true).
    { rewrite Hbw, <- Hc, skipn_app, (skipn_all2 cur), Nat.sub_diag by lia. cbn [app skipn].
      unfold zero_scores. apply forallb_forall. intros x Hx. apply in_skipn in Hx. apply repeat_spec in Hx. subst x.
      unfold azcol. apply forallb_forall. intros sm Hsm. apply repeat_spec in Hsm. subst sm. reflexivity. }
    rewrite Hz. apply Permutation_refl.
Qed.
End AurocBuf.

(* ------------------------------------------------------------------------------------- *)
(* Part C: witnesses                                                                      *)
(* ------------------------------------------------------------------------------------- *)
Definition q (n : Z) (d : positive) : Qc := mkq n d.
Definition sm (x : Z) (y : bool) : col := [(x, (y, q 1 1))].          (* score x/10, label, weight 1 *)

(* D6 (a): N = 4, samples (.9,0)(.8,1)(.7,1)(0,1) then (.5,0)(.4,1)(.3,0).  The window holds
   (0,1)(.5,0)(.4,1)(.3,0); the slot after the cursor holds the score 0, is taken for "unfilled",
   and compute() evaluates only the three newest samples. *)
Definition d6_cfg : acfg := {| aT := 1; aN := 4; aDen := 10 |}.
Definition d6_batches : list (list col) :=
  [ [sm 9 false; sm 8 true; sm 7 true; sm 0 true];
    [sm 5 false; sm 4 true; sm 3 false] ].
Lemma d6_zero_score :
  acmp d6_cfg (fold_left (aupd d6_cfg) d6_batches (ainit d6_cfg)) = AScalar (q 1 2) /\
  auroc_ref d6_cfg (lastn 4 (List.concat d6_batches)) = AScalar (q 1 4).
Proof. split; vm_compute; reflexivity. Qed.

(* D6 (b): a window holding exactly one sample: (1,1).squeeze() is 0-dimensional *)
Definition d6b_batches : list (list col) := [ [sm 9 false] ].
Lemma d6_single_sample :
  acmp d6_cfg (fold_left (aupd d6_cfg) d6b_batches (ainit d6_cfg)) = AErr /\
  auroc_ref d6_cfg (lastn 4 (List.concat d6b_batches)) = AScalar (q 1 2).
Proof. split; vm_compute; reflexivity. Qed.

(* D6 (c): max_num_samples = 1 with two tasks: (2,1).squeeze() = (2,), the task axis is read as
   the sample axis and a single number comes back instead of one AUROC per task *)
Definition d6c_cfg : acfg := {| aT := 2; aN := 1; aDen := 10 |}.
Definition d6c_batches : list (list col) :=
  [ [ [(9%Z, (false, q 1 1)); (3%Z, (true, q 1 1))] ] ].
Lemma d6_one_slot_two_tasks :
  acmp d6c_cfg (fold_left (aupd d6c_cfg) d6c_batches (ainit d6c_cfg)) = AScalar (q 0 1) /\
  auroc_ref d6c_cfg (lastn 1 (List.concat d6c_batches)) = AVec [q 1 2; q 1 2].
Proof. split; vm_compute; reflexivity. Qed.

(* ---- D5: histories through Pool.exec ---- *)
Open Scope string_scope.
Definition o_upd (i : nat) (b : val) : val := VT "upd" [vnat i; b].
Definition o_cmp (i : nat) : val := VT "compute" [vnat i].
Definition o_save (i k : nat) : val := VT "save" [vnat i; vnat k].
Definition o_load (j k : nat) : val := VT "load" [vnat j; vnat k].
Definition o_reset (i : nat) : val := VT "reset" [vnat i].
Definition o_new (i : nat) : val := VT "new" [vnat i].
Definition o_clone (i j : nat) : val := VT "clone" [vnat i; vnat j].
(* the same continuation (update, compute, update, compute, ...) applied to object i *)
Definition cont_on (bs : list val) (i : nat) : list val := flat_map (fun b => [o_upd i b; o_cmp i]) bs.
Definition is_compute (o : val) : bool := match o with VT t _ => String.eqb t "compute" | _ => false end.
Definition computes (ops obs : list val) : list val :=
  map snd (filter (fun p => is_compute (fst p)) (combine ops obs)).
(* what compute() returned along a history on a pool of n fresh objects *)
Definition behaviour (M : Metric) (K : Codec M) (c : cfg M) (n : nat) (ops : list val) : list val :=
  computes ops (exec M K c (pool0 M c n) ops).

(* C09 statement for one class: some history, some continuation -- the object restored with
   load_state_dict(state_dict()) into a fresh instance behaves differently from the original *)
Definition load_breaks (M : Metric) (K : Codec M) : Prop :=
  exists (c : cfg M) (pre : list val) (bs : list val),
    behaviour M K c 2 (pre ++ [o_save 0 0; o_load 1 0] ++ cont_on bs 0) <>
    behaviour M K c 2 (pre ++ [o_save 0 0; o_load 1 0] ++ cont_on bs 1).
(* C10 statement (true of the PRE-FIX variant only): after reset() the object behaves differently from a fresh one *)
Definition reset_breaks (M : Metric) (K : Codec M) : Prop :=
  exists (c : cfg M) (pre : list val) (bs : list val),
    behaviour M K c 2 (pre ++ [o_reset 0; o_new 1] ++ cont_on bs 0) <>
    behaviour M K c 2 (pre ++ [o_reset 0; o_new 1] ++ cont_on bs 1).

Definition vrow (l : list Z) : val := VL [VL (map VZ l)].
Definition wcfg3 : wcfg := {| cT := 1; cN := 3; cLife := false; cOpt := false |}.
(* one-event CTR batches: click x, weight 1 *)
Definition ctr_b (x : Z) : val := VL [vrow [x]; VL []; vrow [1%Z]].
Definition ctr_pre : list val := [o_upd 0 (ctr_b 1); o_upd 0 (ctr_b 0)].
Definition ctr_cont : list val := [ctr_b 1; ctr_b 1; ctr_b 1].

Lemma wctr_load_breaks : load_breaks (wctr V_code) (wctr_codec V_code).
Proof. exists wcfg3, ctr_pre, ctr_cont. vm_compute. discriminate. Qed.
Lemma wctr_reset_breaks : reset_breaks (wctr V_pre) (wctr_codec V_pre).
Proof. exists wcfg3, ctr_pre, ctr_cont. vm_compute. discriminate. Qed.
(* the values of the witness: original 2/3, 2/3, 1 -- restored 1/2, 1, 1 *)
Lemma wctr_load_witness_values :
  behaviour (wctr V_code) (wctr_codec V_code) wcfg3 2 (ctr_pre ++ [o_save 0 0; o_load 1 0] ++ cont_on ctr_cont 0)
    = [VL [vq (q 2 3)]; VL [vq (q 2 3)]; VL [vq (q 1 1)]] /\
  behaviour (wctr V_code) (wctr_codec V_code) wcfg3 2 (ctr_pre ++ [o_save 0 0; o_load 1 0] ++ cont_on ctr_cont 1)
    = [VL [vq (q 1 2)]; VL [vq (q 1 1)]; VL [vq (q 1 1)]].
Proof. split; vm_compute; reflexivity. Qed.
(* reset witness: first value after reset 0, fresh 1 *)
Lemma wctr_reset_witness_values :
  behaviour (wctr V_pre) (wctr_codec V_pre) wcfg3 2 (ctr_pre ++ [o_reset 0; o_new 1] ++ cont_on [ctr_b 1] 0) = [VL [vq (q 0 1)]] /\
  behaviour (wctr V_pre) (wctr_codec V_pre) wcfg3 2 (ctr_pre ++ [o_reset 0; o_new 1] ++ cont_on [ctr_b 1] 1) = [VL [vq (q 1 1)]].
Proof. split; vm_compute; reflexivity. Qed.

(* the other four classes *)
Definition wcal_b (x y : Z) : val := VL [vrow [x]; vrow [y]; vrow [1%Z]].
Lemma wcal_load_breaks : load_breaks (wcal V_code) (wcal_codec V_code).
Proof. exists wcfg3, [o_upd 0 (wcal_b 1 1); o_upd 0 (wcal_b 0 1)], [wcal_b 1 1; wcal_b 1 1; wcal_b 1 1]. vm_compute. discriminate. Qed.
Lemma wcal_reset_breaks : reset_breaks (wcal V_pre) (wcal_codec V_pre).
Proof. exists wcfg3, [o_upd 0 (wcal_b 1 1); o_upd 0 (wcal_b 0 1)], [wcal_b 1 1; wcal_b 1 1; wcal_b 1 1]. vm_compute. discriminate. Qed.
Definition wmse_b (x y : Z) : val := VL [vrow [x]; vrow [y]; vrow [1%Z]].
Lemma wmse_load_breaks : load_breaks (wmse V_code) (wmse_codec V_code).
Proof. exists wcfg3, [o_upd 0 (wmse_b 1 0); o_upd 0 (wmse_b 0 0)], [wmse_b 2 0; wmse_b 0 0; wmse_b 0 0]. vm_compute. discriminate. Qed.
(* NOTE: (pre-fix variant) reset() of WindowedMeanSquaredError is NOT refuted: its compute() always sums the whole
   (zero-padded) buffer, so a stale cursor after reset() is only a rotation of the slots. *)
Definition wne_b (num : Z) (y : Z) : val := VL [VL [VL [VQ num 4]]; vrow [y]; vrow [1%Z]].
Lemma wne_load_breaks : load_breaks (wne V_code) (wne_codec V_code).
Proof. exists wcfg3, [o_upd 0 (wne_b 1 1); o_upd 0 (wne_b 1 0)], [wne_b 3 1; wne_b 3 1; wne_b 3 1]. vm_compute. discriminate. Qed.
Lemma wne_reset_breaks : reset_breaks (wne V_pre) (wne_codec V_pre).
Proof. exists wcfg3, [o_upd 0 (wne_b 1 1); o_upd 0 (wne_b 1 0)], [wne_b 3 1; wne_b 3 1; wne_b 3 1]. vm_compute. discriminate. Qed.
Definition acfg3 : acfg := {| aT := 1; aN := 3; aDen := 8 |}.
Definition au_b (num : Z) (y : Z) : val := VL [vrow [num]; vrow [y]; vrow [1%Z]].
Lemma wauroc_load_breaks : load_breaks (wauroc V_code) (wauroc_codec V_code).
Proof. exists acfg3, [o_upd 0 (au_b 7 0); o_upd 0 (au_b 6 1)], [au_b 5 1; au_b 4 0; au_b 3 1]. vm_compute. discriminate. Qed.
Lemma wauroc_reset_breaks : reset_breaks (wauroc V_pre) (wauroc_codec V_pre).
Proof. exists acfg3, [o_upd 0 (au_b 7 0); o_upd 0 (au_b 6 1)], [au_b 5 1; au_b 4 0; au_b 3 1]. vm_compute. discriminate. Qed.

(* ---- load on V_fixed (cursor saved); reset on every variant that rewinds the cursor:
        V_code (the code since c5ceb09) and V_fixed ---- *)
Lemma win_fixed_load W c tgt s : load (win_metric W V_fixed) c tgt (save (win_metric W V_fixed) c s) = s.
Proof. reflexivity. Qed.
Lemma win_reset_init W v c s : cur_reset v = true -> rst (win_metric W v) c s = init (win_metric W v) c.
Proof. intros H. cbn. rewrite H. reflexivity. Qed.
Lemma wauroc_fixed_load c tgt s : load (wauroc V_fixed) c tgt (save (wauroc V_fixed) c s) = s.
Proof. reflexivity. Qed.
Lemma wauroc_reset_init v c s : cur_reset v = true -> rst (wauroc v) c s = init (wauroc v) c.
Proof. intros H. cbn. rewrite H. reflexivity. Qed.

(* Pool level, for any metric with these two equations: save+load into ANY object yields the very
   state a deep copy yields; reset yields the very state of a fresh object.  Identical states
   have identical futures (exec is a function of the pool). *)
Section FixedPool.
Variable M : Metric.
Variable K : Codec M.
Variable c : cfg M.
Definition after (p : pool M) (ops : list val) : pool M := fold_left (fun p o => fst (step M K c p o)) ops p.

Lemma nth_set_nth {X} (d x : X) : forall k l, k < List.length l -> nth k (set_nth k x l) d = x.
Proof.
  induction k as [|k IH]; intros [|y l] Hk; cbn in *; try lia; [reflexivity|]. apply IH. lia.
Qed.

Theorem load_bisim_of_eq :
  (forall tgt s, load M c tgt (save M c s) = s) ->
  forall (p : pool M) (i j k : nat), k < List.length (dicts M p) ->
    objs M (after p [o_save i k; o_load j k]) = objs M (after p [o_clone i j]).
Proof.
  intros Hls p i j k Hk. unfold after, o_save, o_load, o_clone, vnat. cbn [fold_left].
  cbn -[set_nth nth Z.of_nat Z.to_nat]. unfold get. cbn -[set_nth nth Z.of_nat Z.to_nat].
  rewrite !Nat2Z.id. rewrite nth_set_nth by exact Hk. rewrite Hls. reflexivity.
Qed.

Theorem reset_bisim_of_eq :
  (forall s, rst M c s = init M c) ->
  forall (p : pool M) (i : nat), objs M (after p [o_reset i]) = objs M (after p [o_new i]).
Proof.
  intros Hr p i. unfold after, o_reset, o_new, vnat. cbn [fold_left].
  cbn -[set_nth nth Z.of_nat Z.to_nat]. rewrite Hr. reflexivity.
Qed.
End FixedPool.

(* ------------------------------------------------------------------------------------- *)
(* Part D: WindowedBinaryAUROC.compute() = the AUROC definition on the last N samples      *)
(*         (closes auroc_reads_lastN_partial with the C05 theorems of Proofs/CurvesP.v)    *)
(* ------------------------------------------------------------------------------------- *)
From TE Require Import Proofs.CurvesP.
Close Scope Qc_scope.
Open Scope nat_scope.
Section AurocSpec.
Variable c : acfg.

Lemma rows_spec_perm (u L : list col) : Permutation u L ->
  map auroc_spec (rows_of c u) = map auroc_spec (rows_of c L).
Proof.
  intros H. unfold rows_of. rewrite !map_map. apply map_ext. intros t.
  apply auroc_spec_perm, Permutation_map, H.
Qed.

(* compute() on any state whose read slots are a permutation of a sample list L with >= 2 samples *)
Lemma acmp_of_perm (s : ast) (L : list col) : Permutation (aread s) L -> 2 <= List.length L ->
  acmp c s = auroc_ref c L.
Proof.
  intros HP Hlen. pose proof (Permutation_length HP) as Hl. unfold acmp, auroc_ref.
  destruct L as [|x [|y L']]; cbn [List.length] in Hlen; try lia.
  destruct (List.length (aread s)) as [|[|k]] eqn:Hk; cbn [List.length] in Hl; try lia.
  destruct (aT c) as [|[|T']] eqn:HT.
  - rewrite auroc_kernel_spec. f_equal. apply rows_spec_perm, HP.
  - rewrite auroc_row_spec. f_equal. unfold rows_of. rewrite HT. cbn [seq map nth].
    apply auroc_spec_perm. apply (Permutation_map (fun cl : list smp => nth 0 cl smpz) HP).
  - rewrite auroc_kernel_spec. f_equal. apply rows_spec_perm, HP.
Qed.

Theorem auroc_compute_is_spec (bs : list (list col)) : 0 < aN c ->
  Forall (fun cl => nonzero_col cl = true) (List.concat bs) ->
  2 <= List.length (lastn (aN c) (List.concat bs)) ->
  acmp c (fold_left (aupd c) bs (ainit c)) = auroc_ref c (lastn (aN c) (List.concat bs)).
Proof.
  intros HN Hnz Hlen. apply acmp_of_perm; [|exact Hlen]. apply auroc_reads_lastN_partial; assumption.
Qed.
End AurocSpec.
