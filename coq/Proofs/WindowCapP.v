(* The REPAIRED merge_state of the four update-granular windowed classes
   (fixes/window-merge-capacity.patch: max_num_updates := pooled capacity; model Window.wmrg_cap /
   win_metric_cap).  Counterpart of Proofs/WindowTreeP.v, which is about the code as it is.
   Part A  lifetime / total_updates of every merge tree: unchanged (exact).
   Part B  capacity of every tree = N * number of leaves.
   Part C  every merge tree without updates between merges reads the pooled windows of ALL leaves
           (sequential / nested = flat: no truncation any more).
   Part D  after a merge the object IS a ring buffer of the enlarged capacity K: seen from the cursor
           (idx mod K) the slots form a queue -- unfilled zero slots first, then the pooled slots in
           buffer order, then the new updates; each update evicts the head.  The windowed value is the
           statistic of the last K entries of  pooled slots ++ new updates. *)
From Coq Require Import ZArith List Bool QArith Qcanon String Arith Lia Permutation.
From TE Require Import Base.Val Base.Xq Algebra.Metric Algebra.Pool Algebra.MergeTree Models.Window
  Proofs.WindowP Proofs.WindowMergeP Proofs.WindowTreeP.
Import ListNotations.
Open Scope list_scope.
Open Scope nat_scope.

Lemma in_firstn {A} (x : A) k l : In x (firstn k l) -> In x l.
Proof. intros H. rewrite <- (firstn_skipn k l). apply in_or_app. left. exact H. Qed.
Lemma lastn_cons_ge {A} K (y : A) l : K <= List.length l -> lastn K (y :: l) = lastn K l.
Proof.
  intros H. unfold lastn. cbn [List.length].
  replace (S (List.length l) - K) with (S (List.length l - K)) by lia. reflexivity.
Qed.
Lemma lastn_all {A} K (l : list A) : List.length l <= K -> lastn K l = l.
Proof. intros H. unfold lastn. replace (List.length l - K) with 0 by lia. reflexivity. Qed.
Lemma lastn_app_ge {A} K (Z X : list A) : K <= List.length X -> lastn K (Z ++ X) = lastn K X.
Proof.
  intros H. unfold lastn. rewrite app_length, skipn_app, skipn_all2 by lia. cbn [app]. f_equal. lia.
Qed.
Lemma wset_mid {A} (x y : A) : forall F G, wset (List.length F) x (F ++ y :: G) = F ++ x :: G.
Proof. induction F as [|a F IH]; intros G; cbn [List.length app wset]; [reflexivity|]. rewrite IH. reflexivity. Qed.
Lemma skipn_len_app {A} (F l : list A) : skipn (List.length F) (F ++ l) = l.
Proof. rewrite skipn_app, skipn_all, Nat.sub_diag. reflexivity. Qed.
Lemma firstn_len_app {A} (F l : list A) : firstn (List.length F) (F ++ l) = F.
Proof. rewrite firstn_app, firstn_all, Nat.sub_diag. cbn [firstn]. apply app_nil_r. Qed.
Lemma lsum_app l l' : list_sum (l ++ l') = list_sum l + list_sum l'.
Proof. induction l as [|x l IH]; cbn [app]; rewrite ?lsum_nil, ?lsum_cons; [reflexivity|]. rewrite IH. lia. Qed.

Section CapProofs.
Variable W : WinSpec.
Variable L : WinLaws W.
Variable LM : WinLawsM W L.
Variable v : variant.
Variable c : wcfg.
Notation N := (cN c).
Notation col := (list (wS W)).
Notation R := (Req L).
Notation Mc := (win_metric_cap W v).
Notation shard := (fun us => fold_left (wupd W c) us (winit W c)).
Notation hist := (fun us => map (wstat W c) us).

(* ===================================================================================== *)
(* Part A: lifetime and total_updates -- as for the code as it is                         *)
(* ===================================================================================== *)
Ltac norm := change (upd Mc c) with (wupd W c) in *; change (init Mc c) with (winit W c) in *;
             change (mrg Mc c) with (wmrg_cap W c) in *.

Lemma tinv_mrg_cap h0 s0 hs ms : TInv W L c h0 s0 -> Forall2 (TInv W L c) hs ms ->
  TInv W L c (h0 ++ List.concat hs) (wmrg_cap W c s0 ms).
Proof. exact (tinv_mrg W L LM c h0 s0 hs ms). Qed.

Definition chist (t : mtree Mc) : list col := map (wstat W c) (stream Mc t).
Lemma chist_flat (os : list (mtree Mc)) : map (wstat W c) (flat_map (stream Mc) os) = List.concat (map chist os).
Proof.
  induction os as [|o os IH]; cbn [flat_map map List.concat]; [reflexivity|].
  rewrite map_app. f_equal. exact IH.
Qed.
Lemma tree_tinv_cap : forall t : mtree Mc, TInv W L c (chist t) (run Mc c t).
Proof.
  induction t as [bs|t os post IHt IHos] using mtree_ind'; unfold chist; cbn [run stream].
  - exact (tinv_fold W L c bs [] (winit W c) (tinv_init W L c)).
  - rewrite !map_app, app_assoc, chist_flat.
    apply (tinv_fold W L c post). apply (tinv_mrg_cap (chist t) (run Mc c t) (map chist os) (map (run Mc c) os) IHt).
    clear - IHos. induction IHos; cbn [map]; constructor; assumption.
Qed.

Theorem cap_total_updates_any_tree : forall t : mtree Mc, w_tot (run Mc c t) = List.length (stream Mc t).
Proof.
  induction t as [bs|t os post IHt IHos] using mtree_ind'; cbn [run stream]; norm.
  - rewrite tot_fold_upd. reflexivity.
  - rewrite tot_fold_upd.
    cbn [wmrg_cap w_tot]. rewrite tot_fold, IHt, !app_length, <- Nat.add_assoc. f_equal. f_equal.
    clear - IHos. induction IHos as [|o os Ho _ IH]; cbn [map flat_map]; [reflexivity|].
    rewrite lsum_cons, app_length, Ho, IH. reflexivity.
Qed.

Theorem cap_lifetime_any_tree (t : mtree Mc) : cLife c = true ->
  exists ll, lifetime_of (wcmp W c (run Mc c t))
             = (if Nat.eqb (List.length (stream Mc t)) 0 then None else Some (wgam W c ll)) /\
             Forall2 R ll (tsum W c (hist (stream Mc t))).
Proof.
  intros Hc. destruct (tinv_lifetime W L c _ _ (tree_tinv_cap t) Hc) as (ll & E & Hll).
  exists ll. split; [|exact Hll]. rewrite E. unfold chist. rewrite map_length. reflexivity.
Qed.

Theorem cap_lifetime_any_two_trees (t t' : mtree Mc) : cLife c = true -> stream Mc t <> [] ->
  Permutation (stream Mc t) (stream Mc t') ->
  exists ll ll', lifetime_of (wcmp W c (run Mc c t)) = Some (wgam W c ll) /\
                 lifetime_of (wcmp W c (run Mc c t')) = Some (wgam W c ll') /\ Forall2 R ll ll'.
Proof.
  intros Hc Hne HP.
  destruct (cap_lifetime_any_tree t Hc) as (ll & E & Hll).
  destruct (cap_lifetime_any_tree t' Hc) as (ll' & E' & Hll').
  assert (Hl : List.length (stream Mc t') = List.length (stream Mc t)) by (symmetry; apply Permutation_length, HP).
  rewrite Hl in E'.
  assert (Hz : Nat.eqb (List.length (stream Mc t)) 0 = false).
  { apply Nat.eqb_neq. destruct (stream Mc t); [congruence|cbn; lia]. }
  rewrite Hz in E, E'. exists ll, ll'. split; [exact E|split; [exact E'|]].
  eapply Forall2_trans'; [apply Req_trans|exact Hll|].
  eapply Forall2_trans'; [apply Req_trans|apply (tsum_perm W L c), Permutation_map, HP|].
  apply Forall2_sym'; [apply (Req_sym W L LM)|exact Hll'].
Qed.

Theorem cap_lifetime_after_tree_then_updates (t : mtree Mc) (post : list wbatch) : cLife c = true ->
  let s := fold_left (wupd W c) post (run Mc c t) in
  exists ll, w_tot s = List.length (stream Mc t ++ post) /\
             lifetime_of (wcmp W c s)
             = (if Nat.eqb (List.length (stream Mc t ++ post)) 0 then None else Some (wgam W c ll)) /\
             Forall2 R ll (tsum W c (hist (stream Mc t ++ post))).
Proof.
  intros Hc s. pose proof (tinv_fold W L c post _ _ (tree_tinv_cap t)) as Hi. fold s in Hi.
  assert (El : List.length (chist t ++ hist post) = List.length (stream Mc t ++ post))
    by (unfold chist; rewrite <- map_app; apply map_length).
  destruct (tinv_lifetime W L c _ _ Hi Hc) as (ll & E & Hll). exists ll. split; [|split].
  - destruct Hi as [Ht _]. rewrite Ht. exact El.
  - rewrite E, El. reflexivity.
  - rewrite map_app. exact Hll.
Qed.

(* ===================================================================================== *)
(* Part B: capacity                                                                       *)
(* ===================================================================================== *)
Fixpoint nleaves (t : mtree Mc) : nat :=
  match t with
  | Shard _ _ => 1
  | Merge _ t os _ => nleaves t + list_sum (map nleaves os)
  end.

Lemma max_fold (ms : list (wst (wS W))) : forall a,
  fold_left (fun a m => a + w_max m) ms a = a + list_sum (map (@w_max (wS W)) ms).
Proof.
  induction ms as [|m ms IH]; intros a; cbn [fold_left map]; rewrite ?lsum_nil, ?lsum_cons; [lia|]. rewrite IH. lia.
Qed.
Lemma max_fold_upd us : forall s, w_max (fold_left (wupd W c) us s) = w_max s.
Proof. induction us as [|b us IH]; intros s; cbn [fold_left]; [reflexivity|]. rewrite IH. reflexivity. Qed.

Theorem cap_capacity_any_tree : forall t : mtree Mc, w_max (run Mc c t) = N * nleaves t.
Proof.
  induction t as [bs|t os post IHt IHos] using mtree_ind'; cbn [run nleaves]; norm.
  - rewrite max_fold_upd. cbn [winit w_max]. lia.
  - rewrite max_fold_upd.
    cbn [wmrg_cap w_max]. rewrite max_fold, IHt, Nat.mul_add_distr_l. f_equal.
    clear - IHos. induction IHos as [|o os Ho _ IH]; cbn [map]; rewrite ?lsum_nil, ?lsum_cons; [lia|].
    rewrite Ho, IH. lia.
Qed.

(* ===================================================================================== *)
(* Part C: pooled windows of every post-free tree                                         *)
(* ===================================================================================== *)
(* two slot lists with the same per-task sums (up to Req) *)
Definition CEq (a b : list col) : Prop := forall k, R (colsum W k a) (colsum W k b).
Lemma ceq_refl a : CEq a a. Proof. intros k. apply Req_refl. Qed.
Lemma ceq_trans a b d : CEq a b -> CEq b d -> CEq a d.
Proof. intros H1 H2 k. eapply Req_trans; [apply H1|apply H2]. Qed.
Lemma ceq_sym a b : CEq a b -> CEq b a.
Proof. intros H k. apply (Req_sym W L LM), H. Qed.
Lemma ceq_perm a b : Permutation a b -> CEq a b.
Proof. intros H k. apply colsum_perm, H. Qed.
Lemma ceq_app a b a' b' : CEq a b -> CEq a' b' -> CEq (a ++ a') (b ++ b').
Proof.
  intros H1 H2 k.
  eapply Req_trans; [apply (colsum_app W L LM)|].
  eapply Req_trans; [apply (wadd_cong_l W L LM), H1|].
  eapply Req_trans; [apply wadd_cong, H2|].
  apply (Req_sym W L LM), (colsum_app W L LM).
Qed.
Lemma ceq_zeros_r l Z : (forall x, In x Z -> x = zcol W c) -> CEq (l ++ Z) l.
Proof. intros HZ k. apply (colsum_app_zeros W L c k l Z HZ). Qed.
Lemma ceq_zeros_l l Z : (forall x, In x Z -> x = zcol W c) -> CEq (Z ++ l) l.
Proof. intros HZ. eapply ceq_trans; [apply ceq_perm, Permutation_app_comm|apply ceq_zeros_r, HZ]. Qed.
Lemma ceq_tsum a b : CEq a b -> Forall2 R (tsum W c a) (tsum W c b).
Proof. intros H. apply tsum_R, H. Qed.

Lemma filled_le (m : wst (wS W)) : List.length (wfilled W m) <= w_tot m /\ List.length (wfilled W m) <= w_max m.
Proof. unfold wfilled. rewrite firstn_length. lia. Qed.
Lemma parts_le (ms : list (wst (wS W))) :
  List.length (flat_map (wfilled W) ms) <= list_sum (map (@w_tot (wS W)) ms) /\
  List.length (flat_map (wfilled W) ms) <= list_sum (map (@w_max (wS W)) ms).
Proof.
  induction ms as [|m ms IH]; cbn [flat_map map]; rewrite ?lsum_nil, ?lsum_cons; [cbn; lia|].
  rewrite app_length. pose proof (filled_le m). lia.
Qed.

Lemma wfilled_mrg_cap_unfold s ms :
  wfilled W (wmrg_cap W c s ms) =
  firstn (Nat.min (fold_left (fun a m => a + w_tot m) ms (w_tot s)) (fold_left (fun a m => a + w_max m) ms (w_max s)))
         ((wfilled W s ++ flat_map (wfilled W) ms)
          ++ repeat (zcol W c) (fold_left (fun a m => a + w_max m) ms (w_max s)
                                - List.length (wfilled W s ++ flat_map (wfilled W) ms))).
Proof. reflexivity. Qed.

(* a merged object hands over its WHOLE pool (plus unfilled zero slots) when it is merged again *)
Theorem wfilled_mrg_cap s ms :
  exists Z, wfilled W (wmrg_cap W c s ms) = (wfilled W s ++ flat_map (wfilled W) ms) ++ Z /\
            forall x, In x Z -> x = zcol W c.
Proof.
  rewrite wfilled_mrg_cap_unfold. set (parts := wfilled W s ++ flat_map (wfilled W) ms).
  assert (Hp : List.length parts <= w_tot s + list_sum (map (@w_tot (wS W)) ms) /\
               List.length parts <= w_max s + list_sum (map (@w_max (wS W)) ms)).
  { unfold parts. rewrite app_length. pose proof (filled_le s). pose proof (parts_le ms). lia. }
  rewrite tot_fold, max_fold. rewrite firstn_app, firstn_all2 by lia.
  eexists. split; [reflexivity|]. intros x Hx. apply in_firstn in Hx. apply repeat_spec in Hx. exact Hx.
Qed.

Theorem wread_mrg_cap s ms : CEq (wread W (wmrg_cap W c s ms)) (wfilled W s ++ flat_map (wfilled W) ms).
Proof.
  set (parts := wfilled W s ++ flat_map (wfilled W) ms).
  assert (Hp : List.length parts <= w_tot s + list_sum (map (@w_tot (wS W)) ms) /\
               List.length parts <= w_max s + list_sum (map (@w_max (wS W)) ms)).
  { unfold parts. rewrite app_length. pose proof (filled_le s). pose proof (parts_le ms). lia. }
  assert (Hwhole : CEq (w_buf (wmrg_cap W c s ms)) parts).
  { cbn [wmrg_cap w_buf]. fold parts. apply ceq_zeros_r. intros x Hx. apply repeat_spec in Hx. exact Hx. }
  unfold wread. destruct (wwhole W); [exact Hwhole|].
  cbn [wmrg_cap w_max w_tot]. rewrite tot_fold, max_fold.
  destruct (Nat.leb_spec (w_max s + list_sum (map (@w_max (wS W)) ms)) (w_tot s + list_sum (map (@w_tot (wS W)) ms))) as [Hge|Hlt];
    [exact Hwhole|].
  cbn [wmrg_cap w_cur w_buf]. fold parts. rewrite max_fold, Nat.mod_small by lia.
  rewrite firstn_len_app. apply ceq_refl.
Qed.

Fixpoint leaves (t : mtree Mc) : list (list wbatch) :=
  match t with
  | Shard _ us => [us]
  | Merge _ t os _ => leaves t ++ flat_map leaves os
  end.
Fixpoint nopost_c (t : mtree Mc) : bool :=
  match t with
  | Shard _ _ => true
  | Merge _ t os post => nopost_c t && forallb nopost_c os && match post with [] => true | _ => false end
  end.
(* the pooled windows of all leaves *)
Definition pooled (t : mtree Mc) : list col := flat_map (fun us => lastn N (hist us)) (leaves t).

Lemma pooled_merge t os post : pooled (Merge Mc t os post) = pooled t ++ flat_map pooled os.
Proof.
  unfold pooled. cbn [leaves]. rewrite flat_map_app. f_equal.
  induction os as [|o os IH]; cbn [flat_map]; [reflexivity|]. rewrite flat_map_app, IH. reflexivity.
Qed.

Lemma tree_pools_cap : 0 < N -> forall t : mtree Mc, nopost_c t = true ->
  CEq (wfilled W (run Mc c t)) (pooled t) /\ CEq (wread W (run Mc c t)) (pooled t).
Proof.
  intros HN. induction t as [bs|t os post IHt IHos] using mtree_ind'; intros Hn.
  - unfold pooled. cbn [run leaves flat_map]. norm. rewrite app_nil_r.
    destruct (shard_inv W c bs HN) as [Hi _]. split.
    + apply ceq_perm. apply (filled_perm W c _ _ HN Hi).
    + intros k. apply (inv_read W L c _ _ k HN Hi).
  - cbn [nopost_c] in Hn. apply andb_true_iff in Hn as [Hn Hp]. apply andb_true_iff in Hn as [Hnt Hno].
    destruct post as [|b post]; [|discriminate]. rewrite pooled_merge. cbn [run fold_left]. norm.
    assert (Hparts : CEq (wfilled W (run Mc c t) ++ flat_map (wfilled W) (map (run Mc c) os)) (pooled t ++ flat_map pooled os)).
    { apply ceq_app; [apply (IHt Hnt)|].
      clear - IHos Hno LM. induction IHos as [|o os Ho _ IH]; cbn [map flat_map forallb] in *; [apply ceq_refl|].
      apply andb_true_iff in Hno as [H1 H2]. apply ceq_app; [apply (Ho H1)|apply (IH H2)]. }
    split.
    + destruct (wfilled_mrg_cap (run Mc c t) (map (run Mc c) os)) as (Z & E & HZ). rewrite E.
      eapply ceq_trans; [apply ceq_zeros_r, HZ|exact Hparts].
    + eapply ceq_trans; [apply wread_mrg_cap|exact Hparts].
Qed.

Theorem cap_pools_any_tree (t : mtree Mc) : 0 < N -> nopost_c t = true ->
  exists lw, windowed_of (wcmp W c (run Mc c t)) = (if Nat.eqb (w_tot (run Mc c t)) 0 then None else Some (wgam W c lw)) /\
             Forall2 R lw (tsum W c (pooled t)).
Proof.
  intros HN Hn. exists (tsum W c (wread W (run Mc c t))). split.
  - unfold wcmp. destruct (Nat.eqb (w_tot (run Mc c t)) 0); reflexivity.
  - apply ceq_tsum. apply (tree_pools_cap HN t Hn).
Qed.

(* ===================================================================================== *)
(* Part D: a ring buffer of the enlarged capacity                                         *)
(* ===================================================================================== *)
(* the buffer read from the cursor: the order in which the slots will be evicted *)
Definition rotv (s : wst (wS W)) : list col := skipn (w_cur s) (w_buf s) ++ firstn (w_cur s) (w_buf s).
Definition Ring (K : nat) (s : wst (wS W)) : Prop := w_max s = K /\ List.length (w_buf s) = K /\ w_cur s < K.

Lemma rotv_length K s : Ring K s -> List.length (rotv s) = K.
Proof. intros (Hm & Hl & Hc). unfold rotv. rewrite app_length, skipn_length, firstn_length. lia. Qed.
Lemma rotv_perm s : Permutation (w_buf s) (rotv s).
Proof. unfold rotv. rewrite <- (firstn_skipn (w_cur s) (w_buf s)) at 1. apply Permutation_app_comm. Qed.

(* one update(): the slot under the cursor (the head of the queue) is evicted, the new statistic is
   appended; as long as the cursor does not wrap the prefix before it grows by that statistic *)
Lemma ring_upd K s b : Ring K s ->
  Ring K (wupd W c s b) /\ rotv (wupd W c s b) = tl (rotv s) ++ [wstat W c b] /\
  (S (w_cur s) < K -> w_cur (wupd W c s b) = S (w_cur s) /\
                      firstn (S (w_cur s)) (w_buf (wupd W c s b)) = firstn (w_cur s) (w_buf s) ++ [wstat W c b]).
Proof.
  intros (Hm & Hl & Hc). set (x := wstat W c b).
  remember (firstn (w_cur s) (w_buf s)) as F eqn:EF.
  destruct (skipn (w_cur s) (w_buf s)) as [|y G] eqn:EG.
  { assert (Hz : List.length (skipn (w_cur s) (w_buf s)) = 0) by (rewrite EG; reflexivity). rewrite skipn_length in Hz. lia. }
  assert (Eb : w_buf s = F ++ y :: G) by (rewrite <- (firstn_skipn (w_cur s) (w_buf s)), <- EF, EG; reflexivity).
  assert (HF : List.length F = w_cur s) by (rewrite EF, firstn_length; lia).
  assert (HK : K = List.length F + S (List.length G)) by (rewrite <- Hl, Eb, app_length; reflexivity).
  assert (Ebuf : w_buf (wupd W c s b) = F ++ x :: G) by (cbn [wupd w_buf]; fold x; rewrite Eb, <- HF; apply wset_mid).
  assert (Er : rotv s = (y :: G) ++ F) by (unfold rotv; rewrite <- EF, EG; reflexivity).
  assert (Ecur : w_cur (wupd W c s b) = Nat.modulo (S (List.length F)) K) by (cbn [wupd w_cur]; rewrite Hm, HF; reflexivity).
  split; [|split].
  - split; [exact Hm|split]. { rewrite Ebuf, app_length. cbn [List.length]. lia. }
    rewrite Ecur. apply Nat.mod_upper_bound. lia.
  - unfold rotv at 1. rewrite Ebuf, Ecur, Er. cbn [tl app].
    destruct (Nat.eq_dec (S (List.length F)) K) as [Hw|Hn].
    + rewrite Hw, Nat.mod_same by lia. cbn [skipn firstn]. rewrite app_nil_r.
      assert (EGn : G = []) by (destruct G; [reflexivity|cbn [List.length] in HK; lia]). subst G. reflexivity.
    + rewrite Nat.mod_small by lia.
      replace (S (List.length F)) with (List.length (F ++ [x])) by (rewrite app_length; cbn [List.length]; lia).
      replace (F ++ x :: G) with ((F ++ [x]) ++ G) by (rewrite <- app_assoc; reflexivity).
      rewrite skipn_len_app, firstn_len_app, app_assoc. reflexivity.
  - intros Hlt. rewrite <- HF in Hlt |- *. split.
    + rewrite Ecur. apply Nat.mod_small. exact Hlt.
    + rewrite Ebuf.
      replace (S (List.length F)) with (List.length (F ++ [x])) by (rewrite app_length; cbn [List.length]; lia).
      replace (F ++ x :: G) with ((F ++ [x]) ++ G) by (rewrite <- app_assoc; reflexivity).
      apply firstn_len_app.
Qed.

Lemma ring_fold K post : forall s, Ring K s ->
  Ring K (fold_left (wupd W c) post s) /\ rotv (fold_left (wupd W c) post s) = lastn K (rotv s ++ hist post).
Proof.
  induction post as [|b post IH]; intros s Hr; cbn [fold_left map].
  - split; [exact Hr|]. rewrite app_nil_r. symmetry. apply lastn_all. rewrite (rotv_length K s Hr). lia.
  - destruct (ring_upd K s b Hr) as (Hr1 & E1 & _). destruct (IH _ Hr1) as (Hr2 & E2).
    split; [exact Hr2|]. rewrite E2, E1. pose proof (rotv_length K s Hr) as Hl.
    destruct (rotv s) as [|y q0]; [destruct Hr as (_ & _ & Hc); cbn [List.length] in Hl; lia|].
    cbn [tl app]. rewrite <- app_assoc. cbn [app]. symmetry. apply lastn_cons_ge.
    cbn [List.length] in Hl. rewrite app_length. cbn [List.length]. lia.
Qed.

(* while the cursor does not wrap, the slots before it are the old ones followed by the new statistics *)
Lemma nowrap_fold K post : forall s, Ring K s -> w_cur s + List.length post < K ->
  w_cur (fold_left (wupd W c) post s) = w_cur s + List.length post /\
  firstn (w_cur s + List.length post) (w_buf (fold_left (wupd W c) post s)) = firstn (w_cur s) (w_buf s) ++ hist post.
Proof.
  induction post as [|b post IH]; intros s Hr Hlt; cbn [fold_left map List.length] in *.
  - rewrite Nat.add_0_r, app_nil_r. split; reflexivity.
  - destruct (ring_upd K s b Hr) as (Hr1 & _ & Hs). destruct (Hs ltac:(lia)) as (Ec & Ef).
    destruct (IH _ Hr1 ltac:(rewrite Ec; lia)) as (IH1 & IH2). rewrite Ec in IH1, IH2.
    replace (w_cur s + S (List.length post)) with (S (w_cur s) + List.length post) by lia.
    split; [exact IH1|]. rewrite IH2, Ef, <- app_assoc. reflexivity.
Qed.

Section AfterMerge.
Variable s : wst (wS W).
Variable ms : list (wst (wS W)).
Variable post : list wbatch.
Let K := fold_left (fun a m => a + w_max m) ms (w_max s).
Let parts := wfilled W s ++ flat_map (wfilled W) ms.
Let s0 := wmrg_cap W c s ms.
Let s' := fold_left (wupd W c) post s0.
Hypothesis HK : 0 < K.

Lemma parts_bounds : List.length parts <= w_tot s0 /\ List.length parts <= K.
Proof.
  unfold parts, s0, K. cbn [wmrg_cap w_tot]. rewrite tot_fold, max_fold, app_length.
  pose proof (filled_le s). pose proof (parts_le ms). lia.
Qed.
Lemma merged_ring : Ring K s0 /\ rotv s0 = repeat (zcol W c) (K - List.length parts) ++ parts.
Proof.
  destruct parts_bounds as [_ Hp].
  assert (Hr : Ring K s0).
  { split; [reflexivity|split].
    - unfold s0. cbn [wmrg_cap w_buf]. fold parts K. rewrite app_length, repeat_length. lia.
    - unfold s0. cbn [wmrg_cap w_cur]. fold parts K. apply Nat.mod_upper_bound. lia. }
  split; [exact Hr|]. unfold rotv, s0. cbn [wmrg_cap w_cur w_buf]. fold parts K.
  destruct (Nat.eq_dec (List.length parts) K) as [E|Hne].
  - rewrite E, Nat.mod_same, Nat.sub_diag by lia. cbn [repeat skipn firstn app]. rewrite !app_nil_r. reflexivity.
  - rewrite Nat.mod_small by lia. rewrite skipn_len_app, firstn_len_app. reflexivity.
Qed.

(* the precise statement: capacity, cursor, and the queue seen from the cursor *)
Theorem cap_queue_after_merge :
  w_max s' = K /\ w_cur s0 = Nat.modulo (List.length parts) K /\
  rotv s' = lastn K (repeat (zcol W c) (K - List.length parts) ++ parts ++ hist post).
Proof.
  destruct merged_ring as [Hr Er]. destruct (ring_fold K post s0 Hr) as [(Hm & _) E].
  split; [exact Hm|split; [reflexivity|]]. fold s' in E. rewrite E, Er, <- app_assoc. reflexivity.
Qed.

(* what compute() reads: the last K entries of  pooled slots ++ new updates *)
Theorem cap_read_after_merge : CEq (wread W s') (lastn K (parts ++ hist post)).
Proof.
  destruct merged_ring as [Hr Er]. destruct (ring_fold K post s0 Hr) as [(Hm & Hl & Hc) E]. fold s' in Hm, Hl, Hc, E.
  destruct parts_bounds as [Pt Pk].
  set (X := parts ++ hist post). set (Z := repeat (zcol W c) (K - List.length parts)).
  assert (HZ : forall x, In x Z -> x = zcol W c) by (intros x Hx; apply repeat_spec in Hx; exact Hx).
  assert (Hwhole : CEq (w_buf s') (lastn K X)).
  { eapply ceq_trans; [apply ceq_perm, rotv_perm|]. rewrite E, Er, <- app_assoc. fold X Z.
    destruct (le_lt_dec K (List.length X)) as [Hge|Hlt].
    - rewrite lastn_app_ge by exact Hge. apply ceq_refl.
    - rewrite (lastn_all K X) by lia. unfold lastn. rewrite skipn_app.
      replace (List.length (Z ++ X) - K - List.length Z) with 0
        by (rewrite app_length; unfold Z; rewrite repeat_length; lia).
      cbn [skipn]. apply ceq_zeros_l. intros x Hx. apply in_skipn in Hx. apply HZ, Hx. }
  unfold wread. destruct (wwhole W); [exact Hwhole|].
  rewrite Hm. unfold s' at 1. rewrite tot_fold_upd.
  destruct (Nat.leb_spec K (w_tot s0 + List.length post)) as [Hge|Hlt]; [exact Hwhole|].
  assert (Ec0 : w_cur s0 = List.length parts).
  { unfold s0. cbn [wmrg_cap w_cur]. fold parts K. apply Nat.mod_small. lia. }
  destruct (nowrap_fold K post s0 Hr ltac:(rewrite Ec0; lia)) as (Ec & Ef). fold s' in Ec, Ef.
  rewrite Ec, Ef, Ec0. unfold s0 at 1. cbn [wmrg_cap w_buf]. fold parts K. rewrite firstn_len_app. fold X.
  rewrite lastn_all; [apply ceq_refl|]. unfold X. rewrite app_length, map_length. lia.
Qed.

Theorem cap_value_after_merge :
  exists lw, windowed_of (wcmp W c s') = (if Nat.eqb (w_tot s') 0 then None else Some (wgam W c lw)) /\
             Forall2 R lw (tsum W c (lastn K (parts ++ hist post))).
Proof.
  exists (tsum W c (wread W s')). split.
  - unfold wcmp. destruct (Nat.eqb (w_tot s') 0); reflexivity.
  - apply ceq_tsum, cap_read_after_merge.
Qed.

(* after K (or more) further updates: exactly the last K of them *)
Theorem cap_value_after_merge_full : K <= List.length post ->
  exists lw, windowed_of (wcmp W c s') = Some (wgam W c lw) /\ Forall2 R lw (tsum W c (lastn K (hist post))).
Proof.
  intros Hge. destruct cap_value_after_merge as (lw & E & Hlw). exists lw. split.
  - rewrite E. assert (Hpos : w_tot s' <> 0) by (unfold s'; rewrite tot_fold_upd; lia).
    apply Nat.eqb_neq in Hpos. rewrite Hpos. reflexivity.
  - rewrite lastn_app_ge in Hlw by (rewrite map_length; exact Hge). exact Hlw.
Qed.
End AfterMerge.

(* ---- the same at tree level: the root  Merge t os post  of ANY tree (K = N * number of leaves) ---- *)
Lemma nleaves_pos : forall t : mtree Mc, 0 < nleaves t.
Proof. induction t as [bs|t os post IHt _] using mtree_ind'; cbn [nleaves]; lia. Qed.
Lemma cap_K_tree t os post :
  fold_left (fun a m => a + w_max m) (map (run Mc c) os) (w_max (run Mc c t)) = N * nleaves (Merge Mc t os post).
Proof. exact (cap_capacity_any_tree (Merge Mc t os [])). Qed.

Theorem cap_update_after_merge_tree (t : mtree Mc) (os : list (mtree Mc)) (post : list wbatch) : 0 < N ->
  let K := N * nleaves (Merge Mc t os post) in
  let parts := wfilled W (run Mc c t) ++ flat_map (wfilled W) (map (run Mc c) os) in
  let s0 := wmrg_cap W c (run Mc c t) (map (run Mc c) os) in
  let s' := run Mc c (Merge Mc t os post) in
  (w_max s' = K /\ w_cur s0 = Nat.modulo (List.length parts) K /\
   rotv s' = lastn K (repeat (zcol W c) (K - List.length parts) ++ parts ++ hist post)) /\
  (exists lw, windowed_of (wcmp W c s') = (if Nat.eqb (w_tot s') 0 then None else Some (wgam W c lw)) /\
              Forall2 R lw (tsum W c (lastn K (parts ++ hist post)))) /\
  (K <= List.length post ->
   exists lw, windowed_of (wcmp W c s') = Some (wgam W c lw) /\ Forall2 R lw (tsum W c (lastn K (hist post)))).
Proof.
  intros HN K parts s0 s'.
  assert (HK : 0 < fold_left (fun a m => a + w_max m) (map (run Mc c) os) (w_max (run Mc c t))).
  { rewrite (cap_K_tree t os post). pose proof (nleaves_pos (Merge Mc t os post)). nia. }
  pose proof (cap_queue_after_merge (run Mc c t) (map (run Mc c) os) post HK) as H1.
  pose proof (cap_value_after_merge (run Mc c t) (map (run Mc c) os) post HK) as H2.
  pose proof (cap_value_after_merge_full (run Mc c t) (map (run Mc c) os) post HK) as H3.
  rewrite (cap_K_tree t os post) in H1, H2, H3.
  split; [exact H1|split; [exact H2|exact H3]].
Qed.

(* ---- when the statistic's equivalence is plain equality: clean statements ---- *)
Hypothesis R_eq : forall x y, R x y -> x = y.

Theorem cap_lifetime_any_tree_eq (t : mtree Mc) : cLife c = true ->
  lifetime_of (wcmp W c (run Mc c t))
  = (if Nat.eqb (List.length (stream Mc t)) 0 then None else Some (win_ref W c (stream Mc t))).
Proof.
  intros Hc. destruct (cap_lifetime_any_tree t Hc) as (ll & E & Hll). rewrite E.
  rewrite (Forall2_eq _ _ _ R_eq Hll). reflexivity.
Qed.
Theorem cap_lifetime_after_tree_then_updates_eq (t : mtree Mc) (post : list wbatch) : cLife c = true ->
  lifetime_of (wcmp W c (fold_left (wupd W c) post (run Mc c t)))
  = (if Nat.eqb (List.length (stream Mc t ++ post)) 0 then None else Some (win_ref W c (stream Mc t ++ post))).
Proof.
  intros Hc. destruct (cap_lifetime_after_tree_then_updates t post Hc) as (ll & _ & E & Hll). rewrite E.
  rewrite (Forall2_eq _ _ _ R_eq Hll). reflexivity.
Qed.
Lemma pooled_batches (ls : list (list wbatch)) :
  map (wstat W c) (flat_map (lastn N) ls) = flat_map (fun us => lastn N (hist us)) ls.
Proof.
  induction ls as [|us ls IH]; cbn [flat_map map]; [reflexivity|]. rewrite map_app, IH, lastn_map. reflexivity.
Qed.
Theorem cap_pools_any_tree_eq (t : mtree Mc) : 0 < N -> nopost_c t = true ->
  windowed_of (wcmp W c (run Mc c t))
  = (if Nat.eqb (w_tot (run Mc c t)) 0 then None else Some (win_ref W c (flat_map (lastn N) (leaves t)))).
Proof.
  intros HN Hn. destruct (cap_pools_any_tree t HN Hn) as (lw & E & Hlw). rewrite E.
  rewrite (Forall2_eq _ _ _ R_eq Hlw). unfold win_ref, pooled. rewrite pooled_batches. reflexivity.
Qed.
Theorem cap_value_after_merge_full_eq s ms post :
  let K := fold_left (fun a m => a + w_max m) ms (w_max s) in
  0 < K -> K <= List.length post ->
  windowed_of (wcmp W c (fold_left (wupd W c) post (wmrg_cap W c s ms))) = Some (win_ref W c (lastn K post)).
Proof.
  intros K HK Hge. destruct (cap_value_after_merge_full s ms post HK Hge) as (lw & E & Hlw). rewrite E.
  rewrite (Forall2_eq _ _ _ R_eq Hlw). unfold win_ref. rewrite lastn_map. reflexivity.
Qed.
Theorem cap_update_after_merge_tree_full_eq (t : mtree Mc) (os : list (mtree Mc)) (post : list wbatch) : 0 < N ->
  let K := N * nleaves (Merge Mc t os post) in
  K <= List.length post ->
  windowed_of (wcmp W c (run Mc c (Merge Mc t os post))) = Some (win_ref W c (lastn K post)).
Proof.
  intros HN K Hge. destruct (cap_update_after_merge_tree t os post HN) as (_ & _ & H3).
  destruct (H3 Hge) as (lw & E & Hlw). rewrite E.
  rewrite (Forall2_eq _ _ _ R_eq Hlw). unfold win_ref. rewrite lastn_map. reflexivity.
Qed.
End CapProofs.
