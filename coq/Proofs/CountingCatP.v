(* C03 / C12 for the count-based classification metrics: update() on any non-empty sequence of valid
   batches followed by compute() equals the functional form [fn_of S c] (the very definition the
   `@model ..._fn` entry points run) applied once to the concatenation of the batches.
   The non-empty formulation avoids an empty batch (the confusion-matrix input check rejects one, and
   an empty (0, w) score tensor has no width in the model). *)
From Coq Require Import ZArith List Bool QArith Qcanon Lia Permutation.
From TE Require Import Base.Val Base.Nd Base.Xq Algebra.Metric Algebra.MergeTree Algebra.Additive
  Models.Counting Proofs.CountingP.
Import ListNotations.
Open Scope Z_scope.

(* ------------------------------------------------------------------------------------------ *)
(* generic: additive metric, concatenation of a non-empty list of batches                       *)
(* ------------------------------------------------------------------------------------------ *)
Section CatGen.
Variable S : AddSpec.
Variable c : acfg S.
Variable ok : abatch S -> Prop.                       (* valid for c (+ shape compatibility between batches) *)
Variable bcat : abatch S -> abatch S -> abatch S.
Hypothesis ok_valid : forall b, ok b -> avalid S c b = true.
Hypothesis ok_cat : forall b1 b2, ok b1 -> ok b2 -> ok (bcat b1 b2).
Hypothesis beta_cat : forall b1 b2, ok b1 -> ok b2 -> abeta S c (bcat b1 b2) = nadd (abeta S c b1) (abeta S c b2).

Definition cat_all (b : abatch S) (rest : list (abatch S)) : abatch S := fold_left bcat rest b.
Definition class_run (bs : list (abatch S)) : aout S :=
  cmp (add_metric S) c (fold_left (upd (add_metric S) c) bs (init (add_metric S) c)).

Lemma fold_cat : forall rest b, ok b -> Forall ok rest ->
  fold_left (fun s x => nadd s (abeta S c x)) rest (abeta S c b) = abeta S c (cat_all b rest) /\ ok (cat_all b rest).
Proof.
  induction rest as [|x rest IH]; intros b Hb Hr; cbn [fold_left cat_all]; [split; [reflexivity|exact Hb]|].
  inversion Hr as [|? ? Hx Hr']; subst. rewrite <- (beta_cat b x Hb Hx). apply IH; [apply ok_cat; assumption|exact Hr'].
Qed.
Theorem class_eq_fn_nonempty b rest : ok b -> Forall ok rest ->
  class_run (b :: rest) = fn_of S c (cat_all b rest).
Proof.
  intros Hb Hr. unfold class_run, fn_of.
  change (agamma S c (fold_left (fun s x => nadd s (abeta S c x)) rest (nadd (azero S c) (abeta S c b)))
          = agamma S c (abeta S c (cat_all b rest))).
  rewrite (nadd_zero_l (azero S c) (abeta S c b) (azero_zero S c) (abeta_shape S c b (ok_valid b Hb))).
  destruct (fold_cat rest b Hb Hr) as [H _]. rewrite H. reflexivity.
Qed.
Lemma cat_all_ok b rest : ok b -> Forall ok rest -> avalid S c (cat_all b rest) = true.
Proof. intros Hb Hr. apply ok_valid. apply (fold_cat rest b Hb Hr). Qed.
(* two batchings whose concatenations carry the same statistic give the same result *)
Theorem batching_invariant_nonempty b rest b' rest' : ok b -> Forall ok rest -> ok b' -> Forall ok rest' ->
  abeta S c (cat_all b rest) = abeta S c (cat_all b' rest') ->
  class_run (b :: rest) = class_run (b' :: rest').
Proof. intros. rewrite !class_eq_fn_nonempty by assumption. unfold fn_of. congruence. Qed.
End CatGen.

(* order of updates: every additive-family class *)
Theorem order_invariant (S : AddSpec) (c : acfg S) bs bs' :
  Forall (fun b => avalid S c b = true) bs -> Permutation bs bs' -> class_run S c bs = class_run S c bs'.
Proof.
  intros Hv Hp. unfold class_run.
  apply (merge_tree_any_sharding (add_metric S) (add_alg S) c (add_alg_comm S) (Shard (add_metric S) bs) (Shard (add_metric S) bs')); cbn [stream]; try assumption.
  eapply Permutation_Forall; eassumption.
Qed.

(* ------------------------------------------------------------------------------------------ *)
(* nadd on encoded count states                                                                *)
(* ------------------------------------------------------------------------------------------ *)
Lemma nadd_zsc a b : nadd (zsc a) (zsc b) = zsc (a + b).
Proof. unfold zsc. cbn [nadd]. rewrite z2q_add. reflexivity. Qed.
Lemma nadd_zvec_tab {X} (f g : X -> Z) l : nadd (zvec (map f l)) (zvec (map g l)) = zvec (map (fun c => f c + g c) l).
Proof.
  unfold zvec, nvec. rewrite nadd_arr. f_equal. induction l as [|x l IH]; [reflexivity|]. cbn [map map2]. rewrite IH.
  cbn [nadd]. rewrite z2q_add. reflexivity.
Qed.
Lemma nadd_zmat_tab {X Y} (F G : X -> Y -> Z) l l' :
  nadd (zmat (map (fun i => map (F i) l') l)) (zmat (map (fun i => map (G i) l') l))
  = zmat (map (fun i => map (fun j => F i j + G i j) l') l).
Proof.
  unfold zmat. rewrite nadd_arr. f_equal. induction l as [|x l IH]; [reflexivity|]. cbn [map map2]. rewrite IH, nadd_zvec_tab. reflexivity.
Qed.
Lemma nadd_arr1 a a' : nadd (Arr [a]) (Arr [a']) = Arr [nadd a a'].
Proof. rewrite nadd_arr. reflexivity. Qed.
Lemma nadd_arr2 a b a' b' : nadd (Arr [a; b]) (Arr [a'; b']) = Arr [nadd a a'; nadd b b'].
Proof. rewrite nadd_arr. reflexivity. Qed.
Lemma nadd_arr3 a b d a' b' d' : nadd (Arr [a; b; d]) (Arr [a'; b'; d']) = Arr [nadd a a'; nadd b b'; nadd d d'].
Proof. rewrite nadd_arr. reflexivity. Qed.

(* lists *)
Lemma combine_app {X Y} (a1 a2 : list X) (b1 b2 : list Y) : List.length a1 = List.length b1 ->
  combine (a1 ++ a2) (b1 ++ b2) = combine a1 b1 ++ combine a2 b2.
Proof. revert b1. induction a1 as [|x a1 IH]; intros [|y b1] H; cbn in *; try discriminate; [reflexivity|]. f_equal. apply IH. lia. Qed.
Lemma sumZ_app a b : sumZ (a ++ b) = sumZ a + sumZ b.
Proof. induction a as [|x a IH]; [reflexivity|]. cbn [app]. rewrite !sumZ_cons, IH. lia. Qed.
Lemma lenZ_app {X} (a b : list X) : lenZ (a ++ b) = lenZ a + lenZ b.
Proof. unfold lenZ. rewrite app_length. lia. Qed.
Lemma sum_where_app c p q : sum_where c (p ++ q) = sum_where c p + sum_where c q.
Proof. unfold sum_where. rewrite filter_app, map_app, sumZ_app. reflexivity. Qed.
Lemma forallb_app' {X} (P : X -> bool) a b : forallb P a = true -> forallb P b = true -> forallb P (a ++ b) = true.
Proof. intros H1 H2. rewrite forallb_app, H1, H2. reflexivity. Qed.
Lemma tp_app c p q : tp c (p ++ q) = tp c p + tp c q. Proof. apply cnt_app. Qed.
Lemma fp_app c p q : fp c (p ++ q) = fp c p + fp c q. Proof. apply cnt_app. Qed.
Lemma support_app c p q : support (p ++ q) c = support p c + support q c.
Proof. unfold support, fn. rewrite tp_app, cnt_app. lia. Qed.
Lemma cell_app i j p q : cm_cell (p ++ q) i j = cm_cell p i j + cm_cell q i j. Proof. apply cnt_app. Qed.

(* ------------------------------------------------------------------------------------------ *)
(* multiclass batches                                                                          *)
(* ------------------------------------------------------------------------------------------ *)
(* two score batches concatenate as scores; otherwise the predicted labels are concatenated *)
Definition mc_cat (b1 b2 : mcbatch) : mcbatch :=
  (match fst b1, fst b2 with
   | Logits r1, Logits r2 => Logits (r1 ++ r2)
   | i1, i2 => Labels (preds i1 ++ preds i2)
   end, snd b1 ++ snd b2).
(* score batches, if any, have width w *)
Definition width_is (w : nat) (b : mcbatch) : Prop := forall rows, fst b = Logits rows -> width rows = w.

Lemma preds_cat b1 b2 : preds (fst (mc_cat b1 b2)) = preds (fst b1) ++ preds (fst b2).
Proof. unfold mc_cat. cbn [fst]. destruct (fst b1), (fst b2); cbn [preds]; try reflexivity. apply map_app. Qed.
Lemma pairs_cat b1 b2 : aligned b1 -> pairs (mc_cat b1 b2) = pairs b1 ++ pairs b2.
Proof. intros H. unfold pairs. rewrite preds_cat. cbn [mc_cat snd]. apply combine_app. exact H. Qed.
Lemma snd_cat b1 b2 : snd (mc_cat b1 b2) = snd b1 ++ snd b2. Proof. reflexivity. Qed.

Lemma shape_cat nc w b1 b2 : mc_shape_ok nc b1 = true -> mc_shape_ok nc b2 = true -> width_is w b1 -> width_is w b2 ->
  mc_shape_ok nc (mc_cat b1 b2) = true /\ width_is w (mc_cat b1 b2).
Proof.
  intros H1 H2 W1 W2. pose proof (shape_aligned _ _ H1) as A1. pose proof (shape_aligned _ _ H2) as A2.
  unfold aligned in *. unfold mc_shape_ok, width_is in *. destruct b1 as [i1 t1], b2 as [i2 t2]. cbn [fst snd mc_cat] in *.
  apply andb_prop in H1 as [L1 S1]. apply andb_prop in H2 as [L2 S2].
  destruct i1 as [l1|r1], i2 as [l2|r2]; cbn [preds mc_len] in *;
    try (split; [rewrite andb_true_r, !app_length, ?map_length in *; apply Nat.eqb_eq; lia|intros rows Hr; discriminate]).
  apply Nat.eqb_eq in L1. apply Nat.eqb_eq in L2.
  apply andb_prop in S1 as [S1 N1]. apply andb_prop in S1 as [P1 R1]. apply andb_prop in S2 as [S2 N2]. apply andb_prop in S2 as [P2 R2].
  specialize (W1 r1 eq_refl). specialize (W2 r2 eq_refl).
  assert (Hw : width (r1 ++ r2) = width r1).
  { destruct r1 as [|x r1]; [cbn in P1; discriminate|reflexivity]. }
  split.
  - rewrite Hw. apply andb_true_intro. split; [apply Nat.eqb_eq; rewrite !app_length; lia|].
    rewrite P1, N1. cbn [andb]. rewrite andb_true_r. unfold rect in *. apply forallb_app'; [exact R1|]. rewrite W1, <- W2. exact R2.
  - intros rows Hr. injection Hr as <-. rewrite Hw. exact W1.
Qed.

(* --- precision / recall / F1 --- *)
Definition prf_ok (c : prf_cfg) (w : nat) (b : mcbatch) : Prop := prf_valid c b = true /\ width_is w b.
Lemma prf_ok_cat c w b1 b2 : prf_ok c w b1 -> prf_ok c w b2 -> prf_ok c w (mc_cat b1 b2).
Proof.
  intros [V1 W1] [V2 W2]. unfold prf_ok, prf_valid in *.
  apply andb_prop in V1 as [S1 E1]. apply andb_prop in V2 as [S2 E2].
  destruct (shape_cat (snd c) w b1 b2 S1 S2 W1 W2) as [Hs Hw]. split; [|exact Hw]. rewrite Hs. cbn [andb].
  destruct (is_micro (fst c)); [reflexivity|].
  apply andb_prop in E1 as [T1 P1]. apply andb_prop in E2 as [T2 P2]. rewrite preds_cat, snd_cat.
  rewrite !forallb_app'; try assumption. reflexivity.
Qed.
Lemma prf_ok_aligned c w b : prf_ok c w b -> aligned b.
Proof. intros [V _]. unfold prf_valid in V. apply andb_prop in V as [S _]. apply (shape_aligned _ _ S). Qed.

Lemma prec_beta_cat c w b1 b2 : prf_ok c w b1 -> prf_ok c w b2 ->
  prec_beta c (mc_cat b1 b2) = nadd (prec_beta c b1) (prec_beta c b2).
Proof.
  intros O1 O2. unfold prec_beta. rewrite (pairs_cat b1 b2 (prf_ok_aligned _ _ _ O1)).
  destruct (is_micro (fst c)).
  - unfold sel_ne, sel_eq. rewrite nadd_arr3, !nadd_zsc, !filter_app, !lenZ_app. reflexivity.
  - rewrite !vec_fp, !vec_tp, !vec_support, nadd_arr3, !nadd_zvec_tab.
    f_equal. f_equal; [|f_equal; [|f_equal]]; f_equal; apply map_ext; intros k; [apply fp_app|apply support_app|apply tp_app].
Qed.
Lemma rec_beta_cat c w b1 b2 : prf_ok c w b1 -> prf_ok c w b2 ->
  rec_beta c (mc_cat b1 b2) = nadd (rec_beta c b1) (rec_beta c b2).
Proof.
  intros O1 O2. unfold rec_beta. rewrite (pairs_cat b1 b2 (prf_ok_aligned _ _ _ O1)), snd_cat.
  destruct (is_micro (fst c)).
  - unfold sel_eq. rewrite nadd_arr3, !nadd_zsc, !filter_app, !lenZ_app. reflexivity.
  - rewrite !vec_npred, !vec_tp, !vec_support, nadd_arr3, !nadd_zvec_tab.
    f_equal. f_equal; [|f_equal; [|f_equal]]; f_equal; apply map_ext; intros k; [apply support_app| |apply tp_app].
    rewrite tp_app, fp_app. lia.
Qed.
Lemma f1_beta_cat c w b1 b2 : prf_ok c w b1 -> prf_ok c w b2 ->
  f1_beta c (mc_cat b1 b2) = nadd (f1_beta c b1) (f1_beta c b2).
Proof. exact (rec_beta_cat c w b1 b2). Qed.

(* --- confusion matrix --- *)
Definition cm_ok (c : cm_cfg) (b : mcbatch) : Prop := cm_valid c b = true.
Lemma cm_width c b : cm_ok c b -> width_is (fst c) b.
Proof.
  unfold cm_ok, cm_valid, mc_shape_ok, width_is. intros V rows Hr. rewrite Hr in V.
  apply andb_prop in V as [V _]. apply andb_prop in V as [V _]. apply andb_prop in V as [V _]. apply andb_prop in V as [_ V].
  apply andb_prop in V as [_ V]. apply Nat.eqb_eq in V. exact V.
Qed.
Lemma cm_ok_cat c b1 b2 : cm_ok c b1 -> cm_ok c b2 -> cm_ok c (mc_cat b1 b2).
Proof.
  intros V1 V2. pose proof (cm_width c b1 V1) as W1. pose proof (cm_width c b2 V2) as W2. unfold cm_ok, cm_valid in *.
  apply andb_prop in V1 as [V1 P1]. apply andb_prop in V1 as [V1 T1]. apply andb_prop in V1 as [S1 N1].
  apply andb_prop in V2 as [V2 P2]. apply andb_prop in V2 as [V2 T2]. apply andb_prop in V2 as [S2 N2].
  destruct (shape_cat _ _ b1 b2 S1 S2 W1 W2) as [Hs _]. rewrite Hs, preds_cat, snd_cat, !forallb_app' by assumption.
  rewrite !andb_true_r. cbn [andb]. apply Nat.leb_le. rewrite app_length. apply Nat.leb_le in N1. lia.
Qed.
Lemma cm_beta_cat c b1 b2 : cm_ok c b1 -> cm_ok c b2 -> cm_beta c (mc_cat b1 b2) = nadd (cm_beta c b1) (cm_beta c b2).
Proof.
  intros V1 V2. unfold cm_beta. rewrite pairs_cat.
  - rewrite !coo_dense_spec, nadd_arr1, nadd_zmat_tab. do 3 f_equal. apply map_ext. intros i. apply map_ext. intros j. apply cell_app.
  - unfold cm_ok, cm_valid in V1. apply andb_prop in V1 as [V1 _]. apply andb_prop in V1 as [V1 _]. apply andb_prop in V1 as [S1 _].
    apply (shape_aligned _ _ S1).
Qed.

(* --- multiclass accuracy --- *)
Definition acc_ok (c : acc_cfg) (w : nat) (b : mcbatch) : Prop := acc_valid c b = true /\ width_is w b.
Lemma acc_ok_shape c w b : acc_ok c w b -> mc_shape_ok (acc_nc c) b = true.
Proof. intros [V _]. unfold acc_valid in V. apply andb_prop in V as [V _]. apply andb_prop in V as [V _]. exact V. Qed.
Lemma acc_ok_cat c w b1 b2 : acc_ok c w b1 -> acc_ok c w b2 -> acc_ok c w (mc_cat b1 b2).
Proof.
  intros O1 O2. pose proof (acc_ok_shape _ _ _ O1) as S1. pose proof (acc_ok_shape _ _ _ O2) as S2.
  destruct O1 as [V1 W1], O2 as [V2 W2]. destruct (shape_cat _ w b1 b2 S1 S2 W1 W2) as [Hs Hw]. split; [|exact Hw].
  unfold acc_valid in *. rewrite Hs. cbn [andb].
  apply andb_prop in V1 as [V1 M1]. apply andb_prop in V1 as [_ K1]. apply andb_prop in V2 as [V2 M2]. apply andb_prop in V2 as [_ K2].
  apply andb_true_intro. split.
  - destruct (Nat.eqb (acc_k c) 1); [reflexivity|]. destruct b1 as [[l1|r1] t1]; [discriminate|]. destruct b2 as [[l2|r2] t2]; [discriminate|].
    cbn [mc_cat fst snd] in *. specialize (W1 r1 eq_refl). specialize (W2 r2 eq_refl). specialize (Hw _ eq_refl).
    rewrite Hw. rewrite W1 in K1. rewrite W2 in K2. apply forallb_app'; assumption.
  - destruct (is_micro (acc_avg c)); [reflexivity|]. rewrite snd_cat. apply forallb_app'; assumption.
Qed.
Lemma acc_mask_cat c w b1 b2 : acc_ok c w b1 -> acc_ok c w b2 -> acc_mask c (mc_cat b1 b2) = acc_mask c b1 ++ acc_mask c b2.
Proof.
  intros O1 O2. pose proof (acc_ok_shape _ _ _ O1) as S1. unfold acc_mask. destruct (Nat.eqb (acc_k c) 1) eqn:K.
  - rewrite (pairs_cat b1 b2 (shape_aligned _ _ S1)), map_app. reflexivity.
  - destruct O1 as [V1 _], O2 as [V2 _]. unfold acc_valid in V1, V2. rewrite K in V1, V2.
    destruct b1 as [[l1|r1] t1]; [cbn in V1; rewrite andb_false_r in V1; discriminate|].
    destruct b2 as [[l2|r2] t2]; [cbn in V2; rewrite andb_false_r in V2; discriminate|].
    cbn [mc_cat fst snd]. rewrite combine_app, map_app; [reflexivity|].
    unfold mc_shape_ok in S1. cbn [fst snd mc_len] in S1. apply andb_prop in S1 as [L _]. apply Nat.eqb_eq in L. exact L.
Qed.
Lemma acc_beta_cat c w b1 b2 : acc_ok c w b1 -> acc_ok c w b2 -> acc_beta c (mc_cat b1 b2) = nadd (acc_beta c b1) (acc_beta c b2).
Proof.
  intros O1 O2. unfold acc_beta. rewrite (acc_mask_cat c w b1 b2 O1 O2), snd_cat. destruct (is_micro (acc_avg c)).
  - rewrite nadd_arr2, !nadd_zsc, map_app, sumZ_app, lenZ_app. reflexivity.
  - rewrite !scatter_add_spec, !scatter_ones_spec, nadd_arr2, !nadd_zvec_tab. f_equal. f_equal; [|f_equal]; f_equal; apply map_ext; intros k.
    + rewrite !combine_map, map_app. apply sum_where_app.
    + apply cnt_app.
Qed.

(* ------------------------------------------------------------------------------------------ *)
(* binary batches                                                                              *)
(* ------------------------------------------------------------------------------------------ *)
Definition bin_cat (b1 b2 : binbatch) : binbatch := (fst b1 ++ fst b2, snd b1 ++ snd b2).
Definition bin_ok (b : binbatch) : Prop := bin_valid b = true.
Lemma bin_ok_cat b1 b2 : bin_ok b1 -> bin_ok b2 -> bin_ok (bin_cat b1 b2).
Proof.
  unfold bin_ok, bin_valid, bin_cat. cbn [fst snd]. intros V1 V2. apply andb_prop in V1 as [L1 T1]. apply andb_prop in V2 as [L2 T2].
  apply Nat.eqb_eq in L1. apply Nat.eqb_eq in L2. rewrite (forallb_app' _ _ _ T1 T2), andb_true_r. apply Nat.eqb_eq. rewrite !app_length. lia.
Qed.
Lemma bin_pairs_cat t b1 b2 : bin_ok b1 -> bin_pairs t (bin_cat b1 b2) = bin_pairs t b1 ++ bin_pairs t b2.
Proof.
  unfold bin_ok, bin_valid, bin_pairs, bin_cat. cbn [fst snd]. intros V1. apply andb_prop in V1 as [L1 _]. apply Nat.eqb_eq in L1.
  rewrite map_app. apply combine_app. rewrite map_length. exact L1.
Qed.
Ltac bin_beta_cat := intros O1 O2; cbv beta delta [binacc_beta binprec_beta binrec_beta binf1_beta]; cbv zeta;
  rewrite (bin_pairs_cat _ _ _ O1); cbn [bin_cat snd];
  rewrite ?nadd_arr2, ?nadd_arr3, !nadd_zsc, !map_app, !sumZ_app, ?lenZ_app; try reflexivity; repeat (f_equal; try lia).
Lemma binacc_beta_cat t b1 b2 : bin_ok b1 -> bin_ok b2 -> binacc_beta t (bin_cat b1 b2) = nadd (binacc_beta t b1) (binacc_beta t b2).
Proof. bin_beta_cat. Qed.
Lemma binprec_beta_cat t b1 b2 : bin_ok b1 -> bin_ok b2 -> binprec_beta t (bin_cat b1 b2) = nadd (binprec_beta t b1) (binprec_beta t b2).
Proof. bin_beta_cat. Qed.
Lemma binrec_beta_cat t b1 b2 : bin_ok b1 -> bin_ok b2 -> binrec_beta t (bin_cat b1 b2) = nadd (binrec_beta t b1) (binrec_beta t b2).
Proof. bin_beta_cat. Qed.
Lemma binf1_beta_cat t b1 b2 : bin_ok b1 -> bin_ok b2 -> binf1_beta t (bin_cat b1 b2) = nadd (binf1_beta t b1) (binf1_beta t b2).
Proof. bin_beta_cat. Qed.
Lemma bincm_beta_cat c b1 b2 : bin_ok b1 -> bin_ok b2 -> bincm_beta c (bin_cat b1 b2) = nadd (bincm_beta c b1) (bincm_beta c b2).
Proof.
  intros O1 O2. unfold bincm_beta. rewrite (bin_pairs_cat _ _ _ O1), !coo_dense_spec, nadd_arr1, nadd_zmat_tab.
  do 3 f_equal. apply map_ext. intros i. apply map_ext. intros j. apply cell_app.
Qed.

(* ------------------------------------------------------------------------------------------ *)
(* multilabel / top-k multilabel batches                                                       *)
(* ------------------------------------------------------------------------------------------ *)
Definition ml_cat (b1 b2 : mlbatch) : mlbatch := (fst b1 ++ fst b2, snd b1 ++ snd b2).
Definition ml_ok (w : nat) (b : mlbatch) : Prop := ml_shape_ok b = true /\ width (fst b) = w.
Lemma ml_len b : ml_shape_ok b = true -> List.length (fst b) = List.length (snd b).
Proof. unfold ml_shape_ok. intros V. repeat (apply andb_prop in V as [V _]). apply Nat.eqb_eq in V. exact V. Qed.
Lemma ml_ok_cat w b1 b2 : ml_ok w b1 -> ml_ok w b2 -> ml_ok w (ml_cat b1 b2).
Proof.
  intros [V1 W1] [V2 W2]. pose proof (ml_len _ V1) as L1. pose proof (ml_len _ V2) as L2. unfold ml_ok, ml_shape_ok, ml_cat in *. cbn [fst snd] in *.
  apply andb_prop in V1 as [V1 B1]. apply andb_prop in V1 as [V1 Y1]. apply andb_prop in V1 as [V1 X1]. apply andb_prop in V1 as [_ P1].
  apply andb_prop in V2 as [V2 B2]. apply andb_prop in V2 as [V2 Y2]. apply andb_prop in V2 as [V2 X2]. apply andb_prop in V2 as [_ P2].
  assert (Hw : width (fst b1 ++ fst b2) = width (fst b1)).
  { destruct (fst b1) as [|x r1]; [cbn in P1; discriminate|reflexivity]. }
  rewrite Hw. split; [|exact W1]. rewrite W1 in *. rewrite W2 in *. unfold rect in *.
  rewrite P1, !forallb_app' by assumption. rewrite !andb_true_r. apply Nat.eqb_eq. rewrite !app_length. lia.
Qed.
Lemma ml_rows_cat t b1 b2 : ml_shape_ok b1 = true -> ml_rows t (ml_cat b1 b2) = ml_rows t b1 ++ ml_rows t b2.
Proof. intros V1. unfold ml_rows, ml_cat. cbn [fst snd]. rewrite combine_app by (apply ml_len; exact V1). apply map_app. Qed.
Lemma ml_update_app cr r1 r2 :
  ml_update cr (r1 ++ r2) = (fst (ml_update cr r1) + fst (ml_update cr r2), snd (ml_update cr r1) + snd (ml_update cr r2)).
Proof. destruct cr; cbn [ml_update fst snd]; rewrite !map_app, !sumZ_app, ?lenZ_app; f_equal; lia. Qed.
Lemma mlacc_beta_cat c w b1 b2 : ml_ok w b1 -> ml_ok w b2 -> mlacc_beta c (ml_cat b1 b2) = nadd (mlacc_beta c b1) (mlacc_beta c b2).
Proof.
  intros [V1 _] _. unfold mlacc_beta. cbv zeta. rewrite (ml_rows_cat _ _ _ V1), ml_update_app, nadd_arr2, !nadd_zsc. reflexivity.
Qed.

Definition tk_cat (b1 b2 : tkbatch) : tkbatch :=
  ((tk_scores b1 ++ tk_scores b2, tk_targets b1 ++ tk_targets b2), tk_sel b1 ++ tk_sel b2).
Definition tk_ok (c : tk_cfg) (w : nat) (b : tkbatch) : Prop := tk_valid c b = true /\ width (tk_scores b) = w.
Lemma tk_ok_cat c w b1 b2 : tk_ok c w b1 -> tk_ok c w b2 -> tk_ok c w (tk_cat b1 b2).
Proof.
  intros [V1 W1] [V2 W2]. unfold tk_ok, tk_valid in *.
  apply andb_prop in V1 as [V1 A1]. apply andb_prop in V1 as [V1 L1]. apply andb_prop in V1 as [S1 K1].
  apply andb_prop in V2 as [V2 A2]. apply andb_prop in V2 as [V2 L2]. apply andb_prop in V2 as [S2 K2].
  destruct (ml_ok_cat w (tk_scores b1, tk_targets b1) (tk_scores b2, tk_targets b2)) as [Hs Hw]; [split; assumption|split; assumption|].
  unfold ml_cat in Hs, Hw. cbn [fst snd] in Hs, Hw.
  unfold tk_cat, tk_scores, tk_targets, tk_sel in *. cbn [fst snd] in *. split; [|exact Hw].
  rewrite Hs, Hw. rewrite W1 in K1. rewrite K1. cbn [andb]. apply Nat.eqb_eq in L1. apply Nat.eqb_eq in L2.
  rewrite combine_app by (symmetry; exact L1). rewrite forallb_app' by assumption. rewrite andb_true_r. apply Nat.eqb_eq. rewrite !app_length. lia.
Qed.
Lemma tk_rows_cat c b1 b2 : tk_valid c b1 = true -> tk_rows (tk_cat b1 b2) = tk_rows b1 ++ tk_rows b2.
Proof.
  intros V1. unfold tk_valid in V1. apply andb_prop in V1 as [V1 _]. apply andb_prop in V1 as [V1 L1]. apply andb_prop in V1 as [S1 _].
  pose proof (ml_len _ S1) as L0. cbn [fst snd] in L0. apply Nat.eqb_eq in L1.
  unfold tk_rows, tk_cat, tk_scores, tk_targets, tk_sel in *. cbn [fst snd].
  rewrite (combine_app _ _ _ _ L0), combine_app by (rewrite combine_length, <- L0, Nat.min_id; symmetry; exact L1). apply map_app.
Qed.
Lemma tkacc_beta_cat c w b1 b2 : tk_ok c w b1 -> tk_ok c w b2 -> tkacc_beta c (tk_cat b1 b2) = nadd (tkacc_beta c b1) (tkacc_beta c b2).
Proof.
  intros [V1 _] _. unfold tkacc_beta. cbv zeta. rewrite (tk_rows_cat c _ _ V1), ml_update_app, nadd_arr2, !nadd_zsc. reflexivity.
Qed.

(* ------------------------------------------------------------------------------------------ *)
(* the three laws, per class; the two consequences                                             *)
(* ------------------------------------------------------------------------------------------ *)
Definition cat_laws (S : AddSpec) (c : acfg S) (ok : abatch S -> Prop) (bcat : abatch S -> abatch S -> abatch S) : Prop :=
  (forall b, ok b -> avalid S c b = true) /\
  (forall b1 b2, ok b1 -> ok b2 -> ok (bcat b1 b2)) /\
  (forall b1 b2, ok b1 -> ok b2 -> abeta S c (bcat b1 b2) = nadd (abeta S c b1) (abeta S c b2)).

Theorem class_eq_fn_of_laws S c ok bcat : cat_laws S c ok bcat ->
  forall b rest, ok b -> Forall ok rest ->
  class_run S c (b :: rest) = fn_of S c (cat_all S bcat b rest) /\ avalid S c (cat_all S bcat b rest) = true.
Proof.
  intros [H1 [H2 H3]] b rest Hb Hr. split.
  - apply (class_eq_fn_nonempty S c ok bcat H1 H2 H3); assumption.
  - apply (cat_all_ok S c ok bcat H1 H2 H3); assumption.
Qed.
Theorem batching_of_laws S c ok bcat : cat_laws S c ok bcat ->
  forall b rest b' rest', ok b -> Forall ok rest -> ok b' -> Forall ok rest' ->
  abeta S c (cat_all S bcat b rest) = abeta S c (cat_all S bcat b' rest') ->
  class_run S c (b :: rest) = class_run S c (b' :: rest').
Proof. intros [H1 [H2 H3]]. apply (batching_invariant_nonempty S c ok bcat H1 H2 H3). Qed.

Lemma mcacc_laws c w : cat_laws mcacc_spec c (acc_ok c w) mc_cat.
Proof. split; [intros b [V _]; exact V|]. split; [apply acc_ok_cat|apply acc_beta_cat]. Qed.
Lemma mcprec_laws c w : cat_laws mcprec_spec c (prf_ok c w) mc_cat.
Proof. split; [intros b [V _]; exact V|]. split; [apply prf_ok_cat|apply prec_beta_cat]. Qed.
Lemma mcrec_laws c w : cat_laws mcrec_spec c (prf_ok c w) mc_cat.
Proof. split; [intros b [V _]; exact V|]. split; [apply prf_ok_cat|apply rec_beta_cat]. Qed.
Lemma mcf1_laws c w : cat_laws mcf1_spec c (prf_ok c w) mc_cat.
Proof. split; [intros b [V _]; exact V|]. split; [apply prf_ok_cat|apply f1_beta_cat]. Qed.
Lemma mccm_laws c : cat_laws mccm_spec c (cm_ok c) mc_cat.
Proof. split; [intros b V; exact V|]. split; [apply cm_ok_cat|apply cm_beta_cat]. Qed.
Lemma binacc_laws t : cat_laws binacc_spec t bin_ok bin_cat.
Proof. split; [intros b V; exact V|]. split; [apply bin_ok_cat|apply binacc_beta_cat]. Qed.
Lemma binprec_laws t : cat_laws binprec_spec t bin_ok bin_cat.
Proof. split; [intros b V; exact V|]. split; [apply bin_ok_cat|apply binprec_beta_cat]. Qed.
Lemma binrec_laws t : cat_laws binrec_spec t bin_ok bin_cat.
Proof. split; [intros b V; exact V|]. split; [apply bin_ok_cat|apply binrec_beta_cat]. Qed.
Lemma binf1_laws t : cat_laws binf1_spec t bin_ok bin_cat.
Proof. split; [intros b V; exact V|]. split; [apply bin_ok_cat|apply binf1_beta_cat]. Qed.
Lemma bincm_laws c : cat_laws bincm_spec c bin_ok bin_cat.
Proof. split; [intros b V; exact V|]. split; [apply bin_ok_cat|apply bincm_beta_cat]. Qed.
Lemma mlacc_laws c w : cat_laws mlacc_spec c (ml_ok w) ml_cat.
Proof. split; [intros b [V _]; exact V|]. split; [apply ml_ok_cat|apply mlacc_beta_cat]. Qed.
Lemma tkacc_laws c w : cat_laws tkacc_spec c (tk_ok c w) tk_cat.
Proof. split; [intros b [V _]; exact V|]. split; [apply tk_ok_cat|apply tkacc_beta_cat]. Qed.
