(* Positive class theorems for the V_fixed retrieval models (Models/RankingFixed.v). *)
From Coq Require Import ZArith List Bool QArith Qcanon String Lia Permutation.
From TE Require Import Base.Val Base.Nd Base.Xq Algebra.Metric Algebra.Cache Models.Ranking Models.RankingFixed
  Proofs.RankingP Proofs.RankingAlgP.
Import ListNotations.
Open Scope list_scope.
Open Scope nat_scope.

(* ---- RetrievalRecall, fixed: state = (top-k of all items, sum of all labels) per query ---- *)
Definition cnt_upd (c : rcfg) (n : list Z) (b : rbatch) : list Z :=
  mapi (fun i x => match rsel (r_nq c) i b with Some its => (x + sumlab its)%Z | None => x end) n.
Lemma rrec_fold c : forall bs s n,
  fold_left (rrec_upd_fx c) bs (s, n) = (fold_left (rupd c) bs s, fold_left (cnt_upd c) bs n).
Proof. induction bs as [|b bs IH]; intros s n; cbn [fold_left]; [reflexivity|]. apply IH. Qed.
Lemma sumlab_app a b : sumlab (a ++ b) = (sumlab a + sumlab b)%Z.
Proof. induction a as [|x a IH]; [reflexivity|]. cbn [app]. rewrite !sumlab_cons, IH. lia. Qed.
Lemma cnt_length c : forall bs n, List.length (fold_left (cnt_upd c) bs n) = List.length n.
Proof. induction bs as [|b bs IH]; intros n; cbn [fold_left]; [reflexivity|]. rewrite IH. apply mapi_length. Qed.
Lemma cnt_fold_nth c i : forall bs n, i < List.length n ->
  nth i (fold_left (cnt_upd c) bs n) 0%Z = (nth i n 0%Z + sumlab (rdata c i bs))%Z.
Proof.
  induction bs as [|b bs IH]; intros n Hi; cbn [fold_left]; [cbn; lia|].
  rewrite IH by (unfold cnt_upd; rewrite mapi_length; exact Hi). unfold cnt_upd at 1.
  rewrite (nth_mapi _ 0%Z 0%Z) by exact Hi. rewrite rdata_cons, sumlab_app. unfold rsel_items.
  destruct (rsel (r_nq c) i b); cbn; lia.
Qed.
Lemma nth_repeatZ i n : nth i (repeat 0%Z n) 0%Z = 0%Z.
Proof. revert i. induction n; intros [|i]; cbn; try reflexivity. apply IHn. Qed.
Lemma map_combine_nth {X Y Z} (f : X * Y -> Z) dx dy : forall (a : list X) (b : list Y), List.length a = List.length b ->
  map f (combine a b) = map (fun i => f (nth i a dx, nth i b dy)) (seq 0 (List.length a)).
Proof.
  induction a as [|x a IH]; intros [|y b] H; cbn in H; try discriminate; [reflexivity|].
  cbn [combine map List.length seq nth]. f_equal. rewrite <- seq_shift, map_map. apply IH. lia.
Qed.
Lemma labels01_has1_sum l : labels01 l -> has1 l = true -> (0 < sumlab l)%Z.
Proof.
  induction 1 as [|p l Hp Hl IH]; intros H; [discriminate|]. unfold has1 in H. cbn [existsb] in H. rewrite sumlab_cons.
  assert (Hn : (0 <= sumlab l)%Z).
  { clear -Hl. induction Hl as [|q l Hq _ IHl]; [cbn; lia|]. rewrite sumlab_cons. destruct Hq; lia. }
  destruct (Z.eqb_spec (snd p) 1) as [E|E]; [lia|]. cbn [orb] in H. specialize (IH H). destruct Hp; lia.
Qed.
Lemma rquery_fx_spec c D : r_k c <> Some 0 -> tie_free D -> labels01 D ->
  rquery_fx c (topk (r_k c) D) (sumlab D) = rquery_spec true c D.
Proof.
  intros Hk Htf Hl. unfold rquery_fx, rquery_spec. rewrite (topk_is_nil _ D Hk). destruct (is_nil D); [reflexivity|].
  destruct (has1 D) eqn:Hh; cbn [negb].
  - pose proof (labels01_has1_sum D Hl Hh) as Hp. destruct (Z.eqb_spec (sumlab D) 0) as [E|_]; [lia|].
    f_equal. unfold rec_spec. rewrite topk_idem, (sumlab_topk _ D Htf). reflexivity.
  - rewrite (labels01_no1_sum D Hl Hh). reflexivity.
Qed.
Definition class_after_rrec_fx (c : rcfg) (bs : list rbatch) : rout :=
  cmp rrec_fx_metric c (fold_left (upd rrec_fx_metric c) bs (init rrec_fx_metric c)).
(* fixed RetrievalRecall = the definition on all data: every k, limit_k_to_size, action, num_queries, avg *)
Theorem rrecall_fixed_class_eq c bs : r_k c <> Some 0 ->
  (forall i, i < r_nq c -> tie_free (rdata c i bs) /\ labels01 (rdata c i bs)) ->
  class_after_rrec_fx c bs = rclass_spec true c bs.
Proof.
  intros Hk H. unfold class_after_rrec_fx.
  change (fold_left (upd rrec_fx_metric c) bs (init rrec_fx_metric c)) with (fold_left (rrec_upd_fx c) bs (repeat [] (r_nq c), repeat 0%Z (r_nq c))).
  rewrite rrec_fold. change (cmp rrec_fx_metric c) with (rrec_cmp_fx c). unfold rrec_cmp_fx, rclass_spec. cbn [fst snd]. f_equal.
  assert (L1 : List.length (fold_left (rupd c) bs (repeat [] (r_nq c))) = r_nq c) by (rewrite rupd_fold_length; apply repeat_length).
  assert (L2 : List.length (fold_left (cnt_upd c) bs (repeat 0%Z (r_nq c))) = r_nq c) by (rewrite cnt_length; apply repeat_length).
  rewrite (map_combine_nth _ [] 0%Z) by congruence. rewrite L1. apply map_ext_in. intros i Hi. apply in_seq in Hi. cbn [fst snd].
  assert (Hi' : i < r_nq c) by lia. destruct (H i Hi') as [Htf Hl].
  rewrite (retr_class_state true c bs i Hi' : nth i (fold_left (rupd c) bs (repeat [] (r_nq c))) [] = _).
  rewrite cnt_fold_nth by (rewrite repeat_length; exact Hi'). rewrite nth_repeatZ. cbn [Z.add].
  apply rquery_fx_spec; assumption.
Qed.

(* ---- RetrievalPrecision, fixed ---- *)
Definition len_ok (k : option nat) (S D : list item) : Prop :=
  match k with Some k => Nat.min k (List.length S) = Nat.min k (List.length D) | None => List.length S = List.length D end.
Definition Inv (k : option nat) (S D : list item) : Prop :=
  topk k S = topk k D /\ has1 S = has1 D /\ is_nil S = is_nil D /\ len_ok k S D.
Lemma has1_app a b : has1 (a ++ b) = has1 a || has1 b.
Proof. unfold has1. apply existsb_app. Qed.
Lemma is_nil_app {X} (a b : list X) : is_nil (a ++ b) = is_nil a && is_nil b.
Proof. destruct a; reflexivity. Qed.
Lemma Inv_app k S D its : Inv k S D -> Inv k (S ++ its) (D ++ its).
Proof.
  intros [I1 [I2 [I3 I4]]]. repeat split.
  - apply topk_app_cong; [exact I1|reflexivity].
  - rewrite !has1_app, I2. reflexivity.
  - rewrite !is_nil_app, I3. reflexivity.
  - unfold len_ok in *. rewrite !app_length. destruct k; lia.
Qed.
Lemma Inv_trans k A B C : Inv k A B -> Inv k B C -> Inv k A C.
Proof.
  intros [a1 [a2 [a3 a4]]] [b1 [b2 [b3 b4]]]. repeat split; try congruence. unfold len_ok in *. destruct k; lia.
Qed.
Lemma has1_perm_imp l l' : Permutation l l' -> has1 l = true -> has1 l' = true.
Proof.
  intros Hp H. unfold has1 in *. apply existsb_exists in H as [x [Hx H1]]. apply existsb_exists. exists x.
  split; [eapply Permutation_in; eassumption|exact H1].
Qed.
Lemma has1_perm l l' : Permutation l l' -> has1 l = has1 l'.
Proof.
  intros Hp. destruct (has1 l) eqn:E.
  - symmetry. eapply has1_perm_imp; eassumption.
  - destruct (has1 l') eqn:E'; [|reflexivity]. apply (has1_perm_imp _ _ (Permutation_sym Hp)) in E'. congruence.
Qed.
Lemma sorted_app_le : forall a b : list item, sorted2 (a ++ b) -> forall x y, In x a -> In y b -> ge2 x y = true.
Proof.
  induction a as [|h a IH]; intros b Hs x y Hx Hy; [destruct Hx|]. cbn [app] in Hs. inversion Hs as [|? ? Hs' Hall]; subst.
  destruct Hx as [->|Hx]; [|eapply IH; eassumption]. rewrite Forall_forall in Hall. apply Hall. apply in_or_app. right; exact Hy.
Qed.
Lemma sorted_snoc : forall (T : list item) e, sorted2 T -> (forall x, In x T -> ge2 x e = true) -> sorted2 (T ++ [e]).
Proof.
  induction T as [|h T IH]; intros e Hs He; cbn [app]; [constructor; constructor|].
  inversion Hs as [|? ? Hs' Hall]; subst. constructor.
  - apply IH; [exact Hs'|]. intros x Hx. apply He. right; exact Hx.
  - rewrite Forall_forall in *. intros x Hx. apply in_app_or in Hx as [Hx|[<-|[]]]; [apply Hall, Hx|apply He; left; reflexivity].
Qed.
Lemma keep_rel_inv k X : k <> Some 0 -> Inv k (keep_rel k X) X.
Proof.
  intros Hk. unfold keep_rel. destruct (has1 (topk k X)) eqn:HT; cbn [negb andb].
  - repeat split; [apply topk_idem|rewrite HT; symmetry; eapply has1_topk; exact HT|apply topk_is_nil, Hk|].
    unfold len_ok. rewrite topk_length. destruct k; lia.
  - destruct (has1 X) eqn:HX.
    2:{ repeat split; [apply topk_idem|congruence|apply topk_is_nil, Hk|]. unfold len_ok. rewrite topk_length. destruct k; lia. }
    destruct k as [k|].
    2:{ exfalso. cbn [topk] in HT. rewrite (has1_perm _ _ (sortd_perm X)) in HT. congruence. }
    cbn [topk] in *.
    assert (Hlen : k < List.length X).
    { destruct (Nat.lt_ge_cases k (List.length X)) as [H|H]; [exact H|]. exfalso.
      rewrite firstn_all2 in HT by (rewrite (Permutation_length (sortd_perm X)); exact H).
      rewrite (has1_perm _ _ (sortd_perm X)) in HT. congruence. }
    unfold best_rel. destruct (filter (fun p => Z.eqb (snd p) 1) (sortd X)) as [|e rest] eqn:EF.
    { exfalso. rewrite <- (has1_perm _ _ (sortd_perm X)) in HX. unfold has1 in HX. apply existsb_exists in HX as [x [Hx H1]].
      assert (In x (filter (fun p => Z.eqb (snd p) 1) (sortd X))) by (apply filter_In; split; assumption). rewrite EF in H. destruct H. }
    assert (He : In e (sortd X) /\ Z.eqb (snd e) 1 = true).
    { apply (proj1 (filter_In (fun p : Z * Z => Z.eqb (snd p) 1) e (sortd X))). rewrite EF. left; reflexivity. }
    destruct He as [HeIn He1].
    assert (HeT : ~ In e (firstn k (sortd X))).
    { intros Hin. assert (has1 (firstn k (sortd X)) = true) by (apply existsb_exists; exists e; split; assumption). congruence. }
    assert (HeS : In e (skipn k (sortd X))).
    { rewrite <- (firstn_skipn k (sortd X)) in HeIn. apply in_app_or in HeIn as [H|H]; [contradiction|exact H]. }
    assert (Hsn : sorted2 (firstn k (sortd X) ++ [e])).
    { apply sorted_snoc; [apply firstn_sorted, sortd_sorted|]. intros x Hx.
      apply (sorted_app_le (firstn k (sortd X)) (skipn k (sortd X))); [rewrite firstn_skipn; apply sortd_sorted|exact Hx|exact HeS]. }
    assert (HlT : List.length (firstn k (sortd X)) = k).
    { rewrite firstn_length, (Permutation_length (sortd_perm X)). lia. }
    repeat split.
    + cbn [topk]. rewrite (sortd_id _ Hsn). rewrite firstn_app, HlT, Nat.sub_diag. cbn [firstn]. rewrite app_nil_r.
      rewrite firstn_firstn, Nat.min_id. reflexivity.
    + rewrite has1_app, HX. unfold has1 at 2. cbn [existsb]. rewrite He1. cbn [orb]. apply orb_true_r.
    + rewrite is_nil_app. cbn. rewrite andb_false_r. destruct X; [cbn in Hlen; lia|reflexivity].
    + unfold len_ok. rewrite app_length, HlT. cbn. lia.
Qed.
Lemma rupd1_fx_inv c i b S D : r_k c <> Some 0 -> Inv (r_k c) S D -> Inv (r_k c) (rupd1_fx c i b S) (D ++ rsel_items c i b).
Proof.
  intros Hk HI. unfold rupd1_fx, rsel_items. destruct (rsel (r_nq c) i b) as [its|].
  - eapply Inv_trans; [apply keep_rel_inv, Hk|apply Inv_app, HI].
  - rewrite app_nil_r. exact HI.
Qed.
Lemma rupd_fx_length c s b : List.length (rupd_fx c s b) = List.length s.
Proof. apply mapi_length. Qed.
Lemma rupd_fx_fold_length c : forall bs s, List.length (fold_left (rupd_fx c) bs s) = List.length s.
Proof. induction bs as [|b bs IH]; intros s; cbn [fold_left]; [reflexivity|]. rewrite IH. apply rupd_fx_length. Qed.
Lemma rupd_fx_fold_inv c i : r_k c <> Some 0 -> forall bs s D, i < List.length s -> Inv (r_k c) (nth i s []) D ->
  Inv (r_k c) (nth i (fold_left (rupd_fx c) bs s) []) (D ++ rdata c i bs).
Proof.
  intros Hk. induction bs as [|b bs IH]; intros s D Hi HI; cbn [fold_left].
  - cbn. rewrite app_nil_r. exact HI.
  - rewrite rdata_cons, app_assoc. apply IH; [rewrite rupd_fx_length; exact Hi|].
    unfold rupd_fx. rewrite (nth_mapi _ [] []) by exact Hi. apply rupd1_fx_inv; assumption.
Qed.
Lemma rquery_inv c S D : tie_free D -> Inv (r_k c) S D -> rquery false c S = rquery_spec false c D.
Proof.
  intros Htf [I1 [I2 [I3 I4]]]. unfold rquery, rquery_spec. rewrite I3, I2. destruct (is_nil D); [reflexivity|].
  destruct (has1 D); cbn [negb]; [|reflexivity]. f_equal. unfold prec_fn, prec_spec. rewrite I1, (sumlab_topk _ D Htf).
  f_equal. f_equal. f_equal. unfold len_ok in I4. destruct (r_k c) as [k|]; cbn [nb_retrieved]; [destruct (r_lim c)|]; congruence.
Qed.
Definition class_after_rprec_fx (c : rcfg) (bs : list rbatch) : rout :=
  cmp rprec_fx_metric c (fold_left (upd rprec_fx_metric c) bs (init rprec_fx_metric c)).
(* fixed RetrievalPrecision = the definition on all data: every k, limit_k_to_size, action, num_queries, avg *)
Theorem rprec_fixed_class_eq c bs : r_k c <> Some 0 ->
  (forall i, i < r_nq c -> tie_free (rdata c i bs)) ->
  class_after_rprec_fx c bs = rclass_spec false c bs.
Proof.
  intros Hk H. unfold class_after_rprec_fx.
  change (fold_left (upd rprec_fx_metric c) bs (init rprec_fx_metric c)) with (fold_left (rupd_fx c) bs (repeat [] (r_nq c))).
  change (cmp rprec_fx_metric c) with (rcmp false c). unfold rcmp, rclass_spec. f_equal.
  set (s := fold_left (rupd_fx c) bs (repeat [] (r_nq c))).
  assert (Hl : List.length s = r_nq c) by (unfold s; rewrite rupd_fx_fold_length; apply repeat_length).
  rewrite (list_as_nth [] s) at 1. rewrite map_map, Hl. apply map_ext_in. intros i Hi. apply in_seq in Hi.
  assert (Hi' : i < r_nq c) by lia. apply rquery_inv; [apply H, Hi'|].
  unfold s. change (rdata c i bs) with ([] ++ rdata c i bs). apply rupd_fx_fold_inv; [exact Hk|rewrite repeat_length; exact Hi'|].
  replace (nth i (repeat [] (r_nq c)) []) with (@nil item).
  - repeat split; reflexivity || (unfold len_ok; destruct (r_k c); reflexivity).
  - clear. revert i. induction (r_nq c) as [|n IH]; intros [|i]; cbn; try reflexivity. apply IH.
Qed.
