(* Positive class theorems for the V_fixed retrieval models (Models/RankingFixed.v). *)
From Coq Require Import ZArith List Bool QArith Qcanon String Lia Permutation.
From TE Require Import Base.Val Base.Nd Base.Xq Algebra.Metric Algebra.Cache Models.Ranking Models.RankingFixed
  Proofs.RankingP Proofs.RankingAlgP.
Import ListNotations.
Open Scope list_scope.
Open Scope nat_scope.

(* ---- RetrievalRecall, fixed: state = (top-k of all items, sum of all labels) per query ---- *)
Definition cnt_upd (c : rcfg) (n : list Z) (b : rbatch) : list Z :=
  mapi (fun i x => match rsel (r_nq c) i b with Some its => (x + sumlab its)%Z | None => x end) n.
Lemma rrec_fold c : forall bs s n,
  fold_left (rrec_upd_fx c) bs (s, n) = (fold_left (rupd c) bs s, fold_left (cnt_upd c) bs n).
Proof. induction bs as [|b bs IH]; intros s n; cbn [fold_left]; [reflexivity|]. apply IH. Qed.
Lemma sumlab_app a b : sumlab (a ++ b) = (sumlab a + sumlab b)%Z.
Proof. induction a as [|x a IH]; [reflexivity|]. cbn [app]. rewrite !sumlab_cons, IH. lia. Qed.
Lemma cnt_length c : forall bs n, List.length (fold_left (cnt_upd c) bs n) = List.length n.
Proof. induction bs as [|b bs IH]; intros n; cbn [fold_left]; [reflexivity|]. rewrite IH. apply mapi_length. Qed.
Lemma cnt_fold_nth c i : forall bs n, i < List.length n ->
  nth i (fold_left (cnt_upd c) bs n) 0%Z = (nth i n 0%Z + sumlab (rdata c i bs))%Z.
Proof.
  induction bs as [|b bs IH]; intros n Hi; cbn [fold_left]; [cbn; lia|].
  rewrite IH by (unfold cnt_upd; rewrite mapi_length; exact Hi). unfold cnt_upd at 1.
  rewrite (nth_mapi _ 0%Z 0%Z) by exact Hi. rewrite rdata_cons, sumlab_app. unfold rsel_items.
  destruct (rsel (r_nq c) i b); cbn; lia.
Qed.
Lemma nth_repeatZ i n : nth i (repeat 0%Z n) 0%Z = 0%Z.
Proof. revert i. induction n; intros [|i]; cbn; try reflexivity. apply IHn. Qed.
Lemma map_combine_nth {X Y Z} (f : X * Y -> Z) dx dy : forall (a : list X) (b : list Y), List.length a = List.length b ->
  map f (combine a b) = map (fun i => f (nth i a dx, nth i b dy)) (seq 0 (List.length a)).
Proof.
  induction a as [|x a IH]; intros [|y b] H; cbn in H; try discriminate; [reflexivity|].
  cbn [combine map List.length seq nth]. f_equal. rewrite <- seq_shift, map_map. apply IH. lia.
Qed.
Lemma labels01_has1_sum l : labels01 l -> has1 l = true -> (0 < sumlab l)%Z.
Proof.
  induction 1 as [|p l Hp Hl IH]; intros H; [discriminate|]. unfold has1 in H. cbn [existsb] in H. rewrite sumlab_cons.
  assert (Hn : (0 <= sumlab l)%Z).
  { clear -Hl. induction Hl as [|q l Hq _ IHl]; [cbn; lia|]. rewrite sumlab_cons. destruct Hq; lia. }
  destruct (Z.eqb_spec (snd p) 1) as [E|E]; [lia|]. cbn [orb] in H. specialize (IH H). destruct Hp; lia.
Qed.
Lemma rquery_fx_spec c D : r_k c <> Some 0 -> tie_free D -> labels01 D ->
  rquery_fx c (topk (r_k c) D) (sumlab D) = rquery_spec true c D.
Proof.
  intros Hk Htf Hl. unfold rquery_fx, rquery_spec. rewrite (topk_is_nil _ D Hk). destruct (is_nil D); [reflexivity|].
  destruct (has1 D) eqn:Hh; cbn [negb].
  - pose proof (labels01_has1_sum D Hl Hh) as Hp. destruct (Z.eqb_spec (sumlab D) 0) as [E|_]; [lia|].
    f_equal. unfold rec_spec. rewrite topk_idem, (sumlab_topk _ D Htf). reflexivity.
  - rewrite (labels01_no1_sum D Hl Hh). reflexivity.
Qed.
Definition class_after_rrec_fx (c : rcfg) (bs : list rbatch) : rout :=
  cmp rrec_fx_metric c (fold_left (upd rrec_fx_metric c) bs (init rrec_fx_metric c)).
(* fixed RetrievalRecall = the definition on all data: every k, limit_k_to_size, action, num_queries, avg *)
Theorem rrecall_fixed_class_eq c bs : r_k c <> Some 0 ->
  (forall i, i < r_nq c -> tie_free (rdata c i bs) /\ labels01 (rdata c i bs)) ->
  class_after_rrec_fx c bs = rclass_spec true c bs.
Proof.
  intros Hk H. unfold class_after_rrec_fx.
  change (fold_left (upd rrec_fx_metric c) bs (init rrec_fx_metric c)) with (fold_left (rrec_upd_fx c) bs (repeat [] (r_nq c), repeat 0%Z (r_nq c))).
  rewrite rrec_fold. change (cmp rrec_fx_metric c) with (rrec_cmp_fx c). unfold rrec_cmp_fx, rclass_spec. cbn [fst snd]. f_equal.
  assert (L1 : List.length (fold_left (rupd c) bs (repeat [] (r_nq c))) = r_nq c) by (rewrite rupd_fold_length; apply repeat_length).
  assert (L2 : List.length (fold_left (cnt_upd c) bs (repeat 0%Z (r_nq c))) = r_nq c) by (rewrite cnt_length; apply repeat_length).
  rewrite (map_combine_nth _ [] 0%Z) by congruence. rewrite L1. apply map_ext_in. intros i Hi. apply in_seq in Hi. cbn [fst snd].
  assert (Hi' : i < r_nq c) by lia. destruct (H i Hi') as [Htf Hl].
  rewrite (retr_class_state true c bs i Hi' : nth i (fold_left (rupd c) bs (repeat [] (r_nq c))) [] = _).
  rewrite cnt_fold_nth by (rewrite repeat_length; exact Hi'). rewrite nth_repeatZ. cbn [Z.add].
  apply rquery_fx_spec; assumption.
Qed.
