(* C06 item 3, AUPRC: the binned riemann sum over the threshold list equals the exact AUPRC (sum over the
   DISTINCT scores of recall increment x precision) of the scores rounded down to the nearest threshold;
   per-class corollaries; and the identification of the binned family's exact specs with the curves
   family's C05 specs (Curves.auroc_spec, Curves.auprc_spec, unit weights).
   Backbone: the "cut sum"  cs f c L = sum_k (f L_k - f L_{k+1}) * c L_k  (f beyond the end = 0) over a
   sorted cut list L.  With f = number of positives scored >= t it equals the sum over the positives of
   c(floor_L score) -- whatever the cut list, so thresholds with an empty bucket and duplicated thresholds
   (zero increments) do not matter. *)
From Coq Require Import ZArith List Bool Lia Sorted QArith Qcanon.
From TE Require Import Base.Val Base.Nd Base.Xq Algebra.Additive Models.Binned Proofs.BinnedP.
From TE Require Models.Curves Proofs.CurvesP Proofs.CurvesPR.
Import ListNotations.
Open Scope Z_scope.

Lemma zq_1 : zq 1 = 1%Qc.
Proof. apply Qc_is_canon. reflexivity. Qed.
Lemma zq_inj0 z : zq z = 0%Qc -> z = 0.
Proof.
  intros H. assert (E : (this (zq z) == this 0%Qc)%Q) by (rewrite H; reflexivity).
  unfold zq, mkq, Q2Qc, this in E. rewrite Qred_correct in E. unfold Qeq in E. simpl in E. lia.
Qed.
Lemma qeq_zq0 z : qeq (zq z) 0%Qc = (z =? 0).
Proof.
  unfold qeq. destruct (Qc_eq_dec (zq z) 0%Qc) as [E|E]; destruct (Z.eqb_spec z 0) as [E'|E']; try reflexivity.
  - apply zq_inj0 in E. contradiction.
  - subst. exfalso. apply E, zq_0.
Qed.
Lemma cnt_le {X} (P Q : X -> bool) xs : (forall x, P x = true -> Q x = true) -> cnt P xs <= cnt Q xs.
Proof.
  intros H. induction xs as [|x xs IH]; [reflexivity|]. rewrite !cnt_cons. specialize (H x).
  destruct (P x), (Q x); cbn [b2z]; try lia; try (specialize (H eq_refl); discriminate).
Qed.
Lemma cnt_ge1 {X} (P : X -> bool) xs x : In x xs -> P x = true -> 1 <= cnt P xs.
Proof.
  induction xs as [|y xs IH]; intros Hin HP; [destruct Hin|]. rewrite cnt_cons. pose proof (cnt_nonneg P xs).
  destruct Hin as [->|Hin]; [rewrite HP; cbn [b2z]; lia|]. specialize (IH Hin HP). destruct (P y); cbn [b2z]; lia.
Qed.

(* ---------------------------------------------------------------------------------------- *)
(* the cut sum                                                                                *)
(* ---------------------------------------------------------------------------------------- *)
Section CS.
Local Open Scope Qc_scope.
Definition hdF (f : Z -> Qc) (L : list Z) : Qc := match L with [] => 0 | t :: _ => f t end.
Fixpoint cs (f c : Z -> Qc) (L : list Z) : Qc :=
  match L with [] => 0 | t :: L' => (f t - hdF f L') * c t + cs f c L' end.
Lemma cs_cons f c t L : cs f c (t :: L) = (f t - hdF f L) * c t + cs f c L.
Proof. reflexivity. Qed.
Lemma hdF_ext_in f f' L : (forall t, In t L -> f t = f' t) -> hdF f L = hdF f' L.
Proof. destruct L as [|t L]; intros H; [reflexivity|]. apply H. left; reflexivity. Qed.
Lemma cs_ext_in f f' c c' L : (forall t, In t L -> f t = f' t) -> (forall t, In t L -> c t = c' t) -> cs f c L = cs f' c' L.
Proof.
  induction L as [|t L IH]; intros Hf Hc; [reflexivity|]. rewrite !cs_cons.
  rewrite (hdF_ext_in f f' L) by (intros; apply Hf; right; assumption).
  rewrite IH by (intros; try apply Hf; try apply Hc; right; assumption).
  rewrite (Hf t), (Hc t) by (left; reflexivity). reflexivity.
Qed.
Lemma cs_add f f' c L : cs (fun t => f t + f' t) c L = cs f c L + cs f' c L.
Proof. induction L as [|t L IH]; [cbn; ring|]. rewrite !cs_cons, IH. destruct L; cbn [hdF]; ring. Qed.
Lemma cs_scale f k c L : cs (fun t => f t * k) c L = cs f c L * k.
Proof. induction L as [|t L IH]; [cbn; ring|]. rewrite !cs_cons, IH. destruct L; cbn [hdF]; ring. Qed.
Lemma cs_zero c L : cs (fun _ => 0) c L = 0.
Proof. induction L as [|t L IH]; [reflexivity|]. rewrite cs_cons, IH. destruct L; cbn [hdF]; ring. Qed.
Lemma cs_c0 f c L : (forall t, In t L -> c t = 0) -> cs f c L = 0.
Proof.
  induction L as [|t L IH]; intros H; [reflexivity|]. rewrite cs_cons, IH by (intros; apply H; right; assumption).
  rewrite (H t) by (left; reflexivity). ring.
Qed.

(* one item scored s: its step function picks out c at the floor of s *)
Lemma cs_item c : forall L s, asc L -> L <> [] -> (hd 0 L <= s)%Z ->
  cs (fun t => zq (ind s t)) c L = c (floorT L s).
Proof.
  induction L as [|t L IH]; intros s Hs Hne Hhd; [congruence|]. cbn [hd] in Hhd.
  assert (E : ind s t = 1%Z) by (unfold ind; destruct (Z.leb_spec t s); [reflexivity|lia]).
  rewrite cs_cons, E. destruct L as [|t1 L].
  - cbn [hdF cs]. rewrite floor_first by (try assumption; constructor). rewrite zq_1. ring.
  - inversion Hs as [|? ? Hs' Hall]; subst. cbn [hdF]. destruct (Z.leb_spec t1 s) as [H1|H1].
    + assert (E1 : ind s t1 = 1%Z) by (unfold ind; destruct (Z.leb_spec t1 s); [reflexivity|lia]).
      rewrite E1, (IH s Hs') by (try discriminate; cbn [hd]; assumption). rewrite floor_skip by assumption. ring.
    + assert (E1 : ind s t1 = 0%Z) by (unfold ind; destruct (Z.leb_spec t1 s); [lia|reflexivity]).
      rewrite E1, (cs_ext_in _ (fun _ => 0) c c (t1 :: L)).
      2:{ intros u Hu. rewrite (ind_zero_above s (t1 :: L)); [apply zq_0|apply asc_above; assumption|exact Hu]. }
      2:{ reflexivity. }
      rewrite cs_zero, floor_first by (try assumption; apply asc_above; assumption). rewrite zq_1, zq_0. ring.
Qed.

(* with f = number of positives scored >= t: the sum over the positives of c at their floors *)
Lemma cs_tp c L xs : asc L -> L <> [] -> (forall x : sample, In x xs -> (hd 0 L <= fst x)%Z) ->
  cs (fun t => zq (tp_spec t xs)) c L = sumQ (map (fun x : sample => if snd x then c (floorT L (fst x)) else 0) xs).
Proof.
  intros Hs Hne. induction xs as [|x xs IH]; intros Hge.
  - rewrite (cs_ext_in _ (fun _ => 0) c c L) by (intros; try reflexivity; apply zq_0). apply cs_zero.
  - rewrite (cs_ext_in _ (fun t => zq (b2z ((t <=? fst x)%Z && snd x)) + zq (tp_spec t xs)) c c L).
    2:{ intros t _. unfold tp_spec. rewrite cnt_cons, zq_add. reflexivity. }
    2:{ reflexivity. }
    rewrite cs_add, IH by (intros; apply Hge; right; assumption). cbn [map sumQ fold_right]. f_equal.
    destruct (snd x).
    + rewrite (cs_ext_in _ (fun t => zq (ind (fst x) t)) c c L) by (intros; try reflexivity; rewrite andb_true_r; reflexivity).
      apply cs_item; try assumption. apply Hge. left; reflexivity.
    + rewrite (cs_ext_in _ (fun _ => 0) c c L) by (intros; try reflexivity; rewrite andb_false_r; apply zq_0).
      apply cs_zero.
Qed.

(* ---- the riemann integral of an all-finite curve is a cut sum ---- *)
Definition riemannQ (r p : list Qc) : Qc := - sumQ (map2 Qcmult (map2 Qcminus (tl r) r) p).
Lemma riemannQ_cons a x0 X p Y : riemannQ (a :: x0 :: X) (p :: Y) = (a - x0) * p + riemannQ (x0 :: X) Y.
Proof. unfold riemannQ, sumQ. cbn [tl map2 fold_right]. ring. Qed.
Lemma riemannQ_cs f c : forall L, riemannQ (map f L ++ [0]) (map c L ++ [1]) = cs f c L.
Proof.
  induction L as [|t L IH]; [unfold riemannQ, sumQ; cbn; ring|]. destruct L as [|t1 L].
  - cbn [map app cs hdF]. rewrite riemannQ_cons. unfold riemannQ, sumQ. cbn [tl map2 fold_right]. ring.
  - cbn [map app] in *. rewrite riemannQ_cons, IH. rewrite (cs_cons f c t (t1 :: L)). reflexivity.
Qed.
Lemma map2_map_both {A B A' B' C C'} (F : A' -> B' -> C') (g : A -> A') (h : B -> B') (G : A -> B -> C) (k : C -> C') :
  (forall x y, F (g x) (h y) = k (G x y)) -> forall a b, map2 F (map g a) (map h b) = map k (map2 G a b).
Proof.
  intros H. induction a as [|x a IH]; intros [|y b]; cbn [map map2]; try reflexivity. rewrite H, IH. reflexivity.
Qed.
Lemma fold_xadd_fin l : forall a, fold_left xadd (map Fin l) (Fin a) = Fin (a + sumQ l).
Proof.
  induction l as [|x l IH]; intros a; cbn [map fold_left sumQ fold_right]; [f_equal; ring|].
  cbn [xadd]. rewrite IH. f_equal. unfold sumQ. ring.
Qed.
Lemma riemann_fin r p : riemann (map Fin r) (map Fin p) = Fin (riemannQ r p).
Proof.
  unfold riemann, riemannQ, xsum.
  replace (tl (map Fin r)) with (map Fin (tl r)) by (destruct r; reflexivity).
  rewrite (map2_map_both xsub Fin Fin Qcminus Fin) by (intros; reflexivity).
  rewrite (map2_map_both xmul Fin Fin Qcmult Fin) by (intros; reflexivity).
  rewrite fold_xadd_fin. cbn [xneg]. f_equal. ring.
Qed.
Lemma fold_xadd_nan l : fold_left xadd l NaN = NaN.
Proof. induction l as [|x l IH]; [reflexivity|]. cbn [fold_left]. destruct x; exact IH. Qed.
Lemma riemann_nan r1 R p0 Pl : riemann (NaN :: r1 :: R) (p0 :: Pl) = NaN.
Proof.
  unfold riemann, xsum. cbn [tl map2 fold_left].
  replace (xadd (Fin 0) (xmul (xsub r1 NaN) p0)) with NaN by (destruct r1, p0; reflexivity).
  rewrite fold_xadd_nan. reflexivity.
Qed.
End CS.

(* ---------------------------------------------------------------------------------------- *)
(* sorted lists: floors of members, heads                                                     *)
(* ---------------------------------------------------------------------------------------- *)
Lemma floor_member L s : asc L -> In s L -> floorT L s = s.
Proof.
  intros Hs Hin. unfold floorT.
  assert (Hf : In s (filter (fun u => u <=? s) L)) by (apply filter_In; split; [exact Hin|apply Z.leb_refl]).
  assert (Hne : filter (fun u => u <=? s) L <> []) by (intros E; rewrite E in Hf; destruct Hf).
  pose proof (last_In_ne _ Hne) as Hl. apply filter_In in Hl as [_ Hl]. apply Z.leb_le in Hl.
  pose proof (asc_last_max _ s (asc_filter _ L Hs) Hf). lia.
Qed.
Lemma floor_in L s : L <> [] -> hd 0 L <= s -> In (floorT L s) L.
Proof.
  intros Hne Hhd. unfold floorT.
  assert (Hf : filter (fun u => u <=? s) L <> []).
  { destruct L as [|u L]; [congruence|]. cbn [hd] in Hhd. cbn [filter]. destruct (Z.leb_spec u s); [discriminate|lia]. }
  pose proof (last_In_ne _ Hf) as Hl. apply filter_In in Hl as [Hl _]. exact Hl.
Qed.
Lemma floor_le L s : L <> [] -> hd 0 L <= s -> floorT L s <= s.
Proof.
  intros Hne Hhd. unfold floorT.
  assert (Hf : filter (fun u => u <=? s) L <> []).
  { destruct L as [|u L]; [congruence|]. cbn [hd] in Hhd. cbn [filter]. destruct (Z.leb_spec u s); [discriminate|lia]. }
  pose proof (last_In_ne _ Hf) as Hl. apply filter_In in Hl as [_ Hl]. apply Z.leb_le, Hl.
Qed.
Lemma asc_hd_le L s : asc L -> In s L -> hd 0 L <= s.
Proof.
  intros Hs Hin. destruct L as [|t L]; [destruct Hin|]. cbn [hd]. inversion Hs as [|? ? _ Hall]; subst.
  destruct Hin as [->|Hin]; [lia|]. rewrite Forall_forall in Hall. apply Hall, Hin.
Qed.
Lemma lt_sorted_asc L : StronglySorted Z.lt L -> asc L.
Proof.
  induction 1 as [|a l Hl IH Hall]; constructor; [exact IH|]. apply Forall_forall. intros u Hu.
  rewrite Forall_forall in Hall. specialize (Hall u Hu). lia.
Qed.

(* the binned family's distinct-score list is the curves family's [dset] *)
Lemma insertZ_ins a l : insertZ a l = Curves.ins a l.
Proof. induction l as [|b l IH]; [reflexivity|]. cbn [insertZ Curves.ins]. rewrite IH. reflexivity. Qed.
Lemma distinct_asc_dset l : distinct_asc l = Curves.dset l.
Proof.
  induction l as [|a l IH]; [reflexivity|]. unfold distinct_asc, Curves.dset in *. cbn [fold_right]. rewrite IH. apply insertZ_ins.
Qed.
Lemma distinct_asc_sorted l : asc (distinct_asc l).
Proof. rewrite distinct_asc_dset. apply lt_sorted_asc, CurvesPR.dset_sorted. Qed.
Lemma distinct_asc_in l d : In d (distinct_asc l) <-> In d l.
Proof. rewrite distinct_asc_dset. apply CurvesPR.dset_in. Qed.

(* ---------------------------------------------------------------------------------------- *)
(* the exact AUPRC as a cut sum over the distinct scores                                       *)
(* ---------------------------------------------------------------------------------------- *)
Definition Ex (P : Z) (tps fps : list Z) : Qc :=
  sumQ (map2 (fun inc pr => (inc * pr)%Qc)
          (map2 (fun a b => (zq (a - b) / zq P)%Qc) tps (tl tps ++ [0]))
          (map2 (fun a b => (zq a / zq (a + b))%Qc) tps fps)).
Lemma Ex_cons2 P a a1 A b B :
  Ex P (a :: a1 :: A) (b :: B) = (zq (a - a1) / zq P * (zq a / zq (a + b)) + Ex P (a1 :: A) B)%Qc.
Proof. reflexivity. Qed.
Lemma Ex_cs P (tpf fpf : Z -> Z) : forall L,
  Ex P (map tpf L) (map fpf L) = cs (fun t => (zq (tpf t) / zq P)%Qc) (fun t => (zq (tpf t) / zq (tpf t + fpf t))%Qc) L.
Proof.
  induction L as [|t L IH]; [reflexivity|]. destruct L as [|t1 L].
  - unfold Ex, sumQ. cbn [map tl app map2 fold_right cs hdF]. rewrite zq_sub, zq_0. unfold Qcdiv. ring.
  - cbn [map] in *. rewrite Ex_cons2, IH. rewrite (cs_cons _ _ t (t1 :: L)). cbn [hdF]. rewrite zq_sub. unfold Qcdiv. ring.
Qed.
Lemma auprc_exact_unfold ys : pos_spec ys <> 0 ->
  auprc_exact ys = Ex (pos_spec ys) (map (fun d => tp_spec d ys) (distinct_asc (map fst ys)))
                                    (map (fun d => fp_spec d ys) (distinct_asc (map fst ys))).
Proof. intros H. unfold auprc_exact. destruct (Z.eqb_spec (pos_spec ys) 0); [contradiction|]. reflexivity. Qed.

(* exact AUPRC = (1/P) * sum over the positives of the precision at their own score *)
Definition prec_at (ys : list sample) (d : Z) : Qc := (zq (tp_spec d ys) / zq (tp_spec d ys + fp_spec d ys))%Qc.
Lemma auprc_exact_positives ys : pos_spec ys <> 0 ->
  auprc_exact ys = (sumQ (map (fun y : sample => if snd y then prec_at ys (fst y) else 0%Qc) ys) * / zq (pos_spec ys))%Qc.
Proof.
  intros HP. rewrite (auprc_exact_unfold ys HP), Ex_cs. set (ds := distinct_asc (map fst ys)).
  rewrite (cs_ext_in _ (fun t => (zq (tp_spec t ys) * / zq (pos_spec ys))%Qc) _ (prec_at ys) ds) by (intros; reflexivity).
  rewrite cs_scale. f_equal.
  assert (Hmem : forall y, In y ys -> In (fst y) ds).
  { intros y Hy. apply distinct_asc_in, in_map, Hy. }
  assert (Hne : ds <> []).
  { destruct ys as [|y ys]; [exfalso; apply HP; reflexivity|]. intros E. specialize (Hmem y (or_introl eq_refl)). rewrite E in Hmem. destruct Hmem. }
  rewrite cs_tp; try assumption; [|apply distinct_asc_sorted|intros y Hy; apply asc_hd_le; [apply distinct_asc_sorted|apply Hmem, Hy]].
  f_equal. apply map_ext_in. intros y Hy. rewrite floor_member; [reflexivity|apply distinct_asc_sorted|apply Hmem, Hy].
Qed.

(* ---------------------------------------------------------------------------------------- *)
(* the binned AUPRC as a cut sum over the thresholds                                           *)
(* ---------------------------------------------------------------------------------------- *)
Definition precB (xs : list sample) (t : Z) : Qc :=
  if tp_spec t xs + fp_spec t xs =? 0 then 1%Qc else (zq (tp_spec t xs) / zq (tp_spec t xs + fp_spec t xs))%Qc.

Lemma recall_fin T xs : pos_spec xs <> 0 ->
  recall (map zq (map (fun t => tp_spec t xs) T)) (map zq (map (fun t => fn_spec t xs) T))
  = map Fin (map (fun t => (zq (tp_spec t xs) * / zq (pos_spec xs))%Qc) T ++ [0%Qc]).
Proof.
  intros HP. unfold recall. rewrite !map_map, map2_map_same, map_app, map_map. f_equal. apply map_ext. intros t. cbv beta.
  unfold fn_spec. rewrite <- zq_add. replace (tp_spec t xs + (pos_spec xs - tp_spec t xs)) with (pos_spec xs) by ring.
  unfold qdivx. rewrite qeq_zq0. destruct (Z.eqb_spec (pos_spec xs) 0); [contradiction|]. reflexivity.
Qed.
Lemma precision_fin T xs :
  precision (map zq (map (fun t => tp_spec t xs) T)) (map zq (map (fun t => fp_spec t xs) T))
  = map Fin (map (precB xs) T ++ [1%Qc]).
Proof.
  unfold precision. rewrite !map_map, map2_map_same, map_app, map_map. f_equal. apply map_ext. intros t. cbv beta.
  rewrite <- zq_add. unfold qdivx, precB. rewrite qeq_zq0. destruct (Z.eqb_spec (tp_spec t xs + fp_spec t xs) 0) as [E|E]; [|reflexivity].
  assert (E0 : tp_spec t xs = 0).
  { assert (0 <= tp_spec t xs) by apply cnt_nonneg. assert (0 <= fp_spec t xs) by apply cnt_nonneg. lia. }
  rewrite E0, qeq_zq0. reflexivity.
Qed.

Lemma tp_le_pos t xs : 0 <= tp_spec t xs <= pos_spec xs.
Proof.
  split; [apply cnt_nonneg|]. unfold tp_spec, pos_spec. apply cnt_le. intros x H. apply andb_prop in H. tauto.
Qed.

(* C06 item 3, AUPRC, in full *)
Theorem binned_auprc_floor_thm T xs : asc T -> T <> [] -> (forall x, In x xs -> hd 0 T <= fst x) ->
  auprc_curve (map zq (bin_tp T xs)) (map zq (bin_fp T xs)) (map zq (bin_fn T xs)) = Fin (auprc_exact (floored T xs)).
Proof.
  intros Hs Hne Hge. destruct (bin_vectors_spec T xs Hs) as (-> & -> & ->). unfold auprc_curve.
  destruct (Z.eq_dec (pos_spec xs) 0) as [HP|HP].
  - (* no positives: recall is NaN everywhere, nan_to_num gives 0 *)
    assert (E : auprc_exact (floored T xs) = 0%Qc).
    { unfold auprc_exact. destruct (floored_labels T xs) as [-> _]. rewrite HP. reflexivity. }
    rewrite E. destruct T as [|t0 T]; [congruence|].
    assert (Etp : tp_spec t0 xs = 0) by (pose proof (tp_le_pos t0 xs); lia).
    unfold recall, precision. cbn [map map2 app]. unfold fn_spec at 1. rewrite Etp, HP.
    change (qdivx (zq 0) (zq 0 + zq (0 - 0))%Qc) with NaN.
    destruct (map2 (fun a b : Qc => qdivx a (a + b)%Qc) (map zq (map (fun t => tp_spec t xs) T)) (map zq (map (fun t => fn_spec t xs) T))) as [|r1 R];
      cbn [app]; rewrite riemann_nan; reflexivity.
  - rewrite recall_fin by exact HP. rewrite precision_fin, riemann_fin, riemannQ_cs. cbn [nan_to_zero]. f_equal.
    rewrite cs_scale, (cs_tp (precB xs) T xs Hs Hne Hge).
    assert (HP' : pos_spec (floored T xs) <> 0) by (destruct (floored_labels T xs) as [-> _]; exact HP).
    rewrite (auprc_exact_positives _ HP'). destruct (floored_labels T xs) as [-> _]. f_equal.
    unfold floored at 2. rewrite map_map. f_equal. apply map_ext_in. intros x Hx. cbn [fst snd].
    destruct (snd x) eqn:Ex; [|reflexivity].
    pose proof (floor_in T (fst x) Hne (Hge x Hx)) as Hin. pose proof (floor_le T (fst x) Hne (Hge x Hx)) as Hle.
    destruct (spec_floor_invariant T xs (floorT T (fst x)) Hs Hne Hge Hin) as (Etp & Efp & _).
    unfold prec_at, precB. rewrite Etp, Efp.
    assert (H1 : 1 <= tp_spec (floorT T (fst x)) xs).
    { unfold tp_spec. apply (cnt_ge1 _ xs x Hx). rewrite Ex, andb_true_r. apply Z.leb_le, Hle. }
    assert (H2 : 0 <= fp_spec (floorT T (fst x)) xs) by apply cnt_nonneg.
    destruct (Z.eqb_spec (tp_spec (floorT T (fst x)) xs + fp_spec (floorT T (fst x)) xs) 0); [lia|reflexivity].
Qed.

(* ======================================================================================== *)
(* the binned family's exact specs ARE the curves family's C05 specs (unit weights)            *)
(* ======================================================================================== *)
Definition lift (x : sample) : Curves.sample := (fst x, (snd x, 1%Qc)).

Section VsCurves.
Local Open Scope Qc_scope.
Lemma zq_b2z b : zq (b2z b) = if b then 1 else 0.
Proof. destruct b; [apply zq_1|apply zq_0]. Qed.
Lemma zq_2 : zq 2 = Curves.two.
Proof. apply Qc_is_canon. reflexivity. Qed.
Lemma half_eq : 1 / (1 + 1) = Curves.half.
Proof. apply Qc_is_canon. reflexivity. Qed.
Lemma zq_sumZ l : zq (sumZ l) = Curves.sumq (map zq l).
Proof. induction l as [|a l IH]; [apply zq_0|]. cbn [sumZ map fold_right Curves.sumq]. fold (sumZ l). rewrite zq_add. fold (Curves.sumq (map zq l)). rewrite IH. reflexivity. Qed.
Lemma sumf_swap {A B} (F : A -> B -> Qc) la lb :
  CurvesP.sumf (fun a => CurvesP.sumf (fun b => F a b) lb) la = CurvesP.sumf (fun b => CurvesP.sumf (fun a => F a b) la) lb.
Proof.
  induction la as [|a la IH].
  - rewrite CurvesP.sumf_nil. symmetry. apply CurvesP.sumf_zero. intros; apply CurvesP.sumf_nil.
  - rewrite CurvesP.sumf_cons, IH, <- CurvesP.sumf_add. apply CurvesP.sumf_ext_in. intros b _. rewrite CurvesP.sumf_cons. reflexivity.
Qed.

Lemma lift_sums xs :
  Curves.sumq (map Curves.pw (map lift xs)) = zq (pos_spec xs) /\ Curves.sumq (map Curves.nw (map lift xs)) = zq (neg_spec xs).
Proof.
  unfold pos_spec, neg_spec. induction xs as [|x xs [IH1 IH2]]; [split; symmetry; apply zq_0|].
  cbn [map]. rewrite !cnt_cons, !zq_add, !zq_b2z, <- IH1, <- IH2. unfold Curves.pw at 1, Curves.nw at 2, Curves.lab, Curves.wt, lift. cbn [fst snd].
  split; destruct (snd x); reflexivity.
Qed.
Lemma lift_ge d xs : Curves.Pge d (map lift xs) = zq (tp_spec d xs) /\ Curves.Nge d (map lift xs) = zq (fp_spec d xs).
Proof.
  unfold Curves.Pge, Curves.Nge, tp_spec, fp_spec. induction xs as [|x xs [IH1 IH2]]; [split; symmetry; apply zq_0|].
  cbn [map]. rewrite !cnt_cons, !zq_add, !zq_b2z. cbn [Curves.sumq fold_right]. fold (Curves.sumq (map (fun b => if (d <=? Curves.sc b)%Z then Curves.pw b else 0) (map lift xs))).
  fold (Curves.sumq (map (fun b => if (d <=? Curves.sc b)%Z then Curves.nw b else 0) (map lift xs))). rewrite IH1, IH2.
  unfold Curves.pw, Curves.nw, Curves.lab, Curves.wt, Curves.sc, lift. cbn [fst snd].
  split; destruct (d <=? fst x)%Z, (snd x); reflexivity.
Qed.

Lemma pair2_lift xs : zq (pair2 xs) = Curves.two * Curves.pair_sum (map lift xs).
Proof.
  transitivity (CurvesP.sumf (fun q : sample => CurvesP.sumf (fun p : sample => Curves.two * Curves.pair_kern (lift p) (lift q)) xs) xs).
  - unfold pair2. rewrite zq_sumZ, map_map. unfold CurvesP.sumf. f_equal. apply map_ext. intros q.
    destruct (snd q) eqn:Eq.
    + rewrite zq_0. symmetry. apply (CurvesP.sumf_zero (fun p : sample => Curves.two * Curves.pair_kern (lift p) (lift q)) xs).
      intros p _. unfold Curves.pair_kern, Curves.nw, Curves.lab, lift. cbn [fst snd]. rewrite Eq. ring.
    + rewrite zq_sumZ, map_map. f_equal. apply map_ext. intros p.
      unfold Curves.pair_kern, Curves.pw, Curves.nw, Curves.lab, Curves.wt, Curves.sc, lift. cbn [fst snd]. rewrite Eq.
      destruct (snd p); [|rewrite zq_0; ring].
      rewrite zq_add, zq_mul, !zq_b2z, zq_2.
      destruct (Z.ltb_spec (fst q) (fst p)); destruct (Z.eqb_spec (fst q) (fst p)); try lia; try ring.
      transitivity (Curves.two * Curves.half); [rewrite CurvesP.two_half; ring|ring].
  - unfold Curves.pair_sum. rewrite map_map.
    rewrite (map_ext _ (fun p : sample => CurvesP.sumf (fun q : sample => Curves.pair_kern (lift p) (lift q)) xs))
      by (intros p; unfold CurvesP.sumf; rewrite map_map; reflexivity).
    change (Curves.sumq (map ?f xs)) with (CurvesP.sumf f xs).
    rewrite <- CurvesP.sumf_scale, sumf_swap. apply CurvesP.sumf_ext_in. intros p _. rewrite CurvesP.sumf_scale. reflexivity.
Qed.

Theorem auroc_exact_is_C05 xs : auroc_exact xs = Curves.auroc_spec (map lift xs).
Proof.
  unfold auroc_exact, Curves.auroc_spec. cbv zeta. destruct (lift_sums xs) as [-> ->]. unfold qeq.
  destruct (Qc_eq_dec (zq (pos_spec xs) * zq (neg_spec xs)) 0) as [E|E]; [apply half_eq|].
  rewrite pair2_lift. change (1 + 1) with Curves.two. field.
  repeat split; try exact CurvesP.two_neq0; intros H0; apply E; rewrite H0; ring.
Qed.

Lemma riemann_q_cs f c : forall L, Curves.riemann_q (map f L ++ [0]) (map c L ++ [1]) = cs f c L.
Proof.
  induction L as [|t L IH]; [reflexivity|]. destruct L as [|t1 L].
  - cbn. ring.
  - cbn [map app] in *. change (Curves.riemann_q (f t :: f t1 :: map f L ++ [0]) (c t :: c t1 :: map c L ++ [1]))
      with ((f t - f t1) * c t + Curves.riemann_q (f t1 :: map f L ++ [0]) (c t1 :: map c L ++ [1])).
    rewrite IH. rewrite (cs_cons f c t (t1 :: L)). reflexivity.
Qed.

Theorem auprc_exact_is_C05 xs : auprc_exact xs = Curves.auprc_spec (map lift xs).
Proof.
  unfold Curves.auprc_spec, Curves.prc_spec. cbv zeta. cbn [fst snd]. rewrite riemann_q_cs.
  replace (map Curves.sc (map lift xs)) with (map fst xs) by (rewrite map_map; reflexivity).
  rewrite <- distinct_asc_dset. set (ds := distinct_asc (map fst xs)).
  destruct (Z.eq_dec (pos_spec xs) 0) as [HP|HP].
  - unfold auprc_exact. rewrite HP. cbn. symmetry. apply cs_c0. intros d _. unfold Curves.prec_at.
    destruct (lift_ge d xs) as [-> ->]. pose proof (tp_le_pos d xs). replace (tp_spec d xs) with 0%Z by lia. rewrite zq_0. unfold Qcdiv. ring.
  - rewrite (auprc_exact_unfold xs HP), Ex_cs. fold ds. apply cs_ext_in; intros d _.
    + unfold Curves.rec_at. cbv zeta. destruct (lift_sums xs) as [-> _]. destruct (lift_ge d xs) as [-> _].
      destruct (Qc_eq_dec (zq (pos_spec xs)) 0) as [E|E]; [apply zq_inj0 in E; contradiction|reflexivity].
    + unfold Curves.prec_at. destruct (lift_ge d xs) as [-> ->]. rewrite zq_add. reflexivity.
Qed.
End VsCurves.

(* ======================================================================================== *)
(* per class / per label: multiclass and multilabel binned AUPRC                               *)
(* ======================================================================================== *)
Lemma nrows_zmat m : nrows (zmat m) = map (map zq) m.
Proof.
  unfold nrows, zmat, nmat. cbn [narr]. rewrite map_map. rewrite (map_ext _ (fun l => l)) by (intros; apply nlist_nvec). apply map_id.
Qed.
Lemma combine_map_same {A B C} (f : A -> B) (g : A -> C) l : combine (map f l) (map g l) = map (fun x => (f x, g x)) l.
Proof. induction l as [|a l IH]; [reflexivity|]. cbn [map combine]. rewrite IH. reflexivity. Qed.

Section PerClass.
Context {X : Type}.
Variables (scs : X -> list Z) (hitf : X -> nat -> bool).
(* the binary problem of column k *)
Definition col (k : nat) (xs : list X) : list sample := map (fun x => (nth k (scs x) 0, hitf x k)) xs.

Lemma qcols_table C T (f : nat -> nat -> list X -> Z) xs k : (k < C)%nat ->
  map (fun r => nth k r 0%Qc) (nrows (zmat (spec_table C T f xs))) = map (fun i => zq (f i k xs)) (seq 0 (length T)).
Proof.
  intros Hk. rewrite nrows_zmat. unfold spec_table. rewrite !map_map. apply map_ext. intros i.
  rewrite map_map. rewrite (nth_map_seq (fun c => zq (f i c xs)) 0%Qc C 0 k Hk). reflexivity.
Qed.
Lemma col_counts T xs k : asc T ->
  map (fun i => zq (mtp_spec scs hitf T i k xs)) (seq 0 (length T)) = map zq (bin_tp T (col k xs)) /\
  map (fun i => zq (mfp_spec scs hitf T i k xs)) (seq 0 (length T)) = map zq (bin_fp T (col k xs)) /\
  map (fun i => zq (mfn_spec scs hitf T i k xs)) (seq 0 (length T)) = map zq (bin_fn T (col k xs)).
Proof.
  intros Hs. destruct (bin_vectors_spec T (col k xs) Hs) as (-> & -> & ->).
  rewrite !map_map, !(map_nth_seq _ 0 T). unfold mfn_spec, fn_spec, mtp_spec, mfp_spec, mpos_spec, tp_spec, fp_spec, pos_spec, col.
  repeat split; apply map_ext; intros i; rewrite ?cnt_map; reflexivity.
Qed.

Theorem auprc_columns_floor c xs : asc (thresholds c) -> thresholds c <> [] ->
  (forall k x, (k < bC c)%nat -> In x xs -> hd 0 (thresholds c) <= nth k (scs x) 0) ->
  m_gamma_auprc c (pack3 (counts_spec scs hitf (bC c) (thresholds c) xs))
  = let a := map (fun k => Fin (auprc_exact (floored (thresholds c) (col k xs)))) (seq 0 (bC c)) in
    if bmacro c then AMacro (xmean a) else AEach a.
Proof.
  intros Hs Hne Hge. unfold m_gamma_auprc, counts_spec, pack3, st_tp, st_fp, st_fn, nget. cbn [narr nth fst snd]. cbv zeta.
  unfold qcols. rewrite combine_map_same, map2_map_same. cbn [fst snd].
  rewrite (map_ext_in _ (fun k => Fin (auprc_exact (floored (thresholds c) (col k xs))))); [reflexivity|].
  intros k Hk. apply in_seq in Hk. destruct Hk as [_ Hk]. cbn in Hk.
  rewrite !qcols_table by exact Hk. destruct (col_counts (thresholds c) xs k Hs) as (-> & -> & ->).
  apply binned_auprc_floor_thm; try assumption.
  intros y Hy. unfold col in Hy. apply in_map_iff in Hy as (x & <- & Hx). cbn [fst]. apply Hge; assumption.
Qed.
End PerClass.

Lemma mc_col_ovr k xs : col mc_scs mc_hit k xs = ovr k xs.
Proof. reflexivity. Qed.
(* MulticlassBinnedAUPRC / multiclass_binned_auprc: class k = exact AUPRC of the floored one-vs-rest problem *)
Theorem mc_auprc_floor c xs : asc (thresholds c) -> thresholds c <> [] -> mc_ok (bC c) xs = true ->
  (forall k x, (k < bC c)%nat -> In x xs -> hd 0 (thresholds c) <= nth k (fst x) 0) ->
  m_gamma_auprc c (mc_beta c xs)
  = let a := map (fun k => Fin (auprc_exact (floored (thresholds c) (ovr k xs)))) (seq 0 (bC c)) in
    if bmacro c then AMacro (xmean a) else AEach a.
Proof.
  intros Hs Hne Hok Hge. unfold mc_beta. rewrite (mc_counts_spec c xs Hs Hok).
  exact (auprc_columns_floor mc_scs mc_hit c xs Hs Hne Hge).
Qed.
(* MultilabelBinnedAUPRC / multilabel_binned_auprc: label k = exact AUPRC of the floored scores of column k *)
Definition label_col (k : nat) (xs : list mlsample) : list sample := map (fun x => (nth k (fst x) 0, nth k (snd x) false)) xs.
Theorem ml_auprc_floor c xs : asc (thresholds c) -> thresholds c <> [] -> ml_ok (bC c) xs = true ->
  (forall k x, (k < bC c)%nat -> In x xs -> hd 0 (thresholds c) <= nth k (fst x) 0) ->
  m_gamma_auprc c (ml_beta c xs)
  = let a := map (fun k => Fin (auprc_exact (floored (thresholds c) (label_col k xs)))) (seq 0 (bC c)) in
    if bmacro c then AMacro (xmean a) else AEach a.
Proof.
  intros Hs Hne Hok Hge. unfold ml_beta. rewrite (ml_counts_spec c xs Hs Hok).
  exact (auprc_columns_floor ml_scs ml_hit c xs Hs Hne Hge).
Qed.
(* BinaryBinnedAUPRC / binary_binned_auprc: task t *)
Theorem bauprc_rows_floor c rows : asc (thresholds c) -> thresholds c <> [] ->
  (forall r x, In r rows -> In x r -> hd 0 (thresholds c) <= fst x) ->
  map2 (fun tf fn => auprc_curve (fst tf) (snd tf) fn)
       (combine (nrows (st_tp (bauprc_beta c rows))) (nrows (st_fp (bauprc_beta c rows)))) (nrows (st_fn (bauprc_beta c rows)))
  = map (fun r => Fin (auprc_exact (floored (thresholds c) r))) rows.
Proof.
  intros Hs Hne Hge. unfold bauprc_beta, st_tp, st_fp, st_fn, nget. cbn [narr nth]. rewrite !nrows_zmat, !map_map.
  rewrite combine_map_same, map2_map_same. cbn [fst snd]. apply map_ext_in. intros r Hr.
  apply binned_auprc_floor_thm; try assumption. intros x Hx. apply (Hge r x Hr Hx).
Qed.

(* binned = the C05 quantities of the floored scores *)
Theorem binned_auroc_C05_floor : forall (T : list Z) (xs : list sample),
  asc T -> T <> [] -> (forall x, In x xs -> hd 0 T <= fst x) ->
  binary_binned_auroc T xs = Curves.auroc_spec (map lift (floored T xs)) /\
  binary_binned_auroc T xs = Curves.auroc_row (map lift (floored T xs)).
Proof.
  intros T xs Hs Hne Hge. rewrite CurvesP.auroc_row_spec, <- auroc_exact_is_C05. split; apply binned_auroc_floor_thm; assumption.
Qed.
Theorem binned_auprc_C05_floor : forall (T : list Z) (xs : list sample),
  asc T -> T <> [] -> (forall x, In x xs -> hd 0 T <= fst x) ->
  auprc_curve (map zq (bin_tp T xs)) (map zq (bin_fp T xs)) (map zq (bin_fn T xs))
  = Fin (Curves.auprc_spec (map lift (floored T xs))).
Proof. intros T xs Hs Hne Hge. rewrite <- auprc_exact_is_C05. apply binned_auprc_floor_thm; assumption. Qed.
