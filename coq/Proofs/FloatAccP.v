From Coq Require Import ZArith Bool List Lia.
From TE Require Import Models.FloatAcc.
Import ListNotations.
Open Scope Z_scope.

Lemma rne_exact p z : 0 < p -> 0 <= z <= 2 ^ p -> rne p z = z.
Proof.
  intros Hp [Hz Hle]. unfold rne.
  destruct (Z.eq_dec z (2 ^ p)) as [->|Hne].
  - rewrite Z.log2_pow2 by lia. replace (Z.max 0 (p + 1 - p)) with 1 by lia. cbn [Z.eqb].
    change (2 ^ 1) with 2. change (2 ^ (1 - 1)) with 1.
    assert (E : 2 ^ p = 2 * 2 ^ (p - 1)) by (rewrite <- Z.pow_succ_r by lia; f_equal; lia).
    rewrite E, Z.mul_comm, Z_mod_mult, Z.div_mul by lia. cbn. lia.
  - assert (Hlog : Z.log2 z < p).
    { destruct (Z.eq_dec z 0) as [->|Hnz]; [cbn; lia|apply Z.log2_lt_pow2; lia]. }
    replace (Z.max 0 (Z.log2 z + 1 - p)) with 0 by lia. reflexivity.
Qed.

Lemma wrap64_small a : 0 <= a <= 2 ^ 53 -> wrap 64 a = a.
Proof.
  intros H. unfold wrap. change (64 - 1) with 63.
  assert (2 ^ 53 < 2 ^ 63) by (apply Z.pow_lt_mono_r; lia).
  assert (2 ^ 64 = 2 * 2 ^ 63) by (change 64 with (Z.succ 63); rewrite Z.pow_succ_r; lia).
  rewrite Z.mod_small; lia.
Qed.

Lemma acc_exact_wide k a d :
  wide k = true -> 0 <= a -> 0 <= d -> a + d <= 2 ^ 53 -> acc_add k a d = a + d.
Proof.
  intros Hk Ha Hd Hs. destruct k; try discriminate Hk; unfold acc_add.
  - rewrite (rne_exact 53 d) by lia. apply rne_exact; lia.
  - apply wrap64_small; lia.
  - reflexivity.
  - rewrite (rne_exact 53 d) by lia. apply rne_exact; lia.
Qed.

Definition sumZ (l : list Z) := fold_right Z.add 0 l.

Lemma sumZ_cons d ds : sumZ (d :: ds) = d + sumZ ds.
Proof. reflexivity. Qed.
Lemma sumZ_nonneg ds : Forall (fun d => 0 <= d) ds -> 0 <= sumZ ds.
Proof. induction 1 as [|d ds Hd _ IH]; [cbv; discriminate|rewrite sumZ_cons; lia]. Qed.

(* every history whose true total stays within 2^53 is counted exactly *)
Lemma history_exact_wide k : wide k = true -> forall ds a,
  0 <= a -> Forall (fun d => 0 <= d) ds -> a + sumZ ds <= 2 ^ 53 ->
  acc_run k a ds = a + sumZ ds.
Proof.
  intros Hk. induction ds as [|d ds IH]; intros a Ha Hds Hs.
  - cbv [acc_run fold_left sumZ fold_right]. lia.
  - inversion Hds as [|? ? Hd Hds']; subst.
    pose proof (sumZ_nonneg ds Hds') as Hrest.
    rewrite sumZ_cons in *.
    change (acc_run k a (d :: ds)) with (acc_run k (acc_add k a d) ds).
    rewrite acc_exact_wide by (try assumption; lia).
    rewrite IH by (try assumption; lia). lia.
Qed.

(* "adding further samples always changes the totals by exactly the number added" *)
Lemma never_stops_counting_wide k a d :
  wide k = true -> 0 <= a -> 0 < d -> a + d <= 2 ^ 53 -> acc_add k a d - a = d.
Proof. intros. rewrite acc_exact_wide by (assumption || lia). lia. Qed.

Lemma acc_f32_saturates : acc_add F32 (2 ^ 24) 1 = 2 ^ 24.
Proof. reflexivity. Qed.

Lemma narrow_refuted k : wide k = false ->
  exists a d, 0 <= a /\ 0 < d /\ a + d <= 2 ^ 53 /\ acc_add k a d <> a + d.
Proof.
  intros Hk. destruct k; try discriminate Hk.
  - exists (2 ^ 11), 1. repeat split; try (vm_compute; congruence); vm_compute; discriminate.
  - exists (2 ^ 8), 1. repeat split; try (vm_compute; congruence); vm_compute; discriminate.
  - exists (2 ^ 24), 1. repeat split; try (vm_compute; congruence); vm_compute; discriminate.
  - exists 127, 1. repeat split; try (vm_compute; congruence); vm_compute; discriminate.
  - exists 255, 1. repeat split; try (vm_compute; congruence); vm_compute; discriminate.
  - exists (2 ^ 15 - 1), 1. repeat split; try (vm_compute; congruence); vm_compute; discriminate.
  - exists (2 ^ 31 - 1), 1. repeat split; try (vm_compute; congruence); vm_compute; discriminate.
Qed.

(* agreement with what torch printed: 16777216+1, 16777216+3, 16777216+16777217 *)
Example torch_f32_1 : acc_add F32 16777216 1 = 16777216. Proof. reflexivity. Qed.
Example torch_f32_2 : acc_add F32 16777216 3 = 16777220. Proof. reflexivity. Qed.
Example torch_f32_3 : acc_add F32 16777216 16777217 = 33554432. Proof. reflexivity. Qed.
