(* C03 / C12 / C16 for the eight binned classes.
   C03: the class after ANY batching computes the function that the `@model binned_*_fn` entry points run,
        applied once to the concatenation of the batches (additive classes: through the generic
        concatenation laws of Proofs/CountingCatP.v; the two cache classes: directly).
   C12: order of updates, batching, and order of the samples inside the batches are irrelevant
        (except MulticlassBinnedAUROC, whose result is indexed by sample -- the known finding).
   C16: slice t / class k / label k of every multi-slice binned metric is the binary metric of that slice. *)
From Coq Require Import ZArith List Bool Lia Sorted QArith Qcanon Permutation.
From TE Require Import Base.Val Base.Nd Base.Xq Algebra.Metric Algebra.MergeTree Algebra.Pool Algebra.Additive Algebra.Cache
  Models.Binned Proofs.BinnedP Proofs.BinnedFloorP.
From TE Require Models.Counting Proofs.CountingCatP.
Import ListNotations.
Open Scope Z_scope.

Notation cat_laws := CountingCatP.cat_laws.
Notation class_run := CountingCatP.class_run.
Notation cat_all := CountingCatP.cat_all.
Notation fn_of := Counting.fn_of.

(* ---------------------------------------------------------------------------------------- *)
(* nadd on the encoded count states                                                           *)
(* ---------------------------------------------------------------------------------------- *)
Lemma nadd_zvec_map {X} (f g : X -> Z) l : nadd (zvec (map f l)) (zvec (map g l)) = zvec (map (fun x => f x + g x) l).
Proof.
  unfold zvec, nvec. rewrite nadd_arr. f_equal. induction l as [|x l IH]; [reflexivity|].
  cbn [map map2]. rewrite IH, zq_add. reflexivity.
Qed.
Lemma nadd_spec_table {X} C T (f : nat -> nat -> list X -> Z) xs ys :
  (forall i c, f i c (xs ++ ys) = f i c xs + f i c ys) ->
  nadd (zmat (spec_table C T f xs)) (zmat (spec_table C T f ys)) = zmat (spec_table C T f (xs ++ ys)).
Proof.
  intros H. unfold spec_table, zmat, nmat. rewrite nadd_arr. f_equal. rewrite !map_map, map2_map_same. apply map_ext. intros i.
  change (nadd (zvec (map (fun c => f i c xs) (seq 0 C))) (zvec (map (fun c => f i c ys) (seq 0 C))) = zvec (map (fun c => f i c (xs ++ ys)) (seq 0 C))).
  rewrite nadd_zvec_map. f_equal. apply map_ext. intros c. symmetry. apply H.
Qed.
Lemma nadd_arr3 a b d a' b' d' : nadd (Arr [a; b; d]) (Arr [a'; b'; d']) = Arr [nadd a a'; nadd b b'; nadd d d'].
Proof. rewrite nadd_arr. reflexivity. Qed.

(* counts are additive over concatenation and invariant under permutation *)
Lemma cnt_perm {X} (P : X -> bool) l l' : Permutation l l' -> cnt P l = cnt P l'.
Proof. induction 1 as [| x l l' _ IH | x y l | l1 l2 l3 _ IH1 _ IH2]; rewrite ?cnt_cons; try lia; reflexivity. Qed.
Lemma spec_app t (xs ys : list sample) :
  tp_spec t (xs ++ ys) = tp_spec t xs + tp_spec t ys /\ fp_spec t (xs ++ ys) = fp_spec t xs + fp_spec t ys /\
  fn_spec t (xs ++ ys) = fn_spec t xs + fn_spec t ys.
Proof. unfold fn_spec, tp_spec, fp_spec, pos_spec. rewrite !cnt_app. repeat split; lia. Qed.
Lemma spec_perm t (xs ys : list sample) : Permutation xs ys ->
  tp_spec t xs = tp_spec t ys /\ fp_spec t xs = fp_spec t ys /\ fn_spec t xs = fn_spec t ys.
Proof. intros H. unfold fn_spec, tp_spec, fp_spec, pos_spec. rewrite !(cnt_perm _ _ _ H). auto. Qed.

(* ---------------------------------------------------------------------------------------- *)
(* 1. BinaryBinnedPrecisionRecallCurve                                                        *)
(* ---------------------------------------------------------------------------------------- *)
Definition bprc_okb (c : bcfg) (_ : list sample) : Prop := asc (thresholds c).
Lemma bprc_beta_spec c xs : asc (thresholds c) ->
  bprc_beta c xs = Arr [zvec (map (fun t => fn_spec t xs) (thresholds c)); zvec (map (fun t => fp_spec t xs) (thresholds c));
                        zvec (map (fun t => tp_spec t xs) (thresholds c))].
Proof. intros Hs. unfold bprc_beta. cbv zeta. destruct (bin_vectors_spec (thresholds c) xs Hs) as (-> & -> & ->). reflexivity. Qed.
Lemma bprc_laws c : cat_laws bprc_spec c (bprc_okb c) (@app sample).
Proof.
  split; [intros b _; apply bprc_valid_all|]. split; [intros b1 b2 H _; exact H|].
  intros b1 b2 Hs _. cbn [abeta bprc_spec]. rewrite !bprc_beta_spec by exact Hs. rewrite nadd_arr3, !nadd_zvec_map.
  rewrite (map_ext (fun t => fn_spec t (b1 ++ b2)) (fun t => fn_spec t b1 + fn_spec t b2)) by (intros t; apply (spec_app t b1 b2)).
  rewrite (map_ext (fun t => fp_spec t (b1 ++ b2)) (fun t => fp_spec t b1 + fp_spec t b2)) by (intros t; apply (spec_app t b1 b2)).
  rewrite (map_ext (fun t => tp_spec t (b1 ++ b2)) (fun t => tp_spec t b1 + tp_spec t b2)) by (intros t; apply (spec_app t b1 b2)).
  reflexivity.
Qed.
Lemma bprc_beta_perm c xs ys : asc (thresholds c) -> Permutation xs ys -> bprc_beta c xs = bprc_beta c ys.
Proof.
  intros Hs Hp. rewrite !bprc_beta_spec by exact Hs.
  rewrite (map_ext (fun t => fn_spec t xs) (fun t => fn_spec t ys)) by (intros t; apply (spec_perm t xs ys Hp)).
  rewrite (map_ext (fun t => fp_spec t xs) (fun t => fp_spec t ys)) by (intros t; apply (spec_perm t xs ys Hp)).
  rewrite (map_ext (fun t => tp_spec t xs) (fun t => tp_spec t ys)) by (intros t; apply (spec_perm t xs ys Hp)).
  reflexivity.
Qed.

(* ---------------------------------------------------------------------------------------- *)
(* 2. multiclass / multilabel curves and AUPRC                                                *)
(* ---------------------------------------------------------------------------------------- *)
Section MCat.
Context {X : Type}.
Variables (scs : X -> list Z) (hitf : X -> nat -> bool).
Lemma counts_spec_app C T xs ys :
  nadd (pack3 (counts_spec scs hitf C T xs)) (pack3 (counts_spec scs hitf C T ys)) = pack3 (counts_spec scs hitf C T (xs ++ ys)).
Proof.
  unfold counts_spec, pack3. cbn [fst snd]. rewrite nadd_arr3. rewrite !nadd_spec_table; [reflexivity| | |];
    intros i c; unfold mfn_spec, mpos_spec, mtp_spec, mfp_spec; rewrite !cnt_app; lia.
Qed.
Lemma counts_spec_perm C T xs ys : Permutation xs ys -> counts_spec scs hitf C T xs = counts_spec scs hitf C T ys.
Proof.
  intros Hp. unfold counts_spec.
  assert (E : forall f : nat -> nat -> list X -> Z, (forall i c, f i c xs = f i c ys) -> spec_table C T f xs = spec_table C T f ys).
  { intros f H. unfold spec_table. apply map_ext. intros i. apply map_ext. intros c. apply H. }
  rewrite (E (mfn_spec scs hitf T)), (E (mfp_spec scs hitf T)), (E (mtp_spec scs hitf T)); [reflexivity| | |];
    intros i c; unfold mfn_spec, mpos_spec, mtp_spec, mfp_spec; rewrite !(cnt_perm _ _ _ Hp); reflexivity.
Qed.
End MCat.

Definition mc_okb (c : bcfg) (b : list mcsample) : Prop := asc (thresholds c) /\ mc_ok (bC c) b = true.
Definition ml_okb (c : bcfg) (b : list mlsample) : Prop := asc (thresholds c) /\ ml_ok (bC c) b = true.
Lemma mc_ok_app C a b : mc_ok C a = true -> mc_ok C b = true -> mc_ok C (a ++ b) = true.
Proof. unfold mc_ok. rewrite !forallb_forall. intros Ha Hb x Hx. apply in_app_or in Hx as [H|H]; auto. Qed.
Lemma ml_ok_app C a b : ml_ok C a = true -> ml_ok C b = true -> ml_ok C (a ++ b) = true.
Proof. unfold ml_ok. rewrite !forallb_forall. intros Ha Hb x Hx. apply in_app_or in Hx as [H|H]; auto. Qed.
Lemma mc_beta_cat c b1 b2 : mc_okb c b1 -> mc_okb c b2 -> mc_beta c (b1 ++ b2) = nadd (mc_beta c b1) (mc_beta c b2).
Proof.
  intros [Hs H1] [_ H2]. unfold mc_beta. rewrite !mc_counts_spec by (try assumption; apply mc_ok_app; assumption).
  symmetry. apply counts_spec_app.
Qed.
Lemma ml_beta_cat c b1 b2 : ml_okb c b1 -> ml_okb c b2 -> ml_beta c (b1 ++ b2) = nadd (ml_beta c b1) (ml_beta c b2).
Proof.
  intros [Hs H1] [_ H2]. unfold ml_beta. rewrite !ml_counts_spec by (try assumption; apply ml_ok_app; assumption).
  symmetry. apply counts_spec_app.
Qed.
Lemma mcprc_laws c : cat_laws mcprc_spec c (mc_okb c) (@app mcsample).
Proof.
  split; [intros b [Hs Hok]; apply (mc_valid_is_input_check c b Hs Hok)|].
  split; [intros b1 b2 [Hs H1] [_ H2]; split; [exact Hs|apply mc_ok_app; assumption]|apply mc_beta_cat].
Qed.
Lemma mcauprc_laws c : cat_laws mcauprc_spec c (mc_okb c) (@app mcsample).
Proof.
  split; [intros b [Hs Hok]; apply (mc_valid_is_input_check c b Hs Hok)|].
  split; [intros b1 b2 [Hs H1] [_ H2]; split; [exact Hs|apply mc_ok_app; assumption]|apply mc_beta_cat].
Qed.
Lemma mlprc_laws c : cat_laws mlprc_spec c (ml_okb c) (@app mlsample).
Proof.
  split; [intros b [Hs Hok]; apply (ml_valid_is_input_check c b Hs Hok)|].
  split; [intros b1 b2 [Hs H1] [_ H2]; split; [exact Hs|apply ml_ok_app; assumption]|apply ml_beta_cat].
Qed.
Lemma mlauprc_laws c : cat_laws mlauprc_spec c (ml_okb c) (@app mlsample).
Proof.
  split; [intros b [Hs Hok]; apply (ml_valid_is_input_check c b Hs Hok)|].
  split; [intros b1 b2 [Hs H1] [_ H2]; split; [exact Hs|apply ml_ok_app; assumption]|apply ml_beta_cat].
Qed.
Lemma mc_ok_perm C a b : Permutation a b -> mc_ok C a = true -> mc_ok C b = true.
Proof. unfold mc_ok. rewrite !forallb_forall. intros Hp H x Hx. apply H. eapply Permutation_in; [apply Permutation_sym, Hp|exact Hx]. Qed.
Lemma ml_ok_perm C a b : Permutation a b -> ml_ok C a = true -> ml_ok C b = true.
Proof. unfold ml_ok. rewrite !forallb_forall. intros Hp H x Hx. apply H. eapply Permutation_in; [apply Permutation_sym, Hp|exact Hx]. Qed.
Lemma mc_beta_perm c xs ys : mc_okb c xs -> Permutation xs ys -> mc_beta c xs = mc_beta c ys.
Proof.
  intros [Hs Hok] Hp. unfold mc_beta. rewrite !mc_counts_spec by (try assumption; eapply mc_ok_perm; eassumption).
  rewrite (counts_spec_perm mc_scs mc_hit _ _ _ _ Hp). reflexivity.
Qed.
Lemma ml_beta_perm c xs ys : ml_okb c xs -> Permutation xs ys -> ml_beta c xs = ml_beta c ys.
Proof.
  intros [Hs Hok] Hp. unfold ml_beta. rewrite !ml_counts_spec by (try assumption; eapply ml_ok_perm; eassumption).
  rewrite (counts_spec_perm ml_scs ml_hit _ _ _ _ Hp). reflexivity.
Qed.

(* ---------------------------------------------------------------------------------------- *)
(* 3. BinaryBinnedAUPRC: batches are task rows, concatenated row by row (torch.cat(dim=-1))     *)
(* ---------------------------------------------------------------------------------------- *)
Definition rows_cat (r1 r2 : list (list sample)) : list (list sample) := map2 (@app sample) r1 r2.
Definition bauprc_okb (c : bcfg) (b : list (list sample)) : Prop :=
  asc (thresholds c) /\ length b = bC c /\ rect b = true.
Lemma rect_spec rows : rect rows = true <-> exists n, Forall (fun r => length r = n) rows.
Proof.
  split.
  - destruct rows as [|r rs]; [exists 0%nat; constructor|]. cbn [rect]. rewrite forallb_forall. intros H. exists (length r).
    constructor; [reflexivity|]. apply Forall_forall. intros r' Hr. apply Nat.eqb_eq, H, Hr.
  - intros [n H]. destruct rows as [|r rs]; [reflexivity|]. cbn [rect]. inversion H; subst. apply forallb_forall. intros r' Hr.
    apply Nat.eqb_eq. rewrite Forall_forall in H3. apply H3, Hr.
Qed.
Lemma rows_cat_shape r1 r2 n1 n2 : length r1 = length r2 -> Forall (fun r => length r = n1) r1 -> Forall (fun r => length r = n2) r2 ->
  length (rows_cat r1 r2) = length r1 /\ Forall (fun r => length r = (n1 + n2)%nat) (rows_cat r1 r2).
Proof.
  revert r2. induction r1 as [|a r1 IH]; intros [|b r2] Hl H1 H2; try discriminate; [split; [reflexivity|constructor]|].
  inversion H1; subst. inversion H2; subst. cbn [rows_cat map2 length]. destruct (IH r2) as [IHa IHb]; try assumption; [cbn in Hl; lia|].
  split; [unfold rows_cat in IHa; rewrite IHa; reflexivity|]. constructor; [apply app_length|exact IHb].
Qed.
Lemma bauprc_ok_cat c b1 b2 : bauprc_okb c b1 -> bauprc_okb c b2 -> bauprc_okb c (rows_cat b1 b2).
Proof.
  intros (Hs & L1 & R1) (_ & L2 & R2). apply rect_spec in R1 as [n1 R1]. apply rect_spec in R2 as [n2 R2].
  destruct (rows_cat_shape b1 b2 n1 n2) as [Hl Hr]; try assumption; [congruence|].
  split; [exact Hs|]. split; [congruence|]. apply rect_spec. exists (n1 + n2)%nat. exact Hr.
Qed.
Lemma nadd_zmat_rows (h : list sample -> list Z) :
  (forall a b, zvec (h (a ++ b)) = nadd (zvec (h a)) (zvec (h b))) ->
  forall r1 r2, length r1 = length r2 -> zmat (map h (rows_cat r1 r2)) = nadd (zmat (map h r1)) (zmat (map h r2)).
Proof.
  intros H. unfold zmat, nmat. induction r1 as [|a r1 IH]; intros [|b r2] Hl; try discriminate; [reflexivity|].
  cbn [rows_cat map2 map]. rewrite nadd_arr. cbn [map2]. specialize (IH r2). rewrite nadd_arr in IH.
  assert (IH' := IH ltac:(cbn in Hl; lia)). injection IH' as IH'. unfold rows_cat in IH'. rewrite IH'. f_equal. f_equal. apply H.
Qed.
Lemma bin_zvec_app T a b : asc T ->
  zvec (bin_fn T (a ++ b)) = nadd (zvec (bin_fn T a)) (zvec (bin_fn T b)) /\
  zvec (bin_fp T (a ++ b)) = nadd (zvec (bin_fp T a)) (zvec (bin_fp T b)) /\
  zvec (bin_tp T (a ++ b)) = nadd (zvec (bin_tp T a)) (zvec (bin_tp T b)).
Proof.
  intros Hs. destruct (bin_vectors_spec T a Hs) as (-> & -> & ->). destruct (bin_vectors_spec T b Hs) as (-> & -> & ->).
  destruct (bin_vectors_spec T (a ++ b) Hs) as (-> & -> & ->). rewrite !nadd_zvec_map.
  rewrite (map_ext (fun t => fn_spec t (a ++ b)) (fun t => fn_spec t a + fn_spec t b)) by (intros t; apply (spec_app t a b)).
  rewrite (map_ext (fun t => fp_spec t (a ++ b)) (fun t => fp_spec t a + fp_spec t b)) by (intros t; apply (spec_app t a b)).
  rewrite (map_ext (fun t => tp_spec t (a ++ b)) (fun t => tp_spec t a + tp_spec t b)) by (intros t; apply (spec_app t a b)).
  auto.
Qed.
Lemma bauprc_beta_cat c b1 b2 : bauprc_okb c b1 -> bauprc_okb c b2 ->
  bauprc_beta c (rows_cat b1 b2) = nadd (bauprc_beta c b1) (bauprc_beta c b2).
Proof.
  intros (Hs & L1 & _) (_ & L2 & _). unfold bauprc_beta. cbv zeta. rewrite nadd_arr3.
  assert (Hl : length b1 = length b2) by congruence.
  rewrite (nadd_zmat_rows (bin_fn (thresholds c)) (fun a b => proj1 (bin_zvec_app _ a b Hs)) b1 b2 Hl).
  rewrite (nadd_zmat_rows (bin_fp (thresholds c)) (fun a b => proj1 (proj2 (bin_zvec_app _ a b Hs))) b1 b2 Hl).
  rewrite (nadd_zmat_rows (bin_tp (thresholds c)) (fun a b => proj2 (proj2 (bin_zvec_app _ a b Hs))) b1 b2 Hl).
  reflexivity.
Qed.
Lemma bauprc_laws c : cat_laws bauprc_spec c (bauprc_okb c) rows_cat.
Proof.
  split; [intros b (_ & L & R); apply bauprc_valid_is_input_check; assumption|].
  split; [apply bauprc_ok_cat|apply bauprc_beta_cat].
Qed.

(* ======================================================================================== *)
(* C03: class after any batching = the `@model binned_*_fn` entry point on the concatenation    *)
(* ======================================================================================== *)
Lemma run_fn_spec {B O} (dec : val -> option B) ok valid (f : bcfg -> B -> O) enc cv bv c b :
  dec_bcfg cv = Some c -> dec bv = Some b -> ok c = true -> valid c b = true ->
  run_fn dec ok valid f enc (VL [cv; bv]) = enc (f c b).
Proof. intros Hc Hb Ho Hv. unfold run_fn. rewrite Hc, Hb, Ho, Hv. reflexivity. Qed.
Lemma prc_ok_asc c : prc_ok c = true -> asc (thresholds c).
Proof. apply prc_param_asc. Qed.
Lemma auprc_ok_asc c : auprc_ok c = true -> asc (thresholds c).
Proof. unfold auprc_ok, auprc_param_ok. intros H. apply andb_prop in H as [H _]. apply (prc_param_asc _ _ H). Qed.

Theorem bprc_class_fn cv bv c b rest : dec_bcfg cv = Some c -> prc_ok c = true ->
  dec_row bv = Some (cat_all bprc_spec (@app sample) b rest) ->
  run_binned_bprc_fn (VL [cv; bv]) = enc_prc1 (class_run bprc_spec c (b :: rest)).
Proof.
  intros Hc Ho Hd. pose proof (prc_ok_asc c Ho) as Hs.
  assert (Hr : Forall (bprc_okb c) rest) by (apply Forall_forall; intros; exact Hs).
  destruct (CountingCatP.class_eq_fn_of_laws _ _ _ _ (bprc_laws c) b rest Hs Hr) as [E V].
  unfold run_binned_bprc_fn. rewrite (run_fn_spec _ _ _ _ _ cv bv c _ Hc Hd Ho V). f_equal. symmetry. exact E.
Qed.
Theorem mcprc_class_fn cv bv c b rest : dec_bcfg cv = Some c -> prc_ok c = true ->
  mc_ok (bC c) b = true -> Forall (fun x => mc_ok (bC c) x = true) rest ->
  dec_mc bv = Some (cat_all mcprc_spec (@app mcsample) b rest) ->
  run_binned_mcprc_fn (VL [cv; bv]) = enc_mprc (class_run mcprc_spec c (b :: rest)).
Proof.
  intros Hc Ho Hb Hr Hd. pose proof (prc_ok_asc c Ho) as Hs.
  destruct (CountingCatP.class_eq_fn_of_laws _ _ _ _ (mcprc_laws c) b rest (conj Hs Hb)) as [E V].
  { eapply Forall_impl; [|exact Hr]. intros x Hx. split; assumption. }
  unfold run_binned_mcprc_fn. rewrite (run_fn_spec _ _ _ _ _ cv bv c _ Hc Hd Ho V). f_equal. symmetry. exact E.
Qed.
Theorem mlprc_class_fn cv bv c b rest : dec_bcfg cv = Some c -> prc_ok c = true ->
  ml_ok (bC c) b = true -> Forall (fun x => ml_ok (bC c) x = true) rest ->
  dec_ml bv = Some (cat_all mlprc_spec (@app mlsample) b rest) ->
  run_binned_mlprc_fn (VL [cv; bv]) = enc_mprc (class_run mlprc_spec c (b :: rest)).
Proof.
  intros Hc Ho Hb Hr Hd. pose proof (prc_ok_asc c Ho) as Hs.
  destruct (CountingCatP.class_eq_fn_of_laws _ _ _ _ (mlprc_laws c) b rest (conj Hs Hb)) as [E V].
  { eapply Forall_impl; [|exact Hr]. intros x Hx. split; assumption. }
  unfold run_binned_mlprc_fn. rewrite (run_fn_spec _ _ _ _ _ cv bv c _ Hc Hd Ho V). f_equal. symmetry. exact E.
Qed.
Lemma auprc_ok2_asc c : auprc_ok2 c = true -> asc (thresholds c).
Proof. unfold auprc_ok2. intros H. apply andb_prop in H as [H _]. apply auprc_ok_asc, H. Qed.
Lemma auprc_ok1_asc c : auprc_ok1 c = true -> asc (thresholds c).
Proof. unfold auprc_ok1. intros H. apply andb_prop in H as [H _]. apply auprc_ok_asc, H. Qed.
Theorem mcauprc_class_fn cv bv c b rest : dec_bcfg cv = Some c -> auprc_ok2 c = true ->
  mc_ok (bC c) b = true -> Forall (fun x => mc_ok (bC c) x = true) rest ->
  dec_mc bv = Some (cat_all mcauprc_spec (@app mcsample) b rest) ->
  run_binned_mcauprc_fn (VL [cv; bv]) = enc_auprc (class_run mcauprc_spec c (b :: rest)).
Proof.
  intros Hc Ho Hb Hr Hd. pose proof (auprc_ok2_asc c Ho) as Hs.
  destruct (CountingCatP.class_eq_fn_of_laws _ _ _ _ (mcauprc_laws c) b rest (conj Hs Hb)) as [E V].
  { eapply Forall_impl; [|exact Hr]. intros x Hx. split; assumption. }
  unfold run_binned_mcauprc_fn. rewrite (run_fn_spec _ _ _ _ _ cv bv c _ Hc Hd Ho V). f_equal. symmetry. exact E.
Qed.
Theorem mlauprc_class_fn cv bv c b rest : dec_bcfg cv = Some c -> auprc_ok2 c = true ->
  ml_ok (bC c) b = true -> Forall (fun x => ml_ok (bC c) x = true) rest ->
  dec_ml bv = Some (cat_all mlauprc_spec (@app mlsample) b rest) ->
  run_binned_mlauprc_fn (VL [cv; bv]) = enc_auprc (class_run mlauprc_spec c (b :: rest)).
Proof.
  intros Hc Ho Hb Hr Hd. pose proof (auprc_ok2_asc c Ho) as Hs.
  destruct (CountingCatP.class_eq_fn_of_laws _ _ _ _ (mlauprc_laws c) b rest (conj Hs Hb)) as [E V].
  { eapply Forall_impl; [|exact Hr]. intros x Hx. split; assumption. }
  unfold run_binned_mlauprc_fn. rewrite (run_fn_spec _ _ _ _ _ cv bv c _ Hc Hd Ho V). f_equal. symmetry. exact E.
Qed.
Definition rows_okb (c : bcfg) (b : list (list sample)) : Prop := length b = bC c /\ rect b = true.
Theorem bauprc_class_fn cv bv c b rest : dec_bcfg cv = Some c -> auprc_ok1 c = true ->
  rows_okb c b -> Forall (rows_okb c) rest ->
  dec_rows bv = Some (cat_all bauprc_spec rows_cat b rest) ->
  run_binned_bauprc_fn (VL [cv; bv]) = enc_auprc (class_run bauprc_spec c (b :: rest)).
Proof.
  intros Hc Ho [Hb1 Hb2] Hr Hd. pose proof (auprc_ok1_asc c Ho) as Hs.
  destruct (CountingCatP.class_eq_fn_of_laws _ _ _ _ (bauprc_laws c) b rest (conj Hs (conj Hb1 Hb2))) as [E V].
  { eapply Forall_impl; [|exact Hr]. intros x [H1 H2]. split; [exact Hs|split; assumption]. }
  unfold run_binned_bauprc_fn. rewrite (run_fn_spec _ _ _ _ _ cv bv c _ Hc Hd Ho V). f_equal. symmetry. exact E.
Qed.

(* ---- the two cache classes ---- *)
Definition cache_run (S : CacheSpec) (c : ccfg S) (bs : list (cchunk S)) : cout S :=
  cmp (cache_metric S) c (fold_left (upd (cache_metric S) c) bs (init (cache_metric S) c)).
Lemma fold_snoc {X} (bs : list X) : forall s0, fold_left (fun s b => s ++ [b]) bs s0 = s0 ++ bs.
Proof. induction bs as [|b bs IH]; intros s0; cbn [fold_left]; [symmetry; apply app_nil_r|]. rewrite IH, <- app_assoc. reflexivity. Qed.
Lemma flat_map_id {X} (l : list (list X)) : flat_map (fun ch => ch) l = List.concat l.
Proof. rewrite flat_map_concat_map, map_id. reflexivity. Qed.
Lemma broc_run_concat c bs : cache_run broc_cache c bs = broc_fun c (List.concat bs).
Proof.
  unfold cache_run. change (fold_left (upd (cache_metric broc_cache) c) bs (init (cache_metric broc_cache) c)) with (fold_left (fun s b => s ++ [b]) bs (@nil (list bcol))).
  rewrite fold_snoc. cbn [app]. change (cmp (cache_metric broc_cache) c bs) with (broc_fun c (flat_map (fun ch : list bcol => ch) bs)).
  rewrite flat_map_id. reflexivity.
Qed.
Lemma mroc_run_concat c bs : cache_run mroc_cache c bs = mroc_fun c (List.concat bs).
Proof.
  unfold cache_run. change (fold_left (upd (cache_metric mroc_cache) c) bs (init (cache_metric mroc_cache) c)) with (fold_left (fun s b => s ++ [b]) bs (@nil (list mcsample))).
  rewrite fold_snoc. cbn [app]. change (cmp (cache_metric mroc_cache) c bs) with (mroc_fun c (flat_map (fun ch : list mcsample => ch) bs)).
  rewrite flat_map_id. reflexivity.
Qed.
Theorem broc_class_fn cv bv c bs : dec_bcfg cv = Some c -> broc_ok c = true -> dec_cols c bv = Some (List.concat bs) ->
  run_binned_broc_fn (VL [cv; bv]) = enc_broc (cache_run broc_cache c bs).
Proof. intros Hc Ho Hd. unfold run_binned_broc_fn. rewrite Hc, Ho, Hd, broc_run_concat. reflexivity. Qed.
Lemma mc_ok_concat C bs : Forall (fun b => mc_ok C b = true) bs -> mc_ok C (List.concat bs) = true.
Proof. induction 1 as [|b bs Hb _ IH]; [reflexivity|]. cbn [List.concat]. apply mc_ok_app; assumption. Qed.
Theorem mroc_class_fn cv bv c bs : dec_bcfg cv = Some c -> mroc_ok c = true -> dec_mc bv = Some (List.concat bs) ->
  Forall (fun b => mc_ok (bC c) b = true) bs ->
  run_binned_mroc_fn (VL [cv; bv]) = enc_mroc (cache_run mroc_cache c bs).
Proof.
  intros Hc Ho Hd Hv. unfold run_binned_mroc_fn.
  rewrite (run_fn_spec _ _ _ _ _ cv bv c _ Hc Hd Ho (mc_ok_concat _ _ Hv)), mroc_run_concat. reflexivity.
Qed.

(* ======================================================================================== *)
(* C12                                                                                        *)
(* ======================================================================================== *)
(* sample order inside the concatenation: the additive classes' statistic is permutation invariant *)
Theorem add_sample_order (S : AddSpec) (c : acfg S) (b b' : abatch S) :
  abeta S c b = abeta S c b' -> fn_of S c b = fn_of S c b'.
Proof. intros H. unfold Counting.fn_of. rewrite H. reflexivity. Qed.

Lemma bba_perm T xs ys : Permutation xs ys -> binary_binned_auroc T xs = binary_binned_auroc T ys.
Proof.
  intros Hp. unfold binary_binned_auroc. rewrite !broc_tp_spec, !broc_fp_spec.
  rewrite (map_ext (fun t => tp_spec t xs) (fun t => tp_spec t ys)) by (intros t; apply (spec_perm t xs ys Hp)).
  rewrite (map_ext (fun t => fp_spec t xs) (fun t => fp_spec t ys)) by (intros t; apply (spec_perm t xs ys Hp)).
  reflexivity.
Qed.
Lemma broc_fun_perm c cols cols' : Permutation cols cols' -> broc_fun c cols = broc_fun c cols'.
Proof.
  intros Hp. unfold broc_fun. destruct cols as [|a cols]; destruct cols' as [|a' cols'].
  - reflexivity.
  - apply Permutation_nil in Hp. discriminate.
  - apply Permutation_sym, Permutation_nil in Hp. discriminate.
  - f_equal. f_equal. apply map_ext. intros t. apply bba_perm. unfold task_row. apply Permutation_map, Hp.
Qed.
Theorem broc_batching c bs bs' : List.concat bs = List.concat bs' -> cache_run broc_cache c bs = cache_run broc_cache c bs'.
Proof. intros H. rewrite !broc_run_concat, H. reflexivity. Qed.
Theorem broc_sample_order c bs bs' : Permutation (List.concat bs) (List.concat bs') -> cache_run broc_cache c bs = cache_run broc_cache c bs'.
Proof. intros H. rewrite !broc_run_concat. apply broc_fun_perm, H. Qed.
Theorem mroc_batching c bs bs' : List.concat bs = List.concat bs' -> cache_run mroc_cache c bs = cache_run mroc_cache c bs'.
Proof. intros H. rewrite !mroc_run_concat, H. reflexivity. Qed.
(* MulticlassBinnedAUROC as implemented is indexed by SAMPLE, so the order of the samples shows in the result *)
Lemma mroc_sample_order_refuted_lem : exists c xs ys, Permutation xs ys /\ mc_ok (bC c) xs = true /\ asc (thresholds c) /\
  enc_mroc (mroc_fun c xs) <> enc_mroc (mroc_fun c ys).
Proof.
  exists {| bD := 8; bthr := TList [0; 8]; bmem := false; bC := 2; bmacro := false |},
         [([8; 0], 0%nat); ([0; 8], 0%nat)], [([0; 8], 0%nat); ([8; 0], 0%nat)].
  split; [apply perm_swap|]. split; [reflexivity|]. split; [repeat constructor; cbn; lia|]. vm_compute. discriminate.
Qed.

(* ======================================================================================== *)
(* C16: slices                                                                                *)
(* ======================================================================================== *)
Definition with_C (c : bcfg) (n : nat) : bcfg := {| bD := bD c; bthr := bthr c; bmem := bmem c; bC := n; bmacro := bmacro c |}.
(* the binary (single-slice) metrics *)
Definition bin_auprc (T : list Z) (r : list sample) : xq :=
  auprc_curve (map zq (bin_tp T r)) (map zq (bin_fp T r)) (map zq (bin_fn T r)).
Definition bin_prec (T : list Z) (r : list sample) : list xq := precision (map zq (bin_tp T r)) (map zq (bin_fp T r)).
Definition bin_rec (T : list Z) (r : list sample) : list xq := recall (map zq (bin_tp T r)) (map zq (bin_fn T r)).
Lemma bin_curve_is_class c r : bprc_gamma c (bprc_beta c r) = (bin_prec (thresholds c) r, bin_rec (thresholds c) r, thr_q c).
Proof.
  unfold bprc_gamma, bprc_beta, st_tp, st_fp, st_fn, nget, bin_prec, bin_rec, zvec. cbv zeta. cbn [narr nth]. rewrite !nlist_nvec. reflexivity.
Qed.

(* BinaryBinnedAUROC: task t of the multi-task metric = the one-task metric on row t *)
Theorem broc_slices c cols : cols <> [] ->
  broc_fun c cols = Some (map (fun t => binary_binned_auroc (thresholds c) (task_row t cols)) (seq 0 (bC c)), thr_q c) /\
  forall t, broc_fun (with_C c 1) (map (fun col => [nth t col (0, false)]) cols)
            = Some ([binary_binned_auroc (thresholds c) (task_row t cols)], thr_q c).
Proof.
  intros Hne. split; [destruct cols; [congruence|reflexivity]|]. intros t. unfold broc_fun.
  destruct cols as [|col cols]; [congruence|]. cbn [map]. cbn [bC with_C seq map]. f_equal. f_equal. f_equal.
  f_equal. unfold task_row. cbn [map nth]. f_equal. rewrite map_map. reflexivity.
Qed.
(* BinaryBinnedAUPRC: the per-task values are the binary binned AUPRC of each row *)
Theorem bauprc_slices c rows :
  bauprc_gamma c (bauprc_beta c rows)
  = let a := map (bin_auprc (thresholds c)) rows in if Nat.eqb (bC c) 1 then AMacro (nth 0 a NaN) else AEach a.
Proof.
  unfold bauprc_gamma. cbv zeta.
  replace (map2 (fun tf fn => auprc_curve (fst tf) (snd tf) fn)
             (combine (nrows (st_tp (bauprc_beta c rows))) (nrows (st_fp (bauprc_beta c rows)))) (nrows (st_fn (bauprc_beta c rows))))
    with (map (bin_auprc (thresholds c)) rows); [reflexivity|].
  unfold bauprc_beta, st_tp, st_fp, st_fn, nget. cbn [narr nth]. rewrite !nrows_zmat, !map_map.
  rewrite combine_map_same, map2_map_same. reflexivity.
Qed.

Section Slices.
Context {X : Type}.
Variables (scs : X -> list Z) (hitf : X -> nat -> bool).
Notation col := (col scs hitf).
Lemma state_columns c xs k : asc (thresholds c) -> (k < bC c)%nat ->
  let s := pack3 (counts_spec scs hitf (bC c) (thresholds c) xs) in
  map (fun r => nth k r 0%Qc) (nrows (st_tp s)) = map zq (bin_tp (thresholds c) (col k xs)) /\
  map (fun r => nth k r 0%Qc) (nrows (st_fp s)) = map zq (bin_fp (thresholds c) (col k xs)) /\
  map (fun r => nth k r 0%Qc) (nrows (st_fn s)) = map zq (bin_fn (thresholds c) (col k xs)).
Proof.
  intros Hs Hk. unfold counts_spec, pack3, st_tp, st_fp, st_fn, nget. cbn [narr nth fst snd]. cbv zeta.
  rewrite !qcols_table by exact Hk. destruct (col_counts scs hitf (thresholds c) xs k Hs) as (-> & -> & ->). auto.
Qed.
Theorem auprc_slices c xs : asc (thresholds c) ->
  m_gamma_auprc c (pack3 (counts_spec scs hitf (bC c) (thresholds c) xs))
  = let a := map (fun k => bin_auprc (thresholds c) (col k xs)) (seq 0 (bC c)) in
    if bmacro c then AMacro (xmean a) else AEach a.
Proof.
  intros Hs. unfold m_gamma_auprc. cbv zeta. unfold qcols. rewrite combine_map_same, map2_map_same. cbn [fst snd].
  rewrite (map_ext_in _ (fun k => bin_auprc (thresholds c) (col k xs))); [reflexivity|].
  intros k Hk. apply in_seq in Hk. destruct Hk as [_ Hk]. cbn in Hk.
  destruct (state_columns c xs k Hs Hk) as (-> & -> & ->). reflexivity.
Qed.
Theorem prc_slices c xs : asc (thresholds c) ->
  m_gamma_prc c (pack3 (counts_spec scs hitf (bC c) (thresholds c) xs))
  = (map (fun k => bin_prec (thresholds c) (col k xs)) (seq 0 (bC c)),
     map (fun k => bin_rec (thresholds c) (col k xs)) (seq 0 (bC c)), thr_q c).
Proof.
  intros Hs. unfold m_gamma_prc. cbv zeta. unfold qcols. rewrite !map2_map_same.
  f_equal. f_equal.
  all: apply map_ext_in; intros k Hk; apply in_seq in Hk; destruct Hk as [_ Hk]; cbn in Hk;
    destruct (state_columns c xs k Hs Hk) as (E1 & E2 & E3); rewrite ?E1, ?E2, ?E3; reflexivity.
Qed.
End Slices.

Theorem mc_auprc_slices c xs : asc (thresholds c) -> mc_ok (bC c) xs = true ->
  m_gamma_auprc c (mc_beta c xs)
  = let a := map (fun k => bin_auprc (thresholds c) (ovr k xs)) (seq 0 (bC c)) in if bmacro c then AMacro (xmean a) else AEach a.
Proof. intros Hs Hok. unfold mc_beta. rewrite (mc_counts_spec c xs Hs Hok). exact (auprc_slices mc_scs mc_hit c xs Hs). Qed.
Theorem ml_auprc_slices c xs : asc (thresholds c) -> ml_ok (bC c) xs = true ->
  m_gamma_auprc c (ml_beta c xs)
  = let a := map (fun k => bin_auprc (thresholds c) (label_col k xs)) (seq 0 (bC c)) in if bmacro c then AMacro (xmean a) else AEach a.
Proof. intros Hs Hok. unfold ml_beta. rewrite (ml_counts_spec c xs Hs Hok). exact (auprc_slices ml_scs ml_hit c xs Hs). Qed.
Theorem mc_prc_slices c xs : asc (thresholds c) -> mc_ok (bC c) xs = true ->
  m_gamma_prc c (mc_beta c xs)
  = (map (fun k => bin_prec (thresholds c) (ovr k xs)) (seq 0 (bC c)), map (fun k => bin_rec (thresholds c) (ovr k xs)) (seq 0 (bC c)), thr_q c).
Proof. intros Hs Hok. unfold mc_beta. rewrite (mc_counts_spec c xs Hs Hok). exact (prc_slices mc_scs mc_hit c xs Hs). Qed.
Theorem ml_prc_slices c xs : asc (thresholds c) -> ml_ok (bC c) xs = true ->
  m_gamma_prc c (ml_beta c xs)
  = (map (fun k => bin_prec (thresholds c) (label_col k xs)) (seq 0 (bC c)), map (fun k => bin_rec (thresholds c) (label_col k xs)) (seq 0 (bC c)), thr_q c).
Proof. intros Hs Hok. unfold ml_beta. rewrite (ml_counts_spec c xs Hs Hok). exact (prc_slices ml_scs ml_hit c xs Hs). Qed.

(* sample order: the functional form depends on the multiset of samples only *)
Theorem bprc_fn_perm c xs ys : asc (thresholds c) -> Permutation xs ys -> fn_of bprc_spec c xs = fn_of bprc_spec c ys.
Proof. intros Hs Hp. apply add_sample_order. apply (bprc_beta_perm c xs ys Hs Hp). Qed.
Theorem mcprc_fn_perm c xs ys : mc_okb c xs -> Permutation xs ys -> fn_of mcprc_spec c xs = fn_of mcprc_spec c ys.
Proof. intros H Hp. apply add_sample_order. apply (mc_beta_perm c xs ys H Hp). Qed.
Theorem mcauprc_fn_perm c xs ys : mc_okb c xs -> Permutation xs ys -> fn_of mcauprc_spec c xs = fn_of mcauprc_spec c ys.
Proof. intros H Hp. apply add_sample_order. apply (mc_beta_perm c xs ys H Hp). Qed.
Theorem mlprc_fn_perm c xs ys : ml_okb c xs -> Permutation xs ys -> fn_of mlprc_spec c xs = fn_of mlprc_spec c ys.
Proof. intros H Hp. apply add_sample_order. apply (ml_beta_perm c xs ys H Hp). Qed.
Theorem mlauprc_fn_perm c xs ys : ml_okb c xs -> Permutation xs ys -> fn_of mlauprc_spec c xs = fn_of mlauprc_spec c ys.
Proof. intros H Hp. apply add_sample_order. apply (ml_beta_perm c xs ys H Hp). Qed.
(* BinaryBinnedAUPRC: each task row may be permuted independently *)
Theorem bauprc_fn_perm c rows rows' : asc (thresholds c) -> Forall2 (@Permutation sample) rows rows' ->
  fn_of bauprc_spec c rows = fn_of bauprc_spec c rows'.
Proof.
  intros Hs H. apply add_sample_order. cbn [abeta bauprc_spec]. unfold bauprc_beta. cbv zeta.
  assert (E : map (bin_fn (thresholds c)) rows = map (bin_fn (thresholds c)) rows' /\
              map (bin_fp (thresholds c)) rows = map (bin_fp (thresholds c)) rows' /\
              map (bin_tp (thresholds c)) rows = map (bin_tp (thresholds c)) rows').
  { induction H as [|r r' rows rows' Hp _ (IH1 & IH2 & IH3)]; [auto|]. cbn [map]. rewrite IH1, IH2, IH3.
    destruct (bin_vectors_spec (thresholds c) r Hs) as (-> & -> & ->). destruct (bin_vectors_spec (thresholds c) r' Hs) as (-> & -> & ->).
    rewrite (map_ext (fun t => fn_spec t r) (fun t => fn_spec t r')) by (intros t; apply (spec_perm t r r' Hp)).
    rewrite (map_ext (fun t => fp_spec t r) (fun t => fp_spec t r')) by (intros t; apply (spec_perm t r r' Hp)).
    rewrite (map_ext (fun t => tp_spec t r) (fun t => tp_spec t r')) by (intros t; apply (spec_perm t r r' Hp)). auto. }
  destruct E as (-> & -> & ->). reflexivity.
Qed.
