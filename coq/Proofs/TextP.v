(* Proofs for Models/Text.v (C08 text half, C01/C03 corollaries). *)
From Coq Require Import ZArith List Bool QArith Qcanon Arith Lia Permutation.
From TE Require Import Base.Val Base.Nd Base.Xq Algebra.Metric Algebra.MergeTree Algebra.Pool Algebra.Additive
  Models.Text.
Import ListNotations.
Open Scope nat_scope.

(* ========================================================================================== *)
(* 1. Edit distance: row DP = the code's recurrence = the textbook Levenshtein recurrence        *)
(* ========================================================================================== *)
Section ED.
Variable tok : Type.
Variable teq : tok -> tok -> bool.
Notation lev := (lev tok teq).
Notation lev_std := (lev_std tok teq).
Notation fill := (fill tok teq).
Notation next_row := (next_row tok teq).
Notation row0 := (row0 tok).
Notation edit_distance_gen := (edit_distance_gen tok teq).

Lemma lev_nil_r ra : lev ra [] = List.length ra.
Proof. destruct ra; reflexivity. Qed.
Lemma lev_cons x ra y rb : lev (x :: ra) (y :: rb) =
  if teq x y then lev ra rb else S (Nat.min (lev ra (y :: rb)) (Nat.min (lev (x :: ra) rb) (lev ra rb))).
Proof. reflexivity. Qed.

(* prefixes of b as reversed lists, shortest first: revprefs [] b = [[]; [b0]; [b1;b0]; ...] *)
Fixpoint revprefs (acc : list tok) (b : list tok) : list (list tok) :=
  acc :: match b with [] => [] | y :: b' => revprefs (y :: acc) b' end.
Definition spec_row (ra : list tok) (b : list tok) : list nat := map (lev ra) (revprefs [] b).
Definition tailprefs (acc : list tok) (b : list tok) : list (list tok) :=
  match b with [] => [] | y :: b' => revprefs (y :: acc) b' end.
Lemma revprefs_unfold acc b : revprefs acc b = acc :: tailprefs acc b.
Proof. destruct b; reflexivity. Qed.

Lemma fill_spec x ra : forall b acc,
  fill x (lev (x :: ra) acc) (lev ra acc) (map (lev ra) (tailprefs acc b)) b
  = map (lev (x :: ra)) (tailprefs acc b).
Proof.
  induction b as [|y b IH]; intros acc; [reflexivity|].
  unfold tailprefs. rewrite (revprefs_unfold (y :: acc) b). cbn [map Text.fill].
  rewrite <- lev_cons. f_equal. apply IH.
Qed.

Lemma next_row_spec x ra b : next_row x (spec_row ra b) b = spec_row (x :: ra) b.
Proof.
  unfold spec_row, Text.next_row. rewrite (revprefs_unfold [] b). cbn [map].
  rewrite (lev_nil_r ra).
  replace (S (List.length ra)) with (lev (x :: ra) []) by reflexivity.
  f_equal. rewrite <- (lev_nil_r ra). exact (fill_spec x ra b []).
Qed.

Lemma row0_spec b : row0 b = spec_row [] b.
Proof.
  unfold Text.row0, spec_row. cbn [Text.lev].
  assert (H : forall b acc, seq (List.length acc) (S (List.length b)) = map (@List.length tok) (revprefs acc b)).
  { induction b0 as [|y b0 IH]; intros acc; [reflexivity|]. cbn [revprefs map List.length seq]. f_equal. apply (IH (y :: acc)). }
  exact (H b []).
Qed.

Lemma rows_spec : forall a ra b, fold_left (fun row x => next_row x row b) a (spec_row ra b) = spec_row (rev a ++ ra) b.
Proof.
  induction a as [|x a IH]; intros ra b; [reflexivity|].
  cbn [fold_left rev]. rewrite next_row_spec, IH, <- app_assoc. reflexivity.
Qed.

Lemma last_revprefs (f : list tok -> nat) : forall b acc, last (map f (revprefs acc b)) 0 = f (rev b ++ acc).
Proof.
  induction b as [|y b IH]; intros acc; [reflexivity|].
  cbn [revprefs map rev]. rewrite <- app_assoc. cbn [app].
  rewrite <- IH. destruct b; reflexivity.
Qed.

(* the row-by-row DP computes the code's recurrence on the full prefixes *)
Theorem edit_distance_recurrence_gen a b : edit_distance_gen a b = lev (rev a) (rev b).
Proof.
  unfold Text.edit_distance_gen. rewrite row0_spec, rows_spec, app_nil_r. unfold spec_row.
  rewrite last_revprefs, app_nil_r. reflexivity.
Qed.

Lemma lev_std_cons x ra y rb : lev_std (x :: ra) (y :: rb) =
  Nat.min (S (lev_std ra (y :: rb))) (Nat.min (S (lev_std (x :: ra) rb)) (lev_std ra rb + if teq x y then 0 else 1)).
Proof. reflexivity. Qed.
Lemma lev_std_nil_r ra : lev_std ra [] = List.length ra.
Proof. destruct ra; reflexivity. Qed.

(* the distance changes by at most one when a token is appended to either side *)
Lemma lipschitz : forall n ra rb, List.length ra + List.length rb <= n -> forall x y,
  lev ra (y :: rb) <= S (lev ra rb) /\ lev (x :: ra) rb <= S (lev ra rb) /\
  lev ra rb <= S (lev ra (y :: rb)) /\ lev ra rb <= S (lev (x :: ra) rb).
Proof.
  induction n as [|n IH]; intros ra rb Hn x y.
  - destruct ra, rb; cbn in Hn; try lia. cbn. destruct (teq x y); lia.
  - destruct ra as [|x' ra'].
    + assert (Hnil : forall l, lev [] l = List.length l) by reflexivity.
      destruct rb as [|y' rb'].
      * cbn. lia.
      * destruct (IH [] rb' ltac:(cbn in *; lia) x y) as (_ & H2 & _ & H4).
        rewrite (lev_cons x [] y' rb'), !Hnil in *. cbn [List.length] in *.
        destruct (teq x y'); lia.
    + destruct rb as [|y' rb'].
      * rewrite !lev_nil_r, !lev_cons. cbn [List.length]. rewrite !lev_nil_r.
        destruct (IH ra' [] ltac:(cbn in *; lia) x y) as (H1 & _ & H3 & _). rewrite lev_nil_r in H1, H3.
        cbn [List.length]. destruct (teq x' y); lia.
      * cbn [List.length] in Hn.
        destruct (IH ra' (y' :: rb') ltac:(cbn; lia) x' y) as (A1 & A2 & A3 & A4).
        destruct (IH (x' :: ra') rb' ltac:(cbn; lia) x y') as (B1 & B2 & B3 & B4).
        destruct (IH ra' rb' ltac:(lia) x' y') as (C1 & C2 & C3 & C4).
        destruct (IH ra' rb' ltac:(lia) x' y) as (D1 & _ & D3 & _).
        destruct (IH ra' rb' ltac:(lia) x y') as (_ & E2 & _ & E4).
        repeat split.
        -- rewrite (lev_cons x' ra' y (y' :: rb')). destruct (teq x' y); lia.
        -- rewrite (lev_cons x (x' :: ra') y' rb'). destruct (teq x y'); lia.
        -- rewrite (lev_cons x' ra' y (y' :: rb')). destruct (teq x' y); lia.
        -- rewrite (lev_cons x (x' :: ra') y' rb'). destruct (teq x y'); lia.
Qed.

(* taking the diagonal without comparison when the tokens match loses nothing *)
Theorem lev_is_textbook_gen : forall ra rb, lev ra rb = lev_std ra rb.
Proof.
  induction ra as [|x ra IHa]; intros rb; [reflexivity|].
  induction rb as [|y rb IHb]; [rewrite lev_nil_r, lev_std_nil_r; reflexivity|].
  rewrite lev_cons, lev_std_cons, <- !IHa, <- IHb.
  destruct (lipschitz _ ra rb (le_n _) x y) as (L1 & L2 & L3 & L4).
  destruct (teq x y); lia.
Qed.
End ED.

(* on integer tokens *)
Theorem edit_distance_levenshtein a b : edit_distance a b = levenshtein a b.
Proof. unfold edit_distance, levenshtein. rewrite edit_distance_recurrence_gen. apply lev_is_textbook_gen. Qed.

(* the recurrence read on sentences: D(a ++ [x], b ++ [y]) etc. *)
Lemma levenshtein_nil_l b : levenshtein [] b = List.length b.
Proof. unfold levenshtein. cbn [rev Text.lev_std]. apply rev_length. Qed.
Lemma levenshtein_nil_r a : levenshtein a [] = List.length a.
Proof. unfold levenshtein. cbn [rev]. rewrite lev_std_nil_r. apply rev_length. Qed.
Lemma levenshtein_snoc a x b y :
  levenshtein (a ++ [x]) (b ++ [y]) =
  Nat.min (levenshtein a (b ++ [y]) + 1)
          (Nat.min (levenshtein (a ++ [x]) b + 1) (levenshtein a b + if Z.eqb x y then 0 else 1)).
Proof.
  unfold levenshtein. rewrite !rev_app_distr. cbn [rev app]. rewrite lev_std_cons. lia.
Qed.

(* ========================================================================================== *)
(* 2. WER / WIP / WIL                                                                          *)
(* ========================================================================================== *)
Lemma nsum_ext {X} (f g : X -> nat) l : (forall x, f x = g x) -> nsum f l = nsum g l.
Proof. intros H. induction l as [|x l IH]; cbn [nsum fold_right]; [reflexivity|]. unfold nsum in IH. rewrite IH, H. reflexivity. Qed.
Lemma nsum_app {X} (f : X -> nat) l1 l2 : nsum f (l1 ++ l2) = nsum f l1 + nsum f l2.
Proof. unfold nsum. induction l1 as [|x l1 IH]; cbn [app fold_right]; [reflexivity|]. rewrite IH. lia. Qed.

Lemma errors_algo_spec b : errors_of edit_distance b = errors_of levenshtein b.
Proof. unfold errors_of. apply nsum_ext. intros p. apply edit_distance_levenshtein. Qed.

Lemma qn_add a b : qn (a + b) = (qn a + qn b)%Qc.
Proof.
  unfold qn, mkq. apply Qc_is_canon. unfold Qcplus, Q2Qc. cbn [this].
  rewrite !Qred_correct. unfold Qeq, Qplus. cbn. rewrite Nat2Z.inj_add. ring.
Qed.
Lemma qn_0 : qn 0 = 0%Qc.
Proof. reflexivity. Qed.

(* functional forms: value on one corpus = the definition with the reference distance *)
Lemma wer_fn_spec b : wer_gamma tt (wer_beta tt b) = wer_def levenshtein b.
Proof. unfold wer_gamma, wer_beta, wer_def. rewrite nlist_nvec, errors_algo_spec. reflexivity. Qed.
Lemma wip_fn_spec b : wip_gamma tt (wip_beta tt b) = wip_def levenshtein b.
Proof. unfold wip_gamma, wip_beta, wip_def. rewrite nlist_nvec, errors_algo_spec. reflexivity. Qed.
Lemma wil_fn_spec b : wil_gamma tt (wil_beta tt b) = wil_def levenshtein b.
Proof. unfold wil_gamma, wil_beta, wil_def. rewrite nlist_nvec, errors_algo_spec. reflexivity. Qed.

(* beta is additive over concatenation of corpora *)
Lemma nvec2_add a b c d : nadd (nvec [a; b]) (nvec [c; d]) = nvec [(a + c)%Qc; (b + d)%Qc].
Proof. reflexivity. Qed.
Lemma nvec3_add a b c d e f : nadd (nvec [a; b; c]) (nvec [d; e; f]) = nvec [(a + d)%Qc; (b + e)%Qc; (c + f)%Qc].
Proof. reflexivity. Qed.

Lemma wer_beta_app b1 b2 : wer_beta tt (b1 ++ b2) = nadd (wer_beta tt b1) (wer_beta tt b2).
Proof.
  unfold wer_beta, errors_of, tlen_of. rewrite nvec2_add, !nsum_app, !qn_add. reflexivity.
Qed.
Lemma wip_beta_app b1 b2 : wip_beta tt (b1 ++ b2) = nadd (wip_beta tt b1) (wip_beta tt b2).
Proof.
  unfold wip_beta, errors_of, tlen_of, ilen_of, maxlen_of. rewrite nvec3_add, !nsum_app, !qn_add.
  f_equal. f_equal. ring.
Qed.
Lemma wil_beta_app b1 b2 : wil_beta tt (b1 ++ b2) = nadd (wil_beta tt b1) (wil_beta tt b2).
Proof.
  unfold wil_beta, errors_of, tlen_of, ilen_of, maxlen_of. rewrite nvec3_add, !nsum_app, !qn_add.
  f_equal. f_equal. ring.
Qed.

(* Generic: an additive metric whose beta is additive over a concatenation of batches computes,
   on ANY merge tree, gamma (beta (concatenation of everything seen)). *)
Section ClassForms.
(* one statement for the three pair metrics, by the generic re-batching corollary *)
Variable S : AddSpec.
Variable c : acfg S.
Variable bcat : abatch S -> abatch S -> abatch S.
Variable bnil : abatch S.
Hypothesis all_valid : forall b, avalid S c b = true.
Hypothesis beta_cat : forall b1 b2, abeta S c (bcat b1 b2) = nadd (abeta S c b1) (abeta S c b2).
Hypothesis beta_nil : abeta S c bnil = azero S c.

Lemma class_eq_definition : forall t : mtree (add_metric S),
  agamma S c (run (add_metric S) c t) = agamma S c (abeta S c (bconcat (add_metric S) bcat bnil (stream _ t))).
Proof.
  intros t.
  assert (Hv : forall l, Forall (fun b => valid (add_metric S) c b = true) l).
  { intros l. apply Forall_forall. intros b _. apply all_valid. }
  pose proof (merge_tree_eq_one_batch (add_metric S) (add_alg S) c bcat bnil
                (fun b1 b2 _ _ => beta_cat b1 b2) (fun b1 b2 _ _ => all_valid _) beta_nil (all_valid _) t (Hv _)) as H.
  cbn [cmp add_metric plain] in H. rewrite H. cbn [run fold_left upd init add_metric plain].
  rewrite nadd_zero_l; [reflexivity|apply azero_zero|apply abeta_shape, all_valid].
Qed.
End ClassForms.

Theorem wer_class_spec : forall t : mtree wer_metric,
  wer_gamma tt (run wer_metric tt t) = wer_def levenshtein (concat (stream _ t)).
Proof.
  intros t.
  change (agamma wer_spec_add tt (run (add_metric wer_spec_add) tt t) = wer_def levenshtein (concat (stream (add_metric wer_spec_add) t))).
  rewrite (class_eq_definition wer_spec_add tt (@app _) [] (fun _ => eq_refl) wer_beta_app eq_refl t).
  change (abeta wer_spec_add tt) with (wer_beta tt). change (agamma wer_spec_add tt) with (wer_gamma tt).
  rewrite wer_fn_spec. reflexivity.
Qed.
Theorem wip_class_spec : forall t : mtree wip_metric,
  wip_gamma tt (run wip_metric tt t) = wip_def levenshtein (concat (stream _ t)).
Proof.
  intros t.
  change (agamma wip_spec_add tt (run (add_metric wip_spec_add) tt t) = wip_def levenshtein (concat (stream (add_metric wip_spec_add) t))).
  rewrite (class_eq_definition wip_spec_add tt (@app _) [] (fun _ => eq_refl) wip_beta_app eq_refl t).
  change (abeta wip_spec_add tt) with (wip_beta tt). change (agamma wip_spec_add tt) with (wip_gamma tt).
  rewrite wip_fn_spec. reflexivity.
Qed.
Theorem wil_class_spec : forall t : mtree wil_metric,
  wil_gamma tt (run wil_metric tt t) = wil_def levenshtein (concat (stream _ t)).
Proof.
  intros t.
  change (agamma wil_spec_add tt (run (add_metric wil_spec_add) tt t) = wil_def levenshtein (concat (stream (add_metric wil_spec_add) t))).
  rewrite (class_eq_definition wil_spec_add tt (@app _) [] (fun _ => eq_refl) wil_beta_app eq_refl t).
  change (abeta wil_spec_add tt) with (wil_beta tt). change (agamma wil_spec_add tt) with (wil_gamma tt).
  rewrite wil_fn_spec. reflexivity.
Qed.

(* ========================================================================================== *)
(* 3. BLEU: the Counter-based overlap equals clipped n-gram counting                            *)
(* ========================================================================================== *)
Notation gd := gram_dec.
Definition keys (c : counter) : list gram := map fst c.

Lemma cget_cincr c g g' : cget (cincr c g) g' = if gd g g' then S (cget c g') else cget c g'.
Proof.
  induction c as [|[k v] r IH]; cbn [cincr cget].
  - destruct (gd g g'); reflexivity.
  - destruct (gd k g) as [->|Hkg]; cbn [cget].
    + destruct (gd g g'); reflexivity.
    + rewrite IH. destruct (gd k g') as [->|Hkg']; [|reflexivity].
      destruct (gd g g') as [->|]; [congruence|reflexivity].
Qed.
Lemma cget_fold_cincr l : forall c g, cget (fold_left cincr l c) g = cget c g + count_occ gd l g.
Proof.
  induction l as [|x l IH]; intros c g; cbn [fold_left count_occ]; [lia|].
  rewrite IH, cget_cincr. destruct (gd x g); lia.
Qed.

Lemma windows_cons n x s :
  windows n (x :: s) = if n <=? List.length (x :: s) then firstn n (x :: s) :: windows n s else [].
Proof. reflexivity. Qed.
Lemma windows_length n : forall s g, In g (windows n s) -> List.length g = n.
Proof.
  induction s as [|x s IH]; intros g Hg; [destruct Hg|]. rewrite windows_cons in Hg.
  destruct (n <=? List.length (x :: s)) eqn:E; [|destruct Hg].
  destruct Hg as [<-|Hg]; [|apply IH; exact Hg]. apply firstn_length_le. apply Nat.leb_le; exact E.
Qed.
Lemma count_windows_len n s g : List.length g <> n -> count_occ gd (windows n s) g = 0.
Proof. intros H. apply count_occ_not_In. intros Hi. apply H. eapply windows_length; eassumption. Qed.

Lemma cget_ngram_fold s g : forall L c0,
  cget (fold_left (fun c nv => fold_left cincr (windows nv s) c) L c0) g
  = cget c0 g + list_sum (map (fun nv => count_occ gd (windows nv s) g) L).
Proof.
  induction L as [|nv L IH]; intros c0; cbn [fold_left map list_sum fold_right]; [lia|].
  rewrite IH, cget_fold_cincr. unfold list_sum. lia.
Qed.
Lemma sum_seq_single (f : nat -> nat) k : (forall nv, nv <> k -> f nv = 0) ->
  forall n, list_sum (map f (seq 1 n)) = if (1 <=? k) && (k <=? n) then f k else 0.
Proof.
  intros Hf. induction n as [|n IH].
  - cbn [seq map list_sum fold_right].
    destruct (Nat.leb_spec 1 k), (Nat.leb_spec k 0); cbn [andb]; try reflexivity; lia.
  - rewrite seq_S, map_app, list_sum_app, IH. cbn [map list_sum fold_right plus].
    pose proof (Hf (S n)) as H1.
    destruct (Nat.leb_spec 1 k), (Nat.leb_spec k n), (Nat.leb_spec k (S n)); cbn [andb]; try lia.
    + assert (k = S n) by lia. subst. lia.
Qed.
Lemma cget_get_ngrams n s g : cget (get_ngrams n s) g =
  if (1 <=? List.length g) && (List.length g <=? n) then count_occ gd (windows (List.length g) s) g else 0.
Proof.
  unfold get_ngrams. rewrite cget_ngram_fold. cbn [cget plus].
  rewrite (sum_seq_single _ (List.length g)); [reflexivity|].
  intros nv Hnv. apply count_windows_len. congruence.
Qed.

(* keys stay distinct *)
Lemma keys_cincr_in c g k : In k (keys (cincr c g)) <-> k = g \/ In k (keys c).
Proof.
  unfold keys. induction c as [|[k0 v] r IH]; cbn [cincr map fst In].
  - intuition congruence.
  - destruct (gd k0 g) as [->|Hne]; cbn [map fst In]; [intuition congruence|]. rewrite IH. intuition congruence.
Qed.
Lemma keys_cincr_nodup c g : NoDup (keys c) -> NoDup (keys (cincr c g)).
Proof.
  unfold keys. induction c as [|[k0 v] r IH]; intros Hnd; cbn [cincr map fst].
  - constructor; [intros []|constructor].
  - cbn [map fst] in Hnd. inversion Hnd as [|? ? Hnot Hr]; subst.
    destruct (gd k0 g) as [->|Hne]; cbn [map fst]; [constructor; assumption|].
    constructor; [|apply IH; exact Hr].
    intros Hin. apply (keys_cincr_in r g k0) in Hin. destruct Hin as [->|Hin]; [congruence|exact (Hnot Hin)].
Qed.
Lemma keys_fold_cincr_nodup l : forall c, NoDup (keys c) -> NoDup (keys (fold_left cincr l c)).
Proof. induction l as [|x l IH]; intros c H; cbn [fold_left]; [exact H|]. apply IH, keys_cincr_nodup, H. Qed.
Lemma keys_get_ngrams_nodup n s : NoDup (keys (get_ngrams n s)).
Proof.
  unfold get_ngrams.
  assert (H : forall L c, NoDup (keys c) -> NoDup (keys (fold_left (fun c nv => fold_left cincr (windows nv s) c) L c))).
  { induction L as [|nv L IH]; intros c Hc; cbn [fold_left]; [exact Hc|]. apply IH, keys_fold_cincr_nodup, Hc. }
  apply H. constructor.
Qed.
Lemma cget_notin c g : ~ In g (keys c) -> cget c g = 0.
Proof.
  unfold keys. induction c as [|[k v] r IH]; intros H; cbn [cget]; [reflexivity|].
  cbn [map fst In] in H. destruct (gd k g) as [->|Hne]; [exfalso; apply H; left; reflexivity|].
  apply IH. intros Hin. apply H. right. exact Hin.
Qed.
Lemma cget_pos_in c g : cget c g <> 0 -> In g (keys c).
Proof.
  intros H. destruct (in_dec gd g (keys c)) as [Hi|Hn]; [exact Hi|]. exfalso. apply H, cget_notin, Hn.
Qed.
Lemma cget_entry c k v : NoDup (keys c) -> In (k, v) c -> cget c k = v.
Proof.
  unfold keys. induction c as [|[k0 v0] r IH]; intros Hnd Hin; [destruct Hin|].
  cbn [map fst] in Hnd. inversion Hnd as [|? ? Hnot Hr]; subst. cbn [cget].
  destruct Hin as [Heq|Hin].
  - inversion Heq; subst. destruct (gd k k); [reflexivity|congruence].
  - destruct (gd k0 k) as [->|Hne]; [|apply IH; assumption].
    exfalso. apply Hnot. change k with (fst (k, v)). apply in_map. exact Hin.
Qed.

(* Counter |= and & *)
Lemma cget_cset c k n g : cget (cset c k n) g = if gd k g then n else cget c g.
Proof.
  induction c as [|[k0 v] r IH]; cbn [cset cget].
  - reflexivity.
  - destruct (gd k0 k) as [->|Hne]; cbn [cget].
    + destruct (gd k g); reflexivity.
    + rewrite IH. destruct (gd k0 g) as [->|]; [|reflexivity]. destruct (gd k g) as [->|]; [congruence|reflexivity].
Qed.
Lemma cget_cor o : forall c g, NoDup (keys o) -> cget (cor c o) g = Nat.max (cget c g) (cget o g).
Proof.
  unfold cor, keys. induction o as [|[k v] o IH]; intros c g Hnd; cbn [fold_left cget fst snd].
  - rewrite Nat.max_0_r. reflexivity.
  - cbn [map fst] in Hnd. inversion Hnd as [|? ? Hnot Hr]; subst. rewrite IH by exact Hr.
    destruct (gd k g) as [->|Hkg].
    + rewrite (cget_notin o g Hnot).
      destruct (cget c g <? v) eqn:E.
      * rewrite cget_cset. destruct (gd g g); [|congruence]. apply Nat.ltb_lt in E. lia.
      * apply Nat.ltb_ge in E. lia.
    + destruct (cget c k <? v); [rewrite cget_cset; destruct (gd k g); [congruence|]|]; reflexivity.
Qed.
Lemma cget_ref_fold n g : forall refs c0,
  cget (fold_left (fun c r => cor c (get_ngrams n r)) refs c0) g
  = Nat.max (cget c0 g) (list_max (map (fun r => cget (get_ngrams n r) g) refs)).
Proof.
  induction refs as [|r refs IH]; intros c0; cbn [fold_left map list_max fold_right].
  - rewrite Nat.max_0_r. reflexivity.
  - rewrite IH, cget_cor by apply keys_get_ngrams_nodup. change (fold_right Nat.max 0) with list_max. lia.
Qed.

(* scatter-add of the overlap by order *)
Lemma nth_add_at : forall l i v j, j < List.length l ->
  nth j (add_at i v l) 0 = if i =? j then nth j l 0 + v else nth j l 0.
Proof.
  induction l as [|x r IH]; intros i v j Hj; cbn [List.length] in Hj; [lia|].
  destruct i as [|i], j as [|j]; cbn [add_at nth Nat.eqb]; try reflexivity.
  apply IH. lia.
Qed.
Lemma nth_scatter j : forall (o : counter) ms, j < List.length ms ->
  nth j (fold_left (fun ms kv => add_at (List.length (fst kv) - 1) (snd kv) ms) o ms) 0
  = nth j ms 0 + list_sum (map snd (filter (fun kv => List.length (fst kv) - 1 =? j) o)).
Proof.
  induction o as [|kv o IH]; intros ms Hj; cbn [fold_left filter map list_sum fold_right]; [lia|].
  rewrite IH by (rewrite add_at_length; exact Hj). rewrite nth_add_at by exact Hj.
  destruct (_ - 1 =? j); cbn [map list_sum fold_right]; unfold list_sum; lia.
Qed.

Lemma sum_cand_ (P : gram -> bool) o : forall c,
  list_sum (map snd (filter (fun kv => P (fst kv)) (cand_ c o)))
  = list_sum (map (fun kv => Nat.min (snd kv) (cget o (fst kv))) (filter (fun kv => P (fst kv)) c)).
Proof.
  induction c as [|[k v] r IH]; cbn [cand_ filter map list_sum fold_right fst snd]; [reflexivity|].
  assert (Hm : (if v <? cget o k then v else cget o k) = Nat.min v (cget o k)).
  { destruct (Nat.ltb_spec v (cget o k)); lia. }
  rewrite Hm. destruct (Nat.ltb_spec 0 (Nat.min v (cget o k))) as [Hpos|Hz].
  - cbn [filter fst]. destruct (P k); cbn [map list_sum fold_right snd fst]; unfold list_sum in *; rewrite IH; reflexivity.
  - destruct (P k); cbn [map list_sum fold_right snd fst]; unfold list_sum in *; rewrite IH; lia.
Qed.

Lemma map_filter_fst {V} (F : gram -> nat) (P : gram -> bool) : forall c : list (gram * V),
  map (fun kv => F (fst kv)) (filter (fun kv => P (fst kv)) c) = map F (filter P (map fst c)).
Proof.
  induction c as [|[k v] r IH]; cbn [map filter fst]; [reflexivity|].
  destruct (P k); cbn [map fst]; rewrite IH; reflexivity.
Qed.

Lemma list_sum_perm l l' : Permutation l l' -> list_sum l = list_sum l'.
Proof. unfold list_sum. induction 1; cbn [fold_right]; lia. Qed.
Lemma sum_filter_nz {X} (F : X -> nat) : forall A,
  list_sum (map F A) = list_sum (map F (filter (fun g => negb (F g =? 0)) A)).
Proof.
  unfold list_sum. induction A as [|a A IH]; cbn [map filter fold_right]; [reflexivity|].
  destruct (Nat.eqb_spec (F a) 0) as [E|E]; cbn [negb map fold_right]; lia.
Qed.
(* a sum over a duplicate-free enumeration depends only on the support of the summand *)
Lemma sum_nodup_support {X} (F : X -> nat) A B : NoDup A -> NoDup B ->
  (forall g, F g <> 0 -> In g A /\ In g B) -> list_sum (map F A) = list_sum (map F B).
Proof.
  intros HA HB Hs. rewrite (sum_filter_nz F A), (sum_filter_nz F B).
  apply list_sum_perm, Permutation_map. apply NoDup_Permutation; try (apply NoDup_filter; assumption).
  intros g. rewrite !filter_In. split; intros [_ Hnz]; (split; [|exact Hnz]);
    apply negb_true_iff, Nat.eqb_neq in Hnz; apply (Hs g Hnz).
Qed.

Lemma clipped_eq i cand refs G : clipped i cand refs G =
  list_sum (map (fun g => Nat.min (count_occ gd (windows i cand) g)
                                  (list_max (map (fun r => count_occ gd (windows i r) g) refs))) G).
Proof. reflexivity. Qed.

(* the statistic at order i is the clipped count over ANY duplicate-free enumeration G of n-grams
   that covers the candidate's i-grams *)
Lemma sent_matches_nth n cand refs i G : 1 <= i <= n -> NoDup G -> incl (windows i cand) G ->
  nth (i - 1) (sent_matches n cand refs) 0 = clipped i cand refs G.
Proof.
  intros Hi HG Hincl. unfold sent_matches.
  rewrite nth_scatter by (rewrite repeat_length; lia).
  rewrite nth_repeat. cbn [plus].
  rewrite (sum_cand_ (fun k => List.length k - 1 =? i - 1)).
  set (c := get_ngrams n cand). set (o := ref_counter n refs).
  set (Fk := fun k => Nat.min (cget c k) (cget o k)).
  set (P := fun k : gram => List.length k - 1 =? i - 1).
  set (Fi := fun g => Nat.min (count_occ gd (windows i cand) g)
                              (list_max (map (fun r => count_occ gd (windows i r) g) refs))).
  assert (Hc : forall g, List.length g = i -> cget c g = count_occ gd (windows i cand) g).
  { intros g Hg. unfold c. rewrite cget_get_ngrams, Hg.
    destruct (Nat.leb_spec 1 i), (Nat.leb_spec i n); cbn [andb]; first [lia|reflexivity]. }
  assert (Ho : forall g, List.length g = i -> cget o g = list_max (map (fun r => count_occ gd (windows i r) g) refs)).
  { intros g Hg. unfold o, ref_counter. rewrite cget_ref_fold. cbn [cget]. rewrite Nat.max_0_l. f_equal.
    apply map_ext. intros r. rewrite cget_get_ngrams, Hg.
    destruct (Nat.leb_spec 1 i), (Nat.leb_spec i n); cbn [andb]; first [lia|reflexivity]. }
  (* entries -> keys *)
  change (list_sum (map (fun kv => Nat.min (snd kv) (cget o (fst kv))) (filter (fun kv => P (fst kv)) c)) = clipped i cand refs G).
  rewrite (map_ext_in _ (fun kv => Fk (fst kv))).
  2:{ intros [k v] Hin. apply filter_In in Hin as [Hin _]. cbn [fst snd]. unfold Fk.
      rewrite (cget_entry c k v); [reflexivity|apply keys_get_ngrams_nodup|exact Hin]. }
  rewrite (map_filter_fst Fk P c). fold (keys c).
  (* on the selected keys the Counter values are the window counts *)
  rewrite (map_ext_in Fk Fi).
  2:{ intros k Hin. apply filter_In in Hin as [_ HP]. unfold P in HP. apply Nat.eqb_eq in HP.
      destruct (Nat.eq_dec (List.length k) i) as [Hk|Hk].
      - unfold Fk, Fi. rewrite (Hc k Hk), (Ho k Hk). reflexivity.
      - (* only the empty tuple at order 1: never a key, never a window *)
        assert (Hk0 : List.length k = 0) by lia.
        unfold Fk, Fi. unfold c. rewrite cget_get_ngrams, Hk0. cbn [Nat.leb andb].
        rewrite (count_windows_len i cand k Hk). reflexivity. }
  rewrite clipped_eq. fold Fi.
  apply sum_nodup_support; [apply NoDup_filter, keys_get_ngrams_nodup|exact HG|].
  intros g Hnz. assert (Hcnt : count_occ gd (windows i cand) g <> 0) by (unfold Fi in Hnz; lia).
  assert (Hin : In g (windows i cand)) by (apply (count_occ_In gd); lia).
  pose proof (windows_length i cand g Hin) as Hlen.
  split; [|apply Hincl, Hin].
  apply filter_In. split.
  - apply cget_pos_in. rewrite (Hc g Hlen). exact Hcnt.
  - unfold P. rewrite Hlen. apply Nat.eqb_refl.
Qed.

Theorem sent_matches_eq_spec n cand refs : sent_matches n cand refs = sent_matches_spec n cand refs.
Proof.
  apply (nth_ext _ _ 0 0); [rewrite sent_matches_length, sent_matches_spec_length; reflexivity|].
  intros j Hj. rewrite sent_matches_length in Hj. unfold sent_matches_spec.
  set (f := fun i => clipped i cand refs (nodup gd (windows i cand))).
  fold f. rewrite (nth_indep (map f (seq 1 n)) 0 (f 0)) by (rewrite map_length, seq_length; exact Hj).
  rewrite map_nth, seq_nth by exact Hj. unfold f.
  replace j with ((1 + j) - 1) at 1 by lia.
  apply sent_matches_nth; [lia|apply NoDup_nodup|]. intros g Hg. apply nodup_In. exact Hg.
Qed.

Lemma sent_possible_nth n cand i : i < n -> nth i (sent_possible n cand) 0 = List.length cand - i.
Proof.
  intros Hi. unfold sent_possible.
  rewrite (nth_indep (map (fun i => List.length cand - i) (seq 0 n)) 0 (List.length cand - 0)) by (rewrite map_length, seq_length; exact Hi).
  rewrite (map_nth (fun i => List.length cand - i)), seq_nth by exact Hi. reflexivity.
Qed.

(* closest reference length; the shorter one on ties *)
Definition key_ok (lc m x : nat) : Prop :=
  absdiff m lc < absdiff x lc \/ (absdiff m lc = absdiff x lc /\ m <= x).
Lemma closest_fold lc : forall rs best,
  let m := fold_left (fun best x => if key_lt lc x best then x else best) rs best in
  (m = best \/ In m rs) /\ key_ok lc m best /\ forall x, In x rs -> key_ok lc m x.
Proof.
  induction rs as [|x rs IH]; intros best; cbn [fold_left].
  - cbv zeta. split; [left; reflexivity|]. split; [right; split; [reflexivity|lia]|intros x []].
  - cbv zeta. destruct (IH (if key_lt lc x best then x else best)) as (H1 & H2 & H3).
    set (m := fold_left (fun best x => if key_lt lc x best then x else best) rs (if key_lt lc x best then x else best)) in *.
    destruct (key_lt lc x best) eqn:E; unfold key_lt in E.
    + apply orb_true_iff in E.
      assert (E' : absdiff x lc < absdiff best lc \/ (absdiff x lc = absdiff best lc /\ x < best)).
      { destruct E as [E|E]; [left; apply Nat.ltb_lt; exact E|right].
        apply andb_true_iff in E as [Ea Eb]. apply Nat.eqb_eq in Ea. apply Nat.ltb_lt in Eb. split; assumption. }
      split; [destruct H1 as [->|H1]; [right; left; reflexivity|right; right; exact H1]|].
      split; [unfold key_ok in *; lia|].
      intros y [<-|Hy]; [exact H2|apply H3, Hy].
    + apply orb_false_iff in E as [Ea Eb]. apply Nat.ltb_ge in Ea.
      assert (E' : absdiff best lc < absdiff x lc \/ (absdiff best lc = absdiff x lc /\ best <= x)).
      { apply andb_false_iff in Eb. destruct Eb as [Eb|Eb].
        - apply Nat.eqb_neq in Eb. left. lia.
        - apply Nat.ltb_ge in Eb. lia. }
      split; [destruct H1 as [->|H1]; [left; reflexivity|right; right; exact H1]|].
      split; [exact H2|].
      intros y [<-|Hy]; [unfold key_ok in *; lia|apply H3, Hy].
Qed.
Theorem closest_len_spec lc r rs :
  In (closest_len lc (r :: rs)) (r :: rs) /\
  forall x, In x (r :: rs) -> key_ok lc (closest_len lc (r :: rs)) x.
Proof.
  unfold closest_len. destruct (closest_fold lc rs r) as (H1 & H2 & H3). split.
  - destruct H1 as [->|H1]; [left; reflexivity|right; exact H1].
  - intros x [<-|Hx]; [exact H2|apply H3, Hx].
Qed.

(* ---- BLEU class form: any merge tree computes the definition on the concatenation ---- *)
Section TreeConcat.
Variable S : AddSpec.
Variable c : acfg S.
Variable bcat : abatch S -> abatch S -> abatch S.
Variable bnil : abatch S.
Hypothesis beta_cat : forall b1 b2, abeta S c (bcat b1 b2) = nadd (abeta S c b1) (abeta S c b2).
Hypothesis beta_nil : abeta S c bnil = azero S c.

Lemma prod_betas_concat : forall bs, Forall (fun b => avalid S c b = true) bs ->
  prod (add_metric S) (add_alg S) c (map (abeta S c) bs) = abeta S c (fold_right bcat bnil bs).
Proof.
  induction 1 as [|b bs Hb Hbs IH]; cbn [map fold_right].
  - rewrite beta_nil. reflexivity.
  - rewrite (prod_cons (add_metric S) (add_alg S) c).
    + rewrite IH, beta_cat. reflexivity.
    + apply (abeta_shape S c b Hb).
    + apply (betas_ok (add_metric S) (add_alg S) c bs Hbs).
Qed.
Lemma add_tree_eq_concat : forall t : mtree (add_metric S),
  Forall (fun b => avalid S c b = true) (stream _ t) ->
  agamma S c (run (add_metric S) c t) = agamma S c (abeta S c (fold_right bcat bnil (stream _ t))).
Proof.
  intros t Hv. pose proof (merge_tree_compute (add_metric S) (add_alg S) c t Hv) as H.
  cbn [cmp add_metric plain] in H. rewrite H.
  change (gamma (add_alg S) c) with (agamma S c). change (beta (add_alg S) c) with (abeta S c).
  rewrite prod_betas_concat by exact Hv. reflexivity.
Qed.
End TreeConcat.

Lemma vadd_assoc : forall a b c, vadd a (vadd b c) = vadd (vadd a b) c.
Proof.
  unfold vadd. induction a as [|x a IH]; intros [|y b] [|z c]; cbn [map2]; try reflexivity.
  rewrite IH. f_equal. lia.
Qed.
Lemma vadd_zero_l : forall l, vadd (repeat 0 (List.length l)) l = l.
Proof. unfold vadd. induction l as [|x l IH]; cbn [List.length repeat map2]; [reflexivity|]. rewrite IH. reflexivity. Qed.
Lemma vsum_app n r1 r2 : Forall (fun r => List.length r = n) r2 ->
  vsum n (r1 ++ r2) = vadd (vsum n r1) (vsum n r2).
Proof.
  intros H2. unfold vsum. rewrite fold_right_app. fold (vsum n r2).
  induction r1 as [|x r1 IH]; cbn [fold_right].
  - pose proof (vsum_length n r2 H2) as HL. pose proof (vadd_zero_l (vsum n r2)) as Hz.
    rewrite HL in Hz. symmetry. exact Hz.
  - rewrite IH, vadd_assoc. reflexivity.
Qed.
Lemma nvec_qn_vadd a b : nadd (nvec (map qn a)) (nvec (map qn b)) = nvec (map qn (vadd a b)).
Proof.
  unfold nvec, vadd. rewrite nadd_arr. f_equal. revert b.
  induction a as [|x a IH]; intros [|y b]; cbn [map map2]; try reflexivity.
  rewrite IH, qn_add. reflexivity.
Qed.

Lemma bleu_beta_with_app matches c b1 b2 :
  (forall n cd r, List.length (matches n cd r) = n) ->
  bleu_beta_with matches c (b1 ++ b2) = nadd (bleu_beta_with matches c b1) (bleu_beta_with matches c b2).
Proof.
  intros Hm. unfold bleu_beta_with, bleu_ilen, bleu_tlen, bleu_matches, bleu_possible.
  rewrite nadd_arr. cbn [map2]. rewrite !nvec_qn_vadd, !map_app, !nsum_app, !qn_add.
  rewrite !vsum_app; [reflexivity| |].
  - apply Forall_forall. intros r Hr. apply in_map_iff in Hr as [p [<- _]]. apply sent_possible_length.
  - apply Forall_forall. intros r Hr. apply in_map_iff in Hr as [p [<- _]]. apply Hm.
Qed.
Lemma map_qn_repeat0 n : map qn (repeat 0 n) = repeat 0%Qc n.
Proof. induction n as [|n IH]; cbn [repeat map]; [reflexivity|]. rewrite IH. reflexivity. Qed.
Lemma bleu_beta_with_nil matches c : bleu_beta_with matches c [] = bleu_zero c.
Proof.
  unfold bleu_beta_with, bleu_zero, bleu_ilen, bleu_tlen, bleu_matches, bleu_possible, vsum, nzeros.
  cbn [map nsum fold_right]. rewrite map_qn_repeat0. reflexivity.
Qed.

Lemma bleu_beta_eq_spec c b : bleu_beta c b = bleu_beta_with sent_matches_spec c b.
Proof.
  unfold bleu_beta, bleu_beta_with, bleu_matches.
  rewrite (map_ext (fun p => sent_matches (fst c) (fst p) (snd p)) (fun p => sent_matches_spec (fst c) (fst p) (snd p)));
    [reflexivity|]. intros p. apply sent_matches_eq_spec.
Qed.

(* functional: on an accepted corpus the value is the definition computed from clipped counts *)
Lemma bleu_fn_spec c b : bleu_of_stats c (bleu_beta c b) = bleu_of_stats c (bleu_beta_with sent_matches_spec c b).
Proof. rewrite bleu_beta_eq_spec. reflexivity. Qed.

Theorem bleu_class_spec : forall (c : bcfg) (t : mtree bleu_metric),
  Forall (fun b => bleu_ok (fst c) b = true) (stream _ t) ->
  bleu_gamma c (run bleu_metric c t) = bleu_gamma c (bleu_beta_with sent_matches_spec c (concat (stream _ t))).
Proof.
  intros c t Hv.
  change (agamma bleu_spec_add c (run (add_metric bleu_spec_add) c t)
          = bleu_gamma c (bleu_beta_with sent_matches_spec c (concat (stream (add_metric bleu_spec_add) t)))).
  rewrite (add_tree_eq_concat bleu_spec_add c (@app _) []
             (fun b1 b2 => bleu_beta_with_app sent_matches c b1 b2 sent_matches_length)
             (bleu_beta_with_nil sent_matches c) t Hv).
  change (abeta bleu_spec_add c) with (bleu_beta c). rewrite bleu_beta_eq_spec. reflexivity.
Qed.

(* brevity penalty: 1 when the candidate corpus is longer than the closest references, else exp(1 - r/c) *)
Lemma brevity_shape (il tl : Qc) : il <> 0%Qc ->
  brevity il tl = if qlt tl il then RFin (vq 1) else RFin (rexp (vq (1 - tl / il)%Qc)).
Proof.
  intros Hil. unfold brevity, qdivx, qeq. destruct (qlt tl il); [reflexivity|].
  destruct (Qc_eq_dec il 0) as [E|_]; [contradiction|reflexivity].
Qed.

(* REFUTED: "on an accepted corpus with at least one matching n-gram compute() is a number".
   Witness: n_gram = 2, weights (1, 0), candidate "1 2", reference "1 3": unigram precision 1/2, no
   bigram match, and 0 * log 0 = nan (the product form  bp * p1^1 * p2^0  would give 1/2). *)
Lemma bleu_zero_weight_witness :
  let c : bcfg := (2, Some [Q2Qc 1; Q2Qc 0]) in
  let b : bbatch := [([1; 2]%Z, [[1; 3]%Z])] in
  bleu_ok (fst c) b = true /\ bleu_matches sent_matches (fst c) b = [1; 0] /\
  bleu_gamma c (bleu_beta c b) = xq_val NaN /\
  xr_val (bleu_of_stats c (bleu_beta c b)) = xq_val NaN.
Proof. vm_compute. repeat split; reflexivity. Qed.

(* the three textbook equations determine the distance: any function satisfying them is what the
   DP computes *)
Lemma levenshtein_unique (f : sent -> sent -> nat) :
  (forall b, f [] b = List.length b) ->
  (forall a, f a [] = List.length a) ->
  (forall a x b y, f (a ++ [x]) (b ++ [y]) =
     Nat.min (f a (b ++ [y]) + 1) (Nat.min (f (a ++ [x]) b + 1) (f a b + if Z.eqb x y then 0 else 1))) ->
  forall a b, f a b = edit_distance a b.
Proof.
  intros H0l H0r Hs.
  assert (H : forall ra rb, f (rev ra) (rev rb) = lev_std Z Z.eqb ra rb).
  { induction ra as [|x ra IHa]; intros rb.
    - cbn [rev]. rewrite H0l, rev_length. reflexivity.
    - induction rb as [|y rb IHb].
      + cbn [rev] in *. rewrite H0r, lev_std_nil_r, app_length, rev_length. cbn [List.length]. lia.
      + rewrite lev_std_cons, <- IHb, <- !IHa. cbn [rev]. rewrite Hs. lia. }
  intros a b. rewrite edit_distance_levenshtein. unfold levenshtein.
  rewrite <- H, !rev_involutive. reflexivity.
Qed.
