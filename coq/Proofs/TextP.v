(* Proofs for Models/Text.v (C08 text half, C01/C03 corollaries). *)
From Coq Require Import ZArith List Bool QArith Qcanon Arith Lia Permutation.
From TE Require Import Base.Val Base.Nd Base.Xq Algebra.Metric Algebra.MergeTree Algebra.Pool Algebra.Additive
  Models.Text.
Import ListNotations.
Open Scope nat_scope.

(* ========================================================================================== *)
(* 1. Edit distance: row DP = the code's recurrence = the textbook Levenshtein recurrence        *)
(* ========================================================================================== *)
Section ED.
Variable tok : Type.
Variable teq : tok -> tok -> bool.
Notation lev := (lev tok teq).
Notation lev_std := (lev_std tok teq).
Notation fill := (fill tok teq).
Notation next_row := (next_row tok teq).
Notation row0 := (row0 tok).
Notation edit_distance_gen := (edit_distance_gen tok teq).

Lemma lev_nil_r ra : lev ra [] = List.length ra.
Proof. destruct ra; reflexivity. Qed.
Lemma lev_cons x ra y rb : lev (x :: ra) (y :: rb) =
  if teq x y then lev ra rb else S (Nat.min (lev ra (y :: rb)) (Nat.min (lev (x :: ra) rb) (lev ra rb))).
Proof. reflexivity. Qed.

(* prefixes of b as reversed lists, shortest first: revprefs [] b = [[]; [b0]; [b1;b0]; ...] *)
Fixpoint revprefs (acc : list tok) (b : list tok) : list (list tok) :=
  acc :: match b with [] => [] | y :: b' => revprefs (y :: acc) b' end.
Definition spec_row (ra : list tok) (b : list tok) : list nat := map (lev ra) (revprefs [] b).
Definition tailprefs (acc : list tok) (b : list tok) : list (list tok) :=
  match b with [] => [] | y :: b' => revprefs (y :: acc) b' end.
Lemma revprefs_unfold acc b : revprefs acc b = acc :: tailprefs acc b.
Proof. destruct b; reflexivity. Qed.

Lemma fill_spec x ra : forall b acc,
  fill x (lev (x :: ra) acc) (lev ra acc) (map (lev ra) (tailprefs acc b)) b
  = map (lev (x :: ra)) (tailprefs acc b).
Proof.
  induction b as [|y b IH]; intros acc; [reflexivity|].
  unfold tailprefs. rewrite (revprefs_unfold (y :: acc) b). cbn [map Text.fill].
  rewrite <- lev_cons. f_equal. apply IH.
Qed.

Lemma next_row_spec x ra b : next_row x (spec_row ra b) b = spec_row (x :: ra) b.
Proof.
  unfold spec_row, Text.next_row. rewrite (revprefs_unfold [] b). cbn [map].
  rewrite (lev_nil_r ra).
  replace (S (List.length ra)) with (lev (x :: ra) []) by reflexivity.
  f_equal. rewrite <- (lev_nil_r ra). exact (fill_spec x ra b []).
Qed.

Lemma row0_spec b : row0 b = spec_row [] b.
Proof.
  unfold Text.row0, spec_row. cbn [Text.lev].
  assert (H : forall b acc, seq (List.length acc) (S (List.length b)) = map (@List.length tok) (revprefs acc b)).
  { induction b0 as [|y b0 IH]; intros acc; [reflexivity|]. cbn [revprefs map List.length seq]. f_equal. apply (IH (y :: acc)). }
  exact (H b []).
Qed.

Lemma rows_spec : forall a ra b, fold_left (fun row x => next_row x row b) a (spec_row ra b) = spec_row (rev a ++ ra) b.
Proof.
  induction a as [|x a IH]; intros ra b; [reflexivity|].
  cbn [fold_left rev]. rewrite next_row_spec, IH, <- app_assoc. reflexivity.
Qed.

Lemma last_revprefs (f : list tok -> nat) : forall b acc, last (map f (revprefs acc b)) 0 = f (rev b ++ acc).
Proof.
  induction b as [|y b IH]; intros acc; [reflexivity|].
  cbn [revprefs map rev]. rewrite <- app_assoc. cbn [app].
  rewrite <- IH. destruct b; reflexivity.
Qed.

(* the row-by-row DP computes the code's recurrence on the full prefixes *)
Theorem edit_distance_recurrence_gen a b : edit_distance_gen a b = lev (rev a) (rev b).
Proof.
  unfold Text.edit_distance_gen. rewrite row0_spec, rows_spec, app_nil_r. unfold spec_row.
  rewrite last_revprefs, app_nil_r. reflexivity.
Qed.

Lemma lev_std_cons x ra y rb : lev_std (x :: ra) (y :: rb) =
  Nat.min (S (lev_std ra (y :: rb))) (Nat.min (S (lev_std (x :: ra) rb)) (lev_std ra rb + if teq x y then 0 else 1)).
Proof. reflexivity. Qed.
Lemma lev_std_nil_r ra : lev_std ra [] = List.length ra.
Proof. destruct ra; reflexivity. Qed.

(* the distance changes by at most one when a token is appended to either side *)
Lemma lipschitz : forall n ra rb, List.length ra + List.length rb <= n -> forall x y,
  lev ra (y :: rb) <= S (lev ra rb) /\ lev (x :: ra) rb <= S (lev ra rb) /\
  lev ra rb <= S (lev ra (y :: rb)) /\ lev ra rb <= S (lev (x :: ra) rb).
Proof.
  induction n as [|n IH]; intros ra rb Hn x y.
  - destruct ra, rb; cbn in Hn; try lia. cbn. destruct (teq x y); lia.
  - destruct ra as [|x' ra'].
    + assert (Hnil : forall l, lev [] l = List.length l) by reflexivity.
      destruct rb as [|y' rb'].
      * cbn. lia.
      * destruct (IH [] rb' ltac:(cbn in *; lia) x y) as (_ & H2 & _ & H4).
        rewrite (lev_cons x [] y' rb'), !Hnil in *. cbn [List.length] in *.
        destruct (teq x y'); lia.
    + destruct rb as [|y' rb'].
      * rewrite !lev_nil_r, !lev_cons. cbn [List.length]. rewrite !lev_nil_r.
        destruct (IH ra' [] ltac:(cbn in *; lia) x y) as (H1 & _ & H3 & _). rewrite lev_nil_r in H1, H3.
        cbn [List.length]. destruct (teq x' y); lia.
      * cbn [List.length] in Hn.
        destruct (IH ra' (y' :: rb') ltac:(cbn; lia) x' y) as (A1 & A2 & A3 & A4).
        destruct (IH (x' :: ra') rb' ltac:(cbn; lia) x y') as (B1 & B2 & B3 & B4).
        destruct (IH ra' rb' ltac:(lia) x' y') as (C1 & C2 & C3 & C4).
        destruct (IH ra' rb' ltac:(lia) x' y) as (D1 & _ & D3 & _).
        destruct (IH ra' rb' ltac:(lia) x y') as (_ & E2 & _ & E4).
        repeat split.
        -- rewrite (lev_cons x' ra' y (y' :: rb')). destruct (teq x' y); lia.
        -- rewrite (lev_cons x (x' :: ra') y' rb'). destruct (teq x y'); lia.
        -- rewrite (lev_cons x' ra' y (y' :: rb')). destruct (teq x' y); lia.
        -- rewrite (lev_cons x (x' :: ra') y' rb'). destruct (teq x y'); lia.
Qed.

(* taking the diagonal without comparison when the tokens match loses nothing *)
Theorem lev_is_textbook_gen : forall ra rb, lev ra rb = lev_std ra rb.
Proof.
  induction ra as [|x ra IHa]; intros rb; [reflexivity|].
  induction rb as [|y rb IHb]; [rewrite lev_nil_r, lev_std_nil_r; reflexivity|].
  rewrite lev_cons, lev_std_cons, <- !IHa, <- IHb.
  destruct (lipschitz _ ra rb (le_n _) x y) as (L1 & L2 & L3 & L4).
  destruct (teq x y); lia.
Qed.
End ED.

(* on integer tokens *)
Theorem edit_distance_levenshtein a b : edit_distance a b = levenshtein a b.
Proof. unfold edit_distance, levenshtein. rewrite edit_distance_recurrence_gen. apply lev_is_textbook_gen. Qed.

(* the recurrence read on sentences: D(a ++ [x], b ++ [y]) etc. *)
Lemma levenshtein_nil_l b : levenshtein [] b = List.length b.
Proof. unfold levenshtein. cbn [rev Text.lev_std]. apply rev_length. Qed.
Lemma levenshtein_nil_r a : levenshtein a [] = List.length a.
Proof. unfold levenshtein. cbn [rev]. rewrite lev_std_nil_r. apply rev_length. Qed.
Lemma levenshtein_snoc a x b y :
  levenshtein (a ++ [x]) (b ++ [y]) =
  Nat.min (levenshtein a (b ++ [y]) + 1)
          (Nat.min (levenshtein (a ++ [x]) b + 1) (levenshtein a b + if Z.eqb x y then 0 else 1)).
Proof.
  unfold levenshtein. rewrite !rev_app_distr. cbn [rev app]. rewrite lev_std_cons. lia.
Qed.

(* ========================================================================================== *)
(* 2. WER / WIP / WIL                                                                          *)
(* ========================================================================================== *)
Lemma nsum_ext {X} (f g : X -> nat) l : (forall x, f x = g x) -> nsum f l = nsum g l.
Proof. intros H. induction l as [|x l IH]; cbn [nsum fold_right]; [reflexivity|]. unfold nsum in IH. rewrite IH, H. reflexivity. Qed.
Lemma nsum_app {X} (f : X -> nat) l1 l2 : nsum f (l1 ++ l2) = nsum f l1 + nsum f l2.
Proof. unfold nsum. induction l1 as [|x l1 IH]; cbn [app fold_right]; [reflexivity|]. rewrite IH. lia. Qed.

Lemma errors_algo_spec b : errors_of edit_distance b = errors_of levenshtein b.
Proof. unfold errors_of. apply nsum_ext. intros p. apply edit_distance_levenshtein. Qed.

Lemma qn_add a b : qn (a + b) = (qn a + qn b)%Qc.
Proof.
  unfold qn, mkq. apply Qc_is_canon. unfold Qcplus, Q2Qc. cbn [this].
  rewrite !Qred_correct. unfold Qeq, Qplus. cbn. rewrite Nat2Z.inj_add. ring.
Qed.
Lemma qn_0 : qn 0 = 0%Qc.
Proof. reflexivity. Qed.

(* functional forms: value on one corpus = the definition with the reference distance *)
Lemma wer_fn_spec b : wer_gamma tt (wer_beta tt b) = wer_def levenshtein b.
Proof. unfold wer_gamma, wer_beta, wer_def. rewrite nlist_nvec, errors_algo_spec. reflexivity. Qed.
Lemma wip_fn_spec b : wip_gamma tt (wip_beta tt b) = wip_def levenshtein b.
Proof. unfold wip_gamma, wip_beta, wip_def. rewrite nlist_nvec, errors_algo_spec. reflexivity. Qed.
Lemma wil_fn_spec b : wil_gamma tt (wil_beta tt b) = wil_def levenshtein b.
Proof. unfold wil_gamma, wil_beta, wil_def. rewrite nlist_nvec, errors_algo_spec. reflexivity. Qed.

(* beta is additive over concatenation of corpora *)
Lemma nvec2_add a b c d : nadd (nvec [a; b]) (nvec [c; d]) = nvec [(a + c)%Qc; (b + d)%Qc].
Proof. reflexivity. Qed.
Lemma nvec3_add a b c d e f : nadd (nvec [a; b; c]) (nvec [d; e; f]) = nvec [(a + d)%Qc; (b + e)%Qc; (c + f)%Qc].
Proof. reflexivity. Qed.

Lemma wer_beta_app b1 b2 : wer_beta tt (b1 ++ b2) = nadd (wer_beta tt b1) (wer_beta tt b2).
Proof.
  unfold wer_beta, errors_of, tlen_of. rewrite nvec2_add, !nsum_app, !qn_add. reflexivity.
Qed.
Lemma wip_beta_app b1 b2 : wip_beta tt (b1 ++ b2) = nadd (wip_beta tt b1) (wip_beta tt b2).
Proof.
  unfold wip_beta, errors_of, tlen_of, ilen_of, maxlen_of. rewrite nvec3_add, !nsum_app, !qn_add.
  f_equal. f_equal. ring.
Qed.
Lemma wil_beta_app b1 b2 : wil_beta tt (b1 ++ b2) = nadd (wil_beta tt b1) (wil_beta tt b2).
Proof.
  unfold wil_beta, errors_of, tlen_of, ilen_of, maxlen_of. rewrite nvec3_add, !nsum_app, !qn_add.
  f_equal. f_equal. ring.
Qed.

(* Generic: an additive metric whose beta is additive over a concatenation of batches computes,
   on ANY merge tree, gamma (beta (concatenation of everything seen)). *)
Section ClassForms.
(* one statement for the three pair metrics, by the generic re-batching corollary *)
Variable S : AddSpec.
Variable c : acfg S.
Variable bcat : abatch S -> abatch S -> abatch S.
Variable bnil : abatch S.
Hypothesis all_valid : forall b, avalid S c b = true.
Hypothesis beta_cat : forall b1 b2, abeta S c (bcat b1 b2) = nadd (abeta S c b1) (abeta S c b2).
Hypothesis beta_nil : abeta S c bnil = azero S c.

Lemma class_eq_definition : forall t : mtree (add_metric S),
  agamma S c (run (add_metric S) c t) = agamma S c (abeta S c (bconcat (add_metric S) bcat bnil (stream _ t))).
Proof.
  intros t.
  assert (Hv : forall l, Forall (fun b => valid (add_metric S) c b = true) l).
  { intros l. apply Forall_forall. intros b _. apply all_valid. }
  pose proof (merge_tree_eq_one_batch (add_metric S) (add_alg S) c bcat bnil
                (fun b1 b2 _ _ => beta_cat b1 b2) (fun b1 b2 _ _ => all_valid _) beta_nil (all_valid _) t (Hv _)) as H.
  cbn [cmp add_metric plain] in H. rewrite H. cbn [run fold_left upd init add_metric plain].
  rewrite nadd_zero_l; [reflexivity|apply azero_zero|apply abeta_shape, all_valid].
Qed.
End ClassForms.

Theorem wer_class_spec : forall t : mtree wer_metric,
  wer_gamma tt (run wer_metric tt t) = wer_def levenshtein (concat (stream _ t)).
Proof.
  intros t.
  change (agamma wer_spec_add tt (run (add_metric wer_spec_add) tt t) = wer_def levenshtein (concat (stream (add_metric wer_spec_add) t))).
  rewrite (class_eq_definition wer_spec_add tt (@app _) [] (fun _ => eq_refl) wer_beta_app eq_refl t).
  change (abeta wer_spec_add tt) with (wer_beta tt). change (agamma wer_spec_add tt) with (wer_gamma tt).
  rewrite wer_fn_spec. reflexivity.
Qed.
Theorem wip_class_spec : forall t : mtree wip_metric,
  wip_gamma tt (run wip_metric tt t) = wip_def levenshtein (concat (stream _ t)).
Proof.
  intros t.
  change (agamma wip_spec_add tt (run (add_metric wip_spec_add) tt t) = wip_def levenshtein (concat (stream (add_metric wip_spec_add) t))).
  rewrite (class_eq_definition wip_spec_add tt (@app _) [] (fun _ => eq_refl) wip_beta_app eq_refl t).
  change (abeta wip_spec_add tt) with (wip_beta tt). change (agamma wip_spec_add tt) with (wip_gamma tt).
  rewrite wip_fn_spec. reflexivity.
Qed.
Theorem wil_class_spec : forall t : mtree wil_metric,
  wil_gamma tt (run wil_metric tt t) = wil_def levenshtein (concat (stream _ t)).
Proof.
  intros t.
  change (agamma wil_spec_add tt (run (add_metric wil_spec_add) tt t) = wil_def levenshtein (concat (stream (add_metric wil_spec_add) t))).
  rewrite (class_eq_definition wil_spec_add tt (@app _) [] (fun _ => eq_refl) wil_beta_app eq_refl t).
  change (abeta wil_spec_add tt) with (wil_beta tt). change (agamma wil_spec_add tt) with (wil_gamma tt).
  rewrite wil_fn_spec. reflexivity.
Qed.
