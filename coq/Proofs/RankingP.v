(* Lemmas about the ranking / retrieval models. *)
From Coq Require Import ZArith List Bool QArith Qcanon String Lia Sorted Permutation.
From TE Require Import Base.Val Base.Nd Base.Xq Algebra.Metric Algebra.MergeTree Algebra.Pool
  Algebra.Additive Algebra.Cache Models.Ranking.
Import ListNotations.
Open Scope list_scope.
Open Scope nat_scope.

(* ==========================================================================================
   1. the descending sort of (score, label) items and top-k retention
   ========================================================================================== *)
Definition ge2P (a b : item) : Prop := ge2 a b = true.
Definition sorted2 (l : list item) : Prop := StronglySorted ge2P l.

Lemma ge2_total a b : ge2 a b = false -> ge2 b a = true.
Proof.
  unfold ge2. destruct a as [a1 a2], b as [b1 b2]; cbn [fst snd]. intros H.
  apply orb_false_iff in H as [H1 H2]. apply Z.ltb_ge in H1.
  destruct (Z.ltb_spec a1 b1) as [|Hge]; [reflexivity|]. cbn [orb].
  assert (a1 = b1) by lia. subst. rewrite Z.eqb_refl in *. cbn [andb] in *. apply Z.leb_gt in H2. apply Z.leb_le. lia.
Qed.
Lemma ge2_trans a b c : ge2 a b = true -> ge2 b c = true -> ge2 a c = true.
Proof.
  unfold ge2. destruct a as [a1 a2], b as [b1 b2], c as [c1 c2]; cbn [fst snd]. intros H1 H2.
  apply orb_true_iff in H1 as [H1|H1]; apply orb_true_iff in H2 as [H2|H2];
    rewrite ?Z.ltb_lt, ?andb_true_iff, ?Z.eqb_eq, ?Z.leb_le in *; apply orb_true_iff;
    rewrite ?Z.ltb_lt, ?andb_true_iff, ?Z.eqb_eq, ?Z.leb_le; lia.
Qed.
Lemma ge2_antisym a b : ge2 a b = true -> ge2 b a = true -> a = b.
Proof.
  unfold ge2. destruct a as [a1 a2], b as [b1 b2]; cbn [fst snd]. intros H1 H2.
  apply orb_true_iff in H1 as [H1|H1]; apply orb_true_iff in H2 as [H2|H2];
    rewrite ?Z.ltb_lt, ?andb_true_iff, ?Z.eqb_eq, ?Z.leb_le in *; try lia.
  f_equal; lia.
Qed.

Lemma ins_cons x y r : ins x (y :: r) = if ge2 x y then x :: y :: r else y :: ins x r.
Proof. reflexivity. Qed.
Lemma sortd_cons x l : sortd (x :: l) = ins x (sortd l).
Proof. reflexivity. Qed.

Lemma ins_perm x : forall l, Permutation (ins x l) (x :: l).
Proof.
  induction l as [|y r IH]; [apply Permutation_refl|]. rewrite ins_cons.
  destruct (ge2 x y); [apply Permutation_refl|].
  eapply Permutation_trans; [apply perm_skip, IH|apply perm_swap].
Qed.
Lemma sortd_perm : forall l, Permutation (sortd l) l.
Proof.
  induction l as [|x l IH]; [apply Permutation_refl|]. rewrite sortd_cons.
  eapply Permutation_trans; [apply ins_perm|apply perm_skip, IH].
Qed.
Lemma ins_sorted x : forall l, sorted2 l -> sorted2 (ins x l).
Proof.
  induction l as [|y r IH]; intros Hs.
  - cbn. constructor; constructor.
  - rewrite ins_cons. inversion Hs as [|? ? Hr Hall]; subst. destruct (ge2 x y) eqn:E.
    + constructor; [exact Hs|]. constructor; [exact E|].
      rewrite Forall_forall in *. intros z Hz. eapply ge2_trans; [exact E|apply Hall, Hz].
    + constructor; [apply IH, Hr|]. rewrite Forall_forall in *. intros z Hz.
      apply (Permutation_in _ (ins_perm x r)) in Hz. destruct Hz as [<-|Hz]; [apply ge2_total, E|apply Hall, Hz].
Qed.
Lemma sortd_sorted : forall l, sorted2 (sortd l).
Proof. induction l as [|x l IH]; [constructor|]. rewrite sortd_cons. apply ins_sorted, IH. Qed.

Lemma sorted_perm_eq : forall s1 s2, sorted2 s1 -> sorted2 s2 -> Permutation s1 s2 -> s1 = s2.
Proof.
  induction s1 as [|a s1 IH]; intros s2 H1 H2 Hp.
  - apply Permutation_nil in Hp. subst. reflexivity.
  - destruct s2 as [|b s2]; [apply Permutation_sym, Permutation_nil in Hp; discriminate|].
    inversion H1 as [|? ? H1' A1]; inversion H2 as [|? ? H2' A2]; subst. rewrite Forall_forall in A1, A2.
    assert (a = b).
    { assert (Ha : In a (b :: s2)) by (eapply Permutation_in; [exact Hp|left; reflexivity]).
      assert (Hb : In b (a :: s1)) by (eapply Permutation_in; [apply Permutation_sym, Hp|left; reflexivity]).
      destruct Ha as [->|Ha]; [reflexivity|]. destruct Hb as [->|Hb]; [reflexivity|].
      apply ge2_antisym; [apply A1, Hb|apply A2, Ha]. }
    subst b. f_equal. apply IH; try assumption. eapply Permutation_cons_inv. exact Hp.
Qed.
Lemma sortd_perm_inv l l' : Permutation l l' -> sortd l = sortd l'.
Proof.
  intros Hp. apply sorted_perm_eq; try apply sortd_sorted.
  eapply Permutation_trans; [apply sortd_perm|]. eapply Permutation_trans; [exact Hp|apply Permutation_sym, sortd_perm].
Qed.
Lemma sortd_id s : sorted2 s -> sortd s = s.
Proof. intros Hs. apply sorted_perm_eq; [apply sortd_sorted|exact Hs|apply sortd_perm]. Qed.
(* the result of torch.topk/sort on tie-free (indeed on any) input is pinned down by "sorted
   permutation": every admissible sorted order equals the model's *)
Lemma sortd_unique l s : Permutation l s -> sorted2 s -> s = sortd l.
Proof. intros Hp Hs. rewrite <- (sortd_id s Hs). apply sortd_perm_inv, Permutation_sym, Hp. Qed.

Lemma in_firstn {A} : forall (l : list A) k x, In x (firstn k l) -> In x l.
Proof. intros l k x H. rewrite <- (firstn_skipn k l). apply in_or_app. left; exact H. Qed.
Lemma firstn_sorted : forall s k, sorted2 s -> sorted2 (firstn k s).
Proof.
  induction s as [|h t IH]; intros k Hs; [rewrite firstn_nil; constructor|].
  destruct k; [constructor|]. inversion Hs as [|? ? Hs' Hall]; subst. cbn [firstn]. constructor; [apply IH, Hs'|].
  rewrite Forall_forall in *. intros x Hx. apply Hall. eapply in_firstn. exact Hx.
Qed.

(* the first k outputs of an insertion only look at the first k of the list *)
Lemma firstn_ins x : forall s k, firstn k (ins x s) = firstn k (ins x (firstn k s)).
Proof.
  induction s as [|y r IH]; intros k.
  - rewrite firstn_nil. reflexivity.
  - destruct k as [|k]; [reflexivity|]. rewrite firstn_cons, !ins_cons. destruct (ge2 x y).
    + rewrite !firstn_cons. f_equal. destruct k as [|k]; [reflexivity|].
      rewrite !firstn_cons. f_equal. rewrite firstn_firstn. f_equal. lia.
    + rewrite !firstn_cons. f_equal. apply IH.
Qed.
Lemma firstn_fold_ins k : forall B s,
  firstn k (fold_right ins s B) = firstn k (fold_right ins (firstn k s) B).
Proof.
  induction B as [|b B IH]; intros s; cbn [fold_right].
  - rewrite firstn_firstn, Nat.min_id. reflexivity.
  - rewrite firstn_ins, IH, <- firstn_ins. reflexivity.
Qed.
Lemma sortd_app A B : sortd (A ++ B) = fold_right ins (sortd B) A.
Proof. unfold sortd. apply fold_right_app. Qed.

Lemma topk_sorted k l : sorted2 (topk k l).
Proof. destruct k as [k|]; cbn [topk]; [apply firstn_sorted|]; apply sortd_sorted. Qed.
Lemma topk_perm_inv k l l' : Permutation l l' -> topk k l = topk k l'.
Proof. intros Hp. destruct k; cbn [topk]; rewrite (sortd_perm_inv l l' Hp); reflexivity. Qed.

(* incremental top-k retention loses nothing the final top-k needs (design probe TopkRetention,
   here on (score,label) items and through insertion rather than merge) *)
Theorem topk_retention k A B : topk k (topk k A ++ B) = topk k (A ++ B).
Proof.
  destruct k as [k|]; cbn [topk].
  - rewrite (sortd_perm_inv (firstn k (sortd A) ++ B) (B ++ firstn k (sortd A))) by apply Permutation_app_comm.
    rewrite (sortd_perm_inv (A ++ B) (B ++ A)) by apply Permutation_app_comm.
    rewrite !sortd_app. rewrite (sortd_id (firstn k (sortd A))) by apply firstn_sorted, sortd_sorted.
    symmetry. apply firstn_fold_ins.
  - apply sortd_perm_inv. apply Permutation_app_tail, sortd_perm.
Qed.
Lemma topk_retention_r k A B : topk k (A ++ topk k B) = topk k (A ++ B).
Proof.
  rewrite (topk_perm_inv k (A ++ topk k B) (topk k B ++ A)) by apply Permutation_app_comm.
  rewrite topk_retention. apply topk_perm_inv, Permutation_app_comm.
Qed.
Lemma topk_idem k A : topk k (topk k A) = topk k A.
Proof. pose proof (topk_retention k A []) as H. rewrite !app_nil_r in H. exact H. Qed.
Lemma topk_nil k : topk k [] = [].
Proof. destruct k as [[|k]|]; reflexivity. Qed.
Lemma topk_fix k s : sorted2 s -> (match k with Some k => List.length s <= k | None => True end) -> topk k s = s.
Proof.
  intros Hs Hk. destruct k as [k|]; cbn [topk]; rewrite sortd_id by exact Hs; [|reflexivity].
  apply firstn_all2. exact Hk.
Qed.
Lemma topk_length_le k l : match k with Some k => List.length (topk (Some k) l) <= k | None => True end.
Proof. destruct k as [k|]; [|exact I]. cbn [topk]. rewrite firstn_length. lia. Qed.

(* ==========================================================================================
   2. explicit ranking: on tie-free scores the top-k are exactly the items whose rank (number of
      strictly greater scores) is below k
   ========================================================================================== *)
Definition tie_free (l : list item) : Prop := NoDup (map fst l).
Definition sdesc (l : list item) : Prop := StronglySorted (fun a b => (fst b < fst a)%Z) l.

Lemma tie_free_perm l l' : Permutation l l' -> tie_free l -> tie_free l'.
Proof. unfold tie_free. intros Hp. apply Permutation_NoDup, Permutation_map, Hp. Qed.

Lemma sorted_tie_free_sdesc l : sorted2 l -> tie_free l -> sdesc l.
Proof.
  unfold sorted2, sdesc, tie_free. induction 1 as [|a r Hr IH Ha]; intros Hnd; [constructor|].
  cbn [map] in Hnd. inversion Hnd as [|? ? Hnin Hnd']; subst. constructor; [apply IH, Hnd'|].
  rewrite Forall_forall in *. intros b Hb. specialize (Ha b Hb). unfold ge2P, ge2 in Ha.
  apply orb_true_iff in Ha as [Ha|Ha]; [apply Z.ltb_lt, Ha|].
  apply andb_true_iff in Ha as [Ha _]. apply Z.eqb_eq in Ha. exfalso. apply Hnin. rewrite Ha. apply in_map, Hb.
Qed.

Lemma irank_cons z y l : irank z (y :: l) = ((if (z <? fst y)%Z then 1 else 0) + irank z l).
Proof. unfold irank. cbn [filter]. destruct (z <? fst y)%Z; reflexivity. Qed.
Lemma irank_perm z l l' : Permutation l l' -> irank z l = irank z l'.
Proof.
  induction 1 as [|x l l' Hp IH|x y l|l1 l2 l3 _ IH1 _ IH2]; [reflexivity| | |congruence].
  - rewrite !irank_cons, IH. reflexivity.
  - rewrite !irank_cons. lia.
Qed.
Lemma irank_below z l : Forall (fun y => (fst y <= z)%Z) l -> irank z l = 0.
Proof.
  induction 1 as [|y l Hy _ IH]; [reflexivity|]. rewrite irank_cons, IH.
  destruct (Z.ltb_spec z (fst y)); [lia|reflexivity].
Qed.

(* Lemma A: the first k of a strictly descending list = the elements of rank < k *)
Lemma firstn_sdesc_filter : forall s k, sdesc s ->
  firstn k s = filter (fun x => Nat.ltb (irank (fst x) s) k) s.
Proof.
  induction s as [|a t IH]; intros k Hs; [rewrite firstn_nil; reflexivity|].
  inversion Hs as [|? ? Ht Hall]; subst. rewrite Forall_forall in Hall.
  assert (Ha0 : irank (fst a) (a :: t) = 0).
  { apply irank_below. constructor; [lia|]. rewrite Forall_forall. intros y Hy. specialize (Hall y Hy). lia. }
  destruct k as [|k].
  - cbn [firstn]. rewrite (filter_ext _ (fun _ => false)) by (intros; reflexivity).
    symmetry. clear. induction (a :: t) as [|x l IHl]; [reflexivity|exact IHl].
  - cbn [filter]. rewrite Ha0.
    change (Nat.ltb 0 (S k)) with true. cbn [firstn]. f_equal. rewrite (IH k Ht).
    apply filter_ext_in. intros x Hx. rewrite irank_cons. specialize (Hall x Hx).
    destruct (Z.ltb_spec (fst x) (fst a)); [|lia]. reflexivity.
Qed.

Lemma sumlab_cons x l : sumlab (x :: l) = (snd x + sumlab l)%Z.
Proof. reflexivity. Qed.
Lemma sumlab_perm l l' : Permutation l l' -> sumlab l = sumlab l'.
Proof.
  induction 1 as [|x l l' Hp IH|x y l|l1 l2 l3 _ IH1 _ IH2]; [reflexivity| | |congruence].
  - rewrite !sumlab_cons, IH. reflexivity.
  - rewrite !sumlab_cons. lia.
Qed.
Lemma filter_perm {A} (f : A -> bool) l l' : Permutation l l' -> Permutation (filter f l) (filter f l').
Proof.
  induction 1 as [|x l l' Hp IH|x y l|l1 l2 l3 _ IH1 _ IH2]; [apply Permutation_refl| | |].
  - cbn [filter]. destruct (f x); [apply perm_skip|]; exact IH.
  - cbn [filter]. destruct (f x), (f y); try apply Permutation_refl. apply perm_swap.
  - eapply Permutation_trans; eassumption.
Qed.

(* on tie-free scores: top-k = the items of rank < k, as a set with the same label sum *)
Lemma topk_retrieved k l : tie_free l -> Permutation (topk k l) (retrieved k l).
Proof.
  intros Htf. destruct k as [k|]; cbn [topk retrieved]; [|apply sortd_perm].
  assert (Hsd : sdesc (sortd l)).
  { apply sorted_tie_free_sdesc; [apply sortd_sorted|]. eapply tie_free_perm; [apply Permutation_sym, sortd_perm|exact Htf]. }
  rewrite (firstn_sdesc_filter _ k Hsd).
  rewrite (filter_ext _ (fun x => Nat.ltb (irank (fst x) l) k)).
  - apply filter_perm, sortd_perm.
  - intros x. rewrite (irank_perm (fst x) _ _ (sortd_perm l)). reflexivity.
Qed.
Lemma sumlab_topk k l : tie_free l -> sumlab (topk k l) = sumlab (retrieved k l).
Proof. intros H. apply sumlab_perm, topk_retrieved, H. Qed.

Theorem prec_fn_spec k lim l : tie_free l -> prec_fn k lim l = prec_spec k lim l.
Proof. intros H. unfold prec_fn, prec_spec. rewrite (sumlab_topk k l H). reflexivity. Qed.
Theorem rec_fn_spec k l : tie_free l -> rec_fn k l = rec_spec k l.
Proof. intros H. unfold rec_fn, rec_spec. rewrite (sumlab_topk k l H). reflexivity. Qed.

(* k beyond the number of candidates: every item is retrieved *)
Lemma irank_lt_length z l : irank z l <= List.length l.
Proof. induction l as [|y l IH]; [cbn; lia|]. rewrite irank_cons. simpl (List.length (_ :: _)). destruct (z <? fst y)%Z; lia. Qed.
Lemma irank_in_lt x l : In x l -> irank (fst x) l < List.length l.
Proof.
  induction l as [|y l IH]; intros Hin; [destruct Hin|]. rewrite irank_cons. simpl (List.length (_ :: _)).
  destruct Hin as [->|Hin].
  - rewrite Z.ltb_irrefl. pose proof (irank_lt_length (fst x) l) as H. unfold item in *. lia.
  - specialize (IH Hin). destruct (fst x <? fst y)%Z; lia.
Qed.
Lemma retrieved_all k l : List.length l <= k -> retrieved (Some k) l = l.
Proof.
  intros Hk. cbn [retrieved]. rewrite (filter_ext_in _ (fun _ => true)).
  - clear. induction l as [|x l IH]; [reflexivity|]. cbn [filter]. rewrite IH. reflexivity.
  - intros x Hx. apply Nat.ltb_lt. pose proof (irank_in_lt x l Hx) as H. unfold item in *. lia.
Qed.
Theorem prec_spec_k_beyond k lim l : List.length l <= k ->
  prec_spec (Some k) lim l = qdivx (zq (sumlab l)) (zq (Z.of_nat (if lim then List.length l else k))).
Proof.
  intros Hk. unfold prec_spec. rewrite (retrieved_all k l Hk). cbn [nb_retrieved].
  destruct lim; [rewrite Nat.min_r by exact Hk|]; reflexivity.
Qed.
Theorem rec_spec_k_beyond k l : List.length l <= k -> rec_spec (Some k) l = qdivx (zq (sumlab l)) (zq (sumlab l)).
Proof. intros Hk. unfold rec_spec. rewrite (retrieved_all k l Hk). reflexivity. Qed.

(* ==========================================================================================
   3. the retrieval classes: state after any sequence of updates, compute() in closed form
   ========================================================================================== *)
Lemma nth_mapi_from {X Y} (f : nat -> X -> Y) d d' : forall l i j, j < List.length l ->
  nth j (mapi_from i f l) d = f (i + j) (nth j l d').
Proof.
  induction l as [|x l IH]; intros i j Hj; [cbn in Hj; lia|]. destruct j as [|j]; cbn [mapi_from nth].
  - rewrite Nat.add_0_r. reflexivity.
  - rewrite IH by (cbn in Hj; lia). f_equal. lia.
Qed.
Lemma nth_mapi {X Y} (f : nat -> X -> Y) d d' l j : j < List.length l -> nth j (mapi f l) d = f j (nth j l d').
Proof. intros H. unfold mapi. rewrite (nth_mapi_from f d d') by exact H. reflexivity. Qed.
Lemma mapi_length {X Y} (f : nat -> X -> Y) l : List.length (mapi f l) = List.length l.
Proof. apply mapi_from_length. Qed.
Lemma rupd_length c s b : List.length (rupd c s b) = List.length s.
Proof. apply mapi_length. Qed.
Lemma rupd_nth c s b i : i < List.length s -> nth i (rupd c s b) [] = rupd1 c i b (nth i s []).
Proof. intros H. unfold rupd. rewrite (nth_mapi _ [] []) by exact H. reflexivity. Qed.
Lemma rmrg_length c s ms : List.length (rmrg c s ms) = List.length s.
Proof. apply mapi_length. Qed.
Lemma rmrg_nth c s ms i : i < List.length s ->
  nth i (rmrg c s ms) [] = nth i s [] ++ flat_map (fun m => nth i m []) ms.
Proof. intros H. unfold rmrg. rewrite (nth_mapi _ [] []) by exact H. reflexivity. Qed.

Definition rsel_items (c : rcfg) (i : nat) (b : rbatch) : list item :=
  match rsel (r_nq c) i b with Some its => its | None => [] end.
Lemma rdata_cons c i b bs : rdata c i (b :: bs) = rsel_items c i b ++ rdata c i bs.
Proof. reflexivity. Qed.
Lemma rupd1_topk c i b D : rupd1 c i b (topk (r_k c) D) = topk (r_k c) (D ++ rsel_items c i b).
Proof.
  unfold rupd1, rsel_items. destruct (rsel (r_nq c) i b) as [its|].
  - apply topk_retention.
  - rewrite app_nil_r. reflexivity.
Qed.
Lemma rupd_fold_nth c i : forall bs s D, i < List.length s -> nth i s [] = topk (r_k c) D ->
  nth i (fold_left (rupd c) bs s) [] = topk (r_k c) (D ++ rdata c i bs).
Proof.
  induction bs as [|b bs IH]; intros s D Hi Hs; cbn [fold_left].
  - cbn. rewrite app_nil_r. exact Hs.
  - rewrite rdata_cons, app_assoc. apply IH; [rewrite rupd_length; exact Hi|].
    rewrite rupd_nth by exact Hi. rewrite Hs. apply rupd1_topk.
Qed.
Lemma rupd_fold_length c : forall bs s, List.length (fold_left (rupd c) bs s) = List.length s.
Proof. induction bs as [|b bs IH]; intros s; cbn [fold_left]; [reflexivity|]. rewrite IH. apply rupd_length. Qed.

(* what the class retains for query i after ANY sequence of updates: the top-k of all the data
   routed to that query (the model sorts canonically; for torch read: on tie-free scores) *)
Theorem retr_class_state recall c bs i : i < r_nq c ->
  nth i (fold_left (upd (retr_metric recall) c) bs (init (retr_metric recall) c)) [] = topk (r_k c) (rdata c i bs).
Proof.
  intros Hi. change (nth i (fold_left (rupd c) bs (repeat [] (r_nq c))) [] = topk (r_k c) (rdata c i bs)).
  rewrite (rupd_fold_nth c i bs (repeat [] (r_nq c)) []).
  - reflexivity.
  - rewrite repeat_length. exact Hi.
  - rewrite topk_nil. clear. revert i. induction (r_nq c) as [|n IH]; intros [|i]; cbn; try reflexivity. apply IH.
Qed.

Lemma list_as_nth {X} (d : X) : forall l, l = map (fun i => nth i l d) (seq 0 (List.length l)).
Proof.
  induction l as [|x l IH]; [reflexivity|]. cbn [List.length seq map nth]. f_equal.
  rewrite <- seq_shift, map_map. exact IH.
Qed.
Theorem retr_class_compute recall c bs :
  cmp (retr_metric recall) c (fold_left (upd (retr_metric recall) c) bs (init (retr_metric recall) c)) =
  rfinish c (map (fun i => rquery recall c (topk (r_k c) (rdata c i bs))) (seq 0 (r_nq c))).
Proof.
  change (rcmp recall c (fold_left (rupd c) bs (repeat [] (r_nq c))) =
          rfinish c (map (fun i => rquery recall c (topk (r_k c) (rdata c i bs))) (seq 0 (r_nq c)))).
  unfold rcmp. f_equal.
  set (s := fold_left (rupd c) bs (repeat [] (r_nq c))).
  assert (Hl : List.length s = r_nq c).
  { unfold s. rewrite rupd_fold_length, repeat_length. reflexivity. }
  rewrite (list_as_nth [] s) at 1. rewrite map_map, Hl. apply map_ext_in. intros i Hi. apply in_seq in Hi.
  unfold s. f_equal. apply (retr_class_state recall c bs i). lia.
Qed.

(* ---- per query: class value vs the definition on all the data ---- *)
Lemma topk_length k l : List.length (topk k l) = match k with Some k => Nat.min k (List.length l) | None => List.length l end.
Proof.
  destruct k as [k|]; cbn [topk]; [rewrite firstn_length|]; rewrite (Permutation_length (sortd_perm l)); reflexivity.
Qed.
Lemma is_nil_length {X} (l : list X) : is_nil l = Nat.eqb (List.length l) 0.
Proof. destruct l; reflexivity. Qed.
Lemma topk_is_nil k l : k <> Some 0 -> is_nil (topk k l) = is_nil l.
Proof.
  intros Hk. rewrite !is_nil_length, topk_length. destruct k as [k|]; [|reflexivity].
  destruct k as [|k]; [congruence|]. destruct l; reflexivity.
Qed.
Lemma in_topk k l x : In x (topk k l) -> In x l.
Proof.
  intros H. apply (Permutation_in _ (sortd_perm l)). destruct k; cbn [topk] in H; [eapply in_firstn|]; exact H.
Qed.
Lemma has1_topk k l : has1 (topk k l) = true -> has1 l = true.
Proof.
  unfold has1. rewrite !existsb_exists. intros [x [Hx H1]]. exists x. split; [eapply in_topk; exact Hx|exact H1].
Qed.
Lemma nb_retrieved_topk k lim l :
  nb_retrieved k lim (List.length (topk k l)) = nb_retrieved k lim (List.length l).
Proof. rewrite topk_length. destruct k as [k|]; cbn [nb_retrieved]; [destruct lim|]; lia. Qed.

(* RetrievalPrecision: the class value is the definition's value unless relevant items exist but
   all of them were pruned out of the retained top-k (then the class applies empty_target_action) *)
Theorem rquery_prec_eq c D : r_k c <> Some 0 -> tie_free D ->
  (has1 (topk (r_k c) D) = true \/ has1 D = false) ->
  rquery false c (topk (r_k c) D) = rquery_spec false c D.
Proof.
  intros Hk Htf Hc. unfold rquery, rquery_spec. rewrite (topk_is_nil _ D Hk).
  destruct (is_nil D); [reflexivity|].
  assert (Hh : has1 (topk (r_k c) D) = has1 D).
  { destruct Hc as [H|H]; [rewrite H; symmetry; eapply has1_topk; exact H|].
    rewrite H. destruct (has1 (topk (r_k c) D)) eqn:E; [apply has1_topk in E; congruence|reflexivity]. }
  rewrite Hh. destruct (has1 D); cbn [negb]; [|reflexivity]. f_equal.
  unfold prec_fn, prec_spec. rewrite topk_idem, nb_retrieved_topk, (sumlab_topk _ D Htf). reflexivity.
Qed.
(* RetrievalRecall: right only when nothing relevant lies outside the retained top-k *)
Theorem rquery_recall_eq c D : r_k c <> Some 0 -> tie_free D ->
  sumlab (topk (r_k c) D) = sumlab D -> has1 (topk (r_k c) D) = has1 D ->
  rquery true c (topk (r_k c) D) = rquery_spec true c D.
Proof.
  intros Hk Htf Hs Hh. unfold rquery, rquery_spec. rewrite (topk_is_nil _ D Hk), Hh.
  destruct (is_nil D); [reflexivity|]. destruct (has1 D); cbn [negb]; [|reflexivity]. f_equal.
  unfold rec_fn, rec_spec. rewrite topk_idem, Hs, <- (sumlab_topk _ D Htf), Hs. reflexivity.
Qed.
(* ... and when something relevant IS retained, the class always reports sum/sum (D3) *)
Theorem rquery_recall_asis c D : r_k c <> Some 0 -> has1 (topk (r_k c) D) = true ->
  rquery true c (topk (r_k c) D) =
  Some (qdivx (zq (sumlab (topk (r_k c) D))) (zq (sumlab (topk (r_k c) D)))).
Proof.
  intros Hk Hh. unfold rquery. rewrite Hh. cbn [negb].
  destruct (is_nil (topk (r_k c) D)) eqn:E; [destruct (topk (r_k c) D); [discriminate Hh|discriminate E]|].
  unfold rec_fn. rewrite topk_idem. reflexivity.
Qed.

Theorem retr_class_eq_spec recall c bs :
  (forall i, i < r_nq c -> rquery recall c (topk (r_k c) (rdata c i bs)) = rquery_spec recall c (rdata c i bs)) ->
  cmp (retr_metric recall) c (fold_left (upd (retr_metric recall) c) bs (init (retr_metric recall) c)) = rclass_spec recall c bs.
Proof.
  intros H. rewrite retr_class_compute. unfold rclass_spec. f_equal. apply map_ext_in. intros i Hi.
  apply in_seq in Hi. apply H. lia.
Qed.

(* ==========================================================================================
   4. HitRate / ReciprocalRank
   ========================================================================================== *)
Section SCAlg.
Variables (C B : Type) (fvalid : C -> B -> bool) (f : C -> B -> list Qc).
Lemma sc_merge_concat : forall ms s,
  List.concat (sc_merge s ms) = fold_left (@app Qc) (map (@List.concat Qc) ms) (List.concat s).
Proof.
  unfold sc_merge. induction ms as [|m ms IH]; intros s; cbn [fold_left map]; [reflexivity|].
  rewrite IH. f_equal. destruct m as [|x m]; cbn [is_nil].
  - cbn. rewrite app_nil_r. reflexivity.
  - rewrite concat_app. cbn [List.concat]. rewrite app_nil_r. reflexivity.
Qed.
Definition sc_alg : Alg (sc_metric C B fvalid f).
Proof.
  refine (Build_Alg (sc_metric C B fvalid f) (list Qc) (fun _ => []) (@app _) (fun _ _ => True) _ _ _ _ _
            (fun _ s => List.concat s) (fun c b => f c b) (fun _ a => a) (fun _ _ => True) _ _ _ _ _ _ _).
  - intros x y z. apply app_assoc.
  - intros; exact I.
  - intros; exact I.
  - intros; reflexivity.
  - intros; apply app_nil_r.
  - intros; exact I.
  - intros; exact I.
  - intros; exact I.
  - reflexivity.
  - intros c s b _ _. split; [|exact I]. cbn. rewrite concat_app. cbn. rewrite app_nil_r. reflexivity.
  - intros c s ms _ _. split; [|exact I]. cbn. apply sc_merge_concat.
  - reflexivity.
Defined.
(* any merge tree: compute() = the per-sample results of the in-order stream, in that order *)
Lemma sc_merge_tree c (t : mtree (sc_metric C B fvalid f)) :
  Forall (fun b => fvalid c b = true) (stream (sc_metric C B fvalid f) t) ->
  cmp (sc_metric C B fvalid f) c (run (sc_metric C B fvalid f) c t) = flat_map (f c) (stream (sc_metric C B fvalid f) t).
Proof.
  intros Hv. rewrite (merge_tree_compute _ sc_alg c t Hv). cbn [gamma sc_alg beta].
  unfold prod. cbn [op e sc_alg]. generalize (stream (sc_metric C B fvalid f) t). intros l.
  rewrite <- (app_nil_l (flat_map (f c) l)). generalize (@nil Qc).
  induction l as [|b l IH]; intros acc; cbn [map fold_left flat_map]; [rewrite app_nil_r; reflexivity|].
  rewrite IH, app_assoc. reflexivity.
Qed.
End SCAlg.

Lemma filter_len_le {X} (g : X -> bool) : forall l, List.length (filter g l) <= List.length l.
Proof. induction l as [|y l IH]; [cbn; lia|]. cbn [filter]. destruct (g y); cbn; lia. Qed.
Lemma filter_length_lt {X} (g : X -> bool) l x : In x l -> g x = false -> List.length (filter g l) < List.length l.
Proof.
  induction l as [|y l IH]; intros Hin Hg; [destruct Hin|]. cbn [filter]. destruct Hin as [->|Hin].
  - rewrite Hg. pose proof (filter_len_le g l). cbn. lia.
  - specialize (IH Hin Hg). destruct (g y); cbn; lia.
Qed.
Lemma in_range_nth smp : in_range smp = true -> In (nth (Z.to_nat (snd smp)) (fst smp) 0%Z) (fst smp).
Proof.
  unfold in_range. intros H. apply andb_prop in H as [H1 H2]. apply Z.leb_le in H1. apply Z.ltb_lt in H2.
  apply nth_In. lia.
Qed.
(* the rank is below the number of candidates *)
Lemma rk_rank_lt smp : in_range smp = true -> (0 <= rk_rank (fst smp) (snd smp) < Z.of_nat (List.length (fst smp)))%Z.
Proof.
  intros H. unfold rk_rank. split; [lia|]. apply Nat2Z.inj_lt.
  apply (filter_length_lt _ _ _ (in_range_nth smp H)). rewrite Z.gtb_ltb. apply Z.ltb_irrefl.
Qed.
(* hit_rate: the "k >= num_classes => ones" shortcut agrees with the rank rule *)
Theorem hit_one_rank_rule k smp : in_range smp = true ->
  hit_one (Some k) smp = if (rk_rank (fst smp) (snd smp) <? k)%Z then 1%Qc else 0%Qc.
Proof.
  intros H. unfold hit_one, hit_short. destruct (Z.leb_spec (Z.of_nat (List.length (fst smp))) k) as [Hk|Hk]; [|reflexivity].
  pose proof (rk_rank_lt smp H). destruct (Z.ltb_spec (rk_rank (fst smp) (snd smp)) k); [reflexivity|lia].
Qed.
Theorem hit_all_ones k b : Forall (fun s => (Z.of_nat (List.length (fst s)) <= k)%Z) b ->
  hit_fn (Some k) b = map (fun _ => 1%Qc) b.
Proof.
  intros H. unfold hit_fn. apply map_ext_in. intros s Hs. rewrite Forall_forall in H. specialize (H s Hs).
  unfold hit_one, hit_short. destruct (Z.leb_spec (Z.of_nat (List.length (fst s))) k); [reflexivity|lia].
Qed.

(* rank by explicit sorting: in EVERY weakly descending arrangement of the row the first element
   carrying the target's score sits at position (number of strictly greater scores) *)
Definition count_gt (y : Z) (l : list Z) : Z := Z.of_nat (List.length (filter (fun x => Z.gtb x y) l)).
Lemma count_gt_cons y x l : count_gt y (x :: l) = ((if (x >? y)%Z then 1 else 0) + count_gt y l)%Z.
Proof. unfold count_gt. cbn [filter]. destruct (x >? y)%Z; [cbn [List.length]; lia|reflexivity]. Qed.
Lemma count_gt_perm y l l' : Permutation l l' -> count_gt y l = count_gt y l'.
Proof.
  induction 1 as [|x l l' Hp IH|x z l|l1 l2 l3 _ IH1 _ IH2]; [reflexivity| | |congruence].
  - rewrite !count_gt_cons, IH. reflexivity.
  - rewrite !count_gt_cons. lia.
Qed.
Definition wdescZ (l : list Z) : Prop := StronglySorted (fun a b => (b <= a)%Z) l.
Lemma first_pos_count y : forall s, wdescZ s -> In y s -> first_pos y s = count_gt y s.
Proof.
  induction s as [|x r IH]; intros Hs Hin; [destruct Hin|].
  inversion Hs as [|? ? Hr Hall]; subst. rewrite Forall_forall in Hall. rewrite count_gt_cons. cbn [first_pos].
  destruct (Z.eqb_spec x y) as [->|Hne].
  - rewrite Z.gtb_ltb, Z.ltb_irrefl. unfold count_gt.
    rewrite (filter_ext_in _ (fun _ => false)).
    + clear. induction r; [reflexivity|assumption].
    + intros z Hz. specialize (Hall z Hz). rewrite Z.gtb_ltb. apply Z.ltb_ge. exact Hall.
  - destruct Hin as [->|Hin]; [congruence|]. specialize (Hall y Hin).
    rewrite (IH Hr Hin). rewrite Z.gtb_ltb. destruct (Z.ltb_spec y x); [reflexivity|lia].
Qed.
Theorem rank_any_sorting row t s : in_range (row, t) = true -> Permutation row s -> wdescZ s ->
  rk_rank row t = first_pos (nth (Z.to_nat t) row 0%Z) s.
Proof.
  intros Hr Hp Hs. pose proof (in_range_nth (row, t) Hr) as Hin. cbn [fst snd] in Hin.
  rewrite (first_pos_count _ s Hs) by (eapply Permutation_in; eassumption).
  unfold rk_rank. fold (count_gt (nth (Z.to_nat t) row 0%Z) row). apply count_gt_perm, Hp.
Qed.
Lemma ins_desc_perm x : forall l, Permutation (ins_desc x l) (x :: l).
Proof.
  induction l as [|y r IH]; [apply Permutation_refl|]. cbn [ins_desc].
  destruct (y <=? x)%Z; [apply Permutation_refl|].
  eapply Permutation_trans; [apply perm_skip, IH|apply perm_swap].
Qed.
Lemma sort_desc_perm : forall l, Permutation l (sort_desc l).
Proof.
  induction l as [|x l IH]; [apply Permutation_refl|]. change (sort_desc (x :: l)) with (ins_desc x (sort_desc l)).
  apply Permutation_sym. eapply Permutation_trans; [apply ins_desc_perm|apply perm_skip, Permutation_sym, IH].
Qed.
Lemma ins_desc_sorted x : forall l, wdescZ l -> wdescZ (ins_desc x l).
Proof.
  induction l as [|y r IH]; intros Hs; [cbn; constructor; constructor|].
  cbn [ins_desc]. inversion Hs as [|? ? Hr Hall]; subst. destruct (Z.leb_spec y x) as [E|E].
  - constructor; [exact Hs|]. constructor; [exact E|]. rewrite Forall_forall in *. intros z Hz. specialize (Hall z Hz). lia.
  - constructor; [apply IH, Hr|]. rewrite Forall_forall in *. intros z Hz.
    apply (Permutation_in _ (ins_desc_perm x r)) in Hz. destruct Hz as [<-|Hz]; [lia|apply Hall, Hz].
Qed.
Lemma sort_desc_sorted : forall l, wdescZ (sort_desc l).
Proof. induction l as [|x l IH]; [constructor|]. change (sort_desc (x :: l)) with (ins_desc x (sort_desc l)). apply ins_desc_sorted, IH. Qed.
Lemma rank_by_sorting_eq smp : in_range smp = true -> rank_by_sorting (fst smp) (snd smp) = rk_rank (fst smp) (snd smp).
Proof.
  intros H. symmetry. destruct smp as [row t]. apply rank_any_sorting; [exact H|apply sort_desc_perm|apply sort_desc_sorted].
Qed.
Theorem hit_one_spec k smp : in_range smp = true -> hit_one k smp = hit_spec_one k smp.
Proof.
  intros H. destruct k as [k|]; [|reflexivity]. rewrite (hit_one_rank_rule k smp H).
  unfold hit_spec_one. rewrite (rank_by_sorting_eq smp H). reflexivity.
Qed.
Theorem rr_one_spec k smp : in_range smp = true -> rr_one k smp = rr_spec_one k smp.
Proof.
  intros H. unfold rr_one, rr_spec_one. rewrite (rank_by_sorting_eq smp H). destruct k as [k|]; [|reflexivity].
  destruct (Z.leb_spec k (rk_rank (fst smp) (snd smp))), (Z.ltb_spec (rk_rank (fst smp) (snd smp)) k); try reflexivity; lia.
Qed.

(* ==========================================================================================
   5. collisions, frequency, CTR, weighted calibration
   ========================================================================================== *)
Lemma filter_eqb_count x : forall l, List.length (filter (fun y => Z.eqb y x) l) = count_occ Z.eq_dec l x.
Proof.
  induction l as [|y l IH]; [reflexivity|]. cbn [filter count_occ].
  destruct (Z.eq_dec y x) as [->|Hne]; [rewrite Z.eqb_refl; cbn [List.length]; rewrite IH; reflexivity|].
  destruct (Z.eqb_spec y x); [congruence|exact IH].
Qed.
Theorem collisions_fn_spec l : collisions_fn l = collisions_spec l.
Proof. unfold collisions_fn, collisions_spec. apply map_ext. intros x. rewrite filter_eqb_count. reflexivity. Qed.

Lemma qlt_iff a b : qlt a b = true <-> (a < b)%Qc.
Proof.
  unfold qlt, Qclt. rewrite Qlt_alt. unfold Qccompare. destruct (this a ?= this b)%Q; split; congruence.
Qed.
Lemma nth_map_lt {X Y} (g : X -> Y) d d' : forall l i, i < List.length l -> nth i (map g l) d = g (nth i l d').
Proof. induction l as [|x l IH]; intros i Hi; [cbn in Hi; lia|]. destruct i; [reflexivity|]. cbn. apply IH. cbn in Hi. lia. Qed.
Theorem frequency_fn_spec k l : List.length (frequency_fn k l) = List.length l /\
  forall i, i < List.length l ->
    (((nth i l 0) < k)%Qc -> nth i (frequency_fn k l) 0%Qc = 1%Qc) /\
    (~ ((nth i l 0) < k)%Qc -> nth i (frequency_fn k l) 0%Qc = 0%Qc).
Proof.
  unfold frequency_fn. split; [apply map_length|]. intros i Hi.
  rewrite (nth_map_lt _ 0%Qc 0%Qc l i Hi). split; intros H.
  - apply qlt_iff in H. rewrite H. reflexivity.
  - destruct (qlt (nth i l 0%Qc) k) eqn:E; [apply qlt_iff in E; contradiction|reflexivity].
Qed.

(* explicit per-sample weights of a row *)
Definition weights_of (w : rk_w) (i : nat) (xs : list Qc) : list Qc :=
  match w with WSc w => repeat w (List.length xs) | WTen ws => nth i ws [] end.
Lemma sum_scalar (w : Qc) : forall xs, (w * rk_sumQ xs = rk_sumQ (map2 Qcmult (repeat w (List.length xs)) xs))%Qc.
Proof.
  induction xs as [|x xs IH]; cbn [rk_sumQ fold_right List.length repeat map2]; [ring|].
  fold (rk_sumQ xs). fold (rk_sumQ (map2 Qcmult (repeat w (List.length xs)) xs)). rewrite <- IH. ring.
Qed.
Lemma zq_add a b : zq (a + b) = (zq a + zq b)%Qc.
Proof.
  unfold zq, mkq. apply Qc_is_canon. unfold Qcplus, Q2Qc. cbn [this]. rewrite !Qred_correct.
  unfold Qeq, Qplus. cbn. lia.
Qed.
Lemma sum_repeat (w : Qc) : forall n, (w * zq (Z.of_nat n) = rk_sumQ (repeat w n))%Qc.
Proof.
  induction n as [|n IH].
  - change (zq (Z.of_nat 0)) with 0%Qc. cbn [repeat rk_sumQ fold_right]. ring.
  - cbn [repeat rk_sumQ fold_right]. fold (rk_sumQ (repeat w n)). rewrite <- IH.
    rewrite Nat2Z.inj_succ, <- Z.add_1_l, zq_add. change (zq 1) with 1%Qc. ring.
Qed.
Theorem wdot_spec w i xs : wdot w i xs = rk_sumQ (map2 Qcmult (weights_of w i xs) xs).
Proof. destruct w as [w|ws]; cbn [wdot weights_of]; [apply sum_scalar|reflexivity]. Qed.
Theorem wtotal_spec w i xs : wtotal w i xs = rk_sumQ (weights_of w i xs).
Proof. destruct w as [w|ws]; cbn [wtotal weights_of]; [apply sum_repeat|reflexivity]. Qed.

(* ==========================================================================================
   6. witnesses: where the faithful class model falsifies "class = definition on all data seen"
   ========================================================================================== *)
Definition wit_cfg (a : action) : rcfg := Build_rcfg a (Some 1) false 1 false 1024.
Definition wit_d3 : list rbatch := [([900; 100]%Z, [1; 1]%Z, None)].
Definition wit_d4 : list rbatch := [([900; 100]%Z, [0; 1]%Z, None)].
Definition class_after (recall : bool) (c : rcfg) (bs : list rbatch) : rout :=
  cmp (retr_metric recall) c (fold_left (upd (retr_metric recall) c) bs (init (retr_metric recall) c)).
Definition valid_tie_free (c : rcfg) (bs : list rbatch) : Prop :=
  Forall (fun b => rvalid c b = true) bs /\ forall i, i < r_nq c -> tie_free (rdata c i bs).

Lemma wit_ok a bs : bs = wit_d3 \/ bs = wit_d4 -> valid_tie_free (wit_cfg a) bs.
Proof.
  intros [-> | ->]; (split; [repeat constructor|]); intros i Hi; cbn in Hi;
    (destruct i; [|lia]); unfold tie_free; cbn; repeat constructor; cbn; intuition discriminate.
Qed.
(* D3: k=1, scores [.9,.1], labels [1,1]: the class says 1, the definition 1/2 *)
Lemma recall_class_refuted :
  exists c bs, valid_tie_free c bs /\ r_k c <> Some 0 /\
    class_after true c bs = RVec [Fin 1%Qc] /\ rclass_spec true c bs = RVec [Fin (mkq 1 2)].
Proof.
  exists (wit_cfg ANeg), wit_d3. split; [apply wit_ok; left; reflexivity|]. split; [discriminate|].
  split; vm_compute; first [reflexivity | repeat f_equal; apply Qc_is_canon; reflexivity].
Qed.
(* D4: k=1, scores [.9,.1], labels [0,1], action "pos": the only relevant item was pruned; the
   class applies empty_target_action (1.0), the definition gives 0 *)
Lemma precision_pruned_pos_refuted :
  exists c bs, valid_tie_free c bs /\ r_k c <> Some 0 /\
    (exists i, i < r_nq c /\ has1 (rdata c i bs) = true) /\
    class_after false c bs = RVec [Fin 1%Qc] /\ rclass_spec false c bs = RVec [Fin 0%Qc].
Proof.
  exists (wit_cfg APos), wit_d4. split; [apply wit_ok; right; reflexivity|]. split; [discriminate|].
  split; [exists 0; split; [cbn; lia|reflexivity]|].
  split; vm_compute; first [reflexivity | repeat f_equal; apply Qc_is_canon; reflexivity].
Qed.
(* same input, action "err": compute() raises although a relevant item was seen *)
Lemma precision_pruned_err_refuted :
  class_after false (wit_cfg AErr) wit_d4 = RErr /\ rclass_spec false (wit_cfg AErr) wit_d4 = RVec [Fin 0%Qc].
Proof. split; vm_compute; first [reflexivity | repeat f_equal; apply Qc_is_canon; reflexivity]. Qed.
Lemma recall_pruned_pos_refuted :
  class_after true (wit_cfg APos) wit_d4 = RVec [Fin 1%Qc] /\ rclass_spec true (wit_cfg APos) wit_d4 = RVec [Fin 0%Qc].
Proof. split; vm_compute; first [reflexivity | repeat f_equal; apply Qc_is_canon; reflexivity]. Qed.

(* C01: merge_state concatenates WITHOUT re-pruning, and compute() looks at the un-pruned state:
   a merged pair differs from one instance that saw both batches *)
Definition wit_tree (recall : bool) (bs1 bs2 : list rbatch) : mtree (retr_metric recall) :=
  Merge (retr_metric recall) (Shard (retr_metric recall) bs1) [Shard (retr_metric recall) bs2] [].
Definition b1 (z y : Z) : rbatch := ([z], [y], None).
Lemma precision_merge_refuted :
  let t := wit_tree false [b1 900 0] [b1 100 1] in
  cmp (retr_metric false) (wit_cfg APos) (run (retr_metric false) (wit_cfg APos) t) = RVec [Fin 0%Qc] /\
  cmp (retr_metric false) (wit_cfg APos) (run (retr_metric false) (wit_cfg APos) (Shard (retr_metric false) (stream (retr_metric false) t))) = RVec [Fin 1%Qc].
Proof. split; vm_compute; first [reflexivity | repeat f_equal; apply Qc_is_canon; reflexivity]. Qed.
Lemma recall_merge_refuted :
  let t := wit_tree true [b1 900 1] [b1 100 1] in
  cmp (retr_metric true) (wit_cfg ANeg) (run (retr_metric true) (wit_cfg ANeg) t) = RVec [Fin (mkq 1 2)] /\
  cmp (retr_metric true) (wit_cfg ANeg) (run (retr_metric true) (wit_cfg ANeg) (Shard (retr_metric true) (stream (retr_metric true) t))) = RVec [Fin 1%Qc].
Proof. split; vm_compute; first [reflexivity | repeat f_equal; apply Qc_is_canon; reflexivity]. Qed.

Theorem rprec_class_eq c bs : r_k c <> Some 0 ->
  (forall i, i < r_nq c -> tie_free (rdata c i bs) /\
     (has1 (topk (r_k c) (rdata c i bs)) = true \/ has1 (rdata c i bs) = false)) ->
  class_after false c bs = rclass_spec false c bs.
Proof.
  intros Hk H. apply retr_class_eq_spec. intros i Hi. destruct (H i Hi) as [Ht Hc]. apply rquery_prec_eq; assumption.
Qed.
Theorem rrecall_class_eq c bs : r_k c <> Some 0 ->
  (forall i, i < r_nq c -> tie_free (rdata c i bs) /\
     sumlab (topk (r_k c) (rdata c i bs)) = sumlab (rdata c i bs) /\
     has1 (topk (r_k c) (rdata c i bs)) = has1 (rdata c i bs)) ->
  class_after true c bs = rclass_spec true c bs.
Proof.
  intros Hk H. apply retr_class_eq_spec. intros i Hi. destruct (H i Hi) as [Ht [Hs Hh]]. apply rquery_recall_eq; assumption.
Qed.

Lemma map2_mapi_from {X} (g : Qc -> Qc -> Qc) (f1 f2 : nat -> X -> Qc) : forall l i,
  map2 g (mapi_from i f1 l) (mapi_from i f2 l) = mapi_from i (fun j x => g (f1 j x) (f2 j x)) l.
Proof. induction l as [|x l IH]; intros i; cbn [mapi_from map2]; [reflexivity|]. rewrite IH. reflexivity. Qed.
(* click-through rate of one call: per task  sum_j w_j x_j / (sum_j w_j + tiny) *)
Theorem ctr_fn_spec nt b :
  ctr_fn nt b = mapi (fun i xs => (rk_sumQ (map2 Qcmult (weights_of (snd b) i xs) xs) /
                                   (rk_sumQ (weights_of (snd b) i xs) + tiny32))%Qc) (fst b).
Proof.
  unfold ctr_fn, mapi. rewrite map2_mapi_from. generalize 0 at 1 2. induction (fst b) as [|xs l IH]; intros i; [reflexivity|].
  cbn [mapi_from]. rewrite IH. unfold ctr_ratio. rewrite wdot_spec, wtotal_spec. reflexivity.
Qed.

(* WeightedCalibration.compute() (after fixes 7c618c5, ae13937): unless nothing at all was
   accumulated, each task reports its own IEEE quotient -- a zero-sum task no longer blanks the others *)
Definition wc_nothing (s : nd) : bool :=
  forallb (fun x => qeq x 0) (nlist (nget 1 s)) && forallb (fun x => qeq x 0) (nlist (nget 0 s)).
Lemma wc_gamma_value nt s : wc_nothing s = false ->
  wc_gamma nt s = map2 qdivx (nlist (nget 0 s)) (nlist (nget 1 s)).
Proof. unfold wc_nothing. intros H. unfold wc_gamma. rewrite H. reflexivity. Qed.
Lemma wc_gamma_nothing nt s : wc_nothing s = true -> wc_gamma nt s = [].
Proof. unfold wc_nothing. intros H. unfold wc_gamma. rewrite H. reflexivity. Qed.
