(* Lemmas about the ranking / retrieval models. *)
From Coq Require Import ZArith List Bool QArith Qcanon String Lia Sorted Permutation.
From TE Require Import Base.Val Base.Nd Base.Xq Algebra.Metric Algebra.MergeTree Algebra.Pool
  Algebra.Additive Algebra.Cache Models.Ranking.
Import ListNotations.
Open Scope list_scope.
Open Scope nat_scope.

(* ==========================================================================================
   1. the descending sort of (score, label) items and top-k retention
   ========================================================================================== *)
Definition ge2P (a b : item) : Prop := ge2 a b = true.
Definition sorted2 (l : list item) : Prop := StronglySorted ge2P l.

Lemma ge2_total a b : ge2 a b = false -> ge2 b a = true.
Proof.
  unfold ge2. destruct a as [a1 a2], b as [b1 b2]; cbn [fst snd]. intros H.
  apply orb_false_iff in H as [H1 H2]. apply Z.ltb_ge in H1.
  destruct (Z.ltb_spec a1 b1) as [|Hge]; [reflexivity|]. cbn [orb].
  assert (a1 = b1) by lia. subst. rewrite Z.eqb_refl in *. cbn [andb] in *. apply Z.leb_gt in H2. apply Z.leb_le. lia.
Qed.
Lemma ge2_trans a b c : ge2 a b = true -> ge2 b c = true -> ge2 a c = true.
Proof.
  unfold ge2. destruct a as [a1 a2], b as [b1 b2], c as [c1 c2]; cbn [fst snd]. intros H1 H2.
  apply orb_true_iff in H1 as [H1|H1]; apply orb_true_iff in H2 as [H2|H2];
    rewrite ?Z.ltb_lt, ?andb_true_iff, ?Z.eqb_eq, ?Z.leb_le in *; apply orb_true_iff;
    rewrite ?Z.ltb_lt, ?andb_true_iff, ?Z.eqb_eq, ?Z.leb_le; lia.
Qed.
Lemma ge2_antisym a b : ge2 a b = true -> ge2 b a = true -> a = b.
Proof.
  unfold ge2. destruct a as [a1 a2], b as [b1 b2]; cbn [fst snd]. intros H1 H2.
  apply orb_true_iff in H1 as [H1|H1]; apply orb_true_iff in H2 as [H2|H2];
    rewrite ?Z.ltb_lt, ?andb_true_iff, ?Z.eqb_eq, ?Z.leb_le in *; try lia.
  f_equal; lia.
Qed.

Lemma ins_cons x y r : ins x (y :: r) = if ge2 x y then x :: y :: r else y :: ins x r.
Proof. reflexivity. Qed.
Lemma sortd_cons x l : sortd (x :: l) = ins x (sortd l).
Proof. reflexivity. Qed.

Lemma ins_perm x : forall l, Permutation (ins x l) (x :: l).
Proof.
  induction l as [|y r IH]; [apply Permutation_refl|]. rewrite ins_cons.
  destruct (ge2 x y); [apply Permutation_refl|].
  eapply Permutation_trans; [apply perm_skip, IH|apply perm_swap].
Qed.
Lemma sortd_perm : forall l, Permutation (sortd l) l.
Proof.
  induction l as [|x l IH]; [apply Permutation_refl|]. rewrite sortd_cons.
  eapply Permutation_trans; [apply ins_perm|apply perm_skip, IH].
Qed.
Lemma ins_sorted x : forall l, sorted2 l -> sorted2 (ins x l).
Proof.
  induction l as [|y r IH]; intros Hs.
  - cbn. constructor; constructor.
  - rewrite ins_cons. inversion Hs as [|? ? Hr Hall]; subst. destruct (ge2 x y) eqn:E.
    + constructor; [exact Hs|]. constructor; [exact E|].
      rewrite Forall_forall in *. intros z Hz. eapply ge2_trans; [exact E|apply Hall, Hz].
    + constructor; [apply IH, Hr|]. rewrite Forall_forall in *. intros z Hz.
      apply (Permutation_in _ (ins_perm x r)) in Hz. destruct Hz as [<-|Hz]; [apply ge2_total, E|apply Hall, Hz].
Qed.
Lemma sortd_sorted : forall l, sorted2 (sortd l).
Proof. induction l as [|x l IH]; [constructor|]. rewrite sortd_cons. apply ins_sorted, IH. Qed.

Lemma sorted_perm_eq : forall s1 s2, sorted2 s1 -> sorted2 s2 -> Permutation s1 s2 -> s1 = s2.
Proof.
  induction s1 as [|a s1 IH]; intros s2 H1 H2 Hp.
  - apply Permutation_nil in Hp. subst. reflexivity.
  - destruct s2 as [|b s2]; [apply Permutation_sym, Permutation_nil in Hp; discriminate|].
    inversion H1 as [|? ? H1' A1]; inversion H2 as [|? ? H2' A2]; subst. rewrite Forall_forall in A1, A2.
    assert (a = b).
    { assert (Ha : In a (b :: s2)) by (eapply Permutation_in; [exact Hp|left; reflexivity]).
      assert (Hb : In b (a :: s1)) by (eapply Permutation_in; [apply Permutation_sym, Hp|left; reflexivity]).
      destruct Ha as [->|Ha]; [reflexivity|]. destruct Hb as [->|Hb]; [reflexivity|].
      apply ge2_antisym; [apply A1, Hb|apply A2, Ha]. }
    subst b. f_equal. apply IH; try assumption. eapply Permutation_cons_inv. exact Hp.
Qed.
Lemma sortd_perm_inv l l' : Permutation l l' -> sortd l = sortd l'.
Proof.
  intros Hp. apply sorted_perm_eq; try apply sortd_sorted.
  eapply Permutation_trans; [apply sortd_perm|]. eapply Permutation_trans; [exact Hp|apply Permutation_sym, sortd_perm].
Qed.
Lemma sortd_id s : sorted2 s -> sortd s = s.
Proof. intros Hs. apply sorted_perm_eq; [apply sortd_sorted|exact Hs|apply sortd_perm]. Qed.
(* the result of torch.topk/sort on tie-free (indeed on any) input is pinned down by "sorted
   permutation": every admissible sorted order equals the model's *)
Lemma sortd_unique l s : Permutation l s -> sorted2 s -> s = sortd l.
Proof. intros Hp Hs. rewrite <- (sortd_id s Hs). apply sortd_perm_inv, Permutation_sym, Hp. Qed.

Lemma in_firstn {A} : forall (l : list A) k x, In x (firstn k l) -> In x l.
Proof. intros l k x H. rewrite <- (firstn_skipn k l). apply in_or_app. left; exact H. Qed.
Lemma firstn_sorted : forall s k, sorted2 s -> sorted2 (firstn k s).
Proof.
  induction s as [|h t IH]; intros k Hs; [rewrite firstn_nil; constructor|].
  destruct k; [constructor|]. inversion Hs as [|? ? Hs' Hall]; subst. cbn [firstn]. constructor; [apply IH, Hs'|].
  rewrite Forall_forall in *. intros x Hx. apply Hall. eapply in_firstn. exact Hx.
Qed.

(* the first k outputs of an insertion only look at the first k of the list *)
Lemma firstn_ins x : forall s k, firstn k (ins x s) = firstn k (ins x (firstn k s)).
Proof.
  induction s as [|y r IH]; intros k.
  - rewrite firstn_nil. reflexivity.
  - destruct k as [|k]; [reflexivity|]. rewrite firstn_cons, !ins_cons. destruct (ge2 x y).
    + rewrite !firstn_cons. f_equal. destruct k as [|k]; [reflexivity|].
      rewrite !firstn_cons. f_equal. rewrite firstn_firstn. f_equal. lia.
    + rewrite !firstn_cons. f_equal. apply IH.
Qed.
Lemma firstn_fold_ins k : forall B s,
  firstn k (fold_right ins s B) = firstn k (fold_right ins (firstn k s) B).
Proof.
  induction B as [|b B IH]; intros s; cbn [fold_right].
  - rewrite firstn_firstn, Nat.min_id. reflexivity.
  - rewrite firstn_ins, IH, <- firstn_ins. reflexivity.
Qed.
Lemma sortd_app A B : sortd (A ++ B) = fold_right ins (sortd B) A.
Proof. unfold sortd. apply fold_right_app. Qed.

Lemma topk_sorted k l : sorted2 (topk k l).
Proof. destruct k as [k|]; cbn [topk]; [apply firstn_sorted|]; apply sortd_sorted. Qed.
Lemma topk_perm_inv k l l' : Permutation l l' -> topk k l = topk k l'.
Proof. intros Hp. destruct k; cbn [topk]; rewrite (sortd_perm_inv l l' Hp); reflexivity. Qed.

(* incremental top-k retention loses nothing the final top-k needs (design probe TopkRetention,
   here on (score,label) items and through insertion rather than merge) *)
Theorem topk_retention k A B : topk k (topk k A ++ B) = topk k (A ++ B).
Proof.
  destruct k as [k|]; cbn [topk].
  - rewrite (sortd_perm_inv (firstn k (sortd A) ++ B) (B ++ firstn k (sortd A))) by apply Permutation_app_comm.
    rewrite (sortd_perm_inv (A ++ B) (B ++ A)) by apply Permutation_app_comm.
    rewrite !sortd_app. rewrite (sortd_id (firstn k (sortd A))) by apply firstn_sorted, sortd_sorted.
    symmetry. apply firstn_fold_ins.
  - apply sortd_perm_inv. apply Permutation_app_tail, sortd_perm.
Qed.
Lemma topk_retention_r k A B : topk k (A ++ topk k B) = topk k (A ++ B).
Proof.
  rewrite (topk_perm_inv k (A ++ topk k B) (topk k B ++ A)) by apply Permutation_app_comm.
  rewrite topk_retention. apply topk_perm_inv, Permutation_app_comm.
Qed.
Lemma topk_idem k A : topk k (topk k A) = topk k A.
Proof. pose proof (topk_retention k A []) as H. rewrite !app_nil_r in H. exact H. Qed.
Lemma topk_nil k : topk k [] = [].
Proof. destruct k as [[|k]|]; reflexivity. Qed.
Lemma topk_fix k s : sorted2 s -> (match k with Some k => List.length s <= k | None => True end) -> topk k s = s.
Proof.
  intros Hs Hk. destruct k as [k|]; cbn [topk]; rewrite sortd_id by exact Hs; [|reflexivity].
  apply firstn_all2. exact Hk.
Qed.
Lemma topk_length_le k l : match k with Some k => List.length (topk (Some k) l) <= k | None => True end.
Proof. destruct k as [k|]; [|exact I]. cbn [topk]. rewrite firstn_length. lia. Qed.
