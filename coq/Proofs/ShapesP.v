(* C18: for every check function whose GENERATED term (Generated/ShapeChecks.v) is equivalent to the
   hand-written docstring contract (Models/Contracts.v): the equivalence, by the one generic tactic. *)
From Coq Require Import ZArith List Bool String Lia.
From TE Require Import Models.ShapeLang Generated.ShapeChecks Models.Contracts Proofs.ShapesTac.
Import ListNotations.
Open Scope string_scope.

Lemma beq_accuracy_param_check e : wf sig_accuracy_param_check e -> accepts chk_accuracy_param_check e = contractb_accuracy_param_check e.
Proof. intros H. unfold chk_accuracy_param_check, contractb_accuracy_param_check. shape_solve H. Qed.
Lemma check_iff_contract_accuracy_param_check : forall e, wf sig_accuracy_param_check e -> (accepts chk_accuracy_param_check e = true <-> contract_accuracy_param_check e).
Proof. intros e H. exact (iff_of_beq _ _ (beq_accuracy_param_check e H)). Qed.

Lemma beq_accuracy_update_input_check e : wf sig_accuracy_update_input_check e -> accepts chk_accuracy_update_input_check e = contractb_accuracy_update_input_check e.
Proof. intros H. unfold chk_accuracy_update_input_check, contractb_accuracy_update_input_check. shape_solve H. Qed.
Lemma check_iff_contract_accuracy_update_input_check : forall e, wf sig_accuracy_update_input_check e -> (accepts chk_accuracy_update_input_check e = true <-> contract_accuracy_update_input_check e).
Proof. intros e H. exact (iff_of_beq _ _ (beq_accuracy_update_input_check e H)). Qed.

Lemma beq_binary_accuracy_update_input_check e : wf sig_binary_accuracy_update_input_check e -> accepts chk_binary_accuracy_update_input_check e = contractb_binary_accuracy_update_input_check e.
Proof. intros H. unfold chk_binary_accuracy_update_input_check, contractb_binary_accuracy_update_input_check. shape_solve H. Qed.
Lemma check_iff_contract_binary_accuracy_update_input_check : forall e, wf sig_binary_accuracy_update_input_check e -> (accepts chk_binary_accuracy_update_input_check e = true <-> contract_binary_accuracy_update_input_check e).
Proof. intros e H. exact (iff_of_beq _ _ (beq_binary_accuracy_update_input_check e H)). Qed.

Lemma beq_binary_binned_auprc_param_check e : wf sig_binary_binned_auprc_param_check e -> accepts chk_binary_binned_auprc_param_check e = contractb_binary_binned_auprc_param_check e.
Proof. intros H. unfold chk_binary_binned_auprc_param_check, contractb_binary_binned_auprc_param_check. shape_solve H. Qed.
Lemma check_iff_contract_binary_binned_auprc_param_check : forall e, wf sig_binary_binned_auprc_param_check e -> (accepts chk_binary_binned_auprc_param_check e = true <-> contract_binary_binned_auprc_param_check e).
Proof. intros e H. exact (iff_of_beq _ _ (beq_binary_binned_auprc_param_check e H)). Qed.

Lemma beq_binary_confusion_matrix_update_input_check e : wf sig_binary_confusion_matrix_update_input_check e -> accepts chk_binary_confusion_matrix_update_input_check e = contractb_binary_confusion_matrix_update_input_check e.
Proof. intros H. unfold chk_binary_confusion_matrix_update_input_check, contractb_binary_confusion_matrix_update_input_check. shape_solve H. Qed.
Lemma check_iff_contract_binary_confusion_matrix_update_input_check : forall e, wf sig_binary_confusion_matrix_update_input_check e -> (accepts chk_binary_confusion_matrix_update_input_check e = true <-> contract_binary_confusion_matrix_update_input_check e).
Proof. intros e H. exact (iff_of_beq _ _ (beq_binary_confusion_matrix_update_input_check e H)). Qed.

Lemma beq_binary_f1_score_update_input_check e : wf sig_binary_f1_score_update_input_check e -> accepts chk_binary_f1_score_update_input_check e = contractb_binary_f1_score_update_input_check e.
Proof. intros H. unfold chk_binary_f1_score_update_input_check, contractb_binary_f1_score_update_input_check. shape_solve H. Qed.
Lemma check_iff_contract_binary_f1_score_update_input_check : forall e, wf sig_binary_f1_score_update_input_check e -> (accepts chk_binary_f1_score_update_input_check e = true <-> contract_binary_f1_score_update_input_check e).
Proof. intros e H. exact (iff_of_beq _ _ (beq_binary_f1_score_update_input_check e H)). Qed.

Lemma beq_binary_precision_recall_curve_update_input_check e : wf sig_binary_precision_recall_curve_update_input_check e -> accepts chk_binary_precision_recall_curve_update_input_check e = contractb_binary_precision_recall_curve_update_input_check e.
Proof. intros H. unfold chk_binary_precision_recall_curve_update_input_check, contractb_binary_precision_recall_curve_update_input_check. shape_solve H. Qed.
Lemma check_iff_contract_binary_precision_recall_curve_update_input_check : forall e, wf sig_binary_precision_recall_curve_update_input_check e -> (accepts chk_binary_precision_recall_curve_update_input_check e = true <-> contract_binary_precision_recall_curve_update_input_check e).
Proof. intros e H. exact (iff_of_beq _ _ (beq_binary_precision_recall_curve_update_input_check e H)). Qed.

Lemma beq_binary_precision_update_input_check e : wf sig_binary_precision_update_input_check e -> accepts chk_binary_precision_update_input_check e = contractb_binary_precision_update_input_check e.
Proof. intros H. unfold chk_binary_precision_update_input_check, contractb_binary_precision_update_input_check. shape_solve H. Qed.
Lemma check_iff_contract_binary_precision_update_input_check : forall e, wf sig_binary_precision_update_input_check e -> (accepts chk_binary_precision_update_input_check e = true <-> contract_binary_precision_update_input_check e).
Proof. intros e H. exact (iff_of_beq _ _ (beq_binary_precision_update_input_check e H)). Qed.

Lemma beq_binary_recall_at_fixed_precision_update_input_check e : wf sig_binary_recall_at_fixed_precision_update_input_check e -> accepts chk_binary_recall_at_fixed_precision_update_input_check e = contractb_binary_recall_at_fixed_precision_update_input_check e.
Proof. intros H. unfold chk_binary_recall_at_fixed_precision_update_input_check, contractb_binary_recall_at_fixed_precision_update_input_check. shape_solve H. Qed.
Lemma check_iff_contract_binary_recall_at_fixed_precision_update_input_check : forall e, wf sig_binary_recall_at_fixed_precision_update_input_check e -> (accepts chk_binary_recall_at_fixed_precision_update_input_check e = true <-> contract_binary_recall_at_fixed_precision_update_input_check e).
Proof. intros e H. exact (iff_of_beq _ _ (beq_binary_recall_at_fixed_precision_update_input_check e H)). Qed.

Lemma beq_binary_recall_update_input_check e : wf sig_binary_recall_update_input_check e -> accepts chk_binary_recall_update_input_check e = contractb_binary_recall_update_input_check e.
Proof. intros H. unfold chk_binary_recall_update_input_check, contractb_binary_recall_update_input_check. shape_solve H. Qed.
Lemma check_iff_contract_binary_recall_update_input_check : forall e, wf sig_binary_recall_update_input_check e -> (accepts chk_binary_recall_update_input_check e = true <-> contract_binary_recall_update_input_check e).
Proof. intros e H. exact (iff_of_beq _ _ (beq_binary_recall_update_input_check e H)). Qed.

Lemma beq_click_through_rate_input_check e : wf sig_click_through_rate_input_check e -> accepts chk_click_through_rate_input_check e = contractb_click_through_rate_input_check e.
Proof. intros H. unfold chk_click_through_rate_input_check, contractb_click_through_rate_input_check. shape_solve H. Qed.
Lemma check_iff_contract_click_through_rate_input_check : forall e, wf sig_click_through_rate_input_check e -> (accepts chk_click_through_rate_input_check e = true <-> contract_click_through_rate_input_check e).
Proof. intros e H. exact (iff_of_beq _ _ (beq_click_through_rate_input_check e H)). Qed.

Lemma beq_confusion_matrix_param_check e : wf sig_confusion_matrix_param_check e -> accepts chk_confusion_matrix_param_check e = contractb_confusion_matrix_param_check e.
Proof. intros H. unfold chk_confusion_matrix_param_check, contractb_confusion_matrix_param_check. shape_solve H. Qed.
Lemma check_iff_contract_confusion_matrix_param_check : forall e, wf sig_confusion_matrix_param_check e -> (accepts chk_confusion_matrix_param_check e = true <-> contract_confusion_matrix_param_check e).
Proof. intros e H. exact (iff_of_beq _ _ (beq_confusion_matrix_param_check e H)). Qed.

Lemma beq_f1_score_param_check e : wf sig_f1_score_param_check e -> accepts chk_f1_score_param_check e = contractb_f1_score_param_check e.
Proof. intros H. unfold chk_f1_score_param_check, contractb_f1_score_param_check. shape_solve H. Qed.
Lemma check_iff_contract_f1_score_param_check : forall e, wf sig_f1_score_param_check e -> (accepts chk_f1_score_param_check e = true <-> contract_f1_score_param_check e).
Proof. intros e H. exact (iff_of_beq _ _ (beq_f1_score_param_check e H)). Qed.

Lemma beq_f1_score_update_input_check e : wf sig_f1_score_update_input_check e -> accepts chk_f1_score_update_input_check e = contractb_f1_score_update_input_check e.
Proof. intros H. unfold chk_f1_score_update_input_check, contractb_f1_score_update_input_check. shape_solve H. Qed.
Lemma check_iff_contract_f1_score_update_input_check : forall e, wf sig_f1_score_update_input_check e -> (accepts chk_f1_score_update_input_check e = true <-> contract_f1_score_update_input_check e).
Proof. intros e H. exact (iff_of_beq _ _ (beq_f1_score_update_input_check e H)). Qed.

Lemma beq_frequency_input_check e : wf sig_frequency_input_check e -> accepts chk_frequency_input_check e = contractb_frequency_input_check e.
Proof. intros H. unfold chk_frequency_input_check, contractb_frequency_input_check. shape_solve H. Qed.
Lemma check_iff_contract_frequency_input_check : forall e, wf sig_frequency_input_check e -> (accepts chk_frequency_input_check e = true <-> contract_frequency_input_check e).
Proof. intros e H. exact (iff_of_beq _ _ (beq_frequency_input_check e H)). Qed.

Lemma beq_hit_rate_input_check e : wf sig_hit_rate_input_check e -> accepts chk_hit_rate_input_check e = contractb_hit_rate_input_check e.
Proof. intros H. unfold chk_hit_rate_input_check, contractb_hit_rate_input_check. shape_solve H. Qed.
Lemma check_iff_contract_hit_rate_input_check : forall e, wf sig_hit_rate_input_check e -> (accepts chk_hit_rate_input_check e = true <-> contract_hit_rate_input_check e).
Proof. intros e H. exact (iff_of_beq _ _ (beq_hit_rate_input_check e H)). Qed.

Lemma beq_mean_squared_error_param_check e : wf sig_mean_squared_error_param_check e -> accepts chk_mean_squared_error_param_check e = contractb_mean_squared_error_param_check e.
Proof. intros H. unfold chk_mean_squared_error_param_check, contractb_mean_squared_error_param_check. shape_solve H. Qed.
Lemma check_iff_contract_mean_squared_error_param_check : forall e, wf sig_mean_squared_error_param_check e -> (accepts chk_mean_squared_error_param_check e = true <-> contract_mean_squared_error_param_check e).
Proof. intros e H. exact (iff_of_beq _ _ (beq_mean_squared_error_param_check e H)). Qed.

Lemma beq_multiclass_auprc_param_check e : wf sig_multiclass_auprc_param_check e -> accepts chk_multiclass_auprc_param_check e = contractb_multiclass_auprc_param_check e.
Proof. intros H. unfold chk_multiclass_auprc_param_check, contractb_multiclass_auprc_param_check. shape_solve H. Qed.
Lemma check_iff_contract_multiclass_auprc_param_check : forall e, wf sig_multiclass_auprc_param_check e -> (accepts chk_multiclass_auprc_param_check e = true <-> contract_multiclass_auprc_param_check e).
Proof. intros e H. exact (iff_of_beq _ _ (beq_multiclass_auprc_param_check e H)). Qed.

Lemma beq_multiclass_auprc_update_input_check e : wf sig_multiclass_auprc_update_input_check e -> accepts chk_multiclass_auprc_update_input_check e = contractb_multiclass_auprc_update_input_check e.
Proof. intros H. unfold chk_multiclass_auprc_update_input_check, contractb_multiclass_auprc_update_input_check. shape_solve H. Qed.
Lemma check_iff_contract_multiclass_auprc_update_input_check : forall e, wf sig_multiclass_auprc_update_input_check e -> (accepts chk_multiclass_auprc_update_input_check e = true <-> contract_multiclass_auprc_update_input_check e).
Proof. intros e H. exact (iff_of_beq _ _ (beq_multiclass_auprc_update_input_check e H)). Qed.

Lemma beq_multiclass_auroc_param_check e : wf sig_multiclass_auroc_param_check e -> accepts chk_multiclass_auroc_param_check e = contractb_multiclass_auroc_param_check e.
Proof. intros H. unfold chk_multiclass_auroc_param_check, contractb_multiclass_auroc_param_check. shape_solve H. Qed.
Lemma check_iff_contract_multiclass_auroc_param_check : forall e, wf sig_multiclass_auroc_param_check e -> (accepts chk_multiclass_auroc_param_check e = true <-> contract_multiclass_auroc_param_check e).
Proof. intros e H. exact (iff_of_beq _ _ (beq_multiclass_auroc_param_check e H)). Qed.

Lemma beq_multiclass_auroc_update_input_check e : wf sig_multiclass_auroc_update_input_check e -> accepts chk_multiclass_auroc_update_input_check e = contractb_multiclass_auroc_update_input_check e.
Proof. intros H. unfold chk_multiclass_auroc_update_input_check, contractb_multiclass_auroc_update_input_check. shape_solve H. Qed.
Lemma check_iff_contract_multiclass_auroc_update_input_check : forall e, wf sig_multiclass_auroc_update_input_check e -> (accepts chk_multiclass_auroc_update_input_check e = true <-> contract_multiclass_auroc_update_input_check e).
Proof. intros e H. exact (iff_of_beq _ _ (beq_multiclass_auroc_update_input_check e H)). Qed.

Lemma beq_multiclass_binned_auprc_param_check e : wf sig_multiclass_binned_auprc_param_check e -> accepts chk_multiclass_binned_auprc_param_check e = contractb_multiclass_binned_auprc_param_check e.
Proof. intros H. unfold chk_multiclass_binned_auprc_param_check, contractb_multiclass_binned_auprc_param_check. shape_solve H. Qed.
Lemma check_iff_contract_multiclass_binned_auprc_param_check : forall e, wf sig_multiclass_binned_auprc_param_check e -> (accepts chk_multiclass_binned_auprc_param_check e = true <-> contract_multiclass_binned_auprc_param_check e).
Proof. intros e H. exact (iff_of_beq _ _ (beq_multiclass_binned_auprc_param_check e H)). Qed.

Lemma beq_multiclass_binned_auprc_update_input_check e : wf sig_multiclass_binned_auprc_update_input_check e -> accepts chk_multiclass_binned_auprc_update_input_check e = contractb_multiclass_binned_auprc_update_input_check e.
Proof. intros H. unfold chk_multiclass_binned_auprc_update_input_check, contractb_multiclass_binned_auprc_update_input_check. shape_solve H. Qed.
Lemma check_iff_contract_multiclass_binned_auprc_update_input_check : forall e, wf sig_multiclass_binned_auprc_update_input_check e -> (accepts chk_multiclass_binned_auprc_update_input_check e = true <-> contract_multiclass_binned_auprc_update_input_check e).
Proof. intros e H. exact (iff_of_beq _ _ (beq_multiclass_binned_auprc_update_input_check e H)). Qed.

Lemma beq_multiclass_binned_auroc_update_input_check e : wf sig_multiclass_binned_auroc_update_input_check e -> accepts chk_multiclass_binned_auroc_update_input_check e = contractb_multiclass_binned_auroc_update_input_check e.
Proof. intros H. unfold chk_multiclass_binned_auroc_update_input_check, contractb_multiclass_binned_auroc_update_input_check. shape_solve H. Qed.
Lemma check_iff_contract_multiclass_binned_auroc_update_input_check : forall e, wf sig_multiclass_binned_auroc_update_input_check e -> (accepts chk_multiclass_binned_auroc_update_input_check e = true <-> contract_multiclass_binned_auroc_update_input_check e).
Proof. intros e H. exact (iff_of_beq _ _ (beq_multiclass_binned_auroc_update_input_check e H)). Qed.

Lemma beq_multiclass_precision_recall_curve_update_input_check e : wf sig_multiclass_precision_recall_curve_update_input_check e -> accepts chk_multiclass_precision_recall_curve_update_input_check e = contractb_multiclass_precision_recall_curve_update_input_check e.
Proof. intros H. unfold chk_multiclass_precision_recall_curve_update_input_check, contractb_multiclass_precision_recall_curve_update_input_check. shape_solve H. Qed.
Lemma check_iff_contract_multiclass_precision_recall_curve_update_input_check : forall e, wf sig_multiclass_precision_recall_curve_update_input_check e -> (accepts chk_multiclass_precision_recall_curve_update_input_check e = true <-> contract_multiclass_precision_recall_curve_update_input_check e).
Proof. intros e H. exact (iff_of_beq _ _ (beq_multiclass_precision_recall_curve_update_input_check e H)). Qed.

Lemma beq_multilabel_accuracy_param_check e : wf sig_multilabel_accuracy_param_check e -> accepts chk_multilabel_accuracy_param_check e = contractb_multilabel_accuracy_param_check e.
Proof. intros H. unfold chk_multilabel_accuracy_param_check, contractb_multilabel_accuracy_param_check. shape_solve H. Qed.
Lemma check_iff_contract_multilabel_accuracy_param_check : forall e, wf sig_multilabel_accuracy_param_check e -> (accepts chk_multilabel_accuracy_param_check e = true <-> contract_multilabel_accuracy_param_check e).
Proof. intros e H. exact (iff_of_beq _ _ (beq_multilabel_accuracy_param_check e H)). Qed.

Lemma beq_multilabel_auprc_param_check e : wf sig_multilabel_auprc_param_check e -> accepts chk_multilabel_auprc_param_check e = contractb_multilabel_auprc_param_check e.
Proof. intros H. unfold chk_multilabel_auprc_param_check, contractb_multilabel_auprc_param_check. shape_solve H. Qed.
Lemma check_iff_contract_multilabel_auprc_param_check : forall e, wf sig_multilabel_auprc_param_check e -> (accepts chk_multilabel_auprc_param_check e = true <-> contract_multilabel_auprc_param_check e).
Proof. intros e H. exact (iff_of_beq _ _ (beq_multilabel_auprc_param_check e H)). Qed.

Lemma beq_multilabel_auprc_update_input_check e : wf sig_multilabel_auprc_update_input_check e -> accepts chk_multilabel_auprc_update_input_check e = contractb_multilabel_auprc_update_input_check e.
Proof. intros H. unfold chk_multilabel_auprc_update_input_check, contractb_multilabel_auprc_update_input_check. shape_solve H. Qed.
Lemma check_iff_contract_multilabel_auprc_update_input_check : forall e, wf sig_multilabel_auprc_update_input_check e -> (accepts chk_multilabel_auprc_update_input_check e = true <-> contract_multilabel_auprc_update_input_check e).
Proof. intros e H. exact (iff_of_beq _ _ (beq_multilabel_auprc_update_input_check e H)). Qed.

Lemma beq_multilabel_binned_auprc_param_check e : wf sig_multilabel_binned_auprc_param_check e -> accepts chk_multilabel_binned_auprc_param_check e = contractb_multilabel_binned_auprc_param_check e.
Proof. intros H. unfold chk_multilabel_binned_auprc_param_check, contractb_multilabel_binned_auprc_param_check. shape_solve H. Qed.
Lemma check_iff_contract_multilabel_binned_auprc_param_check : forall e, wf sig_multilabel_binned_auprc_param_check e -> (accepts chk_multilabel_binned_auprc_param_check e = true <-> contract_multilabel_binned_auprc_param_check e).
Proof. intros e H. exact (iff_of_beq _ _ (beq_multilabel_binned_auprc_param_check e H)). Qed.

Lemma beq_multilabel_binned_auprc_update_input_check e : wf sig_multilabel_binned_auprc_update_input_check e -> accepts chk_multilabel_binned_auprc_update_input_check e = contractb_multilabel_binned_auprc_update_input_check e.
Proof. intros H. unfold chk_multilabel_binned_auprc_update_input_check, contractb_multilabel_binned_auprc_update_input_check. shape_solve H. Qed.
Lemma check_iff_contract_multilabel_binned_auprc_update_input_check : forall e, wf sig_multilabel_binned_auprc_update_input_check e -> (accepts chk_multilabel_binned_auprc_update_input_check e = true <-> contract_multilabel_binned_auprc_update_input_check e).
Proof. intros e H. exact (iff_of_beq _ _ (beq_multilabel_binned_auprc_update_input_check e H)). Qed.

Lemma beq_multilabel_precision_recall_curve_update_input_check e : wf sig_multilabel_precision_recall_curve_update_input_check e -> accepts chk_multilabel_precision_recall_curve_update_input_check e = contractb_multilabel_precision_recall_curve_update_input_check e.
Proof. intros H. unfold chk_multilabel_precision_recall_curve_update_input_check, contractb_multilabel_precision_recall_curve_update_input_check. shape_solve H. Qed.
Lemma check_iff_contract_multilabel_precision_recall_curve_update_input_check : forall e, wf sig_multilabel_precision_recall_curve_update_input_check e -> (accepts chk_multilabel_precision_recall_curve_update_input_check e = true <-> contract_multilabel_precision_recall_curve_update_input_check e).
Proof. intros e H. exact (iff_of_beq _ _ (beq_multilabel_precision_recall_curve_update_input_check e H)). Qed.

Lemma beq_multilabel_recall_at_fixed_precision_update_input_check e : wf sig_multilabel_recall_at_fixed_precision_update_input_check e -> accepts chk_multilabel_recall_at_fixed_precision_update_input_check e = contractb_multilabel_recall_at_fixed_precision_update_input_check e.
Proof. intros H. unfold chk_multilabel_recall_at_fixed_precision_update_input_check, contractb_multilabel_recall_at_fixed_precision_update_input_check. shape_solve H. Qed.
Lemma check_iff_contract_multilabel_recall_at_fixed_precision_update_input_check : forall e, wf sig_multilabel_recall_at_fixed_precision_update_input_check e -> (accepts chk_multilabel_recall_at_fixed_precision_update_input_check e = true <-> contract_multilabel_recall_at_fixed_precision_update_input_check e).
Proof. intros e H. exact (iff_of_beq _ _ (beq_multilabel_recall_at_fixed_precision_update_input_check e H)). Qed.

Lemma beq_num_collisions_input_check e : wf sig_num_collisions_input_check e -> accepts chk_num_collisions_input_check e = contractb_num_collisions_input_check e.
Proof. intros H. unfold chk_num_collisions_input_check, contractb_num_collisions_input_check. shape_solve H. Qed.
Lemma check_iff_contract_num_collisions_input_check : forall e, wf sig_num_collisions_input_check e -> (accepts chk_num_collisions_input_check e = true <-> contract_num_collisions_input_check e).
Proof. intros e H. exact (iff_of_beq _ _ (beq_num_collisions_input_check e H)). Qed.

Lemma beq_optimization_param_check e : wf sig_optimization_param_check e -> accepts chk_optimization_param_check e = contractb_optimization_param_check e.
Proof. intros H. unfold chk_optimization_param_check, contractb_optimization_param_check. shape_solve H. Qed.
Lemma check_iff_contract_optimization_param_check : forall e, wf sig_optimization_param_check e -> (accepts chk_optimization_param_check e = true <-> contract_optimization_param_check e).
Proof. intros e H. exact (iff_of_beq _ _ (beq_optimization_param_check e H)). Qed.

Lemma beq_perplexity_input_check e : wf sig_perplexity_input_check e -> accepts chk_perplexity_input_check e = contractb_perplexity_input_check e.
Proof. intros H. unfold chk_perplexity_input_check, contractb_perplexity_input_check. shape_solve H. Qed.
Lemma check_iff_contract_perplexity_input_check : forall e, wf sig_perplexity_input_check e -> (accepts chk_perplexity_input_check e = true <-> contract_perplexity_input_check e).
Proof. intros e H. exact (iff_of_beq _ _ (beq_perplexity_input_check e H)). Qed.

Lemma beq_precision_param_check e : wf sig_precision_param_check e -> accepts chk_precision_param_check e = contractb_precision_param_check e.
Proof. intros H. unfold chk_precision_param_check, contractb_precision_param_check. shape_solve H. Qed.
Lemma check_iff_contract_precision_param_check : forall e, wf sig_precision_param_check e -> (accepts chk_precision_param_check e = true <-> contract_precision_param_check e).
Proof. intros e H. exact (iff_of_beq _ _ (beq_precision_param_check e H)). Qed.

Lemma beq_precision_update_input_check e : wf sig_precision_update_input_check e -> accepts chk_precision_update_input_check e = contractb_precision_update_input_check e.
Proof. intros H. unfold chk_precision_update_input_check, contractb_precision_update_input_check. shape_solve H. Qed.
Lemma check_iff_contract_precision_update_input_check : forall e, wf sig_precision_update_input_check e -> (accepts chk_precision_update_input_check e = true <-> contract_precision_update_input_check e).
Proof. intros e H. exact (iff_of_beq _ _ (beq_precision_update_input_check e H)). Qed.

Lemma beq_psnr_input_check e : wf sig_psnr_input_check e -> accepts chk_psnr_input_check e = contractb_psnr_input_check e.
Proof. intros H. unfold chk_psnr_input_check, contractb_psnr_input_check. shape_solve H. Qed.
Lemma check_iff_contract_psnr_input_check : forall e, wf sig_psnr_input_check e -> (accepts chk_psnr_input_check e = true <-> contract_psnr_input_check e).
Proof. intros e H. exact (iff_of_beq _ _ (beq_psnr_input_check e H)). Qed.

Lemma beq_psnr_param_check e : wf sig_psnr_param_check e -> accepts chk_psnr_param_check e = contractb_psnr_param_check e.
Proof. intros H. unfold chk_psnr_param_check, contractb_psnr_param_check. shape_solve H. Qed.
Lemma check_iff_contract_psnr_param_check : forall e, wf sig_psnr_param_check e -> (accepts chk_psnr_param_check e = true <-> contract_psnr_param_check e).
Proof. intros e H. exact (iff_of_beq _ _ (beq_psnr_param_check e H)). Qed.

Lemma beq_r2_score_param_check e : wf sig_r2_score_param_check e -> accepts chk_r2_score_param_check e = contractb_r2_score_param_check e.
Proof. intros H. unfold chk_r2_score_param_check, contractb_r2_score_param_check. shape_solve H. Qed.
Lemma check_iff_contract_r2_score_param_check : forall e, wf sig_r2_score_param_check e -> (accepts chk_r2_score_param_check e = true <-> contract_r2_score_param_check e).
Proof. intros e H. exact (iff_of_beq _ _ (beq_r2_score_param_check e H)). Qed.

Lemma beq_recall_param_check e : wf sig_recall_param_check e -> accepts chk_recall_param_check e = contractb_recall_param_check e.
Proof. intros H. unfold chk_recall_param_check, contractb_recall_param_check. shape_solve H. Qed.
Lemma check_iff_contract_recall_param_check : forall e, wf sig_recall_param_check e -> (accepts chk_recall_param_check e = true <-> contract_recall_param_check e).
Proof. intros e H. exact (iff_of_beq _ _ (beq_recall_param_check e H)). Qed.

Lemma beq_recall_update_input_check e : wf sig_recall_update_input_check e -> accepts chk_recall_update_input_check e = contractb_recall_update_input_check e.
Proof. intros H. unfold chk_recall_update_input_check, contractb_recall_update_input_check. shape_solve H. Qed.
Lemma check_iff_contract_recall_update_input_check : forall e, wf sig_recall_update_input_check e -> (accepts chk_recall_update_input_check e = true <-> contract_recall_update_input_check e).
Proof. intros e H. exact (iff_of_beq _ _ (beq_recall_update_input_check e H)). Qed.

Lemma beq_reciprocal_rank_input_check e : wf sig_reciprocal_rank_input_check e -> accepts chk_reciprocal_rank_input_check e = contractb_reciprocal_rank_input_check e.
Proof. intros H. unfold chk_reciprocal_rank_input_check, contractb_reciprocal_rank_input_check. shape_solve H. Qed.
Lemma check_iff_contract_reciprocal_rank_input_check : forall e, wf sig_reciprocal_rank_input_check e -> (accepts chk_reciprocal_rank_input_check e = true <-> contract_reciprocal_rank_input_check e).
Proof. intros e H. exact (iff_of_beq _ _ (beq_reciprocal_rank_input_check e H)). Qed.

Lemma beq_retrieval_precision_param_check e : wf sig_retrieval_precision_param_check e -> accepts chk_retrieval_precision_param_check e = contractb_retrieval_precision_param_check e.
Proof. intros H. unfold chk_retrieval_precision_param_check, contractb_retrieval_precision_param_check. shape_solve H. Qed.
Lemma check_iff_contract_retrieval_precision_param_check : forall e, wf sig_retrieval_precision_param_check e -> (accepts chk_retrieval_precision_param_check e = true <-> contract_retrieval_precision_param_check e).
Proof. intros e H. exact (iff_of_beq _ _ (beq_retrieval_precision_param_check e H)). Qed.

Lemma beq_retrieval_precision_update_input_check e : wf sig_retrieval_precision_update_input_check e -> accepts chk_retrieval_precision_update_input_check e = contractb_retrieval_precision_update_input_check e.
Proof. intros H. unfold chk_retrieval_precision_update_input_check, contractb_retrieval_precision_update_input_check. shape_solve H. Qed.
Lemma check_iff_contract_retrieval_precision_update_input_check : forall e, wf sig_retrieval_precision_update_input_check e -> (accepts chk_retrieval_precision_update_input_check e = true <-> contract_retrieval_precision_update_input_check e).
Proof. intros e H. exact (iff_of_beq _ _ (beq_retrieval_precision_update_input_check e H)). Qed.

Lemma beq_retrieval_recall_param_check e : wf sig_retrieval_recall_param_check e -> accepts chk_retrieval_recall_param_check e = contractb_retrieval_recall_param_check e.
Proof. intros H. unfold chk_retrieval_recall_param_check, contractb_retrieval_recall_param_check. shape_solve H. Qed.
Lemma check_iff_contract_retrieval_recall_param_check : forall e, wf sig_retrieval_recall_param_check e -> (accepts chk_retrieval_recall_param_check e = true <-> contract_retrieval_recall_param_check e).
Proof. intros e H. exact (iff_of_beq _ _ (beq_retrieval_recall_param_check e H)). Qed.

Lemma beq_retrieval_recall_update_input_check e : wf sig_retrieval_recall_update_input_check e -> accepts chk_retrieval_recall_update_input_check e = contractb_retrieval_recall_update_input_check e.
Proof. intros H. unfold chk_retrieval_recall_update_input_check, contractb_retrieval_recall_update_input_check. shape_solve H. Qed.
Lemma check_iff_contract_retrieval_recall_update_input_check : forall e, wf sig_retrieval_recall_update_input_check e -> (accepts chk_retrieval_recall_update_input_check e = true <-> contract_retrieval_recall_update_input_check e).
Proof. intros e H. exact (iff_of_beq _ _ (beq_retrieval_recall_update_input_check e H)). Qed.

Lemma beq_topk_multilabel_accuracy_update_input_check e : wf sig_topk_multilabel_accuracy_update_input_check e -> accepts chk_topk_multilabel_accuracy_update_input_check e = contractb_topk_multilabel_accuracy_update_input_check e.
Proof. intros H. unfold chk_topk_multilabel_accuracy_update_input_check, contractb_topk_multilabel_accuracy_update_input_check. shape_solve H. Qed.
Lemma check_iff_contract_topk_multilabel_accuracy_update_input_check : forall e, wf sig_topk_multilabel_accuracy_update_input_check e -> (accepts chk_topk_multilabel_accuracy_update_input_check e = true <-> contract_topk_multilabel_accuracy_update_input_check e).
Proof. intros e H. exact (iff_of_beq _ _ (beq_topk_multilabel_accuracy_update_input_check e H)). Qed.

Lemma beq_word_error_rate_input_check e : wf sig_word_error_rate_input_check e -> accepts chk_word_error_rate_input_check e = contractb_word_error_rate_input_check e.
Proof. intros H. unfold chk_word_error_rate_input_check, contractb_word_error_rate_input_check. shape_solve H. Qed.
Lemma check_iff_contract_word_error_rate_input_check : forall e, wf sig_word_error_rate_input_check e -> (accepts chk_word_error_rate_input_check e = true <-> contract_word_error_rate_input_check e).
Proof. intros e H. exact (iff_of_beq _ _ (beq_word_error_rate_input_check e H)). Qed.

Lemma beq_word_information_preserved_input_check e : wf sig_word_information_preserved_input_check e -> accepts chk_word_information_preserved_input_check e = contractb_word_information_preserved_input_check e.
Proof. intros H. unfold chk_word_information_preserved_input_check, contractb_word_information_preserved_input_check. shape_solve H. Qed.
Lemma check_iff_contract_word_information_preserved_input_check : forall e, wf sig_word_information_preserved_input_check e -> (accepts chk_word_information_preserved_input_check e = true <-> contract_word_information_preserved_input_check e).
Proof. intros e H. exact (iff_of_beq _ _ (beq_word_information_preserved_input_check e H)). Qed.

