(* Generic corollaries of the merge-tree theorem used by C03 / C12, and their instances for the
   additive family with list-like batches. *)
From Coq Require Import List Permutation Bool.
From TE Require Import Base.Val Base.Nd Algebra.Metric Algebra.MergeTree Algebra.Additive.
Import ListNotations.

Section ClassFn.
Variable M : Metric.
Variable L : Alg M.
Variable c : cfg M.
Variable bcat : batch M -> batch M -> batch M.
Variable bnil : batch M.
Hypothesis beta_cat : forall b1 b2, valid M c b1 = true -> valid M c b2 = true ->
  beta L c (bcat b1 b2) = op L (beta L c b1) (beta L c b2).
Hypothesis valid_cat : forall b1 b2, valid M c b1 = true -> valid M c b2 = true -> valid M c (bcat b1 b2) = true.
Hypothesis beta_nil : beta L c bnil = e L c.
Hypothesis valid_nil : valid M c bnil = true.

(* class form on any batching = "functional form" gamma (beta _) on the concatenation *)
Lemma class_eq_functional_gen : forall bs, Forall (fun b => valid M c b = true) bs ->
  cmp M c (fold_left (upd M c) bs (init M c)) = gamma L c (beta L c (bconcat M bcat bnil bs)).
Proof.
  intros bs Hv.
  change (fold_left (upd M c) bs (init M c)) with (run M c (Shard M bs)).
  rewrite (merge_tree_compute M L c (Shard M bs)) by exact Hv.
  cbn [stream]. rewrite (beta_bconcat M L c bcat bnil beta_cat valid_cat beta_nil valid_nil bs Hv).
  reflexivity.
Qed.

(* any two batchings of the same concatenation agree *)
Lemma batching_invariant_gen : forall bs bs',
  Forall (fun b => valid M c b = true) bs -> Forall (fun b => valid M c b = true) bs' ->
  beta L c (bconcat M bcat bnil bs) = beta L c (bconcat M bcat bnil bs') ->
  cmp M c (fold_left (upd M c) bs (init M c)) = cmp M c (fold_left (upd M c) bs' (init M c)).
Proof. intros bs bs' H1 H2 He. rewrite !class_eq_functional_gen by assumption. rewrite He. reflexivity. Qed.
End ClassFn.

(* order: with a commutative monoid, any permutation of the update stream gives the same result *)
Lemma order_invariant_gen (M : Metric) (L : Alg M) (c : cfg M) :
  (forall x y, op L x y = op L y x) ->
  forall bs bs', Forall (fun b => valid M c b = true) bs -> Permutation bs bs' ->
  cmp M c (fold_left (upd M c) bs (init M c)) = cmp M c (fold_left (upd M c) bs' (init M c)).
Proof.
  intros Hc bs bs' Hv Hp.
  apply (merge_tree_any_sharding M L c Hc (Shard M bs) (Shard M bs')); cbn [stream]; try assumption.
  eapply Permutation_Forall; eassumption.
Qed.
