(* Lemmas about the lock-step runner of Models/Proto.v, generic over call / resp / respond:
   one-round unfolding on uniform families, the compositional (bind) lemma, and the agreement of
   the traced runner with the plain one. *)
From Coq Require Import List Bool Lia.
From TE Require Import Models.Proto.
Import ListNotations.

Section ProtoP.
Variables (call resp : Type).
Variable respond : list call -> option (list resp).
Notation prog := (prog call resp).

Lemma all_op_map {A X} (c : X -> call) (k : X -> resp -> prog A) (xs : list X) :
  all_op (map (fun x => Op (c x) (k x)) xs) = Some (map (fun x => (c x, k x)) xs).
Proof. induction xs as [|x xs IH]; cbn; [reflexivity|]. rewrite IH. reflexivity. Qed.

Lemma all_ret_map {A X} (f : X -> A) (xs : list X) :
  all_ret (map (fun x => @Ret call resp A (f x)) xs) = Some (map f xs).
Proof. induction xs as [|x xs IH]; cbn; [reflexivity|]. rewrite IH. reflexivity. Qed.

Lemma app2_map {X Y Z} (k : X -> Y -> Z) (rf : X -> Y) (xs : list X) :
  app2 (map k xs) (map rf xs) = map (fun x => k x (rf x)) xs.
Proof. induction xs as [|x xs IH]; cbn; [reflexivity|]. f_equal. exact IH. Qed.

Lemma app2_nil_r {X Y} (fs : list (X -> Y)) : app2 fs [] = [].
Proof. destruct fs; reflexivity. Qed.

(* every rank issues a collective; rank x receives [rf x] *)
Lemma run_all_op {A X} (c : X -> call) (k : X -> resp -> prog A) (rf : X -> resp) (xs : list X) :
  xs <> [] -> respond (map c xs) = Some (map rf xs) ->
  run_all respond (map (fun x => Op (c x) (k x)) xs) = run_all respond (map (fun x => k x (rf x)) xs).
Proof.
  destruct xs as [|x xs]; [congruence|]. intros _ Hr. cbn [map run_all run].
  rewrite all_op_map, map_map. cbn [map] in Hr.
  rewrite (map_ext (fun x0 => fst (c x0, k x0)) c) by reflexivity.
  rewrite Hr, map_map. rewrite (map_ext (fun x0 => snd (c x0, k x0)) k) by reflexivity.
  rewrite app2_map. reflexivity.
Qed.

(* the same, without naming the continuations: [cont p r] is p's continuation applied to r *)
Definition cont {A} (p : prog A) (r : resp) : prog A :=
  match p with Op _ k => k r | Ret a => Ret a end.
Lemma run_all_step {A X} (p : X -> prog A) (c : X -> call) (rf : X -> resp) (xs : list X) :
  xs <> [] -> (forall x, In x xs -> head (p x) = Some (c x)) ->
  respond (map c xs) = Some (map rf xs) ->
  run_all respond (map p xs) = run_all respond (map (fun x => cont (p x) (rf x)) xs).
Proof.
  intros Hne Hh Hr.
  rewrite (map_ext_in p (fun x => Op (c x) (cont (p x)))).
  - apply (run_all_op c (fun x => cont (p x)) rf xs Hne Hr).
  - intros x Hx. specialize (Hh x Hx). destruct (p x) as [a|c' k]; cbn in Hh; [discriminate|].
    inversion Hh; subst. reflexivity.
Qed.
Lemma run_all_step_none {A X} (p : X -> prog A) (c : X -> call) (xs : list X) :
  xs <> [] -> (forall x, In x xs -> head (p x) = Some (c x)) ->
  respond (map c xs) = None -> run_all respond (map p xs) = None.
Proof.
  intros Hne Hh Hr.
  rewrite (map_ext_in p (fun x => Op (c x) (cont (p x)))).
  - destruct xs as [|x xs]; [congruence|]. cbn [map run_all run].
    rewrite all_op_map, map_map. cbn [map] in Hr.
    rewrite (map_ext (fun x0 => fst (c x0, cont (p x0))) c) by reflexivity. rewrite Hr. reflexivity.
  - intros x Hx. specialize (Hh x Hx). destruct (p x) as [a|c' k]; cbn in Hh; [discriminate|].
    inversion Hh; subst. reflexivity.
Qed.

Lemma run_all_op_none {A X} (c : X -> call) (k : X -> resp -> prog A) (xs : list X) :
  xs <> [] -> respond (map c xs) = None ->
  run_all respond (map (fun x => Op (c x) (k x)) xs) = None.
Proof.
  destruct xs as [|x xs]; [congruence|]. intros _ Hr. cbn [map run_all run].
  rewrite all_op_map, map_map. cbn [map] in Hr.
  rewrite (map_ext (fun x0 => fst (c x0, k x0)) c) by reflexivity. rewrite Hr. reflexivity.
Qed.

Lemma run_all_ret {A X} (f : X -> A) (xs : list X) :
  run_all respond (map (fun x => Ret (f x)) xs) = Some (map f xs).
Proof. destruct xs as [|x xs]; [reflexivity|]. cbn [map run_all run]. rewrite all_ret_map. reflexivity. Qed.

(* ---- bind ---- *)
Fixpoint bind2 {A B} (ps : list (prog A)) (fs : list (A -> prog B)) : list (prog B) :=
  match ps, fs with p :: ps', f :: fs' => bind p f :: bind2 ps' fs' | _, _ => [] end.

Lemma bind2_map {A B X} (p : X -> prog A) (f : X -> A -> prog B) (xs : list X) :
  bind2 (map p xs) (map f xs) = map (fun x => bind (p x) (f x)) xs.
Proof. induction xs as [|x xs IH]; cbn [map bind2]; [reflexivity|]. f_equal. exact IH. Qed.

Lemma all_ret_bind2 {A B} : forall (ps : list (prog A)) (fs : list (A -> prog B)) l,
  all_ret ps = Some l -> bind2 ps fs = app2 fs l.
Proof.
  induction ps as [|p ps IH]; intros fs l H; cbn in H.
  - inversion H; subst. destruct fs; reflexivity.
  - destruct p as [a|c k]; [|discriminate].
    destruct (all_ret ps) as [l'|] eqn:E; [|discriminate]. inversion H; subst.
    destruct fs as [|f fs]; [reflexivity|]. cbn [bind2 app2 bind]. f_equal. apply IH. reflexivity.
Qed.

Definition bindk {A B} (k : resp -> prog A) (f : A -> prog B) : resp -> prog B := fun r => bind (k r) f.
Fixpoint bindk2 {A B} (cks : list (call * (resp -> prog A))) (fs : list (A -> prog B))
  : list (call * (resp -> prog B)) :=
  match cks, fs with ck :: cks', f :: fs' => (fst ck, bindk (snd ck) f) :: bindk2 cks' fs' | _, _ => [] end.

Lemma all_op_bind2 {A B} : forall (ps : list (prog A)) (fs : list (A -> prog B)) cks,
  List.length ps <= List.length fs -> all_op ps = Some cks ->
  all_op (bind2 ps fs) = Some (bindk2 cks fs) /\ List.length cks = List.length ps.
Proof.
  induction ps as [|p ps IH]; intros fs cks Hl H; cbn in H.
  - inversion H; subst. split; reflexivity.
  - destruct p as [a|c k]; [discriminate|].
    destruct (all_op ps) as [cks'|] eqn:E; [|discriminate]. inversion H; subst.
    destruct fs as [|f fs]; [cbn in Hl; lia|]. cbn in Hl.
    destruct (IH fs cks' ltac:(lia) eq_refl) as [IH1 IH2].
    cbn [bind2 bind all_op]. rewrite IH1. cbn [option_map bindk2 fst snd List.length]. split; [reflexivity|lia].
Qed.

Lemma bindk2_fst {A B} : forall (cks : list (call * (resp -> prog A))) (fs : list (A -> prog B)),
  List.length cks <= List.length fs -> map fst (bindk2 cks fs) = map fst cks.
Proof.
  induction cks as [|ck cks IH]; intros fs Hl; [reflexivity|].
  destruct fs as [|f fs]; cbn in Hl; [lia|]. cbn [bindk2 map fst]. f_equal. apply IH. lia.
Qed.

Lemma bindk2_app2 {A B} : forall (cks : list (call * (resp -> prog A))) (fs : list (A -> prog B)) rs,
  app2 (map snd (bindk2 cks fs)) rs = bind2 (app2 (map snd cks) rs) fs.
Proof.
  induction cks as [|ck cks IH]; intros fs rs; [reflexivity|].
  destruct fs as [|f fs].
  - cbn [bindk2 map app2]. destruct rs; [reflexivity|]. cbn [map app2 bind2]. reflexivity.
  - destruct rs as [|r rs]; [reflexivity|]. cbn [bindk2 map app2 snd bind2]. unfold bindk at 1. f_equal. apply IH.
Qed.

Lemma app2_length {X Y} : forall (fs : list (X -> Y)) xs, List.length (app2 fs xs) <= List.length fs.
Proof.
  induction fs as [|f fs IH]; intros xs; [cbn; lia|]. destruct xs as [|x xs]; cbn; [lia|].
  specialize (IH xs). lia.
Qed.

Theorem run_bind {A B} : forall (p0 : prog A) (f0 : A -> prog B) (ps : list (prog A)) (fs : list (A -> prog B)) a0 l,
  List.length ps <= List.length fs ->
  run respond p0 ps = Some (a0 :: l) ->
  run respond (bind p0 f0) (bind2 ps fs) = run respond (f0 a0) (app2 fs l).
Proof.
  induction p0 as [a|c k IH]; intros f0 ps fs a0 l Hl H.
  - cbn [run] in H. destruct (all_ret ps) as [l'|] eqn:E; [|discriminate]. cbn in H. inversion H; subst.
    cbn [bind]. rewrite (all_ret_bind2 ps fs l E). reflexivity.
  - cbn [run] in H. destruct (all_op ps) as [cks|] eqn:E; [|discriminate].
    destruct (all_op_bind2 ps fs cks Hl E) as [E' Hlen].
    cbn [bind run]. rewrite E'. rewrite bindk2_fst by lia.
    destruct (respond (c :: map fst cks)) as [[|r0 rs]|]; try discriminate.
    rewrite bindk2_app2. apply IH; [|exact H].
    pose proof (app2_length (map snd cks) rs) as Hq. rewrite map_length in Hq. lia.
Qed.

(* family form: rank x runs [bind (p x) (f x)] and the first phase returns [ra x] on rank x *)
Theorem run_all_bind {A B X} (p : X -> prog A) (f : X -> A -> prog B) (ra : X -> A) (xs : list X) :
  run_all respond (map p xs) = Some (map ra xs) ->
  run_all respond (map (fun x => bind (p x) (f x)) xs) = run_all respond (map (fun x => f x (ra x)) xs).
Proof.
  destruct xs as [|x xs]; [reflexivity|]. cbn [map run_all]. intros H.
  rewrite <- bind2_map. rewrite (run_bind (p x) (f x) (map p xs) (map f xs) (ra x) (map ra xs)).
  - rewrite app2_map. reflexivity.
  - rewrite !map_length. lia.
  - exact H.
Qed.

(* ---- the traced runner computes the same result ---- *)
Theorem run_tr_snd {A} : forall (p : prog A) (rest : list (prog A)),
  snd (run_tr respond p rest) = run respond p rest.
Proof.
  induction p as [a|c k IH]; intros rest; cbn [run_tr run].
  - destruct (all_ret rest); reflexivity.
  - destruct (all_op rest) as [cks|]; [|reflexivity].
    destruct (respond (c :: map fst cks)) as [[|r0 rs]|]; try reflexivity.
    cbn [snd]. apply IH.
Qed.
Corollary run_all_tr_snd {A} (ps : list (prog A)) : snd (run_all_tr respond ps) = run_all respond ps.
Proof. destruct ps as [|p r]; [reflexivity|]. apply run_tr_snd. Qed.
End ProtoP.

Arguments all_op_map {call resp A X}.
Arguments all_ret_map {call resp A X}.
Arguments run_all_op {call resp} respond {A X}.
Arguments run_all_op_none {call resp} respond {A X}.
Arguments cont {call resp A}.
Arguments run_all_step {call resp} respond {A X}.
Arguments run_all_step_none {call resp} respond {A X}.
Arguments run_all_ret {call resp} respond {A X}.
Arguments bind2 {call resp A B}.
Arguments run_bind {call resp} respond {A B}.
Arguments run_all_bind {call resp} respond {A B X}.
Arguments run_tr_snd {call resp} respond {A}.
Arguments run_all_tr_snd {call resp} respond {A}.
