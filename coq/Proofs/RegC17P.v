(* C17 for the regression family: invariance under scaling all weights by c > 0 and under duplicating the data. *)
From Coq Require Import ZArith List Bool QArith Qcanon Lia String.
From TE Require Import Base.Val Base.Nd Base.Xq Algebra.Metric Models.Aggregation Models.Aggregation2
  Models.Regression Models.Stat Proofs.RegressionP Proofs.RegAlgP Proofs.RegC03P.
Import ListNotations.
Open Scope list_scope.
Open Scope Qc_scope.

Lemma sumQ_scale c : forall l, sumQ (map (Qcmult c) l) = c * sumQ l.
Proof. induction l as [|x l IH]; cbn [map]; [rewrite sumQ_nil; ring|]. rewrite !sumQ_cons, IH. ring. Qed.
Lemma map2_scale_l c : forall ws es, map2 Qcmult (map (Qcmult c) ws) es = map (Qcmult c) (map2 Qcmult ws es).
Proof. induction ws as [|w ws IH]; intros [|e es]; cbn [map map2]; try reflexivity. rewrite IH. f_equal. ring. Qed.
Lemma two_ne0 : (1 + 1 : Qc) <> 0. Proof. intro E. discriminate E. Qed.
Lemma eps_nz x : eps64 <= x -> x <> 0.
Proof. intros H E. rewrite E in H. exact (Qclt_not_le _ _ eps64_pos H). Qed.

(* ---- MeanSquaredError ---- *)
(* scaling all sample weights by c: invariant PROVIDED both total weights are at least eps = 2^-52 (below that the
   sign * clamp(|w|, eps) denominator is eps, not the weight) *)
Lemma mse_weight_scale cfg c xs ts ws : mse_w cfg = None -> eps64 <= sumQ ws -> eps64 <= sumQ (map (Qcmult c) ws) ->
  mse_cmp cfg (mse_stat cfg (b1d xs ts (Some (map (Qcmult c) ws)))) = mse_cmp cfg (mse_stat cfg (b1d xs ts (Some ws))).
Proof.
  intros Hw H1 H2. rewrite (mse_1d_spec cfg xs ts _ Hw H2), (mse_1d_spec cfg xs ts _ Hw H1).
  pose proof (eps_nz _ H1) as N1. pose proof (eps_nz _ H2) as N2. rewrite sumQ_scale in N2 |- *.
  assert (Nc : c <> 0) by (intro E; apply N2; rewrite E; ring).
  rewrite map2_scale_l, sumQ_scale. do 2 f_equal. field. split; assumption.
Qed.
Lemma sqerrs_app xs ts xs' ts' : List.length xs = List.length ts -> sqerrs (xs ++ xs') (ts ++ ts') = sqerrs xs ts ++ sqerrs xs' ts'.
Proof. intros H. unfold sqerrs. apply map2_app. exact H. Qed.
Lemma sqerrs_len xs ts : List.length xs = List.length ts -> List.length (sqerrs xs ts) = List.length ts.
Proof. intros H. unfold sqerrs. rewrite (map2_len _ xs ts H). exact H. Qed.
(* duplicating the data set *)
Lemma mse_duplicate cfg xs ts : mse_w cfg = None -> ts <> [] -> List.length xs = List.length ts ->
  mse_cmp cfg (mse_stat cfg (b1d (xs ++ xs) (ts ++ ts) None)) = mse_cmp cfg (mse_stat cfg (b1d xs ts None)).
Proof.
  intros Hw Hn Hl. rewrite (mse_1d_unweighted_spec cfg _ _ Hw) by (destruct ts; [congruence|discriminate]).
  rewrite (mse_1d_unweighted_spec cfg xs ts Hw Hn). rewrite (sqerrs_app _ _ _ _ Hl), sumQ_app, lenQ_app.
  pose proof (lenQ_nz ts Hn) as N. do 2 f_equal. field. split; [exact N|]. intro E. apply N.
  assert (lenQ ts = (lenQ ts + lenQ ts) / (1 + 1)) as -> by (field; exact two_ne0). rewrite E. field. exact two_ne0.
Qed.
Lemma mse_duplicate_weighted cfg xs ts ws : mse_w cfg = None -> eps64 <= sumQ ws ->
  List.length xs = List.length ts -> List.length ws = List.length ts ->
  mse_cmp cfg (mse_stat cfg (b1d (xs ++ xs) (ts ++ ts) (Some (ws ++ ws)))) = mse_cmp cfg (mse_stat cfg (b1d xs ts (Some ws))).
Proof.
  intros Hw He Hl Hlw. pose proof (eps_nz _ He) as N.
  assert (He2 : eps64 <= sumQ (ws ++ ws)).
  { rewrite sumQ_app. eapply Qcle_trans; [exact He|]. rewrite <- (Qcplus_0_r (sumQ ws)) at 1. apply Qcplus_le_compat; [apply Qcle_refl|].
    eapply Qcle_trans; [|exact He]. apply Qclt_le_weak, eps64_pos. }
  rewrite (mse_1d_spec cfg _ _ _ Hw He2), (mse_1d_spec cfg xs ts ws Hw He).
  rewrite (sqerrs_app _ _ _ _ Hl), (map2_app Qcmult ws (sqerrs xs ts)) by (rewrite sqerrs_len; assumption).
  rewrite !sumQ_app. do 2 f_equal. field. split; [exact N|]. intro E. apply N.
  assert (sumQ ws = (sumQ ws + sumQ ws) / (1 + 1)) as -> by (field; exact two_ne0). rewrite E. field. exact two_ne0.
Qed.

(* ---- Mean ---- *)
Lemma mean_duplicate xs ws : List.length ws = List.length xs ->
  mean_fn (xs ++ xs, WEach (ws ++ ws)) = mean_fn (xs, WEach ws).
Proof.
  intros Hl. unfold mean_fn, wtot, wsum. cbn [fst snd]. rewrite (map2_app Qcmult ws xs ws xs Hl), !sumQ_app.
  destruct (Qc_eq_dec (sumQ ws) 0) as [E|N].
  - rewrite E. destruct (Qc_eq_dec (0 + 0) 0) as [_|N']; [reflexivity|]. exfalso. apply N'. ring.
  - destruct (Qc_eq_dec (sumQ ws + sumQ ws) 0) as [E|N2].
    + exfalso. apply N. assert (sumQ ws = (sumQ ws + sumQ ws) / (1 + 1)) as -> by (field; exact two_ne0). rewrite E. field. exact two_ne0.
    + f_equal. field. split; assumption.
Qed.

(* ---- R2Score (num_regressors = 0; the adjusted form depends on n by design) ---- *)
Lemma r2_duplicate c xs ts : r2_w c = None -> r2_p c = 0%Z -> ts <> [] -> List.length xs = List.length ts ->
  mkq 2 1 <= lenQ ts ->
  sumQ (map (fun t => sq (t - sumQ ts / lenQ ts)) ts) <> 0 ->
  r2_cmp c (r2_stat c (b1d (xs ++ xs) (ts ++ ts) None)) = r2_cmp c (r2_stat c (b1d xs ts None)).
Proof.
  intros Hw Hp Hn Hl H2 Ht. pose proof (lenQ_nz ts Hn) as N.
  assert (Hn2 : ts ++ ts <> []) by (destruct ts; [congruence|discriminate]).
  assert (H1 : mkq (r2_p c) 1 < lenQ ts - 1).
  { rewrite Hp. apply Qclt_le_trans with (mkq 2 1 - 1); [apply qlt_iff; reflexivity|]. unfold Qcminus. apply Qcplus_le_compat; [exact H2|apply Qcle_refl]. }
  assert (Hle : lenQ ts <= lenQ (ts ++ ts)).
  { rewrite lenQ_app. rewrite <- (Qcplus_0_r (lenQ ts)) at 1. apply Qcplus_le_compat; [apply Qcle_refl|].
    eapply Qcle_trans; [|exact H2]. apply qle_iff. reflexivity. }
  assert (H2' : mkq 2 1 <= lenQ (ts ++ ts)) by (eapply Qcle_trans; eassumption).
  assert (H1' : mkq (r2_p c) 1 < lenQ (ts ++ ts) - 1).
  { eapply Qclt_le_trans; [exact H1|]. unfold Qcminus. apply Qcplus_le_compat; [exact Hle|apply Qcle_refl]. }
  (* the centered sums of squares, through the sufficient statistics *)
  assert (Etss : sumQ (map (fun t => sq (t - sumQ (ts ++ ts) / lenQ (ts ++ ts))) (ts ++ ts))
                 = (1 + 1) * sumQ (map (fun t => sq (t - sumQ ts / lenQ ts)) ts)).
  { rewrite <- (r2_tss_centered (ts ++ ts) Hn2), <- (r2_tss_centered ts Hn). unfold r2_tss, sq.
    rewrite map_app, !sumQ_app, lenQ_app. field. split; [exact N|]. intro E. apply N.
    assert (lenQ ts = (lenQ ts + lenQ ts) / (1 + 1)) as -> by (field; exact two_ne0). rewrite E. field. exact two_ne0. }
  assert (Ht2 : sumQ (map (fun t => sq (t - sumQ (ts ++ ts) / lenQ (ts ++ ts))) (ts ++ ts)) <> 0).
  { rewrite Etss. intro E. apply Ht. 
    assert (forall z : Qc, (1 + 1) * z = 0 -> z = 0) as Hz.
    { intros z Ez. assert (z = ((1 + 1) * z) / (1 + 1)) as -> by (field; exact two_ne0). rewrite Ez. field. exact two_ne0. }
    apply Hz. exact E. }
  rewrite (r2_1d_spec c _ _ Hw Hn2 H2' H1' Ht2), (r2_1d_spec c xs ts Hw Hn H2 H1 Ht).
  unfold r2_adjusted. rewrite Hp. cbn [Z.eqb]. rewrite Etss, (sqerrs_app _ _ _ _ Hl), sumQ_app.
  do 3 f_equal. field. split; [exact Ht|intro E; discriminate E].
Qed.

(* ---- BinaryNormalizedEntropy: value of a log-linear form under ANY interpretation L of the logarithm nodes ---- *)
Definition feval (L : val -> Qc) (f : form) : Qc := f_k f + sumQ (map (fun ca => fst ca * L (snd ca)) (f_logs f)).
Lemma feval_add L f g : feval L (fadd f g) = feval L f + feval L g.
Proof. unfold feval, fadd. cbn [f_k f_logs]. rewrite map_app, sumQ_app. ring. Qed.
Lemma feval_0 L : feval L f0 = 0. Proof. unfold feval, f0. cbn. ring. Qed.
Lemma feval_fold L : forall l f, feval L (fold_left fadd l f) = feval L f + sumQ (map (feval L) l).
Proof.
  induction l as [|g l IH]; intros f; cbn [fold_left map]; [rewrite sumQ_nil; ring|]. rewrite IH, feval_add, sumQ_cons. ring.
Qed.
Lemma qeq_scale c k : c <> 0 -> qeq (c * k) 0 = qeq k 0.
Proof.
  intros Hc. destruct (qeq k 0) eqn:E.
  - apply qeq_iff in E. subst. apply qeq_iff. ring.
  - destruct (qeq (c * k) 0) eqn:E2; [|reflexivity]. apply qeq_iff in E2. exfalso.
    assert (k = (c * k) / c) as Hk by (field; exact Hc). rewrite E2 in Hk.
    assert (k = 0) by (rewrite Hk; field; exact Hc). subst. assert (qeq 0 0 = true) by (apply qeq_iff; reflexivity). congruence.
Qed.
Lemma clamp_log_scale L c k a : c <> 0 -> feval L (clamp_log (c * k) a) = c * feval L (clamp_log k a).
Proof.
  intros Hc. unfold clamp_log. rewrite (qeq_scale c k Hc). destruct (qeq k 0); [rewrite feval_0; ring|].
  destruct (qeq a 0); unfold feval; cbn [f_k f_logs map fst snd]; rewrite ?sumQ_cons, ?sumQ_nil; ring.
Qed.
Lemma ne_term_scale L logits c x t w : c <> 0 -> feval L (ne_term logits x t (c * w)) = c * feval L (ne_term logits x t w).
Proof.
  intros Hc. unfold ne_term. destruct logits.
  - unfold feval. cbn [f_k f_logs map fst snd]. rewrite !sumQ_cons, sumQ_nil. ring.
  - rewrite !feval_add.
    assert (E1 : - (c * w * t) = c * - (w * t)) by ring. assert (E2 : - (c * w * (1 - t)) = c * - (w * (1 - t))) by ring.
    rewrite E1, E2, !clamp_log_scale by exact Hc. ring.
Qed.
(* scaling all weights of a task row by c > 0 scales total entropy, num_examples and num_positive by c: the cross entropy
   total/num_examples and the base rate num_positive/num_examples (hence the baseline and the metric) are unchanged *)
Lemma ne_row_scale L logits c : c <> 0 -> forall xs ts ws,
  let r := ne_row logits xs ts ws in let r' := ne_row logits xs ts (map (Qcmult c) ws) in
  feval L (fst (fst r')) = c * feval L (fst (fst r)) /\ snd (fst r') = c * snd (fst r) /\ snd r' = c * snd r.
Proof.
  intros Hc xs ts ws. unfold ne_row. cbn [fst snd]. rewrite !feval_fold, feval_0, sumQ_scale, map2_scale_l, sumQ_scale.
  split; [|split; reflexivity].
  assert (E : map (feval L) (map3 (ne_term logits) xs ts (map (Qcmult c) ws)) = map (Qcmult c) (map (feval L) (map3 (ne_term logits) xs ts ws))).
  { revert ts ws. induction xs as [|x xs IH]; intros [|t ts] [|w ws]; cbn [map map3]; try reflexivity.
    rewrite IH, (ne_term_scale L logits c x t w Hc). reflexivity. }
  rewrite E, sumQ_scale. ring.
Qed.
Lemma ne_ratio_scale c a b : c <> 0 -> b <> 0 -> (c * a) / (c * b) = a / b.
Proof. intros Hc Hb. field. split; assumption. Qed.
(* duplicating the samples of a task row doubles all three statistics *)
Lemma map3_app {X Y Z W} (f : X -> Y -> Z -> W) : forall a1 b1 c1 a2 b2 c2, List.length a1 = List.length b1 -> List.length a1 = List.length c1 ->
  map3 f (a1 ++ a2) (b1 ++ b2) (c1 ++ c2) = map3 f a1 b1 c1 ++ map3 f a2 b2 c2.
Proof.
  induction a1 as [|x a1 IH]; intros [|y b1] [|z c1] a2 b2 c2 H1 H2; try discriminate; cbn [app map3]; [reflexivity|].
  rewrite IH by (injection H1; injection H2; auto). reflexivity.
Qed.
Lemma ne_row_duplicate L logits xs ts ws : List.length xs = List.length ts -> List.length xs = List.length ws ->
  let r := ne_row logits xs ts ws in let r' := ne_row logits (xs ++ xs) (ts ++ ts) (ws ++ ws) in
  feval L (fst (fst r')) = (1 + 1) * feval L (fst (fst r)) /\ snd (fst r') = (1 + 1) * snd (fst r) /\ snd r' = (1 + 1) * snd r.
Proof.
  intros H1 H2. unfold ne_row. cbn [fst snd]. rewrite !feval_fold, feval_0, (map3_app _ _ _ _ _ _ _ H1 H2), map_app, !sumQ_app.
  rewrite (map2_app Qcmult ws ts ws ts) by congruence. rewrite sumQ_app. repeat split; ring.
Qed.

Lemma ne_baseline_ratio a b a' b' : a' / b' = a / b -> ne_baseline a' b' = ne_baseline a b.
Proof. intros E. unfold ne_baseline. rewrite E. reflexivity. Qed.
Lemma ne_weight_scale_invariant L logits c xs ts ws : c <> 0 -> sumQ ws <> 0 ->
  let r := ne_row logits xs ts ws in let r' := ne_row logits xs ts (map (Qcmult c) ws) in
  feval L (fst (fst r')) / snd (fst r') = feval L (fst (fst r)) / snd (fst r)
  /\ ne_baseline (snd r') (snd (fst r')) = ne_baseline (snd r) (snd (fst r)).
Proof.
  intros Hc Hn r r'. destruct (ne_row_scale L logits c Hc xs ts ws) as [E1 [E2 E3]]. fold r r' in E1, E2, E3.
  assert (Hb : snd (fst r) <> 0) by exact Hn.
  split; [rewrite E1, E2; apply ne_ratio_scale; assumption|]. apply ne_baseline_ratio. rewrite E2, E3. apply ne_ratio_scale; assumption.
Qed.
Lemma ne_duplicate_invariant L logits xs ts ws : List.length xs = List.length ts -> List.length xs = List.length ws -> sumQ ws <> 0 ->
  let r := ne_row logits xs ts ws in let r' := ne_row logits (xs ++ xs) (ts ++ ts) (ws ++ ws) in
  feval L (fst (fst r')) / snd (fst r') = feval L (fst (fst r)) / snd (fst r)
  /\ ne_baseline (snd r') (snd (fst r')) = ne_baseline (snd r) (snd (fst r)).
Proof.
  intros H1 H2 Hn r r'. destruct (ne_row_duplicate L logits xs ts ws H1 H2) as [E1 [E2 E3]]. fold r r' in E1, E2, E3.
  assert (Hb : snd (fst r) <> 0) by exact Hn.
  split; [rewrite E1, E2; apply ne_ratio_scale; [exact two_ne0|assumption]|]. apply ne_baseline_ratio. rewrite E2, E3.
  apply ne_ratio_scale; [exact two_ne0|assumption].
Qed.
