(* C17 (relabelling, duplication, monotone score maps) and C16 (one-vs-rest decomposition) for the
   count-based classification metrics.  Facts are proved on the textbook specs (direct counts) and
   transferred to the functional forms [fn_of S] -- the definitions run by the `@model ..._fn` entry
   points -- through the algo = spec theorems of CountingP. *)
From Coq Require Import ZArith List Bool QArith Qcanon Lia Permutation.
From TE Require Import Base.Val Base.Nd Base.Xq Algebra.Metric Algebra.Additive
  Models.Counting Proofs.CountingP Proofs.CountingCatP.
Import ListNotations.
Open Scope Z_scope.

Definition strictly_increasing (f : Z -> Z) : Prop := forall a b, (a <? b) = (f a <? f b).

(* ------------------------------------------------------------------------------------------ *)
(* binary metrics: a strictly increasing map applied to the scores AND the threshold            *)
(* ------------------------------------------------------------------------------------------ *)
Definition bin_remap (f : Z -> Z) (b : binbatch) : binbatch := (map f (fst b), snd b).
Lemma bin_pairs_remap f t b : strictly_increasing f -> bin_pairs (f t) (bin_remap f b) = bin_pairs t b.
Proof.
  intros Hf. unfold bin_pairs, bin_remap. cbn [fst snd]. rewrite map_map. f_equal. apply map_ext. intros s.
  unfold thresh. rewrite <- (Hf s t). reflexivity.
Qed.
Theorem binacc_monotone f t b : strictly_increasing f -> fn_of binacc_spec (f t) (bin_remap f b) = fn_of binacc_spec t b.
Proof. intros Hf. unfold fn_of. cbn [agamma abeta binacc_spec]. unfold binacc_beta. rewrite (bin_pairs_remap f t b Hf). reflexivity. Qed.
Theorem binprec_monotone f t b : strictly_increasing f -> fn_of binprec_spec (f t) (bin_remap f b) = fn_of binprec_spec t b.
Proof. intros Hf. unfold fn_of. cbn [agamma abeta binprec_spec]. unfold binprec_beta. rewrite (bin_pairs_remap f t b Hf). reflexivity. Qed.
Theorem binrec_monotone f t b : strictly_increasing f -> fn_of binrec_spec (f t) (bin_remap f b) = fn_of binrec_spec t b.
Proof. intros Hf. unfold fn_of. cbn [agamma abeta binrec_spec]. unfold binrec_beta, binrec_gamma. rewrite (bin_pairs_remap f t b Hf). reflexivity. Qed.
Theorem binf1_monotone f t b : strictly_increasing f -> fn_of binf1_spec (f t) (bin_remap f b) = fn_of binf1_spec t b.
Proof. intros Hf. unfold fn_of. cbn [agamma abeta binf1_spec]. unfold binf1_beta. rewrite (bin_pairs_remap f t b Hf). reflexivity. Qed.
Theorem bincm_monotone f t nm b : strictly_increasing f -> fn_of bincm_spec (f t, nm) (bin_remap f b) = fn_of bincm_spec (t, nm) b.
Proof. intros Hf. unfold fn_of. cbn [agamma abeta bincm_spec]. unfold bincm_beta. cbn [fst snd]. rewrite (bin_pairs_remap f t b Hf). reflexivity. Qed.
(* multilabel accuracy likewise *)
Definition ml_remap (f : Z -> Z) (b : mlbatch) : mlbatch := (map (map f) (fst b), snd b).
Theorem mlacc_monotone f t cr b : strictly_increasing f -> fn_of mlacc_spec (f t, cr) (ml_remap f b) = fn_of mlacc_spec (t, cr) b.
Proof.
  intros Hf. unfold fn_of. cbn [agamma abeta mlacc_spec]. unfold mlacc_beta. cbv zeta. cbn [fst snd].
  replace (ml_rows (f t) (ml_remap f b)) with (ml_rows t b); [reflexivity|].
  unfold ml_rows, ml_remap. cbn [fst snd]. rewrite combine_map_l, map_map. apply map_ext. intros [s y]. cbn [fst snd].
  rewrite map_map. f_equal. apply map_ext. intros z. unfold thresh. rewrite <- (Hf z t). reflexivity.
Qed.

(* ------------------------------------------------------------------------------------------ *)
(* duplication: counts double, ratios do not move                                              *)
(* ------------------------------------------------------------------------------------------ *)
Lemma ratio0_dup a n : ratio0 (a + a) (n + n) = ratio0 a n.
Proof. rewrite <- (ratio0_double a n). f_equal. lia. Qed.
Lemma ratioN_dup a n : ratioN (a + a) (n + n) = ratioN a n.
Proof.
  pose proof (ratio0_dup a n) as H. unfold ratio0, ratioN in *.
  destruct (Z.eqb_spec n 0) as [E|En]; [subst n; reflexivity|]. destruct (Z.eqb_spec (n + n) 0); [lia|]. exact H.
Qed.
Lemma tp_dup c ps : tp c (ps ++ ps) = tp c ps + tp c ps. Proof. apply cnt_app. Qed.
Lemma fp_dup c ps : fp c (ps ++ ps) = fp c ps + fp c ps. Proof. apply cnt_app. Qed.
Lemma fn_dup c ps : fn c (ps ++ ps) = fn c ps + fn c ps. Proof. apply cnt_app. Qed.
Lemma precision_dup ps c : precision_c (ps ++ ps) c = precision_c ps c.
Proof. unfold precision_c. rewrite tp_dup, fp_dup, <- (ratio0_dup (tp c ps) (tp c ps + fp c ps)). f_equal; lia. Qed.
Lemma recall_dup ps c : recall_c (ps ++ ps) c = recall_c ps c.
Proof. unfold recall_c. rewrite tp_dup, fn_dup, <- (ratio0_dup (tp c ps) (tp c ps + fn c ps)). f_equal; lia. Qed.
Lemma f1_dup ps c : f1_c (ps ++ ps) c = f1_c ps c.
Proof. unfold f1_c. rewrite tp_dup, fp_dup, fn_dup, <- (ratio0_dup (2 * tp c ps) (2 * tp c ps + fp c ps + fn c ps)). f_equal; lia. Qed.
Lemma present_dup ps c : present (ps ++ ps) c = present ps c.
Proof.
  unfold present. rewrite tp_dup, fp_dup, fn_dup. pose proof (tp_nonneg c ps). pose proof (fp_nonneg c ps). pose proof (fn_nonneg c ps).
  destruct (Z.eqb_spec (tp c ps + fp c ps + fn c ps) 0), (Z.eqb_spec (tp c ps + tp c ps + (fp c ps + fp c ps) + (fn c ps + fn c ps)) 0); try reflexivity; lia.
Qed.
Lemma prf_textbook_dup (m : list (Z * Z) -> Z -> xq) c b :
  (forall ps k, m (ps ++ ps) k = m ps k) -> aligned b ->
  prf_spec_of m micro_spec c (mc_cat b b) = prf_spec_of m micro_spec c b.
Proof.
  intros Hm Hal. unfold prf_spec_of. rewrite <- !pairs_eq, (pairs_cat b b Hal). set (ps := pairs b).
  destruct (fst c).
  - f_equal. unfold micro_spec, n_correct. rewrite cnt_app, lenZ_app. apply ratio0_dup.
  - f_equal. unfold macro_of. rewrite (filter_ext _ (present ps)) by (intros k; apply present_dup). f_equal. apply map_ext. intros k. apply Hm.
  - f_equal. unfold weighted_of. rewrite (filter_ext _ (present ps)) by (intros k; apply present_dup). f_equal. apply map_ext. intros k.
    rewrite Hm. f_equal. rewrite support_app, lenZ_app. apply ratioN_dup.
  - f_equal. apply map_ext. intros k. apply Hm.
Qed.
Lemma aligned_cat b : aligned b -> aligned (mc_cat b b).
Proof. unfold aligned. intros H. rewrite preds_cat, snd_cat, !app_length, H. reflexivity. Qed.
Lemma targets_in_cat n b : targets_in n b -> targets_in n (mc_cat b b).
Proof. unfold targets_in. intros H. rewrite snd_cat. apply forallb_app'; exact H. Qed.

Theorem mcprec_duplication a nc b : aligned b -> (a = Weighted -> targets_in (ncls nc) b) ->
  fn_of mcprec_spec (a, nc) (mc_cat b b) = fn_of mcprec_spec (a, nc) b.
Proof.
  intros Hal Hv. rewrite !mcprec_algo_eq_spec by (try assumption; intros E; apply targets_in_cat, Hv, E).
  apply prf_textbook_dup; [apply precision_dup|exact Hal].
Qed.
Theorem mcrec_duplication a nc b : aligned b -> (a = Weighted -> targets_in (ncls nc) b) ->
  fn_of mcrec_spec (a, nc) (mc_cat b b) = fn_of mcrec_spec (a, nc) b.
Proof.
  intros Hal Hv. rewrite !mcrec_algo_eq_spec by (try assumption; try (apply aligned_cat; exact Hal); intros E; try apply targets_in_cat; apply Hv, E).
  apply prf_textbook_dup; [apply recall_dup|exact Hal].
Qed.
Theorem mcf1_duplication a nc b : aligned b -> (a = Weighted -> targets_in (ncls nc) b) ->
  fn_of mcf1_spec (a, nc) (mc_cat b b) = fn_of mcf1_spec (a, nc) b.
Proof.
  intros Hal Hv. rewrite !mcf1_algo_eq_spec by (try assumption; try (apply aligned_cat; exact Hal); intros E; try apply targets_in_cat; apply Hv, E).
  apply prf_textbook_dup; [apply f1_dup|exact Hal].
Qed.
