(* C17 (relabelling, duplication, monotone score maps) and C16 (one-vs-rest decomposition) for the
   count-based classification metrics.  Facts are proved on the textbook specs (direct counts) and
   transferred to the functional forms [fn_of S] -- the definitions run by the `@model ..._fn` entry
   points -- through the algo = spec theorems of CountingP. *)
From Coq Require Import ZArith List Bool QArith Qcanon Lia Permutation.
From TE Require Import Base.Val Base.Nd Base.Xq Algebra.Metric Algebra.Additive
  Models.Counting Proofs.CountingP Proofs.CountingCatP.
Import ListNotations.
Open Scope Z_scope.

Definition strictly_increasing (f : Z -> Z) : Prop := forall a b, (a <? b) = (f a <? f b).

(* ------------------------------------------------------------------------------------------ *)
(* binary metrics: a strictly increasing map applied to the scores AND the threshold            *)
(* ------------------------------------------------------------------------------------------ *)
Definition bin_remap (f : Z -> Z) (b : binbatch) : binbatch := (map f (fst b), snd b).
Lemma bin_pairs_remap f t b : strictly_increasing f -> bin_pairs (f t) (bin_remap f b) = bin_pairs t b.
Proof.
  intros Hf. unfold bin_pairs, bin_remap. cbn [fst snd]. rewrite map_map. f_equal. apply map_ext. intros s.
  unfold thresh. rewrite <- (Hf s t). reflexivity.
Qed.
Theorem binacc_monotone f t b : strictly_increasing f -> fn_of binacc_spec (f t) (bin_remap f b) = fn_of binacc_spec t b.
Proof. intros Hf. unfold fn_of. cbn [agamma abeta binacc_spec]. unfold binacc_beta. rewrite (bin_pairs_remap f t b Hf). reflexivity. Qed.
Theorem binprec_monotone f t b : strictly_increasing f -> fn_of binprec_spec (f t) (bin_remap f b) = fn_of binprec_spec t b.
Proof. intros Hf. unfold fn_of. cbn [agamma abeta binprec_spec]. unfold binprec_beta. rewrite (bin_pairs_remap f t b Hf). reflexivity. Qed.
Theorem binrec_monotone f t b : strictly_increasing f -> fn_of binrec_spec (f t) (bin_remap f b) = fn_of binrec_spec t b.
Proof. intros Hf. unfold fn_of. cbn [agamma abeta binrec_spec]. unfold binrec_beta, binrec_gamma. rewrite (bin_pairs_remap f t b Hf). reflexivity. Qed.
Theorem binf1_monotone f t b : strictly_increasing f -> fn_of binf1_spec (f t) (bin_remap f b) = fn_of binf1_spec t b.
Proof. intros Hf. unfold fn_of. cbn [agamma abeta binf1_spec]. unfold binf1_beta. rewrite (bin_pairs_remap f t b Hf). reflexivity. Qed.
Theorem bincm_monotone f t nm b : strictly_increasing f -> fn_of bincm_spec (f t, nm) (bin_remap f b) = fn_of bincm_spec (t, nm) b.
Proof. intros Hf. unfold fn_of. cbn [agamma abeta bincm_spec]. unfold bincm_beta. cbn [fst snd]. rewrite (bin_pairs_remap f t b Hf). reflexivity. Qed.
(* multilabel accuracy likewise *)
Definition ml_remap (f : Z -> Z) (b : mlbatch) : mlbatch := (map (map f) (fst b), snd b).
Theorem mlacc_monotone f t cr b : strictly_increasing f -> fn_of mlacc_spec (f t, cr) (ml_remap f b) = fn_of mlacc_spec (t, cr) b.
Proof.
  intros Hf. unfold fn_of. cbn [agamma abeta mlacc_spec]. unfold mlacc_beta. cbv zeta. cbn [fst snd].
  replace (ml_rows (f t) (ml_remap f b)) with (ml_rows t b); [reflexivity|].
  unfold ml_rows, ml_remap. cbn [fst snd]. rewrite combine_map_l, map_map. apply map_ext. intros [s y]. cbn [fst snd].
  rewrite map_map. f_equal. apply map_ext. intros z. unfold thresh. rewrite <- (Hf z t). reflexivity.
Qed.

(* ------------------------------------------------------------------------------------------ *)
(* duplication: counts double, ratios do not move                                              *)
(* ------------------------------------------------------------------------------------------ *)
Lemma ratio0_dup a n : ratio0 (a + a) (n + n) = ratio0 a n.
Proof. rewrite <- (ratio0_double a n). f_equal. lia. Qed.
Lemma ratioN_dup a n : ratioN (a + a) (n + n) = ratioN a n.
Proof.
  pose proof (ratio0_dup a n) as H. unfold ratio0, ratioN in *.
  destruct (Z.eqb_spec n 0) as [E|En]; [subst n; reflexivity|]. destruct (Z.eqb_spec (n + n) 0); [lia|]. exact H.
Qed.
Lemma tp_dup c ps : tp c (ps ++ ps) = tp c ps + tp c ps. Proof. apply cnt_app. Qed.
Lemma fp_dup c ps : fp c (ps ++ ps) = fp c ps + fp c ps. Proof. apply cnt_app. Qed.
Lemma fn_dup c ps : fn c (ps ++ ps) = fn c ps + fn c ps. Proof. apply cnt_app. Qed.
Lemma precision_dup ps c : precision_c (ps ++ ps) c = precision_c ps c.
Proof. unfold precision_c. rewrite tp_dup, fp_dup, <- (ratio0_dup (tp c ps) (tp c ps + fp c ps)). f_equal; lia. Qed.
Lemma recall_dup ps c : recall_c (ps ++ ps) c = recall_c ps c.
Proof. unfold recall_c. rewrite tp_dup, fn_dup, <- (ratio0_dup (tp c ps) (tp c ps + fn c ps)). f_equal; lia. Qed.
Lemma f1_dup ps c : f1_c (ps ++ ps) c = f1_c ps c.
Proof. unfold f1_c. rewrite tp_dup, fp_dup, fn_dup, <- (ratio0_dup (2 * tp c ps) (2 * tp c ps + fp c ps + fn c ps)). f_equal; lia. Qed.
Lemma present_dup ps c : present (ps ++ ps) c = present ps c.
Proof.
  unfold present. rewrite tp_dup, fp_dup, fn_dup. pose proof (tp_nonneg c ps). pose proof (fp_nonneg c ps). pose proof (fn_nonneg c ps).
  destruct (Z.eqb_spec (tp c ps + fp c ps + fn c ps) 0), (Z.eqb_spec (tp c ps + tp c ps + (fp c ps + fp c ps) + (fn c ps + fn c ps)) 0); try reflexivity; lia.
Qed.
Lemma prf_textbook_dup (m : list (Z * Z) -> Z -> xq) c b :
  (forall ps k, m (ps ++ ps) k = m ps k) -> aligned b ->
  prf_spec_of m micro_spec c (mc_cat b b) = prf_spec_of m micro_spec c b.
Proof.
  intros Hm Hal. unfold prf_spec_of. rewrite <- !pairs_eq, (pairs_cat b b Hal). set (ps := pairs b).
  destruct (fst c).
  - f_equal. unfold micro_spec, n_correct. rewrite cnt_app, lenZ_app. apply ratio0_dup.
  - f_equal. unfold macro_of. rewrite (filter_ext _ (present ps)) by (intros k; apply present_dup). f_equal. apply map_ext. intros k. apply Hm.
  - f_equal. unfold weighted_of. rewrite (filter_ext _ (present ps)) by (intros k; apply present_dup). f_equal. apply map_ext. intros k.
    rewrite Hm. f_equal. rewrite support_app, lenZ_app. apply ratioN_dup.
  - f_equal. apply map_ext. intros k. apply Hm.
Qed.
Lemma aligned_cat b : aligned b -> aligned (mc_cat b b).
Proof. unfold aligned. intros H. rewrite preds_cat, snd_cat, !app_length, H. reflexivity. Qed.
Lemma targets_in_cat n b : targets_in n b -> targets_in n (mc_cat b b).
Proof. unfold targets_in. intros H. rewrite snd_cat. apply forallb_app'; exact H. Qed.

Theorem mcprec_duplication a nc b : aligned b -> (a = Weighted -> targets_in (ncls nc) b) ->
  fn_of mcprec_spec (a, nc) (mc_cat b b) = fn_of mcprec_spec (a, nc) b.
Proof.
  intros Hal Hv. rewrite !mcprec_algo_eq_spec by (try assumption; intros E; apply targets_in_cat, Hv, E).
  apply prf_textbook_dup; [apply precision_dup|exact Hal].
Qed.
Theorem mcrec_duplication a nc b : aligned b -> (a = Weighted -> targets_in (ncls nc) b) ->
  fn_of mcrec_spec (a, nc) (mc_cat b b) = fn_of mcrec_spec (a, nc) b.
Proof.
  intros Hal Hv. rewrite !mcrec_algo_eq_spec by (try assumption; try (apply aligned_cat; exact Hal); intros E; try apply targets_in_cat; apply Hv, E).
  apply prf_textbook_dup; [apply recall_dup|exact Hal].
Qed.
Theorem mcf1_duplication a nc b : aligned b -> (a = Weighted -> targets_in (ncls nc) b) ->
  fn_of mcf1_spec (a, nc) (mc_cat b b) = fn_of mcf1_spec (a, nc) b.
Proof.
  intros Hal Hv. rewrite !mcf1_algo_eq_spec by (try assumption; try (apply aligned_cat; exact Hal); intros E; try apply targets_in_cat; apply Hv, E).
  apply prf_textbook_dup; [apply f1_dup|exact Hal].
Qed.

(* binary forms: duplication *)
Lemma bin_pairs_spec_dup t b : bin_ok b -> bin_pairs_spec t (bin_cat b b) = bin_pairs_spec t b ++ bin_pairs_spec t b.
Proof. intros O. rewrite <- !bin_pairs_eq. apply bin_pairs_cat. exact O. Qed.
Theorem binacc_duplication t b : bin_ok b -> fn_of binacc_spec t (bin_cat b b) = fn_of binacc_spec t b.
Proof.
  intros O. rewrite !binacc_algo_eq_spec by (try apply bin_ok_cat; exact O). unfold binacc_textbook. rewrite (bin_pairs_spec_dup t b O).
  f_equal. unfold tn. rewrite tp_dup, cnt_app, lenZ_app, <- (ratioN_dup (tp 1 _ + _) (lenZ _)). f_equal; lia.
Qed.
Theorem binprec_duplication t b : bin_ok b -> fn_of binprec_spec t (bin_cat b b) = fn_of binprec_spec t b.
Proof.
  intros O. rewrite !binprec_algo_eq_spec by (try apply bin_ok_cat; exact O). unfold binprec_textbook. rewrite (bin_pairs_spec_dup t b O), precision_dup. reflexivity.
Qed.
Theorem binrec_duplication t b : bin_ok b -> fn_of binrec_spec t (bin_cat b b) = fn_of binrec_spec t b.
Proof.
  intros O. rewrite !binrec_algo_eq_spec by (try apply bin_ok_cat; exact O). unfold binrec_textbook. rewrite (bin_pairs_spec_dup t b O), recall_dup. reflexivity.
Qed.
Theorem binf1_duplication t b : bin_ok b -> fn_of binf1_spec t (bin_cat b b) = fn_of binf1_spec t b.
Proof.
  intros O. rewrite !binf1_algo_eq_spec by (try apply bin_ok_cat; exact O). unfold binf1_textbook. rewrite (bin_pairs_spec_dup t b O), f1_dup. reflexivity.
Qed.
(* confusion matrices with a normalisation *)
Lemma cm_textbook_dup n nm ps : nm <> NNone -> cm_textbook_ps n nm (ps ++ ps) = cm_textbook_ps n nm ps.
Proof.
  intros Hn. unfold cm_textbook_ps. f_equal. apply map_ext. intros i. apply map_ext. intros j. unfold cm_cell.
  destruct nm; [congruence| | |]; rewrite !cnt_app, ?lenZ_app; [apply ratioN_dup|apply ratio0_dup|apply ratio0_dup].
Qed.
Theorem mccm_duplication n nm b : nm <> NNone -> cm_ok (n, nm) b -> fn_of mccm_spec (n, nm) (mc_cat b b) = fn_of mccm_spec (n, nm) b.
Proof.
  intros Hn O. rewrite !mccm_algo_eq_spec by (try apply cm_ok_cat; exact O). unfold mccm_textbook. cbn [fst snd].
  rewrite <- !pairs_eq, pairs_cat; [apply cm_textbook_dup; exact Hn|].
  unfold cm_ok, cm_valid in O. do 3 (apply andb_prop in O as [O _]). apply (shape_aligned _ _ O).
Qed.
Theorem bincm_duplication t nm b : nm <> NNone -> bin_ok b -> fn_of bincm_spec (t, nm) (bin_cat b b) = fn_of bincm_spec (t, nm) b.
Proof.
  intros Hn O. rewrite !bincm_algo_eq_spec by (try apply bin_ok_cat; exact O). unfold bincm_textbook. cbn [fst snd].
  rewrite (bin_pairs_spec_dup t b O). apply cm_textbook_dup. exact Hn.
Qed.

(* ------------------------------------------------------------------------------------------ *)
(* relabelling the classes by a permutation                                                    *)
(* ------------------------------------------------------------------------------------------ *)
(* pi permutes the class indices 0..n-1: injective, and maps the range into itself *)
Definition perm_on (n : nat) (pi : Z -> Z) : Prop :=
  (forall a b, pi a = pi b -> a = b) /\ (forall c, inrange n c = true -> inrange n (pi c) = true).
Definition relabel (pi : Z -> Z) (ps : list (Z * Z)) : list (Z * Z) := map (fun py => (pi (fst py), pi (snd py))) ps.

Section Relabel.
Variable n : nat.
Variable pi : Z -> Z.
Hypothesis Hpi : perm_on n pi.
Lemma eqb_pi a b : (pi a =? pi b) = (a =? b).
Proof. destruct Hpi as [Hi _]. destruct (Z.eqb_spec a b) as [->|E]; [apply Z.eqb_refl|]. destruct (Z.eqb_spec (pi a) (pi b)) as [E'|]; [apply Hi in E'; contradiction|reflexivity]. Qed.
Lemma tp_relabel c ps : tp (pi c) (relabel pi ps) = tp c ps.
Proof. unfold tp, relabel. rewrite cnt_map. apply cnt_ext. intros [p y]. cbn [fst snd]. rewrite !eqb_pi. reflexivity. Qed.
Lemma fp_relabel c ps : fp (pi c) (relabel pi ps) = fp c ps.
Proof. unfold fp, relabel. rewrite cnt_map. apply cnt_ext. intros [p y]. cbn [fst snd]. rewrite !eqb_pi. reflexivity. Qed.
Lemma fn_relabel c ps : fn (pi c) (relabel pi ps) = fn c ps.
Proof. unfold fn, relabel. rewrite cnt_map. apply cnt_ext. intros [p y]. cbn [fst snd]. rewrite !eqb_pi. reflexivity. Qed.
Lemma cell_relabel i j ps : cm_cell (relabel pi ps) (pi i) (pi j) = cm_cell ps i j.
Proof. unfold cm_cell, relabel. rewrite cnt_map. apply cnt_ext. intros [p y]. cbn [fst snd]. rewrite !eqb_pi. reflexivity. Qed.
Lemma correct_relabel ps : n_correct (relabel pi ps) = n_correct ps.
Proof. unfold n_correct, relabel. rewrite cnt_map. apply cnt_ext. intros [p y]. cbn [fst snd]. apply eqb_pi. Qed.
Lemma len_relabel ps : lenZ (relabel pi ps) = lenZ ps. Proof. apply lenZ_map. Qed.
Lemma precision_relabel ps c : precision_c (relabel pi ps) (pi c) = precision_c ps c.
Proof. unfold precision_c. rewrite tp_relabel, fp_relabel. reflexivity. Qed.
Lemma recall_relabel ps c : recall_c (relabel pi ps) (pi c) = recall_c ps c.
Proof. unfold recall_c. rewrite tp_relabel, fn_relabel. reflexivity. Qed.
Lemma f1_relabel ps c : f1_c (relabel pi ps) (pi c) = f1_c ps c.
Proof. unfold f1_c. rewrite tp_relabel, fp_relabel, fn_relabel. reflexivity. Qed.
Lemma present_relabel ps c : present (relabel pi ps) (pi c) = present ps c.
Proof. unfold present. rewrite tp_relabel, fp_relabel, fn_relabel. reflexivity. Qed.
Lemma support_relabel ps c : support (relabel pi ps) (pi c) = support ps c.
Proof. unfold support. rewrite tp_relabel, fn_relabel. reflexivity. Qed.

(* pi permutes the list of classes *)
Lemma in_classes c : In c (classes n) <-> inrange n c = true.
Proof.
  unfold classes, inrange. rewrite in_map_iff. split.
  - intros [k [<- Hk]]. apply in_seq in Hk. apply andb_true_intro. split; [apply Z.leb_le|apply Z.ltb_lt]; lia.
  - intros H. apply andb_prop in H as [H1 H2]. apply Z.leb_le in H1. apply Z.ltb_lt in H2. exists (Z.to_nat c). split; [lia|apply in_seq; lia].
Qed.
Lemma classes_nodup : NoDup (classes n).
Proof. unfold classes. apply FinFun.Injective_map_NoDup; [intros a b H; lia|apply seq_NoDup]. Qed.
Lemma classes_perm : Permutation (map pi (classes n)) (classes n).
Proof.
  destruct Hpi as [Hi Hr]. apply NoDup_Permutation_bis.
  - apply FinFun.Injective_map_NoDup; [exact Hi|apply classes_nodup].
  - rewrite map_length. apply Nat.le_refl.
  - intros c Hc. apply in_map_iff in Hc as [k [<- Hk]]. apply in_classes, Hr, in_classes, Hk.
Qed.
End Relabel.

Lemma perm_filter {X} (P : X -> bool) l l' : Permutation l l' -> Permutation (filter P l) (filter P l').
Proof.
  induction 1 as [|x0 l0 l0' _ IH|x0 y0 l0|l1 l2 l3 _ IH1 _ IH2]; cbn [filter].
  - constructor.
  - destruct (P x0); [constructor|]; exact IH.
  - destruct (P x0), (P y0); try apply Permutation_refl; apply perm_swap.
  - eapply Permutation_trans; eassumption.
Qed.
Lemma xadd_comm a b : xadd a b = xadd b a.
Proof. destruct a, b; cbn; try reflexivity. f_equal. ring. Qed.
Lemma xadd_assoc a b c : xadd (xadd a b) c = xadd a (xadd b c).
Proof. destruct a, b, c; cbn; try reflexivity. f_equal. ring. Qed.
Lemma xsum_perm l l' : Permutation l l' -> xsum l = xsum l'.
Proof.
  intros H. unfold xsum. generalize (Fin 0). induction H as [|x0 l0 l0' _ IH|x0 y0 l0|l1 l2 l3 _ IH1 _ IH2]; intros a; cbn [fold_left].
  - reflexivity.
  - apply IH.
  - rewrite !xadd_assoc, (xadd_comm y0 x0). reflexivity.
  - rewrite IH1. apply IH2.
Qed.
Lemma xmean_perm l l' : Permutation l l' -> xmean l = xmean l'.
Proof. intros H. unfold xmean. rewrite (xsum_perm l l' H), (Permutation_length H). reflexivity. Qed.

(* an average over the present classes is invariant when a class-indexed function and the presence
   predicate are transported along pi *)
Lemma avg_relabel n pi (Hpi : perm_on n pi) (agg : list xq -> xq) (Hagg : forall l l', Permutation l l' -> agg l = agg l')
  (g g' : Z -> xq) (P P' : Z -> bool) :
  (forall c, g' (pi c) = g c) -> (forall c, P' (pi c) = P c) ->
  agg (map g' (filter P' (classes n))) = agg (map g (filter P (classes n))).
Proof.
  intros Hg HP. rewrite (Hagg _ (map g' (filter P' (map pi (classes n))))).
  - rewrite filter_map, map_map. rewrite (filter_ext _ P) by exact HP. f_equal. apply map_ext. exact Hg.
  - apply Permutation_map, perm_filter, Permutation_sym, (classes_perm n pi Hpi).
Qed.

(* the textbook precision / recall / F1 under relabelling: micro / macro / weighted unchanged;
   per-class results are permuted (value at class pi c after = value at class c before) *)
Definition res_at (r : res) (c : Z) : xq := match r with RV l => nth (Z.to_nat c) l NaN | _ => NaN end.
Definition is_avg (a : avg) : Prop := a <> NoAvg.

Lemma prf_textbook_relabel n pi (m : list (Z * Z) -> Z -> xq) a b b' :
  perm_on n pi -> (forall ps c, m (relabel pi ps) (pi c) = m ps c) ->
  pairs_spec b' = relabel pi (pairs_spec b) ->
  (a <> NoAvg -> prf_spec_of m micro_spec (a, Some n) b' = prf_spec_of m micro_spec (a, Some n) b) /\
  (a = NoAvg -> forall c, inrange n c = true ->
     res_at (prf_spec_of m micro_spec (a, Some n) b') (pi c) = res_at (prf_spec_of m micro_spec (a, Some n) b) c).
Proof.
  intros Hpi Hm Hps. unfold prf_spec_of. cbn [fst snd ncls]. rewrite Hps. set (ps := pairs_spec b). split.
  - intros Ha. destruct a; [| | |congruence]; f_equal.
    + unfold micro_spec. rewrite (correct_relabel n pi Hpi), len_relabel. reflexivity.
    + unfold macro_of. apply (avg_relabel n pi Hpi xmean xmean_perm); [apply Hm|apply (present_relabel n pi Hpi)].
    + unfold weighted_of. apply (avg_relabel n pi Hpi xsum xsum_perm); [|apply (present_relabel n pi Hpi)].
      intros c. rewrite Hm, (support_relabel n pi Hpi), len_relabel. reflexivity.
  - intros -> c Hc. cbn [res_at]. destruct Hpi as [Hi Hr]. pose proof (Hr c Hc) as Hc'.
    unfold inrange in Hc, Hc'. apply andb_prop in Hc as [H1 H2]. apply andb_prop in Hc' as [H1' H2'].
    apply Z.leb_le in H1, H1'. apply Z.ltb_lt in H2, H2'.
    rewrite !nth_classes by lia. rewrite !Z2Nat.id by lia. apply Hm.
Qed.

(* ---- transfer to the functional forms ---- *)
(* [b'] is a relabelled version of [b]: its per-sample (prediction, target) pairs are those of [b] mapped
   through pi.  Instances: label inputs (below), score inputs with permuted columns (further below). *)
Definition relabelled (pi : Z -> Z) (b b' : mcbatch) : Prop := pairs_spec b' = relabel pi (pairs_spec b).
Definition mc_relabel (pi : Z -> Z) (b : mcbatch) : mcbatch :=
  (match fst b with Labels l => Labels (map pi l) | Logits r => Logits r end, map pi (snd b)).
Lemma relabelled_labels pi l t : relabelled pi (Labels l, t) (mc_relabel pi (Labels l, t)).
Proof. unfold relabelled, mc_relabel, pairs_spec, relabel. cbn [fst snd preds_spec]. apply combine_map2. Qed.

Theorem mcprec_relabel n pi a b b' : perm_on n pi -> relabelled pi b b' ->
  (a = Weighted -> targets_in n b /\ targets_in n b') ->
  (a <> NoAvg -> fn_of mcprec_spec (a, Some n) b' = fn_of mcprec_spec (a, Some n) b) /\
  (a = NoAvg -> forall c, inrange n c = true ->
     res_at (fn_of mcprec_spec (a, Some n) b') (pi c) = res_at (fn_of mcprec_spec (a, Some n) b) c).
Proof.
  intros Hpi Hr Hv. rewrite !mcprec_algo_eq_spec by (intros E; apply Hv, E).
  apply (prf_textbook_relabel n pi precision_c a b b' Hpi); [intros ps c; apply (precision_relabel n pi Hpi)|exact Hr].
Qed.
Theorem mcrec_relabel n pi a b b' : perm_on n pi -> relabelled pi b b' -> aligned b -> aligned b' ->
  (a = Weighted -> targets_in n b /\ targets_in n b') ->
  (a <> NoAvg -> fn_of mcrec_spec (a, Some n) b' = fn_of mcrec_spec (a, Some n) b) /\
  (a = NoAvg -> forall c, inrange n c = true ->
     res_at (fn_of mcrec_spec (a, Some n) b') (pi c) = res_at (fn_of mcrec_spec (a, Some n) b) c).
Proof.
  intros Hpi Hr A A' Hv. rewrite !mcrec_algo_eq_spec by (try assumption; intros E; apply Hv, E).
  apply (prf_textbook_relabel n pi recall_c a b b' Hpi); [intros ps c; apply (recall_relabel n pi Hpi)|exact Hr].
Qed.
Theorem mcf1_relabel n pi a b b' : perm_on n pi -> relabelled pi b b' -> aligned b -> aligned b' ->
  (a = Weighted -> targets_in n b /\ targets_in n b') ->
  (a <> NoAvg -> fn_of mcf1_spec (a, Some n) b' = fn_of mcf1_spec (a, Some n) b) /\
  (a = NoAvg -> forall c, inrange n c = true ->
     res_at (fn_of mcf1_spec (a, Some n) b') (pi c) = res_at (fn_of mcf1_spec (a, Some n) b) c).
Proof.
  intros Hpi Hr A A' Hv. rewrite !mcf1_algo_eq_spec by (try assumption; intros E; apply Hv, E).
  apply (prf_textbook_relabel n pi f1_c a b b' Hpi); [intros ps c; apply (f1_relabel n pi Hpi)|exact Hr].
Qed.

(* confusion matrix: rows and columns are permuted; every normalisation *)
Definition mat_at (r : res) (i j : Z) : xq := match r with RM m => nth (Z.to_nat j) (nth (Z.to_nat i) m []) NaN | _ => NaN end.
Lemma idx_in n c : inrange n c = true -> (Z.to_nat c < n)%nat /\ Z.of_nat (Z.to_nat c) = c.
Proof. unfold inrange. intros H. apply andb_prop in H as [H1 H2]. apply Z.leb_le in H1. apply Z.ltb_lt in H2. lia. Qed.
Lemma cm_textbook_relabel n pi nm ps i j : perm_on n pi -> inrange n i = true -> inrange n j = true ->
  mat_at (cm_textbook_ps n nm (relabel pi ps)) (pi i) (pi j) = mat_at (cm_textbook_ps n nm ps) i j.
Proof.
  intros Hpi Hi Hj. pose proof (proj2 Hpi i Hi) as Hi'. pose proof (proj2 Hpi j Hj) as Hj'.
  destruct (idx_in n i Hi) as [Li Ei], (idx_in n j Hj) as [Lj Ej], (idx_in n _ Hi') as [Li' Ei'], (idx_in n _ Hj') as [Lj' Ej'].
  unfold cm_textbook_ps, mat_at. rewrite !(nth_classes _ _ n) by assumption. cbn beta.
  rewrite Ei, Ej, Ei', Ej', (cell_relabel n pi Hpi), len_relabel.
  assert (Hc : cnt (fun py : Z * Z => fst py =? pi j) (relabel pi ps) = cnt (fun py : Z * Z => fst py =? j) ps).
  { unfold relabel. rewrite cnt_map. apply cnt_ext. intros [p y]. cbn [fst]. apply (eqb_pi n pi Hpi). }
  assert (Hrw : cnt (fun py : Z * Z => snd py =? pi i) (relabel pi ps) = cnt (fun py : Z * Z => snd py =? i) ps).
  { unfold relabel. rewrite cnt_map. apply cnt_ext. intros [p y]. cbn [snd]. apply (eqb_pi n pi Hpi). }
  rewrite Hc, Hrw. reflexivity.
Qed.
Theorem mccm_relabel n pi nm b b' i j : perm_on n pi -> relabelled pi b b' -> cm_ok (n, nm) b -> cm_ok (n, nm) b' ->
  inrange n i = true -> inrange n j = true ->
  mat_at (fn_of mccm_spec (n, nm) b') (pi i) (pi j) = mat_at (fn_of mccm_spec (n, nm) b) i j.
Proof.
  intros Hpi Hr O O' Hi Hj. rewrite !mccm_algo_eq_spec by assumption. unfold mccm_textbook. cbn [fst snd]. rewrite Hr.
  apply cm_textbook_relabel; assumption.
Qed.

(* accuracy: a sample is (correct?, target); relabelling maps the targets and keeps correctness *)
Definition acc_relabelled (pi : Z -> Z) (c : acc_cfg) (b b' : mcbatch) : Prop :=
  acc_samples c b' = map (fun s => (fst s, pi (snd s))) (acc_samples c b).
Lemma mcacc_textbook_relabel n pi a k b b' : perm_on n pi -> acc_relabelled pi (a, Some n, k) b b' ->
  (a = Micro \/ a = Macro -> mcacc_textbook (a, Some n, k) b' = mcacc_textbook (a, Some n, k) b) /\
  (a = NoAvg -> forall c, inrange n c = true ->
     res_at (mcacc_textbook (a, Some n, k) b') (pi c) = res_at (mcacc_textbook (a, Some n, k) b) c).
Proof.
  intros Hpi Hr. unfold mcacc_textbook. cbv zeta. rewrite Hr. set (cs := acc_samples (a, Some n, k) b). unfold acc_avg, acc_nc. cbn [fst snd ncls].
  assert (Hc1 : forall c, cnt (fun s : bool * Z => snd s =? pi c) (map (fun s : bool * Z => (fst s, pi (snd s))) cs) = cnt (fun s : bool * Z => snd s =? c) cs).
  { intros c. rewrite cnt_map. apply cnt_ext. intros [m y]. cbn [snd]. apply (eqb_pi n pi Hpi). }
  assert (Hc2 : forall c, cnt (fun s : bool * Z => fst s && (snd s =? pi c)) (map (fun s : bool * Z => (fst s, pi (snd s))) cs) = cnt (fun s : bool * Z => fst s && (snd s =? c)) cs).
  { intros c. rewrite cnt_map. apply cnt_ext. intros [m y]. cbn [fst snd]. rewrite (eqb_pi n pi Hpi). reflexivity. }
  assert (Hacc : forall c, acc_c (map (fun s : bool * Z => (fst s, pi (snd s))) cs) (pi c) = acc_c cs c).
  { intros c. unfold acc_c. rewrite Hc1, Hc2. reflexivity. }
  split.
  - intros [->| ->]; f_equal.
    + rewrite cnt_map, lenZ_map. reflexivity.
    + apply (avg_relabel n pi Hpi xmean xmean_perm); [exact Hacc|]. intros c. rewrite Hc1. reflexivity.
  - intros -> c Hc. cbn [res_at]. destruct (idx_in n c Hc) as [L E], (idx_in n _ (proj2 Hpi c Hc)) as [L' E'].
    rewrite !nth_classes by assumption. rewrite E, E'. apply Hacc.
Qed.
Theorem mcacc_relabel n pi a k b b' : perm_on n pi -> acc_relabelled pi (a, Some n, k) b b' ->
  acc_valid (a, Some n, k) b = true -> acc_valid (a, Some n, k) b' = true ->
  (a = Micro \/ a = Macro -> fn_of mcacc_spec (a, Some n, k) b' = fn_of mcacc_spec (a, Some n, k) b) /\
  (a = NoAvg -> forall c, inrange n c = true ->
     res_at (fn_of mcacc_spec (a, Some n, k) b') (pi c) = res_at (fn_of mcacc_spec (a, Some n, k) b) c).
Proof.
  intros Hpi Hr V V'. rewrite !mcacc_algo_eq_spec by (apply acc_valid_targets; assumption).
  apply mcacc_textbook_relabel; assumption.
Qed.
(* label inputs, k = 1 *)
Lemma acc_relabelled_labels n pi a l t : perm_on n pi ->
  acc_relabelled pi (a, Some n, 1%nat) (Labels l, t) (mc_relabel pi (Labels l, t)).
Proof.
  intros Hpi. unfold acc_relabelled, acc_samples, acc_k. cbn [snd Nat.eqb]. rewrite (relabelled_labels pi l t). unfold relabel.
  rewrite !map_map. apply map_ext. intros [p y]. cbn [fst snd]. rewrite (eqb_pi n pi Hpi). reflexivity.
Qed.

(* ------------------------------------------------------------------------------------------ *)
(* C16: one-vs-rest decomposition                                                              *)
(* ------------------------------------------------------------------------------------------ *)
Definition ovr (c : Z) (ps : list (Z * Z)) : list (Z * Z) := map (fun py => (b2z (fst py =? c), b2z (snd py =? c))) ps.
(* the binary problem "class c against the rest" as a batch for the BINARY functional forms (threshold 1) *)
Definition ovr_batch (c : Z) (b : mcbatch) : binbatch :=
  (map (fun p => b2z (p =? c)) (preds_spec (fst b)), map (fun y => b2z (y =? c)) (snd b)).
Definition scalar (r : res) : xq := match r with RS x => x | _ => NaN end.

Lemma tp_ovr c ps : tp 1 (ovr c ps) = tp c ps.
Proof. unfold tp, ovr. rewrite cnt_map. apply cnt_ext. intros [p y]. cbn [fst snd]. rewrite !b2z_eq1. reflexivity. Qed.
Lemma fp_ovr c ps : fp 1 (ovr c ps) = fp c ps.
Proof. unfold fp, ovr. rewrite cnt_map. apply cnt_ext. intros [p y]. cbn [fst snd]. rewrite !b2z_eq1. reflexivity. Qed.
Lemma fn_ovr c ps : fn 1 (ovr c ps) = fn c ps.
Proof. unfold fn, ovr. rewrite cnt_map. apply cnt_ext. intros [p y]. cbn [fst snd]. rewrite !b2z_eq1. reflexivity. Qed.
Lemma ovr_pairs c b : bin_pairs_spec 1 (ovr_batch c b) = ovr c (pairs_spec b).
Proof.
  unfold bin_pairs_spec, ovr_batch, ovr, pairs_spec. cbn [fst snd]. rewrite map_map, combine_map2. apply map_ext. intros [p y]. cbn [fst snd].
  destruct (p =? c); reflexivity.
Qed.
Lemma ovr_valid c b : aligned b -> bin_valid (ovr_batch c b) = true.
Proof.
  unfold aligned, bin_valid, ovr_batch. cbn [fst snd]. rewrite <- preds_eq. intros H. rewrite !map_length, H, Nat.eqb_refl. cbn [andb].
  apply forallb_forall. intros z Hz. apply in_map_iff in Hz as [y [<- _]]. destruct (y =? c); reflexivity.
Qed.

Lemma res_at_classes (g : Z -> xq) n c : inrange n c = true -> res_at (RV (map g (classes n))) c = g c.
Proof. intros H. destruct (idx_in n c H) as [L E]. cbn [res_at]. rewrite nth_classes by exact L. rewrite E. reflexivity. Qed.

(* per-class (average=None) value at class c = the BINARY functional on the one-vs-rest problem *)
Theorem precision_per_class_is_binary n b c : inrange n c = true -> aligned b ->
  RS (res_at (fn_of mcprec_spec (NoAvg, Some n) b) c) = fn_of binprec_spec 1 (ovr_batch c b).
Proof.
  intros Hc Hal. rewrite mcprec_algo_eq_spec by discriminate. rewrite (binprec_algo_eq_spec 1 _ (ovr_valid c b Hal)).
  unfold mcprec_textbook, prf_spec_of, binprec_textbook. cbn [fst snd ncls]. rewrite res_at_classes by exact Hc.
  rewrite ovr_pairs. unfold precision_c. rewrite tp_ovr, fp_ovr. reflexivity.
Qed.
Theorem recall_per_class_is_binary n b c : inrange n c = true -> aligned b ->
  RS (res_at (fn_of mcrec_spec (NoAvg, Some n) b) c) = fn_of binrec_spec 1 (ovr_batch c b).
Proof.
  intros Hc Hal. rewrite mcrec_algo_eq_spec by (try exact Hal; discriminate). rewrite (binrec_algo_eq_spec 1 _ (ovr_valid c b Hal)).
  unfold mcrec_textbook, prf_spec_of, binrec_textbook. cbn [fst snd ncls]. rewrite res_at_classes by exact Hc.
  rewrite ovr_pairs. unfold recall_c. rewrite tp_ovr, fn_ovr. reflexivity.
Qed.
Theorem f1_per_class_is_binary n b c : inrange n c = true -> aligned b ->
  RS (res_at (fn_of mcf1_spec (NoAvg, Some n) b) c) = fn_of binf1_spec 1 (ovr_batch c b).
Proof.
  intros Hc Hal. rewrite mcf1_algo_eq_spec by (try exact Hal; discriminate). rewrite (binf1_algo_eq_spec 1 _ (ovr_valid c b Hal)).
  unfold mcf1_textbook, prf_spec_of, binf1_textbook. cbn [fst snd ncls]. rewrite res_at_classes by exact Hc.
  rewrite ovr_pairs. unfold f1_c. rewrite tp_ovr, fp_ovr, fn_ovr. reflexivity.
Qed.

(* macro = unweighted mean of the binary one-vs-rest values over the classes present in predictions or labels *)
Theorem precision_macro_is_mean_of_binary n b : aligned b ->
  fn_of mcprec_spec (Macro, Some n) b
  = RS (xmean (map (fun c => scalar (fn_of binprec_spec 1 (ovr_batch c b))) (filter (present (pairs_spec b)) (classes n)))).
Proof.
  intros Hal. rewrite mcprec_algo_eq_spec by discriminate. unfold mcprec_textbook, prf_spec_of, macro_of. cbn [fst snd ncls]. do 2 f_equal.
  apply map_ext. intros c. rewrite (binprec_algo_eq_spec 1 _ (ovr_valid c b Hal)). unfold binprec_textbook, scalar. rewrite ovr_pairs.
  unfold precision_c. rewrite tp_ovr, fp_ovr. reflexivity.
Qed.
Theorem recall_macro_is_mean_of_binary n b : aligned b ->
  fn_of mcrec_spec (Macro, Some n) b
  = RS (xmean (map (fun c => scalar (fn_of binrec_spec 1 (ovr_batch c b))) (filter (present (pairs_spec b)) (classes n)))).
Proof.
  intros Hal. rewrite mcrec_algo_eq_spec by (try exact Hal; discriminate). unfold mcrec_textbook, prf_spec_of, macro_of. cbn [fst snd ncls]. do 2 f_equal.
  apply map_ext. intros c. rewrite (binrec_algo_eq_spec 1 _ (ovr_valid c b Hal)). unfold binrec_textbook, scalar. rewrite ovr_pairs.
  unfold recall_c. rewrite tp_ovr, fn_ovr. reflexivity.
Qed.
Theorem f1_macro_is_mean_of_binary n b : aligned b ->
  fn_of mcf1_spec (Macro, Some n) b
  = RS (xmean (map (fun c => scalar (fn_of binf1_spec 1 (ovr_batch c b))) (filter (present (pairs_spec b)) (classes n)))).
Proof.
  intros Hal. rewrite mcf1_algo_eq_spec by (try exact Hal; discriminate). unfold mcf1_textbook, prf_spec_of, macro_of. cbn [fst snd ncls]. do 2 f_equal.
  apply map_ext. intros c. rewrite (binf1_algo_eq_spec 1 _ (ovr_valid c b Hal)). unfold binf1_textbook, scalar. rewrite ovr_pairs.
  unfold f1_c. rewrite tp_ovr, fp_ovr, fn_ovr. reflexivity.
Qed.

(* micro = the binary metric of the POOLED one-vs-rest problems (all classes' binary samples in one batch) *)
Definition pooled (n : nat) (b : mcbatch) : binbatch :=
  (flat_map (fun c => fst (ovr_batch c b)) (classes n), flat_map (fun c => snd (ovr_batch c b)) (classes n)).
Lemma combine_flat_map {X A B} (f : X -> list A) (g : X -> list B) l : (forall x, List.length (f x) = List.length (g x)) ->
  combine (flat_map f l) (flat_map g l) = flat_map (fun x => combine (f x) (g x)) l.
Proof. intros H. induction l as [|x l IH]; [reflexivity|]. cbn [flat_map]. rewrite combine_app by apply H. rewrite IH. reflexivity. Qed.
Lemma cnt_flat_map {X Y} (P : Y -> bool) (f : X -> list Y) l : cnt P (flat_map f l) = sumZ (map (fun x => cnt P (f x)) l).
Proof. induction l as [|x l IH]; [reflexivity|]. cbn [flat_map map]. rewrite cnt_app, sumZ_cons, IH. reflexivity. Qed.
Lemma map_flat_map' {X A B} (h : A -> B) (f : X -> list A) l : map h (flat_map f l) = flat_map (fun x => map h (f x)) l.
Proof. induction l as [|x l IH]; [reflexivity|]. cbn [flat_map]. rewrite map_app, IH. reflexivity. Qed.
Lemma pooled_pairs n b : aligned b -> bin_pairs_spec 1 (pooled n b) = flat_map (fun c => ovr c (pairs_spec b)) (classes n).
Proof.
  intros Hal. unfold bin_pairs_spec, pooled. cbn [fst snd]. rewrite map_flat_map'.
  rewrite combine_flat_map.
  - apply flat_map_ext. intros c. apply (ovr_pairs c b).
  - intros c. unfold ovr_batch. cbn [fst snd]. unfold aligned in Hal. rewrite <- preds_eq, !map_length. exact Hal.
Qed.
Lemma sum_cnt_classes n (Q : Z -> Z * Z -> bool) (R : Z * Z -> bool) ps :
  (forall py, In py ps -> sumZ (map (fun c => b2z (Q c py)) (classes n)) = b2z (R py)) ->
  sumZ (map (fun c => cnt (Q c) ps) (classes n)) = cnt R ps.
Proof.
  induction ps as [|py ps IH]; intros H.
  - cbn [map]. clear. induction (classes n) as [|c l IHl]; [reflexivity|]. cbn [map]. rewrite sumZ_cons, IHl. reflexivity.
  - rewrite cnt_cons, <- IH, <- (H py) by (try (left; reflexivity); intros q Hq; apply H; right; exact Hq).
    rewrite (sumZ_map_ext_le _ (fun c => 1 * b2z (Q c py) + cnt (Q c) ps)) by (intros c; rewrite cnt_cons; lia).
    rewrite sumZ_lin. lia.
Qed.
Lemma sumZ_zero {X} (l : list X) : sumZ (map (fun _ => 0) l) = 0.
Proof. induction l as [|x l IH]; [reflexivity|]. cbn [map]. rewrite sumZ_cons, IH. reflexivity. Qed.
Lemma sum_tp n ps : forallb (inrange n) (map snd ps) = true -> sumZ (map (fun c => tp c ps) (classes n)) = n_correct ps.
Proof.
  intros H. apply sum_cnt_classes. intros [p y] Hin. cbn [fst snd]. rewrite forallb_forall in H.
  assert (Hy : inrange n y = true) by (apply H, in_map_iff; exists (p, y); auto).
  destruct (Z.eqb_spec p y) as [->|E].
  - rewrite (sumZ_map_ext_le _ (fun c => b2z (y =? c))) by (intros c; rewrite andb_diag; reflexivity). apply sum_onehot, Hy.
  - rewrite (sumZ_map_ext_le _ (fun _ => 0)); [apply sumZ_zero|]. intros c. destruct (Z.eqb_spec p c), (Z.eqb_spec y c); try reflexivity. lia.
Qed.
Lemma sum_fn n ps : forallb (inrange n) (map snd ps) = true -> sumZ (map (fun c => fn c ps) (classes n)) = cnt (fun py => negb (fst py =? snd py)) ps.
Proof.
  intros H. apply sum_cnt_classes. intros [p y] Hin. cbn [fst snd]. rewrite forallb_forall in H.
  assert (Hy : inrange n y = true) by (apply H, in_map_iff; exists (p, y); auto).
  destruct (Z.eqb_spec p y) as [->|E]; cbn [negb b2z].
  - rewrite (sumZ_map_ext_le _ (fun _ => 0)); [apply sumZ_zero|]. intros c. destruct (y =? c); reflexivity.
  - rewrite (sumZ_map_ext_le _ (fun c => b2z (y =? c))); [apply sum_onehot, Hy|]. intros c.
    destruct (Z.eqb_spec p c), (Z.eqb_spec y c); try reflexivity. lia.
Qed.
Lemma sum_fp n ps : forallb (inrange n) (map fst ps) = true -> sumZ (map (fun c => fp c ps) (classes n)) = cnt (fun py => negb (fst py =? snd py)) ps.
Proof.
  intros H. apply sum_cnt_classes. intros [p y] Hin. cbn [fst snd]. rewrite forallb_forall in H.
  assert (Hp : inrange n p = true) by (apply H, in_map_iff; exists (p, y); auto).
  destruct (Z.eqb_spec p y) as [->|E]; cbn [negb b2z].
  - rewrite (sumZ_map_ext_le _ (fun _ => 0)); [apply sumZ_zero|]. intros c. destruct (y =? c); reflexivity.
  - rewrite (sumZ_map_ext_le _ (fun c => b2z (p =? c))); [apply sum_onehot, Hp|]. intros c.
    destruct (Z.eqb_spec p c), (Z.eqb_spec y c); try reflexivity. lia.
Qed.
Lemma correct_plus_wrong ps : n_correct ps + cnt (fun py : Z * Z => negb (fst py =? snd py)) ps = lenZ ps.
Proof. unfold n_correct. rewrite <- cnt_true, (cnt_split (fun _ => true) (fun py : Z * Z => fst py =? snd py)). reflexivity. Qed.
Lemma pooled_valid n b : aligned b -> bin_valid (pooled n b) = true.
Proof.
  intros Hal. unfold bin_valid, pooled. cbn [fst snd]. apply andb_true_intro. split.
  - apply Nat.eqb_eq. induction (classes n) as [|c l IH]; [reflexivity|]. cbn [flat_map]. rewrite !app_length, IH. f_equal.
    unfold ovr_batch. cbn [fst snd]. unfold aligned in Hal. rewrite <- preds_eq, !map_length. exact Hal.
  - apply forallb_forall. intros z Hz. apply in_flat_map in Hz as [c [_ Hz]]. unfold ovr_batch in Hz. cbn [snd] in Hz.
    apply in_map_iff in Hz as [y [<- _]]. destruct (y =? c); reflexivity.
Qed.
Definition labels_ok (n : nat) (b : mcbatch) : Prop :=
  aligned b /\ forallb (inrange n) (map fst (pairs_spec b)) = true /\ forallb (inrange n) (map snd (pairs_spec b)) = true.
Lemma pooled_counts n b : labels_ok n b ->
  let P := bin_pairs_spec 1 (pooled n b) in let ps := pairs_spec b in
  tp 1 P = n_correct ps /\ fp 1 P = lenZ ps - n_correct ps /\ fn 1 P = lenZ ps - n_correct ps.
Proof.
  intros [Hal [Hp Hy]]. cbv zeta. rewrite (pooled_pairs n b Hal). set (ps := pairs_spec b) in *. pose proof (correct_plus_wrong ps) as Hcw.
  unfold tp at 1, fp at 1, fn at 1. rewrite !cnt_flat_map. fold (tp 1). fold (fp 1). fold (fn 1).
  rewrite (sumZ_map_ext_le _ (fun c => tp c ps)) by (intros c; apply tp_ovr).
  rewrite (sumZ_map_ext_le (fun c => fp 1 (ovr c ps)) (fun c => fp c ps)) by (intros c; apply fp_ovr).
  rewrite (sumZ_map_ext_le (fun c => fn 1 (ovr c ps)) (fun c => fn c ps)) by (intros c; apply fn_ovr).
  rewrite (sum_tp n ps Hy), (sum_fp n ps Hp), (sum_fn n ps Hy). lia.
Qed.
Theorem precision_micro_is_pooled_binary n b : labels_ok n b ->
  fn_of mcprec_spec (Micro, Some n) b = fn_of binprec_spec 1 (pooled n b).
Proof.
  intros H. destruct (pooled_counts n b H) as [Ht [Hf _]]. destruct H as [Hal _].
  rewrite mcprec_algo_eq_spec by discriminate. rewrite (binprec_algo_eq_spec 1 _ (pooled_valid n b Hal)).
  unfold mcprec_textbook, prf_spec_of, binprec_textbook, micro_spec, precision_c. cbn [fst]. rewrite Ht, Hf. do 2 f_equal. lia.
Qed.
Theorem recall_micro_is_pooled_binary n b : labels_ok n b ->
  fn_of mcrec_spec (Micro, Some n) b = fn_of binrec_spec 1 (pooled n b).
Proof.
  intros H. destruct (pooled_counts n b H) as [Ht [_ Hf]]. destruct H as [Hal _].
  rewrite mcrec_algo_eq_spec by (try exact Hal; discriminate). rewrite (binrec_algo_eq_spec 1 _ (pooled_valid n b Hal)).
  unfold mcrec_textbook, prf_spec_of, binrec_textbook, micro_spec, recall_c. cbn [fst]. rewrite Ht, Hf. do 2 f_equal. lia.
Qed.
Theorem f1_micro_is_pooled_binary n b : labels_ok n b ->
  fn_of mcf1_spec (Micro, Some n) b = fn_of binf1_spec 1 (pooled n b).
Proof.
  intros H. destruct (pooled_counts n b H) as [Ht [Hp Hf]]. destruct H as [Hal _].
  rewrite mcf1_algo_eq_spec by (try exact Hal; discriminate). rewrite (binf1_algo_eq_spec 1 _ (pooled_valid n b Hal)).
  unfold mcf1_textbook, prf_spec_of, binf1_textbook, micro_spec, f1_c. cbn [fst]. rewrite Ht, Hp, Hf. f_equal.
  rewrite <- (ratio0_double (n_correct (pairs_spec b)) (lenZ (pairs_spec b))). f_equal. lia.
Qed.

(* ------------------------------------------------------------------------------------------ *)
(* score inputs: permuting the score columns and relabelling the targets                       *)
(* ------------------------------------------------------------------------------------------ *)
(* column pi j of the new row is column j of the old one; sg is the inverse of pi on the range *)
Definition permute_cols (sg : Z -> Z) (r : list Z) : list Z := map (fun j => gather r (sg j)) (classes (List.length r)).
Definition inverse_on (n : nat) (pi sg : Z -> Z) : Prop :=
  forall c, inrange n c = true -> sg (pi c) = c /\ pi (sg c) = c.
Lemma permute_length sg r : List.length (permute_cols sg r) = List.length r.
Proof. unfold permute_cols, classes. rewrite !map_length, seq_length. reflexivity. Qed.
Lemma gather_permute_raw sg r j : inrange (List.length r) j = true -> gather (permute_cols sg r) j = gather r (sg j).
Proof. intros H. destruct (idx_in _ j H) as [L E]. unfold gather at 1, permute_cols. rewrite nth_classes by exact L. rewrite E. reflexivity. Qed.
Lemma gather_permute n pi sg r y : perm_on n pi -> inverse_on n pi sg -> List.length r = n -> inrange n y = true ->
  gather (permute_cols sg r) (pi y) = gather r y.
Proof. intros Hpi Hinv Hl Hy. rewrite gather_permute_raw by (rewrite Hl; apply Hpi, Hy). rewrite (proj1 (Hinv y Hy)). reflexivity. Qed.
Lemma list_tab (r : list Z) : r = map (gather r) (classes (List.length r)).
Proof.
  unfold classes, gather. rewrite map_map. rewrite (map_ext _ (fun k => nth k r 0)) by (intros k; rewrite Nat2Z.id; reflexivity).
  induction r as [|x r IH]; [reflexivity|]. cbn [List.length seq map nth]. f_equal. rewrite <- seq_shift, map_map. exact IH.
Qed.
Lemma permute_perm n sg r : perm_on n sg -> List.length r = n -> Permutation (permute_cols sg r) r.
Proof.
  intros Hsg Hl. rewrite (list_tab r) at 2. unfold permute_cols. rewrite Hl, <- (map_map sg (gather r)).
  apply Permutation_map, (classes_perm n sg Hsg).
Qed.
Lemma cnt_perm {X} (P : X -> bool) l l' : Permutation l l' -> cnt P l = cnt P l'.
Proof. intros H. unfold cnt. rewrite (Permutation_length (perm_filter P l l' H)). reflexivity. Qed.

(* top-k: the rank rule is symmetric -- no proviso *)
Theorem topk_symmetric n pi sg k r y : perm_on n pi -> perm_on n sg -> inverse_on n pi sg -> List.length r = n -> inrange n y = true ->
  correct_topk k (permute_cols sg r) (pi y) = correct_topk k r y.
Proof.
  intros Hpi Hsg Hinv Hl Hy. unfold correct_topk. rewrite (gather_permute n pi sg r y Hpi Hinv Hl Hy).
  rewrite (cnt_perm _ _ _ (permute_perm n sg r Hsg Hl)). reflexivity.
Qed.

(* argmax: PROVISO -- the row has a strict maximum (no tie at the maximal score); with a tie the
   first-index rule picks the lowest index, which a permutation of the columns does not preserve *)
Definition strict_max (r : list Z) (i : Z) : Prop :=
  inrange (List.length r) i = true /\ forall j, inrange (List.length r) j = true -> j <> i -> gather r j < gather r i.
Lemma strict_max_first r i : strict_max r i -> first_max r = i.
Proof.
  intros [Hi Hlt]. destruct (idx_in _ i Hi) as [L E]. rewrite <- E. apply first_max_is_first_max.
  assert (Hnth : forall k, (k < List.length r)%nat -> k <> Z.to_nat i -> nth k r 0 < nth (Z.to_nat i) r 0).
  { intros k Hk Hne. specialize (Hlt (Z.of_nat k)). unfold gather in Hlt. rewrite Nat2Z.id in Hlt. apply Hlt; [|lia].
    unfold inrange. apply andb_true_intro. split; [apply Z.leb_le|apply Z.ltb_lt]; lia. }
  split; [exact L|]. split.
  - intros x Hx. apply (In_nth _ _ 0) in Hx as [k [Hk <-]]. destruct (Nat.eq_dec k (Z.to_nat i)) as [->|Hne]; [lia|].
    specialize (Hnth k Hk Hne). lia.
  - intros j Hj. apply Hnth; lia.
Qed.
Lemma strict_max_permute n pi sg r i : perm_on n pi -> perm_on n sg -> inverse_on n pi sg -> List.length r = n ->
  strict_max r i -> strict_max (permute_cols sg r) (pi i).
Proof.
  intros Hpi Hsg Hinv Hl [Hi Hlt]. unfold strict_max. rewrite permute_length, Hl in *. split; [apply Hpi, Hi|].
  intros j Hj Hne. rewrite !gather_permute_raw by (rewrite Hl; try exact Hj; apply Hpi, Hi).
  rewrite (proj1 (Hinv i Hi)). apply Hlt; [apply Hsg, Hj|]. intros E. apply Hne. rewrite <- E. symmetry. apply (proj2 (Hinv j Hj)).
Qed.
Theorem argmax_relabel n pi sg r i : perm_on n pi -> perm_on n sg -> inverse_on n pi sg -> List.length r = n ->
  strict_max r i -> argmax (permute_cols sg r) = pi (argmax r).
Proof.
  intros Hpi Hsg Hinv Hl Hs. rewrite !argmax_eq_first_max, (strict_max_first r i Hs).
  apply strict_max_first, (strict_max_permute n pi sg r i); assumption.
Qed.

(* score batches: columns permuted, targets relabelled *)
Definition logits_relabel (pi sg : Z -> Z) (rows : list (list Z)) (t : list Z) : mcbatch :=
  (Logits (map (permute_cols sg) rows), map pi t).
Theorem relabelled_logits n pi sg rows t : perm_on n pi -> perm_on n sg -> inverse_on n pi sg ->
  Forall (fun r => List.length r = n /\ exists i, strict_max r i) rows ->
  relabelled pi (Logits rows, t) (logits_relabel pi sg rows t).
Proof.
  intros Hpi Hsg Hinv HF. unfold relabelled, logits_relabel, pairs_spec, relabel. cbn [fst snd preds_spec].
  rewrite map_map, <- combine_map2. f_equal. rewrite map_map. 
  induction HF as [|r rows [Hl [i Hs]] _ IH]; [reflexivity|]. cbn [map]. rewrite IH. f_equal.
  rewrite <- !argmax_eq_first_max. apply (argmax_relabel n pi sg r i); assumption.
Qed.
(* top-k accuracy on score batches: no proviso *)
Theorem acc_relabelled_logits_topk n pi sg a k rows t : perm_on n pi -> perm_on n sg -> inverse_on n pi sg ->
  Nat.eqb k 1 = false -> Forall (fun r => List.length r = n) rows -> forallb (inrange n) t = true ->
  acc_relabelled pi (a, Some n, k) (Logits rows, t) (logits_relabel pi sg rows t).
Proof.
  intros Hpi Hsg Hinv Hk HF Ht. unfold acc_relabelled, acc_samples, acc_k, logits_relabel. cbn [fst snd]. rewrite Hk.
  rewrite combine_map2, !map_map. apply map_ext_in. intros [r y] Hin. cbn [fst snd].
  pose proof (in_combine_l _ _ _ _ Hin) as Hr. pose proof (in_combine_r _ _ _ _ Hin) as Hy.
  rewrite Forall_forall in HF. rewrite forallb_forall in Ht.
  rewrite (topk_symmetric n pi sg k r y Hpi Hsg Hinv (HF r Hr) (Ht y Hy)). reflexivity.
Qed.
