(* C18: check functions whose generated term is NOT equivalent to the docstring contract on the as-is tree:
   witness environments, the completeness half (contract -> accepted), and the as-is-or-fixed dichotomy. *)
From Coq Require Import ZArith List Bool String Lia.
From TE Require Import Models.ShapeLang Generated.ShapeChecks Models.Contracts Proofs.ShapesTac.
Import ListNotations.
Open Scope string_scope.

Definition wit_ne_input_check_0 : env := env_of [("input", (ATensor [])); ("target", (ATensor [])); ("from_logits", (ABool true)); ("num_tasks", (AInt 1)); ("weight", ANone)] [] (Some false).
(* completeness half: every documented input is accepted *)
Lemma impl_ne_input_check e : wf sig_ne_input_check e -> implb (contractb_ne_input_check e) (accepts chk_ne_input_check e) = true.
Proof. intros H. unfold chk_ne_input_check, contractb_ne_input_check. shape_solve H. Qed.
Lemma contract_implies_accepts_ne_input_check : forall e, wf sig_ne_input_check e -> contract_ne_input_check e -> accepts chk_ne_input_check e = true.
Proof. intros e H C. exact (implb_true_intro _ _ (impl_ne_input_check e H) C). Qed.
(* the equivalence itself: refuted on the as-is tree by the witness(es) above; if the check is repaired in /repo the
   left disjunct is proved instead by the generic tactic (same statement checks on both trees) *)
Lemma check_iff_contract_ne_input_check_refuted_or_fixed :
  (forall e, wf sig_ne_input_check e -> accepts chk_ne_input_check e = contractb_ne_input_check e)
  \/ (exists e, wf sig_ne_input_check e /\ accepts chk_ne_input_check e <> contractb_ne_input_check e).
Proof.
  first [ left; intros e H; unfold chk_ne_input_check, contractb_ne_input_check; solve [shape_solve H]
        | right; exists wit_ne_input_check_0; vm_compute; repeat split; congruence ].
Qed.
Definition refuted_now_ne_input_check : bool := negb (Bool.eqb (accepts chk_ne_input_check wit_ne_input_check_0) (contractb_ne_input_check wit_ne_input_check_0)).

Definition wit_wasserstein_update_input_check_0 : env := env_of [("x", (ATensor [])); ("y", (ATensor [])); ("x_weights", ANone); ("y_weights", ANone)] [] (Some true).
(* completeness half: every documented input is accepted *)
Lemma impl_wasserstein_update_input_check e : wf sig_wasserstein_update_input_check e -> implb (contractb_wasserstein_update_input_check e) (accepts chk_wasserstein_update_input_check e) = true.
Proof. intros H. unfold chk_wasserstein_update_input_check, contractb_wasserstein_update_input_check. shape_solve H. Qed.
Lemma contract_implies_accepts_wasserstein_update_input_check : forall e, wf sig_wasserstein_update_input_check e -> contract_wasserstein_update_input_check e -> accepts chk_wasserstein_update_input_check e = true.
Proof. intros e H C. exact (implb_true_intro _ _ (impl_wasserstein_update_input_check e H) C). Qed.
(* the equivalence itself: refuted on the as-is tree by the witness(es) above; if the check is repaired in /repo the
   left disjunct is proved instead by the generic tactic (same statement checks on both trees) *)
Lemma check_iff_contract_wasserstein_update_input_check_refuted_or_fixed :
  (forall e, wf sig_wasserstein_update_input_check e -> accepts chk_wasserstein_update_input_check e = contractb_wasserstein_update_input_check e)
  \/ (exists e, wf sig_wasserstein_update_input_check e /\ accepts chk_wasserstein_update_input_check e <> contractb_wasserstein_update_input_check e).
Proof.
  first [ left; intros e H; unfold chk_wasserstein_update_input_check, contractb_wasserstein_update_input_check; solve [shape_solve H]
        | right; exists wit_wasserstein_update_input_check_0; vm_compute; repeat split; congruence ].
Qed.
Definition refuted_now_wasserstein_update_input_check : bool := negb (Bool.eqb (accepts chk_wasserstein_update_input_check wit_wasserstein_update_input_check_0) (contractb_wasserstein_update_input_check wit_wasserstein_update_input_check_0)).

