(* C11, sync clause: "syncing leaves the local metric's results unchanged and can be repeated with
   the same outcome".

   What the code does (torcheval/metrics/toolkit.py).  With a process group of one member,
   get_synced_metric returns the metric itself and touches nothing.  Otherwise _sync_metric_object
   calls metric._prepare_for_merge_state() ON THE LOCAL OBJECT -- this is the only write to it --,
   reads metric.state_dict(), gathers the dicts of all members, rebuilds pseudo-metrics from the
   other members' dicts, and get_synced_metric returns
   clone_metric(metric).to(device).merge_state(others); sync_and_compute computes on that clone.

   MODELLED EFFECT.  Models/Toolkit.v is generic in the metric objects ([sd m] = state_dict after
   _prepare_for_merge_state, [mrg m others] = clone + merge_state) and does not represent the write
   to the local object.  Here the toolkit model is instantiated with a value model [M : Metric]
   ([tk_sd], [tk_mrg] below) and the effect of one sync on the local object is
       local_after_sync n s  =  if n = 1 then s else prep M c s.
   That the local object is written only through _prepare_for_merge_state is tied by (a) the
   skeletons regenerated from the source by tools/tr_effects.py (Generated/Skeletons.v lists the
   statements of every _prepare_for_merge_state; clone_metric is a deepcopy) and (b) the stream
   C11_sync (vlib/syncdirect.py: compute() and registered states of the local object before vs after
   sync, first vs second sync, use of the synced object vs the local one, on every catalogue class).

   The theory: [PrepLaws M c] (prep idempotent, invisible to compute, invisible to every later
   history of the object, invisible when the object is later used as a merge source), the three
   sync theorems from PrepLaws, a proof method (a congruence [R] with [R (prep s) s]), and the
   instances: identity prep (Additive functor and the hand-written models), the Cache functor,
   the score caches of Models/Ranking.v, AUC. *)
From Coq Require Import ZArith List Bool String Arith Lia.
From TE Require Import Base.Val Algebra.Metric Algebra.Pool Algebra.Behave Algebra.Additive Algebra.Cache
     Models.Proto Models.Synclib Models.Toolkit Proofs.ProtoP Proofs.SynclibP Proofs.ToolkitP.
Import ListNotations.
Open Scope list_scope.

(* ------------------------------------------------------------------------------------------ *)
(* 1. Observations and the laws                                                                 *)
(* ------------------------------------------------------------------------------------------ *)
Section Laws.
Variable M : Metric.
Variable c : cfg M.

(* what a user can see of one operation: it went through (the representation of the new state is
   not a result), it raised, or compute() returned a value *)
Inductive vis := VStep | VRaise | VOut (o : out M).
Definition vis_of (o : sobs M) : vis :=
  match o with OState _ _ => VStep | ORaise _ => VRaise | OOut _ o => VOut o end.
Definition outs (s : st M) (ops : list (sop M)) : list vis := map vis_of (behave M c s ops).

(* the same, with the model record out of the way (for computing concrete examples) *)
Definition results (l : list vis) : list (option (option (out M))) :=
  map (fun v => match v with VStep => None | VRaise => Some None | VOut o => Some (Some o) end) l.
Lemma results_injective : forall l l', results l = results l' -> l = l'.
Proof.
  induction l as [|v l IH]; intros [|v' l'] H; cbn in H; try discriminate; [reflexivity|].
  injection H as Hv Hl. rewrite (IH l' Hl). destruct v, v'; try discriminate; try reflexivity.
  injection Hv as ->. reflexivity.
Qed.

Lemma outs_nil s : outs s [] = [].
Proof. reflexivity. Qed.
Lemma outs_upd s b r : outs s (SUpd M b :: r) =
  if valid M c b then VStep :: outs (upd M c s b) r else VRaise :: outs s r.
Proof. unfold outs. cbn [behave]. destruct (valid M c b); reflexivity. Qed.
Lemma outs_merge s srcs r : outs s (SMerge M srcs :: r) = VStep :: outs (mrg M c s srcs) r.
Proof. reflexivity. Qed.
Lemma outs_compute s r : outs s (SCompute M :: r) = VOut (cmp M c s) :: outs s r.
Proof. reflexivity. Qed.
Lemma outs_prep s r : outs s (SPrep M :: r) = VStep :: outs (prep M c s) r.
Proof. reflexivity. Qed.

Record PrepLaws : Prop := {
  pl_idem : forall s, prep M c (prep M c s) = prep M c s;
  pl_cmp : forall s, cmp M c (prep M c s) = cmp M c s;
  (* bisimulation up to representation: after prep, every later history (updates, merges with
     arbitrary sources, computes, further preps) shows the same results and the same raises *)
  pl_later : forall s ops, outs (prep M c s) ops = outs s ops;
  (* ... and so does every object into which the prepared object is merged later *)
  pl_source : forall t l1 s l2 ops,
      outs (mrg M c t (l1 ++ prep M c s :: l2)) ops = outs (mrg M c t (l1 ++ s :: l2)) ops }.

(* ---- proof method: a congruence for all operations that relates prep s to s ---- *)
Record ObsCong (R : st M -> st M -> Prop) : Prop := {
  oc_refl : forall s, R s s;
  oc_upd : forall s t b, R s t -> R (upd M c s b) (upd M c t b);
  oc_mrg : forall s t ms ns, R s t -> Forall2 R ms ns -> R (mrg M c s ms) (mrg M c t ns);
  oc_prep : forall s t, R s t -> R (prep M c s) (prep M c t);
  oc_cmp : forall s t, R s t -> cmp M c s = cmp M c t;
  oc_prep_rel : forall s, R (prep M c s) s }.

(* histories whose merge sources are pairwise related (e.g. other objects that were themselves
   synced at some point of their history) *)
Inductive sop_rel (R : st M -> st M -> Prop) : sop M -> sop M -> Prop :=
| sr_upd b : sop_rel R (SUpd M b) (SUpd M b)
| sr_merge ms ns : Forall2 R ms ns -> sop_rel R (SMerge M ms) (SMerge M ns)
| sr_compute : sop_rel R (SCompute M) (SCompute M)
| sr_prep : sop_rel R (SPrep M) (SPrep M).

Lemma Forall2_refl_of {X} (R : X -> X -> Prop) : (forall x, R x x) -> forall l, Forall2 R l l.
Proof. intros H l. induction l as [|x l IH]; constructor; [apply H|exact IH]. Qed.

Lemma sop_rel_refl (R : st M -> st M -> Prop) : (forall s, R s s) -> forall o, sop_rel R o o.
Proof. intros H [b|ms| |]; constructor. apply Forall2_refl_of. exact H. Qed.

Lemma cong_outs_rel (R : st M -> st M -> Prop) : ObsCong R -> forall ops ops', Forall2 (sop_rel R) ops ops' ->
  forall s t, R s t -> outs s ops = outs t ops'.
Proof.
  intros HC ops ops' Hops. induction Hops as [|o o' r r' Ho Hr IH]; intros s t Hst; [reflexivity|].
  destruct Ho as [b|ms ns Hms| |].
  - rewrite !outs_upd. destruct (valid M c b).
    + f_equal. apply IH. apply (oc_upd R HC). exact Hst.
    + f_equal. apply IH. exact Hst.
  - rewrite !outs_merge. f_equal. apply IH. apply (oc_mrg R HC); assumption.
  - rewrite !outs_compute. f_equal; [f_equal; apply (oc_cmp R HC); exact Hst|]. apply IH. exact Hst.
  - rewrite !outs_prep. f_equal. apply IH. apply (oc_prep R HC). exact Hst.
Qed.

Lemma cong_outs (R : st M -> st M -> Prop) : ObsCong R -> forall s t ops, R s t -> outs s ops = outs t ops.
Proof.
  intros HC s t ops Hst. apply (cong_outs_rel R HC ops ops); [|exact Hst].
  apply Forall2_refl_of. apply sop_rel_refl. apply (oc_refl R HC).
Qed.

Lemma Forall2_middle {X} (R : X -> X -> Prop) : (forall x, R x x) -> forall l1 x y l2, R x y ->
  Forall2 R (l1 ++ x :: l2) (l1 ++ y :: l2).
Proof.
  intros H l1 x y l2 Hxy. apply Forall2_app; [apply Forall2_refl_of; exact H|].
  constructor; [exact Hxy|apply Forall2_refl_of; exact H].
Qed.

Theorem PrepLaws_of_cong (R : st M -> st M -> Prop) : ObsCong R -> (forall s, prep M c (prep M c s) = prep M c s) -> PrepLaws.
Proof.
  intros HC Hidem. constructor.
  - exact Hidem.
  - intros s. apply (oc_cmp R HC). apply (oc_prep_rel R HC).
  - intros s ops. apply (cong_outs R HC). apply (oc_prep_rel R HC).
  - intros t l1 s l2 ops. apply (cong_outs R HC). apply (oc_mrg R HC); [apply (oc_refl R HC)|].
    apply Forall2_middle; [apply (oc_refl R HC)|apply (oc_prep_rel R HC)].
Qed.

(* identity prep: nothing to show *)
Theorem PrepLaws_of_id : (forall s, prep M c s = s) -> PrepLaws.
Proof.
  intros H. constructor.
  - intros s. rewrite !H. reflexivity.
  - intros s. rewrite H. reflexivity.
  - intros s ops. rewrite H. reflexivity.
  - intros t l1 s l2 ops. rewrite H. reflexivity.
Qed.

(* the laws are not automatic: a metric whose prep loses information violates pl_cmp *)

(* ------------------------------------------------------------------------------------------ *)
(* 2. The sync theorems                                                                         *)
(* ------------------------------------------------------------------------------------------ *)

(* the modelled effect of one get_synced_metric / sync_and_compute / get_synced_state_dict call on
   the local object, in a process group of n members *)
Definition local_after_sync (n : nat) (s : st M) : st M := if Nat.eqb n 1 then s else prep M c s.
Fixpoint local_after_syncs (k n : nat) (s : st M) : st M :=
  match k with O => s | S k => local_after_sync n (local_after_syncs k n s) end.

Lemma local_after_syncs_eq : PrepLaws -> forall k n s,
  local_after_syncs k n s = match k with O => s | S _ => local_after_sync n s end.
Proof.
  intros L k n s. induction k as [|k IH]; [reflexivity|]. cbn [local_after_syncs]. rewrite IH.
  destruct k as [|k]; [reflexivity|]. unfold local_after_sync. destruct (Nat.eqb n 1); [reflexivity|].
  apply (pl_idem L).
Qed.

(* (a) the local object: its compute() and every later result are those it would have given
   without the sync; any number of syncs *)
Theorem sync_leaves_local_results_unchanged : PrepLaws -> forall k n s,
  cmp M c (local_after_syncs k n s) = cmp M c s /\
  (forall ops, outs (local_after_syncs k n s) ops = outs s ops) /\
  (forall t l1 l2 ops, outs (mrg M c t (l1 ++ local_after_syncs k n s :: l2)) ops
                       = outs (mrg M c t (l1 ++ s :: l2)) ops).
Proof.
  intros L k n s. rewrite (local_after_syncs_eq L). destruct k as [|k]; [repeat split|].
  unfold local_after_sync. destruct (Nat.eqb n 1); [repeat split|].
  split; [apply (pl_cmp L)|]. split; [apply (pl_later L)|]. intros t l1 l2 ops. apply (pl_source L).
Qed.

(* ---- the toolkit model instantiated with the value model ---- *)
Section OnToolkit.
Variable enc : st M -> sdict.                (* state_dict() as the transport sees it *)
Variable dec : pseudo_t -> st M.             (* the pseudo-metric type("", (), rank_data) as merge_state reads it *)
Variable fx : fixes.
Variable g : list nat.

Definition tk_sd (s : st M) : sdict := enc (save M c (prep M c s)).
Definition tk_mrg (s : st M) (ps : list pseudo_t) : st M := mrg M c (prep M c s) (map dec ps).

Lemma tk_sd_after : PrepLaws -> forall k n s, n <> 1 -> tk_sd (local_after_syncs k n s) = tk_sd s.
Proof.
  intros L k n s Hn. rewrite (local_after_syncs_eq L). destruct k as [|k]; [reflexivity|].
  unfold local_after_sync, tk_sd. destruct (Nat.eqb n 1); [reflexivity|]. rewrite (pl_idem L). reflexivity.
Qed.
Lemma tk_mrg_after : PrepLaws -> forall k n s ps, n <> 1 -> tk_mrg (local_after_syncs k n s) ps = tk_mrg s ps.
Proof.
  intros L k n s ps Hn. rewrite (local_after_syncs_eq L). destruct k as [|k]; [reflexivity|].
  unfold local_after_sync, tk_mrg. destruct (Nat.eqb n 1); [reflexivity|]. rewrite (pl_idem L). reflexivity.
Qed.

(* the second (third, ...) sync of a rank is the same per-rank program as the first: it sends the
   same state dict (save (prep (prep s)) = save (prep s)) and merges into an equal clone *)
Lemma synced_program_repeat : PrepLaws -> forall k n i Wg s, n <> 1 ->
  get_synced_metric (st M) tk_sd tk_mrg fx g n i Wg (local_after_syncs k n s)
  = get_synced_metric (st M) tk_sd tk_mrg fx g n i Wg s.
Proof.
  intros L k n i Wg s Hn. rewrite (local_after_syncs_eq L). destruct k as [|k]; [reflexivity|].
  unfold local_after_sync. destruct (Nat.eqb n 1) eqn:E; [reflexivity|].
  unfold get_synced_metric. rewrite E. unfold tk_sd, tk_mrg. rewrite (pl_idem L). reflexivity.
Qed.

(* (b) repeatability, on the toolkit model: whatever the first sync of the group does (returns on
   every rank, or stops at a collective mismatch = None), the k-th repetition -- every rank now
   holding the local object as the earlier syncs left it -- does the same and returns the same
   objects; likewise sync_and_compute returns the same values and get_synced_state_dict the same dicts *)
Theorem sync_repeatable : PrepLaws -> forall k Wg (ms : nat -> st M),
  let n := List.length g in
  run_all (respond g) (map (fun i => get_synced_metric (st M) tk_sd tk_mrg fx g n i Wg (local_after_syncs k n (ms i))) (seq 0 n))
  = run_all (respond g) (map (fun i => get_synced_metric (st M) tk_sd tk_mrg fx g n i Wg (ms i)) (seq 0 n)) /\
  run_all (respond g) (map (fun i => sync_and_compute (st M) (out M) tk_sd tk_mrg (cmp M c) fx g n i Wg (local_after_syncs k n (ms i))) (seq 0 n))
  = run_all (respond g) (map (fun i => sync_and_compute (st M) (out M) tk_sd tk_mrg (cmp M c) fx g n i Wg (ms i)) (seq 0 n)) /\
  run_all (respond g) (map (fun i => get_synced_state_dict (st M) tk_sd tk_mrg fx g n i Wg (local_after_syncs k n (ms i))) (seq 0 n))
  = run_all (respond g) (map (fun i => get_synced_state_dict (st M) tk_sd tk_mrg fx g n i Wg (ms i)) (seq 0 n)).
Proof.
  intros L k Wg ms n. destruct (Nat.eqb n 1) eqn:E.
  - assert (H1 : forall s, local_after_syncs k n s = s).
    { intros s. induction k as [|k IH]; [reflexivity|]. cbn [local_after_syncs]. rewrite IH.
      unfold local_after_sync. rewrite E. reflexivity. }
    repeat split; f_equal; apply map_ext; intros i; rewrite H1; reflexivity.
  - assert (Hn : n <> 1) by (apply Nat.eqb_neq; exact E).
    repeat split; f_equal; apply map_ext; intros i;
      unfold sync_and_compute, get_synced_state_dict; rewrite (synced_program_repeat L k n i Wg (ms i) Hn); reflexivity.
Qed.

Lemma schema_agree_ext Wg (mds mds' : nat -> mdict) order iv tl : (forall i, mds i = mds' i) ->
  schema_agree fx g Wg mds order iv tl -> schema_agree fx g Wg mds' order iv tl.
Proof.
  intros E [H1 H2]. split.
  - intros i Hi. rewrite <- E. apply H1. exact Hi.
  - intros k Hk. destruct (H2 k Hk) as (ss & Hss & Hid). exists ss. split; [|exact Hid].
    intros i Hi. rewrite <- E. apply Hss. exact Hi.
Qed.

(* ... and by C02 (sync_equals_local_merge_exact), when the ranks' state dicts agree in schema, the
   first and every later sync return on rank i the SAME object: the prepared local state merged
   with the other members' ideal values in rank order *)
Theorem sync_repeatable_merged : PrepLaws -> forall k Wg (ms : nat -> st M) order iv tl,
  let n := List.length g in
  n <> 1 -> n <= Wg -> NoDup order -> schema_agree fx g Wg (fun i => [(TMP, tk_sd (ms i))]) order iv tl ->
  let result := Some (map (fun i => Ok (mrg M c (prep M c (ms i))
                     (map dec (map (ideal_pseudo order iv) (filter (fun r => negb (Nat.eqb r i)) (seq 0 n)))))) (seq 0 n)) in
  run_all (respond g) (map (fun i => get_synced_metric (st M) tk_sd tk_mrg fx g n i Wg (ms i)) (seq 0 n)) = result /\
  run_all (respond g) (map (fun i => get_synced_metric (st M) tk_sd tk_mrg fx g n i Wg (local_after_syncs k n (ms i))) (seq 0 n)) = result.
Proof.
  intros L k Wg ms order iv tl n Hn HW Hnd Hsa result.
  assert (H1 : run_all (respond g) (map (fun i => get_synced_metric (st M) tk_sd tk_mrg fx g n i Wg (ms i)) (seq 0 n)) = result).
  { exact (ToolkitP.sync_equals_local_merge_exact (st M) tk_sd tk_mrg fx g Wg ms order iv tl Hn HW Hnd Hsa). }
  split; [exact H1|]. rewrite <- H1. apply (sync_repeatable L k Wg ms).
Qed.

(* collections (get_synced_metric_collection): same statement, through C02 *)
Theorem sync_collection_repeatable : PrepLaws -> forall k Wg (mcs : nat -> list (string * st M)) order iv tl,
  let n := List.length g in
  n <> 1 -> n <= Wg -> NoDup order ->
  schema_agree fx g Wg (fun i => map (fun km => (fst km, tk_sd (snd km))) (mcs i)) order iv tl ->
  let after := fun i => map (fun km => (fst km, local_after_syncs k n (snd km))) (mcs i) in
  run_all (respond g) (map (fun i => get_synced_metric_collection (st M) tk_sd tk_mrg fx g n i Wg (after i)) (seq 0 n))
  = run_all (respond g) (map (fun i => get_synced_metric_collection (st M) tk_sd tk_mrg fx g n i Wg (mcs i)) (seq 0 n)).
Proof.
  intros L k Wg mcs order iv tl n Hn HW Hnd Hsa after.
  assert (Hsa' : schema_agree fx g Wg (fun i => map (fun km => (fst km, tk_sd (snd km))) (after i)) order iv tl).
  { apply (schema_agree_ext Wg (fun i => map (fun km => (fst km, tk_sd (snd km))) (mcs i))); [|exact Hsa].
    intros i. unfold after. rewrite map_map. apply map_ext. intros km. cbn [fst snd].
    rewrite (tk_sd_after L k n (snd km) Hn). reflexivity. }
  pose proof (ToolkitP.sync_collection_equals_local_merge_exact (st M) tk_sd tk_mrg fx g Wg mcs order iv tl Hn HW Hnd Hsa) as E1.
  pose proof (ToolkitP.sync_collection_equals_local_merge_exact (st M) tk_sd tk_mrg fx g Wg after order iv tl Hn HW Hnd Hsa') as E2.
  cbv zeta in E1, E2. fold n in E1, E2. rewrite E1, E2.
  f_equal. apply map_ext. intros i. f_equal. unfold after. rewrite map_map. apply map_ext. intros km. cbn [fst snd].
  rewrite (tk_mrg_after L k n (snd km) _ Hn). reflexivity.
Qed.
End OnToolkit.
End Laws.

(* ------------------------------------------------------------------------------------------ *)
(* 3. The returned object is independent of the local one (pool semantics, Algebra/Pool.v)      *)
(* ------------------------------------------------------------------------------------------ *)
Section Independent.
Variable M : Metric.
Variable K : Codec M.
Variable c : cfg M.
Open Scope string_scope.

Definition steps (p : pool M) (ops : list val) : pool M :=
  fold_left (fun p o => fst (step M K c p o)) ops p.

Lemma steps_frame : forall ops p k, Forall (fun o => ~ In k (writes o)) ops ->
  get M c k (objs M (steps p ops)) = get M c k (objs M p).
Proof.
  induction ops as [|o r IH]; intros p k H; [reflexivity|]. inversion H as [|? ? Ho Hr]; subst.
  cbn [steps fold_left]. change (fold_left (fun p o => fst (step M K c p o)) r (fst (step M K c p o)))
    with (steps (fst (step M K c p o)) r).
  rewrite (IH _ k Hr). apply step_frame. exact Ho.
Qed.

Lemma get_set_nth_same : forall (l : list (st M)) i x, i < List.length l -> get M c i (set_nth i x l) = x.
Proof.
  unfold get. induction l as [|y l IH]; intros i x Hi; cbn [List.length] in Hi; [lia|].
  destruct i as [|i]; cbn [set_nth nth]; [reflexivity|]. apply IH. lia.
Qed.
Lemma set_nth_length {X} : forall (l : list X) i x, List.length (set_nth i x l) = List.length l.
Proof. induction l as [|y l IH]; intros [|i] x; cbn [set_nth List.length]; try reflexivity. rewrite IH. reflexivity. Qed.

(* one sync on the pool: the local object i is prepared, the returned object j is a deep copy of it
   merged with the pseudo-metrics ks (objects rebuilt from the gathered dicts) *)
Definition sync_ops (vi vj : val) (ks : list val) : list val :=
  [VT "prep" [vi]; VT "clone" [vi; vj]; VT "merge" [vj; VL ks]].

Theorem synced_metric_is_independent : forall (p : pool M) (vi vj : val) (ks : list val),
  nat_of vi <> nat_of vj -> nat_of vi < List.length (objs M p) -> nat_of vj < List.length (objs M p) ->
  let s := get M c (nat_of vi) (objs M p) in
  let p1 := steps p (sync_ops vi vj ks) in
  get M c (nat_of vi) (objs M p1) = prep M c s /\
  (forall k, k <> nat_of vi -> k <> nat_of vj -> get M c k (objs M p1) = get M c k (objs M p)) /\
  get M c (nat_of vj) (objs M p1)
    = mrg M c (prep M c s) (map (fun k => if Nat.eqb (nat_of k) (nat_of vi) then prep M c s
                                          else if Nat.eqb (nat_of k) (nat_of vj) then prep M c s
                                          else get M c (nat_of k) (objs M p)) ks) /\
  (* whatever is done afterwards to the returned object (or to any object other than i): updates,
     merges -- also merges that use i as a source --, resets, loads, clones into it *)
  forall ops, Forall (fun o => ~ In (nat_of vi) (writes o)) ops ->
    get M c (nat_of vi) (objs M (steps p1 ops)) = prep M c s /\
    snd (step M K c (steps p1 ops) (VT "compute" [vi])) = enc_out K c (cmp M c (prep M c s)).
Proof.
  intros p vi vj ks Hij Hi Hj s p1.
  set (i := nat_of vi) in *. set (j := nat_of vj) in *.
  set (l1 := set_nth i (prep M c s) (objs M p)).
  assert (Hl1i : get M c i l1 = prep M c s) by (apply get_set_nth_same; exact Hi).
  set (l2 := set_nth j (get M c i l1) l1).
  assert (Hl1len : List.length l1 = List.length (objs M p)) by apply set_nth_length.
  assert (Hl2len : List.length l2 = List.length (objs M p)) by (unfold l2; rewrite set_nth_length; exact Hl1len).
  set (src := map (fun k => get M c (nat_of k) l2) ks).
  assert (Hp1 : objs M p1 = set_nth j (mrg M c (get M c j l2) src) l2) by reflexivity.
  assert (Hl2i : get M c i l2 = prep M c s).
  { unfold l2. rewrite get_set_nth_other; [exact Hl1i|]. intros E. apply Hij. symmetry. exact E. }
  assert (Hl2j : get M c j l2 = prep M c s).
  { unfold l2. rewrite get_set_nth_same; [exact Hl1i|]. rewrite Hl1len. exact Hj. }
  assert (Hi1 : get M c i (objs M p1) = prep M c s).
  { rewrite Hp1. rewrite get_set_nth_other; [exact Hl2i|]. intros E. apply Hij. symmetry. exact E. }
  split; [exact Hi1|]. split; [|split].
  - intros k Hki Hkj. rewrite Hp1. rewrite get_set_nth_other by (intros E; apply Hkj; symmetry; exact E).
    unfold l2. rewrite get_set_nth_other by (intros E; apply Hkj; symmetry; exact E).
    unfold l1. rewrite get_set_nth_other by (intros E; apply Hki; symmetry; exact E). reflexivity.
  - rewrite Hp1. rewrite get_set_nth_same by (rewrite Hl2len; exact Hj). rewrite Hl2j. f_equal.
    unfold src. apply map_ext. intros k. destruct (Nat.eqb (nat_of k) i) eqn:Ei.
    + apply Nat.eqb_eq in Ei. rewrite Ei. exact Hl2i.
    + destruct (Nat.eqb (nat_of k) j) eqn:Ej.
      * apply Nat.eqb_eq in Ej. rewrite Ej. exact Hl2j.
      * apply Nat.eqb_neq in Ei. apply Nat.eqb_neq in Ej.
        unfold l2. rewrite get_set_nth_other by (intros E; apply Ej; symmetry; exact E).
        unfold l1. rewrite get_set_nth_other by (intros E; apply Ei; symmetry; exact E). reflexivity.
  - intros ops Hops. assert (Hg : get M c i (objs M (steps p1 ops)) = prep M c s).
    { rewrite (steps_frame ops p1 i Hops). exact Hi1. }
    split; [exact Hg|]. change (snd (step M K c (steps p1 ops) (VT "compute" [vi])))
      with (enc_out K c (cmp M c (get M c i (objs M (steps p1 ops))))). rewrite Hg. reflexivity.
Qed.

(* with the laws of prep: the local object's compute() after a sync and after any use of the
   returned object is what it was before the sync *)
Corollary synced_metric_use_keeps_local_results : PrepLaws M c ->
  forall (p : pool M) (vi vj : val) (ks ops : list val),
  nat_of vi <> nat_of vj -> nat_of vi < List.length (objs M p) -> nat_of vj < List.length (objs M p) ->
  Forall (fun o => ~ In (nat_of vi) (writes o)) ops ->
  snd (step M K c (steps (steps p (sync_ops vi vj ks)) ops) (VT "compute" [vi]))
  = snd (step M K c p (VT "compute" [vi])).
Proof.
  intros L p vi vj ks ops Hij Hi Hj Hops.
  destruct (synced_metric_is_independent p vi vj ks Hij Hi Hj) as (_ & _ & _ & H).
  destruct (H ops Hops) as [_ H2]. rewrite H2. rewrite (pl_cmp M c L). reflexivity.
Qed.
End Independent.

(* ------------------------------------------------------------------------------------------ *)
(* 4. Instances for the two functors                                                            *)
(* ------------------------------------------------------------------------------------------ *)

(* every additive class: _prepare_for_merge_state is the inherited no-op *)
Theorem add_PrepLaws (S : AddSpec) (c : acfg S) : PrepLaws (add_metric S) c.
Proof. apply PrepLaws_of_id. reflexivity. Qed.

(* every cache class: prep collapses the list of chunks into one chunk.  The congruence is "same
   samples in the same order" (the abstraction of Cache.cache_alg). *)
Section CacheInst.
Variable S : CacheSpec.
Variable c : ccfg S.
Let Mc := cache_metric S.
Definition cache_R (s t : list (cchunk S)) : Prop :=
  flat_map (csamples S c) s = flat_map (csamples S c) t.

Lemma cache_R_sources : forall ms ns, Forall2 cache_R ms ns ->
  map (flat_map (csamples S c)) ms = map (flat_map (csamples S c)) ns.
Proof. intros ms ns H. induction H as [|m n ms ns Hmn _ IH]; [reflexivity|]. cbn [map]. rewrite Hmn, IH. reflexivity. Qed.

Lemma cache_cong : ObsCong Mc c cache_R.
Proof.
  constructor.
  - intros s. reflexivity.
  - intros s t b H. unfold cache_R in *. cbn. rewrite !flat_map_app, H. reflexivity.
  - intros s t ms ns H Hs. unfold cache_R in *. cbn [Mc cache_metric plain mrg].
    rewrite !cache_merge_flat, H, (cache_R_sources ms ns Hs). reflexivity.
  - intros s t H. unfold cache_R in *. unfold Mc. rewrite !prep_preserves. exact H.
  - intros s t H. unfold cache_R in *. cbn. rewrite H. reflexivity.
  - intros s. unfold cache_R, Mc. apply prep_preserves.
Qed.

(* torch.cat([x]) = x: needed only for idempotence as an equality of states (the second sync
   sends the same dict) *)
Definition cat_single : Prop := forall x, ccat S c [x] = x.

Lemma cache_prep_idem : cat_single -> forall s, prep Mc c (prep Mc c s) = prep Mc c s.
Proof. intros H s. cbn. destruct s as [|x s]; cbn [is_nil]; [reflexivity|]. rewrite H. reflexivity. Qed.

Theorem cache_PrepLaws : cat_single -> PrepLaws Mc c.
Proof. intros H. apply (PrepLaws_of_cong Mc c cache_R cache_cong). apply cache_prep_idem. exact H. Qed.

(* without that hypothesis: everything except state-level idempotence *)
Theorem cache_prep_invisible : forall s,
  cmp Mc c (prep Mc c s) = cmp Mc c s /\
  (forall ops, outs Mc c (prep Mc c s) ops = outs Mc c s ops) /\
  (forall ops, outs Mc c (prep Mc c (prep Mc c s)) ops = outs Mc c (prep Mc c s) ops) /\
  (forall t l1 l2 ops, outs Mc c (mrg Mc c t (l1 ++ prep Mc c s :: l2)) ops = outs Mc c (mrg Mc c t (l1 ++ s :: l2)) ops).
Proof.
  intros s. pose proof cache_cong as HC. split; [|split; [|split]].
  - apply (oc_cmp Mc c cache_R HC). apply (oc_prep_rel Mc c cache_R HC).
  - intros ops. apply (cong_outs Mc c cache_R HC). apply (oc_prep_rel Mc c cache_R HC).
  - intros ops. apply (cong_outs Mc c cache_R HC). apply (oc_prep_rel Mc c cache_R HC).
  - intros t l1 l2 ops. apply (cong_outs Mc c cache_R HC). apply (oc_mrg Mc c cache_R HC); [apply (oc_refl Mc c cache_R HC)|].
    apply Forall2_middle; [apply (oc_refl Mc c cache_R HC)|apply (oc_prep_rel Mc c cache_R HC)].
Qed.

(* all cache specs of the development: ccat = concat, csamples = id *)
Lemma cat_single_of_injective : (forall x y, csamples S c x = csamples S c y -> x = y) -> cat_single.
Proof.
  intros Hinj x. apply Hinj. rewrite csamples_cat. cbn [flat_map]. apply app_nil_r.
Qed.
End CacheInst.
